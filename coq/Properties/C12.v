(* Property C12 — DNA views are lossless and stay aligned with the specification.
   Statements only; proofs in Proofs/GenoConcrete.v, Proofs/GenoViewsProofs.v.
   [normalize d] is the DNA the library builds from the decisions d (constructor normal form);
   [bind q s x] is DNA.use_spec (None = ValueError) returning the DNA with the specification node bound to every
   node; [aligned q s b] says every node of b is bound to the decision point of its own position. *)
From PG Require Import Common.Tactics Model.Geno Model.GenoViews Proofs.GenoBasics Proofs.GenoValid Proofs.GenoNext
  Proofs.GenoConcrete Proofs.GenoViewsProofs Proofs.GenoDict Proofs.GenoLookup Proofs.GenoExamples.

(* flat numbers: from_numbers (to_numbers d) gives the DNA back, bound and aligned *)
Theorem C12_numbers_roundtrip : forall q s d, wf s = true -> valid s d = true ->
  exists b, from_numbers q s (to_numbers (normalize d)) = Some b /\ strip b = normalize d /\ aligned q s b.
Proof. intros q s d Hwf Hv. apply (numbers_roundtrip q s d Hwf Hv). Qed.
Print Assumptions C12_numbers_roundtrip.

(* compact JSON value: the constructor's parser reads back every DNA in normal form whose inner nodes carry
   an int, a float or no value (no specification needed) *)
Theorem C12_compact_json_roundtrip : forall x, jsonable x ->
  exists f0, forall f, f0 <= f -> parse_nest f (to_compact x) = Some x.
Proof. exact compact_roundtrip. Qed.
Print Assumptions C12_compact_json_roundtrip.

(* ... in particular the DNA of every valid decision *)
Theorem C12_compact_json_roundtrip_valid : forall s d, wf s = true -> valid s d = true ->
  exists f0, forall f, f0 <= f -> parse_nest f (to_compact (normalize d)) = Some (normalize d).
Proof. exact compact_json_roundtrip. Qed.
Print Assumptions C12_compact_json_roundtrip_valid.

(* verbose JSON form (value and children apart, children compact) *)
Theorem C12_verbose_json_roundtrip : forall x, jsonable x -> ntop x -> (forall gs, dkids x <> [D VNone gs]) ->
  exists f0, forall f, f0 <= f -> parse_verbose f (to_verbose x) = Some x.
Proof. exact verbose_roundtrip. Qed.
Print Assumptions C12_verbose_json_roundtrip.

(* nested numbers (to_numbers(flatten=False)) with the repaired rendering of conditional chains *)
Theorem C12_nested_roundtrip : forall s d, wf s = true -> valid s d = true ->
  exists f0, forall f, f0 <= f -> parse_nest f (to_nested false (normalize d)) = Some (normalize d).
Proof. exact nested_numbers_roundtrip. Qed.
Print Assumptions C12_nested_roundtrip.

(* ... and the rendering found in the code (lossy_chain = true) does lose DNA(1, 2, 1) *)
Theorem C12_nested_roundtrip_refuted :
  let d := D (VInt 1) [D (VInt 2) [D (VInt 1) []]] in
  parse_nest 10 (to_nested true d) <> Some d /\ parse_nest 10 (to_nested false d) = Some d.
Proof. exact nested_lossy_refuted. Qed.
Print Assumptions C12_nested_roundtrip_refuted.

(* use_spec never changes the tree, and whatever it returns is aligned — this covers every producer that
   attaches the specification through use_spec: first_dna / next_dna / iter_dna / random_dna (attach_spec),
   DNA(value, spec=...), from_numbers, from_dict *)
Theorem C12_bind_keeps_tree : forall q s x b, bind q s x = Some b -> strip b = x.
Proof. exact bind_strip. Qed.
Print Assumptions C12_bind_keeps_tree.

Theorem C12_producers_aligned : forall q s x b, bind q s x = Some b -> aligned q s b.
Proof. exact bind_aligned. Qed.
Print Assumptions C12_producers_aligned.

(* every valid decision can be bound (so first / next / random, which return valid decisions by C11, hand out
   a bound, aligned DNA) *)
Theorem C12_valid_binds : forall q s d, wf s = true -> valid s d = true ->
  exists b, bind q s (normalize d) = Some b /\ strip b = normalize d /\ aligned q s b.
Proof. exact bind_complete. Qed.
Print Assumptions C12_valid_binds.

(* validation accepts every member *)
Theorem C12_valid_validates : forall s d, wf s = true -> valid s d = true -> validate s (normalize d) = true.
Proof. exact validate_complete. Qed.
Print Assumptions C12_valid_validates.

(* an aligned DNA is exactly the DNA rebuilt from its raw numbers: all exported views coincide *)
Theorem C12_views_of_aligned : forall q s d b, wf s = true -> valid s d = true -> strip b = normalize d ->
  aligned q s b -> from_numbers q s (to_numbers (strip b)) = Some b.
Proof. exact rebuilt_is_same. Qed.
Print Assumptions C12_views_of_aligned.

(* dictionary views.  Full statement (DESIGN.md): for all 3 key types x {value, choice, literal, choice_and_literal}
   x 3 multi-choice key modes, under view_ok, from_dict (to_dict d) = d.
   Proved here: key_type = 'id', multi_choice_key = 'subchoice', every value type except 'dna', with
   use_ints_as_literals = (value_type == 'literal'); view_ok = the ids of the decision points are pairwise different
   and, for the literal view, the literal values of every choice are pairwise different as Python values.
   MISSING (decided by the correspondence and the oracle only): key types 'name_or_id' (a list stored under a name is
   consumed item by item) and 'dna_spec', the 'parent' / 'both' multi-choice key modes, include_inactive_decisions,
   value_type = 'dna'. *)
Theorem C12_dict_roundtrip_partial : forall q s sd vt b, wf s = true -> valid s sd = true -> vt <> VT_dna ->
  ids_unique s -> (vt = VT_literal -> Forall lits_distinct (all_lits s)) ->
  bind q s (normalize sd) = Some b ->
  from_dict (ial_of vt) q s (to_dict (decision_points s) KT_id vt MC_subchoice false b) = Some b.
Proof. exact dict_roundtrip_id. Qed.
Print Assumptions C12_dict_roundtrip_partial.

(* what to_dict lists: exactly the active decisions of the valid decision, in order, each under the key of the
   decision point at its own address (so no decision is reported under another decision point's key) *)
Theorem C12_to_dict_lists_active_decisions : forall q s sd vt b, wf s = true -> valid s sd = true -> vt <> VT_dna ->
  bind q s (normalize sd) = Some b ->
  to_dict (decision_points s) KT_id vt MC_subchoice false b = puts (decision_points s) KT_id vt (acts s [] sd) [].
Proof. exact to_dict_acts. Qed.
Print Assumptions C12_to_dict_lists_active_decisions.

(* lookup in the dictionary view: under the id of every active decision point the view holds exactly the decision made
   at that decision point's own position (index / "i/n" / literal / "i/n (literal)" per the value style; the float or
   custom value).  [acts s [] sd] lists (address, decision) of the structured decision; key1 / leaf1 are the id of the
   decision point at that address and the rendering of the decision.
   MISSING: DNA.__getitem__ itself (value_type 'dna', 'both' keys, inactive decisions -> None, lookup by name): decided
   by the correspondence (op 15) and the oracle only. *)
Theorem C12_lookup_partial : forall q s sd vt b, wf s = true -> valid s sd = true -> vt <> VT_dna ->
  ids_unique s -> bind q s (normalize sd) = Some b ->
  forall e, In e (acts s [] sd) ->
  dget (to_dict (decision_points s) KT_id vt MC_subchoice false b) (key1 (decision_points s) e)
  = Some (DS (leaf1 (decision_points s) vt e)).
Proof. intros q s sd vt b Hwf Hv Hvt Hid Hb. exact (to_dict_reports q s sd vt b Hwf Hv Hvt Hid Hb). Qed.
Print Assumptions C12_lookup_partial.

(* to_dict for EVERY key / value / multi-choice-key style is the fold of the body of _dump_node over the decision nodes
   of the structured decision, each taken at the address of its own position *)
Theorem C12_to_dict_is_fold_over_decisions : forall q s sd kt vt m b, wf s = true -> valid s sd = true ->
  bind q s (normalize sd) = Some b ->
  to_dict (decision_points s) kt vt m false b = putns (decision_points s) kt vt m (nodes s [] sd) [].
Proof. exact to_dict_nodes. Qed.
Print Assumptions C12_to_dict_is_fold_over_decisions.

(* DNA.__getitem__ by decision point / by id (= _decision_by_id[dp.id], the ('id', 'dna', 'both', include_inactive) view):
   for EVERY decision point of the specification the lookup returns the decision node sitting at that decision point's
   own position, and None when the decision point is inactive.  ids_ok: ids pairwise different and no decision point
   carries the id of a multi-choice parent. *)
Theorem C12_lookup : forall q s sd b, wf s = true -> valid s sd = true -> ids_ok s ->
  bind q s (normalize sd) = Some b ->
  forall i, In i (decision_points s) ->
  dget (decision_by_id (decision_points s) b) (DKId (i_id i)) =
  Some (DS (match node_at (nodes s [] sd) (i_addr i) with Some n => LfDna n | None => LfNone end)).
Proof. exact lookup_by_id. Qed.
Print Assumptions C12_lookup.

(* dictionary round trip, key_type = 'id', multi_choice_key = 'subchoice' or 'both', every value type except 'dna',
   with or without include_inactive_decisions (ids_ok: ids pairwise different, none equal to a multi-choice parent's id) *)
Theorem C12_dict_roundtrip_id : forall q s sd vt m b, wf s = true -> valid s sd = true -> vt <> VT_dna -> m <> MC_parent ->
  ids_ok s -> (vt = VT_literal -> Forall lits_distinct (all_lits s)) ->
  bind q s (normalize sd) = Some b ->
  from_dict (ial_of vt) q s (to_dict (decision_points s) KT_id vt m false b) = Some b.
Proof. exact dict_roundtrip_id_both. Qed.
Print Assumptions C12_dict_roundtrip_id.

Theorem C12_dict_roundtrip_id_inactive : forall q s sd vt m b, wf s = true -> valid s sd = true -> vt <> VT_dna -> m <> MC_parent ->
  ids_ok s -> (vt = VT_literal -> Forall lits_distinct (all_lits s)) ->
  bind q s (normalize sd) = Some b ->
  from_dict (ial_of vt) q s (to_dict (decision_points s) KT_id vt m true b) = Some b.
Proof. exact dict_roundtrip_id_inactive. Qed.
Print Assumptions C12_dict_roundtrip_id_inactive.

(* key_type = 'dna_spec' (the decision point objects as keys; no hypothesis on ids), multi_choice_key = 'subchoice'.
   STILL MISSING for the full C12_dict_roundtrip: multi_choice_key = 'parent' (decisions only under the parent's key),
   'dna_spec' with 'both', key_type = 'name_or_id' (a list under a name is consumed item by item), value_type = 'dna':
   decided by the correspondence (45 combinations, shared-point family) and the oracle only. *)
Theorem C12_dict_roundtrip_dna_spec : forall q s sd vt b, wf s = true -> valid s sd = true -> vt <> VT_dna ->
  (vt = VT_literal -> Forall lits_distinct (all_lits s)) ->
  bind q s (normalize sd) = Some b ->
  from_dict (ial_of vt) q s (to_dict (decision_points s) KT_dna_spec vt MC_subchoice false b) = Some b.
Proof. exact dict_roundtrip_spec. Qed.
Print Assumptions C12_dict_roundtrip_dna_spec.

(* Property C12 — DNA views are lossless and aligned.  Statements only; proofs in Proofs/Geno*.v. *)
From PG Require Import Common.Tactics Model.Geno Model.GenoViews Proofs.GenoBasics.

Theorem C12_with_nth : forall A B (f : A -> B) d l n,
  with_nth f d l n = match nth_error l n with Some x => f x | None => d end.
Proof. exact with_nth_nth_error. Qed.
Print Assumptions C12_with_nth.

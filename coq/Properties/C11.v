(* Property C11 — search-space enumeration is exact.  Statements only; proofs in Proofs/Geno*.v. *)
From PG Require Import Common.Tactics Model.Geno Proofs.GenoBasics.

Theorem C11_with_nth : forall A B (f : A -> B) d l n,
  with_nth f d l n = match nth_error l n with Some x => f x | None => d end.
Proof. exact with_nth_nth_error. Qed.
Print Assumptions C11_with_nth.

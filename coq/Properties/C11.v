(* Property C11 — search-space enumeration is exact: every valid DNA once, nothing else.
   Statements only; proofs in Proofs/Geno*.v.  [all_valid s] is the specification: the compositional,
   lexicographically ordered list of the decisions that satisfy the constraints of s (arity, index ranges,
   distinctness, sortedness, conditional sub-spaces).  [finite]: no float / custom point (space_size <> -1);
   [wf]: what the constructors of the library enforce (k >= 1, at least one candidate, k <= #candidates when distinct). *)
From Coq Require Import Sorted.
From PG Require Import Common.Tactics Model.Geno Proofs.GenoBasics Proofs.GenoValid Proofs.GenoSize
  Proofs.GenoOrder Proofs.GenoNext Proofs.GenoIter Proofs.GenoRandom Proofs.GenoConcrete Proofs.GenoExact Proofs.GenoCmp Proofs.GenoExamples.

(* the set that is enumerated is precisely the set of decisions satisfying the constraints *)
Theorem C11_valid_iff : forall s d, finite s = true -> (valid s d = true <-> In d (all_valid s)).
Proof. exact valid_iff. Qed.
Print Assumptions C11_valid_iff.

(* ... where the constraint of a multi-choice means: distinct => no index twice, sorted => non-decreasing *)
Theorem C11_constraint_meaning : forall dist srt l,
  constraint_ok dist srt l = true <-> (dist = true -> NoDup l) /\ (srt = true -> StronglySorted le l).
Proof. exact constraint_ok_spec. Qed.
Print Assumptions C11_constraint_meaning.

(* the reported size (the transcribed recurrences of Choices.space_size, all four distinct x sorted modes,
   and the product of Space.space_size) is the number of valid decisions *)
Theorem C11_size : forall s, finite s = true -> space_size s = Some (N.of_nat (length (all_valid s))).
Proof. exact size_exact. Qed.
Print Assumptions C11_size.

(* strictly increasing, hence pairwise different *)
Theorem C11_sorted : forall s, StronglySorted slt (all_valid s).
Proof. exact all_valid_sorted. Qed.
Print Assumptions C11_sorted.

Theorem C11_pairwise_different : forall s, NoDup (all_valid s).
Proof. intros s. apply sorted_NoDup. apply all_valid_sorted. Qed.
Print Assumptions C11_pairwise_different.

(* first_dna is the head of the list *)
Theorem C11_first : forall s, finite s = true -> wf s = true -> hd_error (all_valid s) = Some (first s).
Proof. exact first_head. Qed.
Print Assumptions C11_first.

(* next_dna of a valid DNA is valid and greater *)
Theorem C11_next_sound : forall s, finite s = true -> wf s = true ->
  forall d d', valid s d = true -> next s d = Some d' -> valid s d' = true /\ slt d d'.
Proof. exact next_sound. Qed.
Print Assumptions C11_next_sound.

(* next_dna is the successor in the list: no valid DNA is skipped, and None exactly at the end
   (every nesting depth, every k, all four distinct x sorted modes) *)
Theorem C11_next_exact : forall s, finite s = true -> wf s = true ->
  forall d, valid s d = true -> next s d = succ_in sdna_eqb (all_valid s) d.
Proof. exact next_exact. Qed.
Print Assumptions C11_next_exact.

(* iterating yields exactly the list (as many DNAs as the size, ending with no successor) *)
Theorem C11_iter_exact : forall s, finite s = true -> wf s = true ->
  forall fuel, length (all_valid s) <= fuel -> iter s fuel = all_valid s.
Proof. exact iter_exact_fuel. Qed.
Print Assumptions C11_iter_exact.

(* the sweeping generator proposes the same sequence *)
Theorem C11_sweeping_same : forall s fuel, sweeping s fuel None = iter s fuel.
Proof. exact sweeping_same. Qed.
Print Assumptions C11_sweeping_same.

(* random generation returns a member, for every generator that meets the contract of random.Random the code
   relies on (sample: k distinct indices below n; randint below n; uniform inside the range) *)
Theorem C11_random_member :
  forall (R : Type) (sample : nat -> nat -> R -> list nat * R) (randint : nat -> R -> nat * R) (uniform : flt -> flt -> R -> flt * R),
  (forall n k r, k <= n -> length (fst (sample n k r)) = k /\ NoDup (fst (sample n k r)) /\ Forall (fun c => c < n) (fst (sample n k r))) ->
  (forall n r, 1 <= n -> fst (randint n r) < n) ->
  (forall lo hi r, (lo <= hi)%Z -> (lo <= fst (uniform lo hi r) <= hi)%Z) ->
  forall s r, wf s = true -> valid s (fst (random_dna R sample randint uniform s r)) = true.
Proof. exact random_member. Qed.
Print Assumptions C11_random_member.

(* validation accepts exactly the members: a DNA (in constructor normal form) validates iff it is the DNA of a
   valid decision.  [nocustom]: the children of a custom decision are user-defined, hence not constrained. *)
Theorem C11_validate_agrees : forall s d, wf s = true -> nocustom s = true -> nf d ->
  (validate s d = true <-> exists sd, valid s sd = true /\ normalize sd = d).
Proof.
  intros s d Hwf Hnc Hnf. split.
  - apply validate_exact; auto.
  - intros [sd [Hv <-]]. apply validate_complete; auto.
Qed.
Print Assumptions C11_validate_agrees.

(* binding (DNA.use_spec) accepts exactly the members, when the open finding's flag is off *)
Theorem C11_bind_agrees : forall q s d, no_quirks q -> wf s = true -> nocustom s = true -> nf d ->
  ((exists b, bind q s d = Some b) <-> exists sd, valid s sd = true /\ normalize sd = d).
Proof.
  intros q s d Hq Hwf Hnc Hnf. split.
  - intros [b Hb]. eapply bind_exact; eauto.
  - intros [sd [Hv <-]]. destruct (bind_complete q s sd Hwf Hv) as [b [Hb _]]. eauto.
Qed.
Print Assumptions C11_bind_agrees.

(* ... and with the flag on (the code as it is: KNOWN finding float-children) binding accepts a non-member *)
Theorem C11_bind_agrees_refuted :
  let s := Space [FloatP 0%Z 64%Z ([KName [97%N]], None)] in
  let d := D (VFlt 32%Z) [D (VInt 0%Z) []] in
  (exists b, bind q_float s d = Some b) /\ ~ (exists sd, valid s sd = true /\ normalize sd = d) /\ bind q_none s d = None.
Proof. exact bind_quirk_refuted. Qed.
Print Assumptions C11_bind_agrees_refuted.

(* DNA.__cmp__ on the DNAs of two valid decisions never raises and is the order of decisions *)
Theorem C11_order_agrees : forall s a b, wf s = true -> valid s a = true -> valid s b = true ->
  dna_cmp (normalize a) (normalize b) = Some (scmp a b).
Proof. exact order_agrees. Qed.
Print Assumptions C11_order_agrees.

(* hence the DNAs are yielded in strictly increasing order under DNA.__lt__ *)
Theorem C11_sorted_dna : forall s, finite s = true -> wf s = true ->
  StronglySorted dna_lt (map normalize (all_valid s)).
Proof. exact all_valid_sorted_concrete. Qed.
Print Assumptions C11_sorted_dna.

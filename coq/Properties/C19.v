(* Property C19 — permission-gated code execution never runs a forbidden construct.
   Only statements and [exact]; proofs live in Proofs/PermProofs.v. *)
From PG Require Import Common.Tactics Gen.PermTable Model.Perm Proofs.PermProofs Proofs.PermInstance Model.EvalModel Gen.EvalShape Proofs.EvalProofs Proofs.EvalInstance Model.EvalOut Gen.EvalOutPlan Proofs.EvalOutProofs Proofs.EvalOutInstance.
From Coq Require Import NArith.
Local Open Scope N_scope.

(* The validator rejects exactly the programs that contain, at any depth, a node one of whose
   table flags is not granted. *)
Theorem C19_rejects_iff : forall (tb : N -> list N) (g : perm) (t : ast),
  validate tb g t = false <-> exists n, subnode n t /\ exists f, In f (tb (kind n)) /\ g f = false.
Proof. exact validate_false_iff. Qed.
Print Assumptions C19_rejects_iff.

(* The table regenerated from the current source gates every construct the property names. *)
Theorem C19_table_covers : forall k f, In (k, f) required_pairs -> In f (tbl k).
Proof. exact (covers_spec tbl generated_table_covers). Qed.
Print Assumptions C19_table_covers.

(* Any program containing a named construct whose permission is withheld is refused with a code
   error and the interpreter ([exec], arbitrary) is never invoked on it. *)
Theorem C19_no_forbidden_runs : forall (outcome : Type) (exec : ast -> outcome) (g : perm) (t n : ast) (f : N),
  subnode n t -> In (kind n, f) required_pairs -> g f = false ->
  evaluate outcome exec tbl (Some g) t = CodeError outcome.
Proof. intros; eapply no_forbidden_runs; eauto using generated_table_covers. Qed.
Print Assumptions C19_no_forbidden_runs.

(* A program using only granted constructs is handed, whole, to the interpreter. *)
Theorem C19_granted_runs : forall (outcome : Type) (exec : ast -> outcome) (g : perm) (t : ast),
  validate tbl g t = true -> evaluate outcome exec tbl (Some g) t = Ran outcome (exec t).
Proof. intros; apply granted_runs_whole_program; assumption. Qed.
Print Assumptions C19_granted_runs.

(* Granting more never rejects more. *)
Theorem C19_monotone : forall (g g' : perm) (t : ast),
  (forall f, g f = true -> g' f = true) -> validate tbl g t = true -> validate tbl g' t = true.
Proof. exact (validate_monotone tbl). Qed.
Print Assumptions C19_monotone.

(* Nested permission scopes: the effective permission is the outermost one, hence never wider. *)
Theorem C19_scope_never_widens : forall o ps e, scope_nest (Some o) ps = Some e -> subset_bits e o = true.
Proof. exact scope_never_widens. Qed.
Print Assumptions C19_scope_never_widens.

Theorem C19_scope_outermost : forall p ps, scope_nest None (p :: ps) = Some p.
Proof. exact scope_outermost_wins. Qed.
Print Assumptions C19_scope_outermost.

(* evaluate(code, permission=arg) under enclosing scopes: whatever is enforced is within the
   outermost enclosing scope AND within the argument; the empty set is enforced, not ignored.
   (Stated on [eval_perm] as regenerated from the current execution.py.) *)
Theorem C19_evaluate_never_widens_scope : forall arg p ps e,
  eval_perm arg (scope_nest None (p :: ps)) = Some e -> subset_bits e p = true.
Proof. exact evaluate_never_widens_scope. Qed.
Print Assumptions C19_evaluate_never_widens_scope.

Theorem C19_evaluate_respects_argument : forall a s e, eval_perm (Some a) s = Some e -> subset_bits e a = true.
Proof. exact evaluate_respects_argument. Qed.
Print Assumptions C19_evaluate_respects_argument.

Theorem C19_evaluate_enforced_when_any_permission_given : forall a s,
  eval_perm (Some a) s <> None /\ eval_perm None (Some a) <> None /\ eval_perm (Some 0) s = Some 0.
Proof. exact evaluate_enforced_when_any_permission_given. Qed.
Print Assumptions C19_evaluate_enforced_when_any_permission_given.

(* End to end: a named construct at any depth whose flag is missing from the argument or from the
   outermost enclosing scope makes evaluate() refuse the program. *)
Theorem C19_evaluate_refuses : forall arg scopes t n f,
  subnode n t -> In (kind n, f) required_pairs ->
  (exists a, arg = Some a /\ N.testbit a f = false) \/ (exists p ps, scopes = p :: ps /\ N.testbit p f = false) ->
  evaluate_accepts tbl arg scopes t = false.
Proof. exact evaluate_refuses. Qed.
Print Assumptions C19_evaluate_refuses.

(* ---- the last-statement handling of evaluate(): each side effect exactly once, same bindings, documented result ----
   Stated for every plan satisfying the decidable [shape_ok]; the plan regenerated from the current execution.py
   (Gen/EvalShape.v) satisfies it (instance obligation generated_shape_ok, re-checked on every run). *)
(* Apart from binding '__result__', evaluate() performs exactly the events of plain execution — expression evaluations,
   statement executions, name bindings and stores through complex targets — each once and in the same order
   (so `x[i] = i = 2` in last position stores at the old i, as Python does). *)
Theorem C19_evaluate_events_equal_plain : forall p, prog_wf p = true ->
  program_events (evaluate_events shape p) = plain p.
Proof. intros p Hp. exact (events_equal_plain shape p generated_shape_ok Hp). Qed.
Print Assumptions C19_evaluate_events_equal_plain.

Theorem C19_evaluate_effects_once : forall p, prog_wf p = true ->
  effects (evaluate_events shape p) = effects (plain p).
Proof. intros p Hp. exact (effects_equal shape p generated_shape_ok Hp). Qed.
Print Assumptions C19_evaluate_effects_once.

Theorem C19_evaluate_same_bindings : forall p n, prog_wf p = true -> n <> result_name ->
  last_store n (evaluate_events shape p) = last_store n (plain p).
Proof. intros p n Hp Hn. exact (bindings_equal shape p n generated_shape_ok Hp Hn). Qed.
Print Assumptions C19_evaluate_same_bindings.

Theorem C19_evaluate_result_is_last_value : forall p body last e, prog_wf p = true ->
  split_last p = Some (body, last) -> s_value last = Some e -> (is_expr last || is_assign last) = true ->
  last_store result_name (evaluate_events shape p) = Some e.
Proof. exact generated_result_is_last_value. Qed.
Print Assumptions C19_evaluate_result_is_last_value.

(* ---- intermediate variables (Model/EvalOut.v; plan regenerated from execution.py into Gen/EvalOutPlan.v) ------------- *)
(* The names evaluate(outputs_intermediate=True) reports, other than '__result__', are exactly the names that plain
   execution of the same program on the same symbols leaves bound to an object that is not the injected one (new names
   included, deleted and untouched names excluded); evaluate fails exactly when plain execution does. For every nesting
   of pg.coding.context scopes, every global_vars and every straight-line program of bindings, deletions and reads. *)
Theorem C19_intermediates_exact : forall ctxs gv p, p <> [] ->
  match evaluate_out out_plan ctxs gv p, plain_env (symbols out_plan ctxs gv) p with
  | Some r, Some gp =>
      forall k v, k <> RESULT ->
        (In (k, v) r <-> k <> BUILTINS /\ lookup k gp = Some v /\ lookup k (symbols out_plan ctxs gv) <> Some v)
  | None, None => True
  | _, _ => False
  end.
Proof. intros; apply intermediates_exact; [exact generated_out_plan_ok | assumption]. Qed.
Print Assumptions C19_intermediates_exact.

(* The value of a trailing expression / assignment is reported under '__result__'. *)
Theorem C19_result_reported : forall ctxs gv body s g1 v, is_popped s = true ->
  exec (add_builtins (symbols out_plan ctxs gv)) body = Some g1 -> rhs s g1 = Some v ->
  lookup RESULT (symbols out_plan ctxs gv) <> Some v ->
  exists r, evaluate_out out_plan ctxs gv (body ++ [s]) = Some r /\ In (RESULT, v) r.
Proof. intros; eapply result_reported; eauto using generated_out_plan_ok. Qed.
Print Assumptions C19_result_reported.

(* Which symbols the program sees: global_vars win over context symbols, an inner context over an outer one. *)
Theorem C19_global_vars_win : forall ctxs gv k, wf gv ->
  lookup k (symbols out_plan ctxs gv) =
  match lookup k gv with Some v => Some v | None => lookup k (context_symbols out_plan ctxs) end.
Proof. intros; apply global_vars_win; [exact generated_out_plan_ok | assumption]. Qed.
Print Assumptions C19_global_vars_win.

Theorem C19_inner_context_wins : forall ctxs c k, wf c ->
  lookup k (context_symbols out_plan (ctxs ++ [c])) =
  match lookup k c with Some v => Some v | None => lookup k (context_symbols out_plan ctxs) end.
Proof. intros; apply inner_context_wins; [exact generated_out_plan_ok | assumption]. Qed.
Print Assumptions C19_inner_context_wins.

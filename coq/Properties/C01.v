(* Property C01 — symbolic tree integrity.  Only statements and [exact]; proofs live in Proofs/SymCoreWF.v,
   SymCoreWFOps.v (parent / path), SymCoreIds.v (identities). *)
From PG Require Import Common.Tactics Model.SymCoreDefs Model.SymCoreOps Model.SymCoreSpec
     Proofs.SymCoreBase Proofs.SymCoreWF Proofs.SymCoreWFOps Proofs.SymCoreIds.
From PG Require Import Model.SymCoreC02 Proofs.SymCoreExtWF.
From Coq Require Import NArith.

(* [WF st] (Model/SymCoreSpec.v): every tree the user holds is where it believes to be, node by node -- the stored parent of
   a node is the id of the container it is actually stored in, its stored path is the sequence of keys that leads to it from
   its root, list keys are the positions 0..n-1, dict keys are distinct, a root has no parent and the empty path -- and the
   node ids of the whole forest are pairwise distinct (and below the allocation counter). *)

(* Every step of every operation of the catalogue -- whatever the scope stack and the arguments, whether it succeeds, is
   refused or fails half-way through a batch -- preserves it (for any quirk flags: no open finding touches integrity). *)
Theorem C01_step_wf : forall q st o, WF st -> WF (fst (step q st o)).
Proof. exact step_WF. Qed.
Print Assumptions C01_step_wf.

(* Hence every finite history from any constructed forest does. *)
Theorem C01_tree_integrity : forall q ls ops,
  forallb lit_valid ls = true -> WF (run_ops q (init_forest ls empty_state) ops).
Proof. exact history_WF. Qed.
Print Assumptions C01_tree_integrity.

(* The parent / path half alone needs no assumption on identities. *)
Theorem C01_step_wf_structure : forall q st o, wfs st -> wfs (fst (step q st o)).
Proof. exact step_wfs. Qed.
Print Assumptions C01_step_wf_structure.

(* What WF says, in the words of the property: a node stored under key k of a container reports that container as its
   (only) parent and the container's path + k as its path ... *)
Theorem C01_child_reports_container : forall st r p k cid ck cpa cpt cfl cits i kd pa pt fl its,
  wfs st -> get_at st (r, p) = Some (Node cid ck cpa cpt cfl cits) ->
  get_at st (r, p ++ [k]) = Some (Node i kd pa pt fl its) ->
  pa = Some cid /\ pt = p ++ [k].
Proof. exact child_reports_container. Qed.
Print Assumptions C01_child_reports_container.

(* ... a root -- in particular a node that an operation removed or replaced, which the step hands back as a root --
   reports no parent and the empty path: it is no longer reported as a child of the tree it was removed from ... *)
Theorem C01_root_reports_no_parent : forall st r i kd pa pt fl its,
  wfs st -> get_at st (r, []) = Some (Node i kd pa pt fl its) -> pa = None /\ pt = [].
Proof. exact root_reports_no_parent. Qed.
Print Assumptions C01_root_reports_no_parent.

(* (every node that leaves a tree does so through [add_detached] -- del, pop, remove, clear, popitem, replacement by
   assignment / rebind / update -- which hands it back as a root: its own slot if it had been a root before, a new one otherwise) *)
Theorem C01_removed_is_root : forall st i k pa pt fl its,
  exists r t, nth_error (roots (add_detached st (Node i k pa pt fl its))) r = Some (Live t) /\
              nid t = Some i /\ npar t = None /\ npth t = [] /\ t = detach (Node i k pa pt fl its).
Proof. exact detached_is_root. Qed.
Print Assumptions C01_removed_is_root.

(* ... looking the reported path up from the root returns that very node ... *)
Theorem C01_path_lookup : forall st r p i k pa pt fl its,
  wfs st -> get_at st (r, p) = Some (Node i k pa pt fl its) -> pt = p.
Proof. exact path_lookup_wfs. Qed.
Print Assumptions C01_path_lookup.

(* ... and one node object never appears in two places. *)
Theorem C01_no_node_twice : forall st r1 p1 r2 p2 i k1 pa1 pt1 fl1 its1 k2 pa2 pt2 fl2 its2,
  WF st ->
  get_at st (r1, p1) = Some (Node i k1 pa1 pt1 fl1 its1) -> get_at st (r2, p2) = Some (Node i k2 pa2 pt2 fl2 its2) ->
  r1 = r2 /\ p1 = p2.
Proof. exact no_node_twice_WF. Qed.
Print Assumptions C01_no_node_twice.

(* The whole list / dict surface.  The C02 extension of the model (Model/SymCoreC02.v) adds slice assignment l[a:b:c] = vs, slice
   deletion del l[a:b:c] and the merges d | m, m | d to the catalogue ([op2], [step2]; [step2 q st (Base o) = step q st o]).
   Every step over the extended catalogue preserves WF too -- whatever the slice, the values, the scope stack, and whether the
   batch of writes of a slice assignment is refused half-way ... *)
Theorem C01_step2_wf : forall q st o, WF st -> WF (fst (step2 q st o)).
Proof. exact step2_WF. Qed.
Print Assumptions C01_step2_wf.
(* ... hence every finite history of base and extension operations from any constructed forest does (all state theorems above --
   child reports container, root reports no parent, path lookup, no node twice -- therefore hold in every state so reached). *)
Theorem C01_tree_integrity_full_surface : forall q ls ops,
  forallb lit_valid ls = true -> WF (run_ops2 q (init_forest ls empty_state) ops).
Proof. exact history2_WF. Qed.
Print Assumptions C01_tree_integrity_full_surface.
Theorem C01_step2_extends_step : forall q st o, step2 q st (Base o) = step q st o.
Proof. exact step2_base. Qed.
Print Assumptions C01_step2_extends_step.

(* Property C01 — symbolic tree integrity.  Only statements and [exact]; proofs live in Proofs/SymCoreWF*.v. *)
From PG Require Import Common.Tactics Model.SymCoreDefs Model.SymCoreOps Model.SymCoreSpec Proofs.SymCoreBase Proofs.SymCoreWF.
From Coq Require Import NArith.

(* In a well-formed state, the node found at a position reports exactly that position as its path:
   looking the reported path up from the root returns that very node. *)
Theorem C01_path_lookup : forall st r p i k pa pt fl its,
  WF st -> get_at st (r, p) = Some (Node i k pa pt fl its) -> pt = p.
Proof. exact path_lookup. Qed.
Print Assumptions C01_path_lookup.

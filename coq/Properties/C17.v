(* Property C17 — scoped settings restore exactly and never leak across threads.
   Only statements and [exact]; proofs live in Proofs/Scopes*.v. *)
From PG Require Import Common.Tactics Model.ScopesBase Gen.ScopeDefs Model.Scopes Proofs.ScopesInstance.

(* The thread-local keys regenerated from the source are pairwise distinct. *)
Theorem C17_keys_distinct : distinct key_names = true /\ length key_names = nkeys.
Proof. exact generated_keys_distinct. Qed.
Print Assumptions C17_keys_distinct.

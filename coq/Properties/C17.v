(* Property C17 — scoped settings restore exactly and never leak across threads.
   Only statements and [exact]; proofs live in Proofs/Scopes*.v.  The scope definitions the theorems are about
   (Gen/ScopeDefs.v) are regenerated from the source of /repo on every run. *)
From PG Require Import Common.Tactics Model.ScopesBase Gen.ScopeDefs Model.Scopes
  Proofs.ScopesStore Proofs.ScopesInstance Proofs.ScopesRestore Proofs.ScopesCongruence Proofs.ScopesEffective Proofs.ScopesMachine Proofs.ScopesFrame Proofs.ScopesSpec Proofs.ScopesExamples.

(* (1) RESTORATION.  For every well-nested program over all the managers — any depth, any argument values,
   exceptions raised anywhere and caught anywhere, enters that fail — and every state s (even an ill-typed one),
   the state after the program is observationally the state before it. *)
Theorem C17_restore : forall (p : sprog) (s : state), obs_eq (final (exec p s)) s.
Proof. exact restore. Qed.
Print Assumptions C17_restore.

(* ... where "observationally" is justified: no getter and no later program (of any shape) can tell two
   observationally equal states apart. *)
Theorem C17_restore_indistinguishable : forall (p q : sprog) (s : state),
  observations (exec q (final (exec p s))) = observations (exec q s) /\
  escapes (exec q (final (exec p s))) = escapes (exec q s).
Proof. exact restore_indistinguishable. Qed.
Print Assumptions C17_restore_indistinguishable.

Theorem C17_obs_eq_getters : forall (g : getter) (s t : state), obs_eq s t -> observe g s = observe g t.
Proof. exact observe_congr. Qed.
Print Assumptions C17_obs_eq_getters.

(* For the value scopes as generated (all flag managers, per-thread dynamic evaluation) the stores are restored
   syntactically: a key that was absent is deleted again, a key that was present gets its saved value back. *)
Theorem C17_restore_value_scopes_exact : forall (p : sprog) (s : state), exact_prog p = true -> final (exec p s) = s.
Proof. exact restore_exact. Qed.
Print Assumptions C17_restore_value_scopes_exact.

(* the base case, on the REGENERATED thread_local_value_scope: leaving restores the store it was entered in *)
Theorem C17_value_scope_generated_restores : forall k a init s s1 sv,
  thread_local_value_scope_enter k a init s = Some (s1, sv) -> thread_local_value_scope_exit k a init sv s1 = s.
Proof. exact value_scope_restores. Qed.
Print Assumptions C17_value_scope_generated_restores.

(* (2) EFFECTIVENESS.  Inside `with c(a)`, right after entering and after any part of the body that lets no
   exception escape, the getter of c returns the documented nesting rule [rule c a s] (innermost wins for value
   scopes, outermost wins for permission, cascade for contextual override, merged keyword arguments for the
   argument scopes, outer mappings first for detours). *)
Theorem C17_effective : forall c a p s s1 sv, wt s -> valid_cm c = true ->
  cm_enter c a s = Some (s1, sv) -> escapes (exec p s1) = false ->
  observations (exec (Scope c a (Seq p (Obs (getter_of c)))) s) = observations (exec p s1) ++ [rule c a s].
Proof. exact effective_in_body. Qed.
Print Assumptions C17_effective.

Theorem C17_permission_never_widens : forall a b p s s1 sv, wt s -> is_none a = false ->
  observe GPerm s = v_none -> cm_enter CPerm a s = Some (s1, sv) -> escapes (exec p s1) = false ->
  observations (exec (Scope CPerm a (Seq p (Scope CPerm b (Obs GPerm)))) s) = observations (exec p s1) ++ [a].
Proof. exact permission_outermost. Qed.
Print Assumptions C17_permission_never_widens.

Theorem C17_contextual_cascade : forall vs p n, nodup_keys vs = true ->
  dict_get n (contextual_merge p vs) = cascade_rule (dict_get n p) (dict_get n vs).
Proof. exact contextual_cascade. Qed.
Print Assumptions C17_contextual_cascade.

(* view_options: dict-valued options (nested to any depth) are deep-merged, key by key; values are immutable in the
   model, so an inner scope can never rewrite the outer scope's options or the caller's argument *)
Theorem C17_view_options_deep_merge : forall b a n, nodup_keys b = true ->
  dict_get n (dict_merge a b) = merge_rule (dict_get n a) (dict_get n b).
Proof. exact view_options_deep_merge. Qed.
Print Assumptions C17_view_options_deep_merge.

Theorem C17_deep_merge_recursion :
  (forall od nd, atom_merge (AD od) (AD nd) = AD (dict_merge od nd)) /\
  (forall o n, (forall d, n <> AD d) \/ (forall d, o <> AD d) -> atom_merge o n = n).
Proof. exact (conj atom_merge_dicts atom_merge_replace). Qed.
Print Assumptions C17_deep_merge_recursion.

(* the loops REGENERATED from contextual.py and class_detour.py compute exactly these rules *)
Theorem C17_contextual_generated_is_cascade : forall vs l p, tl_get k_contextual v_empty_dict l = VD p ->
  contextual_scope_enter (VD vs) l =
  Some (tl_set k_contextual (VD (contextual_merge p vs)) l, [VD p; VD (contextual_merge p vs)]).
Proof. exact contextual_scope_enter_dict. Qed.
Print Assumptions C17_contextual_generated_is_cascade.

Theorem C17_detour_generated_is_rule : forall a l c, current_mappings l = VD c ->
  exists nw, detour_scope_enter a l = Some (tl_push k_detour (VD (detour_spec c a)) l, [VD (detour_spec c a); nw]).
Proof. exact detour_scope_enter_typed. Qed.
Print Assumptions C17_detour_generated_is_rule.

Theorem C17_detour_outer_wins : forall cur ms k, dict_has k cur = true ->
  dict_get k (dict_update cur (filter_map (detour_resolve cur) ms)) = dict_get k cur.
Proof. exact detour_outer_wins. Qed.
Print Assumptions C17_detour_outer_wins.

(* ... and entering a manager changes no getter but its own (the thread-local keys regenerated from the source are
   pairwise distinct, and every manager writes one slot only). *)
Theorem C17_no_interference : forall c a s s1 sv q,
  cm_enter c a s = Some (s1, sv) -> q <> getter_of c -> observe q s1 = observe q s.
Proof. exact enter_no_interference. Qed.
Print Assumptions C17_no_interference.

(* (1)+(2) in one statement: REFINEMENT of the documented semantics.  In the specification [aexec] a scope is lexical:
   entering changes what the manager's getter returns, by the nesting rule [arule], for the body only — there are no
   stores, no saved values and no exit.  The model of the code (finally blocks, popped stacks, keys deleted again)
   produces exactly the observations and the exception behaviour of that specification, for every program (any
   depth, exceptions anywhere, failing enters) from every well-typed state. *)
Theorem C17_refines_lexical_spec : forall p s A, wt s -> valid_prog p = true -> refines s A ->
  observations (exec p s) = fst (aexec p A) /\ escapes (exec p s) = snd (aexec p A).
Proof. exact refinement. Qed.
Print Assumptions C17_refines_lexical_spec.

(* (3) ISOLATION.  Any number of threads, any programs, any event schedule: a thread whose own program uses the
   thread-local managers and getters ends with exactly the observations, exception flag and thread store it has
   when run alone — whatever the other threads do, process-wide managers included. *)
Theorem C17_isolation : forall (ps : list sprog) (sched : list nat) (i : nat) (p : sprog),
  nth_error ps i = Some p -> tl_only p = true ->
  nth_error (ths (run_threads ps sched)) i =
  Some (mkThread (Ret (escapes (exec p init_state))) [] (observations (exec p init_state)), fst (final (exec p init_state))).
Proof. exact isolation_threads. Qed.
Print Assumptions C17_isolation.

(* the same for every interleaving of single machine steps, from any world, at any moment of the run *)
Theorem C17_isolation_steps : forall sched w i t l g0,
  nth_error (ths w) i = Some (t, l) -> tl_thread t = true ->
  nth_error (ths (run_steps sched w)) i = Some (solo_local (count i sched) t l g0) /\
  tl_thread (fst (solo_local (count i sched) t l g0)) = true.
Proof. exact isolation_steps. Qed.
Print Assumptions C17_isolation_steps.

(* when no thread uses a process-wide manager, every thread is isolated, per-thread dynamic evaluation included *)
Theorem C17_isolation_without_process_wide : forall ps sched i p,
  (forall q, In q ps -> no_global q = true) -> nth_error ps i = Some p ->
  nth_error (ths (run_threads ps sched)) i =
  Some (mkThread (Ret (escapes (exec p init_state))) [] (observations (exec p init_state)), fst (final (exec p init_state))).
Proof. exact isolation_threads_ng. Qed.
Print Assumptions C17_isolation_without_process_wide.

(* explicit propagation: overrides captured in one thread and re-entered in a fresh thread are read back unchanged *)
Theorem C17_propagation : forall cur a s1 sv, nodup_keys cur = true -> a = VD cur ->
  cm_enter CContextual a init_state = Some (s1, sv) -> observe GContextual s1 = VD cur.
Proof. exact propagation. Qed.
Print Assumptions C17_propagation.

(* (4) PROCESS-WIDE MANAGERS.  Only dynamic_evaluate(per_thread=False) and load_types_for_deserialization write
   the process-wide store; both are among the managers the library documents as process-wide; they really are
   visible from another thread, while apply_wrappers (documented as not thread-safe) is per thread here. *)
Theorem C17_process_wide_documented :
  (forall c, cm_global c = true -> documented_process_wide c = true) /\
  (forall c a l g s1 sv, cm_global c = false -> cm_enter c a (l, g) = Some (s1, sv) -> snd s1 = g) /\
  (forall c a sv l g, cm_global c = false -> snd (cm_exit c a sv (l, g)) = g) /\
  visible_witness CDynEvalGlobal (VA (AInt 7)) = [VA (AInt 7)] /\
  visible_witness CLoadTypes (VD [(0%Z, AInt 1)]) = [VD [(0%Z, AInt 1)]] /\
  visible_witness CApplyWrappers (VD [(5%Z, AInt 8)]) = [VD []].
Proof.
  exact (conj global_is_documented (conj enter_keeps_glob (conj exit_keeps_glob
        (conj dyn_global_visible (conj load_types_visible apply_wrappers_not_visible))))).
Qed.
Print Assumptions C17_process_wide_documented.

(* The machine used for interleavings computes exactly the big-step semantics the other theorems are about. *)
Theorem C17_machine_is_exec : forall p s n, fuel_for p <= n ->
  run_solo n (start p) s = (mkThread (Ret (escapes (exec p s))) [] (observations (exec p s)), final (exec p s)).
Proof. exact machine_computes_exec. Qed.
Print Assumptions C17_machine_is_exec.

(* Instance obligations on the regenerated definitions. *)
Theorem C17_generated_keys_distinct : distinct key_names = true /\ length key_names = nkeys.
Proof. exact generated_keys_distinct. Qed.
Print Assumptions C17_generated_keys_distinct.

Theorem C17_generated_flags_cover : forallb flag_ok spec_flags = true /\ distinct (map (fun i => (i, [])) spec_flags) = true.
Proof. exact generated_flags_cover. Qed.
Print Assumptions C17_generated_flags_cover.

(* Property C18 — symbolized callables keep Python call semantics.
   Only statements and [exact]; proofs live in Proofs/Binding*.v. *)
From PG Require Import Common.Tactics Model.Binding Proofs.BindingProofs.
From Coq Require Import NArith.
Local Open Scope N_scope.

Theorem C18_clone_state : forall st, clone_state st = st.
Proof. exact clone_keeps_state. Qed.
Print Assumptions C18_clone_state.

(* Property C18 — symbolized callables keep Python call semantics.
   Only statements and [exact]; definitions are in Model/Binding.v, proofs in Proofs/Binding*.v. *)
From PG Require Import Common.Tactics Model.Binding Proofs.BindingMaps Proofs.BindingProofs Proofs.BindingSig Proofs.BindingReport Proofs.BindingDirect Proofs.BindingClass Proofs.BindingSets Model.BindingLang Gen.BindingCallTime Model.BindingRun Proofs.BindingGen Proofs.BindingNotify Proofs.BindingUnbind.
From Coq Require Import NArith.
Local Open Scope N_scope.

(* Calling the functor = the language rule applied to the effective arguments.
   Any signature with distinct parameter names; any construction call (positional, keyword, *args
   by overflow or by name, surplus, unknown and duplicate arguments), any sequence of later
   bindings of acceptable names, any call whose keywords are distinct and do not use the name of
   *args, any setting of override_args / ignore_extra_args at construction and at call time:
   the functor pipeline (Functor.__init__, _on_change, _parse_call_time_overrides, the call of the
   wrapped function) returns exactly the bound arguments, or the TypeError, that [py_bind] gives for
   the direct call with the merged arguments. *)
Theorem C18_call_equiv : forall q s ctor ov ie lates c ovo ieo,
  wf_sig s -> no_quirks q -> late_names_ok s lates -> call_ok s c ->
  functor_bind q s ctor ov ie lates c ovo ieo =
  spec_outcome s ctor lates c (match ovo with Some b => b | None => ov end) (match ieo with Some b => b | None => ie end).
Proof. exact functor_binds_effective_arguments. Qed.
Print Assumptions C18_call_equiv.

(* With the open finding (a later binding that stores the integer an attribute already shows is not
   recorded) the same holds for every input that has no such binding ... *)
Theorem C18_call_equiv_partial : forall q s ctor ov ie lates c ovo ieo,
  wf_sig s -> late_names_ok s lates -> call_ok s c ->
  (forall st, functor_ctor s ctor ov ie = Ok st -> lates_avoid_noop s st lates) ->
  functor_bind q s ctor ov ie lates c ovo ieo =
  spec_outcome s ctor lates c (match ovo with Some b => b | None => ov end) (match ieo with Some b => b | None => ie end).
Proof. exact functor_binds_effective_arguments_partial. Qed.
Print Assumptions C18_call_equiv_partial.

(* ... and fails on one that has: def f(a, b=11); x = f.partial(5); x.rebind(b=11); x(b=7). *)
Theorem C18_call_equiv_refuted : exists q s ctor lates c,
  wf_sig s /\ late_names_ok s lates /\ call_ok s c /\
  functor_bind q s ctor false false lates c None None <> spec_outcome s ctor lates c false false.
Proof. exact noop_rebind_refutes. Qed.
Print Assumptions C18_call_equiv_refuted.

(* What the functor reports after construction and later bindings describes the arguments supplied
   so far: specified_args are exactly the supplied names, sym_init_args shows the supplied value, else
   the default, else nothing; the *args attribute holds the variadic values; the flags are kept. *)
Theorem C18_reported_args : forall q s ctor ov ie lates st0 st,
  wf_sig s -> no_quirks q -> late_names_ok s lates ->
  functor_ctor s ctor ov ie = Ok st0 -> late_all q s st0 lates = Ok st ->
  exists e, bound_arguments s ctor lates = Ok e /\
    (forall k, is_va s k = false -> smem k (spec st) = kmem k (enamed e)) /\
    (has_va s = true -> smem (va_name s) (spec st) = match evar e with Some _ => true | None => false end) /\
    (forall k, kget k (attrs st) = match kget k (enamed e) with Some v => Some v | None => default_of s k end) /\
    vattr st = match evar e with Some l => l | None => [] end /\
    f_ov st = ov /\ f_ie st = ie.
Proof. exact functor_reports_effective_arguments. Qed.
Print Assumptions C18_reported_args.

(* The __init__ generated from the schema (to_schema, from_schema, make_function) has the signature
   of the original function, for every signature the language accepts: names, order, kinds and
   defaults; the schema has no positional-only marker, those parameters become ordinary positional
   ones ([drop_posonly]). *)
Theorem C18_signature : forall s, wf_sig s -> no_gap (pos s) false = true -> generated_init_sig s = drop_posonly s.
Proof. exact generated_init_signature_is_original. Qed.
Print Assumptions C18_signature.

(* A clone and a JSON round trip answer every later call as the original does, and report the same
   arguments (the two flags are constructor options and are not part of the JSON form: they are
   given explicitly at the call here). *)
Theorem C18_clone_json : forall q s ctor ov ie lates st0 st c o i,
  wf_sig s -> no_quirks q -> late_names_ok s lates -> call_ok s c ->
  functor_ctor s ctor ov ie = Ok st0 -> late_all q s st0 lates = Ok st ->
  functor_call s (clone_state st) c (Some o) (Some i) = functor_call s st c (Some o) (Some i) /\
  functor_call s (json_state s st) c (Some o) (Some i) = functor_call s st c (Some o) (Some i) /\
  (forall k, kget k (attrs (json_state s st)) = kget k (attrs st)) /\
  vattr (json_state s st) = vattr st /\
  (forall k, is_va s k = false -> smem k (spec (json_state s st)) = smem k (spec st)) /\
  (has_va s = true -> smem (va_name s) (spec (json_state s st)) = smem (va_name s) (spec st)).
Proof. exact clone_and_json_keep_effective_arguments. Qed.
Print Assumptions C18_clone_json.

(* The specification read directly: the direct call with the effective arguments gives every named
   parameter its supplied value, else its default, else is a TypeError; *args receives the variadic
   values and **kwargs the remaining names ([direct_bind] = [fill] over the parameters). *)
Theorem C18_effective_call_meaning : forall s ctor lates c override ie, wf_sig s ->
  spec_outcome s ctor lates c override ie =
  match effective s ctor lates c override ie with
  | Err x => Err x
  | Ok e => direct_bind s (enamed e) (match evar e with Some l => l | None => [] end)
  end.
Proof. exact spec_outcome_meaning. Qed.
Print Assumptions C18_effective_call_meaning.

(* Symbolized classes: Object.__init__, rebinds and ClassWrapper._call_init (positional when the user
   __init__ has *args, everything by keyword otherwise) give the user __init__ exactly the effective
   arguments; a plain construction must be a complete call, a partial object stands for the
   missing-argument TypeError. *)
Theorem C18_class_wrapper : forall s ctor partial lates,
  wf_sig s -> call_ok s ctor -> late_names_ok s lates ->
  cls_bind s ctor partial lates = cls_spec s ctor partial lates.
Proof. exact symbolized_class_binds_effective_arguments. Qed.
Print Assumptions C18_class_wrapper.

(* default_args / non_default_args: an argument is reported at its default exactly when it has a
   default and was not supplied or was supplied with that value; non-default exactly when it was
   supplied and is not at its default; *args is at its default when no variadic value is held. *)
Theorem C18_reported_default_sets : forall q s ctor ov ie lates st0 st,
  wf_sig s -> no_quirks q -> late_names_ok s lates ->
  functor_ctor s ctor ov ie = Ok st0 -> late_all q s st0 lates = Ok st ->
  exists e, bound_arguments s ctor lates = Ok e /\
    (forall k, is_va s k = false -> smem k (dflt st) = at_default s (enamed e) k) /\
    (forall k, is_va s k = false -> smem k (nond st) = kmem k (enamed e) && negb (at_default s (enamed e) k)) /\
    (has_va s = true -> smem (va_name s) (dflt st) = is_nil (evl e)) /\
    (has_va s = true -> smem (va_name s) (nond st) = evs e && negb (is_nil (evl e))).
Proof. exact functor_reports_default_sets. Qed.
Print Assumptions C18_reported_default_sets.

(* Positional-only parameters (the model of the language rule knows them).  A keyword naming one is a
   TypeError for the original callable ... *)
Theorem C18_positional_only_keyword_rejected : forall s c k,
  is_param s k = true -> is_kwparam s k = false -> has_kw s = false -> In k (map fst (ckw c)) ->
  py_bind s c = Err ETypeError.
Proof. exact positional_only_keyword_rejected. Qed.
Print Assumptions C18_positional_only_keyword_rejected.

(* ... while the functor lets every argument be bound by its name and hands positional parameters over
   by position: binding a positional-only parameter by name is an extension (it agrees with the
   specification, whose effective call is positional), not the keyword call of the original. *)
Theorem C18_positional_only_bound_by_name : exists q s c b,
  wf_sig s /\ functor_bind q s c false false [] {| cpos := []; ckw := [] |} None None = Ok b /\
  spec_outcome s c [] {| cpos := []; ckw := [] |} false false = Ok b /\
  py_bind s c = Err ETypeError.
Proof. exact positional_only_bound_by_name. Qed.
Print Assumptions C18_positional_only_bound_by_name.

(* Instance obligation, re-checked whenever the source changes: the program regenerated from
   Functor._parse_call_time_overrides (Gen/BindingCallTime.v, interpreted by Model/BindingLang.v) hands
   the wrapped function exactly the arguments of the hand model [functor_call_args] - to which
   C18_call_equiv applies - on every input of a finite grid (48 signature shapes x 8 construction
   calls x flags x later bindings x 8 calls x call-time flags, before and after a JSON round trip),
   with run-time type checking on and off. *)
Theorem C18_generated_call_time_code_agrees : grid_agrees = true.
Proof. exact generated_code_agrees_on_grid. Qed.
Print Assumptions C18_generated_call_time_code_agrees.

(* Later bindings may come with change notification switched off (rebind(..., skip_notification=True),
   pg.notify_on_change(False)) and by any route - on the functor, by attribute assignment, or by
   rebinding an ancestor with a deep key path: they all store the value and record the name
   ([late_one_n]).  Whatever the flags, the call binds the effective arguments ... *)
Theorem C18_call_equiv_any_notification : forall q s ctor ov ie lates c ovo ieo,
  wf_sig s -> no_quirks q -> late_names_ok s (strip lates) -> call_ok s c ->
  functor_bind_n q s ctor ov ie lates c ovo ieo =
  spec_outcome s ctor (strip lates) c (match ovo with Some b => b | None => ov end) (match ieo with Some b => b | None => ie end).
Proof. exact functor_binds_effective_arguments_any_notification. Qed.
Print Assumptions C18_call_equiv_any_notification.

(* ... and the functor reports the supplied names and values (the default / non-default
   classification is refreshed by _on_change only, i.e. needs the notification:
   C18_reported_default_sets). *)
Theorem C18_reported_args_any_notification : forall q s ctor ov ie lates st0 st,
  wf_sig s -> no_quirks q -> late_names_ok s (strip lates) ->
  functor_ctor s ctor ov ie = Ok st0 -> late_all_n q s st0 lates = Ok st ->
  exists e, bound_arguments s ctor (strip lates) = Ok e /\
    (forall k, is_va s k = false -> smem k (spec st) = kmem k (enamed e)) /\
    (has_va s = true -> smem (va_name s) (spec st) = match evar e with Some _ => true | None => false end) /\
    (forall k, kget k (attrs st) = match kget k (enamed e) with Some v => Some v | None => default_of s k end) /\
    vattr st = match evar e with Some l => l | None => [] end.
Proof. exact functor_reports_effective_arguments_any_notification. Qed.
Print Assumptions C18_reported_args_any_notification.

(* Binding steps interleaved with UN-binding steps (del f.k; rebind(k=MISSING_VALUE) / f.k =
   MISSING_VALUE, on the functor or through an ancestor, with or without notification) of required,
   defaulted and keyword-only parameters, *args and **kwargs keys: an un-bound argument is no longer
   supplied ([unsupply]); the call binds the effective arguments of the whole sequence ... *)
Theorem C18_call_equiv_with_unbinding : forall q s ctor ov ie steps c ovo ieo,
  wf_sig s -> no_quirks q -> steps_ok s steps -> call_ok s c ->
  functor_bind_u q s ctor ov ie steps c ovo ieo =
  spec_outcome_u s ctor steps c (match ovo with Some b => b | None => ov end) (match ieo with Some b => b | None => ie end).
Proof. exact functor_binds_effective_arguments_with_unbinding. Qed.
Print Assumptions C18_call_equiv_with_unbinding.

(* ... the functor reports exactly the names and values still supplied ... *)
Theorem C18_reported_args_with_unbinding : forall q s ctor ov ie steps st0 st,
  wf_sig s -> no_quirks q -> steps_ok s steps ->
  functor_ctor s ctor ov ie = Ok st0 -> late_all_u q s st0 steps = Ok st ->
  exists e1 e, supply s eff0 ctor false false = Ok e1 /\ supply_steps s e1 steps = Ok e /\
    (forall k, is_va s k = false -> smem k (spec st) = kmem k (enamed e)) /\
    (has_va s = true -> smem (va_name s) (spec st) = match evar e with Some _ => true | None => false end) /\
    (forall k, kget k (attrs st) = match kget k (enamed e) with Some v => Some v | None => default_of s k end) /\
    vattr st = match evar e with Some l => l | None => [] end.
Proof. exact functor_reports_effective_arguments_with_unbinding. Qed.
Print Assumptions C18_reported_args_with_unbinding.

(* ... and an un-bound argument is unspecified and shows its default (or nothing) again, so it can be
   supplied at call time and is left out by to_json (which writes the specified arguments). *)
Theorem C18_unbound_argument_is_unspecified : forall s st e k hd n st',
  wf_sig s -> eff_ok s e -> rel s st e -> accepts_key s k = true -> (hd = true -> is_field s k = true) ->
  unbind_one s st k hd n = Ok st' ->
  smem k (spec st') = false /\ (is_va s k = false -> kget k (attrs st') = default_of s k) /\ (is_va s k = true -> vattr st' = []).
Proof. exact unbound_argument_is_unspecified. Qed.
Print Assumptions C18_unbound_argument_is_unspecified.

(* Property C18 — symbolized callables keep Python call semantics.
   Only statements and [exact]; definitions are in Model/Binding.v, proofs in Proofs/Binding*.v. *)
From PG Require Import Common.Tactics Model.Binding Proofs.BindingMaps Proofs.BindingProofs.
From Coq Require Import NArith.
Local Open Scope N_scope.

(* Calling the functor = the language rule applied to the effective arguments.
   Any signature with distinct parameter names; any construction call (positional, keyword, *args
   by overflow or by name, surplus, unknown and duplicate arguments), any sequence of later
   bindings of acceptable names, any call whose keywords are distinct and do not use the name of
   *args, any setting of override_args / ignore_extra_args at construction and at call time:
   the functor pipeline (Functor.__init__, _on_change, _parse_call_time_overrides, the call of the
   wrapped function) returns exactly the bound arguments, or the TypeError, that [py_bind] gives for
   the direct call with the merged arguments. *)
Theorem C18_call_equiv : forall q s ctor ov ie lates c ovo ieo,
  wf_sig s -> no_quirks q -> late_names_ok s lates -> call_ok s c ->
  functor_bind q s ctor ov ie lates c ovo ieo =
  spec_outcome s ctor lates c (match ovo with Some b => b | None => ov end) (match ieo with Some b => b | None => ie end).
Proof. exact functor_binds_effective_arguments. Qed.
Print Assumptions C18_call_equiv.

(* With the open finding (a later binding that stores the integer an attribute already shows is not
   recorded) the same holds for every input that has no such binding ... *)
Theorem C18_call_equiv_partial : forall q s ctor ov ie lates c ovo ieo,
  wf_sig s -> late_names_ok s lates -> call_ok s c ->
  (forall st, functor_ctor s ctor ov ie = Ok st -> lates_avoid_noop s st lates) ->
  functor_bind q s ctor ov ie lates c ovo ieo =
  spec_outcome s ctor lates c (match ovo with Some b => b | None => ov end) (match ieo with Some b => b | None => ie end).
Proof. exact functor_binds_effective_arguments_partial. Qed.
Print Assumptions C18_call_equiv_partial.

(* ... and fails on one that has: def f(a, b=11); x = f.partial(5); x.rebind(b=11); x(b=7). *)
Theorem C18_call_equiv_refuted : exists q s ctor lates c,
  wf_sig s /\ late_names_ok s lates /\ call_ok s c /\
  functor_bind q s ctor false false lates c None None <> spec_outcome s ctor lates c false false.
Proof. exact noop_rebind_refutes. Qed.
Print Assumptions C18_call_equiv_refuted.

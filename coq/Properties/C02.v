(* Property C02 -- pg.List / pg.Dict behave as Python list / dict under every mutation history.
   Only statements and [exact]; proofs live in Proofs/PyListFacts.v and Proofs/SymCoreC02*.v.

   Vocabulary.  [erase : node -> pv] (Model/SymCoreSpec.v) forgets ids, parent / path annotations and flags; [evals its] /
   [eitems its] are the erased item values / (key, value) pairs of a container (Proofs/SymCoreC02Read.v).  The SPECIFICATION
   is Model/PyList.v / PyDict.v at element type pv with Python == [pv_pyeq] ([py_lstep], [py_dstep]); it is validated
   against CPython's built-in list / dict on every run of the check.  [at_is st ps tid k pa fl its]: the container (tid, k, fl)
   with items its sits at position ps = (root, keys) of the forest -- a root or anywhere below one; [clean its]: no item is the
   MISSING_VALUE marker; [anc_clean st ps]: no list above the target holds the marker (true of every forest built from
   literals and driven by plain calls; the marker only gets into a list through the extensions under notify_on_change(False));
   [wfs] / [WFI] = [WF]: C01's invariant (stored parent and path = actual place; with I: node ids pairwise distinct);
   [permits sc fl]: the target is not (treated as) sealed and writable through accessors (the
   permission side is C08's).  A plain argument is a None / bool / int / str leaf or a literal list / dict of such values
   ([vplain], its value [pval]).

   The _partial theorems are the full refinement statement for a container ANYWHERE in a well-formed forest driven by calls
   with plain Python arguments.  What they leave to the correspondence (model vs pg.List / pg.Dict on generated histories,
   every step): arguments that are existing symbolic nodes (adopted or copied at write time -- Python would alias) in
   operations other than append, opaque
   objects as written values, MISSING_VALUE written into a list by rebind (the element is dropped at the next notification). *)
From Coq Require Import ZArith NArith List Bool.
From PG Require Import Common.Tactics Model.SymCoreDefs Model.SymCoreOps Model.SymCoreSpec Model.SymCoreC02
     Proofs.SymCoreWF Proofs.SymCoreIds Proofs.SymCoreC02Base Proofs.SymCoreC02Read Proofs.SymCoreC02Frame Proofs.SymCoreC02Prim
     Proofs.SymCoreC02List Proofs.SymCoreC02Items Proofs.SymCoreC02Dict Proofs.SymCoreC02Step Proofs.SymCoreC02Ext Proofs.PyListFacts
     Proofs.SymCoreC02Slice Proofs.SymCoreC02WF Proofs.SymCoreC02Or Proofs.SymCoreC02Rebind Proofs.SymCoreC02Nested Proofs.SymCoreC02Refs Proofs.SymCoreC02RefStep Proofs.SymCoreC02Examples Proofs.SymCoreC02Summary Proofs.SymCoreC02Init.
From PG Require Model.PyList Model.PyDict.
Import ListNotations.
Local Open Scope Z_scope.

(* The operations C02 adds (slices, |) extend the base catalogue conservatively: every SymCore theorem applies to Base steps. *)
Theorem C02_extension_conservative : forall q st o, step2 q st (Base o) = step q st o.
Proof. exact step2_base. Qed.
Print Assumptions C02_extension_conservative.

(* --- the specification itself ---------------------------------------------------------------------------------------------- *)
(* slice(a, b, c).indices(n) normalises into the list: every position range(start, stop, step) names exists, no position twice *)
Theorem C02_spec_slice_positions_in_bounds : forall a b c n s e st, 0 <= n -> PyList.slice_indices a b c n = Some (s, e, st) ->
  Forall (fun i => 0 <= i < n) (PyList.slice_range s e st) /\ NoDup (PyList.slice_range s e st).
Proof. exact c02_spec_slice_positions_in_bounds_proof. Qed.
Print Assumptions C02_spec_slice_positions_in_bounds.

(* --- C02_refines_python: one step ------------------------------------------------------------------------------------------- *)
(* every list operation of the base catalogue: contents after = the Python call on the erased contents before; same ok /
   error class (IndexError, KeyError, TypeError, ValueError); the value of the call agrees ([ret_agrees]: nothing, the removed
   item by identity, or a new root list with the erased items Python returns); the invariants hold again afterwards *)
Theorem C02_refines_python_list_partial : forall q ps tid pa fl, no_quirks q -> forall st its sc o lo,
  WFI st -> at_is st ps tid KList pa fl its -> clean its -> anc_clean st ps -> permits sc fl ->
  vplain_lop o = true -> vlop_of o = Some lo ->
  exists its',
    at_is (fst (step q st (mkSop sc ps o))) ps tid KList pa fl its' /\ clean its' /\ anc_clean (fst (step q st (mkSop sc ps o))) ps /\
    evals its' = PyList.lstate pv_pyeq (evals its) lo /\
    out_class (snd (step q st (mkSop sc ps o))) (py_lstep (evals its) lo) /\
    exists ro st1, resolve_op st o = Some ro /\ exec q sc st ps tid KList (snd ps) fl its ro = (st1, snd (step q st (mkSop sc ps o))) /\
                   match py_lstep (evals its) lo with inl (_, ret) => ret_agrees st1 (snd (step q st (mkSop sc ps o))) ret | inr _ => True end.
Proof. exact step_list_refines. Qed.
Print Assumptions C02_refines_python_list_partial.

(* every dict operation of the base catalogue (item assignment / deletion, pop, popitem, clear, setdefault, update, |=, copy) *)
Theorem C02_refines_python_dict_partial : forall q ps tid pa fl, no_quirks q -> forall st its sc o d,
  wfs st -> at_is st ps tid KDict pa fl its -> clean its -> anc_clean st ps -> permits sc fl ->
  vplain_dop o = true -> vdop_of o = Some d ->
  exists its',
    at_is (fst (step q st (mkSop sc ps o))) ps tid KDict pa fl its' /\ clean its' /\ anc_clean (fst (step q st (mkSop sc ps o))) ps /\
    eitems its' = PyDict.dstate key_eqb pv_pyeq (eitems its) d /\
    out_class (snd (step q st (mkSop sc ps o))) (py_dstep (eitems its) d) /\
    exists ro st1, resolve_op st o = Some ro /\ exec q sc st ps tid KDict (snd ps) fl its ro = (st1, snd (step q st (mkSop sc ps o))) /\
                   match py_dstep (eitems its) d with inl (_, ret) => dret_agrees st1 (snd (step q st (mkSop sc ps o))) ret | inr _ => True end.
Proof. exact step_dict_refines. Qed.
Print Assumptions C02_refines_python_dict_partial.

(* slice assignment l[a:b:c] = vs and slice deletion del l[a:b:c], any start / stop / step (also None, negative, out of range, 0);
   the forest is well-formed again afterwards (C01's invariant for the operations the base catalogue lacked) *)
Theorem C02_refines_python_slices_partial : forall q ps tid pa fl st its sc x lo,
  WFI st -> at_is st ps tid KList pa fl its -> clean its -> anc_clean st ps -> permits sc fl ->
  vplain_xop x = true -> vxlop_of x = Some lo ->
  WFI (fst (step2 q st (Ext sc ps x))) /\
  exists its',
    at_is (fst (step2 q st (Ext sc ps x))) ps tid KList pa fl its' /\ clean its' /\ anc_clean (fst (step2 q st (Ext sc ps x))) ps /\
    evals its' = PyList.lstate pv_pyeq (evals its) lo /\
    out_class (snd (step2 q st (Ext sc ps x))) (py_lstep (evals its) lo).
Proof. exact step_x_list_refines. Qed.
Print Assumptions C02_refines_python_slices_partial.

(* d | m and m | d with a plain dict m: a new root pg.Dict whose erased items are Python's merged dict (operand first /
   last, later values win, keys keep their first position); the operand is untouched; never an error *)
Theorem C02_refines_python_or_partial : forall q sc ps tid pa fl, no_quirks q -> forall st its x o st' out,
  WFI st -> at_is st ps tid KDict pa fl its -> clean its -> anc_clean st ps -> plain_xdop x -> xdop_of x = Some o ->
  exec_x q sc st ps fl its x = (st', out) ->
  match py_dstep (eitems its) o with
  | inr e => False
  | inl (d', ret) => dwrote st ps tid pa fl st' d' /\ dret_agrees st' out ret /\ WFI st'
  end.
Proof. exact exec_x_or_refines. Qed.
Print Assumptions C02_refines_python_or_partial.

(* rebind with one or several single-key paths on a dict is dict.update (the change notification that follows is the identity) *)
Theorem C02_refines_python_rebind_dict_partial : forall q sc ps tid pa fl st its kvs st' out,
  WFI st -> at_is st ps tid KDict pa fl its -> clean its -> anc_clean st ps -> treats_as_sealed sc fl = false ->
  Forall (fun kv => plain_rv (snd kv)) kvs -> kvs <> [] ->
  exec q sc st ps tid KDict (snd ps) fl its (Rebind (map (fun kv : key * rvalue => ([fst kv], snd kv)) kvs)) = (st', out) ->
  out = Ok RNone /\ WFI st' /\
  dwrote st ps tid pa fl st' (PyDict.dupdate key_eqb (eitems its) (map (fun kv => (fst kv, prv (snd kv))) kvs)).
Proof. exact exec_rebind_dict_refines. Qed.
Print Assumptions C02_refines_python_rebind_dict_partial.

(* rebind with several single-key paths on a list: the entries are applied one after the other from the highest index to the
   lowest ([sort_desc], the documented rule), each as list does it (replace; at or past the end: append; insertion marker:
   insert with list.insert's clamping; below -len: IndexError, which stops the batch and keeps the earlier writes) *)
Theorem C02_refines_python_rebind_list_partial : forall q sc ps tid pa fl st its pvs st' out,
  WFI st -> at_is st ps tid KList pa fl its -> clean its -> anc_clean st ps -> treats_as_sealed sc fl = false ->
  Forall entry_ok pvs -> pvs <> [] ->
  exec q sc st ps tid KList (snd ps) fl its (Rebind pvs) = (st', out) ->
  WFI st' /\ wrote st ps tid pa fl st' (fst (py_lwrites (evals its) (map entry_w (sort_desc pvs)))) /\
  out = match snd (py_lwrites (evals its) (map entry_w (sort_desc pvs))) with None => Ok RNone | Some e => Err (err_of e) end.
Proof. exact exec_rebind_list_refines. Qed.
Print Assumptions C02_refines_python_rebind_list_partial.

(* rebind with several paths of any length, on a list (entries sorted from the highest path down, [sort_desc]) or on a dict
   (entries in the given order): each entry navigates from the target to its container (negative list indices resolved, a
   missing step is a KeyError) and writes there as list / dict do; the first error stops the batch and keeps the earlier
   writes; on the erasure this is the nested update [py_batch] of the plain value.  [root_dclean]: no container of the root
   holds the MISSING_VALUE marker.  [py_batch] is None when an entry is outside the comparison (string key on a list, an
   insertion marker written into a dict, a pg.Object on the way); write-permission refusals are C08's. *)
Theorem C02_refines_python_rebind_nested_partial : forall q sc tp st tid tk pa fl its pvs st' out res,
  WFI st -> get_at st tp = Some (Node tid tk pa (snd tp) fl its) -> (tk = KList \/ tk = KDict) -> root_dclean st (fst tp) ->
  Forall (fun pv0 => val_ok (snd pv0)) pvs -> pvs <> [] ->
  exec q sc st tp tid tk (snd tp) fl its (Rebind pvs) = (st', out) -> out <> Err EWrite ->
  py_batch (erase (Node tid tk pa (snd tp) fl its)) (entries (match tk with KList => sort_desc pvs | _ => pvs end)) = Some res ->
  WFI st' /\ root_dclean st' (fst tp) /\
  (exists T', get_at st' tp = Some T' /\ erase T' = fst res) /\
  out = match snd res with None => Ok RNone | Some e => Err (err_of e) end.
Proof. exact exec_rebind_nested_refines. Qed.
Print Assumptions C02_refines_python_rebind_nested_partial.

(* l.append(x) where x is ANY value: a literal, a symbolic value that has a parent (copied at write time) or the root of another
   tree (adopted: its slot in the forest empties).  The list ends with what x denoted when the call started ([ref_value]); the
   frame is weaker than for literals ([wrote_w]: nothing is claimed about the other roots). *)
Theorem C02_refines_python_append_reference_partial : forall q sc ps tid pa fl st its rv v st' out,
  no_quirks q -> WFI st -> at_is st ps tid KList pa fl its -> clean its -> anc_clean st ps -> treats_as_sealed sc fl = false ->
  ref_value st rv v -> is_missing_rv rv = false ->
  exec q sc st ps tid KList (snd ps) fl its (LAppend rv) = (st', out) ->
  out = Ok RNone /\ wrote_w ps tid pa fl st' (evals its ++ [v]).
Proof. exact exec_append_ref_refines. Qed.
Print Assumptions C02_refines_python_append_reference_partial.

(* l[i] = x, l.append(x), l.insert(i, x) where x is ANY value (a literal, a symbolic value with a parent, a root of another tree,
   the list itself, an opaque object): the step is list's with what x denoted when the call started, error classes included.
   [tag_agree]: `old is x` is decided on object identity, which the erasure does not keep for opaque objects; where the argument
   is an opaque object already stored in the list, both occurrences have to carry the same tag (vacuous for every other argument). *)
Theorem C02_refines_python_reference_arguments_list_partial : forall q sc ps tid pa fl st its o rv v lo st' out,
  no_quirks q -> WFI st -> at_is st ps tid KList pa fl its -> clean its -> anc_clean st ps -> permits sc fl ->
  ref_arg o = Some rv -> ref_value st rv v -> (forall k old, In (k, old) its -> tag_agree old rv) -> ref_lop o v = Some lo ->
  exec q sc st ps tid KList (snd ps) fl its o = (st', out) ->
  match py_lstep (evals its) lo with
  | inr e => st' = st /\ out = Err (err_of e)
  | inl (l', ret) => wrote_w ps tid pa fl st' l' /\ ret_agrees st' out ret
  end.
Proof. exact exec_list_ref_refines. Qed.
Print Assumptions C02_refines_python_reference_arguments_list_partial.

(* d[k] = x / d.k = x with any such argument *)
Theorem C02_refines_python_reference_arguments_dict_partial : forall q sc ps tid pa fl st its a k rv v st' out,
  no_quirks q -> WFI st -> at_is st ps tid KDict pa fl its -> clean its -> anc_clean st ps -> permits sc fl ->
  ref_value st rv v -> (forall old, assoc k its = Some old -> tag_agree old rv) ->
  exec q sc st ps tid KDict (snd ps) fl its (DSet a k rv) = (st', out) ->
  out = Ok RNone /\ dwrote_w ps tid pa fl st' (PyDict.dset key_eqb k v (eitems its)).
Proof. exact exec_dict_ref_refines. Qed.
Print Assumptions C02_refines_python_reference_arguments_dict_partial.

(* through [step], with the argument read from the list itself (l.append(l[0]), l[1] = l[0][2], l.insert(0, l)): on the Python
   side the argument is what the path reads in the plain list at the time of the call ([rop_py]) *)
Theorem C02_refines_python_self_reference_partial : forall q ps tid pa fl, no_quirks q -> forall st its sc r lo,
  WFI st -> at_is st ps tid KList pa fl its -> clean its -> anc_clean st ps -> permits sc fl ->
  rop_py (evals its) r = Some lo ->
  exists its',
    at_is (fst (step q st (mkSop sc ps (rop_model ps r)))) ps tid KList pa fl its' /\ clean its' /\
    anc_clean (fst (step q st (mkSop sc ps (rop_model ps r)))) ps /\
    evals its' = PyList.lstate pv_pyeq (evals its) lo /\
    out_class (snd (step q st (mkSop sc ps (rop_model ps r)))) (py_lstep (evals its) lo).
Proof. exact step_self_refines. Qed.
Print Assumptions C02_refines_python_self_reference_partial.

(* --- C02_history: every finite history on one container ---------------------------------------------------------------------- *)
(* lists: base catalogue and slice operations interleaved in any order; [lhist2_ok] only says that every call has plain
   arguments and is let through; [lhist2_py] is the plain list driven by the same calls *)
Theorem C02_history_list_partial : forall q ps tid pa fl, no_quirks q -> forall h st its,
  WF st -> at_is st ps tid KList pa fl its -> clean its -> anc_clean st ps -> lhist2_ok fl (evals its) h ->
  option_map erase (get_at (run_ops2 q st (on_pos2 ps h)) ps) = Some (plist (lhist2_py (evals its) h)) /\
  WF (run_ops2 q st (on_pos2 ps h)).
Proof. exact c02_history_list_proof. Qed.
Print Assumptions C02_history_list_partial.

Theorem C02_history_dict_partial : forall q ps tid pa fl, no_quirks q -> forall h st its,
  wfs st -> at_is st ps tid KDict pa fl its -> clean its -> anc_clean st ps -> dhist_ok fl (eitems its) h ->
  option_map erase (get_at (run_ops q st (on_pos ps h)) ps) = Some (PNode KDict (dhist_py (eitems its) h)) /\
  wfs (run_ops q st (on_pos ps h)).
Proof. exact c02_history_dict_proof. Qed.
Print Assumptions C02_history_dict_partial.

(* histories that mix the operations on plain arguments with writes whose argument is read from the list itself *)
Theorem C02_history_self_references_partial : forall q ps tid pa fl, no_quirks q -> forall h st its,
  WFI st -> at_is st ps tid KList pa fl its -> clean its -> anc_clean st ps -> rhist_ok fl (evals its) h ->
  option_map erase (get_at (run_ops q st (on_pos_r ps h)) ps) = Some (plist (rhist_py (evals its) h)).
Proof. exact history_self_erase. Qed.
Print Assumptions C02_history_self_references_partial.
Theorem C02_history_self_references_example :
  rhist_ok default_flags (evals ex_list_items) ex_self_history /\
  rhist_py (evals ex_list_items) ex_self_history =
  [plist [PLeaf (LInt 2); ex_da; PLeaf (LStr [98%N]); ex_da]; PLeaf (LInt 2); PLeaf (LStr [98%N]); ex_da].
Proof. exact ex_self_hypotheses. Qed.
Print Assumptions C02_history_self_references_example.

(* "for all initial contents": any constructed (unsealed) pg.List / pg.Dict, whatever its literal, under any such history *)
Theorem C02_history_of_constructed_list_partial : forall q, no_quirks q -> forall fl lits h,
  f_sealed fl = false -> lit_valid (LitNode KList fl false lits) = true ->
  lhist2_ok fl (pvals (plit (LitNode KList fl false lits))) h ->
  option_map erase (get_at (run_ops2 q (init_forest [LitNode KList fl false lits] empty_state) (on_pos2 (0%nat, []) h)) (0%nat, [])) =
  Some (plist (lhist2_py (pvals (plit (LitNode KList fl false lits))) h)).
Proof. exact history_of_constructed_list. Qed.
Print Assumptions C02_history_of_constructed_list_partial.

Theorem C02_history_of_constructed_dict_partial : forall q, no_quirks q -> forall fl lits h,
  f_sealed fl = false -> lit_valid (LitNode KDict fl false lits) = true ->
  dhist_ok fl (pitems (plit (LitNode KDict fl false lits))) h ->
  option_map erase (get_at (run_ops q (init_forest [LitNode KDict fl false lits] empty_state) (on_pos (0%nat, []) h)) (0%nat, [])) =
  Some (PNode KDict (dhist_py (pitems (plit (LitNode KDict fl false lits))) h)).
Proof. exact history_of_constructed_dict. Qed.
Print Assumptions C02_history_of_constructed_dict_partial.

(* the hypotheses are satisfiable: a constructed forest; a nine-call history on a root list, a five-call history on a root
   dict, a three-call history on a dict stored inside the list *)
Theorem C02_history_hypotheses_example :
  WF ex_state /\
  (at_is ex_state (0%nat, []) 1%N KList None default_flags ex_list_items /\ clean ex_list_items /\ anc_clean ex_state (0%nat, []) /\
   lhist2_ok default_flags (evals ex_list_items) ex_list_history /\ lhist2_ok default_flags (evals ex_list_items) ex_mul_history) /\
  (at_is ex_state (1%nat, []) 3%N KDict None default_flags ex_dict_items /\ clean ex_dict_items /\ anc_clean ex_state (1%nat, []) /\
   dhist_ok default_flags (eitems ex_dict_items) ex_dict_history) /\
  (at_is ex_state ex_nested_pos 2%N KDict (Some 1%N) default_flags ex_nested_items /\ clean ex_nested_items /\
   anc_clean ex_state ex_nested_pos /\ dhist_ok default_flags (eitems ex_nested_items) ex_nested_history).
Proof. exact c02_history_hypotheses_example_proof. Qed.
Print Assumptions C02_history_hypotheses_example.

(* --- C02_extensions: the four documented departures, each as an equation ----------------------------------------------------------- *)
Theorem C02_extension_missing_deletes_key : forall q sc ps tid pa fl st its a k st' out,
  wfs st -> at_is st ps tid KDict pa fl its -> clean its -> anc_clean st ps -> permits sc fl ->
  exec q sc st ps tid KDict (snd ps) fl its (DSet a k (RLeaf LMissing)) = (st', out) ->
  out = Ok RNone /\ dwrote st ps tid pa fl st' (PyDict.ddel key_eqb k (eitems its)).
Proof. exact ext_missing_deletes. Qed.
Print Assumptions C02_extension_missing_deletes_key.

Theorem C02_extension_rebind_past_end_appends : forall q sc ps tid pa fl st its z rv st' p c,
  wfs st -> at_is st ps tid KList pa fl its -> clean its -> anc_clean st ps -> treats_as_sealed sc fl = false ->
  storable_rv rv -> zlen its <= z ->
  rebind_one q sc st ps [KI z] rv = (st', p, c) ->
  p = PUpd /\ wrote st ps tid pa fl st' (evals its ++ [prv rv]).
Proof. exact ext_rebind_past_end_appends. Qed.
Print Assumptions C02_extension_rebind_past_end_appends.

Theorem C02_extension_insertion_inserts : forall q sc ps tid pa fl st its z rv st' p c,
  wfs st -> at_is st ps tid KList pa fl its -> clean its -> anc_clean st ps -> treats_as_sealed sc fl = false -> storable_rv rv ->
  rebind_one q sc st ps [KI z] (RIns rv) = (st', p, c) ->
  p = PUpd /\ wrote st ps tid pa fl st' (PyList.insert (evals its) z (prv rv)).
Proof. exact ext_insertion_inserts. Qed.
Print Assumptions C02_extension_insertion_inserts.

Theorem C02_extension_plain_becomes_symbolic : forall q sc st r ck cid cfl tp ins k f lits nw st1,
  formalize q sc st r ck cid cfl tp ins (RLit (LitNode k f true lits)) = (nw, st1) ->
  erase nw = plit (LitNode k f true lits) /\ exists i f' its', nw = Node i k (Some cid) tp f' its'.
Proof. exact ext_plain_becomes_symbolic. Qed.
Print Assumptions C02_extension_plain_becomes_symbolic.

(* --- C02_readback: the read API on a tree = the same read on its erasure -------------------------------------------------------------- *)
(* x == plain, at any depth (lists in order, dicts as maps, numbers by value) *)
Theorem C02_readback_equality : forall n p, node_pyeq n p = pv_pyeq (erase n) p.
Proof. exact node_pyeq_erase. Qed.
Print Assumptions C02_readback_equality.

(* len, x[i], x[a:b:c], in, index, count, == on a list node *)
Theorem C02_readback_list : forall i0 pa pt fl its,
  let n := Node i0 KList pa pt fl its in
  r_len n = PyList.len (evals its) /\
  (forall i, py_lstep (evals its) (PyList.PLGet i) =
             match r_getitem n i with Some c => inl (evals its, PyList.LrVal (erase c)) | None => inr PyList.PyIndexError end) /\
  (forall a b c, py_lstep (evals its) (PyList.PLGetSlice a b c) =
                 match r_getslice n a b c with Some cs => inl (evals its, PyList.LrList (map erase cs)) | None => inr PyList.PyValueError end) /\
  (forall x, py_lstep (evals its) (PyList.PLContains x) = inl (evals its, PyList.LrBool (r_contains n x))) /\
  (forall x, py_lstep (evals its) (PyList.PLIndex x) =
             match r_find x its 0 with Some p => inl (evals its, PyList.LrInt (Z.of_nat p)) | None => inr PyList.PyValueError end) /\
  (forall x, py_lstep (evals its) (PyList.PLCount x) = inl (evals its, PyList.LrInt (r_count n x))) /\
  (forall o, py_lstep (evals its) (PyList.PLEq o) = inl (evals its, PyList.LrBool (node_pyeq n (plist o)))) /\
  pvals (erase n) = evals its.
Proof. exact c02_readback_list_proof. Qed.
Print Assumptions C02_readback_list.

(* len, keys, d[k], in, items, == on a dict node *)
Theorem C02_readback_dict : forall i0 pa pt fl its,
  let n := Node i0 KDict pa pt fl its in
  py_dstep (eitems its) PyDict.PDLen = inl (eitems its, PyDict.DrInt (r_len n)) /\
  py_dstep (eitems its) PyDict.PDKeys = inl (eitems its, PyDict.DrKeys (r_keys n)) /\
  (forall k, py_dstep (eitems its) (PyDict.PDGet k) =
             match r_dget n k with Some c => inl (eitems its, PyDict.DrVal (erase c)) | None => inr PyList.PyKeyError end) /\
  (forall k, py_dstep (eitems its) (PyDict.PDContains k) = inl (eitems its, PyDict.DrBool (has_key k its))) /\
  py_dstep (eitems its) PyDict.PDItems = inl (eitems its, PyDict.DrDict (pitems (erase n))) /\
  (forall o, py_dstep (eitems its) (PyDict.PDEq o) = inl (eitems its, PyDict.DrBool (node_pyeq n (PNode KDict o)))).
Proof. exact c02_readback_dict_proof. Qed.
Print Assumptions C02_readback_dict.

(* pg.to_json *)
Theorem C02_readback_to_json : forall n, to_json n = pv_json (erase n).
Proof. exact to_json_erase. Qed.
Print Assumptions C02_readback_to_json.

(* Property C02 -- pg.List / pg.Dict behave as Python list / dict.  Only statements and [exact]; proofs live in
   Proofs/PyList*.v, PyDict*.v, SymCoreC02*.v. *)
From Coq Require Import ZArith NArith List Bool.
From PG Require Import Common.Tactics Model.SymCoreDefs Model.SymCoreOps Model.SymCoreSpec Model.SymCoreC02
     Proofs.SymCoreC02Base.

(* The operations C02 adds (slices, |) extend the base catalogue conservatively. *)
Theorem C02_extension_conservative : forall q st o, step2 q st (Base o) = step q st o.
Proof. exact step2_base. Qed.
Print Assumptions C02_extension_conservative.

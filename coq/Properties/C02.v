(* Property C02 -- pg.List / pg.Dict behave as Python list / dict under every mutation history.
   Only statements and [exact]; proofs live in Proofs/PyListFacts.v and Proofs/SymCoreC02*.v.

   Vocabulary.  [erase : node -> pv] (Model/SymCoreSpec.v) forgets ids, parent / path annotations and flags; [evals its] /
   [eitems its] are the erased item values / (key, value) pairs of a container (Proofs/SymCoreC02Read.v).  The SPECIFICATION
   is Model/PyList.v / PyDict.v at element type pv with Python == [pv_pyeq] ([py_lstep], [py_dstep]); it is validated
   against CPython's built-in list / dict on every run of the check.  [root_is st r tid k fl its]: root r of the forest is
   the container (tid, k, fl) with items its; [clean its]: no item is the MISSING_VALUE marker; [permits sc fl]: the target
   is not (treated as) sealed and writable through accessors (the permission side is C08's).  A plain argument is a
   None / bool / int / str leaf or a literal list / dict of such values ([vplain], its value [pval]).

   The _partial theorems are the full refinement statement for the setting of the property text -- ONE container (a root of
   the forest) driven by a sequence of calls with plain Python arguments.  What they do not cover, and the correspondence
   (model vs pg.List / pg.Dict on generated histories, every step) alone covers: targets nested below a root, arguments that
   are existing symbolic nodes (adopted or copied), opaque objects as written values, l * n and l *= n on lists that hold
   containers (needs uniqueness of node ids, Proofs/SymCoreIds.v), rebind with several / multi-key paths, d | m and m | d. *)
From Coq Require Import ZArith NArith List Bool.
From PG Require Import Common.Tactics Model.SymCoreDefs Model.SymCoreOps Model.SymCoreSpec Model.SymCoreC02
     Proofs.SymCoreWF Proofs.SymCoreC02Base Proofs.SymCoreC02Read Proofs.SymCoreC02Frame Proofs.SymCoreC02Prim
     Proofs.SymCoreC02List Proofs.SymCoreC02Dict Proofs.SymCoreC02Step Proofs.SymCoreC02Ext Proofs.PyListFacts
     Proofs.SymCoreC02Slice Proofs.SymCoreC02WF Proofs.SymCoreC02Examples Proofs.SymCoreC02Summary Proofs.SymCoreC02Init.
From PG Require Model.PyList Model.PyDict.
Import ListNotations.
Local Open Scope Z_scope.

(* The operations C02 adds (slices, |) extend the base catalogue conservatively: every SymCore theorem applies to Base steps. *)
Theorem C02_extension_conservative : forall q st o, step2 q st (Base o) = step q st o.
Proof. exact step2_base. Qed.
Print Assumptions C02_extension_conservative.

(* --- the specification itself ---------------------------------------------------------------------------------------------- *)
(* slice(a, b, c).indices(n) normalises into the list: every position range(start, stop, step) names exists, no position twice *)
Theorem C02_spec_slice_positions_in_bounds : forall a b c n s e st, 0 <= n -> PyList.slice_indices a b c n = Some (s, e, st) ->
  Forall (fun i => 0 <= i < n) (PyList.slice_range s e st) /\ NoDup (PyList.slice_range s e st).
Proof. exact c02_spec_slice_positions_in_bounds_proof. Qed.
Print Assumptions C02_spec_slice_positions_in_bounds.

(* --- C02_refines_python: one step ------------------------------------------------------------------------------------------- *)
(* every list operation of the base catalogue: contents after = the Python call on the erased contents before; same ok /
   error class (IndexError, KeyError, TypeError, ValueError); the value of the call agrees ([ret_agrees]: nothing, the removed
   item by identity, or a new root list with the erased items Python returns) *)
Theorem C02_refines_python_list_partial : forall q r tid fl, no_quirks q -> forall st its sc o lo,
  wfs st -> root_is st r tid KList fl its -> clean its -> permits sc fl ->
  vplain_lop (evals its) o = true -> vlop_of o = Some lo ->
  exists its',
    root_is (fst (step q st (mkSop sc (r, []) o))) r tid KList fl its' /\ clean its' /\
    evals its' = PyList.lstate pv_pyeq (evals its) lo /\
    out_class (snd (step q st (mkSop sc (r, []) o))) (py_lstep (evals its) lo) /\
    exists ro st1, resolve_op st o = Some ro /\ exec q sc st (r, []) tid KList [] fl its ro = (st1, snd (step q st (mkSop sc (r, []) o))) /\
                   match py_lstep (evals its) lo with inl (_, ret) => ret_agrees st1 (snd (step q st (mkSop sc (r, []) o))) ret | inr _ => True end.
Proof. exact step_list_refines. Qed.
Print Assumptions C02_refines_python_list_partial.

(* every dict operation of the base catalogue (item assignment / deletion, pop, popitem, clear, setdefault, update, |=, copy) *)
Theorem C02_refines_python_dict_partial : forall q r tid fl, no_quirks q -> forall st its sc o d,
  wfs st -> root_is st r tid KDict fl its -> clean its -> permits sc fl ->
  vplain_dop o = true -> vdop_of o = Some d ->
  exists its',
    root_is (fst (step q st (mkSop sc (r, []) o))) r tid KDict fl its' /\ clean its' /\
    eitems its' = PyDict.dstate key_eqb pv_pyeq (eitems its) d /\
    out_class (snd (step q st (mkSop sc (r, []) o))) (py_dstep (eitems its) d) /\
    exists ro st1, resolve_op st o = Some ro /\ exec q sc st (r, []) tid KDict [] fl its ro = (st1, snd (step q st (mkSop sc (r, []) o))) /\
                   match py_dstep (eitems its) d with inl (_, ret) => dret_agrees st1 (snd (step q st (mkSop sc (r, []) o))) ret | inr _ => True end.
Proof. exact step_dict_refines. Qed.
Print Assumptions C02_refines_python_dict_partial.

(* slice assignment l[a:b:c] = vs and slice deletion del l[a:b:c], any start / stop / step (also None, negative, out of range, 0) *)
Theorem C02_refines_python_slices_partial : forall q r tid fl st its sc x lo,
  wfs st -> root_is st r tid KList fl its -> clean its -> permits sc fl ->
  vplain_xop x = true -> vxlop_of x = Some lo ->
  wfs (fst (step2 q st (Ext sc (r, []) x))) /\
  exists its',
    root_is (fst (step2 q st (Ext sc (r, []) x))) r tid KList fl its' /\ clean its' /\
    evals its' = PyList.lstate pv_pyeq (evals its) lo /\
    out_class (snd (step2 q st (Ext sc (r, []) x))) (py_lstep (evals its) lo).
Proof. exact step_x_list_refines. Qed.
Print Assumptions C02_refines_python_slices_partial.

(* --- C02_history: every finite history on one container ---------------------------------------------------------------------- *)
(* lists: base catalogue and slice operations interleaved in any order; [lhist2_ok] only says that every call has plain
   arguments and is let through; [lhist2_py] is the plain list driven by the same calls *)
Theorem C02_history_list_partial : forall q r tid fl, no_quirks q -> forall h st its,
  wfs st -> root_is st r tid KList fl its -> clean its -> lhist2_ok fl (evals its) h ->
  option_map erase (get_root (run_ops2 q st (on_root2 r h)) r) = Some (plist (lhist2_py (evals its) h)) /\
  wfs (run_ops2 q st (on_root2 r h)).
Proof. exact c02_history_list_partial_proof. Qed.
Print Assumptions C02_history_list_partial.

Theorem C02_history_dict_partial : forall q r tid fl, no_quirks q -> forall h st its,
  wfs st -> root_is st r tid KDict fl its -> clean its -> dhist_ok fl (eitems its) h ->
  option_map erase (get_root (run_ops q st (on_root r h)) r) = Some (PNode KDict (dhist_py (eitems its) h)).
Proof. exact c02_history_dict_partial_proof. Qed.
Print Assumptions C02_history_dict_partial.

(* "for all initial contents": any constructed (unsealed) pg.List / pg.Dict, whatever its literal, under any such history *)
Theorem C02_history_of_constructed_list_partial : forall q, no_quirks q -> forall fl lits h,
  f_sealed fl = false -> lit_valid (LitNode KList fl false lits) = true ->
  lhist2_ok fl (pvals (plit (LitNode KList fl false lits))) h ->
  option_map erase (get_root (run_ops2 q (init_forest [LitNode KList fl false lits] empty_state) (on_root2 0 h)) 0) =
  Some (plist (lhist2_py (pvals (plit (LitNode KList fl false lits))) h)).
Proof. exact history_of_constructed_list. Qed.
Print Assumptions C02_history_of_constructed_list_partial.

Theorem C02_history_of_constructed_dict_partial : forall q, no_quirks q -> forall fl lits h,
  f_sealed fl = false -> lit_valid (LitNode KDict fl false lits) = true ->
  dhist_ok fl (pitems (plit (LitNode KDict fl false lits))) h ->
  option_map erase (get_root (run_ops q (init_forest [LitNode KDict fl false lits] empty_state) (on_root 0 h)) 0) =
  Some (PNode KDict (dhist_py (pitems (plit (LitNode KDict fl false lits))) h)).
Proof. exact history_of_constructed_dict. Qed.
Print Assumptions C02_history_of_constructed_dict_partial.

(* the hypotheses are satisfiable: a constructed forest, a nine-call list history and a five-call dict history *)
Theorem C02_history_hypotheses_example :
  wfs ex_state /\
  (root_is ex_state 0 1%N KList default_flags ex_list_items /\ clean ex_list_items /\ lhist2_ok default_flags (evals ex_list_items) ex_list_history) /\
  (root_is ex_state 1 3%N KDict default_flags ex_dict_items /\ clean ex_dict_items /\ dhist_ok default_flags (eitems ex_dict_items) ex_dict_history).
Proof. exact c02_history_hypotheses_example_proof. Qed.
Print Assumptions C02_history_hypotheses_example.

(* --- C02_extensions: the four documented departures, each as an equation ----------------------------------------------------------- *)
Theorem C02_extension_missing_deletes_key : forall q sc r tid fl st its a k st' out,
  root_is st r tid KDict fl its -> clean its -> permits sc fl ->
  exec q sc st (r, []) tid KDict [] fl its (DSet a k (RLeaf LMissing)) = (st', out) ->
  out = Ok RNone /\ dwrote st r tid fl st' (PyDict.ddel key_eqb k (eitems its)).
Proof. exact ext_missing_deletes. Qed.
Print Assumptions C02_extension_missing_deletes_key.

Theorem C02_extension_rebind_past_end_appends : forall q sc r tid fl st its z rv st' p c,
  root_is st r tid KList fl its -> clean its -> treats_as_sealed sc fl = false -> storable_rv rv -> zlen its <= z ->
  rebind_one q sc st (r, []) [KI z] rv = (st', p, c) ->
  p = PUpd /\ wrote st r tid fl st' (evals its ++ [prv rv]).
Proof. exact ext_rebind_past_end_appends. Qed.
Print Assumptions C02_extension_rebind_past_end_appends.

Theorem C02_extension_insertion_inserts : forall q sc r tid fl st its z rv st' p c,
  root_is st r tid KList fl its -> clean its -> treats_as_sealed sc fl = false -> storable_rv rv ->
  rebind_one q sc st (r, []) [KI z] (RIns rv) = (st', p, c) ->
  p = PUpd /\ wrote st r tid fl st' (PyList.insert (evals its) z (prv rv)).
Proof. exact ext_insertion_inserts. Qed.
Print Assumptions C02_extension_insertion_inserts.

Theorem C02_extension_plain_becomes_symbolic : forall q sc r st ck cid cfl tp ins k f lits nw st1,
  formalize q sc st r ck cid cfl tp ins (RLit (LitNode k f true lits)) = (nw, st1) ->
  erase nw = plit (LitNode k f true lits) /\ exists i f' its', nw = Node i k (Some cid) tp f' its'.
Proof. exact ext_plain_becomes_symbolic. Qed.
Print Assumptions C02_extension_plain_becomes_symbolic.

(* --- C02_readback: the read API on a tree = the same read on its erasure -------------------------------------------------------------- *)
(* x == plain, at any depth (lists in order, dicts as maps, numbers by value) *)
Theorem C02_readback_equality : forall n p, node_pyeq n p = pv_pyeq (erase n) p.
Proof. exact node_pyeq_erase. Qed.
Print Assumptions C02_readback_equality.

(* len, x[i], x[a:b:c], in, index, count, == on a list node *)
Theorem C02_readback_list : forall i0 pa pt fl its,
  let n := Node i0 KList pa pt fl its in
  r_len n = PyList.len (evals its) /\
  (forall i, py_lstep (evals its) (PyList.PLGet i) =
             match r_getitem n i with Some c => inl (evals its, PyList.LrVal (erase c)) | None => inr PyList.PyIndexError end) /\
  (forall a b c, py_lstep (evals its) (PyList.PLGetSlice a b c) =
                 match r_getslice n a b c with Some cs => inl (evals its, PyList.LrList (map erase cs)) | None => inr PyList.PyValueError end) /\
  (forall x, py_lstep (evals its) (PyList.PLContains x) = inl (evals its, PyList.LrBool (r_contains n x))) /\
  (forall x, py_lstep (evals its) (PyList.PLIndex x) =
             match r_find x its 0 with Some p => inl (evals its, PyList.LrInt (Z.of_nat p)) | None => inr PyList.PyValueError end) /\
  (forall x, py_lstep (evals its) (PyList.PLCount x) = inl (evals its, PyList.LrInt (r_count n x))) /\
  (forall o, py_lstep (evals its) (PyList.PLEq o) = inl (evals its, PyList.LrBool (node_pyeq n (plist o)))) /\
  pvals (erase n) = evals its.
Proof. exact c02_readback_list_proof. Qed.
Print Assumptions C02_readback_list.

(* len, keys, d[k], in, items, == on a dict node *)
Theorem C02_readback_dict : forall i0 pa pt fl its,
  let n := Node i0 KDict pa pt fl its in
  py_dstep (eitems its) PyDict.PDLen = inl (eitems its, PyDict.DrInt (r_len n)) /\
  py_dstep (eitems its) PyDict.PDKeys = inl (eitems its, PyDict.DrKeys (r_keys n)) /\
  (forall k, py_dstep (eitems its) (PyDict.PDGet k) =
             match r_dget n k with Some c => inl (eitems its, PyDict.DrVal (erase c)) | None => inr PyList.PyKeyError end) /\
  (forall k, py_dstep (eitems its) (PyDict.PDContains k) = inl (eitems its, PyDict.DrBool (has_key k its))) /\
  py_dstep (eitems its) PyDict.PDItems = inl (eitems its, PyDict.DrDict (pitems (erase n))) /\
  (forall o, py_dstep (eitems its) (PyDict.PDEq o) = inl (eitems its, PyDict.DrBool (node_pyeq n (PNode KDict o)))).
Proof. exact c02_readback_dict_proof. Qed.
Print Assumptions C02_readback_dict.

(* pg.to_json *)
Theorem C02_readback_to_json : forall n, to_json n = pv_json (erase n).
Proof. exact to_json_erase. Qed.
Print Assumptions C02_readback_to_json.

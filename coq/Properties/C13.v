(* Property C13 — hyper values: decode and encode are mutually inverse and side-effect free.
   Statements only; proofs in Proofs/Hyper*.v.  [sdecode]/[sencode]/[dna_spec] : Model/Hyper.v;  [shape], [veq],
   [distinguishable], [hypers_of], [shallow], [wf_t] : Model/HyperSpec.v;  [valid], [all_valid], [space_size] : Model/Geno.v (C11).
   User code of CustomHyper subclasses is [cdec]/[cenc]; what each theorem assumes of it is in its statement. *)
From PG Require Import Common.Tactics Model.Geno Model.Hyper Model.HyperSpec Model.HyperRun
  Proofs.HyperBasics Proofs.HyperDecode Proofs.HyperEncode Proofs.HyperInstance.

(* decoding a DNA that is valid for the template's specification can only fail inside user code *)
Theorem C13_decode_total : forall cdec w t d, shallow w -> custom_concrete cdec -> custom_total cdec ->
  valid (dna_spec w t) d = true -> exists v, sdecode cdec w t d = Ok v.
Proof. exact decode_total. Qed.
Print Assumptions C13_decode_total.

(* no placeholder is left, except the ones the filter rejects *)
Theorem C13_decode_concrete : forall cdec w t d v, shallow w -> custom_concrete cdec ->
  valid (dna_spec w t) d = true -> sdecode cdec w t d = Ok v -> Forall (fun h => w h = false) (hypers_of v).
Proof. exact decode_concrete. Qed.
Print Assumptions C13_decode_concrete.

Theorem C13_decode_concrete_nofilter : forall cdec t d v, custom_concrete cdec ->
  valid (dna_spec (fun _ => true) t) d = true -> sdecode cdec (fun _ => true) t d = Ok v -> hypers_of v = [].
Proof. exact decode_concrete_nofilter. Qed.
Print Assumptions C13_decode_concrete_nofilter.

(* the value has the template's shape: accepted placeholders replaced by decoded candidates, the rest (including
   the filtered-out placeholders) in place *)
Theorem C13_decode_shape : forall cdec w t d v, shallow w -> custom_concrete cdec ->
  valid (dna_spec w t) d = true -> sdecode cdec w t d = Ok v -> shape cdec w t v.
Proof. exact decode_shape. Qed.
Print Assumptions C13_decode_shape.

(* what encode accepts is (==) a value some valid DNA decodes to *)
Theorem C13_encode_sound : forall cdec cenc w q, no_hquirks q ->
  (forall ck v e, cenc ck v = Err e -> catchable e = true) ->
  (forall ck v s, cenc ck v = Ok s -> exists v', cdec ck s = Ok v' /\ veq v' v = true) ->
  forall t v ds, wf_t t -> enc cenc w q t v = Ok ds ->
  exists ds', (forall p, forallb2 valid_p (pts w p t) ds' = true) /\
              forall rest, exists v', sdec cdec w t (ds' ++ rest) = Ok (v', rest) /\ veq v' v = true.
Proof. intros cdec cenc w q Hq He Hs t v ds Hwf. exact (enc_sound cdec cenc w q Hq He Hs t Hwf v ds). Qed.
Print Assumptions C13_encode_sound.

(* encoding the decoded value returns the same DNA whenever the candidates are distinguishable *)
Theorem C13_encode_decode : forall cdec cenc w q, no_hquirks q ->
  (forall ck v e, cenc ck v = Err e -> catchable e = true) ->
  (forall ck v s, cenc ck v = Ok s -> exists v', cdec ck s = Ok v' /\ veq v' v = true) ->
  (forall ck s v, cdec ck s = Ok v -> cenc ck v = Ok s) ->
  forall t d v, wf_t t -> distinguishable cdec w t ->
  valid (dna_spec w t) d = true -> sdecode cdec w t d = Ok v -> sencode cenc w q t v = Ok d.
Proof. exact encode_decode. Qed.
Print Assumptions C13_encode_decode.

(* the custom hypers and the filters of the check meet the assumptions above *)
Theorem C13_check_instance :
  custom_concrete std_cdec /\ (forall ck v e, std_cenc ck v = Err e -> catchable e = true) /\
  (forall ck v s, std_cenc ck v = Ok s -> exists v', std_cdec ck s = Ok v' /\ veq v' v = true) /\
  (forall ck s v, std_cdec ck s = Ok v -> std_cenc ck v = Ok s) /\ (forall d, shallow (weval d)).
Proof. exact (conj std_concrete (conj std_cenc_err (conj std_cenc_sound (conj std_cenc_dec weval_shallow)))). Qed.
Print Assumptions C13_check_instance.

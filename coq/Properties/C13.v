(* Property C13 — hyper values: decode and encode are mutually inverse and side-effect free.  Statements only. *)
From PG Require Import Common.Tactics Model.Geno Model.Hyper Proofs.HyperBasics.

Theorem C13_spec_elements : forall w t, elements (dna_spec w t) = pts w [] t.
Proof. exact dna_spec_elements. Qed.
Print Assumptions C13_spec_elements.

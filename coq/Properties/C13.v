(* Property C13 — hyper values: decode and encode are mutually inverse and side-effect free.
   Statements only; proofs in Proofs/Hyper*.v.  [sdecode]/[sencode]/[dna_spec] : Model/Hyper.v;  [shape], [veq],
   [distinguishable], [hypers_of], [shallow], [wf_t] : Model/HyperSpec.v;  [valid], [all_valid], [space_size] : Model/Geno.v (C11).
   User code of CustomHyper subclasses is [cdec]/[cenc]; what each theorem assumes of it is in its statement. *)
From PG Require Import Common.Tactics Model.Geno Model.Hyper Model.HyperSpec Model.HyperRun Model.HyperTyping Proofs.HyperTypingProofs
  Proofs.HyperBasics Proofs.HyperDecode Proofs.HyperEncode Proofs.HyperIter Proofs.HyperConcrete Proofs.HyperInstance
  Gen.HyperDefs Proofs.HyperGenInstance.

(* the theorems below speak about [sdecode] on structured decisions; this is what the code computes on the concrete DNA
   the library builds from the decision (DNA constructor normal form), including the re-rooting DNA(None, dna.children)
   of the child DNA of a conditional choice and the slot assignment of ObjectTemplate._decode *)
Theorem C13_concrete_agrees : forall cdec w t d, hwf t = true -> valid (dna_spec w t) d = true ->
  cdecode cdec w t (normalize d) = sdecode cdec w t d.
Proof. exact cdecode_normalize. Qed.
Print Assumptions C13_concrete_agrees.

(* decoding a DNA that is valid for the template's specification can only fail inside user code *)
Theorem C13_decode_total : forall cdec w t d, custom_total cdec ->
  valid (dna_spec w t) d = true -> exists v, sdecode cdec w t d = Ok v.
Proof. exact decode_total. Qed.
Print Assumptions C13_decode_total.

(* ... and never on a finite space (no float, no custom point) *)
Theorem C13_decode_total_finite : forall cdec w t d, finite (dna_spec w t) = true ->
  valid (dna_spec w t) d = true -> exists v, sdecode cdec w t d = Ok v.
Proof. exact decode_total_finite. Qed.
Print Assumptions C13_decode_total_finite.

(* no placeholder is left, except the ones the filter rejects *)
Theorem C13_decode_concrete : forall cdec w t d v, shallow w -> custom_concrete cdec ->
  valid (dna_spec w t) d = true -> sdecode cdec w t d = Ok v -> Forall (fun h => w h = false) (hypers_of v).
Proof. exact decode_concrete. Qed.
Print Assumptions C13_decode_concrete.

Theorem C13_decode_concrete_nofilter : forall cdec t d v, custom_concrete cdec ->
  valid (dna_spec (fun _ => true) t) d = true -> sdecode cdec (fun _ => true) t d = Ok v -> hypers_of v = [].
Proof. exact decode_concrete_nofilter. Qed.
Print Assumptions C13_decode_concrete_nofilter.

(* the value has the template's shape: accepted placeholders replaced by decoded candidates, the rest (including
   the filtered-out placeholders) in place *)
Theorem C13_decode_shape : forall cdec w t d v,
  valid (dna_spec w t) d = true -> sdecode cdec w t d = Ok v -> shape cdec w t v.
Proof. exact decode_shape. Qed.
Print Assumptions C13_decode_shape.

(* what encode accepts is (==) a value some valid DNA decodes to *)
Theorem C13_encode_sound : forall cdec cenc w q,
  (forall ck v e, cenc ck v = Err e -> catchable e = true) ->
  (forall ck v s, cenc ck v = Ok s -> exists v', cdec ck s = Ok v' /\ veq v' v = true) ->
  forall t v ds, wf_t t -> enc cenc w q t v = Ok ds ->
  exists ds', (forall p, forallb2 valid_p (pts w p t) ds' = true) /\
              forall rest, exists v', sdec cdec w t (ds' ++ rest) = Ok (v', rest) /\ veq v' v = true.
Proof. exact encode_sound. Qed.
Print Assumptions C13_encode_sound.

(* encoding the decoded value returns the same DNA whenever the candidates are distinguishable *)
Theorem C13_encode_decode : forall cdec cenc w q, no_hquirks q ->
  (forall ck v e, cenc ck v = Err e -> catchable e = true) ->
  (forall ck v s, cenc ck v = Ok s -> exists v', cdec ck s = Ok v' /\ veq v' v = true) ->
  (forall ck s v, cdec ck s = Ok v -> cenc ck v = Ok s) ->
  forall t d v, wf_t t -> distinguishable cdec w t ->
  valid (dna_spec w t) d = true -> sdecode cdec w t d = Ok v -> sencode cenc w q t v = Ok d.
Proof. exact encode_decode. Qed.
Print Assumptions C13_encode_decode.

(* with the open finding unrepaired ([q_list_dict q = true]): still true on templates without a list node ... *)
Theorem C13_encode_decode_partial : forall cdec cenc w q,
  (forall ck v e, cenc ck v = Err e -> catchable e = true) ->
  (forall ck v s, cenc ck v = Ok s -> exists v', cdec ck s = Ok v' /\ veq v' v = true) ->
  (forall ck s v, cdec ck s = Ok v -> cenc ck v = Ok s) ->
  forall t d v, avoids q t -> wf_t t -> distinguishable cdec w t ->
  valid (dna_spec w t) d = true -> sdecode cdec w t d = Ok v -> sencode cenc w q t v = Ok d.
Proof. exact encode_decode_partial. Qed.
Print Assumptions C13_encode_decode_partial.

(* ... and false in general: oneof([[oneof([1, 2])], {}]) has distinguishable candidates, DNA(1) decodes to {}, and
   encoding {} raises TypeError (with the flag off — the behaviour as repaired — it returns DNA(1)) *)
Theorem C13_encode_decode_refuted :
  wf_t rf_t /\ distinguishable std_cdec ex_w rf_t /\ valid (dna_spec ex_w rf_t) rf_d = true /\
  sdecode std_cdec ex_w rf_t rf_d = Ok (TDict []) /\
  sencode std_cenc ex_w q_on rf_t (TDict []) = Err E_TYPE /\
  sencode std_cenc ex_w hq_none rf_t (TDict []) = Ok rf_d /\
  ~ avoids q_on rf_t.
Proof. exact encode_decode_refuted. Qed.
Print Assumptions C13_encode_decode_refuted.

(* two valid DNAs never decode to equal (==) values when the candidates are distinguishable *)
Theorem C13_decode_injective : forall cdec w,
  (forall ck s1 s2 v1 v2, cdec ck s1 = Ok v1 -> cdec ck s2 = Ok v2 -> veq v1 v2 = true -> s1 = s2) ->
  forall t d1 d2 v1 v2, wf_t t -> distinguishable cdec w t ->
  valid (dna_spec w t) d1 = true -> valid (dna_spec w t) d2 = true ->
  sdecode cdec w t d1 = Ok v1 -> sdecode cdec w t d2 = Ok v2 -> veq v1 v2 = true -> d1 = d2.
Proof. exact decode_injective. Qed.
Print Assumptions C13_decode_injective.

(* iterating a finite template: the DNAs swept are the valid ones, each once, as many as space_size (C11); every one
   decodes and no two decode to equal values *)
Theorem C13_iter_count : forall cdec w t, hwf t = true -> wf_t t -> finite (dna_spec w t) = true ->
  (forall ck s1 s2 v1 v2, cdec ck s1 = Ok v1 -> cdec ck s2 = Ok v2 -> veq v1 v2 = true -> s1 = s2) ->
  distinguishable cdec w t ->
  let s := dna_spec w t in
  forall fuel, length (all_valid s) <= fuel ->
  iter s fuel = all_valid s /\ NoDup (iter s fuel) /\ space_size s = Some (N.of_nat (length (iter s fuel))) /\
  (forall d, In d (iter s fuel) -> exists v, sdecode cdec w t d = Ok v) /\
  (forall d1 d2 v1 v2, In d1 (iter s fuel) -> In d2 (iter s fuel) ->
     sdecode cdec w t d1 = Ok v1 -> sdecode cdec w t d2 = Ok v2 -> veq v1 v2 = true -> d1 = d2).
Proof. exact iter_count. Qed.
Print Assumptions C13_iter_count.

(* a value decoded from a placeholder that was bound to a value spec (C04's [Typing.spec], [Typing.accepts]) is accepted by
   that spec.  [bound] (Model/HyperTyping.v) is the binding-time validation of OneOf / ManyOf / Float.custom_apply.
   PARTIAL: placeholder trees of oneof / manyof / floatv over constants, and lists with such placeholders inside (a List
   field validates element by element), no filter; missing: dicts / objects with placeholders inside as candidates
   (validated field by field by the schema's own apply), manyof / floatv under a Union spec, filters.  A custom hyper is accepted by every spec (CustomHyper.custom_apply), so nothing holds for it. *)
Theorem C13_decode_respects_spec_partial : forall cdec t sp d v, bound sp t ->
  valid (dna_spec (fun _ => true) t) d = true -> sdecode cdec (fun _ => true) t d = Ok v ->
  exists pv, to_pv v = Some pv /\ T.accepts sp pv.
Proof. exact decode_respects_spec. Qed.
Print Assumptions C13_decode_respects_spec_partial.

(* the custom hypers and the filters of the check meet the assumptions above *)
Theorem C13_check_instance :
  custom_concrete std_cdec /\ (forall ck v e, std_cenc ck v = Err e -> catchable e = true) /\
  (forall ck v s, std_cenc ck v = Ok s -> exists v', std_cdec ck s = Ok v' /\ veq v' v = true) /\
  (forall ck s v, std_cdec ck s = Ok v -> std_cenc ck v = Ok s) /\
  (forall ck s1 s2 v1 v2, std_cdec ck s1 = Ok v1 -> std_cdec ck s2 = Ok v2 -> veq v1 v2 = true -> s1 = s2) /\
  (forall d, shallow (weval d)).
Proof. exact (conj std_concrete (conj std_cenc_err (conj std_cenc_sound (conj std_cenc_dec (conj std_cdec_inj weval_shallow))))). Qed.
Print Assumptions C13_check_instance.

(* per-run obligation: what the translator regenerated from the CURRENT source (Gen/HyperDefs.v: Float._decode, Float.encode,
   the exception classes try_encode swallows, the index test of Choices._decode, the constraint checks of Choices.encode) is what
   the hand-transcribed model computes *)
Theorem C13_generated_definitions_agree : generated_agree.
Proof. exact generated_agree_holds. Qed.
Print Assumptions C13_generated_definitions_agree.

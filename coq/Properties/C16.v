(* C16 — concurrent sampling hands out each trial once and loses no feedback.
   Every theorem quantifies over ALL schedules (any list of thread ids), any number of workers with any scripts, and
   (except the instance) over EVERY program set that passes the decidable discipline check. *)
From PG Require Import Common.Tactics Model.Sched Model.SchedDisc Gen.SchedProg
  Proofs.SchedMutex Proofs.SchedSound Proofs.SchedSound2 Proofs.SchedSound3 Proofs.SchedTheorems Proofs.SchedInstance.

(* no lock ever has two holders: for every program set whatsoever *)
Theorem Sched_mutex : forall ps c ws sched t1 t2 th1 th2 k,
  let st := run ps c (init_state c ws) sched in
  nth_error (snd st) t1 = Some th1 -> nth_error (snd st) t2 = Some th2 ->
  In k (map snd (held th1)) -> In k (map snd (held th2)) -> t1 = t2.
Proof. exact sched_mutex_holders. Qed.
Print Assumptions Sched_mutex.

Theorem C16_ids_exact : forall ps c, disciplined ps = true -> forall ws sched,
  let st := run ps c (init_state c ws) sched in
  let tr := trials_of st in
  map t_id tr = seq 1 (length tr) /\ NoDup (map t_id tr) /\
  (forall n, c_max c = Some n -> length tr <= n) /\
  (s_full (study0_of st) = true -> c_max c = Some (length tr)) /\
  (forall t th, nth_error (snd st) t = Some th -> r_study th = 0).
Proof. exact ids_exact. Qed.
Print Assumptions C16_ids_exact.

Theorem C16_feedback_exactly_once : forall ps c, disciplined ps = true -> forall ws sched,
  let st := run ps c (init_state c ws) sched in
  (forall i x, nth_error (trials_of st) i = Some x -> t_fed x <= 1) /\
  (finished (snd st) = true -> forall i x, nth_error (trials_of st) i = Some x -> t_fed x = if t_done x && negb (t_inf x) then 1 else 0).
Proof. exact feedback_exactly_once. Qed.
Print Assumptions C16_feedback_exactly_once.

Theorem C16_bookkeeping_counters : forall ps c, disciplined ps = true -> forall ws sched,
  let st := run ps c (init_state c ws) sched in
  finished (snd st) = true ->
  s_comp (study0_of st) = countp t_done (trials_of st) /\
  s_pend (study0_of st) = countp (fun x => negb (t_done x)) (trials_of st) /\
  s_inf (study0_of st) = countp t_inf (trials_of st) /\
  (s_comp (study0_of st) + s_pend (study0_of st))%Z = Z.of_nat (length (trials_of st)).
Proof. exact bookkeeping_counters. Qed.
Print Assumptions C16_bookkeeping_counters.

Theorem C16_same_group_same_trial : forall ps c, disciplined ps = true -> forall ws sched,
  let st := run ps c (init_state c ws) sched in
  (forall i j xi xj, nth_error (trials_of st) i = Some xi -> nth_error (trials_of st) j = Some xj ->
     t_done xi = false -> t_done xj = false -> t_group xi = t_group xj -> i = j) /\
  (forall t th i, nth_error (snd st) t = Some th -> r_cur th = Some i ->
     exists x, nth_error (trials_of st) i = Some x /\ t_group x = r_group th).
Proof. exact same_group_same_trial. Qed.
Print Assumptions C16_same_group_same_trial.

Theorem C16_best_trial_max : forall ps c, disciplined ps = true -> forall ws sched,
  let st := run ps c (init_state c ws) sched in
  (forall b, s_best (study0_of st) = Some b ->
     exists xb rb, nth_error (trials_of st) b = Some xb /\ t_done xb = true /\ t_inf xb = false /\ t_final xb = Some rb) /\
  (finished (snd st) = true -> forall i x r, nth_error (trials_of st) i = Some x -> t_done x = true -> t_inf x = false -> t_final x = Some r ->
     exists b xb rb, s_best (study0_of st) = Some b /\ nth_error (trials_of st) b = Some xb /\ t_final xb = Some rb /\ (r <= rb)%Z).
Proof. exact best_trial_max. Qed.
Print Assumptions C16_best_trial_max.

Theorem C16_single_study : forall ps c, disciplined ps = true -> forall ws sched,
  nstudies (fst (run ps c (init_state c ws) sched)) <= 1.
Proof. exact single_study. Qed.
Print Assumptions C16_single_study.

Theorem C16_reports_exact : forall ps c, disciplined ps = true -> forall ws sched,
  let st := run ps c (init_state c ws) sched in
  NoDup (a_fed (alg (fst st))) /\
  (finished (snd st) = true -> forall i x, nth_error (trials_of st) i = Some x ->
     (In (0, t_id x) (a_fed (alg (fst st))) <-> (t_done x = true /\ t_inf x = false))).
Proof. exact reports_exact. Qed.
Print Assumptions C16_reports_exact.

Theorem C16_setup_once : forall ps c, disciplined ps = true -> forall ws sched,
  a_nset (alg (fst (run ps c (init_state c ws) sched))) <= 1.
Proof. exact setup_once. Qed.
Print Assumptions C16_setup_once.

Theorem C16_algorithm_counters : forall ps c, disciplined ps = true -> forall ws sched,
  let st := run ps c (init_state c ws) sched in
  (a_win (alg (fst st)) = false ->
     a_nf (alg (fst st)) = length (a_fed (alg (fst st))) /\
     Z.of_nat (a_np (alg (fst st))) = (Z.of_nat (length (trials_of st)) + sumz (fun th => g_np (gh2 th)) (snd st))%Z) /\
  (finished (snd st) = true ->
     a_nf (alg (fst st)) = length (a_fed (alg (fst st))) /\ a_np (alg (fst st)) = length (trials_of st)).
Proof. exact algorithm_counters. Qed.
Print Assumptions C16_algorithm_counters.

Theorem C16_feedback_value : forall ps c, disciplined ps = true -> forall ws sched,
  let st := run ps c (init_state c ws) sched in
  map fst (a_fedv (alg (fst st))) = a_fed (alg (fst st)) /\
  (forall s k r, In (s, k, r) (a_fedv (alg (fst st))) ->
     exists x, nth_error (trials_of st) (k - 1) = Some x /\ t_id x = k /\ t_final x = Some r /\ t_done x = true /\ t_inf x = false).
Proof. exact feedback_value. Qed.
Print Assumptions C16_feedback_value.

Theorem C16_no_deadlock : forall ps c, disciplined ps = true -> forall ws sched,
  let st := run ps c (init_state c ws) sched in
  finished (snd st) = false -> exists t, step1 ps c (fst st) (snd st) t <> None.
Proof. exact no_deadlock. Qed.
Print Assumptions C16_no_deadlock.

(* re-checked on every run against the programs regenerated from the current source *)
Theorem C16_instance : disciplined Gen.SchedProg.progs = true.
Proof. exact instance_disciplined. Qed.
Print Assumptions C16_instance.

From PG Require Import Model.Sched Gen.SchedProg.
Theorem C16_placeholder : length progs = 7.
Proof. reflexivity. Qed.
Print Assumptions C16_placeholder.

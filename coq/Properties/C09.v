(* Property C09 -- change notification contract and freshness of derived state.  Only statements and [exact]; proofs live in
   Proofs/SymCoreEvents*.v.  Vocabulary (Model/SymCoreEvents.v): [step_trace q st o] is the trace of the call [o] started in the
   forest [st] -- one [TW st' cid] per write of the container [cid] ([st']: the forest right after it), one [TN st' ups stop] per call
   of Symbolic._notify_field_updates with the FieldUpdates [ups]; [events_of] turns the notifications of a trace into the log of
   delivered events (receiver id, its path, payload = relative path -> update).  The state and outcome of the call are SymCore.step. *)
From PG Require Import Common.Tactics Model.SymCoreDefs Model.SymCoreOps Model.SymCoreSpec Model.SymCoreEvents
     Proofs.SymCoreBase Proofs.SymCoreWF Proofs.SymCoreWFOps Proofs.SymCoreIds
     Proofs.SymCoreEventsBase Proofs.SymCoreEventsDeliver Proofs.SymCoreEventsStep Proofs.SymCoreEventsWF
     Proofs.SymCoreEventsOrder Proofs.SymCoreEventsTheorems Proofs.SymCoreEventsExamples.
From PG Require Import Model.SymCoreEventsSpec Proofs.SymCoreEventsQuery Proofs.SymCoreEventsFrame Proofs.SymCoreEventsFresh.
From PG Require Import Gen.NotifySrc Proofs.SymCoreEventsInstance Proofs.SymCoreEventsComplete.
From Coq Require Import NArith.

(* ---- the source, as read by the translator on this run (Gen/NotifySrc.v) ------------------------------------------------------------------- *)
(* every method of pg.List / pg.Dict that performs a raw write on the built-in base invalidates the content caches (itself or through a method
   of self it calls) and hands back / sends the FieldUpdate of what it wrote *)
Theorem C09_every_write_site_invalidates : forallb (fun r => snd (fst r)) write_sites = true /\ forallb snd write_sites = true.
Proof. exact (conj generated_write_sites_invalidate generated_write_sites_report). Qed.
Print Assumptions C09_every_write_site_invalidates.
(* the two functions the model is written after have the recognised shape: the invalidation resets the three memo attributes on the node
   and on every ancestor (= the reset of a TW entry); the notification walks from update.target upward, keys payloads by
   update.path.keys[target.sym_path.depth:], delivers in descending path order, resets the three attributes before _on_change and stops after
   self when notify_parents is False (= deliver / notified_targets) *)
Theorem C09_source_shape_is_the_model :
  (invalidated_attrs = cache_attr_names /\ invalidate_walks_to_root = true /\
   forall st cid, reset_of (TW st cid) = map nid0 (chain_of st cid)) /\
  (notify_walks_from_update_target = true /\ notify_relative_path_by_depth = true /\ notify_sorted_descending_by_path = true /\
   notify_resets_before_on_change = cache_attr_names /\ notify_stops_after_self_when_not_parents = true).
Proof.
  split. exact generated_invalidate_is_the_model_reset.
  destruct generated_notify_is_the_model_delivery as (A & B & C & D & E & _). auto.
Qed.
Print Assumptions C09_source_shape_is_the_model.

(* ---- silence ---------------------------------------------------------------------------------------------------------------------- *)
(* inside a notifications-disabled scope no change event is delivered, whatever the operation, the forest, the arguments *)
Theorem C09_silent_scope : forall q st o, notify_on (o_scope o) = false -> events_of (step_trace q st o) = [].
Proof. exact silent_scope. Qed.
Print Assumptions C09_silent_scope.
(* the caller asks to skip: Dict.update / |= (which rebind with skip_notification=True) and rebind(..., skip_notification=True) *)
Theorem C09_silent_update : forall q st o kvs, o_op o = DUpdate kvs \/ o_op o = DIOr kvs -> events_of (step_trace q st o) = [].
Proof. exact update_is_silent. Qed.
Print Assumptions C09_silent_update.
Theorem C09_silent_skip : forall q st sc ps pvs np, events_of (snd (stepx q st sc ps pvs (Some true) np)) = [].
Proof. exact skip_is_silent. Qed.
Print Assumptions C09_silent_skip.

(* ---- exactly once ----------------------------------------------------------------------------------------------------------------- *)
(* one call, at most one notification (the last thing the call does) ... *)
Theorem C09_one_notification_per_call : forall q st o, single (step_trace q st o).
Proof. exact step_trace_single. Qed.
Print Assumptions C09_one_notification_per_call.
(* ... so nobody hears about one call twice: any operation, any scope, any forest *)
Theorem C09_exactly_once : forall q st o, NoDup (map ev_id (events_of (step_trace q st o))).
Proof. exact step_once. Qed.
Print Assumptions C09_exactly_once.
(* who hears: with [st'] the forest right after the writes and [ups] the updates of the call, the receivers are exactly the observing
   nodes among [affected st' ups] ... *)
Theorem C09_receivers_exact : forall q st o st' ups i, WFI st -> In (TN st' ups None) (step_trace q st o) ->
  (In i (map ev_id (events_of (step_trace q st o))) <->
   exists n, In n (affected st' ups) /\ nid0 n = i /\ observes n = true).
Proof. exact step_who. Qed.
Print Assumptions C09_receivers_exact.
(* ... and [affected] is: every written container and every container it is (actually) stored in, nothing else *)
Theorem C09_affected_are_the_ancestors : forall st ups n, wfs st ->
  (In n (affected st ups) <->
   exists u r pre rest, In u ups /\ locate st (u_tid u) = Some (r, pre ++ rest) /\ get_at st (r, pre) = Some n).
Proof. exact affected_are_the_ancestors. Qed.
Print Assumptions C09_affected_are_the_ancestors.
(* every forest mentioned by a trace is well-formed (one parent, true path, no node twice), so the two statements compose *)
Theorem C09_trace_states_wf : forall q st o, WFI st -> trace_ok (step_trace q st o).
Proof. exact step_trace_ok. Qed.
Print Assumptions C09_trace_states_wf.
(* no notification, no event *)
Theorem C09_no_notification_no_event : forall t, (forall st ups stop, ~ In (TN st ups stop) t) -> events_of t = [].
Proof. exact no_tn_no_events. Qed.
Print Assumptions C09_no_notification_no_event.

(* ---- complete: what was written is told ------------------------------------------------------------------------------------------------- *)
(* the notification of a call names exactly the containers the call wrote: every write of the trace is the target of one of the FieldUpdates,
   every FieldUpdate has its write (with C09_receivers_exact: nobody above a written container is left out; with C09_every_change_is_reset:
   whatever changed was written or notified) *)
Theorem C09_notification_names_the_writes : forall q st o st' ups stop, WFI st -> In (TN st' ups stop) (step_trace q st o) ->
  (forall st1 cid, In (TW st1 cid) (step_trace q st o) -> exists u, In u ups /\ u_tid u = cid) /\
  (forall u, In u ups -> exists st1, In (TW st1 (u_tid u)) (step_trace q st o)).
Proof. exact step_reported. Qed.
Print Assumptions C09_notification_names_the_writes.
Theorem C09_rebind_notification_names_the_writes : forall q st sc ps pvs skip np st' ups stop,
  In (TN st' ups stop) (snd (stepx q st sc ps pvs skip np)) ->
  (forall st1 cid, In (TW st1 cid) (snd (stepx q st sc ps pvs skip np)) -> exists u, In u ups /\ u_tid u = cid) /\
  (forall u, In u ups -> exists st1, In (TW st1 (u_tid u)) (snd (stepx q st sc ps pvs skip np))).
Proof. exact stepx_reported. Qed.
Print Assumptions C09_rebind_notification_names_the_writes.
(* with notification enabled, a call that wrote a container and did not raise HAS notified.  [step_tells] excludes the calls that write
   without telling by design: Dict.update / |= (skip_notification), l * n (writes of the new list), clear() of what is empty already.
   Not told: the writes of a batch that raised in the middle (List.extend, rebind) -- the second disjunct *)
Theorem C09_write_is_told : forall q st o st1 cid, WFI st -> notify_on (o_scope o) = true -> step_tells st o ->
  In (TW st1 cid) (step_trace q st o) ->
  (exists st' ups stop, In (TN st' ups stop) (step_trace q st o)) \/ exists e, snd (step q st o) = Err e.
Proof. exact step_told. Qed.
Print Assumptions C09_write_is_told.
Theorem C09_rebind_write_is_told : forall q st sc ps pvs skip np st1 cid, WFI st ->
  (match skip with Some b => negb b | None => notify_on sc end) = true ->
  In (TW st1 cid) (snd (stepx q st sc ps pvs skip np)) ->
  (exists st' ups stop, In (TN st' ups stop) (snd (stepx q st sc ps pvs skip np))) \/
  exists e, snd (fst (stepx q st sc ps pvs skip np)) = Err e.
Proof. exact stepx_told. Qed.
Print Assumptions C09_rebind_write_is_told.

(* ---- children before parents --------------------------------------------------------------------------------------------------------- *)
(* in delivery order no receiver is stored above a later one: no later path is a proper extension of an earlier one.  Python's sorted()
   over KeyPaths is modelled by an insertion sort, which agrees with it where the key comparison is a consistent order: on simple keys =
   EVERY int key (list indices of any size, negative ints) and every string key that does not start with a digit or a minus sign
   (Example batch_simple).  Outside, the comparison is not an order: C09_key_order_cycle *)
Theorem C09_children_first : forall q st o,
  (forall st' ups stop, In (TN st' ups stop) (step_trace q st o) -> Forall (fun n => simple_path (npth n)) (affected st' ups)) ->
  children_first (map ev_path (events_of (step_trace q st o))).
Proof. exact step_children_first. Qed.
Print Assumptions C09_children_first.
Theorem C09_key_order_cycle : kw_ltb (KI 9) (KI 10) = true /\ kw_ltb (KI 10) (KS [53%N]) = true /\ kw_ltb (KS [53%N]) (KI 9) = true.
Proof. exact key_order_cycle. Qed.
Print Assumptions C09_key_order_cycle.

(* ---- exact payload ------------------------------------------------------------------------------------------------------------------------ *)
(* every delivered event belongs to an observing node [m] of [affected]; it carries m's path and exactly [payload_spec st' ups' m]: the
   updates whose container is m or lies below m, each keyed by its path relative to m, in the order of the updates; [ups'] = the updates with
   their old / new values as those objects are at delivery ([refresh]: a FieldUpdate holds them by reference) *)
Theorem C09_payload_exact : forall q st o st' ups e, WFI st -> In (TN st' ups None) (step_trace q st o) ->
  In e (events_of (step_trace q st o)) ->
  exists m, In m (affected st' ups) /\ observes m = true /\
            ev_id e = nid0 m /\ ev_path e = npth m /\ ev_payload e = payload_spec st' (map (refresh st') ups) m.
Proof. exact step_payload. Qed.
Print Assumptions C09_payload_exact.
Theorem C09_relative_path : forall m u pre rest k, npth m = pre -> u_path u = pre ++ rest ++ [k] -> rel_path m u = rest ++ [k].
Proof. exact relative_path_exact. Qed.
Print Assumptions C09_relative_path.
(* an update names the written container and key, and carries what the forest held there before and holds there after the write *)
Theorem C09_update_reads_the_states : forall st st' cp ky rv cid kd pa cpath cfl its u,
  get_at st cp = Some (Node cid kd pa cpath cfl its) -> In u (upd_of st st' cp ky rv) ->
  u_tid u = cid /\ exists k', u_path u = cpath ++ [k'] /\ u_new u = item_at st' cp k' /\
                              (u_old u = item_at st cp k' \/ u_old u = Leaf LMissing).
Proof. exact update_reads_the_states. Qed.
Print Assumptions C09_update_reads_the_states.
(* open finding C09/spurious/reset-to-default/unchanged-field: a reset of a field that already holds its default changes nothing and is
   nevertheless delivered as an update whose old value is its new value *)
Theorem C09_spurious_refuted :
  fst (step q0 st_obj reset_x) = st_obj /\
  exists e u, events_of (step_trace q0 st_obj reset_x) = [e] /\ ev_payload e = [([kx], u)] /\ u_old u = u_new u.
Proof. exact spurious_refuted. Qed.
Print Assumptions C09_spurious_refuted.

(* open finding C09/payload/overlapping-batch/non-canonical-index: a batch writes below z[0] and then replaces z[-1] (the same node); the replaced
   node -- a root of its own after the call -- is told about the location z[0].a, which does not exist below it *)
Theorem C09_overlapping_batch_refuted :
  exists e, In e (events_of (step_trace q0 st_ov batch_ov)) /\
            locate (fst (step q0 st_ov batch_ov)) (ev_id e) = Some (1%nat, []) /\ ev_path e = [] /\
            map fst (ev_payload e) = [[kz9; KI 0; ka]] /\
            get_at (fst (step q0 st_ov batch_ov)) (1%nat, [kz9; KI 0; ka]) = None.
Proof. exact overlap_refuted. Qed.
Print Assumptions C09_overlapping_batch_refuted.

(* ---- freshness of the derived facts ----------------------------------------------------------------------------------------------------------- *)
(* Vocabulary (Model/SymCoreEventsSpec.v): an extended state [xs] is a forest plus the three memo tables (sym_puresymbolic, sym_missing,
   sym_nondefault; is_partial is read off sym_missing, is_deterministic is not memoised); [report_x c n] is what node n answers with
   the tables c (the memoised value if there is one, else a computation that asks the children for THEIR memoised values);
   [fresh_x n] is the computation without any memo; [Fresh xs]: every table entry of every live node is the value of its current
   contents; [step2] runs a SymCore operation (state = SymCore.step, tables reset along the trace: every write resets the written
   container and everything above it, every notification resets its targets), a rebind with skip_notification / notify_parents, or
   a query (which fills tables). *)
(* THE OBLIGATION: whatever an operation changes, it resets -- every live node of the new forest is reset by the trace, or is new,
   or holds exactly what some node of the old forest held *)
Theorem C09_every_change_is_reset : forall q st o, WFI st -> step_exact st o ->
  FR st (fst (step q st o)) (rids (step_trace q st o)).
Proof. exact step_frame. Qed.
Print Assumptions C09_every_change_is_reset.
(* hence one step (operation, rebind with skip_notification / notify_parents, query) keeps every memoised fact valid *)
Theorem C09_fresh_step : forall q xs o, WFI (x_st xs) -> covered (x_st xs) o -> Fresh xs -> Fresh (fst (fst (step2 q xs o))).
Proof. exact step2_fresh. Qed.
Print Assumptions C09_fresh_step.
(* asking never breaks it, and the answer is the fact of the current contents *)
Theorem C09_query_answers_fresh : forall st c n f, WFI st -> Fresh (mkX st c) -> In n (live_nodes st) ->
  Fresh (mkX st (query c n f)) /\
  report_pure c n = val_pure n /\ report_miss c n = val_miss n /\ report_nond c n = val_nond n.
Proof. exact query_fresh. Qed.
Print Assumptions C09_query_answers_fresh.
(* after ANY history from any constructed forest: for every live node, what it reports = what a computation from scratch gives.
   [history_ok] only says: where the identity test of sort()/reverse() finds that no position holds another object, the items are the
   same list (an opaque leaf identity has one content; true of Python objects) -- Example hist_ok.  Every operation of the catalogue,
   rebind with any skip_notification / notify_parents, and every query pattern is covered *)
Theorem C09_fresh : forall q ls ops n,
  forallb lit_valid ls = true ->
  let xs0 := mkX (init_forest ls empty_state) no_caches in
  history_ok q xs0 ops ->
  let xs := run2 q xs0 ops in
  In n (live_nodes (x_st xs)) ->
  report_pure (x_c xs) n = fresh_pure n /\ report_miss (x_c xs) n = fresh_miss n /\ report_nond (x_c xs) n = fresh_nond n /\
  report_partial (x_c xs) n = mv_nonempty (fresh_miss n).
Proof. exact reports_are_fresh. Qed.
Print Assumptions C09_fresh.
(* the facts as plain functions of the contents: no PureSymbolic leaf below / the nested dict of missing / non-default values *)
Theorem C09_fresh_is_structural : forall n, NoDup (ids n) ->
  fresh_pure n = val_pure n /\ fresh_miss n = val_miss n /\ fresh_nond n = val_nond n.
Proof. exact fresh_is_val. Qed.
Print Assumptions C09_fresh_is_structural.

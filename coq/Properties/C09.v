(* Property C09 -- change notification contract and freshness of derived state.  Only statements and [exact]; proofs live in
   Proofs/SymCoreEvents*.v. *)
From PG Require Import Common.Tactics Model.SymCoreDefs Model.SymCoreOps Model.SymCoreEvents Proofs.SymCoreEventsBase.
From Coq Require Import NArith.
(* inside a notifications-disabled scope no change event is delivered, whatever the operation *)
Theorem C09_silent_scope : forall q st o, notify_on (o_scope o) = false -> events_of (step_trace q st o) = [].
Proof. exact silent_scope. Qed.
Print Assumptions C09_silent_scope.

(* Property C14 — evolution operators are closed over valid DNA and never corrupt their inputs.
   Statements only; proofs in Proofs/Evo*.v.

   Closure theorems have the form  "the operator returned children  ->  every child is valid (and aligned)":
   an operator of the package that cannot produce a child raises (the model's [Err]); what is proved is that
   nothing invalid is ever returned.  That the shipped operators do not raise on valid parents (beyond their
   documented preconditions) is decided by the correspondence and the oracle, not by a theorem.
   "Never modifies its inputs" and "deterministic function of the seed" hold definitionally of a pure function
   and are therefore decided at the code level by the correspondence/oracle only. *)
From PG Require Import Common.Tactics Model.Geno Model.Evo Model.EvoOps
  Proofs.GenoConcrete Proofs.EvoBase Proofs.EvoSel Proofs.EvoComp Proofs.EvoMut Proofs.EvoSwap Proofs.EvoSeg Proofs.EvoPw Proofs.EvoRec
  Proofs.GenoExact Proofs.EvoMutTotal Proofs.EvoPwTotal Proofs.EvoPermSmall Proofs.EvoSelExpr Proofs.EvoExamples.

(* the contract assumed of random.Random is satisfiable *)
Theorem C14_rng_contract_inhabited : rng_ok first_rng.
Proof. exact first_rng_ok. Qed.
Print Assumptions C14_rng_contract_inhabited.

(* ---- selectors: members of the input, in the documented number (Random, Sample, Proportional, Top, Bottom, First, Last) *)
Theorem C14_selector_members : forall R (G : rng R) sl pop r out r',
  select R G sl pop r = Ok (out, r') -> incl out pop.
Proof. exact select_members. Qed.
Print Assumptions C14_selector_members.

Theorem C14_selector_count : forall R (G : rng R), rng_ok G -> forall sl pop r out r',
  weights_nonneg pop -> select R G sl pop r = Ok (out, r') -> length out = documented_count sl pop.
Proof. exact select_count. Qed.
Print Assumptions C14_selector_count.

(* ... and so does every pipeline built from selectors with the composition operators (on a population of DNAs) *)
Theorem C14_selector_expression_members : forall R (G : rng R) s x, sel_only x = true -> forall pop st out st',
  flat pop -> eval R G s x pop st = Ok (out, st') -> incl out pop.
Proof. exact sel_expr_members. Qed.
Print Assumptions C14_selector_expression_members.

(* ---- composition: ALL operator programs (induction on the expression); [closedg]: the populations stored in the
   global state (GlobalStateSetter / as_global_state) stay valid as well ------------------------------------------------ *)
Theorem C14_composition_closed : forall R (G : rng R) s,
  (forall p, closed s (run_prim R G s p)) -> forall x, closedg s (eval R G s x).
Proof. exact comp_closed. Qed.
Print Assumptions C14_composition_closed.

(* ---- mutators ------------------------------------------------------------------------------------------------ *)
Theorem C14_mutator_closed_uniform : forall R (G : rng R), rng_ok G -> forall wh q s d r d' r',
  wf s = true -> valid s d = true -> mutate_uniform R G wh s d r = Ok (d', r') ->
  valid s d' = true /\ exists b, bind q s (normalize d') = Some b /\ aligned q s b.
Proof.
  intros R G GOK wh q s d r d' r' Hwf Hv H.
  assert (Hv' : valid s d' = true) by (eapply mutate_uniform_valid; eauto).
  split; auto. destruct (bind_complete q s d' Hwf Hv') as (b & Hb & _ & Ha). eauto.
Qed.
Print Assumptions C14_mutator_closed_uniform.

(* ... and it always returns one when the DNA has a node it may mutate (no custom decision points: their
   random_dna_fn is user code): 'Immutable DNA' is the only way Uniform mutation refuses a valid DNA *)
Theorem C14_mutator_uniform_total : forall R (G : rng R) wh, rng_ok G -> forall s d r, nocustom s = true -> valid s d = true ->
  (cnt_space wh s true d = 0 -> mutate_uniform R G wh s d r = Err ERuntime) /\
  (0 < cnt_space wh s true d -> exists d' r', mutate_uniform R G wh s d r = Ok (d', r')).
Proof. exact mutate_uniform_total. Qed.
Print Assumptions C14_mutator_uniform_total.

Theorem C14_mutator_closed_swap : forall R (G : rng R) wh q s d r d' r',
  wf s = true -> valid s d = true -> mutate_swap R G wh s d r = Ok (d', r') ->
  valid s d' = true /\ exists b, bind q s (normalize d') = Some b /\ aligned q s b.
Proof.
  intros R G wh q s d r d' r' Hwf Hv H.
  assert (Hv' : valid s d' = true) by (eapply mutate_swap_valid; eauto).
  split; auto. destruct (bind_complete q s d' Hwf Hv') as (b & Hb & _ & Ha). eauto.
Qed.
Print Assumptions C14_mutator_closed_swap.

(* ---- recombinators ------------------------------------------------------------------------------------------- *)
(* Uniform, Sample, Average, WeightedAverage under every where filter *)
Theorem C14_recombinator_closed_pointwise : forall R (G : rng R) kd w ws q s ps r cs r',
  wf s = true -> Forall (fun d => valid s d = true) ps -> pointwise R G kd w ws s ps r = Ok (cs, r') ->
  Forall (fun c => valid s c = true /\ exists b, bind q s (normalize c) = Some b /\ aligned q s b) cs.
Proof.
  intros R G kd w ws q s ps r cs r' Hwf Hps H. eapply pointwise_valid in H; eauto.
  eapply Forall_impl; [|exact H]. intros c Hc. split; auto.
  destruct (bind_complete q s c Hwf Hc) as (b & Hb & _ & Ha). eauto.
Qed.
Print Assumptions C14_recombinator_closed_pointwise.

(* ... and every parent ends up with a complete set of decisions, whatever the where filter selects: the
   "Value for ... is not found" failure of from_dict cannot occur (the repaired behaviour: the decision points under a
   choice that was replaced in some parent are recombined as well) *)
Theorem C14_recombinator_pointwise_complete : forall R (G : rng R) kd ws tgt s ps r outs r',
  Forall (fun d => valid s d = true) ps ->
  pw_space R G kd ws tgt s [] false (map Some ps) r = Ok (outs, r') -> opt_list outs <> None.
Proof. exact pointwise_complete. Qed.
Print Assumptions C14_recombinator_pointwise_complete.

(* KPoint and Segmented (any cutting points) *)
Theorem C14_recombinator_closed_segmentwise : forall R (G : rng R) q s x y, wf s = true -> valid s x = true -> valid s y = true ->
  let good := fun c => valid s c = true /\ exists b, bind q s (normalize c) = Some b /\ aligned q s b in
  (forall k r, Forall good (fst (kpoint R G k s x y r))) /\ (forall cuts, Forall good (segment cuts s x y)).
Proof.
  intros R G q s x y Hwf Hx Hy good.
  assert (K : forall l, Forall (fun c => valid s c = true) l -> Forall good l).
  { intros l H. eapply Forall_impl; [|exact H]. intros c Hc. split; auto.
    destruct (bind_complete q s c Hwf Hc) as (b & Hb & _ & Ha). eauto. }
  split; intros; apply K; [apply kpoint_valid|apply segment_valid]; auto.
Qed.
Print Assumptions C14_recombinator_closed_segmentwise.

(* PartiallyMapped, Order, Cycle.  The model validates each proposal as from_dict does (a proposal that is
   not a permutation of the parent's values raises); that the three crossovers only ever propose
   permutations -- so that they never raise -- is not proved (decided by the correspondence): partial. *)
Theorem C14_recombinator_closed_permutation_partial : forall R (G : rng R) pk w q s x y r cs r',
  wf s = true -> valid s x = true -> valid s y = true ->
  permutation R G pk w s x y r = Ok (Some cs, r') ->
  Forall (fun c => valid s c = true /\ exists b, bind q s (normalize c) = Some b /\ aligned q s b) cs.
Proof.
  intros R G pk w q s x y r cs r' Hwf Hx Hy H. eapply permutation_valid in H; eauto.
  eapply Forall_impl; [|exact H]. intros c Hc. split; auto.
  destruct (bind_complete q s c Hwf Hc) as (b & Hb & _ & Ha). eauto.
Qed.
Print Assumptions C14_recombinator_closed_permutation_partial.

(* small scope, exhaustively: for every pair of parent permutations of 2, 3 and 4 values, every pair of cutting points
   (PMX, Order) and every sequence of coin flips (Cycle), both proposals are permutations of the parents' values *)
Theorem C14_permutation_crossovers_small_scope :
  forallb (check_cut pmx_child) [2; 3; 4] && forallb (check_cut ox_child) [2; 3; 4] && forallb check_cycle [2; 3; 4] = true.
Proof. rewrite pmx_small, ox_small, cycle_small. reflexivity. Qed.
Print Assumptions C14_permutation_crossovers_small_scope.

(* ---- every primitive, hence every expression over the shipped operators -------------------------------------- *)
Theorem C14_primitives_closed : forall R (G : rng R), rng_ok G -> forall s, wf s = true ->
  forall p, closed s (run_prim R G s p).
Proof. exact prim_closed. Qed.
Print Assumptions C14_primitives_closed.

Theorem C14_expression_closed : forall R (G : rng R), rng_ok G -> forall s, wf s = true ->
  forall x, closedg s (eval R G s x).
Proof. exact expr_closed. Qed.
Print Assumptions C14_expression_closed.

(* in exact arithmetic the mean of in-range values is in range: the clipping of Average only absorbs rounding *)
Theorem C14_average_in_range_exact : forall (l : list Z) lo hi, l <> [] -> Forall (fun f => lo <= f <= hi)%Z l ->
  (lo <= sumZ l / Z.of_nat (length l) <= hi)%Z.
Proof. exact mean_in_range. Qed.
Print Assumptions C14_average_in_range_exact.

(* the hypotheses are satisfiable and the model runs on them *)
Theorem C14_example : wf s0 = true /\ pop_ok s0 pop0 /\
  exists out st, eval unit first_rng s0 x0 pop0 ((tt, 2), []) = Ok (out, st) /\ length out = 6 /\ pop_ok s0 out.
Proof.
  split. exact ex_wf. split. exact ex_pop_ok.
  destruct ex_eval as (out & st & He & Hl). exists out, st. split; auto. split; auto.
  eapply (expr_closed unit first_rng first_rng_ok s0 ex_wf x0 pop0 ((tt, 2), [])); eauto. exact ex_pop_ok. constructor.
Qed.
Print Assumptions C14_example.

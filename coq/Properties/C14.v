(* Property C14 — evolution operators are closed over valid DNA and never corrupt their inputs.
   Statements only; proofs in Proofs/Evo*.v. *)
From PG Require Import Common.Tactics Model.Geno Model.Evo Model.EvoOps.

Theorem C14_num_out_none : forall len, num_out NNone len = len.
Proof. reflexivity. Qed.
Print Assumptions C14_num_out_none.

(* Property C20 — HTML views are well-formed and never let data break out of its text position.
   Only statements and [exact]; proofs live in Proofs/Html*.v. *)
From PG Require Import Common.Tactics Model.Html Proofs.HtmlProofs.
From Coq Require Import NArith.
Local Open Scope N_scope.

(* html.escape never emits lt, gt, double quote or apostrophe, and every ampersand it emits starts one of the five entities. *)
Theorem C20_escape_safe : forall s, no_meta (escape s).
Proof. exact escape_safe. Qed.
Print Assumptions C20_escape_safe.

(* ... read position by position: whatever precedes an ampersand of the escaped string, an entity name follows it. *)
Theorem C20_escape_ampersands : forall s pre post, escape s = pre ++ c_amp :: post ->
  exists ch n, entity_at post = Some (ch, n).
Proof. intros s pre post H. exact (amps_ok_spec (escape s) pre post (escape_amps_ok s) H). Qed.
Print Assumptions C20_escape_ampersands.

(* Nothing is lost: the strict decoder inverts escape, hence escape is injective. *)
Theorem C20_escape_invertible : forall s, unescape (escape s) = s.
Proof. exact unescape_escape. Qed.
Print Assumptions C20_escape_invertible.

(* Every tree built from elements with proper names and text nodes (any strings, any depth) renders to a
   string that the strict parser accepts and reads back as that very tree (texts merged): every element is
   closed, properly nested, and no text or attribute value turns into markup. *)
Theorem C20_render_parse : forall t, names_ok t -> parse_html (render t) = Some (normalize [t]).
Proof. exact render_parse. Qed.
Print Assumptions C20_render_parse.

Theorem C20_render_parse_list : forall ts, Forall names_ok ts -> parse_html (render_list ts) = Some (normalize ts).
Proof. exact render_parse_list. Qed.
Print Assumptions C20_render_parse_list.

(* The defect this property was written for, on the model: a key written verbatim is markup, the same key written as text is text. *)
Theorem C20_raw_key_refuted :
  parse_html (render (El s_span [] [] [Raw s_k_i])) = None /\
  parse_html (render (El s_span [] [] [Raw s_k_i_closed])) = Some [El s_span [] [] [Txt s_k; El s_i [] [] []]] /\
  parse_html (render (El s_span [] [] [Txt s_k_i_closed])) = Some [El s_span [] [] [Txt s_k_i_closed]].
Proof. exact (conj raw_key_malformed (conj raw_key_injects escaped_key_is_text)). Qed.
Print Assumptions C20_raw_key_refuted.

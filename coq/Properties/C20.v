(* Property C20 — HTML views are well-formed and never let data break out of its text position.
   Only statements and [exact]; proofs live in Proofs/Html*.v. *)
From PG Require Import Common.Tactics Gen.HtmlStyles Model.Html Model.HtmlDoc Proofs.HtmlProofs Proofs.HtmlTreeView Proofs.HtmlDocProofs Model.HtmlCtl Proofs.HtmlCtlProofs.
From Coq Require Import NArith.
Local Open Scope N_scope.

(* html.escape never emits lt, gt, double quote or apostrophe, and every ampersand it emits starts one of the five entities. *)
Theorem C20_escape_safe : forall s, no_meta (escape s).
Proof. exact escape_safe. Qed.
Print Assumptions C20_escape_safe.

(* ... read position by position: whatever precedes an ampersand of the escaped string, an entity name follows it. *)
Theorem C20_escape_ampersands : forall s pre post, escape s = pre ++ c_amp :: post ->
  exists ch n, entity_at post = Some (ch, n).
Proof. intros s pre post H. exact (amps_ok_spec (escape s) pre post (escape_amps_ok s) H). Qed.
Print Assumptions C20_escape_ampersands.

(* Nothing is lost: the strict decoder inverts escape, hence escape is injective. *)
Theorem C20_escape_invertible : forall s, unescape (escape s) = s.
Proof. exact unescape_escape. Qed.
Print Assumptions C20_escape_invertible.

(* Every tree built from elements with proper names and text nodes (any strings, any depth) renders to a
   string that the strict parser accepts and reads back as that very tree (texts merged): every element is
   closed, properly nested, and no text or attribute value turns into markup. *)
Theorem C20_render_parse : forall t, names_ok t -> parse_html (render t) = Some (normalize [t]).
Proof. exact render_parse. Qed.
Print Assumptions C20_render_parse.

Theorem C20_render_parse_list : forall ts, Forall names_ok ts -> parse_html (render_list ts) = Some (normalize ts).
Proof. exact render_parse_list. Qed.
Print Assumptions C20_render_parse_list.

(* The executable form the harness evaluates on arbitrary trees built with nested Html.element calls. *)
Theorem C20_reads_back : forall t, names_ok t -> reads_back t = true.
Proof. exact reads_back_true. Qed.
Print Assumptions C20_reads_back.

(* The defect this property was written for, on the model: a key written verbatim is markup, the same key written as text is text. *)
Theorem C20_raw_key_refuted :
  parse_html (render (El s_span [] [] [Raw s_k_i])) = None /\
  parse_html (render (El s_span [] [] [Raw s_k_i_closed])) = Some [El s_span [] [] [Txt s_k; El s_i [] [] []]] /\
  parse_html (render (El s_span [] [] [Txt s_k_i_closed])) = Some [El s_span [] [] [Txt s_k_i_closed]].
Proof. exact (conj raw_key_malformed (conj raw_key_injects escaped_key_is_text)). Qed.
Print Assumptions C20_raw_key_refuted.

(* The tree view: for every value (whatever strings its keys, leaves, type names, reprs and tooltips are) and every option
   record, the rendered string parses, strictly, back to the tree that was built ... *)
Theorem C20_tree_view_well_formed : forall o v, parse_html (render (tree_view o v)) = Some (normalize [tree_view o v]).
Proof. intros o v. exact (render_parse _ (tree_view_names_ok o v)). Qed.
Print Assumptions C20_tree_view_well_formed.

(* ... and the parsed document contains only elements, options and attributes of the view's own fixed vocabulary:
   no value can introduce an element, an attribute or a script. *)
Theorem C20_no_injection : forall o v,
  exists d, parse_html (render (tree_view o v)) = Some d /\
            forall n, In n d ->
              incl (tags_of n) vocabulary_tags /\ incl (optnames_of n) vocabulary_opts /\ incl (attrnames_of n) vocabulary_attrs.
Proof. exact tree_view_no_injection. Qed.
Print Assumptions C20_no_injection.

(* Every leaf below an included key is present as a text node (its repr, or the string itself when it is long). *)
Theorem C20_all_leaves_present : forall o v p lk tn cn raw rep fmt,
  sub_at v p (PLeaf lk tn cn raw rep fmt) -> path_included o p = true ->
  In (leaf_text o lk raw rep) (texts_of (tree_view o v)).
Proof. exact all_leaves_present. Qed.
Print Assumptions C20_all_leaves_present.

(* Every included key that the options ask to show is present as a text node. *)
Theorem C20_all_keys_present : forall o v p sq tn cn fmt items k c t,
  sub_at v p (PNode sq tn cn fmt items) -> assoc_key k items = Some c ->
  path_included o (p ++ [k]) = true -> key_shown_text o sq (o_root_path o ++ p) k c = Some t ->
  In t (texts_of (tree_view o v)).
Proof. exact all_keys_present. Qed.
Print Assumptions C20_all_keys_present.

(* ... and in the document a parser sees: the text nodes of the parsed output are exactly the non-empty text nodes the view
   built (the view never puts two text nodes next to each other), so every included leaf and every shown key is a text node
   of the parsed output. *)
Theorem C20_parsed_texts : forall o v,
  exists d, parse_html (render (tree_view o v)) = Some d /\
            flat_map texts_of d = filter nonempty (texts_of (tree_view o v)).
Proof. exact tree_view_parsed_texts. Qed.
Print Assumptions C20_parsed_texts.

Theorem C20_all_leaves_present_parsed : forall o v p lk tn cn raw rep fmt,
  sub_at v p (PLeaf lk tn cn raw rep fmt) -> path_included o p = true -> leaf_text o lk raw rep <> [] ->
  exists d, parse_html (render (tree_view o v)) = Some d /\ In (leaf_text o lk raw rep) (flat_map texts_of d).
Proof. exact all_leaves_present_parsed. Qed.
Print Assumptions C20_all_leaves_present_parsed.

Theorem C20_all_keys_present_parsed : forall o v p sq tn cn fmt items k c t,
  sub_at v p (PNode sq tn cn fmt items) -> assoc_key k items = Some c ->
  path_included o (p ++ [k]) = true -> key_shown_text o sq (o_root_path o ++ p) k c = Some t -> t <> [] ->
  exists d, parse_html (render (tree_view o v)) = Some d /\ In t (flat_map texts_of d).
Proof. exact all_keys_present_parsed. Qed.
Print Assumptions C20_all_keys_present_parsed.

(* Unless summaries are switched off (enable_summary=False / enable_summary_for_str=False), every included key is shown. *)
Theorem C20_default_summaries_show_every_key : forall o sq path k c,
  o_enable_summary o = None -> o_summary_for_str o = true -> exists t, key_shown_text o sq path k c = Some t.
Proof. exact default_keys_shown. Qed.
Print Assumptions C20_default_summaries_show_every_key.

(* The whole document pg.to_html_str returns by default: <html><head><style>shared CSS</style></head><body>content</body></html>.
   The CSS constants are regenerated from tree_view.py on every run; none contains lt (so only its own closing tag ends the block). *)
Theorem C20_generated_css_has_no_lt : forallb no_lt all_css = true.
Proof. exact generated_css_has_no_lt. Qed.
Print Assumptions C20_generated_css_has_no_lt.

Theorem C20_document_well_formed : forall o v, parse_html (render (document o v)) = Some (normalize [document o v]).
Proof. exact document_well_formed. Qed.
Print Assumptions C20_document_well_formed.

Theorem C20_document_no_injection : forall o v,
  exists d, parse_html (render (document o v)) = Some d /\
            forall n, In n d -> incl (tags_of n) (document_tags ++ vocabulary_tags)
                             /\ incl (optnames_of n) vocabulary_opts /\ incl (attrnames_of n) vocabulary_attrs.
Proof. exact document_no_injection. Qed.
Print Assumptions C20_document_no_injection.

(* No part of the value is in the head: the document's texts are the content's texts and the wrapper's newlines. *)
Theorem C20_document_texts : forall o v,
  texts_of (document o v) = [[c_nl]; [c_nl]; [c_nl]; [c_nl]; [c_nl]] ++ texts_of (tree_view o v) ++ [[c_nl]; [c_nl]].
Proof. exact document_texts. Qed.
Print Assumptions C20_document_texts.

(* The head (the shared style block) does not depend on the data: two values of the same shape -- same keys and kinds of leaves,
   strings of the same length, every other string arbitrary -- get exactly the same head, and the document is that head
   followed by the body. *)
Theorem C20_head_data_independent : forall o a b, same_shape a b -> head_of o a = head_of o b.
Proof. exact head_data_independent. Qed.
Print Assumptions C20_head_data_independent.

(* The JavaScript side of the update paths (Html.escape(s, javascript_str=True)): the double-quoted literal written for any string,
   followed by anything, is read by a JavaScript string lexer as exactly that string -- it ends at its own closing quote (safe) and
   decodes to the string (invertible); its body has no raw line terminator. *)
Theorem C20_escape_js_literal : forall s rest, lex_js_string (js_literal s ++ rest) = Some (s, rest).
Proof. exact js_literal_lex. Qed.
Print Assumptions C20_escape_js_literal.

Theorem C20_escape_js_no_newline : forall s, forallb (fun c => negb ((c =? c_cr) || (c =? c_lf))) (escape_js s) = true.
Proof. exact escape_js_no_newline. Qed.
Print Assumptions C20_escape_js_no_newline.

(* The update scripts: a prefix that depends on the element id only, the literal, a semicolon; textContent receives the text
   unchanged, innerHTML receives markup that parses back to the tree that was built. *)
Theorem C20_update_text_script : forall id s,
  update_text_script id s = (js_prefix id ++ s_js_text) ++ js_literal s ++ [c_semi] /\
  lex_js_string (js_literal s ++ [c_semi]) = Some (s, [c_semi]).
Proof. exact update_text_script_lex. Qed.
Print Assumptions C20_update_text_script.

Theorem C20_update_inner_html_script : forall id ts, Forall names_ok ts ->
  update_inner_html_script id ts = (js_prefix id ++ s_js_inner) ++ js_literal (render_list ts) ++ [c_semi] /\
  exists markup, lex_js_string (js_literal (render_list ts) ++ [c_semi]) = Some (markup, [c_semi]) /\
                 parse_html markup = Some (normalize ts).
Proof. exact update_inner_html_script_lex. Qed.
Print Assumptions C20_update_inner_html_script.

(* The controls (Label, Badge, Tooltip, LabelGroup, ProgressBar, TabControl with labels or values as tab contents): well formed,
   and only the controls' and the tree view's vocabulary, whatever the texts, tooltips, names and shown values are.
   [markup_ok c]: the texts given as Html objects (markup of the application, not data) are well-named trees over the vocabulary;
   it holds trivially for controls whose texts are all plain strings. *)
Theorem C20_controls_well_formed : forall c, markup_ok c -> parse_html (render (ctl_node c)) = Some (normalize [ctl_node c]).
Proof. exact ctl_well_formed. Qed.
Print Assumptions C20_controls_well_formed.

Theorem C20_controls_no_injection : forall c, markup_ok c ->
  exists d, parse_html (render (ctl_node c)) = Some d /\
            forall n, In n d -> incl (tags_of n) (vocabulary_tags ++ control_tags) /\ incl (optnames_of n) vocabulary_opts
                             /\ incl (attrnames_of n) (vocabulary_attrs ++ control_attrs).
Proof. exact ctl_no_injection. Qed.
Print Assumptions C20_controls_no_injection.

(* Escape is blind and applied exactly once.  It leaves a string alone only when none of the five characters occurs (so text that
   already looks like a character reference gets its ampersand escaped again); escaping twice never equals escaping once unless
   nothing had to be escaped; it works character by character, whatever surrounds a character. *)
Theorem C20_escape_fixpoint_iff : forall s, escape s = s <-> forallb (fun c => negb (is_special c)) s = true.
Proof. exact escape_fixpoint_iff. Qed.
Print Assumptions C20_escape_fixpoint_iff.

Theorem C20_escape_twice : forall s, escape (escape s) = escape s -> escape s = s.
Proof. exact escape_twice. Qed.
Print Assumptions C20_escape_twice.

Theorem C20_escape_compositional : forall a b, escape (a ++ b) = escape a ++ escape b.
Proof. exact escape_app. Qed.
Print Assumptions C20_escape_compositional.

(* On every data path of the tree view escape is applied exactly once: after the parser has undone one escape, every text node and
   every attribute value of the output is the data the view placed there. *)
Theorem C20_escape_exactly_once : forall o v,
  exists d, parse_html (render (tree_view o v)) = Some d /\
            flat_map texts_of d = filter nonempty (texts_of (tree_view o v)) /\
            flat_map attr_pairs_of d = attr_pairs_of (tree_view o v).
Proof. exact tree_view_escape_exactly_once. Qed.
Print Assumptions C20_escape_exactly_once.

(* Documents that keep growing (Content.write, +): several renderings written one after the other into the same Html object.
   The single-value document is the one-element case; the grown document is well formed, its body is the concatenation of the
   renderings in writing order, and its texts are exactly those of the renderings (nothing is lost, nothing reaches the head). *)
Theorem C20_document_is_multi : forall o v, document o v = multi_document [(o, v)].
Proof. exact document_is_multi. Qed.
Print Assumptions C20_document_is_multi.

Theorem C20_multi_document_well_formed : forall l, parse_html (render (multi_document l)) = Some (normalize [multi_document l]).
Proof. exact multi_document_well_formed. Qed.
Print Assumptions C20_multi_document_well_formed.

Theorem C20_multi_document_body : forall l,
  exists pre post, render (multi_document l) = pre ++ render_list (map (fun ov => tree_view (fst ov) (snd ov)) l) ++ post.
Proof. exact multi_document_body. Qed.
Print Assumptions C20_multi_document_body.

Theorem C20_multi_document_texts : forall l,
  texts_of (multi_document l)
  = [[c_nl]; [c_nl]; [c_nl]; [c_nl]; [c_nl]] ++ flat_map (fun ov => texts_of (tree_view (fst ov) (snd ov))) l ++ [[c_nl]; [c_nl]].
Proof. exact multi_document_texts. Qed.
Print Assumptions C20_multi_document_texts.

(* Property C20 — HTML views are well-formed and never let data break out of its text position.
   Only statements and [exact]; proofs live in Proofs/Html*.v. *)
From PG Require Import Common.Tactics Model.Html Proofs.HtmlProofs.
From Coq Require Import NArith.
Local Open Scope N_scope.

Theorem C20_render_text_is_escape : forall s, render (Txt s) = escape s.
Proof. exact render_txt. Qed.
Print Assumptions C20_render_text_is_escape.

(* Property C10 — path addressing is exact.  Only statements and [exact]; proofs live in Proofs/KeyPath*.v, Proofs/Hier*.v. *)
From PG Require Import Common.Tactics Model.KeyPath Model.Hier.

Theorem C10_sub_root : forall p, path_sub p [] = inr p.
Proof. intros; destruct p; reflexivity. Qed.
Print Assumptions C10_sub_root.

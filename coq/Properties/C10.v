(* Property C10 — path addressing is exact.  Only statements and [exact]; proofs live in Proofs/KeyPath*.v, Proofs/Hier*.v. *)
From PG Require Import Common.Tactics Model.KeyPath Model.Hier Model.KeyPathMachine Gen.KeyPathSrc Proofs.KeyPathMachineLink Model.KeyPathSetMachine Gen.KeyPathSetSrc Proofs.KeyPathSetMachineLink
  Proofs.KeyPathParse Proofs.KeyPathArith Proofs.KeyPathOrder
  Proofs.KeyPathSetBase Proofs.KeyPathSetIter Proofs.KeyPathSetThm Proofs.KeyPathSetEq Proofs.KeyPathSetInter Proofs.HierTraverse Proofs.HierQuery Proofs.HierFlatten Proofs.HierStop Proofs.HierMerge Proofs.HierCanon Proofs.KeyPathExamples.

(* 1. A key path of admissible keys (integers; non-empty strings with balanced brackets) prints to a string
      that parses back to the same keys.  Any number of keys, any lengths. *)
Theorem C10_parse_format : forall ks, Forall key_ok ks -> parse (format ks) = POk ks.
Proof. exact parse_format. Qed.
Print Assumptions C10_parse_format.

(* 2. Hence printing is injective on admissible key lists: two different paths never print alike. *)
Theorem C10_format_injective : forall ks ks', Forall key_ok ks -> Forall key_ok ks' -> format ks = format ks' -> ks = ks'.
Proof. exact format_injective. Qed.
Print Assumptions C10_format_injective.

(*    Second tie.  Gen/KeyPathSrc.v is regenerated on every run from the source text of KeyPath.parse, _append_key,
      path_str and _has_special_chars, statement by statement, as programs of the small imperative language of
      Model/KeyPathMachine.v (translator fails closed on any unrecognised statement).  Interpreting those programs
      gives exactly parse / format of the model, so the round trip holds for the code as translated. *)
Theorem C10_src_parse : forall s, run_parse src_parse s = parse s.
Proof. exact src_run_parse. Qed.
Print Assumptions C10_src_parse.

Theorem C10_src_format : forall preserve ks, g_fmt_go src_fmt preserve true ks = fmt_go preserve true ks.
Proof. exact src_format. Qed.
Print Assumptions C10_src_format.

Theorem C10_parse_format_src : forall ks, Forall key_ok ks -> run_parse src_parse (g_fmt_go src_fmt true true ks) = POk ks.
Proof. exact src_parse_format. Qed.
Print Assumptions C10_parse_format_src.

(* 3. Path arithmetic agrees with the key sequences. *)
Theorem C10_arith : forall p q r k,
  path_sub (path_add p q) p = inr q /\
  path_sub p p = inr [] /\
  is_relative_to (path_add p q) p = true /\
  path_parent (p ++ [k]) = Some p /\ path_key (p ++ [k]) = Some k /\
  path_parent [] = None /\
  (path_sub p q = inr r <-> p = q ++ r) /\
  (is_relative_to p q = true <-> exists r', p = q ++ r') /\
  ((exists r', path_sub p q = inr r') <-> is_relative_to p q = true) /\
  (path_sub p q = inl AValueAncestor <-> exists k' r', q = p ++ k' :: r').
Proof.
  intros. repeat split; auto using sub_add, sub_self, relative_add, parent_snoc, key_snoc;
    try apply sub_spec; try apply relative_spec; try apply sub_defined_iff; try apply sub_ancestor.
Qed.
Print Assumptions C10_arith.

(* 4. Ordering: a strict total order on key lists ... *)
Theorem C10_order_strict_total : forall p q r,
  path_lt p p = false /\
  (path_lt p q = true -> path_lt q r = true -> path_lt p r = true) /\
  (p <> q -> path_lt p q = true \/ path_lt q p = true) /\
  (path_lt p q = true -> path_lt q p = false) /\
  path_gt p q = path_lt q p /\ path_ge p q = path_le q p /\
  path_le p q = negb (path_lt q p) /\ path_le p q = (path_lt p q || path_eqb p q).
Proof.
  intros. pose proof (ops_consistent p q) as (A & B & C & D).
  repeat split; auto using lt_irrefl, lt_total, lt_asym. apply lt_trans.
Qed.
Print Assumptions C10_order_strict_total.

(*    ... that agrees with the key sequences: a proper prefix first, else the first differing key decides,
      ints numerically, strings by code point, an int before a string. *)
Theorem C10_order_consistent : forall p a b x y,
  path_lt p (p ++ a :: x) = true /\
  (a <> b -> path_lt (p ++ a :: x) (p ++ b :: y) = match key_cmp a b with Lt => true | _ => false end) /\
  (forall i j, key_cmp (KInt i) (KInt j) = Z.compare i j) /\
  (forall s t, key_cmp (KStr s) (KStr t) = str_cmp s t) /\
  (forall i s, key_cmp (KInt i) (KStr s) = Lt).
Proof. intros. repeat split. apply lt_prefix. apply lt_first_diff. Qed.
Print Assumptions C10_order_consistent.

(* 5. KeyPathSet (the trie, a dict of dicts exactly as in the code) refines a mathematical set of key lists.
      twf = reachable shape (unique keys; '$' -> True; every branch non-empty); mem = denotation;
      set_laws (Proofs/KeyPathSetThm.v) = add / remove / in / union / intersection / difference / rebase compute
      the set operations, return the documented booleans, never raise, and keep the shape.
      With the open '$' finding repaired (no_quirks) this holds for all paths. *)
Theorem C10_set_ops : forall q t s p, no_quirks q -> twf q t -> twf q s -> set_laws q (fun _ => True) t s p.
Proof. exact set_laws_no_quirks. Qed.
Print Assumptions C10_set_ops.

(*    As the code is (quirk flag on or off): the same for every path without a '$' key. *)
Theorem C10_set_ops_partial : forall q t s p, twf q t -> twf q s -> cleanp q p -> set_laws q (cleanp q) t s p.
Proof. exact set_laws_clean. Qed.
Print Assumptions C10_set_ops_partial.

Theorem C10_set_clean_iff : forall q k, clean q k <-> (q_dollar q = true -> k <> KStr [c_dollar]).
Proof. exact clean_iff. Qed.
Print Assumptions C10_set_clean_iff.

(*    Iteration lists exactly the members, each once; bool() is non-emptiness. *)
Theorem C10_set_iteration : forall q t, twf q t ->
  NoDup (paths t) /\ (forall p, In p (paths t) <-> cleanp q p /\ mem q p t = true) /\ (is_nil t = false <-> exists p, cleanp q p /\ mem q p t = true).
Proof. intros q t H. split; [eapply paths_nodup; eauto |]. split; [intros; apply paths_spec; assumption | apply bool_spec; assumption]. Qed.
Print Assumptions C10_set_iteration.

(*    Any sequence of API calls (the register machine of the correspondence) on marker-free paths, started from
      empty sets, never raises and keeps every set in the reachable shape. *)
Theorem C10_set_machine_safe : forall q os, Forall (sop_clean q) os ->
  Forall (twf q) (fst (steps q [[]; []; []] os)) /\ ~ In OCrash (snd (steps q [[]; []; []] os)).
Proof. intros q os H. apply steps_safe; [repeat constructor; apply twf_empty | assumption]. Qed.
Print Assumptions C10_set_machine_safe.

(*    The open finding, as a theorem about the model of the code as it is: adding the path ['$'] to the empty set
      makes the root path a member and lists only the root path. *)
Theorem C10_set_dollar_refuted :
  exists t, add_go {| q_dollar := true |} false [KStr [c_dollar]] (TDict []) = Some (TDict t, true) /\ paths t = [[]] /\ contains_go {| q_dollar := true |} [] (TDict t) = Some true.
Proof. exact dollar_witness. Qed.
Print Assumptions C10_set_dollar_refuted.

(*    Second tie for the set algebra.  Gen/KeyPathSetSrc.v is regenerated on every run from the source of the nested
      helpers _remove_same (difference_update), _remove_diff (intersection_update) and _merge (update): the per-entry
      decision of each loop as data (the translator also checks the loop frames, the deferred deletion, the deep copy in
      _merge, copy + in-place update in difference / intersection / union, and that copy() is a deep copy).  Interpreting
      that data gives exactly the model's diff_node / inter_node / merge_node, to which C10_set_ops applies. *)
Theorem C10_src_set_kernels :
  (forall t s, fkernel (ks_same src_kps) t s = diff_node t s) /\
  (forall t s, fkernel (ks_diff src_kps) t s = inter_node t s) /\
  (forall t s, mkernel (ks_merge src_kps) t s = merge_node t s) /\
  ks_marker src_kps = [c_dollar].
Proof. exact src_kps_kernels. Qed.
Print Assumptions C10_src_set_kernels.

(*    s1 == s2 (dict equality of the tries) holds exactly when the two sets have the same members. *)
Theorem C10_set_eq : forall q t s, twf q t -> twf q s ->
  (teq (TDict t) (TDict s) = true <-> forall p, cleanp q p -> mem q p t = mem q p s).
Proof. exact eq_spec. Qed.
Print Assumptions C10_set_eq.

(*    has_prefix(p): true exactly when p is the root path (also on the empty set, as the code is) or some member extends p;
      subtree(p), p not the root: None when no member extends p, else the set of the remainders. *)
Theorem C10_set_has_prefix : forall q p t, twf q t -> cleanp q p ->
  exists b, has_prefix q p t = Some b /\ (b = true <-> p = [] \/ exists s, cleanp q s /\ mem q (p ++ s) t = true).
Proof. exact has_prefix_spec. Qed.
Print Assumptions C10_set_has_prefix.

Theorem C10_set_subtree : forall q p t, twf q t -> cleanp q p -> p <> [] ->
  (walk q p (TDict t) = Some None /\ forall s, mem q (p ++ s) t = false) \/
  (exists ck, walk q p (TDict t) = Some (Some (TDict ck)) /\ twf q ck /\
     forall s, In s (paths ck) <-> cleanp q s /\ mem q (p ++ s) t = true).
Proof. exact subtree_spec. Qed.
Print Assumptions C10_set_subtree.

(*    add(path, include_intermediate=True) on a prefix-closed set (in particular one built from nothing with this flag,
      as tree_view does) adds the path and every prefix of it, returns whether the path was new, and the result is
      again prefix-closed. *)
Theorem C10_set_add_intermediate : forall q p t, twf q t -> cleanp q p -> prefix_closed q t ->
  exists t', add_go q true p (TDict t) = Some (TDict t', negb (mem q p t)) /\ twf q t' /\ prefix_closed q t' /\
    forall p', cleanp q p' -> mem q p' t' = is_prefix p' p || mem q p' t.
Proof.
  intros q p t Hw Hc Hpc. destruct (add_intermediate_spec q p t Hw Hc Hpc) as (t' & A & B & _ & D).
  exists t'. split; [exact A |]. split; [exact B |]. split; [eapply closed_from_law; eauto | exact D].
Qed.
Print Assumptions C10_set_add_intermediate.

(*    ... and on any reachable set: besides the path itself, exactly those proper prefixes get marked whose next node
      along the path did not exist before. *)
Theorem C10_set_add_intermediate_general : forall q p t, twf q t -> cleanp q p ->
  exists t', add_go q true p (TDict t) = Some (TDict t', negb (mem q p t)) /\ twf q t' /\
    forall p', cleanp q p' ->
      mem q p' t' = true <->
      mem q p' t = true \/ p' = p \/ exists k r, p = p' ++ k :: r /\ walk q (p' ++ [k]) (TDict t) = Some None.
Proof.
  intros q p t Hw Hc. destruct (add_intermediate_general q p t Hw Hc) as (t' & A & B & _ & D).
  exists t'. split; [exact A |]. split; [exact B |]. intros p' Hp'. unfold mem. rewrite (D p' Hp').
  rewrite !orb_true_iff, path_eqb_eq, (ii_marks_spec q p t p' Hw Hc Hp'). tauto.
Qed.
Print Assumptions C10_set_add_intermediate_general.

(* 6. Traversal.  [nodes v root] is the pre-order list of (path, node); at_path v s x says x is the node of v at the
      canonical path s (dict keys, list positions from 0); wfv = dict keys are distinct (as Python builds dicts).
      utils.traverse with visitors that always continue, and pg.traverse with visitors that always ENTER, log in
      pre-order exactly the nodes: every node once, no path twice, and the reported path looked up from the root
      (KeyPath.query) returns that node. *)
Theorem C10_traverse_once : forall v root, wfv v ->
  let r := trav (fun _ _ => true) (fun _ _ => true) v root in
  snd r = true /\ pres (fst r) = nodes v root /\
  NoDup (map fst (nodes v root)) /\
  (forall p x, In (p, x) (nodes v root) <-> exists s, p = root ++ s /\ at_path v s x) /\
  (forall s x, at_path v s x -> lookup v s = inr x).
Proof.
  intros v root Hw. destruct (trav_visits_all v root) as [A B].
  cbv zeta. split; [exact A |]. split; [exact B |]. split; [apply nodes_nodup; assumption |].
  split; [intros; apply nodes_iff | intros; apply at_lookup; assumption].
Qed.
Print Assumptions C10_traverse_once.

Theorem C10_pg_traverse_once : forall pre post v, (forall p x, pre p x = AEnter) -> (forall p x, post p x <> AStop) ->
  snd (strav pre post v []) = true /\ pres (fst (strav pre post v [])) = nodes v [].
Proof. intros pre post v H1 H2. apply (strav_visits_all pre post H1 H2 v []). Qed.
Print Assumptions C10_pg_traverse_once.

(*    pg.query with enter_selected=True returns exactly the selected nodes (sound and complete), each under its path. *)
Theorem C10_query_sound_complete : forall sel v p x,
  In (p, x) (squery sel true v) <-> (exists s, p = s /\ at_path v s x) /\ sel p x = true.
Proof.
  intros sel v p x. rewrite squery_enter_selected, filter_In. cbn [fst snd].
  rewrite (nodes_iff v [] p x). cbn [app]. tauto.
Qed.
Print Assumptions C10_query_sound_complete.

(*    utils.traverse with arbitrary visitors: the log is the full pre/post-order log cut after the first visitor call
      that returns False, and the result is True exactly when no call returned False. *)
Theorem C10_traverse_early_stop : forall pre post v path,
  fst (trav pre post v path) = cut_at pre post (fst (trav TT TT v path)) /\
  snd (trav pre post v path) = forallb (ok_ev pre post) (fst (trav TT TT v path)).
Proof. exact traverse_early_stop. Qed.
Print Assumptions C10_traverse_early_stop.

(*    pg.traverse with arbitrary STOP / ENTER / CONTINUE visitors: it returns False exactly when some visitor call
      answered STOP, and every visit it makes is a node of the value under its canonical path. *)
Theorem C10_pg_traverse_actions : forall pre post v,
  snd (strav pre post v []) = negb (existsb (stop_ev pre post) (fst (strav pre post v []))) /\
  (forall p x, In (p, x) (pres (fst (strav pre post v []))) -> at_path v p x).
Proof. exact pg_traverse_actions. Qed.
Print Assumptions C10_pg_traverse_actions.

(*    pg.query with enter_selected=False returns exactly the selected nodes that have no selected proper ancestor
      (at_cut sel [] v p x: x is the node at p and no node strictly above it, the root included, is selected). *)
Theorem C10_query_not_entering : forall sel v p x,
  In (p, x) (squery sel false v) <-> at_cut sel [] v p x /\ sel p x = true.
Proof. exact squery_not_entering_spec. Qed.
Print Assumptions C10_query_not_entering.

(* 7. utils.flatten(v, flatten_complex_keys=False) and utils.canonicalize are inverse on every nested value whose dict
      keys are distinct and admissible and that contains no dict canonicalize documents as a list
      (flat_ok; listable = non-empty, all keys ints, keys exactly 0..n-1).  Any depth, any width, lists and dicts mixed,
      int and string keys mixed, empty containers as leaves. *)
Theorem C10_flatten_canonicalize : forall v, flat_ok v -> canon true (flatten false v) = inr v.
Proof. exact canon_flatten. Qed.
Print Assumptions C10_flatten_canonicalize.

(*    The excluded dicts are exactly the ones the final pass of canonicalize converts; all their keys are ints. *)
Theorem C10_listable_spec : forall kvs,
  (listable kvs = false -> try_listify false kvs = PDict kvs) /\
  (listable kvs = true -> Forall (fun kv => exists z, fst kv = KInt z) kvs).
Proof. intros. split; [apply try_listify_keep | apply listable_needs_int_keys]. Qed.
Print Assumptions C10_listable_spec.

(*    With the default flatten_complex_keys=True the same holds when no string key contains '.', '[' or ']'. *)
Theorem C10_flatten_canonicalize_default : forall v, flat_ok v -> simple_keys v -> canon true (flatten true v) = inr v.
Proof. exact canon_flatten_default. Qed.
Print Assumptions C10_flatten_canonicalize_default.

(* 8. merge_tree with merge_fn=None on dicts: under every key the result holds the source's value, the destination's,
      or their merge; a non-dict source replaces the destination; merging a value into itself changes nothing; and the
      conflict-checking merge canonicalize uses agrees with it whenever it succeeds. *)
Theorem C10_merge_tree : forall d s r, NoDup (map fst s) -> merge_plain (PDict d) (PDict s) = inr r ->
  exists rk, r = PDict rk /\
    forall k, dget k rk =
      match dget k s with
      | None => dget k d
      | Some sv => match dget k d with
                   | None => Some sv
                   | Some dv => match merge_plain dv sv with inr x => Some x | inl _ => None end
                   end
      end.
Proof. exact merge_plain_lookup. Qed.
Print Assumptions C10_merge_tree.

Theorem C10_merge_tree_laws :
  (forall d s, (forall sk, s <> PDict sk) -> merge_plain d s = inr s) /\
  (forall v, wfv v -> merge_plain v v = inr v) /\
  (forall s d r, merge_c d s = inr r -> merge_plain d s = inr r).
Proof. split; [exact merge_plain_replace | split; [exact merge_plain_idem | exact merge_c_is_plain]]. Qed.
Print Assumptions C10_merge_tree_laws.

(* 9. Values that are already canonical (distinct keys; string keys non-empty without delimiter; no dict that stands for a
      list) are fixed points of canonicalize; transform with a function that deletes nothing is the identity;
      _merge_dict_into_list raises KeyError exactly when some key is a string and succeeds when every index is an int not
      below -len(dest); canonicalize never fails with TypeError, and a ValueError always comes from a string key,
      somewhere in the value, that does not parse. *)
Theorem C10_canonicalize_fixed_point : forall v, canonical v -> canon true v = inr v.
Proof. exact canon_canonical. Qed.
Print Assumptions C10_canonicalize_fixed_point.

Theorem C10_transform_identity : forall v path, xform (fun _ _ => false) v path = Some v.
Proof. exact xform_keep_all. Qed.
Print Assumptions C10_transform_identity.

Theorem C10_merge_into_list : forall d s,
  (merge_into_list d s = inl HKeyError <-> exists k x, In (KStr k, x) s) /\
  (forall zs, int_keys s = Some zs -> Forall (fun zv => (- Z.of_nat (length d) <= fst zv)%Z) zs ->
     exists r, merge_into_list d s = inr (PList r)).
Proof. exact merge_into_list_errors. Qed.
Print Assumptions C10_merge_into_list.

Theorem C10_canonicalize_error_kinds : forall sp v,
  canon sp v <> inl HTypeError /\ (canon sp v = inl HValueError -> bad_key v).
Proof. exact canon_error_kinds. Qed.
Print Assumptions C10_canonicalize_error_kinds.

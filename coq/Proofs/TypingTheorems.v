(* TypingTheorems.v — the statements exported to Properties/C04.v, the examples showing that their
   hypotheses are satisfiable, and the refutation witnesses (by vm_compute). *)
From PG Require Import Common.Tactics Model.Typing Proofs.TypingBasics Proofs.TypingApply Proofs.TypingCompat
                       Proofs.TypingExtend Proofs.TypingDict Proofs.TypingApplyDict Proofs.TypingCompatDict
                       Proofs.TypingUnion Proofs.TypingUnionCompat.
Local Open Scope Z_scope.

(* ------------------------------------------------------------------------------------------ *)
(** * A spec's own default is acceptable to it *)

(* the default only matters to apply when the spec is frozen *)
Lemma apply_default_irrelevant : forall p s n d1 d2 v,
  apply p (with_mods s (Mods n d1 false)) v = apply p (with_mods s (Mods n d2 false)) v.
Proof. intros. rewrite !apply_eq. destruct s; reflexivity. Qed.

Lemma no_union_with_mods : forall s m, no_union (with_mods s m) = no_union s.
Proof. destruct s; reflexivity. Qed.
Lemma no_schema_with_mods : forall s m, no_schema (with_mods s m) = no_schema s.
Proof. destruct s; reflexivity. Qed.

(* ValueSpecBase.__init__ / set_default / freeze: the default is stored as apply returns it (with
   the frozen flag still off), then the flag is set.  The stored default is acceptable, and maps
   to itself. *)
Theorem default_acceptable_seq : forall s d d' fz,
  no_union s = true -> no_schema s = true ->
  apply true (unfreeze s) d = Ok d' ->
  apply true (with_mods s (Mods (noneable (mods_of s)) (Some d') fz)) d' = Ok d'.
Proof.
  intros s d d' fz NU NS H. destruct fz.
  - rewrite apply_eq. unfold pipeline. destruct s; cbn; rewrite py_eq_refl, orb_true_r; reflexivity.
  - unfold unfreeze in H.
    rewrite (apply_default_irrelevant true s _ (Some d') (default (mods_of s))).
    eapply apply_idempotent_seq; eauto.
    + rewrite no_union_with_mods; auto.
    + rewrite no_schema_with_mods; auto.
Qed.

Lemma keys_ok_with_mods : forall s m, keys_ok (with_mods s m) = keys_ok s.
Proof. destruct s; reflexivity. Qed.

Theorem default_acceptable : forall s d d' fz,
  no_union s = true -> keys_ok s = true ->
  apply true (unfreeze s) d = Ok d' ->
  apply true (with_mods s (Mods (noneable (mods_of s)) (Some d') fz)) d' = Ok d'.
Proof.
  intros s d d' fz NU KO H. destruct fz.
  - rewrite apply_eq. unfold pipeline. destruct s; cbn; rewrite py_eq_refl, orb_true_r; reflexivity.
  - unfold unfreeze in H.
    rewrite (apply_default_irrelevant true s _ (Some d') (default (mods_of s))).
    eapply apply_idempotent; eauto.
    + rewrite no_union_with_mods; auto.
    + rewrite keys_ok_with_mods; auto.
Qed.

(* ------------------------------------------------------------------------------------------ *)
(** * Examples: the hypotheses are satisfiable by non-trivial specs *)

Definition m0 : mods := Mods false None false.
Definition ex_a : spec := SList (SInt (Some 0) (Some 5) (Mods true None false)) 0 (Some 5) (Mods true None false).
Definition ex_b : spec := SList (SInt (Some 1) (Some 2) (Mods false (Some (PInt 1)) true)) 1 (Some 2) m0.

Example ex_wf_a : wf ex_a.
Proof. unfold ex_a, wf, frozen_value_ok; simpl; repeat split; intros; discriminate. Qed.
Example ex_wf_b : wf ex_b.
Proof. unfold ex_b, wf, frozen_value_ok; simpl; repeat split; intros; try discriminate; reflexivity. Qed.
Example ex_compat : compat noq ex_a ex_b = true.
Proof. vm_compute. reflexivity. Qed.
Example ex_value : total (PList [PInt 1; PInt 1]) = true /\ conforms ex_b (PList [PInt 1; PInt 1]).
Proof. split; vm_compute; reflexivity. Qed.
Example ex_no_quirks : no_quirks noq.
Proof. repeat split. Qed.
Example ex_shape : no_union ex_a = true /\ no_schema ex_a = true.
Proof. split; reflexivity. Qed.
Example ex_default : apply true (unfreeze (SFloat (Some 0) None m0)) (PInt 1) = Ok (PFlt 64).
Proof. vm_compute. reflexivity. Qed.

(* ------------------------------------------------------------------------------------------ *)
(** * Refutations: what fails when a hypothesis is dropped (each is an open finding) *)

Definition int_ : spec := SInt None None m0.
Definition str_ : spec := SStr m0.
Definition S_ (n : N) : list N := [n].

(* List._is_compatible ignores min_size *)
Lemma list_min_refuted :
  exists a b v, compat (Quirks true false false false false) a b = true /\ wf a /\ wf b /\
                total v = true /\ conforms b v /\ apply false a v = Err ValueErr.
Proof.
  exists (SList int_ 2 None m0), (SList int_ 0 None m0), (PList []).
  repeat split; try (vm_compute; reflexivity); intros; discriminate.
Qed.

(* is_compatible ignores that the receiver is frozen *)
Lemma frozen_receiver_refuted :
  exists a b v, compat (Quirks false true false false false) a b = true /\ wf a /\ wf b /\
                total v = true /\ conforms b v /\ apply false a v = Err ValueErr.
Proof.
  exists (SInt None None (Mods false (Some (PInt 1)) true)), int_, (PInt 2).
  repeat split; try (vm_compute; reflexivity); intros; try discriminate.
Qed.

(* Enum.is_compatible: frozen sender whose value is == a candidate of another numeric type *)
Lemma enum_shortcut_refuted :
  exists a b v, compat (Quirks false false true false false) a b = true /\ wf a /\ wf b /\
                total v = true /\ conforms b v /\ apply false a v = Err TypeErr.
Proof.
  exists (SEnum [PInt 1; PInt 2] m0), (SFloat None None (Mods false (Some (PFlt 64)) true)), (PFlt 64).
  repeat split; try (vm_compute; reflexivity); intros; try discriminate.
Qed.

(* Enum._is_compatible compares the candidate lists with == only *)
Lemma enum_subset_refuted :
  exists a b v, compat (Quirks false false false true false) a b = true /\ wf a /\ wf b /\
                total v = true /\ conforms b v /\ apply false a v = Err TypeErr.
Proof.
  exists (SEnum [PInt 0; PInt 1; PInt 2] m0), (SEnum [PFlt 64; PFlt 128] m0), (PFlt 64).
  repeat split; try (vm_compute; reflexivity); intros; try discriminate.
Qed.

(* a Union receiver: Union.apply dispatches to the first candidate whose value type matches
   (no quirk flag; this is why compat_sound asks for a Union-free receiver) *)
Lemma union_receiver_refuted :
  exists a b v, compat noq a b = true /\ wf a /\ wf b /\
                total v = true /\ conforms b v /\ apply false a v = Err ValueErr.
Proof.
  exists (SUnion [SInt (Some 5) (Some 5) m0; SBool m0] m0), (SBool m0), (PBool true).
  repeat split; try (vm_compute; reflexivity); intros; try discriminate.
Qed.

(* the literal reading (every *input* the sender accepts): the sender completes {} from its
   default, the receiver has no default for x *)
Lemma literal_reading_refuted :
  exists a b v, compat noq a b = true /\ wf a /\ wf b /\ accepts b v /\ apply false a v = Err ValueErr.
Proof.
  exists (SDict (Some [(KConst (S_ 120), int_)]) m0),
         (SDict (Some [(KConst (S_ 120), SInt None None (Mods false (Some (PInt 1)) false))]) m0),
         (PDict []).
  repeat split; try (vm_compute; reflexivity); intros; try discriminate.
  eexists. vm_compute. reflexivity.
Qed.

(* Union.apply is not idempotent when a frozen candidate returns a value of another candidate's type *)
Lemma union_idempotence_refuted :
  exists s v v', apply false s v = Ok v' /\ apply false s v' = Err ValueErr.
Proof.
  exists (SUnion [SEnum [PInt 1; PStr (S_ 97)] (Mods false (Some (PBool true)) true);
                  SBool (Mods false (Some (PBool false)) true)] m0), (PFlt 64), (PBool true).
  split; vm_compute; reflexivity.
Qed.

(* ------------------------------------------------------------------------------------------ *)
(** * Extension *)

(* the hypotheses of the extension theorem are satisfiable: a variable tuple whose sizes meet the
   base's, with a narrower element range *)
Definition ex_child : spec := STuple [SInt (Some 1) None m0] 0 (Some 2) (Mods false (Some (PTuple [])) false).
Definition ex_base : spec := STuple [SInt None (Some 5) (Mods true None false)] 2 None (Mods true None false).
Example ex_good_child : good ex_child.
Proof.
  unfold good, ex_child. repeat split; try reflexivity;
    unfold frozen_value_ok; simpl; intros; try discriminate.
Qed.
Example ex_base_ok : base_ok ex_base /\ wf ex_base.
Proof.
  unfold base_ok, ex_base. repeat split; try reflexivity;
    unfold frozen_value_ok; simpl; intros; try discriminate.
Qed.
(* the extension fails here because the stored default () no longer fits; without it it succeeds *)
Example ex_extend_stale_default : extend noq ex_child ex_base = Err TypeErr.
Proof. vm_compute. reflexivity. Qed.
Example ex_extend :
  extend noq (STuple [SInt (Some 1) None m0] 0 (Some 2) m0) ex_base =
  Ok (STuple [SInt (Some 1) (Some 5) m0; SInt (Some 1) (Some 5) m0] 2 (Some 2) m0).
Proof. vm_compute. reflexivity. Qed.

(* an Enum may extend a base of another class, which is never compatible with it (flag on) *)
Lemma enum_base_refuted :
  exists c b c', extend (Quirks false false false false true) c b = Ok c' /\
                 compat (Quirks false false false false true) b c' = false.
Proof.
  exists (SEnum [PInt 1; PInt 2] m0), int_, (SEnum [PInt 1; PInt 2] m0).
  split; vm_compute; reflexivity.
Qed.

(* a Union base: the child extends the matching candidate, but the union hands the value to an
   earlier candidate (no flag) *)
Lemma union_base_refuted :
  exists c b c' v, extend noq c b = Ok c' /\ conforms c' v /\ total v = true /\ apply false b v = Err ValueErr.
Proof.
  exists (SBool m0), (SUnion [SInt (Some 5) (Some 5) m0; SBool m0] m0), (SBool m0), (PBool true).
  repeat split; vm_compute; reflexivity.
Qed.

(* a Dict pair satisfying the hypotheses of compat_sound, with a StrKey() field *)
Definition ex_da : spec :=
  SDict (Some [(KConst (S_ 120), SInt None None (Mods true None false)); (KDyn, SFloat None None m0)]) m0.
Definition ex_db : spec :=
  SDict (Some [(KDyn, SFloat (Some 0) None m0); (KConst (S_ 120), SInt (Some 0) (Some 5) (Mods false (Some (PInt 1)) false))]) m0.
Example ex_dict_hyps : wf ex_da /\ wf ex_db /\ keys_ok ex_db = true /\ no_union ex_da = true /\ compat noq ex_da ex_db = true.
Proof.
  unfold ex_da, ex_db. repeat split; try reflexivity; unfold frozen_value_ok; simpl; intros; try discriminate.
Qed.
Example ex_dict_value : conforms ex_db (PDict [(S_ 113, PFlt 96); (S_ 120, PInt 2)]).
Proof. vm_compute. reflexivity. Qed.

(* ------------------------------------------------------------------------------------------ *)
(** * The decidable hypotheses checked by the harness imply the ones the theorems use *)

Lemma pv_eqb_eq : forall a b, pv_eqb a b = true -> a = b.
Proof.
  induction a using pv_ind'; intros y E; destruct y; simpl in E; try discriminate; auto.
  - apply Bool.eqb_prop in E. congruence.
  - apply Z.eqb_eq in E. congruence.
  - apply Z.eqb_eq in E. congruence.
  - apply str_eqb_eq in E. congruence.
  - f_equal. revert l0 E. induction H; intros [|y ys] E; try discriminate; auto.
    apply andb_true_iff in E as [E1 E2]. f_equal; auto.
  - f_equal. revert l0 E. induction H; intros [|y ys] E; try discriminate; auto.
    apply andb_true_iff in E as [E1 E2]. f_equal; auto.
  - f_equal. revert kvs0 E. induction H as [|[k x] r Hx Hr IH]; intros [|[k' y] ys] E; try discriminate; auto.
    apply andb_true_iff in E as [E1 E3]. apply andb_true_iff in E1 as [E1 E2].
    apply str_eqb_eq in E1. subst. simpl in Hx. rewrite (Hx _ E2). f_equal. auto.
  - apply andb_true_iff in E as [E1 E2]. apply str_eqb_eq in E1. apply N.eqb_eq in E2. congruence.
Qed.

Lemma frozen_value_okb_ok : forall s, frozen_value_okb s = true -> frozen_value_ok s.
Proof.
  unfold frozen_value_okb, frozen_value_ok, conforms. intros s H F T. rewrite F, T in H. simpl in H.
  destruct (apply false (unfreeze s) (dflt (mods_of s))) eqn:A; [|discriminate].
  apply pv_eqb_eq in H. congruence.
Qed.

Theorem wfb_wf : forall s, wfb s = true -> wf s.
Proof.
  induction s using spec_ind'; intros W; simpl in W; apply andb_true_iff in W as [W1 W2];
    (split; [apply frozen_value_okb_ok; exact W1|]); auto.
  - rewrite forallb_forall in W2. rewrite Forall_forall in H.
    clear W1. induction es; simpl; auto. split.
    + apply H. left; reflexivity. apply W2. left; reflexivity.
    + apply IHes; intros; [apply H|apply W2]; auto; right; auto.
  - rewrite forallb_forall in W2. rewrite Forall_forall in H.
    clear W1. induction fs; simpl; auto. split.
    + apply H. left; reflexivity. apply W2. left; reflexivity.
    + apply IHfs; intros; [apply H|apply W2]; auto; right; auto.
  - rewrite forallb_forall in W2. rewrite Forall_forall in H.
    clear W1. induction cs; simpl; auto. split.
    + apply H. left; reflexivity. apply W2. left; reflexivity.
    + apply IHcs; intros; [apply H|apply W2]; auto; right; auto.
Qed.

(* a receiver that avoids every open finding with all flags on (the code as it is) *)
Example ex_avoids_all :
  avoids (Quirks true true true true true)
    (SDict (Some [(KConst (S_ 120), SInt (Some 0) (Some 5) m0);
                  (KConst (S_ 121), SList (SStr (Mods true None false)) 0 (Some 2) m0)]) m0) = true.
Proof. reflexivity. Qed.

(* ------------------------------------------------------------------------------------------ *)
(** * Unions with a safe dispatch *)

Lemma union_plain_with_mods : forall s m, union_plain (with_mods s m) = union_plain s.
Proof. destruct s; reflexivity. Qed.

Theorem default_acceptable_plain : forall s d d' fz,
  union_plain s = true -> keys_ok s = true ->
  apply true (unfreeze s) d = Ok d' ->
  apply true (with_mods s (Mods (noneable (mods_of s)) (Some d') fz)) d' = Ok d'.
Proof.
  intros s d d' fz NU KO H. destruct fz.
  - rewrite apply_eq. unfold pipeline. destruct s; cbn; rewrite py_eq_refl, orb_true_r; reflexivity.
  - unfold unfreeze in H.
    rewrite (apply_default_irrelevant true s _ (Some d') (default (mods_of s))).
    eapply apply_idempotent_plain; eauto.
    + rewrite union_plain_with_mods; auto.
    + rewrite keys_ok_with_mods; auto.
Qed.

(* Union([Int(0..5), Str(), List(Float())]) and Union([Bool(), Float(), Dict()]): safe dispatch *)
Definition ex_union_a : spec :=
  SUnion [SInt (Some 0) (Some 5) m0; SStr m0; SList (SFloat None None m0) 0 None m0] (Mods true None false).
Definition ex_union_b : spec := SUnion [SStr m0; SInt (Some 1) (Some 2) m0] m0.
Example ex_union_hyps :
  union_safe ex_union_a = true /\ union_plain ex_union_b = true /\
  avoids (Quirks true true true true true) ex_union_a = true /\
  wf ex_union_a /\ wf ex_union_b /\ compat (Quirks true true true true true) ex_union_a ex_union_b = true.
Proof.
  unfold ex_union_a, ex_union_b. repeat split; try reflexivity; unfold frozen_value_ok; simpl; intros; discriminate.
Qed.
Example ex_union_value : conforms ex_union_b (PInt 2) /\ apply false ex_union_a (PInt 2) = Ok (PInt 2).
Proof. split; vm_compute; reflexivity. Qed.

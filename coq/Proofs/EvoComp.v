(* EvoComp.v — every operator expression is closed over valid populations when its primitives are (C14). *)
From PG Require Import Common.Tactics Model.Geno Model.Evo Model.EvoOps Proofs.GenoBasics Proofs.EvoBase.

Lemma pop_ok_app : forall s a b, pop_ok s a -> pop_ok s b -> pop_ok s (a ++ b).
Proof. unfold pop_ok. intros. apply Forall_app; auto. Qed.
Lemma pop_ok_incl : forall s a b, incl a b -> pop_ok s b -> pop_ok s a.
Proof. unfold pop_ok. intros s a b Hi Hb. rewrite Forall_forall in *. auto. Qed.
Lemma pop_ok_filter : forall s p a, pop_ok s a -> pop_ok s (filter p a).
Proof. intros. eapply pop_ok_incl; eauto. intros x Hx. apply filter_In in Hx; tauto. Qed.
Lemma dedup_id_incl : forall l seen, incl (dedup_id seen l) l.
Proof.
  induction l as [|x l IH]; simpl; intros seen y Hy; auto.
  destruct (memb (item_id x) seen). right. eapply IH; eauto.
  destruct Hy as [<-|Hy]; [left; auto|right; eapply IH; eauto].
Qed.
Lemma every_incl : forall A fuel step (l : list A), incl (every fuel step l) l.
Proof.
  induction fuel as [|f IH]; simpl; intros step l x Hx. contradiction.
  destruct l as [|y l]; [contradiction|]. destruct Hx as [<-|Hx]. left; auto.
  apply IH in Hx. revert Hx. generalize (y :: l). intros l0 Hx. rewrite <- (firstn_skipn step l0). apply in_or_app; auto.
Qed.
Lemma py_slice_incl : forall A lo hi step (l : list A), incl (py_slice lo hi step l) l.
Proof.
  unfold py_slice. intros A lo hi step l x Hx. apply every_incl in Hx.
  revert Hx. generalize (py_bound hi (length l) (length l) - py_bound lo 0 (length l)). generalize (py_bound lo 0 (length l)).
  intros a b Hx. assert (In x (skipn a l)). { rewrite <- (firstn_skipn b (skipn a l)). apply in_or_app; auto. }
  rewrite <- (firstn_skipn a l). apply in_or_app; auto.
Qed.
Lemma item_ok_grp : forall s g l, item_okb s (Grp g l) = true <-> pop_ok s l.
Proof. intros. simpl. rewrite forallb_forall. unfold pop_ok. rewrite Forall_forall. tauto. Qed.
Section ItemInd.
  Variable P : item -> Prop.
  Hypothesis HI : forall i, P (It i).
  Hypothesis HG : forall g l, Forall P l -> P (Grp g l).
  Fixpoint item_ind2 (x : item) : P x :=
    match x with
    | It i => HI i
    | Grp g l => HG g l ((fix go (l : list item) : Forall P l :=
                            match l with [] => Forall_nil _ | y :: r => Forall_cons y (item_ind2 y) (go r) end) l)
    end.
End ItemInd.
Lemma flat_item_ok : forall s maxl x level, item_okb s x = true -> pop_ok s (flat_item maxl level x).
Proof.
  intros s maxl x. induction x as [i|g l IH] using item_ind2; intros level Hx; simpl.
  - constructor; auto.
  - assert (HL : pop_ok s (flat_map (flat_item maxl (S level)) l)).
    { apply item_ok_grp in Hx. revert Hx. induction IH as [|y l Hy _ IHl]; simpl; intros Hl. constructor.
      inv Hl. apply pop_ok_app; auto. }
    destruct maxl as [m|]; auto. destruct (m <? S level); auto. constructor; auto.
Qed.

Lemma gs_get_ok : forall s k g l, gs_ok s g -> gs_get k g = Some l -> pop_ok s l.
Proof.
  induction g as [|[k' l'] g IH]; simpl; intros l Hg H. discriminate. inv Hg.
  destruct (k' =? k). inv H; auto. auto.
Qed.

Section Comp.
  Variable R : Type.
  Variable G : rng R.
  Variable s : dspec.
  Hypothesis PRIM : forall p, closed s (run_prim R G s p).

  Ltac ok_step H := match type of H with
    | rbind ?e _ = Ok _ => let E := fresh "E" in let o := fresh "o" in destruct e as [o|] eqn:E; simpl in H; [|discriminate]; try (destruct o as [? ?]); simpl in H
    end.

  Lemma iter_res_inv : forall A (P : A -> Prop) (f : A -> res A) k a b,
    (forall x y, P x -> f x = Ok y -> P y) -> P a -> iter_res f k a = Ok b -> P b.
  Proof.
    induction k; simpl; intros a b Hf Ha H. inv H; auto.
    destruct (f a) eqn:E; [|discriminate]. eapply IHk; [exact Hf| |exact H]. eapply Hf; eauto.
  Qed.

  Theorem comp_closed : forall x, closedg s (eval R G s x).
  Proof.
    induction x; intros pop st pop' st' Hp Hg H; simpl in H.
    - (* Prim *) ok_step H. inv H. split; auto. eapply PRIM; eauto.
    - inv H; auto.
    - ok_step H. destruct (IHx1 _ _ _ _ Hp Hg E). eapply IHx2; eauto.
    - ok_step H. ok_step H. inv H. destruct (IHx1 _ _ _ _ Hp Hg E) as [H1 G1]. destruct (IHx2 _ _ _ _ Hp G1 E0) as [H2 G2]. split; auto.
      eapply pop_ok_incl. apply dedup_id_incl. apply pop_ok_app; auto.
    - ok_step H. ok_step H. inv H. destruct (IHx2 _ _ _ _ Hp Hg E) as [H2 G2]. destruct (IHx1 _ _ _ _ Hp G2 E0) as [H1 G1]. split; auto.
      eapply pop_ok_incl. apply dedup_id_incl. apply pop_ok_filter; auto.
    - ok_step H. ok_step H. inv H. destruct (IHx1 _ _ _ _ Hp Hg E) as [H1 G1]. destruct (IHx2 _ _ _ _ Hp G1 E0) as [H2 G2]. split; auto. apply pop_ok_app; auto.
    - ok_step H. ok_step H. inv H. destruct (IHx2 _ _ _ _ Hp Hg E) as [H2 G2]. destruct (IHx1 _ _ _ _ Hp G2 E0) as [H1 G1]. split; auto. apply pop_ok_filter; auto.
    - ok_step H. ok_step H. inv H. destruct (IHx1 _ _ _ _ Hp Hg E) as [H1 G1]. destruct (IHx2 _ _ _ _ Hp G1 E0) as [H2 G2]. split; auto.
      apply pop_ok_filter. apply pop_ok_app; auto.
    - (* Repeat *)
      apply (iter_res_inv _ (fun acc : list item * gst R => pop_ok s (fst acc) /\ gs_ok s (snd (snd acc)))) in H; auto.
      + intros [acc st0] y [Ha Hg0] Hy. simpl in *. ok_step Hy. inv Hy. simpl.
        destruct (IHx pop st0 _ _ Hp Hg0 E) as [H1 G1]. split; auto. apply pop_ok_app; auto.
      + split; auto. constructor.
    - (* Power *)
      apply (iter_res_inv _ (fun acc : list item * gst R => pop_ok s (fst acc) /\ gs_ok s (snd (snd acc)))) in H; auto.
      intros [acc st0] [y st1] [Ha Hg0] Hy. simpl in *. eapply IHx; eauto.
    - (* SliceI *)
      ok_step H. destruct (py_index i (length l)); [|discriminate].
      destruct (IHx _ _ _ _ Hp Hg E) as [Hl G1].
      destruct (nth_error l n) as [y|] eqn:En; [|discriminate].
      assert (Hy : item_okb s y = true). { unfold pop_ok in Hl. rewrite Forall_forall in Hl. apply Hl. eapply nth_error_In; eauto. }
      destruct y; inv H; split; auto. constructor; auto. apply item_ok_grp in Hy; auto.
    - ok_step H. inv H. destruct (IHx _ _ _ _ Hp Hg E) as [Hl G1]. split; auto. eapply pop_ok_incl. apply py_slice_incl. auto.
    - ok_step H. inv H. destruct (IHx _ _ _ _ Hp Hg E) as [Hl G1]. split; auto. apply pop_ok_filter; auto.
    - (* WithProb *)
      unfold with_r, st_r in H. match type of H with context [real G ?t] => destruct (real G t) as [z r1] end. destruct (lt_prob z p).
      + eapply (IHx pop (r1, snd (fst st), snd st)); eauto.
      + inv H. split; auto.
    - (* Choice2 *)
      unfold with_r, st_r in H. match type of H with context [real G ?t] => destruct (real G t) as [z r1] end.
      match type of H with rbind ?e _ = _ => destruct e as [[[pop1 st1] n1]|] eqn:E1; simpl in H; [|discriminate] end.
      assert (H1 : pop_ok s pop1 /\ gs_ok s (snd st1)).
      { destruct (lt_prob z p). ok_step E1. inv E1. eapply (IHx1 pop (r1, snd (fst st), snd st)); eauto. inv E1; split; auto. }
      destruct H1 as [H1 G1].
      destruct (match limit with Some l => (n1 =? 1) && (l =? 1) | None => false end). inv H; auto.
      match type of H with context [real G ?t] => destruct (real G t) as [z2 r2] end. destruct (lt_prob z2 q).
      + eapply (IHx2 pop1 (r2, snd (fst st1), snd st1)); eauto.
      + inv H. split; auto.
    - destruct (thr <? length pop); [eapply IHx1|eapply IHx2]; eauto.
    - (* Each *)
      ok_step H. inv H.
      assert (HG : forall l i acc out, pop_ok s l -> pop_ok s (fst acc) /\ gs_ok s (snd (snd acc)) ->
                foldi (fun (_ : nat) y (acc : list item * gst R) =>
                   match y with
                   | Grp _ l => rbind (eval R G s x l (snd acc)) (fun o1 =>
                                Ok (fst acc ++ [Grp (st_n R (snd o1)) (fst o1)], ((st_r R (snd o1), S (st_n R (snd o1))), snd (snd o1))))
                   | It _ => Err EType end) i l acc = Ok out -> pop_ok s (fst out) /\ gs_ok s (snd (snd out))).
      { induction l as [|y l IHl]; simpl; intros i acc out Hl Ha Ho. inv Ho; auto.
        inv Hl. destruct y as [|g gl]; [discriminate|].
        match type of Ho with context [eval R G s x gl ?t] => destruct (eval R G s x gl t) as [[o1 so1]|] eqn:Eo end; simpl in Ho; [|discriminate].
        destruct Ha as [Ha Hga]. apply item_ok_grp in H1. destruct (IHx gl _ _ _ H1 Hga Eo) as [Ho1 Gs1].
        eapply IHl; [auto| |eauto]. simpl. split; auto. apply pop_ok_app; auto. constructor; [|constructor].
        apply item_ok_grp. auto. }
      eapply (HG pop 0 ([], st) (pop', st')); eauto. split; auto. constructor.
    - (* Flatten *)
      inv H. split; auto. induction Hp; simpl. constructor. apply pop_ok_app; auto.
      destruct x; [constructor; auto|]. apply flat_item_ok; auto.
    - (* Until *)
      revert st Hg H. induction maxa as [|k IHk]; intros st Hg H. discriminate.
      ok_step H. destruct (IHx _ _ _ _ Hp Hg E) as [Hl G1]. destruct (negb (pop_eqb l pop)). inv H. auto.
      destruct k. inv H. auto. eapply IHk; eauto.
    - (* Plain *)
      ok_step H. inv H. destruct (IHx pop (fst st, []) _ _ Hp ltac:(constructor) E) as [Hl _]. split; auto.
    - (* GGet *)
      match type of H with context [gs_get k ?t] => destruct (gs_get k t) as [l|] eqn:Eg end.
      + inv H. split; auto. eapply gs_get_ok; eauto.
      + destruct dflt; [|discriminate]. inv H. split; auto. constructor.
    - (* GSet *)
      inv H. split. constructor. simpl. constructor; auto. simpl. destruct from_input; auto. constructor.
  Qed.
End Comp.

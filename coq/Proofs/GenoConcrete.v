(* GenoConcrete.v — the concrete layer: shape of normalized decisions, validate and use_spec accept them,
   binding does not change the tree (so what bind returns is aligned). *)
From PG Require Import Common.Tactics Model.Geno Proofs.GenoBasics Proofs.GenoValid Proofs.GenoNext.

Section DnaInd.
  Variable P : dna -> Prop.
  Hypothesis H : forall v cs, Forall P cs -> P (D v cs).
  Fixpoint dna_ind2 (d : dna) : P d :=
    match d with D v cs => H v cs ((fix go (cs : list dna) : Forall P cs :=
                                     match cs with [] => Forall_nil _ | c :: r => Forall_cons _ (dna_ind2 c) (go r) end) cs) end.
End DnaInd.
Section BdnaInd.
  Variable P : bdna -> Prop.
  Hypothesis H : forall v sp cs, Forall P cs -> P (B v sp cs).
  Fixpoint bdna_ind2 (b : bdna) : P b :=
    match b with B v sp cs => H v sp cs ((fix go (cs : list bdna) : Forall P cs :=
                                           match cs with [] => Forall_nil _ | c :: r => Forall_cons _ (bdna_ind2 c) (go r) end) cs) end.
End BdnaInd.

(* ---- the top of a normalized DNA is never a value-less node with a single child ------------------------ *)
Definition ntop (d : dna) : Prop := match d with D VNone [_] => False | _ => True end.
(* the children a node gets when [x] is wrapped under a value *)
Definition unwrap (x : dna) : list dna := match x with D VNone gs => gs | _ => [x] end.

Ltac mk_brute :=
  repeat match goal with
         | |- context [match ?x with _ => _ end] => is_var x; destruct x
         | d : dna |- _ => destruct d
         | v : dval |- _ => destruct v
         end; simpl in *; try reflexivity; try contradiction; try congruence; try lia.

Lemma mk_none_unwrap : forall x, ntop x -> mk VNone (unwrap x) = x.
Proof.
  intros [v cs] H. destruct v; try reflexivity.
  destruct cs as [|c [|c2 r]]; simpl in *; try reflexivity; try contradiction.
  destruct c as [[] gs]; reflexivity.
Qed.
Lemma mk_wrap : forall v x, v <> VNone -> mk v [x] = D v (unwrap x).
Proof. intros v [w cs] Hv. destruct w, v; try congruence; reflexivity. Qed.
Lemma mk_valued : forall v cs, v <> VNone -> (forall gs, cs <> [D VNone gs]) -> mk v cs = D v cs.
Proof.
  intros v cs Hv Hc. unfold mk.
  assert (E : match cs with [D VNone gs] => gs | _ => cs end = cs).
  { destruct cs as [|[[] gs] [|]]; auto. exfalso. eapply Hc; eauto. }
  rewrite E. destruct v; try congruence; auto.
Qed.
Lemma mk_none_many : forall cs, 2 <= length cs -> mk VNone cs = D VNone cs.
Proof. intros [|a [|b r]] H; simpl in H; try lia. destruct a as [[] ?]; reflexivity. Qed.
Lemma mk_none_nil : mk VNone [] = D VNone []. Proof. reflexivity. Qed.
Lemma mk_none_single : forall x, ntop x -> mk VNone [x] = x.
Proof.
  intros [v cs] H. destruct v; try reflexivity.
  destruct cs as [|c [|c2 r]]; simpl in *; try reflexivity. contradiction.
Qed.

Lemma mk_int_ntop : forall z x, ntop (mk (VInt z) [x]).
Proof. intros z [w gs]. unfold mk. destruct w; simpl; auto. Qed.

(* shape of a normalized point decision *)
Definition valued (d : dna) : Prop := dvalue d <> VNone.
Lemma shape_p : forall p x, wf_p p = true -> valid_p p x = true ->
  match p with
  | Choices k cands _ _ _ _ =>
      if k =? 1 then exists c sub, x = PChoices [(c, sub)] /\ norm_p x = mk (VInt (Z.of_nat c)) [normalize sub]
      else exists cs, x = PChoices cs /\ length cs = k /\
           norm_p x = D VNone (map (fun cs0 => mk (VInt (Z.of_nat (fst cs0))) [normalize (snd cs0)]) cs)
  | FloatP _ _ _ => exists f, x = PFloat f /\ norm_p x = D (VFlt f) []
  | CustomP _ => exists s, x = PCustom s /\ norm_p x = D (VStr s) []
  end.
Proof.
  intros p x Hwf Hv. destruct p as [k cands dist srt nm lits|lo hi nm|nm].
  - apply wf_p_choices in Hwf as (Hk & _). destruct x as [cs| |]; try discriminate.
    apply valid_p_choices in Hv as [Hl _].
    destruct (k =? 1) eqn:E.
    + apply Nat.eqb_eq in E. subst k. destruct cs as [|[c sub] [|]]; try discriminate.
      exists c, sub. split; [reflexivity|].
      change (norm_p (PChoices [(c, sub)])) with (mk VNone [mk (VInt (Z.of_nat c)) [normalize sub]]).
      apply mk_none_single. apply mk_int_ntop.
    + apply Nat.eqb_neq in E. exists cs. split; [reflexivity|]. split; [exact Hl|].
      change (norm_p (PChoices cs)) with (mk VNone (map (fun cs0 => mk (VInt (Z.of_nat (fst cs0))) [normalize (snd cs0)]) cs)).
      apply mk_none_many. rewrite map_length. lia.
  - destruct x; try discriminate. eauto.
  - destruct x; try discriminate. eauto.
Qed.

Lemma norm_p_ntop : forall p x, wf_p p = true -> valid_p p x = true -> ntop (norm_p x).
Proof.
  intros p x Hwf Hv. pose proof (shape_p p x Hwf Hv) as H. destruct p as [k cands dist srt nm lits|lo hi nm|nm].
  - apply wf_p_choices in Hwf as (Hk & _). destruct (k =? 1) eqn:E.
    + destruct H as (c & sub & -> & ->). apply mk_int_ntop.
    + destruct H as (cs & -> & Hl & ->). apply Nat.eqb_neq in E. simpl.
      destruct cs as [|a [|b r]]; simpl in *; auto; lia.
  - destruct H as (f & -> & ->). simpl. auto.
  - destruct H as (s & -> & ->). simpl. auto.
Qed.

(* shape of a normalized Space decision *)
Lemma shape_s : forall es ds, forallb wf_p es = true -> Forall2 (fun e x => valid_p e x = true) es ds ->
  normalize (SSpace ds) =
  match ds with [] => D VNone [] | [x] => norm_p x | _ => D VNone (map norm_p ds) end.
Proof.
  intros es ds Hwf Hv. change (normalize (SSpace ds)) with (mk VNone (map norm_p ds)). destruct ds as [|x [|y r]].
  - reflexivity.
  - inversion Hv as [|e ? es' ? He Hes]; subst. simpl in Hwf. apply andb_true_iff in Hwf as [Hwf _].
    simpl map. apply mk_none_single. eapply norm_p_ntop; eauto.
  - apply mk_none_many. simpl. lia.
Qed.
Lemma normalize_ntop : forall s d, wf s = true -> valid s d = true -> ntop (normalize d).
Proof.
  intros [es] [ds] Hwf Hv. simpl in Hwf, Hv. apply forallb2_Forall2 in Hv.
  rewrite (shape_s es ds Hwf Hv). destruct ds as [|x [|y r]]; simpl; auto.
  inversion Hv as [|e ? es' ? He Hes]; subst. simpl in Hwf. apply andb_true_iff in Hwf as [Hwf _]. eapply norm_p_ntop; eauto.
Qed.

(* ---- values of the children of a multi-choice node ------------------------------------------------------- *)
Definition vint (c : nat) : dval := VInt (Z.of_nat c).
Lemma dval_eqb_vint : forall a b, dval_eqb (vint a) (vint b) = (a =? b).
Proof.
  intros. unfold dval_eqb, vint. simpl. destruct (a =? b) eqn:E.
  - apply Nat.eqb_eq in E. subst. apply Z.eqb_refl.
  - apply Nat.eqb_neq in E. apply Z.eqb_neq. lia.
Qed.
Lemma dvals_distinct_vint : forall l, NoDup l -> dvals_distinct (map vint l) = true.
Proof.
  induction l; intros H; simpl; auto. inv H. rewrite IHl by auto. rewrite andb_true_r.
  apply negb_true_iff. apply not_true_is_false. intros E. apply existsb_exists in E as [y [Hy E]].
  apply in_map_iff in Hy as [b [<- Hb]]. rewrite dval_eqb_vint in E. apply Nat.eqb_eq in E. subst. contradiction.
Qed.
Lemma opt_all_numv_vint : forall l, opt_all (map numv (map vint l)) = Some (map (fun c => (Z.of_nat c * 64)%Z) l).
Proof. induction l; simpl; auto. rewrite IHl. reflexivity. Qed.
Lemma nums_sorted_scaled : forall l, Sorted.StronglySorted le l -> nums_sorted (map (fun c => (Z.of_nat c * 64)%Z) l) = true.
Proof.
  induction l as [|a l IH]; intros H; auto. inv H. destruct l as [|b l]; auto.
  change (nums_sorted (map (fun c => (Z.of_nat c * 64)%Z) (a :: b :: l))) with
    (((Z.of_nat a * 64 <=? Z.of_nat b * 64)%Z) && nums_sorted (map (fun c => (Z.of_nat c * 64)%Z) (b :: l))).
  rewrite IH by auto. rewrite andb_true_r. inv H3. apply Z.leb_le. lia.
Qed.
Lemma dvals_sorted_vint : forall l, Sorted.StronglySorted le l -> dvals_sorted (map vint l) = Some true.
Proof.
  intros l H. destruct l as [|a [|b l]]; try reflexivity.
  unfold dvals_sorted. change (map vint (a :: b :: l)) with (vint a :: vint b :: map vint l).
  cbv iota beta. change (vint a :: vint b :: map vint l) with (map vint (a :: b :: l)).
  rewrite opt_all_numv_vint. rewrite nums_sorted_scaled; auto.
Qed.
Lemma index_of_vint : forall c n, c < n -> index_of (vint c) n = Some c.
Proof.
  intros. unfold index_of, vint.
  assert (E : ((0 <=? Z.of_nat c)%Z && (Z.of_nat c <? Z.of_nat n)%Z) = true).
  { apply andb_true_iff; split. apply Z.leb_le; lia. apply Z.ltb_lt; lia. }
  rewrite E. rewrite Nat2Z.id. reflexivity.
Qed.

Lemma Forall2_len : forall A B (P : A -> B -> Prop) l1 l2, Forall2 P l1 l2 -> length l1 = length l2.
Proof. induction 1; simpl; auto. Qed.

(* the children of a choice node whose candidate is [chosen] *)
Lemma kids_empty_iff : forall es ds, forallb wf_p es = true -> Forall2 (fun e x => valid_p e x = true) es ds ->
  (length (unwrap (normalize (SSpace ds))) =? 0) = (length es =? 0).
Proof.
  intros es ds Hwf Hv. rewrite (shape_s es ds Hwf Hv).
  pose proof (Forall2_len _ _ _ _ _ Hv) as Hl.
  destruct ds as [|x [|y r]]; destruct es as [|e [|e2 es]]; simpl in Hl; try lia; try reflexivity.
  - inversion Hv as [|? ? ? ? He Hes]; subst. simpl in Hwf. apply andb_true_iff in Hwf as [Hwf _].
    pose proof (shape_p e x Hwf He) as H. destruct e as [k cands dist srt nm lits|lo hi nm|nm].
    + apply wf_p_choices in Hwf as (Hk & _). destruct (k =? 1) eqn:E.
      * destruct H as (c & sub & -> & ->). rewrite mk_wrap by discriminate. reflexivity.
      * destruct H as (cs & -> & Hlen & ->). apply Nat.eqb_neq in E. simpl.
        destruct cs; simpl in *; [lia|reflexivity].
    + destruct H as (f & -> & ->). reflexivity.
    + destruct H as (s & -> & ->). reflexivity.
Qed.

(* ---- validate accepts the normal form of every valid decision ---------------------------------------------- *)
Lemma node_eq : forall c sub, mk (VInt (Z.of_nat c)) [normalize sub] = D (vint c) (unwrap (normalize sub)).
Proof. intros. apply mk_wrap. discriminate. Qed.

Lemma validate_p_choices_unfold : forall k cands dist srt nm lits d,
  validate_p (Choices k cands dist srt nm lits) d =
  let n := length cands in
  if k =? 1 then
    match index_of (dvalue d) n with
    | None => false
    | Some c =>
        with_nth (fun chosen =>
          let const := (length (elements chosen) =? 0) in
          let nokids := (length (dkids d) =? 0) in
          (if const then nokids else negb nokids) && validate chosen (mk VNone (dkids d)))
          false cands c
    end
  else
    (length (dkids d) =? k) && is_none (dvalue d) &&
    (let vals := map dvalue (dkids d) in
     (negb dist || dvals_distinct vals) &&
     (negb srt || match dvals_sorted vals with Some b => b | None => false end)) &&
    forallb (fun sub => match index_of (dvalue sub) n with
                        | None => false
                        | Some c => with_nth (fun chosen => validate chosen (mk VNone (dkids sub))) false cands c
                        end) (dkids d).
Proof. reflexivity. Qed.

Lemma validate_complete_both :
  (forall s, wf s = true -> forall d, valid s d = true -> validate s (normalize d) = true) /\
  (forall p, wf_p p = true -> forall x, valid_p p x = true -> validate_p p (norm_p x) = true).
Proof.
  apply dspec_dpoint_ind.
  - intros es IH Hwf [ds] Hv. simpl in Hwf. simpl in Hv. apply forallb2_Forall2 in Hv.
    rewrite (shape_s es ds Hwf Hv). pose proof (Forall2_len _ _ _ _ _ Hv) as Hl.
    assert (HF : Forall2 (fun e x => validate_p e (norm_p x) = true) es ds).
    { clear Hl. induction Hv; constructor.
      - inv IH. simpl in Hwf. apply andb_true_iff in Hwf as [Hw _]. auto.
      - inv IH. simpl in Hwf. apply andb_true_iff in Hwf as [_ Hw]. auto. }
    destruct es as [|e [|e2 es]]; destruct ds as [|x [|y r]]; simpl in Hl; try lia.
    + reflexivity.
    + inv HF. simpl. auto.
    + change (validate (Space (e :: e2 :: es)) (D VNone (map norm_p (x :: y :: r)))) with
        ((length (map norm_p (x :: y :: r)) =? length (e :: e2 :: es)) && true &&
         forallb2 (fun e c => validate_p e c) (e :: e2 :: es) (map norm_p (x :: y :: r))).
      rewrite map_length.
      assert (E : (length (x :: y :: r) =? length (e :: e2 :: es)) = true) by (apply Nat.eqb_eq; simpl; lia).
      rewrite E. cbn [andb].
      apply forallb2_Forall2. clear - HF. induction HF; simpl; constructor; auto.
  - intros k cands dist srt nm lits IH Hwf x Hv.
    pose proof (shape_p _ x Hwf Hv) as Hs. cbv beta iota in Hs.
    pose proof Hwf as Hwf0. apply wf_p_choices in Hwf as (Hk & Hn & Hdk & Hwc).
    assert (Hsub : forall c sub, c < length cands -> with_nth (fun s => valid s sub) false cands c = true ->
              exists sc, nth_error cands c = Some sc /\ validate sc (mk VNone (unwrap (normalize sub))) = true /\
                         (length (unwrap (normalize sub)) =? 0) = (length (elements sc) =? 0)).
    { intros c sub Hc Hvs. rewrite with_nth_nth_error in Hvs. destruct (nth_error cands c) as [sc|] eqn:E; [|discriminate].
      exists sc. split; auto.
      rewrite forallb_forall in Hwc. pose proof (Hwc sc (nth_error_In _ _ E)) as Hwsc.
      rewrite mk_none_unwrap by (eapply normalize_ntop; eauto). split.
      - eapply nth_error_Forall in IH; eauto.
      - destruct sc as [esc], sub as [dsc]. simpl in Hwsc, Hvs. apply forallb2_Forall2 in Hvs.
        apply kids_empty_iff; auto. }
    destruct (k =? 1) eqn:Ek.
    + destruct Hs as (c & sub & -> & Hn1). rewrite Hn1, node_eq.
      apply valid_p_choices in Hv as [_ [[_ Hb] Hf]].
      apply Forall_cons_iff in Hb as [Hb _]. apply Forall_cons_iff in Hf as [Hf _]. simpl in Hb, Hf.
      rewrite validate_p_choices_unfold. cbv zeta. cbn [dvalue dkids].
      rewrite Ek, index_of_vint by auto. destruct (Hsub c sub Hb Hf) as (sc & Esc & A & B).
      rewrite with_nth_nth_error, Esc.
      cbv zeta. rewrite A, B. destruct (length (elements sc) =? 0); reflexivity.
    + destruct Hs as (cs & -> & Hlen & Hn2). rewrite Hn2.
      apply valid_p_choices in Hv as [_ [[Hc Hb] Hf]]. apply constraint_ok_spec in Hc as [Hcd Hcs].
      set (kids := map (fun cs0 => mk (VInt (Z.of_nat (fst cs0))) [normalize (snd cs0)]) cs).
      assert (Ekids : map dvalue kids = map vint (map fst cs)).
      { unfold kids. rewrite !map_map. apply map_ext. intros [c sub]. cbn [fst snd]. rewrite node_eq. reflexivity. }
      rewrite validate_p_choices_unfold. cbv zeta. cbn [dvalue dkids is_none].
      rewrite Ek. cbv zeta. rewrite Ekids.
      assert (E1 : (length kids =? k) = true) by (unfold kids; rewrite map_length; apply Nat.eqb_eq; auto).
      assert (E2 : (negb dist || dvals_distinct (map vint (map fst cs))) = true).
      { destruct dist; auto. simpl. apply dvals_distinct_vint; auto. }
      assert (E3 : (negb srt || match dvals_sorted (map vint (map fst cs)) with Some b => b | None => false end) = true).
      { destruct srt; auto. simpl. rewrite dvals_sorted_vint; auto. }
      rewrite E1, E2, E3. cbn [andb].
      apply forallb_forall. intros kid Hkid. unfold kids in Hkid. apply in_map_iff in Hkid as [[c sub] [<- Hin]]. cbn [fst snd].
      rewrite node_eq. cbn [dvalue dkids].
      rewrite Forall_forall in Hb, Hf. specialize (Hf _ Hin). simpl in Hf.
      assert (Hc : c < length cands) by (apply (Hb c); apply in_map_iff; exists (c, sub); auto).
      rewrite index_of_vint by auto. destruct (Hsub c sub Hc Hf) as (sc & Esc & A & _).
      rewrite with_nth_nth_error, Esc. exact A.
  - intros lo hi nm Hwf x Hv. destruct x; try discriminate. simpl in *. rewrite Hv. reflexivity.
  - intros nm Hwf x Hv. destruct x; try discriminate. reflexivity.
Qed.

Theorem validate_complete : forall s d, wf s = true -> valid s d = true -> validate s (normalize d) = true.
Proof. intros. apply validate_complete_both; auto. Qed.

(* ---- use_spec: binding keeps the tree; valid decisions bind ---------------------------------------------- *)
Definition single_bind (q : quirks) (cands : list dspec) (a' : addr) (d' : dna) : option bdna :=
  match index_of (dvalue d') (length cands) with
  | None => None
  | Some c =>
      match with_nth (fun chosen => bind_kids q chosen (a' ++ [c]) (dkids d')) None cands c with
      | Some ks => Some (B (dvalue d') (Some a') ks)
      | None => None end
  end.
Lemma bind_p_choices_unfold : forall q k cands dist srt nm lits a d,
  bind_p q (Choices k cands dist srt nm lits) a d =
  if k =? 1 then single_bind q cands a d
  else if negb (is_none (dvalue d)) then None
  else match bind_all (fun i (_ : nat) d' => single_bind q cands (a ++ [i]) d') 0 (seq 0 k) (dkids d) with
       | None => None
       | Some ks =>
           let vals := map dvalue (dkids d) in
           if (negb srt || match dvals_sorted vals with Some b => b | None => false end) &&
              (negb dist || dvals_distinct vals)
           then Some (B VNone (Some a) ks) else None
       end.
Proof. reflexivity. Qed.
Definition is_multi (e : dpoint) : bool := match e with Choices k _ _ _ _ _ => negb (k =? 1) | _ => false end.
Lemma bind_kids_unfold : forall q es a kids,
  bind_kids q (Space es) a kids =
  match es with
  | [e] =>
      if is_multi e then option_map bkids (bind_p q e (a ++ [0]) (D VNone kids))
      else match kids with
           | [kid] => option_map (fun b => [b]) (bind_p q e (a ++ [0]) kid)
           | _ => None end
  | _ => bind_all (fun i e d => bind_p q e (a ++ [i]) d) 0 es kids
  end.
Proof. intros. destruct es as [|e [|e2 es]]; reflexivity. Qed.

Lemma bind_all_strip : forall A (f : nat -> A -> dna -> option bdna) es ds i bs,
  (forall j e d b, In e es -> f j e d = Some b -> strip b = d) ->
  bind_all f i es ds = Some bs -> map strip bs = ds.
Proof.
  induction es as [|e es IH]; intros [|d ds] i bs Hf H; simpl in H; try discriminate.
  - inv H. reflexivity.
  - destruct (f i e d) as [b|] eqn:E; [|discriminate].
    destruct (bind_all f (S i) es ds) as [bs'|] eqn:E2; [|discriminate]. inv H. simpl. f_equal.
    + eapply Hf; eauto. simpl; auto.
    + eapply IH; eauto. intros; eapply Hf; eauto. simpl; auto.
Qed.
Lemma strip_unbound : forall d, strip (unbound d) = d.
Proof.
  apply dna_ind2. intros v cs IH. simpl. f_equal. rewrite map_map.
  induction IH; simpl; f_equal; auto.
Qed.

Lemma bind_strip_both : forall q,
  (forall s a kids bs, bind_kids q s a kids = Some bs -> map strip bs = kids) /\
  (forall p a d b, bind_p q p a d = Some b -> strip b = d).
Proof.
  intros q. apply dspec_dpoint_ind.
  - intros es IH a kids bs H. rewrite bind_kids_unfold in H.
    destruct es as [|e [|e2 es]].
    + eapply bind_all_strip; eauto. intros j e d b [].
    + inv IH.
      destruct (is_multi e).
      * destruct (bind_p q e (a ++ [0]) (D VNone kids)) as [b|] eqn:E; [|discriminate]. inv H.
        apply H2 in E. destruct b as [v sp cs]. simpl in *. inv E. reflexivity.
      * destruct kids as [|kid [|]]; try discriminate.
        destruct (bind_p q e (a ++ [0]) kid) as [b|] eqn:E; [|discriminate]. inv H.
        apply H2 in E. simpl. rewrite E. reflexivity.
    + eapply bind_all_strip; eauto. intros j e0 d b Hin Hb. rewrite Forall_forall in IH. simpl in Hb. exact (IH e0 Hin _ _ _ Hb).
  - intros k cands dist srt nm lits IH a d b H. rewrite bind_p_choices_unfold in H.
    assert (Hs : forall a' d' b', single_bind q cands a' d' = Some b' -> strip b' = d').
    { intros a' d' b' Hb. unfold single_bind in Hb.
      destruct (index_of (dvalue d') (length cands)) as [c|]; [|discriminate].
      rewrite with_nth_nth_error in Hb. destruct (nth_error cands c) as [sc|] eqn:E; [|discriminate].
      destruct (bind_kids q sc (a' ++ [c]) (dkids d')) as [ks|] eqn:Ek; [|discriminate]. inv Hb.
      eapply nth_error_Forall in IH; eauto. apply IH in Ek. destruct d'. simpl in *. rewrite Ek. reflexivity. }
    destruct (k =? 1).
    + eapply Hs; eauto.
    + destruct (negb (is_none (dvalue d))) eqn:En; [discriminate|].
      destruct (bind_all _ 0 (seq 0 k) (dkids d)) as [ks|] eqn:Eb; [|discriminate].
      cbv zeta in H. destruct (_ && _); [|discriminate]. inv H.
      apply bind_all_strip in Eb; [|intros; eapply Hs; eauto].
      destruct d as [v cs]. simpl in *. rewrite Eb. destruct v; try discriminate. reflexivity.
  - intros lo hi nm a d b H. simpl in H. destruct d as [v cs]. simpl in H. destruct v; try discriminate.
    destruct (_ && _); [|discriminate]. inv H. simpl. f_equal. rewrite map_map.
    clear. induction cs; simpl; f_equal; auto. apply strip_unbound.
  - intros nm a d b H. simpl in H. destruct d as [v cs]. simpl in H. destruct v; try discriminate.
    inv H. simpl. f_equal. rewrite map_map. clear. induction cs; simpl; f_equal; auto. apply strip_unbound.
Qed.

Lemma bind_strip : forall q s d b, bind q s d = Some b -> strip b = d.
Proof.
  intros q [es] d b H. unfold bind in H. destruct es as [|e [|e2 es]].
  - destruct (is_none (dvalue d)) eqn:En; [|discriminate].
    destruct (bind_all _ 0 [] (dkids d)) as [bs|] eqn:E; [|discriminate]. inv H.
    destruct d as [v cs]. simpl in *. destruct cs; [|discriminate]. inv E. destruct v; try discriminate. reflexivity.
  - eapply (proj2 (bind_strip_both q)); eauto.
  - destruct (is_none (dvalue d)) eqn:En; [|discriminate].
    destruct (bind_all _ 0 (e :: e2 :: es) (dkids d)) as [bs|] eqn:E; [|discriminate]. inv H.
    apply bind_all_strip in E; [|intros; eapply (proj2 (bind_strip_both q)); eauto].
    destruct d as [v cs]. simpl in *. rewrite E. destruct v; try discriminate. reflexivity.
Qed.

(* whatever use_spec returns is aligned: each node is bound to the decision point of its position *)
Theorem bind_aligned : forall q s d b, bind q s d = Some b -> aligned q s b.
Proof. intros q s d b H. unfold aligned. rewrite (bind_strip q s d b H). exact H. Qed.

Lemma bind_all_complete : forall A (f : nat -> A -> dna -> option bdna) es ds,
  Forall2 (fun e d => forall i, exists b, f i e d = Some b) es ds ->
  forall i, exists bs, bind_all f i es ds = Some bs.
Proof.
  induction 1; intros i; simpl. eauto.
  destruct (H i) as [b Hb]. destruct (IHForall2 (S i)) as [bs Hbs]. rewrite Hb, Hbs. eauto.
Qed.

Lemma unwrap_multi : forall e x, wf_p e = true -> valid_p e x = true ->
  (is_multi e = true /\ D VNone (unwrap (norm_p x)) = norm_p x) \/ (is_multi e = false /\ unwrap (norm_p x) = [norm_p x]).
Proof.
  intros e x Hwf Hv. pose proof (shape_p e x Hwf Hv) as Hs.
  destruct e as [k cands dist srt nm lits|lo hi nm|nm]; unfold is_multi.
  - destruct (k =? 1).
    + right. destruct Hs as (c & sub & -> & ->). rewrite node_eq. split; reflexivity.
    + left. destruct Hs as (cs & -> & _ & ->). split; reflexivity.
  - right. destruct Hs as (f & -> & ->). split; reflexivity.
  - right. destruct Hs as (s & -> & ->). split; reflexivity.
Qed.

Lemma Forall2_bind_map : forall q (g : nat -> addr) es ds,
  Forall2 (fun e x => forall a', exists b, bind_p q e a' (norm_p x) = Some b) es ds ->
  Forall2 (fun e d => forall i, exists b, bind_p q e (g i) d = Some b) es (map norm_p ds).
Proof. induction 1; simpl; constructor; auto. Qed.

Lemma bind_complete_both : forall q,
  (forall s, wf s = true -> forall sd a, valid s sd = true -> exists bs, bind_kids q s a (unwrap (normalize sd)) = Some bs) /\
  (forall p, wf_p p = true -> forall x a, valid_p p x = true -> exists b, bind_p q p a (norm_p x) = Some b).
Proof.
  intros q. apply dspec_dpoint_ind.
  - intros es IH Hwf [ds] a Hv. simpl in Hwf, Hv. apply forallb2_Forall2 in Hv.
    rewrite (shape_s es ds Hwf Hv). rewrite bind_kids_unfold. pose proof (Forall2_len _ _ _ _ _ Hv) as Hl.
    assert (HF : Forall2 (fun e x => forall a', exists b, bind_p q e a' (norm_p x) = Some b) es ds).
    { clear Hl. induction Hv; constructor.
      - inv IH. simpl in Hwf. apply andb_true_iff in Hwf as [Hw _]. intros; auto.
      - inv IH. simpl in Hwf. apply andb_true_iff in Hwf as [_ Hw]. auto. }
    destruct es as [|e [|e2 es]]; destruct ds as [|x [|y r]]; simpl in Hl; try lia.
    + simpl. eauto.
    + inversion Hv as [|? ? ? ? He _]; subst. inversion HF as [|? ? ? ? Hb _]; subst.
      simpl in Hwf. apply andb_true_iff in Hwf as [Hwe _].
      destruct (Hb (a ++ [0])) as [b Eb].
      destruct (unwrap_multi e x Hwe He) as [[Em En]|[Em En]]; rewrite Em.
      * rewrite En. rewrite Eb. simpl. eauto.
      * rewrite En. rewrite Eb. simpl. eauto.
    + cbn [unwrap]. apply bind_all_complete.
      apply (Forall2_bind_map q (fun i => a ++ [i]) _ _ HF).
  - intros k cands dist srt nm lits IH Hwf x a Hv.
    pose proof (shape_p _ x Hwf Hv) as Hs. cbv beta iota in Hs.
    pose proof Hwf as Hwf0. apply wf_p_choices in Hwf as (Hk & Hn & Hdk & Hwc).
    assert (Hsingle : forall c sub a', c < length cands -> with_nth (fun s => valid s sub) false cands c = true ->
              exists b, single_bind q cands a' (D (vint c) (unwrap (normalize sub))) = Some b).
    { intros c sub a' Hc Hvs. unfold single_bind. cbn [dvalue dkids]. rewrite index_of_vint by auto.
      rewrite with_nth_nth_error in *. destruct (nth_error cands c) as [sc|] eqn:E; [|discriminate].
      rewrite forallb_forall in Hwc. eapply nth_error_Forall in IH; eauto.
      destruct (IH (Hwc sc (nth_error_In _ _ E)) sub (a' ++ [c]) Hvs) as [bs Hbs]. rewrite Hbs. eauto. }
    rewrite bind_p_choices_unfold.
    destruct (k =? 1) eqn:Ek.
    + destruct Hs as (c & sub & -> & Hn1). rewrite Hn1, node_eq.
      apply valid_p_choices in Hv as [_ [[_ Hb] Hf]].
      apply Forall_cons_iff in Hb as [Hb _]. apply Forall_cons_iff in Hf as [Hf _]. simpl in Hb, Hf. auto.
    + destruct Hs as (cs & -> & Hlen & Hn2). rewrite Hn2.
      apply valid_p_choices in Hv as [_ [[Hc Hb] Hf]]. apply constraint_ok_spec in Hc as [Hcd Hcs].
      set (kids := map (fun cs0 => mk (VInt (Z.of_nat (fst cs0))) [normalize (snd cs0)]) cs).
      assert (Ekids : map dvalue kids = map vint (map fst cs)).
      { unfold kids. rewrite !map_map. apply map_ext. intros [c sub]. cbn [fst snd]. rewrite node_eq. reflexivity. }
      cbn [dvalue dkids is_none negb]. cbv zeta. rewrite Ekids.
      assert (E2 : (negb dist || dvals_distinct (map vint (map fst cs))) = true).
      { destruct dist; auto. simpl. apply dvals_distinct_vint; auto. }
      assert (E3 : (negb srt || match dvals_sorted (map vint (map fst cs)) with Some b => b | None => false end) = true).
      { destruct srt; auto. simpl. rewrite dvals_sorted_vint; auto. }
      rewrite E2, E3. cbn [andb].
      destruct (bind_all_complete nat (fun i (_ : nat) d' => single_bind q cands (a ++ [i]) d') (seq 0 k) kids) with (i := 0) as [bs Hbs].
      { assert (G : forall (l : list nat) cs', length l = length cs' ->
                  Forall (fun y => y < length cands) (map fst cs') ->
                  Forall (fun x : nat * sdna => with_nth (fun s => valid s (snd x)) false cands (fst x) = true) cs' ->
                  Forall2 (fun (_ : nat) d => forall i, exists b, single_bind q cands (a ++ [i]) d = Some b) l
                          (map (fun cs0 => mk (VInt (Z.of_nat (fst cs0))) [normalize (snd cs0)]) cs')).
        { induction l; intros [|[c sub] cs'] Hl' Hb' Hf'; simpl in Hl'; try lia; cbn [map fst snd]; constructor.
          - intros i. rewrite node_eq.
            apply Forall_cons_iff in Hb' as [Hb' _]. apply Forall_cons_iff in Hf' as [Hf' _]. simpl in Hb', Hf'. auto.
          - apply Forall_cons_iff in Hb' as [_ Hb']. apply Forall_cons_iff in Hf' as [_ Hf']. apply IHl; auto. }
        apply G; auto. rewrite seq_length. auto. }
      rewrite Hbs. eauto.
  - intros lo hi nm Hwf x a Hv. destruct x; try discriminate. simpl in *. rewrite Hv. rewrite orb_true_r. simpl. eauto.
  - intros nm Hwf x a Hv. destruct x; try discriminate. simpl. eauto.
Qed.

Theorem bind_complete : forall q s sd, wf s = true -> valid s sd = true ->
  exists b, bind q s (normalize sd) = Some b /\ strip b = normalize sd /\ aligned q s b.
Proof.
  intros q [es] [ds] Hwf Hv.
  assert (H : exists b, bind q (Space es) (normalize (SSpace ds)) = Some b).
  { pose proof Hv as Hv0. simpl in Hwf, Hv. apply forallb2_Forall2 in Hv.
    rewrite (shape_s es ds Hwf Hv). pose proof (Forall2_len _ _ _ _ _ Hv) as Hl.
    assert (HF : Forall2 (fun e x => forall a', exists b, bind_p q e a' (norm_p x) = Some b) es ds).
    { clear Hl Hv0. induction Hv; constructor.
      - simpl in Hwf. apply andb_true_iff in Hwf as [Hw _]. intros. apply (proj2 (bind_complete_both q)); auto.
      - simpl in Hwf. apply andb_true_iff in Hwf as [_ Hw]. auto. }
    unfold bind. destruct es as [|e [|e2 es]]; destruct ds as [|x [|y r]]; simpl in Hl; try lia.
    - simpl. eauto.
    - inversion HF as [|? ? ? ? Hb _]; subst. apply Hb.
    - cbn [dvalue dkids is_none].
      destruct (bind_all_complete dpoint (fun i e c => bind_p q e [i] c) (e :: e2 :: es) (map norm_p (x :: y :: r))) with (i := 0) as [bs Hbs].
      { apply (Forall2_bind_map q (fun i => [i])). exact HF. }
      rewrite Hbs. simpl. eauto. }
  destruct H as [b Hb]. exists b. split; auto. split. eapply bind_strip; eauto. eapply bind_aligned; eauto.
Qed.

(* EvoSelExpr.v — every pipeline built from selectors with the composition operators returns members of its input (C14). *)
From PG Require Import Common.Tactics Model.Geno Model.Evo Model.EvoOps Proofs.GenoBasics Proofs.EvoBase Proofs.EvoSel Proofs.EvoComp.

(* expressions whose primitives are selectors (no mutator, recombinator, list-making Lambda, ElementWise, Flatten) *)
Fixpoint sel_only (x : opx) : bool :=
  match x with
  | Prim (PSel _) | Ident => true
  | Prim _ | Each _ | Flatten _ | GGet _ _ | GSet _ _ => false
  | Pipe a b | Union_ a b | Inter a b | Concat a b | Diff a b | SymDiff a b | IfLen _ a b => sel_only a && sel_only b
  | Choice2 a _ b _ _ => sel_only a && sel_only b
  | Repeat _ a | Power _ a | SliceI _ a | SliceS _ _ _ a | Invert a | WithProb _ a | Until _ a | Plain a => sel_only a
  end.

Section SelExpr.
  Variable R : Type.
  Variable G : rng R.
  Variable s : dspec.

  Definition flat (pop : list item) : Prop := Forall (fun y => is_it y = true) pop.
  Lemma flat_incl : forall a b, incl a b -> flat b -> flat a.
  Proof. unfold flat. intros a b Hi Hb. rewrite Forall_forall in *. auto. Qed.

  Ltac ok_step H := match type of H with
    | rbind ?e _ = Ok _ => let E := fresh "E" in let o := fresh "o" in destruct e as [o|] eqn:E; simpl in H; [|discriminate]; try (destruct o as [? ?]); simpl in H
    end.

  Theorem sel_expr_members : forall x, sel_only x = true -> forall pop st out st',
    flat pop -> eval R G s x pop st = Ok (out, st') -> incl out pop.
  Proof.
    induction x; simpl; intros Hs pop st out st' Hf H; try discriminate;
      try (apply andb_true_iff in Hs as [Hs1 Hs2]).
    - destruct p; try discriminate. simpl in H. ok_step H. ok_step E. inv E. inv H. eapply select_members; eauto.
    - inv H. apply incl_refl.
    - ok_step H. pose proof (IHx1 Hs1 _ _ _ _ Hf E) as H1.
      eapply incl_tran; [|exact H1]. eapply IHx2; eauto. eapply flat_incl; eauto.
    - ok_step H. ok_step H. inv H. eapply incl_tran. apply dedup_id_incl. apply incl_app; eauto.
    - ok_step H. ok_step H. inv H. eapply incl_tran. apply dedup_id_incl. eapply incl_tran. apply incl_filter. eauto.
    - ok_step H. ok_step H. inv H. apply incl_app; eauto.
    - ok_step H. ok_step H. inv H. eapply incl_tran. apply incl_filter. eauto.
    - ok_step H. ok_step H. inv H. eapply incl_tran. apply incl_filter. apply incl_app; eauto.
    - (* Repeat *)
      apply (iter_res_inv _ (fun acc : list item * gst R => incl (fst acc) pop)) in H; auto.
      + intros [acc st0] y Ha Hy. simpl in *. ok_step Hy. inv Hy. simpl. apply incl_app; auto. eapply (IHx Hs pop); eauto.
      + intros y [].
    - (* Power *)
      apply (iter_res_inv _ (fun acc : list item * gst R => incl (fst acc) pop)) in H; auto.
      + intros [acc st0] [y st1] Ha Hy. simpl in *. eapply incl_tran; [|exact Ha]. eapply (IHx Hs acc); eauto. eapply flat_incl; eauto.
      + apply incl_refl.
    - (* SliceI *)
      ok_step H. destruct (py_index i (length l)); [|discriminate].
      pose proof (IHx Hs _ _ _ _ Hf E) as Hl.
      destruct (nth_error l n) as [y|] eqn:En; [|discriminate].
      assert (Hy : In y pop) by (apply Hl; eapply nth_error_In; eauto).
      destruct y as [i0|gid gl].
      + inv H. intros z [<-|[]]. auto.
      + unfold flat in Hf. rewrite Forall_forall in Hf. apply Hf in Hy. discriminate.
    - ok_step H. inv H. eapply incl_tran. apply py_slice_incl. eauto.
    - ok_step H. inv H. apply incl_filter.
    - match type of H with context [real G ?t] => destruct (real G t) as [z r1] end. destruct (lt_prob z p). eapply IHx; eauto. inv H. apply incl_refl.
    - match type of H with context [real G ?t] => destruct (real G t) as [z r1] end.
      match type of H with rbind ?e _ = _ => destruct e as [[[pop1 st1] n1]|] eqn:E1; simpl in H; [|discriminate] end.
      assert (H1 : incl pop1 pop).
      { destruct (lt_prob z p). ok_step E1. inv E1. eapply IHx1; eauto. inv E1. apply incl_refl. }
      destruct (match limit with Some l => (n1 =? 1) && (l =? 1) | None => false end). inv H; auto.
      match type of H with context [real G ?t] => destruct (real G t) as [z2 r2] end. destruct (lt_prob z2 q).
      eapply incl_tran; [|exact H1]. eapply IHx2; eauto. eapply flat_incl; eauto. inv H; auto.
    - destruct (thr <? length pop); [eapply IHx1|eapply IHx2]; eauto.
    - (* Until *)
      revert st H. induction maxa as [|k IHk]; intros st H. discriminate.
      ok_step H. destruct (negb (pop_eqb l pop)). inv H. eapply IHx; eauto.
      destruct k. inv H. eapply IHx; eauto. eapply IHk; eauto.
    - ok_step H. inv H. eapply IHx; eauto.
  Qed.
End SelExpr.

(* JsonFieldsInstance.v — the tables regenerated from the current source are consistent (re-checked every run). *)
From PG Require Import Common.Tactics Model.Json Model.JsonFields Gen.JsonFields Proofs.JsonProofs Proofs.JsonFieldsProofs.
From Coq Require Import NArith.

Lemma generated_tables_ok : table_ok classes = true.
Proof. vm_compute. reflexivity. Qed.

Theorem generated_fields_roundtrip : forall c on o, In c classes ->
  respects c o -> normal c o -> regenerated c on o ->
  exists kws, construct c (emit (cd_fields c) on o) = Some kws /\
              forall f, In f (cd_fields c) -> slookup (fd_key f) kws = Some (o (fd_key f)).
Proof.
  intros c on o Hin. apply fields_roundtrip.
  pose proof generated_tables_ok as H. unfold table_ok in H. rewrite forallb_forall in H. apply H. exact Hin.
Qed.

(* the two defects of this family that the oracle found, as tables: both fail the check *)
Definition s_Enum : str := [69;110;117;109]%N.
Definition s_default : str := [100;101;102;97;117;108;116]%N.
Definition s_values : str := [118;97;108;117;101;115]%N.
Definition s_frozen : str := [102;114;111;122;101;110]%N.
Definition enum_before_fix : cdesc :=
  {| cd_name := s_Enum; cd_params := [(s_default, None); (s_values, None); (s_frozen, Some CFalse)];
     cd_fields := [ {| fd_key := s_default; fd_excl := Some CMissing; fd_cond := false |};
                    {| fd_key := s_values; fd_excl := Some CNone; fd_cond := false |};
                    {| fd_key := s_frozen; fd_excl := Some CFalse; fd_cond := false |} ];
     cd_norms := [] |}.
Theorem enum_without_default_refuted :
  class_ok enum_before_fix = false /\
  construct enum_before_fix (emit (cd_fields enum_before_fix) (fun _ => true)
                               (fun k => if str_eqb k s_default then VConst CMissing else if str_eqb k s_frozen then VConst CFalse else VOther 1)) = None.
Proof. vm_compute. split; reflexivity. Qed.

Definition s_Schema : str := [83;99;104;101;109;97]%N.
Definition s_fields : str := [102;105;101;108;100;115]%N.
Definition schema_before_fix : cdesc :=
  {| cd_name := s_Schema; cd_params := [(s_fields, None)];
     cd_fields := [ {| fd_key := s_fields; fd_excl := Some CNil; fd_cond := false |} ]; cd_norms := [] |}.
Theorem schema_without_fields_refuted :
  class_ok schema_before_fix = false /\
  construct schema_before_fix (emit (cd_fields schema_before_fix) (fun _ => true) (fun _ => VConst CNil)) = None.
Proof. vm_compute. split; reflexivity. Qed.

(* an object inside the hypotheses: Int(default=MISSING_VALUE, min_value=3, ...) style values *)
Example ex_fields_hyps :
  let c := {| cd_name := [73;110;116]%N; cd_params := [(s_default, Some CMissing); (s_frozen, Some CFalse)];
              cd_fields := [ {| fd_key := s_default; fd_excl := Some CMissing; fd_cond := false |};
                             {| fd_key := s_frozen; fd_excl := Some CFalse; fd_cond := false |} ]; cd_norms := [] |} in
  let o := fun k => if str_eqb k s_default then VOther 7 else VConst CFalse in
  class_ok c = true /\ respects c o /\ normal c o /\ regenerated c (fun _ => true) o.
Proof.
  split; [reflexivity|]. split; [|split].
  - intros f d Hin He Hn. simpl in Hin. destruct Hin as [E|[E|[]]]; subst f; simpl in *; discriminate.
  - intro k. reflexivity.
  - intros f Hin Hc. simpl in Hin. destruct Hin as [E|[E|[]]]; subst f; discriminate.
Qed.

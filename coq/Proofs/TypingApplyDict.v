(* TypingApplyDict.v — idempotence of apply for Dict specs with a schema, and the idempotence
   theorem for every spec without Union. *)
From PG Require Import Common.Tactics Model.Typing Proofs.TypingBasics Proofs.TypingApply Proofs.TypingDict.
Local Open Scope Z_scope.
Local Arguments Z.mul : simpl never.

Definition is_union' (s : spec) : bool := match s with SUnion _ _ => true | _ => false end.

(* the class-specific part never returns MISSING_VALUE / None for a typed value *)
Lemma body_typed : forall p s v1 v', is_union' s = false -> apply_body p s v1 = Ok v' ->
  type_of v1 <> None -> type_of v' <> None.
Proof.
  intros p s v1 v' U B T. destruct s; try discriminate; cbn [apply_body] in B.
  - inv B; auto.
  - apply validate_num_same in B. subst; auto.
  - apply validate_num_same in B. subst; auto.
  - inv B; auto.
  - destruct (py_in v1 vals); inv B; auto.
  - destruct v1; try discriminate. destruct (mapM (apply p s) l) as [l'|]; simpl in B; try discriminate.
    destruct (size_ok mn mx (len l')); inv B. simpl; congruence.
  - destruct v1; try discriminate. destruct (fixed_length mn mx).
    + destruct (negb (len l =? len es)); try discriminate.
      destruct (zipM (apply p) es l); simpl in B; inv B. simpl; congruence.
    + destruct (negb (size_ok mn mx (len l))); try discriminate. destruct es.
      * destruct l; inv B. simpl; congruence.
      * destruct (mapM (apply p s) l); simpl in B; inv B. simpl; congruence.
  - destruct schema.
    + destruct v1; try discriminate. destruct (unknown_keys l kvs); try discriminate.
      destruct (fields_apply (apply p) l kvs l); simpl in B; inv B. simpl; congruence.
    + inv B; auto.
  - inv B; auto.
  - inv B; auto.
Qed.

Lemma apply_missing_out : forall p s v, is_union' s = false -> apply p s v = Ok PMissing ->
  (frozen (mods_of s) = true /\ dflt (mods_of s) = PMissing) \/
  (frozen (mods_of s) = false /\ v = PMissing).
Proof.
  intros p s v U H. rewrite apply_eq in H.
  destruct (frozen (mods_of s)) eqn:F.
  - left. unfold pipeline in H. rewrite F in H.
    destruct (is_missing v || py_eq (dflt (mods_of s)) v); inv H. auto.
  - right. split; auto. destruct (type_of v) eqn:T.
    + rewrite pipeline_typed in H by congruence.
      destruct (coerce (vtype s) v) eqn:C; simpl in H; [|discriminate].
      exfalso. eapply (body_typed p s a PMissing); eauto.
      eapply coerce_typed; eauto. congruence.
    + unfold pipeline in H. rewrite F in H. destruct v; simpl in T; try discriminate; auto.
      destruct (noneable (mods_of s)); discriminate.
Qed.

(* feeding a field its own result gives that result again *)
Lemma round2 : forall p sp o x', idem p sp -> is_union' sp = false ->
  apply p sp (field_input sp o) = Ok x' -> apply p sp (field_input sp (Some x')) = Ok x'.
Proof.
  intros p sp o x' I U H. unfold field_input at 1. destruct (is_missing x') eqn:M.
  - destruct x'; try discriminate.
    destruct (apply_missing_out _ _ _ U H) as [[F D]|[F E]].
    + rewrite apply_eq. unfold pipeline. rewrite F, D. reflexivity.
    + assert (D : dflt (mods_of sp) = PMissing).
      { unfold field_input in E. destruct o as [x|]; auto. destruct (is_missing x) eqn:Mx; auto.
        subst x. discriminate. }
      rewrite D. rewrite E in H. exact H.
  - apply I in H. exact H.
Qed.

Lemma has_const_field : forall (fs : list (fkey * spec)) k, has_const k fs = true -> exists sp, In (KConst k, sp) fs.
Proof.
  unfold has_const. intros fs k H. destruct (field_of (KConst k) fs) eqn:E; [|discriminate].
  eauto using field_of_In'.
Qed.

Lemma In_merge : forall kvs ups k z, In (k, z) (dict_merge kvs ups) ->
  (exists x, In (k, x) kvs /\ z = match lookup k ups with Some x' => x' | None => x end) \/
  (In (k, z) ups /\ has_key k kvs = false).
Proof.
  unfold dict_merge. intros kvs ups k z I. apply in_app_or in I as [I|I].
  - left. apply in_map_iff in I as [[k0 x0] [E I]]. simpl in E. inv E. eauto.
  - right. apply filter_In in I as [I P]. simpl in P. split; auto. destruct (has_key k kvs); auto; discriminate.
Qed.

Lemma idem_dict : forall p fs m, keys_distinct fs = true ->
  Forall (fun kf => idem p (snd kf) /\ is_union' (snd kf) = false) fs ->
  idem p (SDict (Some fs) m).
Proof.
  intros p fs m KD IH v v'. rewrite !apply_eq. apply pipeline_idem.
  intros v1 v1' B T. cbn [apply_body] in *.
  destruct v1; try discriminate.
  destruct (unknown_keys fs kvs) eqn:UK; [discriminate|].
  destruct (fields_apply (apply p) fs kvs fs) as [ups|] eqn:FA; simpl in B; [|discriminate].
  inv B. split; [reflexivity|].
  set (kvs' := dict_merge kvs ups).
  rewrite Forall_forall in IH.
  assert (CONST : forall k sp, In (KConst k, sp) fs -> has_const k fs = true)
    by (intros; eapply has_const_In; eauto).
  (* A: a const field finds its own result in the merged dict *)
  assert (A : forall k sp, In (KConst k, sp) fs ->
            exists x', lookup k ups = Some x' /\ apply p sp (field_input sp (lookup k kvs)) = Ok x' /\
                       lookup k kvs' = Some x').
  { intros k sp I. destruct (fields_const _ _ _ _ _ FA KD CONST k sp I) as [x' [L F]].
    exists x'. repeat split; auto. unfold kvs'. rewrite lookup_merge, L. destruct (lookup k kvs); auto. }
  (* B: an entry of the merged dict under a non-const key carries the dyn field's result *)
  assert (Bd : forall k z, In (k, z) kvs' -> has_const k fs = false ->
            exists x0, lookup k kvs = Some x0 /\ lookup k kvs' = Some z /\
            forall spd, In (KDyn, spd) fs ->
              lookup k ups = Some z /\
              apply p spd (if is_missing x0 then dflt (mods_of spd) else x0) = Ok z).
  { intros k z I NC. destruct (In_merge _ _ _ _ I) as [[x [Ix Ez]]|[Iu NK]].
    - destruct (has_key_lookup _ _ (In_has_key _ _ _ Ix)) as [x0 L0]. exists x0. split; auto.
      destruct (has_dyn fs) eqn:HD.
      + unfold has_dyn in HD. destruct (field_of KDyn fs) as [spd|] eqn:FD; [|discriminate].
        pose proof (field_of_In' _ _ _ FD) as Id.
        destruct (fields_dyn _ _ _ _ _ FA KD CONST spd Id k x0 NC L0) as [y [Ly Fy]].
        rewrite Ly in Ez. subst z. split.
        * unfold kvs'. rewrite lookup_merge, L0, Ly. reflexivity.
        * intros spd' Id'. rewrite (In_field_of _ _ _ KD Id') in FD. inv FD. auto.
      + (* no dyn field: a non-const key would be unknown *)
        exfalso. unfold unknown_keys in UK. rewrite HD in UK. simpl in UK.
        assert (X : existsb (fun kv => negb (has_const (fst kv) fs)) kvs = true).
        { apply existsb_exists. exists (k, x). split; auto. simpl. rewrite NC. reflexivity. }
        congruence.
    - exfalso. destruct (fields_entries _ _ _ _ _ FA _ _ Iu) as [[sp [Is _]]|[_ [spd [x [_ [Ix _]]]]]].
      + rewrite (CONST _ _ Is) in NC. discriminate.
      + rewrite (In_has_key _ _ _ Ix) in NK. discriminate. }
  (* every entry of the merged dict under a const key carries that field's result *)
  assert (Cc : forall k z sp, In (k, z) kvs' -> In (KConst k, sp) fs -> lookup k ups = Some z).
  { intros k z sp I Is. destruct (A _ _ Is) as [x' [L [F _]]].
    destruct (In_merge _ _ _ _ I) as [[x [Ix Ez]]|[Iu NK]].
    - rewrite L in Ez. subst. auto.
    - destruct (fields_entries _ _ _ _ _ FA _ _ Iu) as [[sp2 [Is2 F2]]|[NC _]].
      + pose proof (In_field_of _ _ _ KD Is) as E1. pose proof (In_field_of _ _ _ KD Is2) as E2.
        rewrite E1 in E2. inv E2. rewrite F in F2. inv F2. auto.
      + rewrite (CONST _ _ Is) in NC. discriminate. }
  (* C: the merged dict has no unknown keys *)
  assert (UK' : unknown_keys fs kvs' = false).
  { unfold unknown_keys in *. destruct (has_dyn fs) eqn:HD; simpl in *; auto.
    destruct (existsb (fun kv => negb (has_const (fst kv) fs)) kvs') eqn:X; auto.
    apply existsb_exists in X as [[k z] [I N]]. simpl in N.
    destruct (has_const k fs) eqn:NC; [discriminate|].
    destruct (Bd _ _ I NC) as [x0 [L0 _]].
    exfalso. assert (Y : existsb (fun kv => negb (has_const (fst kv) fs)) kvs = true).
    { apply existsb_exists. exists (k, x0). split. eapply lookup_In; eauto. simpl. rewrite NC. reflexivity. }
    congruence. }
  rewrite UK'.
  (* D: the second run succeeds *)
  destruct (fields_apply_ok (apply p) fs kvs' fs) as [ups2 F2].
  { intros k sp Is. destruct (A _ _ Is) as [x' [L [F L']]]. rewrite L'.
    destruct (IH _ Is) as [I U]. exists x'. eapply round2; eauto. }
  { intros spd Id k z I NC. destruct (Bd _ _ I NC) as [x0 [L0 [L' Hd]]]. destruct (Hd _ Id) as [Lu Fz].
    destruct (IH _ Id) as [Ii U]. exists z.
    change (if is_missing z then dflt (mods_of spd) else z) with (field_input spd (Some z)).
    eapply round2 with (o := Some x0); eauto. }
  rewrite F2. simpl. f_equal. f_equal.
  (* E: and the merge is a fixed point *)
  apply merge_fixed_conv.
  - intros k y Iy. destruct (fields_entries _ _ _ _ _ F2 _ _ Iy) as [[sp [Is _]]|[_ [spd [x [_ [Ix _]]]]]].
    + destruct (A _ _ Is) as [x' [_ [_ L']]]. unfold has_key. rewrite L'. reflexivity.
    + eapply In_has_key; eauto.
  - intros k z Iz z' L2.
    destruct (fields_entries _ _ _ _ _ F2 _ _ (lookup_In _ _ _ L2)) as [[sp [Is Fz']]|[NC [spd [x [Id [Ix Fz']]]]]].
    + destruct (A _ _ Is) as [x' [L [F L']]]. rewrite L' in Fz'.
      destruct (IH _ Is) as [I U]. simpl in I, U. pose proof (round2 _ _ _ _ I U F) as R. rewrite R in Fz'. inv Fz'.
      pose proof (Cc _ _ _ Iz Is) as Lz. rewrite L in Lz. inv Lz. reflexivity.
    + destruct (Bd _ _ Iz NC) as [x0 [L0 [L' Hd]]]. destruct (Hd _ Id) as [Lu Fz].
      destruct (fields_dyn _ _ _ _ _ F2 KD CONST spd Id k z NC L') as [y [Ly Fy]].
      rewrite L2 in Ly. inv Ly.
      destruct (IH _ Id) as [I U]. simpl in I, U.
      pose proof (round2 p spd (Some x0) z I U Fz) as R. unfold field_input in R. rewrite R in Fy. inv Fy. reflexivity.
Qed.

Lemma no_union_top' : forall s, no_union s = true -> is_union' s = false.
Proof. destruct s; simpl; auto. Qed.

(* Idempotence for every spec without Union inside (schemas with distinct keys, which is what a
   Python dict of fields guarantees). *)
Theorem apply_idempotent : forall s, no_union s = true -> keys_ok s = true ->
  forall p v v', apply p s v = Ok v' -> apply p s v' = Ok v'.
Proof.
  induction s using spec_ind'; intros NU KO p; fold (idem p).
  - apply idem_leaf; intros v v' B; inv B; reflexivity.
  - apply idem_leaf; intros v v' B. eapply validate_num_same; eauto.
  - apply idem_leaf; intros v v' B. eapply validate_num_same; eauto.
  - apply idem_leaf; intros v v' B; inv B; reflexivity.
  - apply idem_leaf; intros v v' B. cbn [apply_body] in B. destruct (py_in v vs); inv B; reflexivity.
  - apply idem_list. intros v v'. apply IHs; auto.
  - apply idem_tuple. simpl in NU, KO. rewrite forallb_forall in NU, KO.
    rewrite Forall_forall in *. intros e He v v'. apply H; auto.
  - apply idem_leaf; intros v v' B; inv B; reflexivity.
  - simpl in NU, KO. apply andb_true_iff in KO as [KD KO]. rewrite forallb_forall in NU, KO.
    apply idem_dict; auto. rewrite Forall_forall in *. intros kf I. split.
    + intros v v'. apply H; auto.
    + apply no_union_top'. auto.
  - apply idem_leaf; intros v v' B; inv B; reflexivity.
  - simpl in NU. discriminate.
  - apply idem_leaf; intros v v' B; inv B; reflexivity.
Qed.

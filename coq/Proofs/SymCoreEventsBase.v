(* SymCoreEventsBase.v -- first facts about the traces of SymCoreEvents. *)
From PG Require Import Common.Tactics Model.SymCoreDefs Model.SymCoreOps Model.SymCoreEvents.
From Coq Require Import NArith.

Definition silent (t : trace) : Prop := Forall (fun e => match e with TW _ _ => True | TN _ _ _ => False end) t.
Lemma silent_events : forall t, silent t -> events_of t = [].
Proof.
  unfold events_of. induction t; simpl; intros; auto. inv H. destruct a; simpl; try contradiction. auto.
Qed.
Lemma silent_app : forall a b, silent a -> silent b -> silent (a ++ b).
Proof. unfold silent; intros; apply Forall_app; auto. Qed.
Lemma silent_nil : silent []. Proof. constructor. Qed.
Lemma silent_tw : forall st i t, silent t -> silent (TW st i :: t). Proof. intros; constructor; simpl; auto. Qed.
#[global] Hint Resolve silent_nil silent_app silent_tw : c09.

Section Off.
Variable q : quirks.
Variable sc : scope.
Hypothesis OFF : notify_on sc = false.

Lemma ntf_off : forall st ups, ntf sc st ups = [].
Proof. intros. unfold ntf. destruct ups; auto. rewrite OFF. auto. Qed.
Lemma wtrace_silent : forall st st' cp ky rv p, silent (fst (wtrace st st' cp ky rv p)).
Proof. intros. unfold wtrace. destruct p; simpl; auto with c09. Qed.
Lemma write1_silent : forall pr st ps ky rv, silent (write1_tr pr sc st ps ky rv).
Proof.
  intros. unfold write1_tr. destruct (pr sc st ps ky rv) as [st' p]. destruct p; auto with c09.
  simpl. rewrite ntf_off. simpl. auto with c09.
Qed.
Lemma ldel_silent : forall st ps idx, silent (ldel_tr sc st ps idx).
Proof.
  intros. unfold ldel_tr. destruct (nth_error (cur_items st ps) idx) as [[k old]|]; auto with c09.
  rewrite ntf_off. auto with c09.
Qed.
Lemma extend_tr_silent : forall rvs st ps, silent (fst (fst (fst (extend_tr q sc st ps rvs)))).
Proof.
  induction rvs; simpl; intros; auto with c09.
  destruct (lprim q sc st ps (KI (cur_len st ps)) a) as [st' p] eqn:E.
  assert (W := wtrace_silent st st' ps (KI (cur_len st ps)) a).
  specialize (IHrvs st' ps). destruct (extend_tr q sc st' ps rvs) as [[[t u] stf] ok]. simpl in IHrvs.
  destruct p; simpl; auto with c09.
Qed.
Lemma extend_core_silent : forall rvs st ps, silent (extend_core_tr q sc st ps rvs).
Proof.
  intros. unfold extend_core_tr. assert (H := extend_tr_silent rvs st ps).
  destruct (extend_tr q sc st ps rvs) as [[[t u] stf] ok]. simpl in H. destruct ok; auto.
  rewrite ntf_off. rewrite app_nil_r. auto.
Qed.
Lemma rebind_one_tr_silent : forall st tp path rv, silent (fst (rebind_one_tr q sc st tp path rv)).
Proof.
  intros. unfold rebind_one_tr.
  repeat (first [ apply silent_nil | apply wtrace_silent | destr_match; simpl ]).
Qed.
Lemma rebind_tr_silent : forall pvs st tp, silent (fst (fst (fst (rebind_tr q sc st tp pvs)))).
Proof.
  induction pvs as [|[p rv] r IH]; simpl; intros; auto with c09.
  destruct (rebind_one q sc st tp p rv) as [[st' pr] c]. assert (W := rebind_one_tr_silent st tp p rv).
  specialize (IH st' tp). destruct (rebind_tr q sc st' tp r) as [[[t u] stf] ok]. simpl in IH.
  destruct (rebind_one_tr q sc st tp p rv) as [tw us]. simpl in W.
  destruct pr; simpl; auto with c09.
Qed.
End Off.

(* rebind_core_tr is silent whenever its [notify] argument is false (Dict.update, skip_notification=True, disabled scope) *)
Lemma rebind_core_tr_silent : forall q sc st tp tk pvs stop, silent (rebind_core_tr q sc st tp tk pvs false stop).
Proof.
  intros. unfold rebind_core_tr.
  set (ordered := match tk with KList => sort_desc pvs | _ => pvs end).
  assert (H : forall sc0, silent (fst (fst (fst (rebind_tr q sc0 st tp ordered))))).
  { intros sc0. clear. revert st. induction ordered as [|[p rv] r IH]; simpl; intros; auto with c09.
    destruct (rebind_one q sc0 st tp p rv) as [[st' pr] c].
    assert (W : silent (fst (rebind_one_tr q sc0 st tp p rv))).
    { unfold rebind_one_tr.
      repeat (first [ apply silent_nil | (unfold wtrace; destr_match; simpl; auto with c09; fail) | destr_match; simpl ]). }
    specialize (IH st'). destruct (rebind_tr q sc0 st' tp r) as [[[t u] stf] ok]. simpl in IH.
    destruct (rebind_one_tr q sc0 st tp p rv) as [tw us]. simpl in W. destruct pr; simpl; auto with c09. }
  specialize (H sc). destruct (rebind_tr q sc st tp ordered) as [[[t u] stf] ok]. simpl in H.
  rewrite andb_false_r. auto.
Qed.

Lemma exec_trace_silent : forall q sc st ps tid tk tpth tfl its o,
  notify_on sc = false -> silent (exec_trace q sc st ps tid tk tpth tfl its o).
Proof.
  intros q sc st ps tid tk tpth tfl its o OFF.
  unfold exec_trace.
  destruct o; repeat (first [ apply silent_nil | apply write1_silent; assumption | apply ldel_silent; assumption
                               | apply extend_core_silent; assumption | apply rebind_core_tr_silent | destr_if | destr_match ]); auto with c09.
  all: try (unfold clear_list_tr, reorder_tr; simpl; repeat destr_match; rewrite ?ntf_off by assumption; auto with c09).
  all: try (rewrite OFF; apply rebind_core_tr_silent).
  all: try congruence.
  all: try (destruct (new_list_from q st its) as [c st1]; apply extend_core_silent; assumption).
  all: try (destruct (new_list_from q st []) as [c st1]; apply extend_tr_silent; assumption).
Qed.

Theorem silent_scope : forall q st o, notify_on (o_scope o) = false -> events_of (step_trace q st o) = [].
Proof.
  intros. apply silent_events. unfold step_trace.
  repeat destr_match; auto with c09. apply exec_trace_silent; auto.
Qed.

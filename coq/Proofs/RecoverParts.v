(* RecoverParts.v — recover() may be called several times with consecutive parts of the history
   (dna_generator.py: "could be called multiple times if there are multiple source of history"). *)
From PG Require Import Common.Tactics Model.Recover Proofs.RecoverBase Proofs.RecoverEvo Proofs.RecoverDedup Proofs.RecoverMain.

Definition parts_rec (g : gen) : Prop := forall h1 h2,
  pview (obs g (recover g (recover g (init g) h1) h2)) = pview (obs g (recover g (init g) (h1 ++ h2))).

Lemma sweeping_parts : forall m, parts_rec (Sweeping m).
Proof. intros m h1 h2. simpl. unfold sw_recover. rewrite fold_left_app. reflexivity. Qed.

Lemma random_parts : forall sd draw, parts_rec (RandomGen sd draw).
Proof. intros sd draw h1 h2. simpl. unfold rd_recover. rewrite fold_left_app. reflexivity. Qed.

Section DedupParts.
  Variable g : gen.
  Variable m : Z.
  Variable hm auto maxdup maxatt : nat.
  Notation D := (Deduping g m hm auto maxdup maxatt).

  Lemma dd_recover_from : forall h s,
    let r := dd_recover g s h in
    dd_np g r = dd_np g s + length h /\ dd_nf g r = dd_nf g s + nrew h /\
    dd_cache g r = fold_left (dd_replay_cache g) h (dd_cache g s) /\ dd_in g r = recover g (dd_in g s) (dd_expand h).
  Proof.
    intros h s r. subst r. unfold dd_recover.
    destruct (dd_fold_spec g h (mkDd g (dd_np g s) (dd_nf g s) (recover g (dd_in g s) (dd_expand h)) (dd_cache g s))) as (A & B & C & E).
    simpl in *. auto.
  Qed.

  Lemma dedup_parts : parts_rec g -> parts_rec D.
  Proof.
    intros Hg h1 h2.
    destruct (dd_recover_from h1 (init D)) as (A1 & B1 & C1 & E1).
    destruct (dd_recover_from h2 (dd_recover g (init D) h1)) as (A2 & B2 & C2 & E2).
    destruct (dd_recover_from (h1 ++ h2) (init D)) as (A3 & B3 & C3 & E3).
    change (recover D) with (dd_recover g). rewrite !dd_obs_eq.
    rewrite A2, B2, C2, E2, A3, B3, C3, E3, A1, B1, C1, E1. simpl dd_np. simpl dd_nf. simpl dd_cache. simpl dd_in.
    rewrite app_length, nrew_app, fold_left_app, !Nat.add_assoc, expand_app.
    destruct (needs_fb g); [|reflexivity].
    simpl. do 2 f_equal. apply Hg.
  Qed.
End DedupParts.

Section EvoParts.
  Variable gi : gen.
  Variable size : option nat.
  Variable G : Type.
  Variable g0 : G.
  Variable repro : list dna -> G -> Z -> nat -> list Z * G.
  Variable updf : list dna -> G -> nat -> list dna * G.
  Variable gobs : G -> list Z.
  Variable V : Type.
  Variable vis : G -> V.
  Hypothesis Hupd : forall pop g1 g2 step, vis g1 = vis g2 ->
    fst (updf pop g1 step) = fst (updf pop g2 step) /\ vis (snd (updf pop g1 step)) = vis (snd (updf pop g2 step)).
  Notation E := (Evolution gi size G g0 repro updf gobs).
  Notation replay := (ev_replay gi size G updf).
  Notation rel := (erel gi G V vis).

  Lemma replay_same : forall acc acc' e, rel (fst acc) (fst acc') -> rel (fst (replay acc e)) (fst (replay acc' e)).
  Proof.
    intros [s ip] [t jp] [d ro] H. simpl in H. unfold ev_replay. simpl.
    destruct ro as [r|].
    - destruct (dfsn d).
      + simpl. apply raise_erel, (readd_erel gi G updf V vis Hupd), bump_erel, H.
      + destruct (feedback_erel gi size G updf V vis Hupd (ev_bump_np gi G s) (ev_bump_np gi G t) d r
                    (bump_erel _ _ _ _ _ _ H)) as [P Q].
        destruct (ev_feedback gi size G updf (ev_bump_np gi G s) d r) as [d1 s1].
        destruct (ev_feedback gi size G updf (ev_bump_np gi G t) d r) as [d2 s2].
        simpl in *. apply raise_erel. assumption.
    - simpl. apply raise_erel, bump_erel, H.
  Qed.

  Lemma fold_same : forall h acc acc', rel (fst acc) (fst acc') ->
    rel (fst (fold_left replay h acc)) (fst (fold_left replay h acc')).
  Proof. induction h; intros; simpl; auto. apply IHh, replay_same, H. Qed.

  Lemma evolution_parts : parts_rec E.
  Proof.
    intros h1 h2.
    assert (rel (recover E (recover E (init E) h1) h2) (recover E (init E) (h1 ++ h2))) as R.
    { simpl. unfold ev_recover. rewrite fold_left_app.
      destruct (fold_left replay h1 _) as [s1 ip1] eqn:F1.
      set (S1 := mkEv gi G _ _ _ _ _ _ _ _).
      assert (rel S1 s1) as R1 by (subst S1; unfold erel; simpl; repeat split).
      pose proof (fold_same h2 (S1, []) (s1, ip1) R1) as R2.
      destruct (fold_left replay h2 (S1, [])) as [a ipa]. destruct (fold_left replay h2 (s1, ip1)) as [b ipb].
      simpl in R2. unfold erel in *. simpl. tauto. }
    destruct R as (A & B & C & _). simpl in *. rewrite A, B, C. reflexivity.
  Qed.
End EvoParts.

Theorem recover_in_parts : forall m a h1 h2, recoverable a = true ->
  let g := denote m a in
  pview (obs g (recover g (recover g (init g) h1) h2)) = pview (obs g (recover g (init g) (h1 ++ h2))).
Proof.
  intros m a h1 h2 Hr g.
  assert (forall b, is_dedup b = false -> parts_rec (denote m b)) as Hb.
  { intros b Hd. destruct b; try discriminate; simpl.
    - apply sweeping_parts.
    - apply random_parts.
    - destruct u; try (apply evolution_parts with (V := unit) (vis := fun g => g); intros pop g1 g2 step E; subst; auto).
      apply evolution_parts with (V := list dna) (vis := fst).
      intros pop g1 g2 step E. unfold nsga2_updf. rewrite E. destruct (n <=? length pop); simpl; auto. }
  destruct a as [| sd t | a' hm au md ma | i sz u t]; try (apply Hb; reflexivity).
  simpl in Hr. apply negb_true_iff in Hr. apply (dedup_parts (denote m a') m hm au md ma (Hb a' Hr)).
Qed.

Theorem recover_in_parts_run : forall m a rw evs h1 h2, recoverable a = true ->
  let g := denote m a in
  let r := run_events g rw evs in
  r_ok g r = true ->
  h1 ++ h2 = r_hist g r ->
  pview (obs g (recover g (recover g (init g) h1) h2)) = pview (obs g (r_st g r)).
Proof.
  intros m a rw evs h1 h2 Hr g r Hok Hh.
  pose proof (recover_in_parts m a h1 h2 Hr) as P. fold g in P. cbv zeta in P.
  rewrite P, Hh. exact (recover_observable m a rw evs Hr Hok).
Qed.

(* C17, non-interference: entering (or leaving) a manager changes only its own key, so every getter other than
   the manager's own keeps its value.  Rests on the keys regenerated from the source being pairwise distinct. *)
From PG Require Import Common.Tactics Common.Tr Model.ScopesBase Gen.ScopeDefs Model.Scopes
  Proofs.ScopesStore Proofs.ScopesInstance Proofs.ScopesRestore Proofs.ScopesEffective.

(* the one slot a manager writes: in the thread store, or in the process-wide store *)
Definition cm_lkey (c : cm) : option tlkey :=
  match c with
  | CFlag i => option_map fst (nth_error flag_scopes i)
  | CPerm => Some k_permission | CStrFmt => Some k_str_format | CReprFmt => Some k_repr_format
  | CViewOpts => Some k_view_options | CCtx => Some k_context | CContextual => Some k_contextual
  | CDetour | CApplyWrappers => Some k_detour | CTimeit => Some k_timing | CDynEval => Some k_dynamic_evaluate
  | CDynStackL => Some k_dynstack
  | CDynEvalGlobal | CLoadTypes | CDynGuard | CDynStackG => None
  end.
Definition cm_gkey (c : cm) : option tlkey :=
  match c with CDynEvalGlobal => Some g_dynamic_evaluate | CLoadTypes => Some g_ondemand_types | CDynStackG => Some g_dynstack | _ => None end.

(* the slots a getter reads *)
Definition getter_lkey (g : getter) : option tlkey :=
  match g with
  | GFlag i => option_map fst (nth_error flag_getters i)
  | GPerm => Some k_permission | GStrFmt => Some k_str_format | GReprFmt => Some k_repr_format
  | GViewOpts => Some k_view_options | GCtx => Some k_context | GContextual => Some k_contextual
  | GDetour => Some k_detour | GTimeit => Some k_timing | GDynEval => Some k_dynamic_evaluate
  | GDynStackL => Some k_dynstack
  | GLoadTypes | GDynStackG => None
  end.
Definition getter_gkey (g : getter) : option tlkey :=
  match g with GDynEval => Some g_dynamic_evaluate | GLoadTypes => Some g_ondemand_types | GDynStackG => Some g_dynstack | _ => None end.

(* --- frame: a write to one slot leaves the others alone --------------------------------------------------- *)
Lemma get_tl_set_other : forall k k' v s, k <> k' -> st_get k (tl_set k' v s) = st_get k s.
Proof. intros. apply st_get_set_other. assumption. Qed.
Lemma get_tl_del_other : forall k k' s, k <> k' -> st_get k (tl_del k' s) = st_get k s.
Proof. intros. apply st_get_set_other. assumption. Qed.
Lemma get_tl_push_other : forall k k' v s, k <> k' -> st_get k (tl_push k' v s) = st_get k s.
Proof.
  intros. unfold tl_push. destruct v; auto. destruct (st_get k' s) as [[a|dd|l]|]; auto; apply st_get_set_other; assumption.
Qed.
Lemma get_tl_pop_other : forall k k' s, k <> k' -> st_get k (tl_pop k' s) = st_get k s.
Proof. intros. unfold tl_pop. destruct (st_get k' s) as [[a|dd|[|x l]]|]; auto; apply st_get_set_other; assumption. Qed.

Local Ltac frame_tac :=
  repeat first
    [ reflexivity
    | rewrite get_tl_set_other by congruence
    | rewrite get_tl_del_other by congruence
    | rewrite get_tl_push_other by congruence
    | rewrite get_tl_pop_other by congruence
    | match goal with |- context [if ?b then _ else _] => destruct b end ].

Lemma enter_frame : forall c a l g l1 g1 sv, cm_enter c a (l, g) = Some ((l1, g1), sv) ->
  (forall k, cm_lkey c <> Some k -> st_get k l1 = st_get k l) /\
  (forall k, cm_gkey c <> Some k -> st_get k g1 = st_get k g).
Proof.
  intros c a l g l1 g1 sv H.
  destruct c; cbn [cm_enter cm_lkey cm_gkey] in *;
    try (apply lift_enter_some in H; destruct H as [l2 [E X]]; cbn [fst snd] in *; inversion X; subst; clear X; split; [|reflexivity]; intros k N).
  - destruct (nth_error flag_scopes i) as [[k0 init]|] eqn:F; cbn [option_map fst] in *.
    + apply lift_enter_some in H; destruct H as [l2 [E X]]; cbn [fst snd] in *; inversion X; subst; clear X; split; [|reflexivity]; intros k N.
      unfold thread_local_value_scope_enter in E. apply some_pair_inj in E. destruct E as [<- _]. frame_tac.
    + apply some_pair_inj in H. destruct H as [H _]. inversion H; subst. split; reflexivity.
  - unfold permission_enter, k_permission in *. revert E. frame_tac; intros E; apply some_pair_inj in E; destruct E as [<- _]; frame_tac.
  - unfold thread_local_arg_scope_enter in E. apply some_pair_inj in E. destruct E as [<- _]. frame_tac.
  - unfold thread_local_arg_scope_enter in E. apply some_pair_inj in E. destruct E as [<- _]. frame_tac.
  - unfold view_options_enter, k_view_options in *. apply some_pair_inj in E. destruct E as [<- _]. frame_tac.
  - unfold context_enter, k_context in *. apply some_pair_inj in E. destruct E as [<- _]. frame_tac.
  - unfold contextual_scope_enter in E. apply some_pair_inj in E. destruct E as [<- _]. frame_tac.
  - unfold detour_scope_enter in E. apply some_pair_inj in E. destruct E as [<- _]. frame_tac.
  - unfold detour_scope_enter in E. apply some_pair_inj in E. destruct E as [<- _]. frame_tac.
  - unfold timeit_enter, k_timing in *. revert E. frame_tac; intros E; apply some_pair_inj in E; destruct E as [<- _]; frame_tac.
  - rewrite dyn_enter_thread in H. destruct (is_none (tl_get g_dynamic_evaluate v_none g)); try discriminate.
    apply some_pair_inj in H. destruct H as [H _]. inversion H; subst. split; [|reflexivity]. intros k N. frame_tac.
  - rewrite dyn_enter_global in H. apply some_pair_inj in H. destruct H as [H _]. inversion H; subst. split; [reflexivity|]. intros k N. frame_tac.
  - destruct (loadtypes_enter_cases a l g) as [[d [E _]]|[E _]]; rewrite E in H; apply some_pair_inj in H; destruct H as [H _];
      inversion H; subst; split; try reflexivity. intros k N. frame_tac.
  - unfold dynguard_enter in H. cbn [fst snd] in H.
    repeat match type of H with context [if ?b then _ else _] => destruct b end; try discriminate;
      apply some_pair_inj in H; destruct H as [H _]; inversion H; subst; split; reflexivity.
  - destruct a as [x|d|x]; try discriminate. apply some_pair_inj in H. destruct H as [H _]. inversion H; subst. split; [|reflexivity]. intros k N. frame_tac.
  - destruct a as [x|d|x]; try discriminate. apply some_pair_inj in H. destruct H as [H _]. inversion H; subst. split; [reflexivity|]. intros k N. frame_tac.
Qed.

(* a getter reads only its own slots *)
Lemma observe_frame : forall q l g l1 g1,
  (forall k, getter_lkey q = Some k -> st_get k l1 = st_get k l) ->
  (forall k, getter_gkey q = Some k -> st_get k g1 = st_get k g) ->
  observe q (l1, g1) = observe q (l, g).
Proof.
  intros q l g l1 g1 HL HG. destruct q; unfold observe; cbn [fst snd getter_lkey getter_gkey] in *;
    try (destruct (nth_error flag_getters i) as [[k d]|]; [|reflexivity]);
    unfold get_permission, thread_local_kwargs, get_context, get_dynamic_evaluate_fn, current_mappings, stack_read, tl_get, tl_peek;
    repeat match goal with
           | |- context [st_get ?k l1] => rewrite (HL k eq_refl)
           | |- context [st_get ?k g1] => rewrite (HG k eq_refl)
           end; reflexivity.
Qed.

(* distinct positions of a duplicate-free list hold distinct elements *)
Lemma nodup_nat_nth : forall l i j a b, nodup_nat l = true -> nth_error l i = Some a -> nth_error l j = Some b -> i <> j -> a <> b.
Proof.
  induction l as [|x r IH]; intros i j a b ND Hi Hj N; [destruct i; discriminate|].
  simpl in ND. apply andb_prop in ND. destruct ND as [N1 N2]. apply negb_true_iff in N1.
  assert (M : forall n y, nth_error r n = Some y -> x <> y).
  { intros n y Hn ->. assert (existsb (Nat.eqb y) r = true); [|congruence].
    apply existsb_exists. exists y. split; [eapply nth_error_In; eauto | apply Nat.eqb_refl]. }
  destruct i, j; simpl in *; try congruence.
  - inversion Hi; subst. eapply M; eauto.
  - inversion Hj; subst. intros E. symmetry in E. revert E. eapply M; eauto.
  - eapply IH; eauto.
Qed.

Lemma flag_scope_key_in_manager_keys : forall i k init, nth_error flag_scopes i = Some (k, init) -> nth_error manager_keys i = Some k.
Proof.
  intros i k init H. unfold manager_keys. rewrite nth_error_app1.
  - rewrite nth_error_map, H. reflexivity.
  - rewrite map_length. apply nth_error_Some. congruence.
Qed.

Lemma flag_key_not_fixed : forall i k init k', nth_error flag_scopes i = Some (k, init) ->
  In k' [k_permission; k_str_format; k_repr_format; k_view_options; k_context; k_contextual; k_detour; k_timing; k_dynamic_evaluate; k_dynstack] -> k <> k'.
Proof.
  intros i k init k' H I.
  assert (exists j, nth_error manager_keys j = Some k' /\ length flag_scopes <= j) as [j [Hj L]].
  { apply In_nth_error in I. destruct I as [n Hn]. exists (length flag_scopes + n). split; [|lia].
    unfold manager_keys. rewrite nth_error_app2 by (rewrite map_length; lia). rewrite map_length.
    replace (length flag_scopes + n - length flag_scopes) with n by lia. assumption. }
  apply (nodup_nat_nth manager_keys i j k k' generated_manager_keys_distinct).
  - eapply flag_scope_key_in_manager_keys; eauto.
  - assumption.
  - assert (i < length flag_scopes) by (apply nth_error_Some; congruence). lia.
Qed.

Lemma flag_getter_key_is_scope_key : forall i k d, nth_error flag_getters i = Some (k, d) ->
  exists init, nth_error flag_scopes i = Some (k, init).
Proof.
  intros i k d H.
  assert (L : i < length flag_scopes).
  { pose proof generated_flags_aligned as A. unfold flags_aligned in A. apply andb_prop in A. destruct A as [A _].
    apply Nat.eqb_eq in A. rewrite A. apply nth_error_Some. congruence. }
  destruct (nth_error flag_scopes i) as [[k3 i3]|] eqn:F3; [|apply nth_error_None in F3; lia].
  destruct (flag_aligned _ _ _ F3) as [d' [G _]]. rewrite G in H. inversion H; subst. eauto.
Qed.

Definition fixed_keys : list tlkey :=
  [k_permission; k_str_format; k_repr_format; k_view_options; k_context; k_contextual; k_detour; k_timing; k_dynamic_evaluate; k_dynstack].

Lemma flag_flag_same_index : forall i j k x y,
  nth_error flag_scopes i = Some (k, x) -> nth_error flag_getters j = Some (k, y) -> i = j.
Proof.
  intros i j k x y Hi Hj. destruct (flag_getter_key_is_scope_key _ _ _ Hj) as [z Hz].
  destruct (Nat.eq_dec i j) as [|N]; auto. exfalso.
  apply (nodup_nat_nth manager_keys i j k k generated_manager_keys_distinct); eauto using flag_scope_key_in_manager_keys.
Qed.
Lemma flag_getter_not_fixed : forall j k y, nth_error flag_getters j = Some (k, y) -> In k fixed_keys -> False.
Proof.
  intros j k y Hj I. destruct (flag_getter_key_is_scope_key _ _ _ Hj) as [z Hz].
  exact (flag_key_not_fixed j k z k Hz I eq_refl).
Qed.
Lemma flag_scope_not_fixed : forall i k x, nth_error flag_scopes i = Some (k, x) -> In k fixed_keys -> False.
Proof. intros i k x Hi I. exact (flag_key_not_fixed i k x k Hi I eq_refl). Qed.

Lemma keys_disjoint_local : forall c q k, q <> getter_of c -> cm_lkey c = Some k -> getter_lkey q = Some k -> False.
Proof.
  intros c q k N C Q.
  destruct c; cbn [cm_lkey getter_of] in *;
    try (destruct (nth_error flag_scopes i) as [[k1 x1]|] eqn:F1; cbn [option_map fst] in C; [|discriminate]);
    destruct q; cbn [getter_lkey] in *;
    try (destruct (nth_error flag_getters i0) as [[k2 y2]|] eqn:F2; cbn [option_map fst] in Q; [|discriminate]);
    try (destruct (nth_error flag_getters i) as [[k2 y2]|] eqn:F2; cbn [option_map fst] in Q; [|discriminate]);
    try discriminate; try congruence;
    inversion C; inversion Q; subst;
    try (match goal with H1 : _ = _ |- _ => vm_compute in H1; discriminate H1 end; fail);
    try (eapply flag_scope_not_fixed; [eassumption | simpl; tauto]; fail);
    try (eapply flag_getter_not_fixed; [eassumption | simpl; tauto]; fail).
  (* two flag managers *)
  apply N. f_equal. symmetry. eapply flag_flag_same_index; eauto.
Qed.

(* NON-INTERFERENCE: entering c changes no getter but c's own *)
Theorem enter_no_interference : forall c a s s1 sv q,
  cm_enter c a s = Some (s1, sv) -> q <> getter_of c -> observe q s1 = observe q s.
Proof.
  intros c a [l g] [l1 g1] sv q H N.
  destruct (enter_frame c a l g l1 g1 sv H) as [FL FG].
  apply observe_frame.
  - intros k Q. apply FL. intros C. eapply keys_disjoint_local; eauto.
  - intros k Q. apply FG. intros C.
    destruct c, q; cbn [cm_gkey getter_gkey getter_of] in *; try discriminate; try congruence;
      inversion C; inversion Q; subst; match goal with H1 : _ = _ |- _ => vm_compute in H1; discriminate H1 end.
Qed.

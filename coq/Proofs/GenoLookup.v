(* GenoLookup.v — to_dict for every key / value / multi-choice-key style as a fold over the decision nodes of the
   bound DNA; DNA.__getitem__ by id / decision point returns the decision made at that decision point (None when
   inactive); dictionary round trip for the remaining unambiguous key styles. *)
From PG Require Import Common.Tactics Model.Geno Model.GenoViews Proofs.GenoBasics Proofs.GenoValid Proofs.GenoNext
  Proofs.GenoConcrete Proofs.GenoViewsProofs Proofs.GenoDict.

(* ---- the decision nodes of a valid decision, in the order to_dict visits them, with their concrete sub-trees --- *)
Fixpoint nodes (s : dspec) (a : addr) (sd : sdna) {struct s} : list (addr * dna) :=
  match s, sd with Space es, SSpace ds => concat (mapi2 (fun i e x => nodes_p e (a ++ [i]) x) 0 es ds) end
with nodes_p (p : dpoint) (a : addr) (x : pdna) {struct p} : list (addr * dna) :=
  match p, x with
  | Choices k cands _ _ _ _, PChoices cs =>
      let single := fun (a' : addr) (cs0 : nat * sdna) =>
        (a', mk (VInt (Z.of_nat (fst cs0))) [normalize (snd cs0)])
        :: with_nth (fun sc => nodes sc (a' ++ [fst cs0]) (snd cs0)) [] cands (fst cs0) in
      if k =? 1 then match cs with [cs0] => single a cs0 | _ => [] end
      else concat (mapi (fun i cs0 => single (a ++ [i]) cs0) 0 cs)
  | FloatP _ _ _, PFloat f => [(a, D (VFlt f) [])]
  | CustomP _, PCustom s => [(a, D (VStr s) [])]
  | _, _ => []
  end.

(* what to_dict does with one decision node (the body of _dump_node) *)
Definition putn (infos : list dpinfo) (kt : key_type) (vt : value_type) (m : mc_key) (d : dict) (e : addr * dna) : dict :=
  match info_at infos (fst e) with
  | None => d
  | Some i =>
    let k := key_of kt (i_id i) (i_name i) (fst e) in
    match i_kind i with
    | PKChoice n lits =>
        match Geno.dvalue (snd e) with
        | VInt z =>
            let x := format_candidate vt n lits (Z.to_nat z) (snd e) in
            match i_sub i with
            | Some (_, pa, pid) =>
                let d' := if use_parent m then dput d (key_of kt pid (i_name i) pa) x else d in
                if needs_subchoice_key kt m (i_name i) then dput d' k x else d'
            | None => dput d k x
            end
        | _ => d
        end
    | _ => dput d k (match vt with VT_dna => LfDna (snd e) | _ => LfV (Geno.dvalue (snd e)) end)
    end
  end.
Definition putns infos kt vt m (es : list (addr * dna)) (d : dict) : dict := fold_left (putn infos kt vt m) es d.
Lemma putns_app : forall infos kt vt m l1 l2 d, putns infos kt vt m (l1 ++ l2) d = putns infos kt vt m l2 (putns infos kt vt m l1 d).
Proof. intros. unfold putns. apply fold_left_app. Qed.

Lemma putns_cons : forall infos kt vt m e l d, putns infos kt vt m (e :: l) d = putns infos kt vt m l (putn infos kt vt m d e).
Proof. reflexivity. Qed.

Lemma fold_bind_all_n : forall A X (f : nat -> A -> dna -> option bdna) (nrm : X -> dna)
  (g : nat -> A -> X -> list (addr * dna)) (dumpf : bdna -> dict -> dict) (putsf : list (addr * dna) -> dict -> dict),
  (forall l1 l2 d, putsf (l1 ++ l2) d = putsf l2 (putsf l1 d)) -> (forall d, putsf [] d = d) ->
  forall es xs i bs d0, bind_all f i es (map nrm xs) = Some bs ->
  (forall j e x b d, nth_error es j = Some e -> nth_error xs j = Some x -> f (i + j) e (nrm x) = Some b ->
                     dumpf b d = putsf (g (i + j) e x) d) ->
  fold_left (fun acc c => dumpf c acc) bs d0 = putsf (concat (mapi2 g i es xs)) d0.
Proof.
  intros A X f nrm g dumpf putsf Happ Hnil. induction es as [|e es IH]; intros [|x xs] i bs d0 Hb H; simpl in Hb; try discriminate.
  - inv Hb. simpl. rewrite Hnil. reflexivity.
  - destruct (f i e (nrm x)) as [b|] eqn:E; [|discriminate].
    destruct (bind_all f (S i) es (map nrm xs)) as [bs'|] eqn:E2; [|discriminate]. inv Hb.
    simpl. rewrite Happ. pose proof (H 0 e x b d0 eq_refl eq_refl) as H0. rewrite Nat.add_0_r in H0.
    rewrite <- (H0 E). apply IH; auto.
    intros j e' x' b' d He' Hx' Hf. replace (S i + j) with (i + S j) in * by lia. apply (H (S j) e' x' b' d); auto.
Qed.

Section DumpGen.
  Variables (q : quirks) (infos : list dpinfo) (kt : key_type) (vt : value_type) (m : mc_key).
  Notation dumpf := (dump infos kt vt m).
  Notation putsf := (putns infos kt vt m).

  Lemma dumpn_both :
    (forall s, wf s = true -> forall sd a bs pid d0, valid s sd = true ->
       bind_kids q s a (unwrap (normalize sd)) = Some bs -> agree infos (dps s a pid) a ->
       fold_left (fun acc c => dumpf c acc) bs d0 = putsf (nodes s a sd) d0) /\
    (forall p, wf_p p = true -> forall x a b pid d0, valid_p p x = true ->
       bind_p q p a (norm_p x) = Some b -> agree infos (dps_p p a pid) a ->
       dumpf b d0 = putsf (nodes_p p a x) d0).
  Proof.
    apply dspec_dpoint_ind.
    - intros es IH Hwf [ds] a bs pid d0 Hv Hb Hag. simpl in Hwf. simpl in Hv. apply forallb2_Forall2 in Hv.
      rewrite (shape_s es ds Hwf Hv) in Hb. rewrite bind_kids_unfold in Hb.
      pose proof (Forall2_len _ _ _ _ _ Hv) as Hl.
      assert (Hel : forall j e, nth_error es j = Some e -> agree infos (dps_p e (a ++ [j]) pid) (a ++ [j])).
      { intros j e He. eapply agree_trans; [exact Hag | exists [j]; reflexivity |].
        simpl. apply (agree_mapi _ (fun i e0 => dps_p e0 (a ++ [i]) pid) a es 0 j e); auto.
        intros i e0 He0 x Hx. simpl in *. eapply (proj2 dps_prefix_both); eauto. }
      destruct es as [|e [|e2 es]]; destruct ds as [|x [|y r]]; simpl in Hl; try lia.
      + simpl in Hb. inv Hb. reflexivity.
      + inversion Hv as [|? ? ? ? He _]; subst. simpl in Hwf. rewrite andb_true_r in Hwf.
        apply Forall_cons_iff in IH as [IHe _].
        change (nodes (Space [e]) a (SSpace [x])) with (nodes_p e (a ++ [0]) x ++ []). rewrite app_nil_r.
        destruct (unwrap_multi e x Hwf He) as [[Em En]|[Em En]]; rewrite Em in Hb.
        * rewrite En in Hb. destruct (bind_p q e (a ++ [0]) (norm_p x)) as [b|] eqn:Eb; [|discriminate]. inv Hb.
          rewrite <- (IHe Hwf x (a ++ [0]) b pid d0 He Eb (Hel 0 e eq_refl)).
          destruct e as [k cands dist srt [loc name] lits| |]; try discriminate. unfold is_multi in Em. apply negb_true_iff in Em.
          rewrite bind_p_choices_unfold, Em in Eb.
          destruct (negb (is_none (Geno.dvalue (norm_p x)))); [discriminate|].
          destruct (bind_all _ 0 (seq 0 k) (dkids (norm_p x))) as [ks|]; [|discriminate].
          cbv zeta in Eb. destruct (_ && _); [|discriminate]. inv Eb.
          rewrite dump_unfold. rewrite (multi_addr_none infos k cands dist srt loc name lits (a ++ [0]) pid Em (Hel 0 _ eq_refl)).
          reflexivity.
        * rewrite En in Hb. destruct (bind_p q e (a ++ [0]) (norm_p x)) as [b|] eqn:Eb; [|discriminate]. inv Hb.
          simpl. apply (IHe Hwf x (a ++ [0]) b pid d0 He Eb (Hel 0 e eq_refl)).
      + cbn [unwrap] in Hb.
        apply (fold_bind_all_n _ _ (fun i e0 d => bind_p q e0 (a ++ [i]) d) norm_p (fun i e0 x0 => nodes_p e0 (a ++ [i]) x0) dumpf putsf
                 (putns_app infos kt vt m) (fun d => eq_refl) (e :: e2 :: es) (x :: y :: r) 0 bs d0 Hb).
        intros j e' x' b d He' Hx' Hf. simpl in Hf.
        rewrite Forall_forall in IH. rewrite forallb_forall in Hwf.
        apply (IH e' (nth_error_In _ _ He') (Hwf e' (nth_error_In _ _ He')) x' (a ++ [j]) b pid d); auto.
        clear - Hv He' Hx'. revert j He' Hx'. induction Hv; intros [|j] He' Hx'; simpl in *; try discriminate.
        inv He'; inv Hx'; auto. eapply IHHv; eauto.
    - intros k cands dist srt [loc name] lits IH Hwf x a b pid d0 Hv Hb Hag.
      pose proof (shape_p _ x Hwf Hv) as Hs. cbv beta iota in Hs.
      pose proof Hwf as Hwf0. apply wf_p_choices in Hwf as (Hk & Hn & Hdk & Hwc).
      rewrite dps_p_choices_unfold in Hag.
      assert (Hsingle : forall a' id' sub c sb b' d,
                c < length cands -> with_nth (fun s => valid s sb) false cands c = true ->
                single_bind q cands a' (D (vint c) (unwrap (normalize sb))) = Some b' ->
                agree infos (single_block cands name lits a' id' sub) a' ->
                dumpf b' d = putsf ((a', mk (VInt (Z.of_nat c)) [normalize sb]) :: with_nth (fun sc => nodes sc (a' ++ [c]) sb) [] cands c) d).
      { intros a' id' sub c sb b' d Hc Hvs Hsb Ha'. unfold single_bind in Hsb. cbn [Geno.dvalue dkids] in Hsb.
        rewrite index_of_vint in Hsb by auto. rewrite with_nth_nth_error in *.
        destruct (nth_error cands c) as [sc|] eqn:E; [|discriminate].
        destruct (bind_kids q sc (a' ++ [c]) (unwrap (normalize sb))) as [ks|] eqn:Ek; [|discriminate]. inv Hsb.
        pose proof (proj1 (bind_strip_both q) sc (a' ++ [c]) _ _ Ek) as Hst.
        rewrite dump_unfold.
        rewrite forallb_forall in Hwc. eapply nth_error_Forall in IH; eauto.
        rewrite (IH (Hwc sc (nth_error_In _ _ E)) sb (a' ++ [c]) ks (id' ++ [KCond c (length cands)]) _ Hvs Ek
                    (agree_single_cand infos cands name lits a' id' sub c sc Ha' E)).
        rewrite putns_cons. f_equal. unfold putn. cbn [fst snd].
        rewrite node_eq. cbn [Geno.dvalue]. cbn [strip]. rewrite Hst. reflexivity. }
      rewrite bind_p_choices_unfold in Hb.
      destruct (k =? 1) eqn:Ek.
      + destruct Hs as (c & sb & -> & Hn1). rewrite Hn1, node_eq in Hb.
        apply valid_p_choices in Hv as [_ [[_ Hbd] Hf]].
        apply Forall_cons_iff in Hbd as [Hbd _]. apply Forall_cons_iff in Hf as [Hf _]. simpl in Hbd, Hf.
        change (nodes_p (Choices k cands dist srt (loc, name) lits) a (PChoices [(c, sb)])) with
          (if k =? 1 then (a, mk (VInt (Z.of_nat c)) [normalize sb]) :: with_nth (fun sc => nodes sc (a ++ [c]) sb) [] cands c else
             concat (mapi (fun i (cs0 : nat * sdna) => (a ++ [i], mk (VInt (Z.of_nat (fst cs0))) [normalize (snd cs0)]) :: with_nth (fun sc => nodes sc ((a ++ [i]) ++ [fst cs0]) (snd cs0)) [] cands (fst cs0)) 0 [(c, sb)])).
        rewrite Ek. eapply Hsingle; eauto.
      + destruct Hs as (cs & -> & Hlen & Hn2). rewrite Hn2 in Hb.
        apply valid_p_choices in Hv as [_ [[_ Hbd] Hf]].
        cbn [Geno.dvalue dkids is_none negb] in Hb.
        set (node := fun cs0 : nat * sdna => mk (VInt (Z.of_nat (fst cs0))) [normalize (snd cs0)]) in *.
        destruct (bind_all (fun i (_ : nat) d' => single_bind q cands (a ++ [i]) d') 0 (seq 0 k) (map node cs)) as [ks|] eqn:Ea; [|discriminate].
        cbv zeta in Hb. destruct (_ && _); [|discriminate]. injection Hb as <-.
        rewrite dump_unfold.
        rewrite (multi_addr_none infos k cands dist srt loc name lits a pid Ek
                   ltac:(rewrite dps_p_choices_unfold, Ek; exact Hag)).
        change (nodes_p (Choices k cands dist srt (loc, name) lits) a (PChoices cs)) with
          (if k =? 1 then match cs with [cs0] => (a, node cs0) :: with_nth (fun sc => nodes sc (a ++ [fst cs0]) (snd cs0)) [] cands (fst cs0) | _ => [] end else
             concat (mapi (fun i (cs0 : nat * sdna) => (a ++ [i], node cs0) :: with_nth (fun sc => nodes sc ((a ++ [i]) ++ [fst cs0]) (snd cs0)) [] cands (fst cs0)) 0 cs)).
        rewrite Ek.
        assert (Em : forall (l : list (nat * sdna)) s0,
                  mapi (fun i (cs0 : nat * sdna) => (a ++ [i], node cs0) :: with_nth (fun sc => nodes sc ((a ++ [i]) ++ [fst cs0]) (snd cs0)) [] cands (fst cs0)) s0 l =
                  mapi2 (fun i (_ : nat) (cs0 : nat * sdna) => (a ++ [i], node cs0) :: with_nth (fun sc => nodes sc ((a ++ [i]) ++ [fst cs0]) (snd cs0)) [] cands (fst cs0)) s0 (seq s0 (length l)) l).
        { induction l; intros s0; simpl; auto. f_equal. apply IHl. }
        rewrite Em, Hlen.
        apply (fold_bind_all_n _ _ (fun i (_ : nat) d' => single_bind q cands (a ++ [i]) d') node _ dumpf putsf
                 (putns_app infos kt vt m) (fun d => eq_refl) (seq 0 k) cs 0 ks d0 Ea).
        intros j e' [c sb] b' d He' Hx' Hsb. simpl in Hsb. unfold node in Hsb. cbn [fst snd] in *. rewrite node_eq in Hsb.
        rewrite Forall_forall in Hbd, Hf.
        assert (Hin : In (c, sb) cs) by (eapply nth_error_In; eauto).
        unfold node. cbn [fst snd].
        eapply (Hsingle (a ++ [j]) (pid ++ loc ++ [KIdx j]) (Some (j, a, pid ++ loc))); eauto.
        * apply (Hbd c). apply in_map_iff. exists (c, sb). auto.
        * apply (Hf (c, sb)); auto.
        * assert (Hj : j < k). { rewrite <- Hlen. apply nth_error_Some. rewrite Hx'. discriminate. }
          eapply agree_trans; [exact Hag | exists [j]; reflexivity |].
          apply (agree_map_seq (fun i => single_block cands name lits (a ++ [i]) (pid ++ loc ++ [KIdx i]) (Some (i, a, pid ++ loc))) a k 0 j).
          -- intros i Hi y Hy. eapply single_block_prefix; eauto.
          -- lia.
    - intros lo hi [loc name] Hwf x a b pid d0 Hv Hb Hag. destruct x; try discriminate. simpl in Hb.
      destruct (_ && _) eqn:Ec; [|discriminate]. inv Hb. rewrite dump_unfold. reflexivity.
    - intros [loc name] Hwf x a b pid d0 Hv Hb Hag. destruct x; try discriminate. simpl in Hb. inv Hb.
      rewrite dump_unfold. reflexivity.
  Qed.
End DumpGen.

Theorem to_dict_nodes : forall q s sd kt vt m b, wf s = true -> valid s sd = true ->
  bind q s (normalize sd) = Some b ->
  to_dict (decision_points s) kt vt m false b = putns (decision_points s) kt vt m (nodes s [] sd) [].
Proof.
  intros q [es] [ds] kt vt m b Hwf Hv Hb. unfold to_dict.
  set (infos := decision_points (Space es)).
  simpl in Hwf, Hv. apply forallb2_Forall2 in Hv.
  rewrite (shape_s es ds Hwf Hv) in Hb. unfold bind in Hb. pose proof (Forall2_len _ _ _ _ _ Hv) as Hl.
  assert (Hel : forall j e, nth_error es j = Some e -> agree infos (dps_p e [j] []) [j]).
  { intros j e He. eapply agree_trans; [apply root_agree | exists [j]; reflexivity |].
    simpl. apply (agree_mapi _ (fun i e0 => dps_p e0 ([] ++ [i]) []) [] es 0 j e); auto.
    intros i e0 He0 x Hx. simpl in *. eapply (proj2 dps_prefix_both); eauto. }
  destruct es as [|e [|e2 es]]; destruct ds as [|x [|y r]]; simpl in Hl; try lia.
  - simpl in Hb. inv Hb. reflexivity.
  - inversion Hv as [|? ? ? ? He _]; subst. simpl in Hwf. rewrite andb_true_r in Hwf.
    change (nodes (Space [e]) [] (SSpace [x])) with (nodes_p e [0] x ++ []). rewrite app_nil_r.
    apply (proj2 (dumpn_both q infos kt vt m) e Hwf x [0] b [] [] He Hb (Hel 0 e eq_refl)).
  - cbn [Geno.dvalue dkids is_none] in Hb.
    destruct (bind_all (fun i e0 c => bind_p q e0 [i] c) 0 (e :: e2 :: es) (map norm_p (x :: y :: r))) as [bs|] eqn:Ea; [|discriminate].
    simpl in Hb. inv Hb. rewrite dump_unfold.
    assert (E0 : info_at infos [] = None) by apply root_addr_none. rewrite E0.
    apply (fold_bind_all_n _ _ (fun i e0 d => bind_p q e0 [i] d) norm_p (fun i e0 x0 => nodes_p e0 ([] ++ [i]) x0)
             (dump infos kt vt m) (putns infos kt vt m) (putns_app infos kt vt m) (fun d => eq_refl)
             (e :: e2 :: es) (x :: y :: r) 0 bs [] Ea).
    intros j e' x' b' d He' Hx' Hf. simpl in Hf.
    rewrite forallb_forall in Hwf.
    apply (proj2 (dumpn_both q infos kt vt m) e' (Hwf e' (nth_error_In _ _ He')) x' [j] b' [] d); auto.
    clear - Hv He' Hx'. revert j He' Hx'. induction Hv; intros [|j] He' Hx'; simpl in *; try discriminate.
    inv He'; inv Hx'; auto. eapply IHHv; eauto.
Qed.

(* ---- the nodes are the active decisions with their sub-trees ---------------------------------------------------- *)
Definition node_matches (n : addr * dna) (e : addr * aval) : Prop :=
  fst n = fst e /\
  match snd e with
  | AChoice c => Geno.dvalue (snd n) = vint c
  | AFlt f => snd n = D (VFlt f) []
  | AStr s => snd n = D (VStr s) []
  end.
Lemma Forall2_app_gen : forall A B (R : A -> B -> Prop) l1 l2 m1 m2, Forall2 R l1 m1 -> Forall2 R l2 m2 -> Forall2 R (l1 ++ l2) (m1 ++ m2).
Proof. induction 1; simpl; auto. Qed.
Lemma Forall2_concat_mapi2 : forall A B C D (R : C -> D -> Prop) (g : nat -> A -> B -> list C) (h : nat -> A -> B -> list D) es ds k,
  (forall j e x, nth_error es j = Some e -> nth_error ds j = Some x -> Forall2 R (g (k + j) e x) (h (k + j) e x)) ->
  Forall2 R (concat (mapi2 g k es ds)) (concat (mapi2 h k es ds)).
Proof.
  induction es as [|e es IH]; intros [|x ds] k H; simpl; try constructor.
  apply Forall2_app_gen.
  - pose proof (H 0 e x eq_refl eq_refl) as H0. rewrite Nat.add_0_r in H0. exact H0.
  - apply IH. intros j e' x' He' Hx'. replace (S k + j) with (k + S j) by lia. apply (H (S j)); auto.
Qed.
Lemma Forall2_concat_mapi : forall A C D (R : C -> D -> Prop) (g : nat -> A -> list C) (h : nat -> A -> list D) l k,
  (forall j e, nth_error l j = Some e -> Forall2 R (g (k + j) e) (h (k + j) e)) ->
  Forall2 R (concat (mapi g k l)) (concat (mapi h k l)).
Proof.
  induction l as [|e l IH]; intros k H; simpl; try constructor.
  apply Forall2_app_gen.
  - pose proof (H 0 e eq_refl) as H0. rewrite Nat.add_0_r in H0. exact H0.
  - apply IH. intros j e' He'. replace (S k + j) with (k + S j) by lia. apply (H (S j)); auto.
Qed.

Lemma nodes_acts_both :
  (forall s a sd, Forall2 node_matches (nodes s a sd) (acts s a sd)) /\
  (forall p a x, Forall2 node_matches (nodes_p p a x) (acts_p p a x)).
Proof.
  apply dspec_dpoint_ind.
  - intros es IH a [ds]. simpl. apply Forall2_concat_mapi2. intros j e x He Hx. simpl.
    eapply nth_error_Forall in IH; eauto.
  - intros k cands dist srt nm lits IH a x. destruct x as [cs| |]; cbn [nodes_p acts_p]; try constructor.
    assert (Hs : forall a' (cs0 : nat * sdna),
              Forall2 node_matches
                ((a', mk (VInt (Z.of_nat (fst cs0))) [normalize (snd cs0)]) :: with_nth (fun sc => nodes sc (a' ++ [fst cs0]) (snd cs0)) [] cands (fst cs0))
                ((a', AChoice (fst cs0)) :: with_nth (fun sc => acts sc (a' ++ [fst cs0]) (snd cs0)) [] cands (fst cs0))).
    { intros a' [c sb]. cbn [fst snd]. constructor.
      - split; [reflexivity|]. cbn [snd]. rewrite node_eq. reflexivity.
      - rewrite !with_nth_nth_error. destruct (nth_error cands c) as [sc|] eqn:E; [|constructor].
        eapply nth_error_Forall in IH; eauto. }
    destruct (k =? 1).
    + destruct cs as [|cs0 [|]]; [constructor | apply Hs | constructor].
    + apply Forall2_concat_mapi. intros j cs0 Hj. apply Hs.
  - intros lo hi nm a x. destruct x; simpl; repeat constructor.
  - intros nm a x. destruct x; simpl; repeat constructor.
Qed.
Lemma Forall2_map_fst : forall (l1 : list (addr * dna)) (l2 : list (addr * aval)), Forall2 node_matches l1 l2 -> map fst l1 = map fst l2.
Proof. induction 1; simpl; auto. destruct H. congruence. Qed.
Lemma Forall2_in_l : forall A B (R : A -> B -> Prop) l1 l2 x, Forall2 R l1 l2 -> In x l1 -> exists y, In y l2 /\ R x y.
Proof. induction 1; intros Hin. inv Hin. destruct Hin as [->|Hin]. eexists; split; [left; reflexivity|auto]. destruct (IHForall2 Hin) as [y' [A1 A2]]. exists y'; split; [right|]; auto. Qed.

(* ---- kinds: the decision point found at the address of an active decision is of the matching kind ----------------- *)
Definition kind_ok (i : dpinfo) (av : aval) : Prop :=
  match av, i_kind i with
  | AChoice _, PKChoice _ _ => True
  | AFlt _, PKFloat _ _ => True
  | AStr _, PKCustom => True
  | _, _ => False
  end.
Lemma acts_kinded2_both : forall infos,
  (forall s, wf s = true -> forall sd a pid e, valid s sd = true -> agree infos (dps s a pid) a -> In e (acts s a sd) ->
     exists i, info_at infos (fst e) = Some i /\ In i (dps s a pid) /\ i_addr i = fst e /\ kind_ok i (snd e)) /\
  (forall p, wf_p p = true -> forall x a pid e, valid_p p x = true -> agree infos (dps_p p a pid) a -> In e (acts_p p a x) ->
     exists i, info_at infos (fst e) = Some i /\ In i (dps_p p a pid) /\ i_addr i = fst e /\ kind_ok i (snd e)).
Proof.
  intros infos. apply dspec_dpoint_ind.
  - intros es IH Hwf [ds] a pid e0 Hv Hag Hin. simpl in Hwf, Hv. apply forallb2_Forall2 in Hv. simpl in Hin.
    apply in_concat in Hin as [b [Hb Hin]]. apply In_nth_error in Hb as [j Hj].
    apply nth_error_mapi2 in Hj as (p & x & Hp & Hx & ->). simpl in Hin.
    assert (Hel : agree infos (dps_p p (a ++ [j]) pid) (a ++ [j])).
    { eapply agree_trans; [exact Hag | exists [j]; reflexivity |].
      simpl. apply (agree_mapi _ (fun i e1 => dps_p e1 (a ++ [i]) pid) a es 0 j p); auto.
      intros i e1 He1 y Hy. simpl in *. eapply (proj2 dps_prefix_both); eauto. }
    rewrite Forall_forall in IH. rewrite forallb_forall in Hwf.
    assert (Hvx : valid_p p x = true).
    { clear - Hv Hp Hx. revert j Hp Hx. induction Hv; intros [|j] Hp Hx; simpl in *; try discriminate. inv Hp; inv Hx; auto. eapply IHHv; eauto. }
    destruct (IH p (nth_error_In _ _ Hp) (Hwf p (nth_error_In _ _ Hp)) x (a ++ [j]) pid e0 Hvx Hel Hin) as (i & H1 & H2 & H3 & H4).
    exists i. repeat split; auto. simpl. apply in_concat_mapi. exists j, p. split; auto.
  - intros k cands dist srt [loc name] lits IH Hwf x a pid e0 Hv Hag Hin.
    pose proof Hwf as Hwf0. apply wf_p_choices in Hwf as (Hk & Hn & Hdk & Hwc).
    destruct x as [cs| |]; try discriminate.
    apply valid_p_choices in Hv as [Hlen [[_ Hbd] Hf]].
    rewrite dps_p_choices_unfold in *.
    assert (Hs : forall a' id' sub (cs0 : nat * sdna), In cs0 cs ->
              agree infos (single_block cands name lits a' id' sub) a' ->
              In e0 ((a', AChoice (fst cs0)) :: with_nth (fun sc => acts sc (a' ++ [fst cs0]) (snd cs0)) [] cands (fst cs0)) ->
              exists i, info_at infos (fst e0) = Some i /\ In i (single_block cands name lits a' id' sub) /\ i_addr i = fst e0 /\ kind_ok i (snd e0)).
    { intros a' id' sub [c sb] Hcs Ha' [<-|Hin'].
      - cbn [fst snd]. rewrite (Ha' a' (prefix_refl a')). unfold single_block. rewrite info_at_head.
        eexists. split; [reflexivity|]. split; [left; reflexivity|]. split; [reflexivity|]. exact I.
      - cbn [fst snd] in Hin'. rewrite with_nth_nth_error in Hin'. destruct (nth_error cands c) as [sc|] eqn:E; [|contradiction].
        rewrite forallb_forall in Hwc. rewrite Forall_forall in Hf. specialize (Hf (c, sb) Hcs). simpl in Hf.
        rewrite with_nth_nth_error, E in Hf. eapply nth_error_Forall in IH; eauto.
        destruct (IH (Hwc sc (nth_error_In _ _ E)) sb (a' ++ [c]) (id' ++ [KCond c (length cands)]) e0 Hf
                     (agree_single_cand infos cands name lits a' id' sub c sc Ha' E) Hin') as (i & H1 & H2 & H3 & H4).
        exists i. repeat split; auto. right. apply in_concat_mapi. exists c, sc. split; auto. }
    simpl in Hin. destruct (k =? 1) eqn:Ek.
    + destruct cs as [|cs0 [|]]; try contradiction. eapply Hs; eauto. simpl; auto.
    + apply in_concat in Hin as [b [Hb Hin]]. apply In_nth_error in Hb as [j Hj].
      apply nth_error_mapi in Hj as (cs0 & Hc & ->). simpl in Hin.
      assert (Hjk : j < k). { rewrite <- Hlen. apply nth_error_Some. rewrite Hc. discriminate. }
      assert (Hblk : agree infos (single_block cands name lits (a ++ [j]) (pid ++ loc ++ [KIdx j]) (Some (j, a, pid ++ loc))) (a ++ [j])).
      { eapply agree_trans; [exact Hag | exists [j]; reflexivity |].
        apply (agree_map_seq (fun i => single_block cands name lits (a ++ [i]) (pid ++ loc ++ [KIdx i]) (Some (i, a, pid ++ loc))) a k 0 j).
        - intros i Hi y Hy. eapply single_block_prefix; eauto.
        - lia. }
      destruct (Hs (a ++ [j]) (pid ++ loc ++ [KIdx j]) (Some (j, a, pid ++ loc)) cs0 (nth_error_In _ _ Hc) Hblk Hin) as (i & H1 & H2 & H3 & H4).
      exists i. repeat split; auto. apply in_concat. eexists. split; [|exact H2]. apply in_map_iff. exists j. split; auto. apply in_seq. lia.
  - intros lo hi [loc name] Hwf x a pid e0 Hv Hag Hin. destruct x; try discriminate. destruct Hin as [<-|[]].
    cbn [fst snd]. rewrite (Hag a (prefix_refl a)). simpl dps_p. rewrite info_at_head.
    eexists. split; [reflexivity|]. split; [left; reflexivity|]. split; [reflexivity|]. exact I.
  - intros [loc name] Hwf x a pid e0 Hv Hag Hin. destruct x; try discriminate. destruct Hin as [<-|[]].
    cbn [fst snd]. rewrite (Hag a (prefix_refl a)). simpl dps_p. rewrite info_at_head.
    eexists. split; [reflexivity|]. split; [left; reflexivity|]. split; [reflexivity|]. exact I.
Qed.

(* ---- folds of _put ------------------------------------------------------------------------------------------------ *)
Definition dputs (es : list (dkey * dleaf)) (d : dict) : dict := fold_left (fun acc e => dput acc (fst e) (snd e)) es d.
Lemma dputs_app : forall l1 l2 d, dputs (l1 ++ l2) d = dputs l2 (dputs l1 d).
Proof. intros. unfold dputs. apply fold_left_app. Qed.
Lemma dputs_other : forall es d k, ~ In k (map fst es) -> dget (dputs es d) k = dget d k.
Proof.
  induction es as [|e es IH]; intros d k H; simpl; auto. unfold dputs in *. simpl. rewrite IH.
  apply dget_dput_other. intros E. apply H. simpl; auto. intros Hin. apply H. simpl; auto.
Qed.
Lemma dputs_once : forall es1 es2 k x d, dget d k = None -> ~ In k (map fst es1) -> ~ In k (map fst es2) ->
  dget (dputs (es1 ++ (k, x) :: es2) d) k = Some (DS x).
Proof.
  intros. rewrite dputs_app. unfold dputs at 1. simpl. fold (dputs es2 (dput (dputs es1 d) k x)).
  rewrite dputs_other by auto. apply dget_dput_fresh. rewrite dputs_other; auto.
Qed.

(* include_inactive_decisions: every decision point gets an entry; absent ones hold None *)
Definition dget_or_none (d : dict) (k : dkey) : dvalue := match dget d k with Some v => v | None => DS LfNone end.
Definition wi_step (kt : key_type) (m : mc_key) (d : dict) (res : dict) (i : dpinfo) : dict :=
  let get := fun k => match dget d k with Some v => v | None => DS LfNone end in
  match i_sub i with
  | Some (idx, pa, pid) =>
      let res1 := if use_parent m && (idx =? 0) then let k := key_of kt pid (i_name i) pa in dset res k (get k) else res in
      if needs_subchoice_key kt m (i_name i) then let k := key_of kt (i_id i) (i_name i) (i_addr i) in dset res1 k (get k) else res1
  | None => let k := key_of kt (i_id i) (i_name i) (i_addr i) in dset res k (get k)
  end.
Lemma with_inactive_fold : forall infos kt m d, with_inactive infos kt m d = fold_left (wi_step kt m d) infos [].
Proof. reflexivity. Qed.

Definition holds_d (d res : dict) : Prop := forall k v, dget res k = Some v -> v = dget_or_none d k.
Lemma holds_dset : forall d r k0, holds_d d r -> holds_d d (dset r k0 (dget_or_none d k0)).
Proof.
  intros d r k0 Hr k v Hg. destruct (dkey_eqb k0 k) eqn:E.
  - apply dkey_eqb_eq in E. subst. rewrite dget_dset_same in Hg. inv Hg. reflexivity.
  - rewrite dget_dset_other in Hg. eauto. intros E'. subst. rewrite dkey_eqb_refl in E. discriminate.
Qed.
Lemma dset_keeps : forall r k0 v0 k, dget r k <> None -> dget (dset r k0 v0) k <> None.
Proof.
  intros r k0 v0 k Hne. destruct (dkey_eqb k0 k) eqn:E.
  - apply dkey_eqb_eq in E. subst. rewrite dget_dset_same. discriminate.
  - rewrite dget_dset_other; auto. intros E'. subst. rewrite dkey_eqb_refl in E. discriminate.
Qed.
Lemma wi_step_holds : forall kt m d res i, holds_d d res -> holds_d d (wi_step kt m d res i).
Proof.
  intros kt m d res i H. unfold wi_step. fold (dget_or_none d).
  destruct (i_sub i) as [[[idx pa] pid]|]; cbv zeta.
  - destruct (needs_subchoice_key kt m (i_name i)); destruct (use_parent m && (idx =? 0)); auto; repeat apply holds_dset; auto.
  - apply holds_dset; auto.
Qed.
Lemma wi_step_keeps : forall kt m d res i k, dget res k <> None -> dget (wi_step kt m d res i) k <> None.
Proof.
  intros kt m d res i k H. unfold wi_step. destruct (i_sub i) as [[[idx pa] pid]|]; cbv zeta.
  - destruct (needs_subchoice_key kt m (i_name i)); destruct (use_parent m && (idx =? 0)); auto; repeat apply dset_keeps; auto.
  - apply dset_keeps; auto.
Qed.
Lemma wi_step_own_id_both : forall d res i, dget (wi_step KT_id MC_both d res i) (DKId (i_id i)) <> None.
Proof.
  intros d res i. unfold wi_step. destruct (i_sub i) as [[[idx pa] pid]|]; cbv zeta.
  - assert (E1 : needs_subchoice_key KT_id MC_both (i_name i) = true) by reflexivity. rewrite E1.
    simpl key_of. rewrite dget_dset_same. discriminate.
  - simpl key_of. rewrite dget_dset_same. discriminate.
Qed.
Lemma wi_fold : forall kt m d l res, holds_d d res ->
  holds_d d (fold_left (wi_step kt m d) l res) /\ (forall k, dget res k <> None -> dget (fold_left (wi_step kt m d) l res) k <> None).
Proof.
  induction l as [|i l IH]; intros res H; simpl. split; auto.
  destruct (IH (wi_step kt m d res i) (wi_step_holds kt m d res i H)) as [A B]. split; auto.
  intros k Hk. apply B. apply wi_step_keeps; auto.
Qed.
Lemma with_inactive_id_both : forall infos d i, In i infos ->
  dget (with_inactive infos KT_id MC_both d) (DKId (i_id i)) = Some (dget_or_none d (DKId (i_id i))).
Proof.
  intros infos d i Hin. rewrite with_inactive_fold.
  assert (G : forall l res, holds_d d res -> In i l -> dget (fold_left (wi_step KT_id MC_both d) l res) (DKId (i_id i)) <> None).
  { induction l as [|i0 l IH]; intros res H Hi. inv Hi. simpl. destruct Hi as [->|Hi].
    - apply (proj2 (wi_fold KT_id MC_both d l _ (wi_step_holds _ _ d res i H))). apply wi_step_own_id_both.
    - apply IH; auto. apply wi_step_holds; auto. }
  assert (H0 : holds_d d []) by (intros k v H; discriminate).
  specialize (G infos [] H0 Hin).
  destruct (dget (fold_left (wi_step KT_id MC_both d) infos []) (DKId (i_id i))) as [v|] eqn:E; [|contradiction].
  f_equal. apply (proj1 (wi_fold KT_id MC_both d infos [] H0)). exact E.
Qed.

(* ---- DNA.__getitem__ by id / decision point ------------------------------------------------------------------------ *)
(* ids usable as keys: pairwise different, and no decision point carries the id of a multi-choice parent *)
Definition ids_ok (s : dspec) : Prop :=
  NoDup (map i_id (decision_points s)) /\
  forall i j idx pa pid, In i (decision_points s) -> In j (decision_points s) -> i_sub i = Some (idx, pa, pid) -> i_id j <> pid.

Definition ents_id_both (infos : list dpinfo) (e : addr * dna) : list (dkey * dleaf) :=
  match info_at infos (fst e) with
  | None => []
  | Some i => (match i_kind i, i_sub i with PKChoice _ _, Some (_, _, pid) => [(DKId pid, LfDna (snd e))] | _, _ => [] end)
              ++ [(DKId (i_id i), LfDna (snd e))]
  end.
Definition node_ok (infos : list dpinfo) (e : addr * dna) : Prop :=
  exists i, info_at infos (fst e) = Some i /\ In i infos /\ i_addr i = fst e /\
            match i_kind i with PKChoice _ _ => exists c, Geno.dvalue (snd e) = vint c | _ => True end.
Lemma putn_ents : forall infos d e, node_ok infos e ->
  putn infos KT_id VT_dna MC_both d e = dputs (ents_id_both infos e) d.
Proof.
  intros infos d e (i & Hi & _ & _ & Hk). unfold putn, ents_id_both. rewrite Hi. cbv zeta.
  destruct (i_kind i) eqn:Ek.
  - destruct Hk as [c Hc]. rewrite Hc. unfold vint. destruct (i_sub i) as [[[idx pa] pid]|]; reflexivity.
  - reflexivity.
  - reflexivity.
Qed.
Lemma putns_ents : forall infos l d, (forall e, In e l -> node_ok infos e) ->
  putns infos KT_id VT_dna MC_both l d = dputs (flat_map (ents_id_both infos) l) d.
Proof.
  induction l as [|e l IH]; intros d H. reflexivity.
  rewrite putns_cons, putn_ents by (apply H; simpl; auto). simpl flat_map. rewrite dputs_app. apply IH.
  intros; apply H; simpl; auto.
Qed.

Definition node_at (l : list (addr * dna)) (a : addr) : option dna :=
  match find (fun e => addr_eqb (fst e) a) l with Some e => Some (snd e) | None => None end.

Lemma addr_eqb_eq : forall a b, addr_eqb a b = true <-> a = b.
Proof. intros. unfold addr_eqb. destruct (list_eq_dec Nat.eq_dec a b); split; intros; auto; discriminate. Qed.

Theorem lookup_by_id : forall q s sd b, wf s = true -> valid s sd = true -> ids_ok s ->
  bind q s (normalize sd) = Some b ->
  forall i, In i (decision_points s) ->
  dget (decision_by_id (decision_points s) b) (DKId (i_id i)) =
  Some (DS (match node_at (nodes s [] sd) (i_addr i) with Some n => LfDna n | None => LfNone end)).
Proof.
  intros q s sd b Hwf Hv [Hid Hpar] Hb i Hi.
  set (infos := decision_points s) in *. set (L := nodes s [] sd).
  assert (Hnd_infos : NoDup (map i_addr infos)) by (apply (proj1 dps_nodup_both)).
  assert (Hok : forall e, In e L -> node_ok infos e).
  { intros e He. destruct (Forall2_in_l _ _ _ _ _ e (proj1 nodes_acts_both s [] sd) He) as [ea [Hea [Hf Hm]]].
    destruct (proj1 (acts_kinded2_both infos) s Hwf sd [] [] ea Hv (root_agree s) Hea) as (i' & H1 & H2 & H3 & H4).
    exists i'. rewrite Hf. repeat split; auto.
    unfold kind_ok in H4. destruct (snd ea) eqn:Es, (i_kind i') eqn:Ek; try contradiction; auto. eexists; eauto. }
  assert (HndL : NoDup (map fst L)).
  { unfold L. rewrite (Forall2_map_fst _ _ (proj1 nodes_acts_both s [] sd)). apply (proj1 acts_nodup_both). }
  (* a key equal to the id of i can only come from the node at the address of i *)
  assert (Hkey : forall l x, (forall e, In e l -> In e L) -> In (DKId (i_id i), x) (flat_map (ents_id_both infos) l) ->
                 exists e, In e l /\ fst e = i_addr i).
  { intros l x Hl Hin. apply in_flat_map in Hin as [e [He Hin]]. exists e. split; auto.
    destruct (Hok e (Hl e He)) as (i' & H1 & H2 & H3 & _). unfold ents_id_both in Hin. rewrite H1 in Hin.
    apply in_app_or in Hin as [Hin|[Hin|[]]].
    - destruct (i_kind i'); try contradiction. destruct (i_sub i') as [[[idx pa] pid]|] eqn:Esub; try contradiction.
      destruct Hin as [Hin|[]]. inv Hin. exfalso. eapply (Hpar i' i); eauto.
    - inv Hin. rewrite <- H3. f_equal. symmetry. eapply (NoDup_map_inj _ _ i_id infos); eauto. }
  unfold decision_by_id. unfold to_dict. fold infos.
  pose proof (to_dict_nodes q s sd KT_id VT_dna MC_both b Hwf Hv Hb) as Hd. unfold to_dict in Hd. fold infos in Hd. fold L in Hd.
  rewrite Hd. rewrite (with_inactive_id_both infos _ i Hi). f_equal. unfold dget_or_none.
  rewrite (putns_ents infos L [] Hok).
  unfold node_at. destruct (find (fun e => addr_eqb (fst e) (i_addr i)) L) as [e|] eqn:Ef.
  - (* active: the node at the address of i *)
    apply find_some in Ef as [He Ea]. apply addr_eqb_eq in Ea.
    apply in_split in He as (L1 & L2 & EL).
    assert (HL1 : forall e', In e' L1 -> In e' L) by (intros; rewrite EL; apply in_or_app; auto).
    assert (HL2 : forall e', In e' L2 -> In e' L) by (intros; rewrite EL; apply in_or_app; simpl; auto).
    rewrite EL in HndL. rewrite map_app in HndL. simpl in HndL.
    pose proof (NoDup_remove_2 _ _ _ HndL) as Hnot.
    rewrite EL. rewrite flat_map_app. simpl flat_map.
    destruct (Hok e ltac:(rewrite EL; apply in_or_app; simpl; auto)) as (i' & H1 & H2 & H3 & _).
    assert (Ei : i' = i).
    { apply (NoDup_map_inj _ _ i_addr infos); auto. congruence. }
    subst i'. unfold ents_id_both at 2. rewrite H1.
    rewrite <- !app_assoc. rewrite app_assoc.
    set (pre := flat_map (ents_id_both infos) L1 ++ match i_kind i, i_sub i with PKChoice _ _, Some (_, _, pid) => [(DKId pid, LfDna (snd e))] | _, _ => [] end).
    change ([(DKId (i_id i), LfDna (snd e))] ++ flat_map (ents_id_both infos) L2) with ((DKId (i_id i), LfDna (snd e)) :: flat_map (ents_id_both infos) L2).
    rewrite dputs_once; auto.
    + unfold pre. rewrite map_app, in_app_iff. intros [Hin|Hin].
      * apply in_map_iff in Hin as [[k x] [Ek Hin]]. simpl in Ek. subst k.
        destruct (Hkey L1 x HL1 Hin) as [e' [He' Ea']]. apply Hnot. apply in_or_app. left. rewrite Ea. rewrite <- Ea'. apply in_map; auto.
      * destruct (i_kind i); try contradiction. destruct (i_sub i) as [[[idx pa] pid]|] eqn:Esub; try contradiction.
        destruct Hin as [Hin|[]]. simpl in Hin. inv Hin. eapply (Hpar i i); eauto.
    + intros Hin. apply in_map_iff in Hin as [[k x] [Ek Hin]]. simpl in Ek. subst k.
      destruct (Hkey L2 x HL2 Hin) as [e' [He' Ea']]. apply Hnot. apply in_or_app. right. rewrite Ea. rewrite <- Ea'. apply in_map; auto.
  - (* inactive: no entry under this id *)
    rewrite dputs_other. reflexivity.
    intros Hin. apply in_map_iff in Hin as [[k x] [Ek Hin]]. simpl in Ek. subst k.
    destruct (Hkey L x (fun e H => H) Hin) as [e' [He' Ea']].
    apply (find_none _ _ Ef) in He'. apply addr_eqb_eq in Ea'. congruence.
Qed.

(* non-vacuity *)
Example ex_ids_ok : ids_ok ex_dict_spec.
Proof.
  split.
  - apply ex_dict_hyps.
  - intros i j idx pa pid Hi Hj Hs E. vm_compute in Hi, Hj.
    repeat match type of Hi with _ \/ _ => destruct Hi as [Hi|Hi] end; try contradiction; subst i; simpl in Hs; try discriminate; injection Hs as _ _ Ep; rewrite <- Ep in E;
    repeat match type of Hj with _ \/ _ => destruct Hj as [Hj|Hj] end; try contradiction; subst j; simpl in E; discriminate.
Qed.

(* ---- from_dict for every key style under which _get_decision finds each decision without consuming the dictionary --- *)
Definition gcarry (infos : list dpinfo) (vt : value_type) (dd : dict) (l : list (addr * aval)) : Prop :=
  forall e, In e l -> forall i, info_at infos (fst e) = Some i ->
  get_decision (i_id i) (fst e) (i_name i) dd = (Some (DS (leaf1 infos vt e)), dd).

Section ReadBack2.
  Variables (infos : list dpinfo) (vt : value_type).
  Hypothesis Hvt : vt <> VT_dna.
  Notation ial := (ial_of vt).

  Lemma readback2_both :
    (forall s, wf s = true -> forall sd a pid dd, valid s sd = true -> agree infos (dps s a pid) a ->
       gcarry infos vt dd (acts s a sd) -> (vt = VT_literal -> Forall lits_distinct (all_lits s)) ->
       make_dna ial s a pid dd = Some (normalize sd, dd)) /\
    (forall p, wf_p p = true -> forall x a pid dd, valid_p p x = true -> agree infos (dps_p p a pid) a ->
       gcarry infos vt dd (acts_p p a x) -> (vt = VT_literal -> Forall lits_distinct (all_lits_p p)) ->
       make_dna_p ial p a pid dd = Some (norm_p x, dd)).
  Proof.
    apply dspec_dpoint_ind.
    - (* Space *)
      intros es IH Hwf [ds] a pid dd Hv Hag Hc Hl. simpl in Hwf. simpl in Hv. apply forallb2_Forall2 in Hv.
      rewrite make_dna_space.
      assert (Hel : forall j e, nth_error es j = Some e -> agree infos (dps_p e (a ++ [j]) pid) (a ++ [j])).
      { intros j e He. eapply agree_trans; [exact Hag | exists [j]; reflexivity |].
        simpl. apply (agree_mapi _ (fun i e0 => dps_p e0 (a ++ [i]) pid) a es 0 j e); auto.
        intros i e0 He0 x Hx. simpl in *. eapply (proj2 dps_prefix_both); eauto. }
      assert (G : forall es' ds' i, Forall2 (fun e x => valid_p e x = true) es' ds' ->
                  (forall j e x, nth_error es' j = Some e -> nth_error ds' j = Some x ->
                                 make_dna_p ial e (a ++ [i + j]) pid dd = Some (norm_p x, dd)) ->
                  space_loop ial a pid i es' dd = Some (map norm_p ds', dd)).
      { induction es' as [|e es' IHe]; intros ds' i Hv' Hm; inversion Hv' as [|? x ? ds'' Hx Hds]; subst; simpl. reflexivity.
        pose proof (Hm 0 e x eq_refl eq_refl) as H0. rewrite Nat.add_0_r in H0. rewrite H0.
        rewrite (IHe ds'' (S i) Hds). reflexivity.
        intros j e' x' He' Hx'. replace (S i + j) with (i + S j) by lia. apply (Hm (S j) e' x'); auto. }
      rewrite (G es ds 0 Hv). reflexivity.
      intros j e x He Hx. simpl.
      rewrite Forall_forall in IH. rewrite forallb_forall in Hwf.
      apply (IH e (nth_error_In _ _ He) (Hwf e (nth_error_In _ _ He)) x (a ++ [j]) pid dd); auto.
      + clear - Hv He Hx. revert j He Hx. induction Hv; intros [|j] He Hx; simpl in *; try discriminate.
        inv He; inv Hx; auto. eapply IHHv; eauto.
      + intros e0 He0. apply Hc. simpl. apply in_concat. exists (acts_p e (a ++ [j]) x). split; auto.
        apply (mapi2_nth_in _ _ _ (fun i e1 x1 => acts_p e1 (a ++ [i]) x1) es ds 0 j e x He Hx).
      + intros E. specialize (Hl E). simpl in Hl. rewrite Forall_forall in *. intros l Hin. apply Hl.
        apply in_concat. exists (all_lits_p e). split; auto. apply in_map. eapply nth_error_In; eauto.
    - (* Choices *)
      intros k cands dist srt [loc name] lits IH Hwf x a pid dd Hv Hag Hc Hl.
      pose proof (shape_p _ x Hwf Hv) as Hs. cbv beta iota in Hs.
      pose proof Hwf as Hwf0. apply wf_p_choices in Hwf as (Hk & Hn & Hdk & Hwc).
      assert (Hlw : length lits = 0 \/ length lits = length cands).
      { change (((1 <=? k) && (1 <=? length cands) && (negb dist || (k <=? length cands)) &&
                 ((length lits =? 0) || (length lits =? length cands)) && forallb wf cands) = true) in Hwf0.
        apply andb_true_iff in Hwf0 as [Hw _]. apply andb_true_iff in Hw as [_ Hw].
        apply orb_true_iff in Hw as [Hw|Hw]; apply Nat.eqb_eq in Hw; auto. }
      rewrite dps_p_choices_unfold in Hag. rewrite make_dna_p_choices.
      (* one step of the loop *)
      assert (Hstep : forall a' id' sub c sb,
                c < length cands -> with_nth (fun s => valid s sb) false cands c = true ->
                agree infos (single_block cands name lits a' id' sub) a' ->
                gcarry infos vt dd ((a', AChoice c) :: with_nth (fun sc => acts sc (a' ++ [c]) sb) [] cands c) ->
                get_decision id' a' name dd = (Some (DS (format_candidate vt (length cands) lits c (D VNone []))), dd) /\
                with_nth (fun cand => make_dna ial cand (a' ++ [c]) (id' ++ [KCond c (length cands)]) dd) None cands c = Some (normalize sb, dd)).
      { intros a' id' sub c sb Hcn Hvs Ha' Hc'. split.
        - specialize (Hc' (a', AChoice c) (or_introl eq_refl) _ (eq_trans (Ha' a' (prefix_refl a')) (info_at_head _ _))).
          cbn [fst snd i_id i_name] in Hc'. unfold leaf1 in Hc'. cbn [fst snd] in Hc'.
          rewrite (Ha' a' (prefix_refl a')) in Hc'. unfold single_block in Hc'. rewrite info_at_head in Hc'.
          cbn [i_kind] in Hc'. exact Hc'.
        - rewrite with_nth_nth_error in *. destruct (nth_error cands c) as [sc|] eqn:E; [|discriminate].
          rewrite forallb_forall in Hwc. eapply nth_error_Forall in IH; eauto.
          apply (IH (Hwc sc (nth_error_In _ _ E))); auto.
          + eapply agree_single_cand; eauto.
          + intros e He. apply Hc'. right. exact He.
          + intros Ev. specialize (Hl Ev). simpl in Hl. apply Forall_cons_iff in Hl as [_ Hl].
            rewrite Forall_forall in *. intros l Hin. apply Hl. apply in_concat. exists (all_lits sc). split; auto.
            apply in_map. eapply nth_error_In; eauto. }
      assert (Hci : forall c, c < length cands ->
                choice_index ial (length cands) lits (format_candidate vt (length cands) lits c (D VNone [])) = Some c).
      { intros c Hcn. apply choice_index_format; auto. intros Ev. specialize (Hl Ev). simpl in Hl.
        apply Forall_cons_iff in Hl as [Hl _]. exact Hl. }
      assert (Hnd : forall c, match format_candidate vt (length cands) lits c (D VNone []) with LfDna _ => False | _ => True end).
      { intros c. destruct vt; simpl; auto; try congruence; destruct (nth_error lits c); auto. }
      destruct (k =? 1) eqn:Ek.
      + destruct Hs as (c & sb & -> & Hn1). rewrite Hn1.
        apply Nat.eqb_eq in Ek. subst k.
        apply valid_p_choices in Hv as [_ [[_ Hbd] Hf]].
        apply Forall_cons_iff in Hbd as [Hbd _]. apply Forall_cons_iff in Hf as [Hf _]. simpl in Hbd, Hf.
        change (acts_p (Choices 1 cands dist srt (loc, name) lits) a (PChoices [(c, sb)])) with
          ((a, AChoice c) :: with_nth (fun sc => acts sc (a ++ [c]) sb) [] cands c) in Hc.
        destruct (Hstep a (pid ++ loc) None c sb Hbd Hf Hag Hc) as [Hg Hm].
        simpl seq. rewrite choice_loop_cons. simpl negb. cbv zeta. cbv iota. rewrite Hg.
        specialize (Hnd c). specialize (Hci c Hbd).
        destruct (format_candidate vt (length cands) lits c (D VNone [])) eqn:Ef; try contradiction;
          rewrite Hci, Hm; reflexivity.
      + destruct Hs as (cs & -> & Hlen & Hn2). rewrite Hn2.
        apply valid_p_choices in Hv as [_ [[_ Hbd] Hf]].
        change (acts_p (Choices k cands dist srt (loc, name) lits) a (PChoices cs)) with
          (if k =? 1 then match cs with [cs0] => (a, AChoice (fst cs0)) :: with_nth (fun sc => acts sc (a ++ [fst cs0]) (snd cs0)) [] cands (fst cs0) | _ => [] end else
             concat (mapi (fun i (cs0 : nat * sdna) => (a ++ [i], AChoice (fst cs0)) :: with_nth (fun sc => acts sc ((a ++ [i]) ++ [fst cs0]) (snd cs0)) [] cands (fst cs0)) 0 cs)) in Hc.
        rewrite Ek in Hc.
        assert (G : forall (l : list (nat * sdna)) s0, s0 + length l = k ->
                  (forall j cs0, nth_error l j = Some cs0 ->
                      fst cs0 < length cands /\ with_nth (fun s => valid s (snd cs0)) false cands (fst cs0) = true /\
                      gcarry infos vt dd ((a ++ [s0 + j], AChoice (fst cs0)) :: with_nth (fun sc => acts sc ((a ++ [s0 + j]) ++ [fst cs0]) (snd cs0)) [] cands (fst cs0))) ->
                  choice_loop ial k cands name lits a (pid ++ loc) (seq s0 (length l)) dd =
                  Some (map (fun cs0 => mk (VInt (Z.of_nat (fst cs0))) [normalize (snd cs0)]) l, dd)).
        { induction l as [|[c sb] l IHl]; intros s0 Hs0 Hall. reflexivity.
          destruct (Hall 0 (c, sb) eq_refl) as (Hcn & Hvs & Hcar). cbn [fst snd] in *. rewrite Nat.add_0_r in Hcar.
          assert (Hs0k : s0 < k) by (simpl in Hs0; lia).
          assert (Hblk : agree infos (single_block cands name lits (a ++ [s0]) ((pid ++ loc) ++ [KIdx s0]) (Some (s0, a, pid ++ loc))) (a ++ [s0])).
          { eapply agree_trans; [exact Hag | exists [s0]; reflexivity |].
            rewrite <- app_assoc.
            apply (agree_map_seq (fun i => single_block cands name lits (a ++ [i]) (pid ++ loc ++ [KIdx i]) (Some (i, a, pid ++ loc))) a k 0 s0).
            - intros i Hi y Hy. eapply single_block_prefix; eauto.
            - lia. }
          destruct (Hstep (a ++ [s0]) ((pid ++ loc) ++ [KIdx s0]) (Some (s0, a, pid ++ loc)) c sb Hcn Hvs Hblk Hcar) as [Hg Hm].
          simpl length. simpl seq.
          rewrite choice_loop_cons.
          cbv zeta. rewrite Ek. simpl negb. cbv iota. rewrite Hg.
          specialize (Hnd c). specialize (Hci c Hcn).
          assert (IHl' : choice_loop ial k cands name lits a (pid ++ loc) (seq (S s0) (length l)) dd =
                         Some (map (fun cs0 => mk (VInt (Z.of_nat (fst cs0))) [normalize (snd cs0)]) l, dd)).
          { apply IHl. simpl in Hs0. lia. intros j cs0 Hj. replace (S s0 + j) with (s0 + S j) by lia. apply (Hall (S j) cs0 Hj). }
          destruct (format_candidate vt (length cands) lits c (D VNone [])) eqn:Ef; try contradiction;
            rewrite Hci, Hm, IHl'; reflexivity. }
        replace (seq 0 k) with (seq 0 (length cs)) by (rewrite Hlen; reflexivity).
        rewrite (G cs 0); [rewrite mk_none_many; [reflexivity | rewrite map_length; apply Nat.eqb_neq in Ek; lia] | simpl; auto |].
        intros j [c sb] Hj. cbn [fst snd]. rewrite Forall_forall in Hbd, Hf.
        assert (Hin : In (c, sb) cs) by (eapply nth_error_In; eauto).
        split. apply (Hbd c). apply in_map_iff. exists (c, sb); auto.
        split. apply (Hf (c, sb)); auto.
        intros e He. apply Hc. apply in_concat.
        exists ((a ++ [j], AChoice c) :: with_nth (fun sc => acts sc ((a ++ [j]) ++ [c]) sb) [] cands c). split; auto.
        apply (mapi_nth_in _ _ (fun i (cs0 : nat * sdna) => (a ++ [i], AChoice (fst cs0)) :: with_nth (fun sc => acts sc ((a ++ [i]) ++ [fst cs0]) (snd cs0)) [] cands (fst cs0)) cs 0 j (c, sb) Hj).
    - (* Float *)
      intros lo hi [loc name] Hwf x a pid dd Hv Hag Hc Hl. destruct x; try discriminate.
      specialize (Hc (a, AFlt f) (or_introl eq_refl) _ (eq_trans (Hag a (prefix_refl a)) (info_at_head _ _))).
      cbn [fst snd i_id i_name] in Hc. unfold leaf1 in Hc. cbn [fst snd] in Hc.
      rewrite (Hag a (prefix_refl a)) in Hc. simpl dps_p in Hc. rewrite info_at_head in Hc. cbn [i_kind] in Hc.
      simpl make_dna_p. rewrite Hc. simpl in Hv. rewrite Hv. reflexivity.
    - intros [loc name] Hwf x a pid dd Hv Hag Hc Hl. destruct x; try discriminate.
      specialize (Hc (a, AStr s) (or_introl eq_refl) _ (eq_trans (Hag a (prefix_refl a)) (info_at_head _ _))).
      cbn [fst snd i_id i_name] in Hc. unfold leaf1 in Hc. cbn [fst snd] in Hc.
      rewrite (Hag a (prefix_refl a)) in Hc. simpl dps_p in Hc. rewrite info_at_head in Hc. cbn [i_kind] in Hc.
      simpl make_dna_p. rewrite Hc. reflexivity.
  Qed.
End ReadBack2.
(* ---- what to_dict stores, entry by entry ---------------------------------------------------------------------------- *)
Definition ents_gen (infos : list dpinfo) (kt : key_type) (vt : value_type) (m : mc_key) (e : addr * dna) : list (dkey * dleaf) :=
  match info_at infos (fst e) with
  | None => []
  | Some i =>
    let k := key_of kt (i_id i) (i_name i) (fst e) in
    match i_kind i with
    | PKChoice n lits =>
        match Geno.dvalue (snd e) with
        | VInt z =>
            let x := format_candidate vt n lits (Z.to_nat z) (snd e) in
            match i_sub i with
            | Some (_, pa, pid) =>
                (if use_parent m then [(key_of kt pid (i_name i) pa, x)] else []) ++
                (if needs_subchoice_key kt m (i_name i) then [(k, x)] else [])
            | None => [(k, x)]
            end
        | _ => []
        end
    | _ => [(k, match vt with VT_dna => LfDna (snd e) | _ => LfV (Geno.dvalue (snd e)) end)]
    end
  end.
Lemma putn_ents_gen : forall infos kt vt m d e, putn infos kt vt m d e = dputs (ents_gen infos kt vt m e) d.
Proof.
  intros. unfold putn, ents_gen. destruct (info_at infos (fst e)) as [i|]; [|reflexivity]. cbv zeta.
  destruct (i_kind i); try reflexivity. destruct (Geno.dvalue (snd e)); try reflexivity.
  destruct (i_sub i) as [[[idx pa] pid]|]; try reflexivity.
  destruct (use_parent m), (needs_subchoice_key kt m (i_name i)); reflexivity.
Qed.
Lemma putns_ents_gen : forall infos kt vt m l d, putns infos kt vt m l d = dputs (flat_map (ents_gen infos kt vt m) l) d.
Proof.
  induction l as [|e l IH]; intros d. reflexivity.
  rewrite putns_cons, putn_ents_gen. simpl flat_map. rewrite dputs_app. apply IH.
Qed.

Lemma own_entry_found : forall (ents : addr * dna -> list (dkey * dleaf)) L e k x pre,
  NoDup (map fst L) -> In e L -> ents e = pre ++ [(k, x)] -> ~ In k (map fst pre) ->
  (forall e' y, In e' L -> In (k, y) (ents e') -> fst e' = fst e) ->
  dget (dputs (flat_map ents L) []) k = Some (DS x).
Proof.
  intros ents L e k x pre Hnd He Hents Hpre Hsep.
  apply in_split in He as (L1 & L2 & EL). subst L. rewrite map_app in Hnd. simpl in Hnd.
  pose proof (NoDup_remove_2 _ _ _ Hnd) as Hnot.
  rewrite flat_map_app. simpl flat_map. rewrite Hents. rewrite <- !app_assoc. rewrite app_assoc.
  change ([(k, x)] ++ flat_map ents L2) with ((k, x) :: flat_map ents L2).
  apply dputs_once; auto.
  - rewrite map_app, in_app_iff. intros [Hin|Hin]; auto.
    apply in_map_iff in Hin as [[k' y] [Ek Hin]]. simpl in Ek. subst k'. apply in_flat_map in Hin as [e' [He' Hin]].
    apply Hnot. apply in_or_app. left. rewrite <- (Hsep e' y); auto. apply in_map; auto. apply in_or_app; auto.
  - intros Hin. apply in_map_iff in Hin as [[k' y] [Ek Hin]]. simpl in Ek. subst k'. apply in_flat_map in Hin as [e' [He' Hin]].
    apply Hnot. apply in_or_app. right. rewrite <- (Hsep e' y); auto. apply in_map; auto. apply in_or_app; simpl; auto.
Qed.

Lemma Forall2_in_r : forall A B (R : A -> B -> Prop) l1 l2 y, Forall2 R l1 l2 -> In y l2 -> exists x, In x l1 /\ R x y.
Proof. induction 1; intros Hin. inv Hin. destruct Hin as [->|Hin]. eexists; split; [left; reflexivity|auto]. destruct (IHForall2 Hin) as [x' [A1 A2]]. exists x'; split; [right|]; auto. Qed.

(* the leaf stored for a node is the rendering of the decision *)
Lemma node_leaf : forall infos vt (e : addr * dna) (ea : addr * aval) i, vt <> VT_dna ->
  node_matches e ea -> info_at infos (fst ea) = Some i -> kind_ok i (snd ea) ->
  match snd ea, i_kind i with
  | AChoice c, PKChoice n lits => Geno.dvalue (snd e) = vint c /\ leaf1 infos vt ea = format_candidate vt n lits (Z.to_nat (Z.of_nat c)) (snd e)
  | AFlt f, _ => leaf1 infos vt ea = LfV (Geno.dvalue (snd e))
  | AStr s, _ => leaf1 infos vt ea = LfV (Geno.dvalue (snd e))
  | _, _ => True
  end.
Proof.
  intros infos vt [a' n0] [a av] i Hvt [Hf Hm] Hi Hk. simpl in *. subst a'. unfold leaf1. cbn [fst snd]. rewrite Hi.
  unfold kind_ok in Hk. cbn [snd] in Hk. destruct av, (i_kind i); try contradiction.
  - split; auto. rewrite Nat2Z.id. apply format_candidate_irrel; auto.
  - rewrite Hm. reflexivity.
  - rewrite Hm. reflexivity.
Qed.

Lemma info_at_some : forall infos a i, info_at infos a = Some i -> In i infos /\ i_addr i = a.
Proof. intros infos a i H. unfold info_at in H. apply find_some in H as [H1 H2]. apply addr_eqb_eq in H2. auto. Qed.

Section Stored.
  Variables (q : quirks) (s : dspec) (sd : sdna) (kt : key_type) (vt : value_type) (m : mc_key) (b : bdna).
  Notation infos := (decision_points s).
  Hypothesis Hwf : wf s = true.
  Hypothesis Hv : valid s sd = true.
  Hypothesis Hvt : vt <> VT_dna.
  Hypothesis Hb : bind q s (normalize sd) = Some b.
  Hypothesis Hneeds : forall name, needs_subchoice_key kt m name = true.
  Hypothesis Hown : forall i j, In i infos -> In j infos ->
    key_of kt (i_id i) (i_name i) (i_addr i) = key_of kt (i_id j) (i_name j) (i_addr j) -> i_addr i = i_addr j.
  Hypothesis Hpar : use_parent m = true -> forall i j idx pa pid, In i infos -> In j infos -> i_sub i = Some (idx, pa, pid) ->
    key_of kt (i_id j) (i_name j) (i_addr j) <> key_of kt pid (i_name i) pa.

  Lemma stored_own : forall ea, In ea (acts s [] sd) -> forall i, info_at infos (fst ea) = Some i ->
    dget (to_dict infos kt vt m false b) (key_of kt (i_id i) (i_name i) (fst ea)) = Some (DS (leaf1 infos vt ea)).
  Proof.
    intros ea Hea i Hi.
    rewrite (to_dict_nodes q s sd kt vt m b Hwf Hv Hb).
    rewrite putns_ents_gen.
    destruct (Forall2_in_r _ _ _ _ _ ea (proj1 nodes_acts_both s [] sd) Hea) as [e [He Hm]].
    destruct (proj1 (acts_kinded2_both infos) s Hwf sd [] [] ea Hv (root_agree s) Hea) as (i' & H1 & H2 & H3 & H4).
    rewrite Hi in H1. inv H1.
    pose proof (node_leaf infos vt e ea i' Hvt Hm Hi H4) as Hleaf.
    destruct Hm as [Hf Hm]. destruct (info_at_some _ _ _ Hi) as [Hin Haddr].
    assert (HndL : NoDup (map fst (nodes s [] sd))).
    { rewrite (Forall2_map_fst _ _ (proj1 nodes_acts_both s [] sd)). apply (proj1 acts_nodup_both). }
    (* the entries of e end with its own entry *)
    assert (Hents : exists pre x, ents_gen infos kt vt m e = pre ++ [(key_of kt (i_id i') (i_name i') (fst ea), x)] /\
                                  x = leaf1 infos vt ea /\ ~ In (key_of kt (i_id i') (i_name i') (fst ea)) (map fst pre)).
    { unfold ents_gen. rewrite Hf, Hi. cbv zeta. unfold kind_ok in H4.
      destruct (snd ea) eqn:Es, (i_kind i') eqn:Ek; try contradiction.
      - destruct Hleaf as [Hval Hl]. rewrite Hval. unfold vint.
        destruct (i_sub i') as [[[idx pa] pid]|] eqn:Esub.
        + rewrite Hneeds. eexists. eexists. split; [reflexivity|]. split; [symmetry; exact Hl|].
          destruct (use_parent m) eqn:Eu; simpl; [|tauto]. intros [E|[]]. rewrite <- Haddr in E. symmetry in E. exact (Hpar eq_refl i' i' idx pa pid Hin Hin Esub E).
        + exists []. eexists. split; [reflexivity|]. split; [symmetry; exact Hl|]. simpl; tauto.
      - exists []. eexists. split; [reflexivity|]. split; [|simpl; tauto]. rewrite Hleaf. destruct vt; try reflexivity. congruence.
      - exists []. eexists. split; [reflexivity|]. split; [|simpl; tauto]. rewrite Hleaf. destruct vt; try reflexivity. congruence. }
    destruct Hents as (pre & x & Hents & Hx & Hpre). subst x.
    eapply own_entry_found; eauto.
    (* nobody else stores under this key *)
    intros e' y He' Hiny. rename Hin into Hin0. rename Hiny into Hin. unfold ents_gen in Hin.
    destruct (info_at infos (fst e')) as [i''|] eqn:Hi''; [|contradiction]. destruct (info_at_some _ _ _ Hi'') as [Hin'' Haddr''].
    cbv zeta in Hin.
    assert (Hcase : key_of kt (i_id i'') (i_name i'') (fst e') = key_of kt (i_id i') (i_name i') (fst ea) \/
                    exists idx pa pid, use_parent m = true /\ i_sub i'' = Some (idx, pa, pid) /\ key_of kt pid (i_name i'') pa = key_of kt (i_id i') (i_name i') (fst ea)).
    { destruct (i_kind i'').
      - destruct (Geno.dvalue (snd e')); try contradiction. destruct (i_sub i'') as [[[idx pa] pid]|] eqn:Esub.
        + apply in_app_or in Hin as [Hin|Hin].
          * destruct (use_parent m) eqn:Eu; [|contradiction]. destruct Hin as [Hin|[]]. inv Hin. right. exists idx, pa, pid. auto.
          * destruct (needs_subchoice_key kt m (i_name i'')); [|contradiction]. destruct Hin as [Hin|[]]. inv Hin. left. auto.
        + destruct Hin as [Hin|[]]. inv Hin. left. auto.
      - destruct Hin as [Hin|[]]. inv Hin. left. auto.
      - destruct Hin as [Hin|[]]. inv Hin. left. auto. }
    destruct Hcase as [E|(idx & pa & pid & Eu & Esub & E)].
    - rewrite <- Haddr'', <- Haddr in E. rewrite Hf, <- Haddr, <- Haddr''. apply Hown; auto.
    - exfalso. rewrite <- Haddr in E. symmetry in E. exact (Hpar Eu i'' i' idx pa pid Hin'' Hin0 Esub E).
  Qed.
End Stored.

Lemma leaf1_not_none : forall infos vt ea i, info_at infos (fst ea) = Some i -> kind_ok i (snd ea) ->
  leaf_is_none (leaf1 infos vt ea) = false.
Proof.
  intros infos vt [a av] i Hi Hk. unfold leaf1. cbn [fst snd] in *. rewrite Hi. unfold kind_ok in Hk. cbn [snd] in Hk.
  destruct av, (i_kind i); try contradiction; auto. apply format_candidate_not_none.
Qed.

(* key_type = 'id', multi_choice_key = 'subchoice' or 'both' *)
Theorem dict_roundtrip_id_both : forall q s sd vt m b, wf s = true -> valid s sd = true -> vt <> VT_dna -> m <> MC_parent ->
  ids_ok s -> (vt = VT_literal -> Forall lits_distinct (all_lits s)) ->
  bind q s (normalize sd) = Some b ->
  from_dict (ial_of vt) q s (to_dict (decision_points s) KT_id vt m false b) = Some b.
Proof.
  intros q s sd vt m b Hwf Hv Hvt Hm [Hid Hpar] Hl Hb.
  set (infos := decision_points s).
  assert (Hg : gcarry infos vt (to_dict infos KT_id vt m false b) (acts s [] sd)).
  { intros ea Hea i Hi.
    destruct (proj1 (acts_kinded2_both infos) s Hwf sd [] [] ea Hv (root_agree s) Hea) as (i' & H1 & H2 & H3 & H4).
    unfold infos in Hi, H1. rewrite Hi in H1. inv H1.
    apply get_decision_found; [|eapply leaf1_not_none; eauto].
    assert (Hn : forall name, needs_subchoice_key KT_id m name = true) by (intros name; destruct m; try reflexivity; congruence).
    assert (Ho : forall i j, In i (decision_points s) -> In j (decision_points s) ->
              key_of KT_id (i_id i) (i_name i) (i_addr i) = key_of KT_id (i_id j) (i_name j) (i_addr j) -> i_addr i = i_addr j).
    { intros i j Hi' Hj E. simpl in E. inv E. f_equal. eapply (NoDup_map_inj _ _ i_id); eauto. }
    assert (Hp : use_parent m = true -> forall i j idx pa pid, In i (decision_points s) -> In j (decision_points s) -> i_sub i = Some (idx, pa, pid) ->
              key_of KT_id (i_id j) (i_name j) (i_addr j) <> key_of KT_id pid (i_name i) pa).
    { intros _ i j idx pa pid Hi' Hj Hs E. simpl in E. inv E. exact (Hpar i j idx pa (i_id j) Hi' Hj Hs eq_refl). }
    exact (stored_own q s sd KT_id vt m b Hwf Hv Hvt Hb Hn Ho Hp ea Hea i' Hi). }
  unfold from_dict.
  rewrite (proj1 (readback2_both infos vt Hvt) s Hwf sd [] [] _ Hv (root_agree s) Hg Hl). exact Hb.
Qed.

(* key_type = 'dna_spec' (keys are the decision point objects), multi_choice_key = 'subchoice' *)
Lemma dputs_no_id : forall es d id, (forall e, In e es -> match fst e with DKId _ => False | _ => True end) ->
  dget (dputs es d) (DKId id) = dget d (DKId id).
Proof.
  intros es d id H. apply dputs_other. intros Hin. apply in_map_iff in Hin as [e [E He]]. specialize (H e He). rewrite E in H. exact H.
Qed.
Theorem dict_roundtrip_spec : forall q s sd vt b, wf s = true -> valid s sd = true -> vt <> VT_dna ->
  (vt = VT_literal -> Forall lits_distinct (all_lits s)) ->
  bind q s (normalize sd) = Some b ->
  from_dict (ial_of vt) q s (to_dict (decision_points s) KT_dna_spec vt MC_subchoice false b) = Some b.
Proof.
  intros q s sd vt b Hwf Hv Hvt Hl Hb.
  set (infos := decision_points s).
  assert (Hnoid : forall id, dget (to_dict infos KT_dna_spec vt MC_subchoice false b) (DKId id) = None).
  { intros id. unfold infos. rewrite (to_dict_nodes q s sd KT_dna_spec vt MC_subchoice b Hwf Hv Hb), putns_ents_gen.
    rewrite dputs_no_id. reflexivity.
    intros [k x] Hin. apply in_flat_map in Hin as [e [_ Hin]]. unfold ents_gen in Hin.
    destruct (info_at (decision_points s) (fst e)) as [i|]; [|contradiction]. cbv zeta in Hin. simpl key_of in Hin.
    destruct (i_kind i).
    - destruct (Geno.dvalue (snd e)); try contradiction. destruct (i_sub i) as [[[idx pa] pid]|].
      + simpl in Hin. destruct Hin as [Hin|[]]. inv Hin. exact I.
      + destruct Hin as [Hin|[]]. inv Hin. exact I.
    - destruct Hin as [Hin|[]]. inv Hin. exact I.
    - destruct Hin as [Hin|[]]. inv Hin. exact I. }
  assert (Hg : gcarry infos vt (to_dict infos KT_dna_spec vt MC_subchoice false b) (acts s [] sd)).
  { intros ea Hea i Hi.
    destruct (proj1 (acts_kinded2_both infos) s Hwf sd [] [] ea Hv (root_agree s) Hea) as (i' & H1 & H2 & H3 & H4).
    unfold infos in Hi, H1. rewrite Hi in H1. inv H1.
    pose proof (stored_own q s sd KT_dna_spec vt MC_subchoice b Hwf Hv Hvt Hb (fun _ => eq_refl)) as Hst.
    assert (Hs : dget (to_dict infos KT_dna_spec vt MC_subchoice false b) (DKSpec (fst ea)) = Some (DS (leaf1 infos vt ea))).
    { apply (Hst ltac:(intros i j _ _ E; simpl in E; inv E; reflexivity) ltac:(intros E; discriminate) ea Hea i' Hi). }
    unfold get_decision. rewrite Hnoid. rewrite Hs. simpl.
    rewrite (leaf1_not_none infos vt ea i' Hi H4). reflexivity. }
  unfold from_dict.
  rewrite (proj1 (readback2_both infos vt Hvt) s Hwf sd [] [] _ Hv (root_agree s) Hg Hl). exact Hb.
Qed.

(* include_inactive_decisions=True keeps what was stored under the key of every decision point *)
Lemma wi_step_own : forall kt m d res i, (forall name, needs_subchoice_key kt m name = true) ->
  dget (wi_step kt m d res i) (key_of kt (i_id i) (i_name i) (i_addr i)) <> None.
Proof.
  intros kt m d res i Hn. unfold wi_step. destruct (i_sub i) as [[[idx pa] pid]|]; cbv zeta.
  - rewrite Hn. rewrite dget_dset_same. discriminate.
  - rewrite dget_dset_same. discriminate.
Qed.
Lemma with_inactive_own : forall infos kt m d i, (forall name, needs_subchoice_key kt m name = true) -> In i infos ->
  dget (with_inactive infos kt m d) (key_of kt (i_id i) (i_name i) (i_addr i)) =
  Some (dget_or_none d (key_of kt (i_id i) (i_name i) (i_addr i))).
Proof.
  intros infos kt m d i Hn Hin. rewrite with_inactive_fold.
  assert (G : forall l res, holds_d d res -> In i l ->
            dget (fold_left (wi_step kt m d) l res) (key_of kt (i_id i) (i_name i) (i_addr i)) <> None).
  { induction l as [|i0 l IH]; intros res H Hi. inv Hi. simpl. destruct Hi as [->|Hi].
    - apply (proj2 (wi_fold kt m d l _ (wi_step_holds _ _ d res i H))). apply wi_step_own; auto.
    - apply IH; auto. apply wi_step_holds; auto. }
  assert (H0 : holds_d d []) by (intros k v H; discriminate).
  specialize (G infos [] H0 Hin).
  destruct (dget (fold_left (wi_step kt m d) infos []) (key_of kt (i_id i) (i_name i) (i_addr i))) as [v|] eqn:E; [|contradiction].
  f_equal. apply (proj1 (wi_fold kt m d infos [] H0)). exact E.
Qed.

Theorem dict_roundtrip_id_inactive : forall q s sd vt m b, wf s = true -> valid s sd = true -> vt <> VT_dna -> m <> MC_parent ->
  ids_ok s -> (vt = VT_literal -> Forall lits_distinct (all_lits s)) ->
  bind q s (normalize sd) = Some b ->
  from_dict (ial_of vt) q s (to_dict (decision_points s) KT_id vt m true b) = Some b.
Proof.
  intros q s sd vt m b Hwf Hv Hvt Hm [Hid Hpar] Hl Hb.
  set (infos := decision_points s).
  assert (Hn : forall name, needs_subchoice_key KT_id m name = true) by (intros name; destruct m; try reflexivity; congruence).
  assert (Ho : forall i j, In i (decision_points s) -> In j (decision_points s) ->
            key_of KT_id (i_id i) (i_name i) (i_addr i) = key_of KT_id (i_id j) (i_name j) (i_addr j) -> i_addr i = i_addr j).
  { intros i j Hi' Hj E. simpl in E. inv E. f_equal. eapply (NoDup_map_inj _ _ i_id); eauto. }
  assert (Hp : use_parent m = true -> forall i j idx pa pid, In i (decision_points s) -> In j (decision_points s) -> i_sub i = Some (idx, pa, pid) ->
            key_of KT_id (i_id j) (i_name j) (i_addr j) <> key_of KT_id pid (i_name i) pa).
  { intros _ i j idx pa pid Hi' Hj Hs E. simpl in E. inv E. exact (Hpar i j idx pa (i_id j) Hi' Hj Hs eq_refl). }
  assert (Hg : gcarry infos vt (to_dict infos KT_id vt m true b) (acts s [] sd)).
  { intros ea Hea i Hi.
    destruct (proj1 (acts_kinded2_both infos) s Hwf sd [] [] ea Hv (root_agree s) Hea) as (i' & H1 & H2 & H3 & H4).
    unfold infos in Hi, H1. rewrite Hi in H1. inv H1.
    destruct (info_at_some _ _ _ Hi) as [Hin Haddr].
    apply get_decision_found; [|eapply leaf1_not_none; eauto].
    pose proof (stored_own q s sd KT_id vt m b Hwf Hv Hvt Hb Hn Ho Hp ea Hea i' Hi) as Hst.
    unfold to_dict in *. pose proof (with_inactive_own infos KT_id m (dump infos KT_id vt m b []) i' Hn Hin) as Hw.
    simpl key_of in Hw, Hst. rewrite Hw. unfold dget_or_none. unfold infos. rewrite Hst. reflexivity. }
  unfold from_dict.
  rewrite (proj1 (readback2_both infos vt Hvt) s Hwf sd [] [] _ Hv (root_agree s) Hg Hl). exact Hb.
Qed.

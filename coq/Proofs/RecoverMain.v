(* RecoverMain.v — uninterrupted runs reach Reach-able states; the recovery theorems for every algorithm
   configuration the syntax can name (property C15). *)
From PG Require Import Common.Tactics Model.Recover Proofs.RecoverBase Proofs.RecoverEvo Proofs.RecoverDedup.

(* ---------------------------------------------------------------------------------------------- *)
(* list surgery *)
Lemma nth_error_split' : forall {A} (l : list A) n x, nth_error l n = Some x ->
  l = firstn n l ++ x :: skipn (S n) l /\ length (firstn n l) = n.
Proof.
  induction l; intros n x H; destruct n; simpl in *; try discriminate.
  - inv H. auto.
  - destruct (IHl _ _ H) as [A1 A2]. split; [f_equal; assumption | f_equal; assumption].
Qed.

Lemma set_nth_split : forall {A} (l : list A) n x y, nth_error l n = Some y ->
  set_nth n x l = firstn n l ++ x :: skipn (S n) l.
Proof.
  induction l; intros n x y H; destruct n; simpl in *; try discriminate; auto.
  f_equal. eapply IHl; eauto.
Qed.

Lemma skipn_S_nth : forall {A} (l : list A) n x, nth_error l n = Some x -> skipn n l = x :: skipn (S n) l.
Proof.
  induction l; intros n x H; destruct n; simpl in *; try discriminate.
  - inv H. reflexivity.
  - apply IHl. assumption.
Qed.

Lemma skipn_app_exact : forall {A} (a b : list A) n, length a = n -> skipn n (a ++ b) = b.
Proof. induction a; intros b n H; subst; simpl; auto. Qed.

(* ---------------------------------------------------------------------------------------------- *)
(* every state of an uninterrupted run in which all proposals succeeded is Reach-able, with the recorded
   history; the DNA fed back is the recorded one *)
Section RunReach.
  Variable g : gen.
  Variable rw : Z -> Z.
  Variable P : dna -> dna -> Prop.
  Hypothesis Prefl : forall d, P d d.

  Definition run_inv (r : run_st g) : Prop :=
    Reach g P (r_st g r) (r_hist g r) /\ r_ptr g r <= length (r_hist g r) /\
    unrewarded (skipn (r_ptr g r) (r_hist g r)).

  Lemma step_not_ok : forall r e, r_ok g r = false -> step g rw r e = r.
  Proof. intros. unfold step. rewrite H. reflexivity. Qed.

  Lemma step_inv : forall r e, r_ok g r = true -> run_inv r -> r_ok g (step g rw r e) = true -> run_inv (step g rw r e).
  Proof.
    intros r e Hok (HR & Hp & Hu) Hok'. unfold step in *. rewrite Hok in *. simpl in *.
    destruct (e =? 0)%Z.
    - destruct (propose g (r_st g r)) as [o s'] eqn:Ep. destruct o; simpl in Hok'; try discriminate.
      unfold run_inv. simpl. split; [econstructor; eauto|]. rewrite app_length. simpl. split; [lia|].
      rewrite skipn_app. apply unrewarded_app. split; [assumption|].
      rewrite (proj2 (Nat.sub_0_le _ _) Hp). simpl. constructor; [reflexivity|constructor].
    - destruct (nth_error (r_hist g r) (r_ptr g r)) as [[d ro]|] eqn:En; [|unfold run_inv; auto].
      destruct (nth_error_split' _ _ _ En) as [Hs Hl].
      pose proof (skipn_S_nth _ _ _ En) as Hk. rewrite Hk in Hu. inv Hu. simpl in H1. subst ro.
      assert (r_ptr g r < length (r_hist g r)) as Hlt by (apply nth_error_Some; congruence).
      destruct (e =? 1)%Z.
      + destruct (feedback g (r_st g r) d (reward_for rw d)) as [d' s'] eqn:Ef.
        unfold run_inv. cbn [r_st r_hist r_ptr r_ok]. rewrite (set_nth_split _ _ _ _ En).
        split; [|split].
        * rewrite Hs in HR. eapply R_fb; eauto.
        * rewrite app_length. simpl. rewrite Hl. rewrite Hs, app_length in Hlt. simpl in Hlt. lia.
        * replace (firstn (r_ptr g r) (r_hist g r) ++ (d', Some (reward_for rw d)) :: skipn (S (r_ptr g r)) (r_hist g r))
            with ((firstn (r_ptr g r) (r_hist g r) ++ [(d', Some (reward_for rw d))]) ++ skipn (S (r_ptr g r)) (r_hist g r))
            by (rewrite <- app_assoc; reflexivity).
          rewrite skipn_app_exact; [assumption|]. rewrite app_length. simpl. lia.
      + unfold run_inv. cbn [r_st r_hist r_ptr r_ok]. split; [assumption|]. split; [lia|assumption].
  Qed.

  Lemma run_events_snoc : forall evs e, run_events g rw (evs ++ [e]) = step g rw (run_events g rw evs) e.
  Proof. intros. unfold run_events. rewrite fold_left_app. reflexivity. Qed.

  Lemma run_reach : forall evs, r_ok g (run_events g rw evs) = true -> run_inv (run_events g rw evs).
  Proof.
    induction evs using rev_ind; intros Hok.
    - unfold run_events, run_inv. simpl. split; [constructor|]. split; [lia|constructor].
    - rewrite run_events_snoc in *.
      destruct (r_ok g (run_events g rw evs)) eqn:Hprev.
      + apply step_inv; auto.
      + rewrite step_not_ok in Hok by assumption. congruence.
  Qed.
End RunReach.

(* ---------------------------------------------------------------------------------------------- *)
(* which configurations the theorems cover *)
Definition is_dedup (a : alg) : bool := match a with ADedup _ _ _ _ _ => true | _ => false end.

(* everything the syntax can name except a Deduping applied directly to another Deduping (the two would
   share the one 'dedup_key' metadata slot) *)
Definition recoverable (a : alg) : bool :=
  match a with ADedup a' _ _ _ _ => negb (is_dedup a') | _ => true end.

(* proposals are a function of history and seed, and the wrapper (if any) sits directly on the stream *)
Definition continuable (a : alg) : bool :=
  match a with
  | ASweep | ARand true _ => true
  | ADedup ASweep _ _ _ _ | ADedup (ARand true _) _ _ _ _ => true
  | _ => false
  end.

Lemma base_obs_rec : forall m a, is_dedup a = false ->
  obs_rec (denote m a) anyfed HRw /\ meta_pres (denote m a).
Proof.
  intros m a H. destruct a; try discriminate; simpl.
  - split; [apply sweeping_obs_rec | apply sweeping_meta_pres].
  - split; [apply random_obs_rec | apply random_meta_pres].
  - destruct u; (split; [|apply evolution_meta_pres]);
      try (apply evolution_obs_rec with (V := unit) (vis := fun g => g);
           [intros pop g1 g2 step E; subst; auto | intros pop [] ngen np; simpl; reflexivity]).
    (* NSGA2: the update reads the elites, reproduction only moves the cursor *)
    apply evolution_obs_rec with (V := list dna) (vis := fst).
    + intros pop g1 g2 step E. unfold nsga2_updf. rewrite E. destruct (n <=? length pop); simpl; auto.
    + intros pop g ngen np. reflexivity.
Qed.

Theorem recover_observable : forall m a rw evs, recoverable a = true ->
  let g := denote m a in
  let r := run_events g rw evs in
  r_ok g r = true ->
  pview (obs g (recovered g (r_hist g r))) = pview (obs g (r_st g r)).
Proof.
  intros m a rw evs Hrec g r Hok. unfold recovered.
  destruct a as [| sd t | a' hm au md ma | i sz u t].
  - destruct (run_reach (denote m ASweep) rw anyfed (fun _ => I) evs Hok) as (HR & _).
    exact (proj1 (base_obs_rec m ASweep eq_refl) _ _ HR _ (HRw_refl _)).
  - destruct (run_reach (denote m (ARand sd t)) rw anyfed (fun _ => I) evs Hok) as (HR & _).
    exact (proj1 (base_obs_rec m (ARand sd t) eq_refl) _ _ HR _ (HRw_refl _)).
  - simpl in Hrec. apply negb_true_iff in Hrec.
    destruct (base_obs_rec m a' Hrec) as [Ho Hm].
    assert (forall d, keyfed d d) as Hk by (intro; repeat split).
    destruct (run_reach (denote m (ADedup a' hm au md ma)) rw keyfed Hk evs Hok) as (HR & _).
    exact (dedup_obs_rec (denote m a') m hm au md ma Ho Hm _ _ HR _ (HRk_refl _)).
  - destruct (run_reach (denote m (AEvo i sz u t)) rw anyfed (fun _ => I) evs Hok) as (HR & _).
    exact (proj1 (base_obs_rec m (AEvo i sz u t) eq_refl) _ _ HR _ (HRw_refl _)).
Qed.

Lemma HRlen_refl : forall h, HRlen h h.
Proof. intros; split; reflexivity. Qed.

Theorem recover_continuation : forall m a rw evs n, continuable a = true ->
  let g := denote m a in
  let r := run_events g rw evs in
  r_ok g r = true ->
  continue_from g n (recovered g (r_hist g r)) = continue_from g n (r_st g r).
Proof.
  intros m a rw evs n Hc g r Hok. unfold recovered.
  assert (forall d, samefed d d) as Hs by (intro; reflexivity).
  assert (forall d, keyfed d d) as Hk by (intro; repeat split).
  destruct a as [| sd t | a' hm au md ma | i sz u t]; try discriminate.
  - destruct (run_reach (denote m ASweep) rw samefed Hs evs Hok) as (HR & _).
    apply (bisim_continue _ _ (sweeping_bisim m)).
    exact (sweeping_cont_rec m _ _ HR _ (HRlen_refl _)).
  - destruct sd; try discriminate.
    destruct (run_reach (denote m (ARand true t)) rw samefed Hs evs Hok) as (HR & _).
    apply (bisim_continue _ _ (random_bisim true _)).
    exact (random_cont_rec _ _ _ HR _ (HRlen_refl _)).
  - destruct (run_reach (denote m (ADedup a' hm au md ma)) rw keyfed Hk evs Hok) as (HR & _).
    destruct a' as [| [] t | |]; try discriminate.
    + apply (bisim_continue _ _ (dedup_bisim (Sweeping m) m hm au md ma sw_beq (sweeping_bisim m))).
      exact (dedup_cont_rec (Sweeping m) m hm au md ma sw_beq eq_refl (sweeping_cont_rec m) _ _ HR _ (HRk_refl _)).
    + set (dr := fun k : nat => nth k t (-1)%Z).
      apply (bisim_continue _ _ (dedup_bisim (RandomSeeded dr) m hm au md ma rd_beq (random_bisim true dr))).
      exact (dedup_cont_rec (RandomSeeded dr) m hm au md ma rd_beq eq_refl (random_cont_rec dr) _ _ HR _ (HRk_refl _)).
Qed.

(* Evolution with arbitrary initialiser, reproduction and update operators over an arbitrary global state *)
Theorem evolution_any_operators : forall gi size G g0 repro updf gobs (V : Type) (vis : G -> V) rw evs,
  (forall pop g1 g2 step, vis g1 = vis g2 ->
     fst (updf pop g1 step) = fst (updf pop g2 step) /\ vis (snd (updf pop g1 step)) = vis (snd (updf pop g2 step))) ->
  (forall pop g ngen np, vis (snd (repro pop g ngen np)) = vis g) ->
  let g := Evolution gi size G g0 repro updf gobs in
  let r := run_events g rw evs in
  r_ok g r = true ->
  pview (obs g (recovered g (r_hist g r))) = pview (obs g (r_st g r)).
Proof.
  intros gi size G g0 repro updf gobs V vis rw evs Hu Hr g r Hok.
  destruct (run_reach g rw anyfed (fun _ => I) evs Hok) as (HR & _).
  exact (evolution_obs_rec gi size G g0 repro updf gobs V vis Hu Hr _ _ HR _ (HRw_refl _)).
Qed.

(* the counters after recovery, spelled out *)
Theorem recover_counts : forall m a rw evs, recoverable a = true ->
  let g := denote m a in
  let r := run_events g rw evs in
  r_ok g r = true ->
  match obs g (recovered g (r_hist g r)), obs g (r_st g r) with
  | Obs np nf _ _ _ _, Obs np' nf' _ _ _ _ => np = np' /\ nf = nf'
  end.
Proof.
  intros m a rw evs H g r Hok. pose proof (recover_observable m a rw evs H Hok) as E.
  fold g in E. fold r in E.
  destruct (obs g (recovered g (r_hist g r))), (obs g (r_st g r)). simpl in E. inv E. auto.
Qed.

(* the (n, k, w) schedule of the property: proposal i+w follows feedback i, so the last w rewards are always
   missing; a crash point is a prefix *)
Fixpoint lag_events_from (i n w : nat) : list Z :=
  match n with
  | O => []
  | S n' => 0%Z :: (if w <=? i then [1%Z] else []) ++ lag_events_from (S i) n' w
  end.
Definition lag_events (n w : nat) : list Z := lag_events_from 0 n w.

Theorem recover_crash_points : forall m a rw n w k, recoverable a = true ->
  let g := denote m a in
  let r := run_events g rw (firstn k (lag_events n w)) in
  r_ok g r = true ->
  pview (obs g (recovered g (r_hist g r))) = pview (obs g (r_st g r)).
Proof. intros. apply recover_observable; assumption. Qed.

(* the wrapper lemma on its own: Deduping preserves recoverability of whatever it wraps *)
Theorem dedup_preserves_recoverability : forall g m hm auto maxdup maxatt,
  obs_rec g anyfed HRw -> meta_pres g -> obs_rec (Deduping g m hm auto maxdup maxatt) keyfed HRk.
Proof. intros. apply dedup_obs_rec; assumption. Qed.

(* ---------------------------------------------------------------------------------------------- *)
(* Examples: the hypotheses are satisfiable by non-trivial inputs *)
Definition ex_evo : alg := AEvo (ARand true [0; 1; 2; 1; 0; 2]%Z) (Some 2) (ULast 2) [[1]; [2]; [0]; [1]]%Z.
Definition ex_alg : alg := ADedup ex_evo 2 1 1 5.
Definition ex_events : list Z := [0; 1; 0; 0; 1; 0; 1; 0; 2; 0; 1]%Z.
Definition ex_rw : Z -> Z := fun v => (v * 2 + 1)%Z.

Example ex_recoverable : recoverable ex_alg = true /\ r_ok _ (run_events (denote 3 ex_alg) ex_rw ex_events) = true.
Proof. vm_compute. auto. Qed.

(* ... and the run is not trivial: 6 proposals, 3 fed back, the inner population holds 2 individuals *)
Example ex_nontrivial :
  match obs _ (r_st _ (run_events (denote 3 ex_alg) ex_rw ex_events)) with
  | Obs np nf _ cache _ [Obs inp inf pop _ _ _] => (np, nf, length pop, inp) = (6, 4, 2, 6) /\ cache <> []
  | _ => False
  end.
Proof. vm_compute. split; [reflexivity | discriminate]. Qed.

Definition ex_det : alg := ADedup (ARand true [0; 1; 1; 0; 2; 2; 1; 0; 2; 2; 1]%Z) 0 0 2 4.
Example ex_continuable : continuable ex_det = true /\ r_ok _ (run_events (denote 3 ex_det) ex_rw [0; 0; 1; 0; 0; 0]%Z) = true
  /\ continue_from (denote 3 ex_det) 3 (r_st _ (run_events (denote 3 ex_det) ex_rw [0; 0; 1; 0; 0; 0]%Z)) = [2; -1]%Z.
Proof. vm_compute. auto. Qed.

(* the operator hypotheses of [evolution_any_operators] hold for a global state with a part the update reads
   and writes (a counter of updates) and a part only reproduction touches (a cursor) *)
Example ex_operator_hypotheses :
  let updf := fun (pop : list dna) (g : nat * nat) (step : nat) => (skipn (length pop - 2) pop, (S (fst g), 0)) in
  let repro := fun (pop : list dna) (g : nat * nat) (ngen : Z) (np : nat) => ([Z.of_nat (snd g)], (fst g, S (snd g))) in
  (forall pop g1 g2 step, fst g1 = fst g2 ->
     fst (updf pop g1 step) = fst (updf pop g2 step) /\ fst (snd (updf pop g1 step)) = fst (snd (updf pop g2 step))) /\
  (forall pop g ngen np, fst (snd (repro pop g ngen np)) = fst g).
Proof. simpl. split; intros; [split; [reflexivity | congruence] | reflexivity]. Qed.

(* what is NOT recovered: num_generations during the initial-population phase (the [extra] part of an
   observation).  Live: 0; after recover: 1. *)
Definition ex_phase : alg := AEvo ASweep (Some 3) UNone [].
Theorem extra_state_not_recovered :
  let g := denote 4 ex_phase in
  let r := run_events g ex_rw [0; 1]%Z in
  r_ok g r = true /\ obs g (recovered g (r_hist g r)) <> obs g (r_st g r).
Proof. vm_compute. split; [reflexivity | discriminate]. Qed.

(* ---------------------------------------------------------------------------------------------- *)
(* the shipped algorithms by name *)
Definition regularized_evolution (draws : list Z) (population_size : nat) (children : list (list Z)) : alg :=
  AEvo (ARand true draws) (Some population_size) (ULast population_size) children.
Definition hill_climb (draws : list Z) (init_population_size : nat) (children : list (list Z)) : alg :=
  AEvo (ARand true draws) (Some init_population_size) (UTop 1) children.
Definition neat (draws : list Z) (population_size : nat) (children : list (list Z)) : alg :=
  AEvo (ARand true draws) (Some population_size) UTopGen children.

Definition shipped (a : alg) : Prop :=
  a = ASweep \/ (exists sd t, a = ARand sd t) \/
  (exists t n c, a = regularized_evolution t n c) \/ (exists t n c, a = hill_climb t n c) \/ (exists t n c, a = neat t n c).

Theorem shipped_recover : forall m a rw evs, shipped a ->
  (let g := denote m a in let r := run_events g rw evs in
   r_ok g r = true -> pview (obs g (recovered g (r_hist g r))) = pview (obs g (r_st g r))) /\
  (forall hm auto maxdup maxatt,
   let g := denote m (ADedup a hm auto maxdup maxatt) in let r := run_events g rw evs in
   r_ok g r = true -> pview (obs g (recovered g (r_hist g r))) = pview (obs g (r_st g r))).
Proof.
  intros m a rw evs H.
  assert (is_dedup a = false) as Hd.
  { destruct H as [-> | [(sd & t & ->) | [(t & n & c & ->) | [(t & n & c & ->) | (t & n & c & ->)]]]]; reflexivity. }
  assert (recoverable a = true) as Hr by (destruct a; try reflexivity; simpl in Hd; discriminate).
  split.
  - exact (recover_observable m a rw evs Hr).
  - intros hm auto maxdup maxatt.
    assert (recoverable (ADedup a hm auto maxdup maxatt) = true) as Hr2 by (simpl; rewrite Hd; reflexivity).
    exact (recover_observable m _ rw evs Hr2).
Qed.

(* ---------------------------------------------------------------------------------------------- *)
(* recovery from a history whose rewarded DNAs are stored as they were proposed (no feedback metadata),
   all of them or only some (e.g. the last reward reached the history but feedback() was never called) *)
Theorem recover_from_stored_proposals : forall m a rw evs hm, recoverable a = true ->
  let g := denote m a in
  let r := run_events g rw evs in
  r_ok g r = true ->
  HRk (r_hist g r) hm ->
  pview (obs g (recovered g hm)) = pview (obs g (r_st g r)).
Proof.
  intros m a rw evs hm Hrec g r Hok Hh. unfold recovered.
  destruct a as [| sd t | a' hm' au md ma | i sz u t].
  - destruct (run_reach (denote m ASweep) rw anyfed (fun _ => I) evs Hok) as (HR & _).
    exact (proj1 (base_obs_rec m ASweep eq_refl) _ _ HR _ (HRk_HRw _ _ Hh)).
  - destruct (run_reach (denote m (ARand sd t)) rw anyfed (fun _ => I) evs Hok) as (HR & _).
    exact (proj1 (base_obs_rec m (ARand sd t) eq_refl) _ _ HR _ (HRk_HRw _ _ Hh)).
  - simpl in Hrec. apply negb_true_iff in Hrec.
    destruct (base_obs_rec m a' Hrec) as [Ho Hm].
    assert (forall d, keyfed d d) as Hk by (intro; repeat split).
    destruct (run_reach (denote m (ADedup a' hm' au md ma)) rw keyfed Hk evs Hok) as (HR & _).
    exact (dedup_obs_rec (denote m a') m hm' au md ma Ho Hm _ _ HR _ Hh).
  - destruct (run_reach (denote m (AEvo i sz u t)) rw anyfed (fun _ => I) evs Hok) as (HR & _).
    exact (proj1 (base_obs_rec m (AEvo i sz u t) eq_refl) _ _ HR _ (HRk_HRw _ _ Hh)).
Qed.

(* the boolean check evaluated by the model on every generated case is sound for that hypothesis *)
Lemma oeqb_Z : forall a b, oeqb Z.eqb a b = true -> a = b.
Proof. intros [x|] [y|] H; simpl in H; try discriminate; auto. apply Z.eqb_eq in H. congruence. Qed.
Lemma oeqb_bool : forall a b, oeqb Bool.eqb a b = true -> a = b.
Proof. intros [x|] [y|] H; simpl in H; try discriminate; auto. apply eqb_prop in H. congruence. Qed.

Lemma dna_eqb_eq : forall a b, dna_eqb a b = true -> a = b.
Proof.
  intros [v1 p1 g1 i1 f1 t1 k1 s1] [v2 p2 g2 i2 f2 t2 k2 s2] H. unfold dna_eqb in H. simpl in H.
  repeat (apply andb_true_iff in H; destruct H as [H ?]).
  apply Z.eqb_eq in H. apply Nat.eqb_eq in H0.
  repeat match goal with X : oeqb Z.eqb _ _ = true |- _ => apply oeqb_Z in X end.
  apply oeqb_bool in H4. subst. reflexivity.
Qed.

Lemma hs_key_b_sound : forall e e', hs_key_b e e' = true -> hs_key e e'.
Proof.
  intros [d ro] [d' ro'] H. unfold hs_key_b in H. simpl in H.
  repeat (apply andb_true_iff in H; destruct H as [H ?]).
  apply oeqb_Z in H. apply oeqb_Z in H3. apply Nat.eqb_eq in H2. apply Z.eqb_eq in H1. subst ro'.
  repeat split; simpl; auto.
  intros r Hr. subst ro. apply orb_true_iff in H0. destruct H0 as [E | E].
  - left. apply dna_eqb_eq. assumption.
  - right. destruct (dfsn d') eqn:F1; [discriminate|]. destruct (dfsn d) as [q|] eqn:F2; [|discriminate].
    split; [reflexivity|]. exists q. apply dna_eqb_eq. assumption.
Qed.

Lemma hrk_b_sound : forall h h', hrk_b h h' = true -> HRk h h'.
Proof.
  induction h; destruct h'; simpl; intros H; try discriminate; constructor.
  - apply andb_true_iff in H. apply hs_key_b_sound. tauto.
  - apply IHh. apply andb_true_iff in H. tauto.
Qed.

Theorem recover_from_stored_proposals_b : forall m a rw evs hm, recoverable a = true ->
  let g := denote m a in
  let r := run_events g rw evs in
  r_ok g r = true ->
  hrk_b (r_hist g r) hm = true ->
  pview (obs g (recovered g hm)) = pview (obs g (r_st g r)).
Proof. intros. apply recover_from_stored_proposals; auto. apply hrk_b_sound. assumption. Qed.

(* non-vacuity: in the example run, the history with every rewarded DNA stored without its feedback metadata
   is accepted by the check, and differs from the live history *)
Definition strip_fed (e : hentry) : hentry :=
  match snd e with
  | Some _ => (mkDna (dval (fst e)) (dpid (fst e)) (dgid (fst e)) (dini (fst e)) None None (dkey (fst e)) (dskip (fst e)), snd e)
  | None => e
  end.
Definition ex_hist : list hentry := r_hist _ (run_events (denote 3 ex_alg) ex_rw ex_events).
Example ex_stored_proposals : hrk_b ex_hist (map strip_fed ex_hist) = true /\ map strip_fed ex_hist <> ex_hist.
Proof. vm_compute. split; [reflexivity | discriminate]. Qed.

(* ---------------------------------------------------------------------------------------------- *)
(* NSGA2 with its own operators (nondominated sort, crowding distance, elites, next_elite cursor; any mutator):
   besides counters and population (recover_observable), the elites are recovered *)
Theorem nsga2_elites_recovered : forall m i sz n t rw evs,
  let g := denote m (AEvo i sz (UNsga2 n) t) in
  let r := run_events g rw evs in
  r_ok g r = true ->
  fst (ev_g _ _ (recovered g (r_hist g r))) = fst (ev_g _ _ (r_st g r)).
Proof.
  intros m i sz n t rw evs g r Hok. unfold recovered.
  destruct (run_reach g rw anyfed (fun _ => I) evs Hok) as (HR & _).
  refine (evolution_vis_rec (denote m i) sz nsga_g ([], 0) (nsga2_repro t) (nsga2_updf n) nsga_gobs (list dna) fst _ _ _ _ HR _ (HRw_refl _)).
  - intros pop g1 g2 step E. unfold nsga2_updf. rewrite E. destruct (n <=? length pop); simpl; auto.
  - intros pop g' ngen np. reflexivity.
Qed.

(* an update whose population output does not look at the global state (NEAT: keep the newest generation, then
   speciate — any speciation over any state): no hypothesis on the operators is left *)
Theorem evolution_stateless_population : forall gi size G g0 repro (popf : list dna -> nat -> list dna)
    (gf : list dna -> G -> nat -> G) gobs rw evs,
  let g := Evolution gi size G g0 repro (fun pop st step => (popf pop step, gf pop st step)) gobs in
  let r := run_events g rw evs in
  r_ok g r = true ->
  pview (obs g (recovered g (r_hist g r))) = pview (obs g (r_st g r)).
Proof.
  intros. apply evolution_any_operators with (V := unit) (vis := fun _ => tt); auto.
Qed.

Theorem neat_any_speciation : forall gi size G g0 repro (speciate : list dna -> G -> nat -> G) gobs rw evs,
  let g := Evolution gi size G g0 repro (fun pop st step => (apply_upd UTopGen pop step, speciate pop st step)) gobs in
  let r := run_events g rw evs in
  r_ok g r = true ->
  pview (obs g (recovered g (r_hist g r))) = pview (obs g (r_st g r)).
Proof. intros. apply evolution_stateless_population. assumption. Qed.

(* non-vacuity: an NSGA2 run in the model with two fronts among the elites *)
Definition ex_nsga : alg := AEvo (ARand true [0; 1; 2; 3; 0; 1]%Z) (Some 4) (UNsga2 2) [[1]; [2]; [3]]%Z.
Example ex_nsga_run :
  let g := denote 4 ex_nsga in
  let r := run_events g (fun v => nth (Z.to_nat v) [2; 65; 128; 64]%Z 0%Z) [0; 1; 0; 1; 0; 1; 0; 1; 0; 1; 0]%Z in
  r_ok g r = true /\ length (fst (ev_g _ _ (r_st g r))) = 2%nat.
Proof. vm_compute. auto. Qed.

(* ---------------------------------------------------------------------------------------------- *)
(* Deduping directly over Deduping is NOT recovered: both wrappers keep their key and their count of dropped
   proposals in the same two metadata slots of the DNA, the outer one overwrites the inner one's.  Here the
   innermost Evolution has made 4 proposals and comes back with 3. *)
Definition ex_nested : alg :=
  ADedup (ADedup (AEvo ASweep (Some 2) UNone [[0]; [1]; [2]; [3]; [4]; [5]; [0]; [1]]%Z) 2 0 1 100) 2 0 1 100.
Theorem nested_deduping_not_recovered :
  let g := denote 6 ex_nested in
  let r := run_events g (fun _ => 1%Z) [0; 0; 1; 0]%Z in
  recoverable ex_nested = false /\ r_ok g r = true /\
  pview (obs g (recovered g (r_hist g r))) <> pview (obs g (r_st g r)).
Proof. vm_compute. split; [reflexivity | split; [reflexivity | discriminate]]. Qed.

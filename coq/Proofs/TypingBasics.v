(* TypingBasics.v — basic facts about the value model of Model/Typing.v. *)
From PG Require Import Common.Tactics Model.Typing.
Local Open Scope Z_scope.

Lemma str_eqb_refl : forall s, str_eqb s s = true.
Proof. induction s; simpl; auto. rewrite N.eqb_refl; auto. Qed.

(* TypingBasics.v — induction principles and basic facts about the value model of Model/Typing.v:
   Python equality [py_eq] is an equivalence, subclassing is a preorder. *)
From PG Require Import Common.Tactics Model.Typing.
Local Open Scope Z_scope.
Local Arguments Z.mul : simpl never.

(* ------------------------------------------------------------------------------------------ *)
(** * Induction principles for the nested types *)

Section PvInd.
  Variable P : pv -> Prop.
  Hypothesis HNone : P PNone.
  Hypothesis HMissing : P PMissing.
  Hypothesis HBool : forall b, P (PBool b).
  Hypothesis HInt : forall z, P (PInt z).
  Hypothesis HFlt : forall q, P (PFlt q).
  Hypothesis HStr : forall s, P (PStr s).
  Hypothesis HList : forall l, Forall P l -> P (PList l).
  Hypothesis HTuple : forall l, Forall P l -> P (PTuple l).
  Hypothesis HDict : forall kvs, Forall (fun kv => P (snd kv)) kvs -> P (PDict kvs).
  Hypothesis HObj : forall c i, P (PObj c i).

  Fixpoint pv_ind' (v : pv) : P v :=
    match v with
    | PNone => HNone | PMissing => HMissing | PBool b => HBool b | PInt z => HInt z
    | PFlt q => HFlt q | PStr s => HStr s
    | PList l => HList l ((fix go (l : list pv) : Forall P l :=
                             match l with [] => Forall_nil _ | x :: r => Forall_cons _ (pv_ind' x) (go r) end) l)
    | PTuple l => HTuple l ((fix go (l : list pv) : Forall P l :=
                             match l with [] => Forall_nil _ | x :: r => Forall_cons _ (pv_ind' x) (go r) end) l)
    | PDict kvs => HDict kvs ((fix go (l : list (str * pv)) : Forall (fun kv => P (snd kv)) l :=
                             match l with
                             | [] => Forall_nil _
                             | kv :: r => Forall_cons _ (pv_ind' (snd kv)) (go r)
                             end) kvs)
    | PObj c i => HObj c i
    end.
End PvInd.

Section SpecInd.
  Variable P : spec -> Prop.
  Hypothesis HBool : forall m, P (SBool m).
  Hypothesis HInt : forall lo hi m, P (SInt lo hi m).
  Hypothesis HFloat : forall lo hi m, P (SFloat lo hi m).
  Hypothesis HStr : forall m, P (SStr m).
  Hypothesis HEnum : forall vs m, P (SEnum vs m).
  Hypothesis HList : forall e mn mx m, P e -> P (SList e mn mx m).
  Hypothesis HTuple : forall es mn mx m, Forall P es -> P (STuple es mn mx m).
  Hypothesis HDictN : forall m, P (SDict None m).
  Hypothesis HDict : forall fs m, Forall (fun kf => P (snd kf)) fs -> P (SDict (Some fs) m).
  Hypothesis HObj : forall c m, P (SObj c m).
  Hypothesis HUnion : forall cs m, Forall P cs -> P (SUnion cs m).
  Hypothesis HAny : forall m, P (SAny m).

  Fixpoint spec_ind' (s : spec) : P s :=
    match s with
    | SBool m => HBool m | SInt lo hi m => HInt lo hi m | SFloat lo hi m => HFloat lo hi m
    | SStr m => HStr m | SEnum vs m => HEnum vs m
    | SList e mn mx m => HList e mn mx m (spec_ind' e)
    | STuple es mn mx m =>
        HTuple es mn mx m ((fix go (l : list spec) : Forall P l :=
                              match l with [] => Forall_nil _ | x :: r => Forall_cons _ (spec_ind' x) (go r) end) es)
    | SDict None m => HDictN m
    | SDict (Some fs) m =>
        HDict fs m ((fix go (l : list (fkey * spec)) : Forall (fun kf => P (snd kf)) l :=
                       match l with
                       | [] => Forall_nil _
                       | kf :: r => Forall_cons _ (spec_ind' (snd kf)) (go r)
                       end) fs)
    | SObj c m => HObj c m
    | SUnion cs m =>
        HUnion cs m ((fix go (l : list spec) : Forall P l :=
                        match l with [] => Forall_nil _ | x :: r => Forall_cons _ (spec_ind' x) (go r) end) cs)
    | SAny m => HAny m
    end.
End SpecInd.

(* ------------------------------------------------------------------------------------------ *)
(** * Strings and classes *)

Lemma str_eqb_refl : forall s, str_eqb s s = true.
Proof. induction s; simpl; auto. rewrite N.eqb_refl; auto. Qed.

Lemma str_eqb_eq : forall a b, str_eqb a b = true <-> a = b.
Proof.
  induction a; destruct b; simpl; split; intros H; try congruence; auto.
  - apply andb_true_iff in H as [H1 H2]. apply N.eqb_eq in H1. apply IHa in H2. congruence.
  - inv H. rewrite N.eqb_refl. apply IHa. reflexivity.
Qed.

Lemma str_eqb_sym : forall a b, str_eqb a b = str_eqb b a.
Proof.
  intros. destruct (str_eqb a b) eqn:E.
  - apply str_eqb_eq in E. subst. symmetry. apply str_eqb_refl.
  - destruct (str_eqb b a) eqn:E'; auto. apply str_eqb_eq in E'. subst. rewrite str_eqb_refl in E. discriminate.
Qed.

Lemma is_subclass_refl : forall c, is_subclass c c = true.
Proof. induction c; simpl; auto. rewrite N.eqb_refl. auto. Qed.

Lemma is_subclass_trans : forall c d e, is_subclass c d = true -> is_subclass d e = true -> is_subclass c e = true.
Proof.
  intros c d e. revert c d. induction e; intros c d H1 H2; simpl; auto.
  - destruct c; auto.
  - destruct d; simpl in H2; try discriminate.
    destruct c; simpl in H1; try discriminate.
    apply andb_true_iff in H1 as [A B]. apply andb_true_iff in H2 as [C D].
    apply N.eqb_eq in A. apply N.eqb_eq in C. subst. simpl. rewrite N.eqb_refl. simpl. eauto.
Qed.

(* ------------------------------------------------------------------------------------------ *)
(** * Python equality *)

Definition list_eqb (f : pv -> pv -> bool) : list pv -> list pv -> bool :=
  fix go (xs ys : list pv) : bool :=
    match xs, ys with
    | [], [] => true
    | x :: xs', y :: ys' => f x y && go xs' ys'
    | _, _ => false
    end.
Definition dict_has (f : pv -> pv -> bool) (k : str) (v : pv) (ys : list (str * pv)) : bool :=
  existsb (fun kw => str_eqb k (fst kw) && f v (snd kw)) ys.
Definition dict_incl (f : pv -> pv -> bool) (xs ys : list (str * pv)) : bool :=
  forallb (fun kv => dict_has f (fst kv) (snd kv) ys) xs.
Definition dict_incl_rev (f : pv -> pv -> bool) (xs ys : list (str * pv)) : bool :=
  forallb (fun kw => existsb (fun kv => str_eqb (fst kv) (fst kw) && f (snd kv) (snd kw)) xs) ys.

Lemma py_eq_list : forall xs ys, py_eq (PList xs) (PList ys) = list_eqb py_eq xs ys.
Proof. induction xs; destruct ys; simpl in *; auto; rewrite <- IHxs; reflexivity. Qed.
Lemma py_eq_tuple : forall xs ys, py_eq (PTuple xs) (PTuple ys) = list_eqb py_eq xs ys.
Proof. induction xs; destruct ys; simpl in *; auto; rewrite <- IHxs; reflexivity. Qed.

Lemma py_eq_dict : forall xs ys,
  py_eq (PDict xs) (PDict ys) = dict_incl py_eq xs ys && dict_incl_rev py_eq xs ys.
Proof.
  intros. simpl. f_equal.
  - induction xs as [|[k v] r IH]; simpl; auto. rewrite IH. f_equal.
    clear IH. unfold dict_has. induction ys as [|[k' w] r' IH']; simpl; auto. rewrite IH'. reflexivity.
  - induction ys as [|[k' w] r' IH]; simpl; auto. rewrite IH. f_equal.
    clear IH. induction xs as [|[k v] r IH']; simpl; auto. rewrite IH'. reflexivity.
Qed.

Lemma num_of_some_kind : forall v x, num_of v = Some x ->
  (exists b, v = PBool b) \/ (exists z, v = PInt z) \/ (exists q, v = PFlt q).
Proof. destruct v; simpl; intros; try discriminate; eauto. Qed.

Lemma py_eq_num : forall a b x y, num_of a = Some x -> num_of b = Some y -> py_eq a b = Z.eqb x y.
Proof. intros. destruct a; simpl in H; try discriminate; simpl; rewrite H0; inv H; reflexivity. Qed.

Lemma py_eq_num_l : forall a b x, num_of a = Some x -> num_of b = None -> py_eq a b = false.
Proof. intros. destruct a; simpl in H; try discriminate; simpl; rewrite H0; reflexivity. Qed.

Lemma py_eq_num_r : forall a b y, num_of a = None -> num_of b = Some y -> py_eq a b = false.
Proof. intros. destruct a; simpl in H; try discriminate; simpl; rewrite H0; reflexivity. Qed.

Lemma list_eqb_refl : forall l, Forall (fun x => py_eq x x = true) l -> list_eqb py_eq l l = true.
Proof. induction 1; simpl; auto. rewrite H, IHForall. reflexivity. Qed.

Lemma dict_incl_refl_aux : forall kvs, Forall (fun kv => py_eq (snd kv) (snd kv) = true) kvs ->
  forall ys, incl kvs ys -> dict_incl py_eq kvs ys = true.
Proof.
  induction 1; intros ys Hi; simpl; auto.
  rewrite IHForall by (intros z Hz; apply Hi; right; exact Hz). rewrite andb_true_r.
  unfold dict_has. apply existsb_exists. exists x. split. apply Hi; left; reflexivity.
  destruct x; simpl in *. rewrite str_eqb_refl, H. reflexivity.
Qed.
Lemma dict_incl_rev_refl_aux : forall kvs, Forall (fun kv => py_eq (snd kv) (snd kv) = true) kvs ->
  forall xs, incl kvs xs -> dict_incl_rev py_eq xs kvs = true.
Proof.
  induction 1; intros xs Hi; simpl; auto.
  rewrite IHForall by (intros z Hz; apply Hi; right; exact Hz). rewrite andb_true_r.
  apply existsb_exists. exists x. split. apply Hi; left; reflexivity.
  destruct x; simpl in *. rewrite str_eqb_refl, H. reflexivity.
Qed.

Lemma py_eq_refl : forall v, py_eq v v = true.
Proof.
  induction v using pv_ind'; try reflexivity.
  - destruct b; reflexivity.
  - simpl. apply Z.eqb_refl.
  - simpl. apply Z.eqb_refl.
  - simpl. apply str_eqb_refl.
  - rewrite py_eq_list. apply list_eqb_refl. assumption.
  - rewrite py_eq_tuple. apply list_eqb_refl. assumption.
  - rewrite py_eq_dict, dict_incl_refl_aux, dict_incl_rev_refl_aux; auto using incl_refl.
  - simpl. rewrite str_eqb_refl, N.eqb_refl. reflexivity.
Qed.

(* what py_eq a b = true says about b, by the shape of a *)
Lemma py_eq_shape : forall a b, py_eq a b = true ->
  match a with
  | PNone => b = PNone
  | PMissing => b = PMissing
  | PBool _ | PInt _ | PFlt _ => num_of b = num_of a
  | PStr s => b = PStr s
  | PList xs => exists ys, b = PList ys /\ list_eqb py_eq xs ys = true
  | PTuple xs => exists ys, b = PTuple ys /\ list_eqb py_eq xs ys = true
  | PDict xs => exists ys, b = PDict ys /\ dict_incl py_eq xs ys = true /\ dict_incl_rev py_eq xs ys = true
  | PObj c i => b = PObj c i
  end.
Proof.
  intros a b H.
  destruct a.
  - destruct b; simpl in H; try discriminate; reflexivity.
  - destruct b; simpl in H; try discriminate; reflexivity.
  - destruct b; simpl in H; try discriminate; simpl; f_equal;
      repeat match goal with b : bool |- _ => destruct b end; try discriminate; lia.
  - destruct b; simpl in H; try discriminate; simpl; f_equal;
      repeat match goal with b : bool |- _ => destruct b end; try discriminate; lia.
  - destruct b; simpl in H; try discriminate; simpl; f_equal;
      repeat match goal with b : bool |- _ => destruct b end; try discriminate; lia.
  - destruct b; simpl in H; try discriminate. apply str_eqb_eq in H. subst. reflexivity.
  - destruct b; try (simpl in H; discriminate). rewrite py_eq_list in H. eauto.
  - destruct b; try (simpl in H; discriminate). rewrite py_eq_tuple in H. eauto.
  - destruct b; try (simpl in H; discriminate). rewrite py_eq_dict in H.
    apply andb_true_iff in H. eauto.
  - destruct b; simpl in H; try discriminate. apply andb_true_iff in H as [A B].
    apply str_eqb_eq in A. apply N.eqb_eq in B. subst. reflexivity.
Qed.

Lemma list_eqb_trans : forall xs ys zs,
  Forall (fun x => forall y z, py_eq x y = true -> py_eq y z = true -> py_eq x z = true) xs ->
  list_eqb py_eq xs ys = true -> list_eqb py_eq ys zs = true -> list_eqb py_eq xs zs = true.
Proof.
  induction xs; destruct ys; destruct zs; simpl; intros F H1 H2; try discriminate; auto.
  inv F. apply andb_true_iff in H1 as [A B]. apply andb_true_iff in H2 as [C D].
  rewrite (H3 _ _ A C). simpl. eauto.
Qed.

Lemma dict_incl_trans : forall xs ys zs,
  Forall (fun kv => forall y z, py_eq (snd kv) y = true -> py_eq y z = true -> py_eq (snd kv) z = true) xs ->
  dict_incl py_eq xs ys = true -> dict_incl py_eq ys zs = true -> dict_incl py_eq xs zs = true.
Proof.
  unfold dict_incl. intros xs ys zs F H1 H2. rewrite forallb_forall in *. rewrite Forall_forall in F.
  intros [k v] Hin. specialize (H1 _ Hin). simpl in H1. unfold dict_has in *.
  apply existsb_exists in H1 as [[k' w] [Hin' E]]. simpl in E. apply andb_true_iff in E as [E1 E2].
  specialize (H2 _ Hin'). simpl in H2. apply existsb_exists in H2 as [[k'' u] [Hin'' E']]. simpl in E'.
  apply andb_true_iff in E' as [E3 E4].
  apply existsb_exists. exists (k'', u). split; auto. simpl.
  apply str_eqb_eq in E1. apply str_eqb_eq in E3. subst. rewrite str_eqb_refl. simpl.
  apply (F _ Hin _ _ E2 E4).
Qed.

(* the reverse inclusion needs transitivity at the elements of the middle dict; we get it from
   the first dict through the forward inclusion, see py_eq_trans *)
Lemma py_eq_trans : forall a y w, py_eq a y = true -> py_eq y w = true -> py_eq a w = true.
Proof.
  induction a using pv_ind'; intros y w H1 H2; pose proof (py_eq_shape _ _ H1) as S1; simpl in S1.
  - subst. exact H2.
  - subst. exact H2.
  - destruct (num_of_some_kind y _ S1) as [[x E]|[[x E]|[x E]]]; subst y;
      pose proof (py_eq_shape _ _ H2) as S2; simpl in S2, S1;
      (erewrite py_eq_num; [apply Z.eqb_refl| reflexivity | rewrite S2; exact S1 ]).
  - destruct (num_of_some_kind y _ S1) as [[x E]|[[x E]|[x E]]]; subst y;
      pose proof (py_eq_shape _ _ H2) as S2; simpl in S2, S1;
      (erewrite py_eq_num; [apply Z.eqb_refl| reflexivity | rewrite S2; exact S1 ]).
  - destruct (num_of_some_kind y _ S1) as [[x E]|[[x E]|[x E]]]; subst y;
      pose proof (py_eq_shape _ _ H2) as S2; simpl in S2, S1;
      (erewrite py_eq_num; [apply Z.eqb_refl| reflexivity | rewrite S2; exact S1 ]).
  - subst. exact H2.
  - destruct S1 as [ys [E L1]]. subst. pose proof (py_eq_shape _ _ H2) as S2. simpl in S2.
    destruct S2 as [zs [E L2]]. subst. rewrite py_eq_list. eapply list_eqb_trans; eauto.
  - destruct S1 as [ys [E L1]]. subst. pose proof (py_eq_shape _ _ H2) as S2. simpl in S2.
    destruct S2 as [zs [E L2]]. subst. rewrite py_eq_tuple. eapply list_eqb_trans; eauto.
  - destruct S1 as [ys [E [L1 R1]]]. subst. pose proof (py_eq_shape _ _ H2) as S2. simpl in S2.
    destruct S2 as [zs [E [L2 R2]]]. subst. rewrite py_eq_dict.
    rewrite (dict_incl_trans _ _ _ H L1 L2). simpl.
    (* reverse: every entry of zs has a partner in ys, that one a partner in kvs *)
    unfold dict_incl_rev in *. rewrite forallb_forall in *. rewrite Forall_forall in H.
    intros [k'' u] Hin''. specialize (R2 _ Hin''). simpl in R2.
    apply existsb_exists in R2 as [[k' w] [Hin' E]]. simpl in E. apply andb_true_iff in E as [E1 E2].
    specialize (R1 _ Hin'). simpl in R1.
    apply existsb_exists in R1 as [[k v] [Hin E']]. simpl in E'. apply andb_true_iff in E' as [E3 E4].
    apply existsb_exists. exists (k, v). split; auto. simpl.
    apply str_eqb_eq in E1. apply str_eqb_eq in E3. subst. rewrite str_eqb_refl. simpl.
    apply (H _ Hin _ _ E4 E2).
  - subst. exact H2.
Qed.

(* GenoBasics.v — induction principles and elementary lemmas of the Geno model. *)
From PG Require Import Common.Tactics Model.Geno.

Lemma with_nth_nth_error : forall A B (f : A -> B) d l n,
  with_nth f d l n = match nth_error l n with Some x => f x | None => d end.
Proof. induction l; destruct n; simpl; auto. Qed.

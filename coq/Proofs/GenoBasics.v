(* GenoBasics.v — induction principles and elementary lemmas of the Geno model. *)
From PG Require Import Common.Tactics Model.Geno.

(* ---- induction over specifications and over structured decisions ------------------------------ *)
Section SpecInd.
  Variables (P : dspec -> Prop) (Q : dpoint -> Prop).
  Hypothesis HS : forall es, Forall Q es -> P (Space es).
  Hypothesis HC : forall k cands d s nm lits, Forall P cands -> Q (Choices k cands d s nm lits).
  Hypothesis HF : forall lo hi nm, Q (FloatP lo hi nm).
  Hypothesis HX : forall nm, Q (CustomP nm).
  Fixpoint dspec_ind2 (s : dspec) : P s :=
    match s with
    | Space es => HS es ((fix go (es : list dpoint) : Forall Q es :=
                            match es with [] => Forall_nil _ | e :: r => Forall_cons _ (dpoint_ind2 e) (go r) end) es)
    end
  with dpoint_ind2 (p : dpoint) : Q p :=
    match p with
    | Choices k cands d s nm lits =>
        HC k cands d s nm lits ((fix go (cs : list dspec) : Forall P cs :=
                                   match cs with [] => Forall_nil _ | c :: r => Forall_cons _ (dspec_ind2 c) (go r) end) cands)
    | FloatP lo hi nm => HF lo hi nm
    | CustomP nm => HX nm
    end.
  Lemma dspec_dpoint_ind : (forall s, P s) /\ (forall p, Q p).
  Proof. split; [exact dspec_ind2 | exact dpoint_ind2]. Qed.
End SpecInd.

Section SdnaInd.
  Variables (P : sdna -> Prop) (Q : pdna -> Prop).
  Hypothesis HS : forall ds, Forall Q ds -> P (SSpace ds).
  Hypothesis HC : forall cs, Forall (fun cs0 => P (snd cs0)) cs -> Q (PChoices cs).
  Hypothesis HF : forall f, Q (PFloat f).
  Hypothesis HX : forall s, Q (PCustom s).
  Fixpoint sdna_ind2 (d : sdna) : P d :=
    match d with
    | SSpace ds => HS ds ((fix go (ds : list pdna) : Forall Q ds :=
                             match ds with [] => Forall_nil _ | x :: r => Forall_cons _ (pdna_ind2 x) (go r) end) ds)
    end
  with pdna_ind2 (x : pdna) : Q x :=
    match x with
    | PChoices cs => HC cs ((fix go (cs : list (nat * sdna)) : Forall (fun cs0 => P (snd cs0)) cs :=
                               match cs with [] => Forall_nil _ | c :: r => Forall_cons _ (sdna_ind2 (snd c)) (go r) end) cs)
    | PFloat f => HF f
    | PCustom s => HX s
    end.
  Lemma sdna_pdna_ind : (forall d, P d) /\ (forall x, Q x).
  Proof. split; [exact sdna_ind2 | exact pdna_ind2]. Qed.
End SdnaInd.

(* ---- helpers ------------------------------------------------------------------------------------ *)
Lemma with_nth_nth_error : forall A B (f : A -> B) d l n,
  with_nth f d l n = match nth_error l n with Some x => f x | None => d end.
Proof. induction l; destruct n; simpl; auto. Qed.

Lemma forallb2_Forall2 : forall A B (f : A -> B -> bool) l1 l2,
  forallb2 f l1 l2 = true <-> Forall2 (fun a b => f a b = true) l1 l2.
Proof.
  induction l1; destruct l2; simpl; split; intros H; try discriminate; try (inv H; fail); auto.
  - apply andb_true_iff in H as [H1 H2]. constructor; auto. apply IHl1; auto.
  - inv H. apply andb_true_iff; split; auto. apply IHl1; auto.
Qed.

Lemma memb_In : forall x l, memb x l = true <-> In x l.
Proof.
  unfold memb; intros; rewrite existsb_exists; split.
  - intros [y [Hy He]]. apply Nat.eqb_eq in He; subst; auto.
  - intros; exists x; split; auto. apply Nat.eqb_refl.
Qed.

Lemma last_opt_app : forall A (l : list A) x, last_opt (l ++ [x]) = Some x.
Proof.
  induction l; simpl; auto. intros. rewrite IHl. destruct (l ++ [x]) eqn:E; auto.
  destruct l; discriminate.
Qed.

Lemma nth_error_Forall : forall A (P : A -> Prop) l n x, Forall P l -> nth_error l n = Some x -> P x.
Proof. intros. rewrite Forall_forall in H. apply H. eapply nth_error_In; eauto. Qed.

(* KeyPathSetMachineLink.v — the decision kernels regenerated from the source of _remove_same / _remove_diff / _merge
   (Gen/KeyPathSetSrc.v), run by the interpreters of Model/KeyPathSetMachine.v, are diff_node / inter_node / merge_node. *)
From PG Require Import Common.Tactics Model.KeyPath Model.KeyPathSetMachine Gen.KeyPathSetSrc Proofs.KeyPathSetBase.

Definition exp_kps : kps_src :=
  {| ks_same := DIfInSrc (DIfMark DRemove (DRec DRemove DKeep)) DKeep;
     ks_diff := DIfInSrc (DIfMark DKeep (DRec DRemove DKeep)) DRemove;
     ks_merge := [ANotMark; AInTarget];
     ks_marker := [c_dollar] |}.

(* instance obligation, re-checked on the file regenerated from the current source *)
Lemma src_kps_is_expected : src_kps = exp_kps.
Proof. reflexivity. Qed.

Theorem same_is_diff : forall t s, fkernel (ks_same exp_kps) t s = diff_node t s.
Proof.
  apply (tnode_ind' (fun t => forall s, fkernel (ks_same exp_kps) t s = diff_node t s)); [reflexivity |].
  intros tk IH s. destruct s as [| sk]; [reflexivity |]. cbn [fkernel diff_node ks_same exp_kps]. f_equal.
  induction IH as [| [m v] r Hv _ IHr]; [reflexivity |]. cbn [snd] in Hv.
  destruct (aget m sk) as [sv |] eqn:E; [| rewrite IHr; reflexivity].
  destruct m as [| k]; [exact IHr |].
  rewrite IHr. change (fkernel (DIfInSrc (DIfMark DRemove (DRec DRemove DKeep)) DKeep) v sv) with (fkernel (ks_same exp_kps) v sv).
  rewrite (Hv sv). cbv zeta. destruct (node_empty (diff_node v sv)); reflexivity.
Qed.

Theorem diff_is_inter : forall t s, fkernel (ks_diff exp_kps) t s = inter_node t s.
Proof.
  apply (tnode_ind' (fun t => forall s, fkernel (ks_diff exp_kps) t s = inter_node t s)); [reflexivity |].
  intros tk IH s. destruct s as [| sk]; [reflexivity |]. cbn [fkernel inter_node ks_diff exp_kps]. f_equal.
  induction IH as [| [m v] r Hv _ IHr]; [reflexivity |]. cbn [snd] in Hv.
  destruct (aget m sk) as [sv |] eqn:E; [| exact IHr].
  destruct m as [| k]; [rewrite IHr; reflexivity |].
  rewrite IHr. change (fkernel (DIfInSrc (DIfMark DKeep (DRec DRemove DKeep)) DRemove) v sv) with (fkernel (ks_diff exp_kps) v sv).
  rewrite (Hv sv). cbv zeta. destruct (node_empty (inter_node v sv)); reflexivity.
Qed.

Theorem merge_is_merge : forall s t, mkernel (ks_merge exp_kps) t s = merge_node t s.
Proof.
  apply (tnode_ind' (fun s => forall t, mkernel (ks_merge exp_kps) t s = merge_node t s)); [intros t; destruct t; reflexivity |].
  intros sk IH t. destruct t as [| tk]; [reflexivity |]. cbn [mkernel merge_node ks_merge exp_kps]. f_equal.
  revert tk. induction IH as [| [m v] r Hv _ IHr]; intros acc; [reflexivity |]. cbn [snd] in Hv.
  cbn [forallb]. destruct m as [| k]; cbn [andb].
  - apply IHr.
  - unfold ahas. destruct (aget (MK k) acc) as [tv |]; cbn [andb]; [| apply IHr].
    change (mkernel [ANotMark; AInTarget] tv v) with (mkernel (ks_merge exp_kps) tv v). rewrite (Hv tv). apply IHr.
Qed.

(* stated on the regenerated data *)
Theorem src_kps_kernels :
  (forall t s, fkernel (ks_same src_kps) t s = diff_node t s) /\
  (forall t s, fkernel (ks_diff src_kps) t s = inter_node t s) /\
  (forall t s, mkernel (ks_merge src_kps) t s = merge_node t s) /\
  ks_marker src_kps = [c_dollar].
Proof.
  rewrite src_kps_is_expected. split; [exact same_is_diff |]. split; [exact diff_is_inter |].
  split; [intros; apply merge_is_merge | reflexivity].
Qed.

(* SymCoreBase.v — induction principle for nodes and basic facts used by all SymCore proofs. *)
From PG Require Import Common.Tactics Model.SymCoreDefs Model.SymCoreOps.
From Coq Require Import NArith.
Local Open Scope Z_scope.

Section NodeInd.
  Variable P : node -> Prop.
  Hypothesis Hleaf : forall l, P (Leaf l).
  Hypothesis Hnode : forall i k pa pt fl its,
      Forall (fun kv => P (snd kv)) its -> P (Node i k pa pt fl its).
  Fixpoint node_ind' (n : node) : P n :=
    match n with
    | Leaf l => Hleaf l
    | Node i k pa pt fl its =>
        Hnode i k pa pt fl its
          ((fix go (l : list (key * node)) : Forall (fun kv => P (snd kv)) l :=
              match l with
              | [] => Forall_nil _
              | kv :: r => Forall_cons kv (node_ind' (snd kv)) (go r)
              end) its)
    end.
End NodeInd.

(* every symbolic node at or below n satisfies P *)
Fixpoint every (P : node -> Prop) (n : node) : Prop :=
  match n with
  | Leaf _ => True
  | Node _ _ _ _ _ its =>
      P n /\ (fix all (l : list (key * node)) : Prop :=
                match l with [] => True | kv :: r => every P (snd kv) /\ all r end) its
  end.
Lemma every_items : forall P (l : list (key * node)),
  (fix all (l : list (key * node)) : Prop := match l with [] => True | kv :: r => every P (snd kv) /\ all r end) l
  <-> Forall (fun kv => every P (snd kv)) l.
Proof.
  induction l; simpl; split; intros; auto.
  - destruct H; constructor; auto. apply IHl; auto.
  - inv H; split; auto. apply IHl; auto.
Qed.
Lemma every_node : forall P i k pa pt fl its,
  every P (Node i k pa pt fl its) <-> P (Node i k pa pt fl its) /\ Forall (fun kv => every P (snd kv)) its.
Proof. intros; simpl; rewrite every_items; tauto. Qed.

(* --- equality functions --------------------------------------------------------------------- *)
Lemma list_eqb_refl : forall A (e : A -> A -> bool), (forall x, e x x = true) -> forall l, list_eqb e l l = true.
Proof. induction l; simpl; auto. rewrite H, IHl; auto. Qed.
Lemma list_eqb_eq : forall A (e : A -> A -> bool), (forall x y, e x y = true -> x = y) ->
  forall a b, list_eqb e a b = true -> a = b.
Proof.
  induction a; destruct b; simpl; intros; try discriminate; auto.
  apply andb_true_iff in H0; destruct H0. f_equal; auto.
Qed.
Lemma key_eqb_refl : forall k, key_eqb k k = true.
Proof. destruct k; simpl. apply list_eqb_refl, N.eqb_refl. apply Z.eqb_refl. Qed.
Lemma key_eqb_eq : forall a b, key_eqb a b = true -> a = b.
Proof.
  destruct a, b; simpl; intros; try discriminate.
  - f_equal. eapply list_eqb_eq; eauto. intros; apply N.eqb_eq; auto.
  - f_equal. apply Z.eqb_eq; auto.
Qed.
Lemma key_eqb_neq : forall a b, key_eqb a b = false -> a <> b.
Proof. intros a b H E; subst; rewrite key_eqb_refl in H; discriminate. Qed.
Lemma path_eqb_refl : forall p, path_eqb p p = true.
Proof. intros; apply list_eqb_refl, key_eqb_refl. Qed.
Lemma path_eqb_eq : forall a b, path_eqb a b = true -> a = b.
Proof. intros; eapply list_eqb_eq; eauto using key_eqb_eq. Qed.
Lemma optN_eqb_refl : forall o, optN_eqb o o = true.
Proof. destruct o; simpl; auto using N.eqb_refl. Qed.
Lemma optN_eqb_eq : forall a b, optN_eqb a b = true -> a = b.
Proof. destruct a, b; simpl; intros; try discriminate; auto. f_equal; apply N.eqb_eq; auto. Qed.

(* --- NoDup over concatenations -------------------------------------------------------------------------- *)
Lemma nodup_app : forall A (l1 l2 : list A),
  NoDup l1 -> NoDup l2 -> (forall x, In x l1 -> In x l2 -> False) -> NoDup (l1 ++ l2).
Proof.
  induction l1; simpl; intros; auto. inv H. constructor.
  - rewrite in_app_iff. intros [I|I]; auto. eapply H1; eauto.
  - apply IHl1; auto. intros; eapply H1; eauto.
Qed.
Lemma nodup_app_inv : forall A (l1 l2 : list A),
  NoDup (l1 ++ l2) -> NoDup l1 /\ NoDup l2 /\ (forall x, In x l1 -> In x l2 -> False).
Proof.
  induction l1; simpl; intros.
  - repeat split; auto. constructor.
  - inv H. destruct (IHl1 _ H3) as (A1 & A2 & A3). repeat split; auto.
    + constructor; auto. intro I; apply H2. apply in_app_iff; auto.
    + intros x [E|I] J; subst. apply H2; apply in_app_iff; auto. eapply A3; eauto.
Qed.

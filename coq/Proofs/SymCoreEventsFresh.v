(* SymCoreEventsFresh.v -- every step resets the memoised facts of every node whose contents it changes: the frame of a step is
   covered by the resets of its trace; hence the tables stay valid through any history. *)
From PG Require Import Common.Tactics Model.SymCoreDefs Model.SymCoreOps Model.SymCoreSpec Model.SymCoreEvents Model.SymCoreEventsSpec
     Proofs.SymCoreBase Proofs.SymCoreWF Proofs.SymCoreClone Proofs.SymCoreWFOps Proofs.SymCoreIds
     Proofs.SymCoreEventsBase Proofs.SymCoreEventsDeliver Proofs.SymCoreEventsStep Proofs.SymCoreEventsWF Proofs.SymCoreEventsQuery
     Proofs.SymCoreEventsFrame.
From Coq Require Import NArith Permutation.

Definition rids (t : trace) : list N := flat_map reset_of t.
Lemma rids_app : forall a b, rids (a ++ b) = rids a ++ rids b.
Proof. intros. unfold rids. apply flat_map_app. Qed.

(* resetting twice = resetting the union *)
Lemma drop_drop : forall A a b (t : list (N * A)), drop a (drop b t) = drop (b ++ a) t.
Proof.
  induction t as [|[j v] r IH]; simpl; auto. rewrite existsb_app.
  destruct (existsb (N.eqb j) b); simpl; auto. destruct (existsb (N.eqb j) a); simpl; auto. f_equal. auto.
Qed.
Lemma reset_reset : forall a b c, reset a (reset b c) = reset (b ++ a) c.
Proof. intros. unfold reset. simpl. rewrite !drop_drop. auto. Qed.
Lemma drop_nil : forall A (t : list (N * A)), drop [] t = t.
Proof. induction t as [|[j v] r IH]; simpl; auto. f_equal. auto. Qed.
Lemma reset_nil : forall c, reset [] c = c.
Proof. intros [a b d]. unfold reset. simpl. rewrite !drop_nil. auto. Qed.
Lemma apply_trace_reset : forall t c, apply_trace t c = reset (rids t) c.
Proof.
  induction t; simpl; intros. symmetry. apply reset_nil.
  unfold apply_trace in *. simpl. rewrite IHt. rewrite reset_reset. auto.
Qed.

(* a notification resets (at least) everything on the chain of every update's container *)
Lemma tn_covers : forall st ups u, In u ups -> incl (map nid0 (chain_of st (u_tid u))) (reset_of (TN st ups None)).
Proof.
  intros st ups u Iu i I. apply in_map_iff in I. destruct I as [n [E I]]. subst i.
  assert (A : In (nid0 n) (tids (group st ups))). { apply group_in. exists n. split; auto. eapply in_affected; eauto. }
  simpl. unfold notified_targets. rewrite cut_none.
  unfold tids in A. apply in_map_iff in A. destruct A as [t [E I2]].
  apply (Permutation_in _ (Permutation_sym (order_perm _))) in I2.
  apply in_flat_map. exists t. split; auto. simpl. left. auto.
Qed.

(* the chain of a container that stays at its position is what is stored at the prefixes of that position *)
Lemma chain_of_stays : forall st cp cid ck pa pt fl, WFI st -> stays st cp cid ck pa pt fl -> chain_of st cid = chain_at st cp.
Proof. intros st cp cid ck pa pt fl W [its' G]. unfold chain_of. rewrite (locate_complete _ _ _ _ _ _ _ _ W G). auto. Qed.

(* List._on_change along the chain of a container, covered by the chain resets *)
Lemma purge_frame : forall st cp cid ck pa pt fl, WFI st -> stays st cp cid ck pa pt fl ->
  FR st (fix_chain st cp) (map nid0 (chain_of st cid)).
Proof. intros. erewrite chain_of_stays; eauto. destruct cp. apply fix_chain_frame. Qed.

(* a primitive that reports no update leaves the forest alone *)
Ltac noupd L := repeat (first [ progress (inv L; try congruence; auto) | destr_match ]).
Lemma lprim_noupd : forall q sc st cp k rv st' p, lprim q sc st cp k rv = (st', p) -> p <> PUpd -> st' = st.
Proof. intros q sc st cp k rv st' p L NU. unfold lprim in L. repeat (destr_match; try (inv L; congruence)). Qed.
Lemma dprim_noupd : forall q sc st cp k rv st' p, dprim q sc st cp k rv = (st', p) -> p <> PUpd -> st' = st.
Proof. intros q sc st cp k rv st' p L NU. unfold dprim in L. repeat (destr_match; try (inv L; congruence)). Qed.
Lemma oprim_noupd : forall q sc st cp k rv st' p, oprim q sc st cp k rv = (st', p) -> p <> PUpd -> st' = st.
Proof. intros q sc st cp k rv st' p L NU. unfold oprim in L. repeat (destr_match; try (inv L; congruence)). Qed.
Lemma prim_noupd : forall q sc st cp k rv st' p, prim q sc st cp k rv = (st', p) -> p <> PUpd -> st' = st.
Proof.
  intros q sc st cp k rv st' p L NU. unfold prim in L.
  destruct (get_at st cp) as [[l|i kd pa pt fl its]|]; try (inv L; congruence).
  destruct kd; eauto using lprim_noupd, dprim_noupd, oprim_noupd.
Qed.

(* --- the write primitives, with everything the frame needs ------------------------------------------------------------------------------------ *)
Definition is_prim (q : quirks) (pr : scope -> state -> pos -> key -> rvalue -> state * pres) : Prop :=
  pr = lprim q \/ pr = dprim q \/ pr = oprim q \/ pr = prim q.
Lemma prim_facts : forall q pr sc st cp k rv st' p cid ck pa pt fl its,
  is_prim q pr -> WFI st -> rv_ok rv -> get_at st cp = Some (Node cid ck pa pt fl its) -> pr sc st cp k rv = (st', p) ->
  WFI st' /\ SH st st' cid /\ stays st' cp cid ck pa pt fl /\ (p <> PUpd -> st' = st).
Proof.
  intros q pr sc st cp k rv st' p cid ck pa pt fl its [E|[E|[E|E]]] W OK G P; subst pr.
  - split. eapply (prim_WFI q (lprim q)); eauto. split. eapply lprim_shape; eauto. apply W. split. eapply lprim_stays; eauto. eapply lprim_noupd; eauto.
  - split. eapply (prim_WFI q (dprim q)); eauto. split. eapply dprim_shape; eauto. apply W. split. eapply dprim_stays; eauto. eapply dprim_noupd; eauto.
  - split. eapply (prim_WFI q (oprim q)); eauto 6. split. eapply oprim_shape; eauto. apply W. split. eapply oprim_stays; eauto. eapply oprim_noupd; eauto.
  - split. { eapply WFI_step; eauto. destruct W. eapply prim_wfs; eauto. eapply prim_ids; eauto. }
    split. eapply prim_shape; eauto. apply W. split. eapply prim_stays; eauto. eapply prim_noupd; eauto.
Qed.

(* a write [st -> s1] of the container [cid] at [ps] (shape SH), recorded as TW s1 cid, optionally followed by the purge along its chain *)
Lemma tw_then_purge : forall st s1 ps cid ck pa pt fl (b : bool) rest,
  WFI s1 -> SH st s1 cid -> stays s1 ps cid ck pa pt fl ->
  FR st (if b then fix_chain s1 ps else s1) (rids (TW s1 cid :: rest)).
Proof.
  intros st s1 ps cid ck pa pt fl b rest W [L S] ST.
  assert (F1 : FR st s1 (map nid0 (chain_of s1 cid))) by (apply FR_by_ids; auto).
  destruct b.
  - eapply FR_mono. eapply FR_trans. exact F1. eapply purge_frame; eauto.
    intros i I. unfold rids. simpl. apply in_or_app. left. apply in_app_or in I. tauto.
  - eapply FR_mono. exact F1. intros i I. unfold rids. simpl. apply in_or_app. auto.
Qed.

Lemma cur_id_at : forall st ps cid ck pa pt fl its, get_at st ps = Some (Node cid ck pa pt fl its) -> cur_id st ps = cid.
Proof. intros. unfold cur_id. rewrite H. auto. Qed.

Lemma write1_frame : forall q pr sc st ps ky rv st' p cid ck pa pt fl its,
  is_prim q pr -> WFI st -> rv_ok rv -> get_at st ps = Some (Node cid ck pa pt fl its) -> pr sc st ps ky rv = (st', p) ->
  FR st (notified sc st' ps p) (rids (write1_tr pr sc st ps ky rv)).
Proof.
  intros q pr sc st ps ky rv st' p cid ck pa pt fl its IP W OK G P.
  destruct (prim_facts _ _ _ _ _ _ _ _ _ _ _ _ _ _ _ IP W OK G P) as (W' & S & ST & NU).
  unfold write1_tr. rewrite P. destruct p.
  - rewrite NU by discriminate. apply FR_refl.
  - simpl. rewrite (cur_id_at _ _ _ _ _ _ _ _ G).
    change (if notify_on sc then fix_chain st' ps else st') with (if notify_on sc then fix_chain st' ps else st').
    eapply tw_then_purge; eauto.
  - rewrite NU by discriminate. apply FR_refl.
Qed.

(* --- deleting / clearing / re-ordering / popping: one container, items taken from the old items ------------------------------------------------- *)
Lemma stays_detach_all : forall its st2 cp cid ck pa pt fl, stays st2 cp cid ck pa pt fl -> stays (detach_all st2 its) cp cid ck pa pt fl.
Proof.
  unfold detach_all. induction its as [|[k c] r IH]; simpl; intros; auto. apply IH. apply stays_detached. auto.
Qed.
Lemma items_shape : forall st ps cid ck pa pt fl its its',
  get_at st ps = Some (Node cid ck pa pt fl its) -> Forall (child_good st) its' ->
  (next_id st <= next_id (update_at st ps (set_items its')))%N /\
  (forall n', In n' (live_nodes (update_at st ps (set_items its'))) -> In cid (ids n') \/ good st n') /\
  stays (update_at st ps (set_items its')) ps cid ck pa pt fl.
Proof.
  intros. split. rewrite next_update_at. lia. split.
  - eapply replace_items_good; eauto.
  - eapply stays_replace; eauto.
Qed.
Lemma trace_ok_head : forall e t, trace_ok (e :: t) -> WFI (st_of e).
Proof. intros. inv H. auto. Qed.

Lemma ldel_frame : forall sc st ps idx cid pa pt fl its,
  WFI st -> get_at st ps = Some (Node cid KList pa pt fl its) ->
  FR st (fst (ldel_core sc st ps idx)) (rids (ldel_tr sc st ps idx)).
Proof.
  intros sc st ps idx cid pa pt fl its W G.
  assert (TO := ldel_tr_ok sc st ps idx cid pa pt fl its W G).
  unfold ldel_core, ldel_tr in *. destruct (cur_items_facts _ _ _ _ _ _ _ _ G) as (E1 & E2 & _). rewrite E1, E2 in *.
  destruct (nth_error its idx) as [[k old]|] eqn:NE; [|apply FR_refl].
  rewrite (cur_id_at _ _ _ _ _ _ _ _ G) in *.
  set (st2 := add_detached (update_at st ps (set_items (renum pt (remove_nth idx its)))) old) in *.
  assert (CG := children_good _ _ _ _ _ _ _ _ G).
  destruct (items_shape st ps cid KList pa pt fl its (renum pt (remove_nth idx its)) G) as (L & S & ST).
  { apply renum_good. apply Forall_remove_nth. auto. }
  simpl. eapply tw_then_purge.
  - apply trace_ok_head in TO. exact TO.
  - split. unfold st2. rewrite next_add_detached. auto. unfold st2. eapply add_detached_good; eauto.
    intros m I. simpl in I. eapply Forall_nth_error in NE; eauto. apply NE. auto.
  - unfold st2. apply stays_detached. eauto.
Qed.

Lemma clear_frame : forall sc st ps tid tk pa tpth fl its rest,
  WFI st -> get_at st ps = Some (Node tid tk pa tpth fl its) -> keys_ok tk [] ->
  FR st (clear_core sc st ps its) (rids (TW (detach_all (update_at st ps (set_items [])) its) tid :: rest)).
Proof.
  intros sc st ps tid tk pa tpth fl its rest W G KO.
  assert (W1 := clear_list_tr_ok st ps tid tk pa tpth fl its W G KO).
  assert (CG := children_good _ _ _ _ _ _ _ _ G).
  destruct (items_shape st ps tid tk pa tpth fl its [] G (Forall_nil _)) as (L & S & ST).
  set (st1 := detach_all (update_at st ps (set_items [])) its) in *.
  assert (SH1 : SH st st1 tid).
  { split. unfold st1. rewrite next_detach_all. auto. unfold st1. eapply detach_all_good; eauto. }
  assert (ST1 : stays st1 ps tid tk pa tpth fl) by (unfold st1; apply stays_detach_all; auto).
  unfold clear_core. fold st1.
  destruct its; [apply (tw_then_purge st st1 ps tid tk pa tpth fl false); auto | apply (tw_then_purge st st1 ps tid tk pa tpth fl (notify_on sc)); auto].
Qed.

(* --- re-ordering ---------------------------------------------------------------------------------------------------------------------------------- *)
(* re-indexing children that already sit at their positions changes nothing *)
Lemma renum_from_id : forall cid cp l i, positions i (map fst l) -> Forall (child_wf cid cp) l -> renum_from cp i l = l.
Proof.
  induction l as [|[k c] r IH]; simpl; intros; auto. destruct H as [E P]. subst k. inv H0. f_equal; auto.
  f_equal. unfold child_wf in H2. simpl in H2. destruct c as [lf|j kd pa pt fl its]; auto.
  apply wf_node_unfold in H2. destruct H2 as (_ & E & _). subst pt. unfold reindex_child, last_key. rewrite rev_app_distr. simpl.
  rewrite Z.eqb_refl. auto.
Qed.
Lemma update_in_id : forall p f t c, get_in p t = Some c -> f c = c -> update_in p f t = t.
Proof.
  induction p; simpl; intros. inv H. auto.
  destruct t as [l|i k pa pt fl its]; simpl in *; auto.
  destruct (assoc a its) as [c0|] eqn:A; [|discriminate]. f_equal.
  clear - A H H0 IHp. induction its as [|[k0 x] r IH]; simpl in *; [discriminate|]. destruct (key_eqb a k0) eqn:E.
  - inv A. f_equal. f_equal. eauto.
  - f_equal. auto.
Qed.
Lemma set_nth_id : forall A (l : list A) n x, nth_error l n = Some x -> set_nth n x l = l.
Proof. induction l; destruct n; simpl; intros; try discriminate; auto. inv H. auto. f_equal. auto. Qed.
Lemma update_at_id : forall st ps f c, get_at st ps = Some c -> f c = c -> update_at st ps f = st.
Proof.
  intros st [r p] f c G E. unfold update_at, get_at in *. simpl in *. destruct (get_root st r) as [t|] eqn:R; auto.
  rewrite (update_in_id _ _ _ _ G E). unfold set_root. destruct st as [rs nx]. simpl in *. f_equal.
  unfold get_root in R. simpl in R. destruct (nth_error rs r) as [[t'|]|] eqn:NE; try discriminate. inv R. apply set_nth_id. auto.
Qed.

Lemma same_item_reindex : forall o cp i c, same_item o (reindex_child cp i c) = same_item o c.
Proof.
  intros. destruct c as [l|j k pa pt fl its]; auto. unfold reindex_child.
  destruct (last_key pt) as [k0|]; [destruct (key_eqb k0 (KI i))|]; auto; destruct o; simpl; auto;
    unfold set_path; destruct (path_eqb pt (cp ++ [KI i])); auto.
Qed.
Lemma reorder_ups_nil : forall cp cid olds news i j,
  reorder_ups cp cid i olds (renum_from cp j news) = [] -> all_same olds news = true.
Proof.
  induction olds as [|[k o] r IH]; destruct news as [|[k' n] r']; simpl; intros; auto.
  rewrite same_item_reindex in H. destruct (same_item o n); simpl in *; [|discriminate]. eauto.
Qed.
Lemma all_same_ups_nil : forall cp cid olds news i j,
  all_same olds news = true -> reorder_ups cp cid i olds (renum_from cp j news) = [].
Proof.
  induction olds as [|[k o] r IH]; destruct news as [|[k' n] r']; simpl; intros; auto.
  rewrite same_item_reindex. apply andb_true_iff in H. destruct H as [H1 H2]. rewrite H1. simpl. auto.
Qed.

Lemma reorder_frame : forall sc st ps tid pa tpth fl its its',
  WFI st -> get_at st ps = Some (Node tid KList pa tpth fl its) ->
  Forall (child_wf tid tpth) its' -> Permutation (ids_items its') (ids_items its) -> Forall (child_good st) its' ->
  (all_same its its' = true -> its' = its) ->
  FR st (reorder_core sc st ps tpth its its') (rids (reorder_tr sc st ps tid tpth its its')).
Proof.
  intros sc st ps tid pa tpth fl its its' W G CW PM CG SAME.
  assert (TO := reorder_ok sc st ps tid pa tpth fl its its' W G CW PM).
  destruct (container_facts _ _ _ _ _ _ _ _ (proj1 W) G) as (Ept & KO & CH). simpl in KO.
  unfold reorder_core, reorder_tr in *.
  destruct (reorder_ups tpth tid 0 its (renum tpth its')) as [|u us] eqn:RU.
  - (* nothing moved: the forest is as it was *)
    assert (AS : all_same its its' = true) by (eapply reorder_ups_nil; eauto).
    rewrite AS. simpl. rewrite (SAME AS). unfold renum. rewrite (renum_from_id tid tpth its 0 KO CH).
    rewrite (update_at_id st ps (set_items its) _ G eq_refl). apply FR_refl.
  - assert (AS : all_same its its' = false).
    { destruct (all_same its its') eqn:X; auto. unfold renum in RU. rewrite (all_same_ups_nil tpth tid its its' 0 0 X) in RU. discriminate. }
    rewrite AS. simpl.
    destruct (items_shape st ps tid KList pa tpth fl its (renum tpth its') G) as (L & S & ST). { apply renum_good. auto. }
    eapply tw_then_purge; eauto. apply trace_ok_head in TO. exact TO. split; auto.
Qed.

(* --- List.extend ------------------------------------------------------------------------------------------------------------------------------------ *)
Definition is_nil {A} (l : list A) : bool := match l with [] => true | _ => false end.
Lemma upd_of_tid : forall st st' cp ky rv cid ck pa pt fl its, get_at st cp = Some (Node cid ck pa pt fl its) ->
  exists u, upd_of st st' cp ky rv = [u] /\ u_tid u = cid.
Proof.
  intros. unfold upd_of. rewrite H.
  destruct (match ck, ky with KList, KI z => let '(i, f) := l_actual its z rv in (KI i, f) | _, _ => (ky, false) end) as [k' fresh].
  eexists. split. reflexivity. auto.
Qed.
Lemma extend_frame : forall q sc ps cid ck pa pt fl rvs st upd0 its,
  WFI st -> Forall rv_ok rvs -> get_at st ps = Some (Node cid ck pa pt fl its) ->
  exists t u stf ok e,
    extend_tr q sc st ps rvs = (t, u, stf, ok) /\
    extend_loop q sc st ps rvs upd0 = (stf, upd0 || negb (is_nil u), if ok then None else Some e) /\
    FR st stf (rids t) /\ WFI stf /\ stays stf ps cid ck pa pt fl /\ Forall (fun x => u_tid x = cid) u.
Proof.
  intros q sc ps cid ck pa pt fl. induction rvs as [|a r IH]; intros st upd0 its W OK G.
  - exists [], [], st, true, EOther. simpl. rewrite orb_false_r.
    split; [auto|]. split; [auto|]. split; [apply FR_refl|]. split; [auto|]. split; [exists its; auto|constructor].
  - inv OK. simpl.
    destruct (lprim q sc st ps (KI (cur_len st ps)) a) as [st1 p] eqn:L.
    destruct (prim_facts q (lprim q) _ _ _ _ _ _ _ _ _ _ _ _ _ (or_introl eq_refl) W H1 G L) as (W1 & S1 & [its1 G1] & NU).
    destruct p.
    + (* nothing written *)
      assert (st1 = st) by (apply NU; discriminate). subst st1.
      destruct (IH st upd0 its W H2 G) as (t & u & stf & ok & e & E1 & E2 & F & Wf & ST & FU).
      exists t, u, stf, ok, e. rewrite E1, E2. simpl. split; [auto|]. split; [auto|]. split; [auto|]. split; [auto|]. split; auto.
    + destruct (IH st1 true its1 W1 H2 G1) as (t & u & stf & ok & e & E1 & E2 & F & Wf & ST & FU).
      destruct (upd_of_tid st st1 ps (KI (cur_len st ps)) a _ _ _ _ _ _ G) as (u0 & EU & TU).
      exists (TW st1 cid :: t), (u0 :: u), stf, ok, e. rewrite E1, E2. simpl. rewrite (cur_id_at _ _ _ _ _ _ _ _ G), EU. simpl.
      rewrite orb_true_r. split; [auto|]. split; [auto|]. split; [|split; [auto|split; auto]].
      change (rids (TW st1 cid :: t)) with (map nid0 (chain_of st1 cid) ++ rids t).
      eapply FR_trans; eauto. destruct S1. apply FR_by_ids; auto.
    + assert (st1 = st) by (apply NU; discriminate). subst st1.
      exists [], [], st, false, e. simpl. rewrite orb_false_r.
      split; [auto|]. split; [auto|]. split; [apply FR_refl|]. split; [auto|]. split; [exists its; auto|constructor].
Qed.
Lemma ntf_cover : forall sc st cp cid ck pa pt fl u, WFI st -> stays st cp cid ck pa pt fl -> Forall (fun x => u_tid x = cid) u ->
  FR st (if negb (is_nil u) && notify_on sc then fix_chain st cp else st) (rids (ntf sc st u)).
Proof.
  intros. unfold ntf. destruct u as [|u0 us]; simpl. apply FR_refl.
  destruct (notify_on sc). 2:{ apply FR_refl. }
  eapply FR_mono. eapply purge_frame; eauto. inv H1. unfold rids. simpl. rewrite app_nil_r.
  apply (tn_covers st (u0 :: us) u0). simpl. auto.
Qed.
Lemma extend_core_frame : forall q sc st ps rvs cid ck pa pt fl its,
  WFI st -> Forall rv_ok rvs -> get_at st ps = Some (Node cid ck pa pt fl its) ->
  FR st (fst (extend_core q sc st ps rvs)) (rids (extend_core_tr q sc st ps rvs)).
Proof.
  intros. destruct (extend_frame q sc ps cid ck pa pt fl rvs st false its H H0 H1) as (t & u & stf & ok & e & E1 & E2 & F & Wf & ST & FU).
  unfold extend_core, extend_core_tr. rewrite E1, E2. simpl. destruct ok; simpl; auto.
  rewrite rids_app. eapply FR_trans; eauto. eapply ntf_cover; eauto.
Qed.

(* --- the end of a step: roots nobody can hold are dropped ---------------------------------------------------------------------------------------------- *)
Lemma gc_slots_incl : forall base keep rs s, In s (gc_slots base keep rs) -> In s rs.
Proof.
  induction rs as [|[t|i] r IH]; simpl; intros; auto.
  destruct (negb keep && match nid t with Some i => N.leb base i | None => false end); simpl in *; intuition.
Qed.
Lemma gc_frame : forall n base keep st, FR st (gc n base keep st) [].
Proof.
  intros. split. simpl. lia. intros n' I. right. apply good_live.
  unfold live_nodes, gc in *. simpl in I. apply in_flat_map in I. destruct I as [s [I1 I2]]. apply in_flat_map. exists s. split; auto.
  apply in_app_or in I1. destruct I1 as [I1|I1].
  - rewrite <- (firstn_skipn n (roots st)). apply in_or_app. auto.
  - apply gc_slots_incl in I1. rewrite <- (firstn_skipn n (roots st)). apply in_or_app. auto.
Qed.

(* --- List._on_change along several chains (fix_chains): who is above whom does not change ------------------------------------------------------------------ *)
Definition IDP (s s' : state) : Prop :=
  forall n', In n' (live_nodes s') -> exists n, In n (live_nodes s) /\ nid0 n = nid0 n' /\ incl (ids n') (ids n).
Lemma IDP_refl : forall s, IDP s s.
Proof. intros s n' I. exists n'. split; auto. split; auto. apply incl_refl. Qed.
Lemma IDP_trans : forall a b c, IDP a b -> IDP b c -> IDP a c.
Proof.
  intros a b c H1 H2 n'' I. destruct (H2 _ I) as (n' & I' & E' & S'). destruct (H1 _ I') as (n & In' & E & S).
  exists n. split; auto. split. congruence. eapply incl_tran; eauto.
Qed.
Lemma get_at_update_at_prefix_full : forall st r pre rest f m, get_at st (r, pre) = Some m ->
  get_at (update_at st (r, pre ++ rest) f) (r, pre) = Some (update_in rest f m).
Proof.
  intros. unfold update_at, get_at in *. simpl in *. destruct (get_root st r) as [t|] eqn:R; [|discriminate].
  unfold set_root, get_root. simpl.
  assert (L : (r < length (roots st))%nat). { unfold get_root in R. destruct (nth_error (roots st) r) eqn:E; [|discriminate]. apply nth_error_Some. congruence. }
  assert (N : nth_error (set_nth r (Live (update_in (pre ++ rest) f t)) (roots st)) r = Some (Live (update_in (pre ++ rest) f t))).
  { clear - L. revert r L. induction (roots st); destruct r; simpl; intros; auto; try lia. apply IHl. lia. }
  rewrite N. apply get_in_update_in_prefix. auto.
Qed.
Lemma ids_update_in_purge : forall rest m, incl (ids (update_in rest purge_list m)) (ids m).
Proof.
  intros. destruct (get_in rest m) as [c|] eqn:G.
  - pose proof (ids_update_in rest purge_list m c G) as P. rewrite ids_purge_list in P.
    apply Permutation_app_inv_r in P. intros x I. eapply Permutation_in; eauto.
  - rewrite ids_update_in_none; auto. apply incl_refl.
Qed.
Lemma IDP_purge_step : forall s r p, IDP s (update_at s (r, p) purge_list).
Proof.
  intros s r p n' I. destruct (get_at s (r, p)) as [c|] eqn:G.
  - destruct (live_update_at' _ _ _ purge_list _ G _ I) as [(pre & rest & E & NE & GA)|[X|X]].
    + subst p. destruct (get_at s (r, pre)) as [m|] eqn:GM.
      * rewrite (get_at_update_at_prefix_full _ _ _ _ _ _ GM) in GA. inv GA.
        exists m. split. { eapply get_at_live; eauto. rewrite get_at_app, GM in G. destruct m; auto. apply get_in_leaf in G. destruct G as [G _]. contradiction. }
        split. rewrite nid_update_in; auto. apply nid_purge. apply ids_update_in_purge.
      * exfalso. rewrite get_at_app, GM in G. discriminate.
    + assert (CL : In c (live_nodes s)).
      { eapply get_at_live; eauto. destruct c; auto; simpl in X; contradiction. }
      destruct c as [l|i k pa pt fl its]. { simpl in X. contradiction. }
      assert (IC : forall x, In x (subnodes (purge_list (Node i k pa pt fl its))) ->
                   x = purge_list (Node i k pa pt fl its) \/ exists y, In y (subnodes (Node i k pa pt fl its)) /\ cont y = cont x).
      { intros x Ix. destruct k; [right; exists x; split; auto | | right; exists x; split; auto].
        simpl in Ix. destruct Ix as [Ix|Ix]; [left; simpl; auto|]. right.
        apply in_flat_map in Ix. destruct Ix as [kv [I1 I2]]. unfold renum in I1.
        assert (exists kv0, In kv0 its /\ cont (snd kv0) = cont (snd kv)).
        { clear - I1. revert I1. generalize 0%Z. induction its as [|[k0 c0] r0 IH]; simpl; intros z I1; try contradiction.
          destruct (negb (is_missing c0)); simpl in I1.
          - destruct I1 as [E|I1]. subst kv. simpl. exists (k0, c0). split; auto. simpl. symmetry. apply cont_reindex_child.
            destruct (IH _ I1) as [kv0 [A B]]. exists kv0. auto.
          - destruct (IH _ I1) as [kv0 [A B]]. exists kv0. auto. }
        destruct H as [kv0 [A B]]. destruct (subnodes_ceq _ _ B _ I2) as (y & Iy & Cy).
        exists y. split; auto. simpl. right. apply in_flat_map. exists kv0. auto. }
      destruct (IC _ X) as [E|(y & Iy & Cy)].
      * subst n'. exists (Node i k pa pt fl its). split; auto. split. symmetry. apply nid_purge. rewrite ids_purge_list. apply incl_refl.
      * exists y. split. eapply live_sub; eauto. split. apply cont_nid; auto. rewrite (cont_ids _ _ Cy). apply incl_refl.
    + exists n'. split; auto. split; auto. apply incl_refl.
  - exists n'. split. eapply update_at_none; eauto. split; auto. apply incl_refl.
Qed.
Lemma IDP_fix_chain : forall p s r, IDP s (fix_chain s (r, p)).
Proof.
  induction p using rev_ind; intros.
  - unfold fix_chain. simpl. apply IDP_purge_step.
  - rewrite fix_chain_snoc. eapply IDP_trans. apply IDP_purge_step. apply IHp.
Qed.

Lemma chain_covered : forall stf s i ps n', WFI stf -> IDP stf s -> wfs s -> locate s i = Some ps -> In n' (chain_at s ps) ->
  In (nid0 n') (map nid0 (chain_of stf i)).
Proof.
  intros stf s i [r p] n' W ID Ws L I.
  destruct (locate_spec _ _ _ Ws L) as (k & pa & pt & fl & its & G).
  apply chain_at_in in I. destruct I as (pre & rest & E & GA). subst p.
  assert (NN : is_node n' = true) by (eapply prefix_is_node; eauto).
  assert (LV : In n' (live_nodes s)) by (eapply get_at_live; eauto).
  assert (II : In i (ids n')). { rewrite get_at_app, GA in G. eapply get_in_ids; eauto. }
  destruct (ID _ LV) as (n & Ln & En & Sn). rewrite <- En. apply in_map. apply chain_char; auto.
Qed.
Lemma fix_chains_frame_gen : forall stf ups upd s, WFI stf ->
  (forall i, In i upd -> exists x, In x ups /\ u_tid x = i) ->
  WFI s -> IDP stf s -> FR stf s (reset_of (TN stf ups None)) ->
  FR stf (fix_chains s upd) (reset_of (TN stf ups None)).
Proof.
  intros stf ups. induction upd as [|i r IH]; intros s W C Ws ID F. exact F.
  unfold fix_chains in *. simpl. destruct (locate s i) as [ps|] eqn:L.
  - apply IH; auto. { intros; apply C; simpl; auto. }
    + eapply WFI_step; eauto. apply fix_chain_wfs. apply Ws. apply fix_chain_rel.
    + eapply IDP_trans; eauto. destruct ps. apply IDP_fix_chain.
    + eapply FR_mono. eapply FR_trans. exact F. destruct ps as [r0 p0]. apply fix_chain_frame.
      intros j J. apply in_app_or in J. destruct J as [J|J]; auto.
      apply in_map_iff in J. destruct J as [n' [E J]]. subst j.
      destruct (C i) as (x & Ix & Ex); simpl; auto.
      apply (tn_covers stf ups x Ix). rewrite Ex. eapply chain_covered; eauto. apply Ws.
  - apply IH; auto. intros; apply C; simpl; auto.
Qed.
Lemma fix_chains_frame : forall stf ups upd, WFI stf -> (forall i, In i upd -> exists x, In x ups /\ u_tid x = i) ->
  FR stf (fix_chains stf upd) (reset_of (TN stf ups None)).
Proof.
  intros. apply fix_chains_frame_gen; auto. apply IDP_refl. eapply FR_mono. apply FR_refl. intros x [].
Qed.

(* the same for the purge that stops at the rebind target (notify_parents=False): only the prefixes of length >= minlen *)
Lemma fix_chain_from_snoc : forall m st r p k,
  fix_chain_from m st (r, p ++ [k]) =
  if Nat.leb m (length (p ++ [k])) then fix_chain_from m (update_at st (r, p ++ [k]) purge_list) (r, p) else fix_chain_from m st (r, p).
Proof.
  intros. unfold fix_chain_from. simpl. rewrite prefixes_desc_snoc. simpl. destruct (Nat.leb m (length (p ++ [k]))); auto.
Qed.
Lemma fix_chain_from_frame : forall m p st r, FR st (fix_chain_from m st (r, p)) (map nid0 (chain_at st (r, p))).
Proof.
  intros m. induction p using rev_ind; intros.
  - unfold fix_chain_from. simpl. destruct (Nat.leb m 0); simpl. apply purge_step_frame. eapply FR_mono. apply FR_refl. intros x [].
  - rewrite fix_chain_from_snoc. destruct (Nat.leb m (length (p ++ [x]))).
    + eapply FR_mono. eapply FR_trans. apply purge_step_frame. apply IHp.
      intros i I. apply in_app_or in I. destruct I as [I|I]; auto.
      rewrite (chain_ids_update_at st r p [x] purge_list nid_purge) in I. apply chain_at_prefix_incl. auto.
    + eapply FR_mono. apply IHp. apply chain_at_prefix_incl.
Qed.
Lemma IDP_fix_chain_from : forall m p s r, IDP s (fix_chain_from m s (r, p)).
Proof.
  intros m. induction p using rev_ind; intros.
  - unfold fix_chain_from. simpl. destruct (Nat.leb m 0); simpl. apply IDP_purge_step. apply IDP_refl.
  - rewrite fix_chain_from_snoc. destruct (Nat.leb m (length (p ++ [x]))); auto. eapply IDP_trans. apply IDP_purge_step. apply IHp.
Qed.
Lemma fix_chain_from_WFI : forall m st ps, WFI st -> WFI (fix_chain_from m st ps).
Proof.
  intros m st ps W. unfold fix_chain_from. generalize (filter (fun pre : list key => Nat.leb m (length pre)) (prefixes_desc (snd ps))).
  intros l. revert st W. induction l; simpl; intros; auto. apply IHl. eapply WFI_step; eauto.
  - apply wfs_update_at_total; auto using purge_list_wf, is_node_purge_list. apply W.
  - apply ids_rel_same. apply next_update_at. apply all_ids_update_at_same. apply ids_purge_list.
Qed.
Lemma fix_chains_from_frame_gen : forall m stf R upd s, WFI stf ->
  (forall i, In i upd -> incl (map nid0 (chain_of stf i)) R) ->
  WFI s -> IDP stf s -> FR stf s R -> FR stf (fix_chains_from m s upd) R /\ WFI (fix_chains_from m s upd).
Proof.
  intros m stf R. induction upd as [|i r IH]; intros s W C Ws ID F. split; auto.
  unfold fix_chains_from in *. simpl. destruct (locate s i) as [ps|] eqn:L.
  - apply IH; auto. { intros; apply C; simpl; auto. }
    + apply fix_chain_from_WFI. auto.
    + eapply IDP_trans; eauto. destruct ps. apply IDP_fix_chain_from.
    + eapply FR_mono. eapply FR_trans. exact F. destruct ps as [r0 p0]. apply fix_chain_from_frame.
      intros j J. apply in_app_or in J. destruct J as [J|J]; auto.
      apply in_map_iff in J. destruct J as [n' [E J]]. subst j.
      apply (C i). simpl; auto. eapply chain_covered; eauto. apply Ws.
  - apply IH; auto. intros; apply C; simpl; auto.
Qed.

(* --- rebind ------------------------------------------------------------------------------------------------------------------------------------------------- *)
(* who is above a node after a write: nodes that are above the written container, or were above it before *)
Lemma chain_of_sound : forall s i n, wfs s -> In n (chain_of s i) -> In n (live_nodes s) /\ In i (ids n).
Proof.
  intros. destruct (chain_of_in _ _ _ H H0) as (r & p & pre & rest & L & E & G & NN). subst p.
  destruct (locate_spec _ _ _ H L) as (k & pa & pt & fl & its & G2).
  split. eapply get_at_live; eauto. rewrite get_at_app, G in G2. eapply get_in_ids; eauto.
Qed.
Lemma cov_step : forall s s1 c2 i R0, WFI s -> WFI s1 -> SH s s1 c2 -> (i < next_id s)%N ->
  incl (map nid0 (chain_of s i)) R0 -> incl (map nid0 (chain_of s1 i)) (map nid0 (chain_of s1 c2) ++ R0).
Proof.
  intros s s1 c2 i R0 W W1 [L S] B C j J. apply in_map_iff in J. destruct J as [n' [E J]]. subst j.
  destruct (chain_of_sound _ _ _ (proj1 W1) J) as [LV II].
  destruct (S _ LV) as [X|[X|(n & In' & Cn)]].
  - apply in_or_app. left. apply in_map. apply chain_char; auto.
  - exfalso. unfold allfresh in X. rewrite Forall_forall in X. apply X in II. lia.
  - apply in_or_app. right. apply C. rewrite <- (cont_nid _ _ Cn). apply in_map. apply chain_char; auto. rewrite (cont_ids _ _ Cn). auto.
Qed.

Lemma rebind_frame : forall q sc tp pvs st upd0,
  WFI st -> Forall (fun kv => rv_ok (snd kv)) pvs ->
  exists t u stf ok e upd',
    rebind_tr q sc st tp pvs = (t, u, stf, ok) /\
    rebind_loop q sc st tp pvs upd0 = (stf, upd0 ++ upd', if ok then None else Some e) /\
    FR st stf (rids t) /\ WFI stf /\ (forall i, In i upd' -> exists x, In x u /\ u_tid x = i) /\
    (next_id st <= next_id stf)%N /\
    (forall i R0, (i < next_id st)%N -> incl (map nid0 (chain_of st i)) R0 -> incl (map nid0 (chain_of stf i)) (R0 ++ rids t)) /\
    (forall i, In i upd' -> incl (map nid0 (chain_of stf i)) (rids t)).
Proof.
  intros q sc tp. induction pvs as [|[path rv] r IH]; intros st upd0 W OK.
  - exists [], [], st, true, EOther, []. simpl. rewrite app_nil_r. split; auto. split; auto. split. apply FR_refl. split; auto.
    split. intros i []. split. lia. split. intros. rewrite app_nil_r. auto. intros i [].
  - inv OK. simpl in H1. simpl.
    assert (STOP : forall e, exists t u stf ok e0 upd',
              ([] : trace, [] : list update, st, false) = (t, u, stf, ok) /\
              (st, upd0, Some e) = (stf, upd0 ++ upd', if ok then @None err else Some e0) /\
              FR st stf (rids t) /\ WFI stf /\ (forall i, In i upd' -> exists x, In x u /\ u_tid x = i) /\
              (next_id st <= next_id stf)%N /\
              (forall i R0, (i < next_id st)%N -> incl (map nid0 (chain_of st i)) R0 -> incl (map nid0 (chain_of stf i)) (R0 ++ rids t)) /\
              (forall i, In i upd' -> incl (map nid0 (chain_of stf i)) (rids t))).
    { intros e. exists [], [], st, false, e, []. rewrite app_nil_r. split; auto. split; auto. split. apply FR_refl. split; auto.
      split. intros i []. split. lia. split. intros. simpl. rewrite app_nil_r. auto. intros i []. }
    unfold rebind_one, rebind_one_tr.
    destruct path as [|k0 path']; [apply STOP|].
    set (rl := removelast (k0 :: path')). set (lk := last (k0 :: path') (KI 0)).
    destruct (get_at st tp) as [tgt|]; [|apply STOP].
    destruct (query_path tgt rl) as [app|]; [|apply STOP].
    destruct (get_at st (fst tp, snd tp ++ app)) as [[lf|cid ck cpa cpt cfl cits]|] eqn:G; try apply STOP.
    destruct (treats_as_sealed sc cfl); [apply STOP|].
    destruct (prim q sc st (fst tp, snd tp ++ app) lk rv) as [st1 p] eqn:P.
    destruct (prim_facts q (prim q) _ _ _ _ _ _ _ _ _ _ _ _ _ (or_intror (or_intror (or_intror eq_refl))) W H1 G P) as (W1 & S1 & ST1 & NU).
    destruct p.
    + assert (st1 = st) by (apply NU; discriminate). subst st1.
      destruct (IH st upd0 W H2) as (t & u & stf & ok & e & upd' & E1 & E2 & F & Wf & C & LE & CT & CV).
      exists t, u, stf, ok, e, upd'. rewrite E1, E2. simpl. auto 10.
    + destruct (IH st1 (upd0 ++ [cid]) W1 H2) as (t & u & stf & ok & e & upd' & E1 & E2 & F & Wf & C & LE & CT & CV).
      destruct (upd_of_tid st st1 (fst tp, snd tp ++ app) lk rv _ _ _ _ _ _ G) as (u0 & EU & TU).
      assert (CB : (cid < next_id st)%N).
      { change cid with (nid0 (Node cid ck cpa cpt cfl cits)). apply live_below; auto. eapply get_at_live; eauto. }
      exists (TW st1 cid :: t), (u0 :: u), stf, ok, e, (cid :: upd'). rewrite E1, E2. simpl.
      rewrite (cur_id_at _ _ _ _ _ _ _ _ G), EU. simpl. rewrite <- app_assoc. simpl.
      change (rids (TW st1 cid :: t)) with (map nid0 (chain_of st1 cid) ++ rids t).
      split; auto. split; auto. split; [|split; [auto|split; [|split; [|split]]]].
      * eapply FR_trans; eauto. destruct S1. apply FR_by_ids; auto.
      * intros i [E|I]. subst i. exists u0. simpl. auto. destruct (C _ I) as (x & Ix & Ex). exists x. simpl. auto.
      * destruct S1. lia.
      * intros i R0 B0 C0. pose proof (cov_step st st1 cid i R0 W W1 S1 B0 C0) as C1.
        assert (B1 : (i < next_id st1)%N) by (destruct S1; lia).
        pose proof (CT i _ B1 C1) as C2. intros x Ix. apply C2 in Ix.
        apply in_app_or in Ix. destruct Ix as [Ix|Ix]. apply in_app_or in Ix. destruct Ix as [Ix|Ix].
        apply in_or_app. right. apply in_or_app. auto. apply in_or_app. auto. apply in_or_app. right. apply in_or_app. auto.
      * intros i [E|I].
        -- subst i. assert (B1 : (cid < next_id st1)%N) by (destruct S1; lia).
           apply (CT cid (map nid0 (chain_of st1 cid)) B1 (incl_refl _)).
        -- intros x Ix. apply in_or_app. right. apply (CV _ I). auto.
    + assert (st1 = st) by (apply NU; discriminate). subst st1. apply STOP.
Qed.
Lemma rebind_core_frame : forall q sc st tp tk pvs nt,
  WFI st -> Forall (fun kv => rv_ok (snd kv)) pvs ->
  FR st (fst (rebind_core q sc st tp tk pvs nt)) (rids (rebind_core_tr q sc st tp tk pvs nt None)).
Proof.
  intros. unfold rebind_core, rebind_core_tr.
  set (ordered := match tk with KList => sort_desc pvs | _ => pvs end).
  assert (O : Forall (fun kv => rv_ok (snd kv)) ordered) by (unfold ordered; destruct tk; auto using sort_desc_forall').
  destruct (rebind_frame q sc tp ordered st [] H O) as (t & u & stf & ok & e & upd' & E1 & E2 & F & Wf & C & _).
  rewrite E1, E2. simpl. destruct ok; simpl; auto. destruct nt; simpl; auto.
  set (u' := match tk with KList => rev u | _ => u end).
  assert (C' : forall i, In i upd' -> exists x, In x u' /\ u_tid x = i).
  { intros i I. destruct (C _ I) as (x & Ix & Ex). exists x. split; auto. unfold u'. destruct tk; auto. apply -> in_rev. auto. }
  destruct u' as [|x0 xs] eqn:EU.
  - assert (upd' = []). { destruct upd' as [|i r]; auto. destruct (C' i) as (x & [] & _). simpl. auto. }
    subst upd'. unfold fix_chains. simpl. rewrite app_nil_r. auto.
  - rewrite rids_app. eapply FR_trans; eauto. unfold rids. simpl. rewrite app_nil_r. apply fix_chains_frame; auto.
Qed.

(* --- new roots (copies) and flag changes -------------------------------------------------------------------------------------------------------------------------- *)
Lemma add_root_frame : forall st st1 c, (next_id st <= next_id st1)%N -> (forall n, In n (live_nodes st1) -> In n (live_nodes st)) ->
  in_range (next_id st) (next_id st1) (ids c) -> FR st (add_root st1 c) [].
Proof.
  intros. split. simpl. auto. intros n' I. right. apply live_add_root in I. destruct I as [I|I].
  - apply good_live. auto.
  - left. eapply subnodes_fresh; eauto.
Qed.
Lemma cont_update_in : forall p f t c, get_in p t = Some c -> cont (f c) = cont c -> cont (update_in p f t) = cont t.
Proof.
  induction p; simpl; intros. inv H. auto.
  destruct t as [l|i k pa pt fl its]; simpl in *; auto.
  destruct (assoc a its) as [c0|] eqn:A; [|discriminate]. f_equal.
  clear - A H H0 IHp. induction its as [|[k0 x] r IH]; simpl in *; [discriminate|]. destruct (key_eqb a k0) eqn:E; simpl.
  - inv A. f_equal. f_equal. eauto.
  - f_equal. auto.
Qed.
Lemma cont_frame : forall st ps f c, get_at st ps = Some c -> cont (f c) = cont c -> FR st (update_at st ps f) [].
Proof.
  intros st [r p] f c G C. split. rewrite next_update_at. lia. intros n' I. right.
  unfold update_at, get_at in *. simpl in *. destruct (get_root st r) as [t|] eqn:R; [|apply good_live; auto].
  apply live_set_root_live in I. destruct I as [I|I]; [|apply good_live; auto].
  destruct (subnodes_ceq t (update_in p f t)) with (m' := n') as (m & Im & Cm); auto. { symmetry. eapply cont_update_in; eauto. }
  right. exists m. split; auto. eapply live_root; eauto.
Qed.

(* --- every operation ---------------------------------------------------------------------------------------------------------------------------------------------------- *)
(* where the identity test of sort / reverse says that no position holds another object, the items are the same list *)
Definition op_exact (its : list (key * node)) (o : op rvalue) : Prop :=
  match o with
  | LReverse => all_same its (rev its) = true -> rev its = its
  | LSort ks rv => all_same its (map snd (stable_sort rv (zip_keys ks its))) = true -> map snd (stable_sort rv (zip_keys ks its)) = its
  | _ => True
  end.
Lemma get_root_add_root_new' : forall st t, get_root (add_root st t) (length (roots st)) = Some t.
Proof. intros. unfold get_root, add_root. simpl. rewrite nth_error_app2, Nat.sub_diag; auto. Qed.
Lemma new_list_from_facts : forall q st its c st1, new_list_from q st its = (c, st1) ->
  (next_id st <= next_id st1)%N /\ live_nodes st1 = live_nodes st /\ in_range (next_id st) (next_id st1) (ids c) /\
  exists cid fl its', c = Node cid KList None [] fl its'.
Proof.
  intros. unfold new_list_from in H.
  pose proof (clone_at_ids (q_copy_drops_missing q) false (Node 0%N KList None [] default_flags its) None [] (next_id st, [])) as C.
  rewrite clone_at_node in H, C. cbv zeta in H, C. simpl fst in H, C. simpl snd in H, C.
  destruct (clone_items _ _ _ _ _ _ _ _) as [its' cs'].
  inv H. destruct C as (L & R & N). simpl in *. repeat split; auto. eauto.
Qed.

Ltac frefl E := inv E; apply FR_refl.
Theorem exec_frame : forall q sc st ps tid tk pa tpth tfl its ro st' out,
  WFI st -> get_at st ps = Some (Node tid tk pa tpth tfl its) -> kind_ok tk ro = true -> op_ok ro -> op_exact its ro ->
  exec q sc st ps tid tk tpth tfl its ro = (st', out) ->
  FR st st' (rids (exec_trace q sc st ps tid tk tpth tfl its ro)).
Proof.
  intros q sc st ps tid tk pa tpth tfl its ro st' out WI G K OK EX E.
  pose proof WI as (W & I).
  destruct (container_facts _ _ _ _ _ _ _ _ W G) as (Ept & KO & CH).
  assert (CG := children_good _ _ _ _ _ _ _ _ G).
  assert (TO := exec_trace_ok q sc st ps tid tk pa tpth tfl its ro WI G K OK).
  assert (PL : is_prim q (lprim q)) by (left; auto).
  assert (PD : is_prim q (dprim q)) by (right; left; auto).
  assert (PO : is_prim q (oprim q)) by (right; right; left; auto).
  unfold exec_trace in *.
  destruct ro; simpl in K, OK, E, EX;
    try (destruct tk; try discriminate; []);
    try (destruct (treats_as_sealed sc tfl) eqn:SL; [frefl E|]).
  - (* LSet *)
    destruct (negb (writable_via_accessors sc tfl)); [frefl E|].
    destruct ((i <? - zlen its) || (i >=? zlen its))%Z; [frefl E|].
    destruct (lprim q sc st ps (KI i) v) as [st1 p] eqn:L.
    pose proof (write1_frame q (lprim q) sc st ps (KI i) v st1 p _ _ _ _ _ _ PL WI OK G L) as F.
    destruct p; inv E; exact F.
  - (* LDel *)
    destruct (negb (writable_via_accessors sc tfl)); [frefl E|].
    destruct ((i <? - zlen its) || (i >=? zlen its))%Z; [frefl E|].
    inv E. eapply ldel_frame; eauto.
  - (* LAppend *)
    destruct (lprim q sc st ps (KI (zlen its)) v) as [st1 p] eqn:L.
    pose proof (write1_frame q (lprim q) sc st ps (KI (zlen its)) v st1 p _ _ _ _ _ _ PL WI OK G L) as F.
    destruct p; inv E; exact F.
  - (* LInsert *)
    destruct (lprim q sc st ps (KI i) (RIns v)) as [st1 p] eqn:L.
    assert (OK' : rv_ok (RIns v)) by (simpl; auto).
    pose proof (write1_frame q (lprim q) sc st ps (KI i) (RIns v) st1 p _ _ _ _ _ _ PL WI OK' G L) as F.
    destruct p; inv E; exact F.
  - (* LExtend *)
    replace st' with (fst (extend_core q sc st ps vs)) by (rewrite E; auto). eapply extend_core_frame; eauto.
  - (* LPop *)
    destruct ((_ <? - zlen its) || (_ >=? zlen its))%Z; [frefl E|].
    destruct (treats_as_sealed sc tfl); [frefl E|].
    destruct (ldel_core sc st ps _) as [st1 r] eqn:L. inv E.
    replace st' with (fst (ldel_core sc st ps (Z.to_nat ((match i with Some i0 => i0 | None => -1 end + zlen its) mod zlen its)))) by (rewrite L; auto).
    eapply ldel_frame; eauto.
  - (* LRemove *)
    destruct (find_index _ its); [|frefl E].
    destruct (treats_as_sealed sc tfl); [frefl E|].
    destruct (negb (writable_via_accessors sc tfl)); [frefl E|].
    inv E. eapply ldel_frame; eauto.
  - (* LClear *) inv E. unfold clear_list_tr. eapply clear_frame; eauto; simpl; auto.
  - (* LReverse *) inv E. eapply reorder_frame; eauto; try (apply Forall_rev; auto); try apply perm_rev.
  - (* LSort *) inv E. eapply reorder_frame; eauto; try (apply sorted_forall; auto); try apply perm_sorted.
  - (* LIAdd *)
    replace st' with (fst (extend_core q sc st ps vs)) by (rewrite E; auto). eapply extend_core_frame; eauto.
  - (* LIMul *)
    destruct (n <=? 0)%Z.
    + inv E. unfold clear_list_tr. eapply clear_frame; eauto; simpl; auto.
    + match type of E with extend_core _ _ _ _ ?r = _ => replace st' with (fst (extend_core q sc st ps r)) by (rewrite E; auto) end.
      eapply extend_core_frame; eauto. apply repeat_list_forall, rv_of_item_ok.
  - (* LAdd *)
    destruct (treats_as_sealed sc default_flags); [frefl E|].
    destruct (new_list_from q st its) as [c st1] eqn:NL.
    destruct (new_list_from_facts _ _ _ _ _ NL) as (L1 & LV & RG & cid & cfl & cits & EC).
    destruct (new_list_from_wfs _ _ _ _ _ _ _ W CH NL) as (W1 & N1 & Wc).
    pose proof (new_list_from_rel _ _ _ _ _ NL) as R1.
    assert (WI1 : WFI (add_root st1 c)) by (eapply WFI_step; eauto using wfs_add_root).
    assert (F1 : FR st (add_root st1 c) []). { apply add_root_frame; auto. rewrite LV. auto. }
    assert (G1 : get_at (add_root st1 c) (length (roots st1), []) = Some (Node cid KList None [] cfl cits)).
    { unfold get_at. simpl. rewrite get_root_add_root_new'. subst c. auto. }
    pose proof (extend_core_frame q sc (add_root st1 c) (length (roots st1), []) vs _ _ _ _ _ _ WI1 OK G1) as F2.
    destruct (extend_core q sc (add_root st1 c) (length (roots st1), []) vs) as [st2 o2] eqn:X. simpl in F2.
    assert (st' = st2) by (destruct o2; inv E; auto). subst st'.
    eapply FR_mono. eapply FR_trans; eauto. simpl. apply incl_refl.
  - (* LMul *)
    destruct ((n >=? 1)%Z && treats_as_sealed sc default_flags); [frefl E|].
    destruct (new_list_from q st []) as [c st1] eqn:NL.
    destruct (new_list_from_facts _ _ _ _ _ NL) as (L1 & LV & RG & cid & cfl & cits & EC).
    destruct (new_list_from_wfs q st [] c st1 tid (snd ps) W (Forall_nil _) NL) as (W1 & N1 & Wc).
    pose proof (new_list_from_rel _ _ _ _ _ NL) as R1.
    assert (WI1 : WFI (add_root st1 c)) by (eapply WFI_step; eauto using wfs_add_root).
    assert (F1 : FR st (add_root st1 c) []). { apply add_root_frame; auto. rewrite LV. auto. }
    assert (G1 : get_at (add_root st1 c) (length (roots st1), []) = Some (Node cid KList None [] cfl cits)).
    { unfold get_at. simpl. rewrite get_root_add_root_new'. subst c. auto. }
    set (rvs := repeat_list (Z.to_nat n) (map (fun kv : key * node => rv_of_item (snd kv)) its)) in *.
    assert (OKr : Forall rv_ok rvs) by (apply repeat_list_forall, rv_of_item_ok).
    destruct (extend_frame q sc (length (roots st1), []) cid KList None [] cfl rvs (add_root st1 c) false cits WI1 OKr G1)
      as (t & u & stf & ok & e & E1 & E2 & F & Wf & ST & FU).
    rewrite E2 in E. rewrite E1. simpl.
    assert (st' = stf) by (destruct ok; inv E; auto). subst st'.
    eapply FR_mono. eapply FR_trans; eauto. simpl. apply incl_refl.
  - (* LCopy *)
    destruct (new_list_from q st its) as [c st1] eqn:NL. inv E.
    destruct (new_list_from_facts _ _ _ _ _ NL) as (L1 & LV & RG & _).
    apply add_root_frame; auto. rewrite LV. auto.
  - (* DSet *)
    destruct (negb (writable_via_accessors sc tfl)); [frefl E|].
    destruct (dprim q sc st ps k v) as [st1 p] eqn:L.
    pose proof (write1_frame q (dprim q) sc st ps k v st1 p _ _ _ _ _ _ PD WI OK G L) as F.
    destruct p; inv E; exact F.
  - (* DDel *)
    destruct (negb (writable_via_accessors sc tfl)); [frefl E|].
    destruct (negb (has_key k its)); [frefl E|].
    destruct (dprim q sc st ps k (RLeaf LMissing)) as [st1 p] eqn:L.
    assert (OK' : rv_ok (RLeaf LMissing)) by (simpl; auto).
    pose proof (write1_frame q (dprim q) sc st ps k (RLeaf LMissing) st1 p _ _ _ _ _ _ PD WI OK' G L) as F.
    destruct p; inv E; exact F.
  - (* DPop *)
    destruct (assoc k its); [|destruct d; frefl E].
    destruct (treats_as_sealed sc tfl); [frefl E|].
    destruct (dprim q sc st ps k (RLeaf LMissing)) as [st1 p] eqn:L.
    assert (OK' : rv_ok (RLeaf LMissing)) by (simpl; auto).
    pose proof (write1_frame q (dprim q) sc st ps k (RLeaf LMissing) st1 p _ _ _ _ _ _ PD WI OK' G L) as F.
    destruct p; inv E; exact F.
  - (* DPopItem *)
    destruct (rev its) as [|[k old] r] eqn:R; [frefl E|]. inv E.
    set (st1 := add_detached (update_at st ps (set_items (removelast its))) old) in *.
    destruct (items_shape st ps tid KDict pa _ tfl its (removelast its) G) as (L & S & ST). { apply removelast_forall. auto. }
    assert (IO : In (k, old) its). { apply in_rev. rewrite R. simpl. auto. }
    eapply tw_then_purge.
    + apply trace_ok_head in TO. exact TO.
    + split. unfold st1. rewrite next_add_detached. auto. unfold st1. eapply add_detached_good; eauto.
      intros m Im. simpl in Im. rewrite Forall_forall in CG. apply (CG _ IO). auto.
    + unfold st1. apply stays_detached. eauto.
  - (* DClear *) inv E. eapply clear_frame; eauto; simpl; try constructor.
  - (* DSetDefault *)
    destruct (assoc k its) as [old|].
    + destruct (is_missing old); [|frefl E].
      destruct (treats_as_sealed sc tfl); [frefl E|].
      destruct (negb (writable_via_accessors sc tfl)); [frefl E|].
      destruct (dprim q sc st ps k v) as [st1 p] eqn:L.
      pose proof (write1_frame q (dprim q) sc st ps k v st1 p _ _ _ _ _ _ PD WI OK G L) as F.
      destruct p; inv E; exact F.
    + destruct (treats_as_sealed sc tfl); [frefl E|].
      destruct (negb (writable_via_accessors sc tfl)); [frefl E|].
      destruct (dprim q sc st ps k v) as [st1 p] eqn:L.
      pose proof (write1_frame q (dprim q) sc st ps k v st1 p _ _ _ _ _ _ PD WI OK G L) as F.
      destruct p; inv E; exact F.
  - (* DUpdate *)
    match type of E with rebind_core _ _ _ _ _ ?r _ = _ => replace st' with (fst (rebind_core q sc st ps KDict r false)) by (rewrite E; auto) end.
    apply rebind_core_frame; auto. apply Forall_map. simpl. auto.
  - (* DIOr *)
    match type of E with rebind_core _ _ _ _ _ ?r _ = _ => replace st' with (fst (rebind_core q sc st ps KDict r false)) by (rewrite E; auto) end.
    apply rebind_core_frame; auto. apply Forall_map. simpl. auto.
  - (* DCopy *)
    pose proof (clone_at_ids (q_copy_drops_missing q) false (Node tid KDict None [] tfl its) None [] (next_id st, [])) as C.
    destruct (clone_at _ false None [] _ _) as [c cs] eqn:CL. inv E. destruct C as (L1 & RG & _). simpl in *.
    apply add_root_frame; auto.
  - (* OSet *)
    destruct (negb (existsb (key_eqb k) (class_fields cls))); [frefl E|].
    destruct (treats_as_sealed sc tfl); [frefl E|].
    destruct (negb (writable_via_accessors sc tfl)); [frefl E|].
    destruct (oprim q sc st ps k v) as [st1 p] eqn:L.
    pose proof (write1_frame q (oprim q) sc st ps k v st1 p _ _ _ _ _ _ PO WI OK G L) as F.
    destruct p; inv E; exact F.
  - (* Rebind *)
    destruct pvs; [frefl E|].
    destruct (match tk with KObj _ => treats_as_sealed sc tfl | _ => false end); [frefl E|].
    replace st' with (fst (rebind_core q sc st ps tk (p :: pvs) (notify_on sc))) by (rewrite E; auto).
    apply rebind_core_frame; auto.
  - (* Clone *)
    pose proof (clone_at_ids (q_copy_drops_missing q) (N.eqb mode 1 || N.eqb mode 3) (Node tid tk None [] tfl its) None [] (next_id st, [])) as C.
    destruct (clone_at _ _ None [] _ _) as [c cs] eqn:CL. inv E. destruct C as (L1 & RG & _). simpl in *.
    apply add_root_frame; auto.
  - (* Seal *) inv E. eapply cont_frame; eauto. apply cont_seal_rec.
  - (* SetAW *) inv E. eapply cont_frame; eauto.
Qed.

(* --- steps and histories -------------------------------------------------------------------------------------------------------------------------------------------------- *)
Definition step_exact (st : state) (o : sop) : Prop :=
  match get_at st (o_pos o) with
  | Some (Node _ _ _ _ _ its) => match resolve_op st (o_op o) with Some ro => op_exact its ro | None => True end
  | _ => True
  end.
Lemma kind_ok_resolve : forall st o ro tk, resolve_op st o = Some ro -> kind_ok tk o = true -> kind_ok tk ro = true.
Proof.
  intros. destruct o; simpl in *;
    repeat match goal with
           | H : option_map _ ?x = Some _ |- _ => destruct x eqn:?; simpl in H; [|discriminate]
           end; inv H; auto.
Qed.
Theorem step_frame : forall q st o, WFI st -> step_exact st o -> FR st (fst (step q st o)) (rids (step_trace q st o)).
Proof.
  intros q st o W EX. unfold step, step_trace, step_exact in *.
  destruct (get_at st (o_pos o)) as [[lf|tid tk pa tpth tfl its]|] eqn:G; try apply FR_refl.
  destruct (kind_ok tk (o_op o)) eqn:K; simpl; [|apply FR_refl].
  destruct (resolve_op st (o_op o)) as [ro|] eqn:R; [|apply FR_refl].
  destruct (exec q (o_scope o) st (o_pos o) tid tk tpth tfl its ro) as [st' out] eqn:E. simpl.
  eapply FR_mono. eapply FR_trans. eapply exec_frame; eauto. eapply kind_ok_resolve; eauto. eapply resolve_op_ok; eauto.
  apply gc_frame. rewrite app_nil_r. apply incl_refl.
Qed.

(* rebind(..., notify_parents=False): the purge stops at the rebind target; the resets of the writes alone cover it *)
Lemma rebindx_core_frame : forall q sc st tp tk pvs nt np stop,
  WFI st -> Forall (fun kv => rv_ok (snd kv)) pvs -> (np = true -> stop = None) ->
  FR st (fst (rebindx_core q sc st tp tk pvs nt np)) (rids (rebind_core_tr q sc st tp tk pvs nt stop)) /\
  WFI (fst (rebindx_core q sc st tp tk pvs nt np)).
Proof.
  intros q sc st tp tk pvs nt np stop W OK NP. unfold rebindx_core. destruct np.
  - rewrite (NP eq_refl). split. apply rebind_core_frame; auto.
    destruct (rebind_core q sc st tp tk pvs nt) as [st' o] eqn:RC. simpl.
    eapply WFI_step; eauto. destruct W. eapply rebind_core_wfs; eauto. eapply rebind_core_rel; eauto.
  - unfold rebind_core_tr.
    set (ordered := match tk with KList => sort_desc pvs | _ => pvs end).
    assert (O : Forall (fun kv => rv_ok (snd kv)) ordered) by (unfold ordered; destruct tk; auto using sort_desc_forall').
    destruct (rebind_frame q sc tp ordered st [] W O) as (t & u & stf & ok & e & upd' & E1 & E2 & F & Wf & C & LE & CT & CV).
    rewrite E1, E2. simpl. destruct ok; simpl; auto. destruct nt; simpl; auto.
    destruct (fix_chains_from_frame_gen (length (snd tp)) stf (rids t) upd' stf Wf CV Wf (IDP_refl _)) as [F2 W2].
    { eapply FR_mono. apply FR_refl. intros x []. }
    split; auto. eapply FR_mono. eapply FR_trans; eauto.
    intros x Ix. rewrite rids_app. apply in_or_app. left. apply in_app_or in Ix. tauto.
Qed.

(* one step of the extended model keeps the forest well-formed ... *)
Lemma stepx_facts : forall q st sc ps pvs skip np, WFI st ->
  WFI (fst (fst (stepx q st sc ps pvs skip np))) /\
  FR st (fst (fst (stepx q st sc ps pvs skip np))) (rids (snd (stepx q st sc ps pvs skip np))).
Proof.
  intros. unfold stepx.
  destruct (get_at st ps) as [[lf|tid tk pa tpth tfl its]|]; simpl; try (split; [auto|apply FR_refl]).
  destruct (resolve_kvs st pvs) as [[|pv r]|] eqn:RK; simpl; try (split; [auto|apply FR_refl]).
  destruct (match tk with KObj _ => treats_as_sealed sc tfl | _ => false end); simpl; try (split; [auto|apply FR_refl]).
  assert (OK : Forall (fun kv => rv_ok (snd kv)) (pv :: r)) by (eapply resolve_kvs_ok; eauto).
  destruct (rebindx_core_frame q sc st ps tk (pv :: r) (match skip with Some b => negb b | None => notify_on sc end) np
                               (if np then None else Some tid) H OK) as [F W1]. { intros E; rewrite E; auto. }
  destruct (rebindx_core q sc st ps tk (pv :: r) (match skip with Some b => negb b | None => notify_on sc end) np) as [st' out]. simpl in *.
  split.
  - eapply WFI_step; eauto. apply gc_wfs. apply W1. apply gc_rel.
  - eapply FR_mono. eapply FR_trans. exact F. apply gc_frame. rewrite app_nil_r. apply incl_refl.
Qed.

(* which steps need a side condition: only sort() / reverse() (see op_exact) *)
Definition covered (st : state) (o : op2) : Prop :=
  match o with
  | Base so => step_exact st so
  | RebindX _ _ _ _ _ => True
  | Query _ _ => True
  end.
Theorem step2_WFI : forall q xs o, WFI (x_st xs) -> covered (x_st xs) o -> WFI (x_st (fst (fst (step2 q xs o)))).
Proof.
  intros q [st c] o W CV. destruct o; simpl in *.
  - pose proof (step_WFI q st o W). destruct (step q st o). simpl in *. auto.
  - destruct (stepx_facts q st sc ps pvs skip np W) as [W1 _]. destruct (stepx q st sc ps pvs skip np) as [[st' out] tr]. simpl in *. auto.
  - destruct (get_at st ps) as [[lf|i k pa pt fl its]|]; simpl; auto.
Qed.
(* ... and every memoised fact valid *)
Theorem step2_fresh : forall q xs o, WFI (x_st xs) -> covered (x_st xs) o -> Fresh xs -> Fresh (fst (fst (step2 q xs o))).
Proof.
  intros q [st c] o W CV F. destruct o; simpl in *.
  - pose proof (step_frame q st o W CV) as FRM. destruct (step q st o) as [st' out]. simpl in *.
    rewrite apply_trace_reset. eapply reset_sound; eauto.
  - destruct (stepx_facts q st sc ps pvs skip np W) as [_ FRM].
    destruct (stepx q st sc ps pvs skip np) as [[st' out] tr]. simpl in *.
    rewrite apply_trace_reset. eapply reset_sound; eauto.
  - destruct (get_at st ps) as [[lf|i k pa pt fl its]|] eqn:G; simpl; auto.
    apply (query_fresh st c (Node i k pa pt fl its) f W F). eapply get_at_live; eauto.
Qed.

Fixpoint history_ok (q : quirks) (xs : xstate) (ops : list op2) : Prop :=
  match ops with
  | [] => True
  | o :: r => covered (x_st xs) o /\ history_ok q (fst (fst (step2 q xs o))) r
  end.
Theorem history_fresh : forall q ops xs, WFI (x_st xs) -> Fresh xs -> history_ok q xs ops ->
  WFI (x_st (run2 q xs ops)) /\ Fresh (run2 q xs ops).
Proof.
  induction ops; simpl; intros; auto. destruct H1 as [CV HK]. unfold run2 in *. simpl.
  apply IHops; auto. apply step2_WFI; auto. apply step2_fresh; auto.
Qed.
Lemma no_caches_fresh : forall st, Fresh (mkX st no_caches).
Proof. intros. split. intros n I. repeat split; intros v L; discriminate. repeat split; intros i v L; discriminate. Qed.

(* FRESHNESS: after any history, for every live node, every derived fact it reports is the fact of its current contents *)
Theorem reports_fresh : forall q ls ops n,
  forallb lit_valid ls = true ->
  let xs0 := mkX (init_forest ls empty_state) no_caches in
  history_ok q xs0 ops ->
  let xs := run2 q xs0 ops in
  In n (live_nodes (x_st xs)) ->
  report_pure (x_c xs) n = val_pure n /\ report_miss (x_c xs) n = val_miss n /\ report_nond (x_c xs) n = val_nond n /\
  report_partial (x_c xs) n = mv_nonempty (val_miss n).
Proof.
  intros q ls ops n LV xs0 HK xs I.
  assert (W0 : WFI (x_st xs0)). { simpl. apply init_forest_WFI. apply empty_WFI. auto. }
  destruct (history_fresh q ops xs0 W0 (no_caches_fresh _) HK) as [W F]. fold xs in W, F.
  destruct xs as [st c]. simpl in *.
  destruct (query_fresh st c n 0%N W F I) as (_ & A & B & C). unfold report_partial. rewrite B. auto.
Qed.

(* the structural values ARE what a computation without any memo gives *)
Lemma fresh_is_val : forall n, NoDup (ids n) ->
  fresh_pure n = val_pure n /\ fresh_miss n = val_miss n /\ fresh_nond n = val_nond n.
Proof.
  intros. unfold fresh_pure, fresh_miss, fresh_nond, q_miss, q_nond, val_miss, val_nond.
  split; [|split].
  - apply q_pure_sound; auto. intros m _ v L. discriminate.
  - apply q_gen_sound; auto. intros m _ v L. discriminate.
  - apply q_gen_sound; auto. intros m _ v L. discriminate.
Qed.
Theorem reports_are_fresh : forall q ls ops n,
  forallb lit_valid ls = true ->
  let xs0 := mkX (init_forest ls empty_state) no_caches in
  history_ok q xs0 ops ->
  let xs := run2 q xs0 ops in
  In n (live_nodes (x_st xs)) ->
  report_pure (x_c xs) n = fresh_pure n /\ report_miss (x_c xs) n = fresh_miss n /\ report_nond (x_c xs) n = fresh_nond n /\
  report_partial (x_c xs) n = mv_nonempty (fresh_miss n).
Proof.
  intros q ls ops n LV xs0 HK xs I.
  destruct (reports_fresh q ls ops n LV HK I) as (A & B & C & D). fold xs0 in A, B, C, D. fold xs in A, B, C, D.
  assert (W0 : WFI (x_st xs0)). { simpl. apply init_forest_WFI. apply empty_WFI. auto. }
  destruct (history_fresh q ops xs0 W0 (no_caches_fresh _) HK) as [W _]. fold xs in W.
  destruct (fresh_is_val n (live_nodup _ _ W I)) as (E1 & E2 & E3). rewrite E1, E2, E3. auto.
Qed.

(* GenoViewsProofs.v — the exported views are lossless (property C12). *)
From PG Require Import Common.Tactics Model.Geno Model.GenoViews Proofs.GenoBasics Proofs.GenoValid Proofs.GenoNext
  Proofs.GenoConcrete.

(* ---- flat numbers ---------------------------------------------------------------------------------------- *)
Lemma to_numbers_unfold : forall v cs,
  to_numbers (D v cs) = (if is_none v then [] else [v]) ++ flat_map to_numbers cs.
Proof. reflexivity. Qed.
Lemma to_numbers_mk : forall v cs,
  to_numbers (mk v cs) = (if is_none v then [] else [v]) ++ flat_map to_numbers cs.
Proof.
  intros v cs. unfold mk.
  destruct cs as [|[w gs] [|c2 r]]; [destruct v; reflexivity | | destruct w, v; reflexivity].
  destruct w, v; try (simpl; rewrite ?app_nil_r; reflexivity).
  destruct gs as [|g [|g2 gr]]; simpl; rewrite ?app_nil_r; reflexivity.
Qed.

(* the numbers of a decision, read off the structure *)
Fixpoint snums (d : sdna) : list dval := match d with SSpace ds => flat_map pnums ds end
with pnums (x : pdna) : list dval :=
  match x with
  | PChoices cs => flat_map (fun cs0 => vint (fst cs0) :: snums (snd cs0)) cs
  | PFloat f => [VFlt f]
  | PCustom s => [VStr s]
  end.

Lemma to_numbers_node : forall c x, to_numbers (mk (VInt (Z.of_nat c)) [x]) = vint c :: to_numbers x.
Proof. intros. rewrite to_numbers_mk. cbn [is_none flat_map app]. rewrite app_nil_r. reflexivity. Qed.
Lemma flat_map_map : forall A B C (f : A -> B) (g : B -> list C) l, flat_map g (map f l) = flat_map (fun x => g (f x)) l.
Proof. induction l; simpl; auto. rewrite IHl. reflexivity. Qed.
Lemma flat_map_ext_in : forall A B (f g : A -> list B) l, Forall (fun x => f x = g x) l -> flat_map f l = flat_map g l.
Proof. induction 1; simpl; auto. rewrite H, IHForall. reflexivity. Qed.

Lemma to_numbers_normalize_both :
  (forall d, to_numbers (normalize d) = snums d) /\ (forall x, to_numbers (norm_p x) = pnums x).
Proof.
  apply sdna_pdna_ind.
  - intros ds IH. cbv beta. change (normalize (SSpace ds)) with (mk VNone (map norm_p ds)).
    rewrite to_numbers_mk. cbn [is_none app snums]. rewrite flat_map_map. apply flat_map_ext_in. exact IH.
  - intros cs IH. cbv beta.
    change (norm_p (PChoices cs)) with (mk VNone (map (fun cs0 => mk (VInt (Z.of_nat (fst cs0))) [normalize (snd cs0)]) cs)).
    rewrite to_numbers_mk. cbn [is_none app pnums]. rewrite flat_map_map. apply flat_map_ext_in.
    eapply Forall_impl; [|exact IH]. intros [c sub] Hs. cbn [fst snd] in *. rewrite to_numbers_node, Hs. reflexivity.
  - reflexivity.
  - reflexivity.
Qed.
Lemma to_numbers_normalize : forall d, to_numbers (normalize d) = snums d.
Proof. apply to_numbers_normalize_both. Qed.

Lemma map_sto_app : forall A X (f : A -> list dval -> option (X * list dval)) (g : X -> list dval) es xs,
  Forall2 (fun e x => forall rest, f e (g x ++ rest) = Some (x, rest)) es xs ->
  forall rest, map_sto f es (flat_map g xs ++ rest) = Some (xs, rest).
Proof.
  induction 1; intros rest; simpl. reflexivity.
  rewrite <- app_assoc, H, IHForall2. reflexivity.
Qed.

Lemma parse_nums_both :
  (forall s, forall d, valid s d = true -> forall rest, parse_nums s (snums d ++ rest) = Some (d, rest)) /\
  (forall p, forall x, valid_p p x = true -> forall rest, parse_nums_p p (pnums x ++ rest) = Some (x, rest)).
Proof.
  apply dspec_dpoint_ind.
  - intros es IH [ds] Hv rest. simpl in Hv. apply forallb2_Forall2 in Hv. simpl.
    rewrite (map_sto_app _ _ (fun e l0 => parse_nums_p e l0) pnums es ds). reflexivity.
    clear rest. induction Hv; constructor.
    + inv IH. auto.
    + inv IH. auto.
  - intros k cands dist srt nm lits IH x Hv rest. destruct x as [cs| |]; try discriminate.
    apply valid_p_choices in Hv as [Hl [[_ Hb] Hf]]. simpl.
    rewrite (map_sto_app _ _ _ (fun cs0 : nat * sdna => vint (fst cs0) :: snums (snd cs0)) (seq 0 k) cs). reflexivity.
    clear rest. assert (G : forall (l : list nat) cs', length l = length cs' ->
        Forall (fun y => y < length cands) (map fst cs') ->
        Forall (fun x : nat * sdna => with_nth (fun s => valid s (snd x)) false cands (fst x) = true) cs' ->
        Forall2 (fun (_ : nat) (x : nat * sdna) => forall rest,
          match vint (fst x) :: snums (snd x) ++ rest with
          | [] => None
          | v :: r => match index_of v (length cands) with
                      | None => None
                      | Some c => match with_nth (fun s => parse_nums s r) None cands c with
                                  | Some (sub, r') => Some ((c, sub), r') | None => None end
                      end
          end = Some (x, rest)) l cs').
    { induction l; intros [|[c sub] cs'] Hl' Hb' Hf'; simpl in Hl'; try lia; constructor.
      - intros rest. cbn [fst snd].
        apply Forall_cons_iff in Hb' as [Hb' _]. apply Forall_cons_iff in Hf' as [Hf' _]. simpl in Hb', Hf'.
        rewrite index_of_vint by auto. rewrite with_nth_nth_error in *.
        destruct (nth_error cands c) as [sc|] eqn:E; [|discriminate].
        eapply nth_error_Forall in IH; eauto. rewrite (IH sub Hf' rest). reflexivity.
      - apply Forall_cons_iff in Hb' as [_ Hb']. apply Forall_cons_iff in Hf' as [_ Hf']. apply IHl; auto. }
    apply G; auto. rewrite seq_length. auto.
  - intros lo hi nm x Hv rest. destruct x; try discriminate. reflexivity.
  - intros nm x Hv rest. destruct x; try discriminate. reflexivity.
Qed.

Theorem numbers_roundtrip : forall q s d, wf s = true -> valid s d = true ->
  from_numbers q s (to_numbers (normalize d)) = bind q s (normalize d) /\
  exists b, from_numbers q s (to_numbers (normalize d)) = Some b /\ strip b = normalize d /\ aligned q s b.
Proof.
  intros q s d Hwf Hv.
  assert (E : from_numbers q s (to_numbers (normalize d)) = bind q s (normalize d)).
  { unfold from_numbers. rewrite to_numbers_normalize.
    rewrite <- (app_nil_r (snums d)). rewrite (proj1 parse_nums_both s d Hv []). reflexivity. }
  split; auto. rewrite E. apply bind_complete; auto.
Qed.

(* ---- nested values: compact JSON value, nested numbers ----------------------------------------------------- *)
(* DNA trees the nested forms can carry: constructor normal form, and only int / float / no value above children *)
Inductive jsonable : dna -> Prop :=
| J_leaf : forall v, jsonable (D v [])
| J_node : forall v cs, cs <> [] -> (forall s, v <> VStr s) -> (v = VNone -> length cs <> 1) ->
           (forall c, cs = [c] -> Geno.dvalue c <> VNone) -> Forall jsonable cs -> jsonable (D v cs).

(* both nested renderings are instances of one function that differs only in how an empty DNA is written *)
Fixpoint tcg (leaf : nest) (d : dna) : nest :=
  match d with D v cs =>
    match cs with
    | [] => if is_none v then leaf else NV v
    | _ => let nodes := map (tcg leaf) cs in
           if is_none v then NL nodes else
           match nodes with
           | [NT l] => NT (NV v :: l)
           | [single] => NT [NV v; single]
           | _ => NT [NV v; NL nodes]
           end
    end end.
Lemma to_compact_tcg : forall d, to_compact d = tcg (NV VNone) d.
Proof.
  apply dna_ind2. intros v cs IH.
  assert (E : map to_compact cs = map (tcg (NV VNone)) cs).
  { induction IH; simpl; f_equal; auto. }
  destruct cs as [|c r].
  - destruct v; reflexivity.
  - change (to_compact (D v (c :: r))) with
      (let nodes := map to_compact (c :: r) in
       if is_none v then NL nodes else
       match nodes with [NT l] => NT (NV v :: l) | [single] => NT [NV v; single] | _ => NT [NV v; NL nodes] end).
    rewrite E. reflexivity.
Qed.
Lemma to_nested_tcg : forall d, to_nested false d = tcg (NL []) d.
Proof.
  apply dna_ind2. intros v cs IH.
  assert (E : map (to_nested false) cs = map (tcg (NL [])) cs).
  { induction IH; simpl; f_equal; auto. }
  destruct cs as [|c [|c2 r]].
  - destruct v; reflexivity.
  - inversion IH as [|? ? Hc _]; subst.
    change (to_nested false (D v [c])) with
      (if is_none v then NL (map (to_nested false) [c])
       else match to_nested false c with NT l => NT (NV v :: l) | x => NT [NV v; x] end).
    change (tcg (NL []) (D v [c])) with
      (if is_none v then NL [tcg (NL []) c]
       else match [tcg (NL []) c] with [NT l] => NT (NV v :: l) | [single] => NT [NV v; single] | _ => NT [NV v; NL [tcg (NL []) c]] end).
    simpl map. rewrite Hc. destruct (is_none v); auto. destruct (tcg (NL []) c); reflexivity.
  - change (to_nested false (D v (c :: c2 :: r))) with
      (if is_none v then NL (map (to_nested false) (c :: c2 :: r)) else NT [NV v; NL (map (to_nested false) (c :: c2 :: r))]).
    rewrite E. destruct v; try reflexivity; simpl; destruct (tcg (NL []) c); reflexivity.
Qed.

Lemma parse_nest_mono : forall f x d, parse_nest f x = Some d -> parse_nest (S f) x = Some d.
Proof.
  induction f; intros x d H. discriminate.
  assert (Hall : forall l ds, opt_map_all (parse_nest f) l = Some ds -> opt_map_all (parse_nest (S f)) l = Some ds).
  { induction l; intros ds Hl; simpl in *. auto.
    destruct (parse_nest f a) eqn:E1; [|discriminate].
    destruct (opt_map_all (parse_nest f) l) eqn:E2; [|discriminate]. inv Hl.
    rewrite (IHf _ _ E1), (IHl _ eq_refl). reflexivity. }
  destruct x as [v|l|l].
  - exact H.
  - change (parse_nest (S f) (NL l)) with
      (match opt_map_all (parse_nest f) l with Some [c] => Some c | Some cs => Some (D VNone cs) | None => None end) in H.
    change (parse_nest (S (S f)) (NL l)) with
      (match opt_map_all (parse_nest (S f)) l with Some [c] => Some c | Some cs => Some (D VNone cs) | None => None end).
    destruct (opt_map_all (parse_nest f) l) as [ds|] eqn:E; [|discriminate]. rewrite (Hall _ _ E). exact H.
  - destruct l as [|[v| |] rest]; try discriminate.
    destruct v; try discriminate.
    + destruct rest as [|r1 [|r2 rr]]; try discriminate.
      * destruct r1 as [w|items|t].
        -- exact H.
        -- change (parse_nest (S f) (NT [NV (VInt z); NL items])) with
             (match opt_map_all (parse_nest f) items with Some cs => Some (D (VInt z) cs) | None => None end) in H.
           change (parse_nest (S (S f)) (NT [NV (VInt z); NL items])) with
             (match opt_map_all (parse_nest (S f)) items with Some cs => Some (D (VInt z) cs) | None => None end).
           destruct (opt_map_all (parse_nest f) items) eqn:E; [|discriminate].
           rewrite (Hall _ _ E). exact H.
        -- exact H.
      * assert (G : forall g, parse_nest (S g) (NT (NV (VInt z) :: r1 :: r2 :: rr)) =
                    match parse_nest g (NT (r1 :: r2 :: rr)) with Some c => Some (D (VInt z) [c]) | None => None end).
        { intros g. destruct r1 as [[]| |]; reflexivity. }
        rewrite G in H. rewrite G.
        destruct (parse_nest f (NT (r1 :: r2 :: rr))) eqn:E; [|discriminate]. rewrite (IHf _ _ E). exact H.
    + destruct rest as [|r1 [|r2 rr]]; try discriminate.
      * destruct r1 as [w|items|t].
        -- exact H.
        -- change (parse_nest (S f) (NT [NV (VFlt f0); NL items])) with
             (match opt_map_all (parse_nest f) items with Some cs => Some (D (VFlt f0) cs) | None => None end) in H.
           change (parse_nest (S (S f)) (NT [NV (VFlt f0); NL items])) with
             (match opt_map_all (parse_nest (S f)) items with Some cs => Some (D (VFlt f0) cs) | None => None end).
           destruct (opt_map_all (parse_nest f) items) eqn:E; [|discriminate].
           rewrite (Hall _ _ E). exact H.
        -- exact H.
      * assert (G : forall g, parse_nest (S g) (NT (NV (VFlt f0) :: r1 :: r2 :: rr)) =
                    match parse_nest g (NT (r1 :: r2 :: rr)) with Some c => Some (D (VFlt f0) [c]) | None => None end).
        { intros g. destruct r1 as [[]| |]; reflexivity. }
        rewrite G in H. rewrite G.
        destruct (parse_nest f (NT (r1 :: r2 :: rr))) eqn:E; [|discriminate]. rewrite (IHf _ _ E). exact H.
Qed.
Lemma parse_nest_mono_le : forall f f' x d, f <= f' -> parse_nest f x = Some d -> parse_nest f' x = Some d.
Proof. induction 1; auto. intros. apply parse_nest_mono; auto. Qed.

Lemma tcg_unfold : forall leaf v c cs,
  tcg leaf (D v (c :: cs)) =
  let nodes := map (tcg leaf) (c :: cs) in
  if is_none v then NL nodes else
  match nodes with
  | [NT l] => NT (NV v :: l) | [single] => NT [NV v; single] | _ => NT [NV v; NL nodes] end.
Proof. reflexivity. Qed.
Lemma tcg_NT_nonempty : forall leaf, (forall l, leaf <> NT l) -> forall d l, tcg leaf d = NT l -> l <> [].
Proof.
  intros leaf Hleaf. apply (dna_ind2 (fun d => forall l, tcg leaf d = NT l -> l <> [])).
  intros v cs IH l H. destruct cs as [|c cs].
  - simpl in H. destruct (is_none v); [exfalso; eapply Hleaf; eauto|discriminate].
  - rewrite tcg_unfold in H. cbv zeta in H. destruct (is_none v); [discriminate|].
    simpl map in H. destruct cs as [|c2 cs]; simpl map in H.
    + destruct (tcg leaf c); inv H; discriminate.
    + destruct (tcg leaf c); inv H; discriminate.
Qed.
Lemma tcg_shape : forall leaf, (forall l, leaf <> NT l) ->
  forall w ks, ks <> [] -> w <> VNone -> exists t, t <> [] /\ tcg leaf (D w ks) = NT (NV w :: t).
Proof.
  intros leaf Hleaf w ks Hk Hw. destruct ks as [|k1 ks]; [congruence|].
  rewrite tcg_unfold. cbv zeta. assert (E : is_none w = false) by (destruct w; congruence || reflexivity). rewrite E.
  simpl map. destruct ks as [|k2 ks]; simpl map.
  - destruct (tcg leaf k1) as [x|l|l] eqn:Ek.
    + eexists; split; [|reflexivity]; discriminate.
    + eexists; split; [|reflexivity]; discriminate.
    + exists l. split; auto. eapply tcg_NT_nonempty; eauto.
  - destruct (tcg leaf k1); eexists; (split; [|reflexivity]); discriminate.
Qed.

Lemma exists_fuel_all : forall (P : nat -> dna -> Prop) cs,
  (forall c f f', f <= f' -> P f c -> P f' c) ->
  Forall (fun c => exists f0, forall f, f0 <= f -> P f c) cs ->
  exists F, forall f, F <= f -> Forall (P f) cs.
Proof.
  intros P cs Hmono H. induction H as [|c cs [f0 Hc] _ [F HF]].
  - exists 0. intros; constructor.
  - exists (max f0 F). intros f Hf. constructor. apply Hc; lia. apply HF; lia.
Qed.
Lemma opt_map_all_map : forall (g : dna -> nest) f cs,
  Forall (fun c => parse_nest f (g c) = Some c) cs -> opt_map_all (parse_nest f) (map g cs) = Some cs.
Proof. induction 1; simpl; auto. rewrite H, IHForall. reflexivity. Qed.

Lemma tcg_roundtrip : forall leaf, (forall l, leaf <> NT l) -> (forall f, parse_nest (S f) leaf = Some (D VNone [])) ->
  forall d, jsonable d -> exists f0, forall f, f0 <= f -> parse_nest f (tcg leaf d) = Some d.
Proof.
  intros leaf HleafT Hleaf. apply (dna_ind2 (fun d => jsonable d -> exists f0, forall f, f0 <= f -> parse_nest f (tcg leaf d) = Some d)).
  intros v cs IH Hj. inversion Hj as [v0|v0 cs0 Hne Hstr Hnone Hsingle Hall]; subst.
  - exists 1. intros f Hf. destruct f; [lia|]. destruct v; [apply Hleaf|reflexivity..].
  - assert (IH' : Forall (fun c => exists f0, forall f, f0 <= f -> parse_nest f (tcg leaf c) = Some c) cs).
    { rewrite Forall_forall in *. intros c Hc. apply IH; auto. }
    destruct (exists_fuel_all (fun f c => parse_nest f (tcg leaf c) = Some c) cs) as [F HF]; auto.
    { intros c f f' Hle Hp. eapply parse_nest_mono_le; eauto. }
    exists (S F). intros f Hf. destruct f; [lia|]. assert (HFf : F <= f) by lia.
    pose proof (opt_map_all_map (tcg leaf) f cs (HF f HFf)) as Hmap.
    destruct cs as [|c1 cs']; [congruence|].
    change (tcg leaf (D v (c1 :: cs'))) with
      (let nodes := map (tcg leaf) (c1 :: cs') in
       if is_none v then NL nodes else
       match nodes with [NT l] => NT (NV v :: l) | [single] => NT [NV v; single] | _ => NT [NV v; NL nodes] end).
    cbv zeta. destruct v as [|z|x|s]; [| | |exfalso; eapply Hstr; eauto].
    + (* no value: a list *)
      cbn [is_none].
      change (parse_nest (S f) (NL (map (tcg leaf) (c1 :: cs')))) with
        (match opt_map_all (parse_nest f) (map (tcg leaf) (c1 :: cs')) with Some [c] => Some c | Some l => Some (D VNone l) | None => None end).
      rewrite Hmap. destruct cs' as [|c2 r]; [exfalso; apply (Hnone eq_refl); reflexivity|]. reflexivity.
    + cbn [is_none]. destruct cs' as [|c2 r].
      * (* a single child *)
        specialize (Hsingle c1 eq_refl). destruct c1 as [w ks]. simpl in Hsingle.
        pose proof (HF f HFf) as Hc. apply Forall_cons_iff in Hc as [Hc _].
        destruct ks as [|k1 ks'].
        -- simpl map. destruct w; try congruence; reflexivity.
        -- destruct (tcg_shape leaf HleafT w (k1 :: ks') ltac:(discriminate) Hsingle) as [t [Ht Et]].
           change (map (tcg leaf) [D w (k1 :: ks')]) with [tcg leaf (D w (k1 :: ks'))].
           rewrite Et in *. destruct t as [|t1 tr]; [congruence|].
           assert (G : parse_nest (S f) (NT (NV (VInt z) :: NV w :: t1 :: tr)) =
                       match parse_nest f (NT (NV w :: t1 :: tr)) with Some c => Some (D (VInt z) [c]) | None => None end).
           { destruct w; reflexivity. }
           rewrite G, Hc. reflexivity.
      * remember (map (tcg leaf) (c1 :: c2 :: r)) as nodes eqn:En.
        assert (Hn : exists n1 n2 ns, nodes = n1 :: n2 :: ns) by (subst nodes; simpl; eauto).
        destruct Hn as (n1 & n2 & ns & En2).
        match goal with |- parse_nest (S f) ?X = _ =>
          assert (G : X = NT [NV (VInt z); NL nodes]) by (rewrite En2; destruct n1; reflexivity); rewrite G end.
        change (parse_nest (S f) (NT [NV (VInt z); NL nodes])) with
          (match opt_map_all (parse_nest f) nodes with Some l => Some (D (VInt z) l) | None => None end).
        rewrite Hmap. reflexivity.
    + cbn [is_none]. destruct cs' as [|c2 r].
      * specialize (Hsingle c1 eq_refl). destruct c1 as [w ks]. simpl in Hsingle.
        pose proof (HF f HFf) as Hc. apply Forall_cons_iff in Hc as [Hc _].
        destruct ks as [|k1 ks'].
        -- simpl map. destruct w; try congruence; reflexivity.
        -- destruct (tcg_shape leaf HleafT w (k1 :: ks') ltac:(discriminate) Hsingle) as [t [Ht Et]].
           change (map (tcg leaf) [D w (k1 :: ks')]) with [tcg leaf (D w (k1 :: ks'))].
           rewrite Et in *. destruct t as [|t1 tr]; [congruence|].
           assert (G : parse_nest (S f) (NT (NV (VFlt x) :: NV w :: t1 :: tr)) =
                       match parse_nest f (NT (NV w :: t1 :: tr)) with Some c => Some (D (VFlt x) [c]) | None => None end).
           { destruct w; reflexivity. }
           rewrite G, Hc. reflexivity.
      * remember (map (tcg leaf) (c1 :: c2 :: r)) as nodes eqn:En.
        assert (Hn : exists n1 n2 ns, nodes = n1 :: n2 :: ns) by (subst nodes; simpl; eauto).
        destruct Hn as (n1 & n2 & ns & En2).
        match goal with |- parse_nest (S f) ?X = _ =>
          assert (G : X = NT [NV (VFlt x); NL nodes]) by (rewrite En2; destruct n1; reflexivity); rewrite G end.
        change (parse_nest (S f) (NT [NV (VFlt x); NL nodes])) with
          (match opt_map_all (parse_nest f) nodes with Some l => Some (D (VFlt x) l) | None => None end).
        rewrite Hmap. reflexivity.
Qed.

Theorem compact_roundtrip : forall d, jsonable d -> exists f0, forall f, f0 <= f -> parse_nest f (to_compact d) = Some d.
Proof. intros d H. rewrite to_compact_tcg. apply tcg_roundtrip; auto. intros; discriminate. Qed.
Theorem nested_roundtrip : forall d, jsonable d -> exists f0, forall f, f0 <= f -> parse_nest f (to_nested false d) = Some d.
Proof. intros d H. rewrite to_nested_tcg. apply tcg_roundtrip; auto. intros; discriminate. Qed.

(* ---- the DNA of every valid decision can be carried by the nested forms ------------------------------------- *)
Lemma node_jsonable : forall c N, jsonable N -> ntop N -> jsonable (D (vint c) (unwrap N)).
Proof.
  intros c [w ks] Hj Hn. destruct w; simpl unwrap.
  - destruct ks as [|k1 ks]. constructor.
    inversion Hj as [|? ? _ _ Hnone _ Hall]; subst.
    apply J_node; auto; try discriminate.
    intros c' E. inv E. simpl in Hn. contradiction.
  - apply J_node; try discriminate. intros c' E. inv E. simpl. discriminate. constructor; auto.
  - apply J_node; try discriminate. intros c' E. inv E. simpl. discriminate. constructor; auto.
  - apply J_node; try discriminate. intros c' E. inv E. simpl. discriminate. constructor; auto.
Qed.

Lemma normalize_jsonable_both :
  (forall s, wf s = true -> forall d, valid s d = true -> jsonable (normalize d)) /\
  (forall p, wf_p p = true -> forall x, valid_p p x = true -> jsonable (norm_p x)).
Proof.
  apply dspec_dpoint_ind.
  - intros es IH Hwf [ds] Hv. simpl in Hwf, Hv. apply forallb2_Forall2 in Hv.
    rewrite (shape_s es ds Hwf Hv).
    assert (HF : Forall (fun x => jsonable (norm_p x)) ds).
    { clear - IH Hwf Hv. induction Hv; constructor.
      - inv IH. simpl in Hwf. apply andb_true_iff in Hwf as [Hw _]. auto.
      - inv IH. simpl in Hwf. apply andb_true_iff in Hwf as [_ Hw]. auto. }
    destruct ds as [|x [|y r]].
    + constructor.
    + inv HF. auto.
    + apply J_node; try discriminate.
      clear - HF. induction HF; simpl; constructor; auto.
  - intros k cands dist srt nm lits IH Hwf x Hv.
    pose proof (shape_p _ x Hwf Hv) as Hs. cbv beta iota in Hs.
    pose proof Hwf as Hwf0. apply wf_p_choices in Hwf as (Hk & Hn & Hdk & Hwc).
    assert (Hnode : forall c sub, with_nth (fun s => valid s sub) false cands c = true ->
              jsonable (mk (VInt (Z.of_nat c)) [normalize sub])).
    { intros c sub Hvs. rewrite node_eq. rewrite with_nth_nth_error in Hvs.
      destruct (nth_error cands c) as [sc|] eqn:E; [|discriminate].
      rewrite forallb_forall in Hwc. pose proof (Hwc sc (nth_error_In _ _ E)) as Hwsc.
      apply node_jsonable. eapply nth_error_Forall in IH; eauto. eapply normalize_ntop; eauto. }
    destruct (k =? 1) eqn:Ek.
    + destruct Hs as (c & sub & E & Hn1). subst x. rewrite Hn1.
      apply valid_p_choices in Hv as [_ [_ Hf]].
      apply Forall_cons_iff in Hf as [Hf _]. auto.
    + destruct Hs as (cs & E & Hlen & Hn2). subst x. rewrite Hn2. apply Nat.eqb_neq in Ek.
      apply valid_p_choices in Hv as [_ [_ Hf]].
      apply J_node.
      * destruct cs; simpl in *; [lia|discriminate].
      * discriminate.
      * intros _. rewrite map_length. lia.
      * intros c E. destruct cs as [|a [|b r]]; simpl in *; try lia; discriminate.
      * apply Forall_forall. intros kid Hkid. apply in_map_iff in Hkid as [[c sub] [<- Hin]].
        rewrite Forall_forall in Hf. apply Hnode. apply (Hf (c, sub)); auto.
  - intros lo hi nm Hwf x Hv. destruct x; try discriminate. constructor.
  - intros nm Hwf x Hv. destruct x; try discriminate. constructor.
Qed.
Lemma normalize_jsonable : forall s d, wf s = true -> valid s d = true -> jsonable (normalize d).
Proof. intros. eapply (proj1 normalize_jsonable_both); eauto. Qed.

Theorem compact_json_roundtrip : forall s d, wf s = true -> valid s d = true ->
  exists f0, forall f, f0 <= f -> parse_nest f (to_compact (normalize d)) = Some (normalize d).
Proof. intros. apply compact_roundtrip. eapply normalize_jsonable; eauto. Qed.
Theorem nested_numbers_roundtrip : forall s d, wf s = true -> valid s d = true ->
  exists f0, forall f, f0 <= f -> parse_nest f (to_nested false (normalize d)) = Some (normalize d).
Proof. intros. apply nested_roundtrip. eapply normalize_jsonable; eauto. Qed.

(* the rendering found in the code before the repair loses a chain of three conditional choices *)
Example nested_lossy_refuted :
  let d := D (VInt 1) [D (VInt 2) [D (VInt 1) []]] in
  parse_nest 10 (to_nested true d) <> Some d /\ parse_nest 10 (to_nested false d) = Some d.
Proof. vm_compute. split. discriminate. reflexivity. Qed.

(* verbose JSON form: value and children apart *)
Theorem verbose_roundtrip : forall d, jsonable d -> ntop d ->
  (forall gs, dkids d <> [D VNone gs]) ->
  exists f0, forall f, f0 <= f -> parse_verbose f (to_verbose d) = Some d.
Proof.
  intros [v cs] Hj Hn Hk. simpl in Hk.
  assert (Hcs : Forall jsonable cs).
  { inversion Hj; subst; auto. }
  destruct (exists_fuel_all (fun f c => parse_nest f (to_compact c) = Some c) cs) as [F HF].
  { intros c f f' Hle Hp. eapply parse_nest_mono_le; eauto. }
  { eapply Forall_impl; [|exact Hcs]. intros c Hc. apply compact_roundtrip; auto. }
  exists F. intros f Hf. unfold parse_verbose, to_verbose. simpl fst. simpl snd.
  rewrite (opt_map_all_map to_compact f cs (HF f Hf)). f_equal.
  destruct v.
  - destruct cs as [|c [|c2 r]]; try reflexivity.
    + simpl in Hn. contradiction.
    + apply mk_none_many. simpl. lia.
  - apply mk_valued; auto; discriminate.
  - apply mk_valued; auto; discriminate.
  - apply mk_valued; auto; discriminate.
Qed.

(* an aligned DNA is the DNA rebuilt from its raw numbers, so all its views coincide with the rebuilt one's *)
Theorem rebuilt_is_same : forall q s d b, wf s = true -> valid s d = true -> strip b = normalize d -> aligned q s b ->
  from_numbers q s (to_numbers (strip b)) = Some b.
Proof.
  intros q s d b Hwf Hv Hs Ha. rewrite Hs. destruct (numbers_roundtrip q s d Hwf Hv) as [E _].
  rewrite E. rewrite <- Hs. exact Ha.
Qed.

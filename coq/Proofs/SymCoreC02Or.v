(* SymCoreC02Or.v -- d | m and m | d: the result is a new root pg.Dict whose erased items are Python's merged dict; the
   operand is untouched. *)
From Coq Require Import ZArith NArith List Bool Lia.
Import ListNotations.
From PG Require Import Common.Tactics Model.SymCoreDefs Model.SymCoreOps Model.SymCoreSpec Model.SymCoreC02
     Proofs.SymCoreBase Proofs.SymCoreWF Proofs.SymCoreWFOps Proofs.SymCoreClone Proofs.SymCoreIds Proofs.SymCoreC02Read
     Proofs.SymCoreC02Frame Proofs.SymCoreC02Prim Proofs.SymCoreC02List Proofs.SymCoreC02Items Proofs.SymCoreC02Dict.
From PG Require Model.PyList Model.PyDict.
Local Open Scope Z_scope.

(* what a value of the merged list denotes: a plain argument, or (a copy of) an item of the operand *)
Inductive val_of (xits : list (key * node)) : rvalue -> pv -> Prop :=
| VO_plain : forall rv, plain_rv rv -> val_of xits rv (prv rv)
| VO_item : forall k c, assoc k xits = Some c -> is_missing c = false -> val_of xits (rv_of_item c) (erase c).
Definition kv_rel (xits : list (key * node)) (a : key * rvalue) (b : key * pv) : Prop := fst a = fst b /\ val_of xits (snd a) (snd b).

Lemma set_assoc_lockstep : forall xits k v v' base pbase,
  Forall2 (kv_rel xits) base pbase -> val_of xits v v' ->
  Forall2 (kv_rel xits) (set_assoc k v base) (PyDict.dset key_eqb k v' pbase).
Proof.
  induction 1; simpl; intros.
  - constructor; [split; auto|constructor].
  - destruct x as [k1 v1], y as [k2 v2]. destruct H as [EK EV]. simpl in EK. subst k2.
    destruct (key_eqb k k1); constructor; auto; split; auto.
Qed.
Lemma merge_lockstep : forall xits upd pupd,
  Forall2 (kv_rel xits) upd pupd -> forall base pbase, Forall2 (kv_rel xits) base pbase ->
  Forall2 (kv_rel xits) (merge_rv base upd) (PyDict.dupdate key_eqb pbase pupd).
Proof.
  unfold merge_rv, PyDict.dupdate. induction 1; simpl; intros; auto.
  destruct H as [EK EV]. rewrite <- EK. apply IHForall2. apply set_assoc_lockstep; auto.
Qed.
Lemma merge_keys_nodup : forall upd (base : list (key * rvalue)), NoDup (map fst base) -> NoDup (map fst (merge_rv base upd)).
Proof. unfold merge_rv. induction upd; simpl; intros; auto. apply IHupd. apply set_assoc_nodup; auto. Qed.
Lemma nodup_assoc_in : forall (its : list (key * node)) k c, NoDup (map fst its) -> In (k, c) its -> assoc k its = Some c.
Proof.
  induction its as [|[k' c'] its IH]; simpl; intros; try contradiction. inv H. destruct H0 as [H0|H0].
  - inv H0. rewrite key_eqb_refl. auto.
  - destruct (key_eqb k k') eqn:E; eauto. apply key_eqb_eq in E. subst. exfalso. apply H3. apply in_map_iff. exists (k', c). auto.
Qed.
Lemma items_kv_rel : forall its, NoDup (map fst its) -> clean its ->
  Forall2 (kv_rel its) (map (fun kv => (fst kv, rv_of_item (snd kv))) its) (eitems its).
Proof.
  intros its ND C.
  assert (H : forall l, (forall kv, In kv l -> In kv its) -> Forall2 (kv_rel its) (map (fun kv => (fst kv, rv_of_item (snd kv))) l) (eitems l)).
  { induction l as [|[k c] l IH]; simpl; intros; constructor; auto.
    split; auto. simpl. apply VO_item with (k := k).
    - apply nodup_assoc_in; auto.
    - unfold clean in C. rewrite Forall_forall in C. apply (C (k, c)); auto. }
  apply H; auto.
Qed.
Lemma map_fst_pair : forall A B C (g : B -> C) (l : list (A * B)), map fst (map (fun kv => (fst kv, g (snd kv))) l) = map fst l.
Proof. induction l; simpl; auto. f_equal; auto. Qed.
Lemma plain_kv_rel : forall xits kvs, Forall (fun kv => plain_rv (snd kv)) kvs ->
  Forall2 (kv_rel xits) kvs (map (fun kv : key * rvalue => (fst kv, prv (snd kv))) kvs).
Proof. induction 1; simpl; constructor; auto. split; auto. simpl. constructor; auto. Qed.

Section Or.
Variables (q : quirks) (sc : scope).
Hypothesis NQ : no_quirks q.

(* Dict(merged): the fresh root dict is filled key by key *)
Lemma new_dict_loop : forall merged pm xps xid xk xpa xfl xits ri me st done,
  WFI st -> at_is st (ri, []) me KDict None default_flags done -> clean done ->
  fst xps <> ri -> xid <> me -> get_at st xps = Some (Node xid xk xpa (snd xps) xfl xits) ->
  Forall2 (kv_rel xits) merged pm -> NoDup (map fst merged) -> (forall k, In k (map fst merged) -> assoc k done = None) ->
  exists its', at_is (fold_left (fun s kv => fst (dprim q sc s (ri, []) (fst kv) (snd kv))) merged st) (ri, []) me KDict None default_flags its' /\
               clean its' /\ eitems its' = eitems done ++ pm /\
               WFI (fold_left (fun s kv => fst (dprim q sc s (ri, []) (fst kv) (snd kv))) merged st) /\
               keeps_other ri st (fold_left (fun s kv => fst (dprim q sc s (ri, []) (fst kv) (snd kv))) merged st).
Proof.
  induction merged as [|[k rv] merged IH]; intros pm xps xid xk xpa xfl xits ri me st done W R C NR NI GX F ND AB; inv F; simpl.
  - exists done. rewrite app_nil_r. repeat split; auto; try apply W. apply keeps_other_refl.
  - destruct y as [k' v]. destruct H1 as [EK EV]. simpl in EK, EV. subst k'. simpl in ND. inversion ND as [|? ? NIN ND']; subst.
    destruct (dprim q sc st (ri, []) k rv) as [st1 p] eqn:D. simpl.
    assert (OKV : rv_ok rv /\ is_missing_rv rv = false).
    { inv EV. split. apply plain_rv_ok; auto. apply storable_not_missing. apply plain_storable; auto.
      destruct (rv_of_item_ok c H0) as (A1 & A2 & _). auto. }
    destruct OKV as [OK NM].
    destruct (dprim_add_gen q sc st (ri, []) me None default_flags done R (anc_clean_root _ _) (proj1 W) k rv st1 p v OK NM
                (AB k (or_introl eq_refl))) as (PP & nw & R1 & EN & MN & K1 & A1 & WS1); auto.
    { intros nw st2 FZ. inv EV.
      - eapply formalize_storable; eauto. apply plain_storable; auto.
      - simpl in FZ. eapply (formalize_item q sc st xps xid xk xpa xfl xits k0 c); eauto. simpl; auto. }
    assert (W1 : WFI st1).
    { eapply WFI_step; [exact W|exact WS1|]. eapply dprim_ids; eauto. }
    assert (GX1 : get_at st1 xps = Some (Node xid xk xpa (snd xps) xfl xits)) by (eapply keeps_other_get_at; eauto).
    destruct (IH l' xps xid xk xpa xfl xits ri me st1 (done ++ [(k, nw)]) W1 R1) as (its' & R' & C' & E' & W' & K'); auto.
    + apply clean_app; auto. constructor; auto.
    + intros k1 I1. rewrite <- (AB k1 (or_intror I1)).
      clear - I1 NIN. induction done as [|[kd vd] done IHd]; simpl.
      * destruct (key_eqb k1 k) eqn:E; auto. apply key_eqb_eq in E. subst. contradiction.
      * destruct (key_eqb k1 kd); auto.
    + exists its'. repeat split; auto; try apply W'.
      * rewrite E'. unfold eitems. rewrite map_app. simpl. rewrite EN. rewrite <- app_assoc. reflexivity.
      * eapply keeps_other_trans; eauto.
Qed.
End Or.

Definition xdop_of (x : xop rvalue) : option (PyDict.dop key pv) :=
  match x with
  | DOr kvs => Some (PyDict.PDOr (map (fun kv => (fst kv, prv (snd kv))) kvs))
  | DROr kvs => Some (PyDict.PDROr (map (fun kv => (fst kv, prv (snd kv))) kvs))
  | _ => None
  end.
(* the argument is a plain dict: plain values, distinct keys *)
Definition plain_xdop (x : xop rvalue) : Prop :=
  match x with
  | DOr kvs | DROr kvs => Forall (fun kv => plain_rv (snd kv)) kvs /\ NoDup (map fst kvs)
  | _ => False
  end.

Section OrRefine.
Variables (q : quirks) (sc : scope) (ps : pos) (tid : N) (pa : option N) (fl : flags).
Hypothesis NQ : no_quirks q.

Theorem exec_x_or_refines : forall st its x o st' out,
  WFI st -> at_is st ps tid KDict pa fl its -> clean its -> anc_clean st ps -> plain_xdop x -> xdop_of x = Some o ->
  exec_x q sc st ps fl its x = (st', out) ->
  match py_dstep (eitems its) o with
  | inr e => False
  | inl (d', ret) => dwrote st ps tid pa fl st' d' /\ dret_agrees st' out ret /\ WFI st'
  end.
Proof.
  intros st its x o st' out W R C A PL LO E.
  destruct (dat_children ps tid pa fl st its (proj1 W) R) as [CF KP].
  pose proof (get_at_lt _ _ _ R) as LT.
  assert (MAIN : forall merged pm,
            Forall2 (kv_rel its) merged pm -> NoDup (map fst merged) ->
            new_dict q sc st merged = (st', out) ->
            dwrote st ps tid pa fl st' (eitems its) /\
            (exists ri tid' fl' its', out = Ok (RPos (ri, [])) /\ at_is st' (ri, []) tid' KDict None fl' its' /\ clean its' /\ eitems its' = pm) /\ WFI st').
  { intros merged pm F ND NDI. unfold new_dict in NDI. injection NDI as E1 E2. subst st' out.
    set (me := next_id st) in *. set (ri := length (roots st)) in *.
    set (st0 := add_root (with_next st (N.succ me)) (Node me KDict None [] default_flags [])).
    assert (W0 : WFI st0).
    { destruct W as (WS & NDS & BL). split; [|split].
      - apply wfs_add_root; auto. simpl. repeat split; auto. constructor.
      - unfold st0. rewrite all_ids_add_root. simpl. apply nodup_app; auto.
        + constructor; auto. constructor.
        + intros x0 I1 I2. destruct I2 as [I2|[]]. subst x0. red in BL. rewrite Forall_forall in BL. apply BL in I1. unfold me in I1. lia.
      - unfold st0. rewrite all_ids_add_root. simpl. red. apply Forall_app. split.
        + red in BL. eapply Forall_impl; [|exact BL]. simpl. intros. unfold me. lia.
        + constructor; auto. unfold me. lia. }
    assert (R0 : at_is st0 (ri, []) me KDict None default_flags []).
    { unfold at_is. rewrite get_at_root. apply (get_root_add_root_new (with_next st (N.succ me))). }
    assert (GX : get_at st0 ps = Some (Node tid KDict pa (snd ps) fl its)).
    { eapply keeps_roots_get_at; [|exact R]. red; intros. apply get_root_add_root. auto. }
    assert (NT : tid <> me).
    { destruct W as (_ & _ & BL). red in BL. rewrite Forall_forall in BL.
      pose proof (BL _ (get_at_in_all_ids _ _ _ _ _ _ _ _ R)). unfold me. lia. }
    destruct (new_dict_loop q sc NQ merged pm ps tid KDict pa fl its ri me st0 [] W0 R0 ltac:(constructor) ltac:(unfold ri; lia) NT GX F ND
                ltac:(intros; reflexivity)) as (its' & R' & C' & E' & W' & K').
    assert (KS : forall r t, get_root st r = Some t -> get_root (fold_left (fun s kv => fst (dprim q sc s (ri, []) (fst kv) (snd kv))) merged st0) r = Some t).
    { intros. apply K'. { pose proof (get_root_lt _ _ _ H). unfold ri. lia. } apply get_root_add_root. auto. }
    destruct (get_at_root_some _ _ _ R) as [t0 G0].
    assert (GE : forall p, get_at (fold_left (fun s kv => fst (dprim q sc s (ri, []) (fst kv) (snd kv))) merged st0) (fst ps, p) = get_at st (fst ps, p)).
    { intros. unfold get_at. simpl. rewrite (KS _ _ G0), G0. auto. }
    split; [|split; auto].
    - exists its. repeat split; auto; try apply W'.
      + unfold at_is. rewrite (surjective_pairing ps). simpl. rewrite GE. rewrite <- surjective_pairing. exact R.
      + red; intros. apply KS. auto.
      + unfold anc_clean in *. intros. rewrite GE in H1. eauto.
    - exists ri, me, default_flags, its'. repeat split; auto. }
  destruct x; simpl in LO; inv LO; simpl in PL; try contradiction; destruct PL as [PV PN]; unfold exec_x in E;
    unfold py_dstep, PyDict.dstep.
  - destruct (MAIN _ _ (merge_lockstep its kvs _ (plain_kv_rel its kvs PV) _ _ (items_kv_rel its KP C))
                (merge_keys_nodup kvs _ ltac:(rewrite map_fst_pair; exact KP)) E) as (A1 & A2 & A3). auto.
  - destruct (MAIN _ _ (merge_lockstep its _ _ (items_kv_rel its KP C) _ _ (plain_kv_rel its kvs PV))
                (merge_keys_nodup _ kvs PN) E) as (A1 & A2 & A3). auto.
Qed.
End OrRefine.

(* Lemmas about stores, the thread-local primitives and the observational normal form. *)
From PG Require Import Common.Tactics Common.Tr Model.ScopesBase Gen.ScopeDefs Model.Scopes.

(* --- st_get / st_set ------------------------------------------------------------------------ *)
Lemma st_set_length : forall s k o, length (st_set k o s) = length s.
Proof. induction s; destruct k; simpl; intros; auto. Qed.

Lemma st_get_set_same : forall s k o, k < length s -> st_get k (st_set k o s) = o.
Proof. unfold st_get. induction s; destruct k; simpl; intros; try lia; auto. apply IHs. lia. Qed.

Lemma st_get_set_other : forall s k k' o, k <> k' -> st_get k (st_set k' o s) = st_get k s.
Proof. unfold st_get. induction s; destruct k, k'; simpl; intros; try congruence; auto. Qed.

Lemma st_get_out : forall s k, length s <= k -> st_get k s = None.
Proof. unfold st_get. intros. apply nth_overflow. assumption. Qed.

Lemma st_set_out : forall s k o, length s <= k -> st_set k o s = s.
Proof. induction s; destruct k; simpl; intros; auto; try lia. f_equal. apply IHs. lia. Qed.

(* writing back what is there changes nothing; the last write wins *)
Lemma st_set_get_id : forall s k, st_set k (st_get k s) s = s.
Proof. unfold st_get. induction s; destruct k; simpl; intros; auto. f_equal. apply IHs. Qed.

Lemma st_set_set : forall s k a b, st_set k a (st_set k b s) = st_set k a s.
Proof. induction s; destruct k; simpl; intros; auto. f_equal. apply IHs. Qed.

Lemma st_set_restore : forall s k o b, st_get k s = o -> st_set k o (st_set k b s) = s.
Proof. intros. rewrite st_set_set. subst. apply st_set_get_id. Qed.

Lemma st_get_set : forall s k k' o,
  st_get k (st_set k' o s) = if Nat.eqb k k' && Nat.ltb k (length s) then o else st_get k s.
Proof.
  intros. destruct (Nat.eqb_spec k k'); simpl.
  - subst. destruct (Nat.ltb_spec k' (length s)).
    + apply st_get_set_same; auto.
    + rewrite st_set_out by auto. reflexivity.
  - apply st_get_set_other; auto.
Qed.

Lemma some_pair_inj : forall (A B : Type) (a a' : A) (b b' : B), Some (a, b) = Some (a', b') -> a = a' /\ b = b'.
Proof. intros. inversion H. auto. Qed.

(* --- the normal form -------------------------------------------------------------------------- *)
Definition seq_at (cls : tlkey -> kclass) (k : nat) (s t : store) : Prop := nrm_from cls k s = nrm_from cls k t.

Lemma nrm_from_length : forall cls s k, length (nrm_from cls k s) = length s.
Proof. induction s; simpl; intros; auto. Qed.

Lemma seq_at_length : forall cls k s t, seq_at cls k s t -> length s = length t.
Proof. unfold seq_at; intros. rewrite <- (nrm_from_length cls s k), <- (nrm_from_length cls t k). congruence. Qed.

Lemma seq_at_get : forall cls s t k i, seq_at cls k s t ->
  nrm_at (cls (k + i)) (st_get i s) = nrm_at (cls (k + i)) (st_get i t).
Proof.
  unfold seq_at, st_get. induction s; destruct t; simpl; intros; try discriminate.
  - reflexivity.
  - inversion H; subst. destruct i; simpl.
    + rewrite Nat.add_0_r. assumption.
    + replace (k + S i) with (S k + i) by lia. apply IHs. assumption.
Qed.

(* replacing a value by an equivalent one *)
Lemma nrm_set_equiv : forall cls s k i o,
  nrm_at (cls (k + i)) o = nrm_at (cls (k + i)) (st_get i s) -> seq_at cls k (st_set i o s) s.
Proof.
  unfold seq_at, st_get. induction s; destruct i; simpl; intros; auto.
  - rewrite Nat.add_0_r in H. rewrite H. reflexivity.
  - f_equal. apply IHs. replace (S k + i) with (k + S i) by lia. assumption.
Qed.

(* the same write on equivalent stores *)
Lemma nrm_set_congr : forall cls s t k i o o',
  seq_at cls k s t -> nrm_at (cls (k + i)) o = nrm_at (cls (k + i)) o' ->
  seq_at cls k (st_set i o s) (st_set i o' t).
Proof.
  unfold seq_at. induction s; destruct t; simpl; intros; try discriminate; auto.
  - destruct i; reflexivity.
  - inversion H; subst. destruct i; simpl.
    + rewrite Nat.add_0_r in H0. rewrite H0. f_equal. assumption.
    + f_equal; auto. apply IHs; auto. replace (S k + i) with (k + S i) by lia. assumption.
Qed.

Lemma seq_at_refl : forall cls k s, seq_at cls k s s.
Proof. reflexivity. Qed.
Lemma seq_at_sym : forall cls k s t, seq_at cls k s t -> seq_at cls k t s.
Proof. unfold seq_at; intros; congruence. Qed.
Lemma seq_at_trans : forall cls k s t u, seq_at cls k s t -> seq_at cls k t u -> seq_at cls k s u.
Proof. unfold seq_at; intros; congruence. Qed.

(* nrm_at is the identity except on the one empty value of the class *)
Lemma nrm_at_exact : forall o, nrm_at KExact o = o.
Proof. destruct o as [[[]| |]|]; reflexivity. Qed.

(* --- thread_local_pop respects the equivalence at every class ------------------------------------- *)
Lemma nrm_at_stack_cons : forall c o d l, nrm_at c o = nrm_at c (Some (VS (d :: l))) -> o = Some (VS (d :: l)).
Proof.
  intros c o d l H.
  destruct c; destruct o as [[[]|[|x r]|[|x r]]|]; simpl in H; try discriminate; try assumption.
Qed.

Lemma tl_pop_congr : forall cls s t k i, seq_at cls k s t -> seq_at cls k (tl_pop i s) (tl_pop i t).
Proof.
  intros cls s t k i H. pose proof (seq_at_get cls s t k i H) as G. unfold tl_pop.
  destruct (st_get i s) as [[a|d|[|x l]]|] eqn:Es;
    try (destruct (st_get i t) as [[a'|d'|[|x' l']]|] eqn:Et; auto;
         apply nrm_at_stack_cons in G; discriminate).
  symmetry in G. apply nrm_at_stack_cons in G. rewrite G. apply nrm_set_congr; auto.
Qed.

(* push then pop is the identity up to the equivalence, on a key of the stack class *)
Lemma tl_pop_push : forall cls s k i d, cls (k + i) = KStack -> seq_at cls k (tl_pop i (tl_push i (VD d) s)) s.
Proof.
  intros cls s k i d C. unfold tl_push.
  destruct (st_get i s) as [[a|dd|l]|] eqn:E.
  - unfold tl_pop. rewrite E. apply seq_at_refl.
  - unfold tl_pop. rewrite E. apply seq_at_refl.
  - unfold tl_pop. destruct (Nat.ltb_spec i (length s)).
    + rewrite st_get_set_same by auto. rewrite st_set_set.
      rewrite <- E. rewrite st_set_get_id. apply seq_at_refl.
    + rewrite st_set_out by auto. rewrite E. rewrite st_get_out in E by auto. discriminate.
  - unfold tl_pop. destruct (Nat.ltb_spec i (length s)).
    + rewrite st_get_set_same by auto. rewrite st_set_set.
      apply nrm_set_equiv. rewrite C, E. reflexivity.
    + rewrite st_set_out by auto. rewrite E. apply seq_at_refl.
Qed.

(* a push that does nothing (ill-typed argument) followed by ... is not needed: the scopes always push a dict *)
Lemma py_update_dict : forall a y, exists d, py_update (VD a) y = VD d.
Proof. intros. destruct y; simpl; eauto. Qed.
Lemma py_merge2_dict : forall a y, exists d, py_merge2 (VD a) y = VD d.
Proof. intros. destruct y; simpl; eauto. Qed.
Lemma tl_peek_dict : forall k s d0, exists d, tl_peek k (VD d0) s = VD d.
Proof. intros. unfold tl_peek. destruct (st_get k s) as [[a|d|[|x l]]|]; eauto. Qed.

(* --- classes of the generated keys (recomputed on the regenerated definitions) ----------------------- *)
Lemma class_str : lclass k_str_format = KStack. Proof. reflexivity. Qed.
Lemma class_repr : lclass k_repr_format = KStack. Proof. reflexivity. Qed.
Lemma class_view : lclass k_view_options = KStack. Proof. reflexivity. Qed.
Lemma class_ctx : lclass k_context = KStack. Proof. reflexivity. Qed.
Lemma class_detour : lclass k_detour = KStack. Proof. reflexivity. Qed.
Lemma class_contextual : lclass k_contextual = KDict. Proof. reflexivity. Qed.
Lemma class_gdyn : gclass g_dynamic_evaluate = KNone. Proof. reflexivity. Qed.
Lemma class_gond : gclass g_ondemand_types = KStack. Proof. reflexivity. Qed.

(* --- states -------------------------------------------------------------------------------------------- *)
Lemma obs_eq_split : forall s t, obs_eq s t <-> seq_at lclass 0 (fst s) (fst t) /\ seq_at gclass 0 (snd s) (snd t).
Proof.
  unfold obs_eq, nrm, seq_at. intros [a b] [c d]; simpl. split.
  - intros H; inversion H; auto.
  - intros [H1 H2]; congruence.
Qed.
Lemma obs_eq_refl : forall s, obs_eq s s. Proof. reflexivity. Qed.
Lemma obs_eq_sym : forall s t, obs_eq s t -> obs_eq t s. Proof. unfold obs_eq; congruence. Qed.
Lemma obs_eq_trans : forall s t u, obs_eq s t -> obs_eq t u -> obs_eq s u. Proof. unfold obs_eq; congruence. Qed.

(* keep [simpl] from unfolding store operations on the concrete generated keys *)
Global Arguments st_set : simpl never.
Global Arguments st_get : simpl never.
Global Arguments tl_push : simpl never.
Global Arguments tl_pop : simpl never.
Global Arguments tl_set : simpl never.
Global Arguments tl_del : simpl never.
Global Arguments tl_get : simpl never.
Global Arguments tl_has : simpl never.
Global Arguments tl_peek : simpl never.
Global Arguments nrm_from : simpl never.
Global Arguments thread_local_value_scope_enter : simpl never.
Global Arguments thread_local_value_scope_exit : simpl never.
Global Arguments thread_local_arg_scope_enter : simpl never.
Global Arguments thread_local_arg_scope_exit : simpl never.
Global Arguments permission_enter : simpl never.
Global Arguments permission_exit : simpl never.
Global Arguments context_enter : simpl never.
Global Arguments context_exit : simpl never.
Global Arguments view_options_enter : simpl never.
Global Arguments view_options_exit : simpl never.
Global Arguments timeit_enter : simpl never.
Global Arguments timeit_exit : simpl never.
Global Arguments contextual_scope_enter : simpl never.
Global Arguments contextual_scope_exit : simpl never.
Global Arguments detour_scope_enter : simpl never.
Global Arguments detour_scope_exit : simpl never.
Global Arguments current_mappings : simpl never.
Global Arguments dyn_enter : simpl never.
Global Arguments dyn_exit : simpl never.
Global Arguments loadtypes_enter : simpl never.
Global Arguments loadtypes_exit : simpl never.
Global Arguments dynamic_evaluate_enter : simpl never.
Global Arguments dynamic_evaluate_exit : simpl never.
Global Arguments load_types_enter : simpl never.
Global Arguments load_types_exit : simpl never.
Global Arguments get_dynamic_evaluate_fn : simpl never.
Global Arguments contextual_scope_enter : simpl never.
Global Arguments get_context : simpl never.
Global Arguments get_permission : simpl never.
Global Arguments thread_local_kwargs : simpl never.

(* EvoPwTotal.v — point-wise recombination gives every parent a complete set of decisions: from_dict never fails with
   "Value for ... is not found" (the repaired behaviour; before, a where filter could leave a parent without decisions). *)
From PG Require Import Common.Tactics Model.Geno Model.GenoViews Model.Evo Proofs.GenoBasics Proofs.GenoValid Proofs.EvoBase Proofs.EvoMut Proofs.EvoPw.

Lemma zip_app_length : forall X (acc : list (option (list X))) outs, length (zip_app acc outs) = Nat.min (length acc) (length outs).
Proof. intros. unfold zip_app. rewrite map_length, combine_length. auto. Qed.
Lemma pick_outs_length : forall w cur outs, length (pick_outs w cur outs) = Nat.min (Nat.min (length w) (length cur)) (length outs).
Proof. intros. unfold pick_outs. rewrite map_length, !combine_length. auto. Qed.

Section Len.
  Variable R : Type.
  Variable G : rng R.
  Variable kd : pwkind.
  Variable ws : list Z.
  Variable tgt : addr -> bool.

  Lemma pw_cands_len : forall (rec : nat -> dspec -> list (option sdna) -> R -> res (list (option sdna) * R)) cands old newv j n r cur r',
    length old = length newv ->
    (forall c cand lives r0 outs r1, nth_error cands c = Some cand -> rec c cand lives r0 = Ok (outs, r1) -> length outs = length lives) ->
    pw_cands R rec cands old newv j n r = Ok (cur, r') -> length cur = length newv.
  Proof.
    intros rec cands old newv j n r cur r' Hlo Hrec H. unfold pw_cands in H.
    change (length (fst (cur, r')) = length newv).
    refine (foldi_inv _ _ (fun (_ : nat) (st : list (option sdna) * R) => length (fst st) = length newv) _ _ _ _ _ _ _ H).
    - simpl. apply map_length.
    - intros c cand [cur0 r0] st2 Hc _ Hinv Hstep. rewrite Nat.sub_0_r in Hc. simpl in Hstep, Hinv.
      destruct (negb _). inv Hstep; auto.
      destruct (rec c cand _ r0) as [[outs r1]|] eqn:Er; simpl in Hstep; inv Hstep.
      apply Hrec in Er; auto. simpl. rewrite pick_outs_length, Er. unfold lives_of, wants_of.
      rewrite !map_length, combine_length, map_length. lia.
  Qed.
  Lemma pw_subs_len : forall (rec : nat -> nat -> dspec -> list (option sdna) -> R -> res (list (option sdna) * R)) k cands old newv r subs r',
    length old = length newv ->
    (forall j c cand lives r0 outs r1, nth_error cands c = Some cand -> rec j c cand lives r0 = Ok (outs, r1) -> length outs = length lives) ->
    pw_subs R rec k cands old newv r = Ok (subs, r') -> length subs = length newv.
  Proof.
    intros rec k cands old newv r subs r' Hlo Hrec H. unfold pw_subs in H.
    change (length (fst (subs, r')) = length newv).
    refine (foldi_inv _ _ (fun (_ : nat) (st : list (option (list sdna)) * R) => length (fst st) = length newv) _ _ _ _ _ _ _ H).
    - simpl. apply map_length.
    - intros j a [acc r0] st2 _ _ Hinv Hstep. simpl in Hstep, Hinv.
      destruct (pw_cands R (rec j) cands old newv j (length cands) r0) as [[cu r1]|] eqn:Ec; simpl in Hstep; inv Hstep.
      apply pw_cands_len in Ec; auto. simpl. rewrite zip_app_length. lia. intros; eapply Hrec; eauto.
  Qed.

  Lemma pw_len_both :
    (forall s a forced ps r outs r', pw_space R G kd ws tgt s a forced ps r = Ok (outs, r') -> length outs = length ps) /\
    (forall p a forced col r outs r', pw_point R G kd ws tgt p a forced col r = Ok (outs, r') -> length outs = length col).
  Proof.
    apply dspec_dpoint_ind.
    - intros es IH a forced ps r outs r' H. rewrite pw_space_eq in H.
      match type of H with rbind ?e _ = _ => destruct e as [[acc r1]|] eqn:E; simpl in H; inv H end.
      rewrite map_length. change (length (fst (acc, r')) = length ps).
      refine (foldi_inv _ _ (fun (_ : nat) (st : list (option (list pdna)) * R) => length (fst st) = length ps) _ _ _ _ _ _ _ E).
      + simpl. apply map_length.
      + intros i e [acc0 r0] st2 He _ Hinv Hstep. rewrite Nat.sub_0_r in He. simpl in Hstep, Hinv.
        match type of Hstep with rbind ?e _ = _ => destruct e as [[o1 r2]|] eqn:Ep; simpl in Hstep; inv Hstep end.
        rewrite Forall_forall in IH. apply (IH e (nth_error_In _ _ He)) in Ep. simpl. rewrite zip_app_length, Ep, map_length. lia.
    - intros k cands dist srt nm lits IH a forced col r outs r' H.
      rewrite (pw_point_choices_eq R G kd ws tgt) in H. cbv zeta in H.
      set (old := map (fun o => match o with Some (PChoices cs) => Some cs | _ => None end) col) in *.
      match type of H with rbind ?e _ = _ => destruct e as [[newv r1]|] eqn:En; simpl in H; [|discriminate] end.
      assert (Hn : length newv = length col).
      { destruct ((tgt a || forced) && negb (numeric kd) && negb (all_none old)).
        - destruct (merge_choice _ _ _ _ _ _ _ _ r) as [[dec r2]|]; simpl in En; inv En. unfold old. rewrite !map_length. auto.
        - inv En. unfold old. rewrite !map_length. auto. }
      match type of H with rbind ?e _ = _ => destruct e as [[subs r2]|] eqn:Es; simpl in H; inv H end.
      apply pw_subs_len in Es.
      + unfold pw_assemble. rewrite map_length, combine_length. lia.
      + unfold old. rewrite map_length. lia.
      + intros j c cand lives r0 outs0 r3 Hc Hr. cbv beta in Hr. eapply nth_error_Forall in IH; [|exact Hc]. eapply IH; eauto.
    - intros lo hi nm a forced col r outs r' H. rewrite pw_point_float_eq in H. cbv zeta in H.
      destruct ((tgt a || forced) && negb (all_none _)).
      + destruct (merge_float _ _ _ _ _ _ _ r) as [[f r1]|]; simpl in H; inv H. apply map_length.
      + inv H. rewrite !map_length. auto.
    - intros nm a forced col r outs r' H. rewrite pw_point_custom_eq in H. cbv zeta in H.
      destruct ((tgt a || forced) && negb (numeric kd) && negb (all_none _)).
      + destruct (choose_parent _ _ _ _ _ r) as [[t r1]|]; simpl in H; inv H. apply map_length.
      + inv H. rewrite !map_length. auto.
  Qed.
End Len.

(* ---- where a merged decision comes from ----------------------------------------------------------------------- *)
Section Prov.
  Variable R : Type.
  Variable G : rng R.
  Variable ws : list Z.
  Definition prov (vals : list (option (list nat))) (dec : list nat) : Prop :=
    forall j v, nth_error dec j = Some v -> exists l, In (Some l) vals /\ nth_error l j = Some v.

  Lemma merge_multi_prov : forall kd fuel k dist srt vals index attempts results r dec r',
    (forall l, In (Some l) vals -> length l = k) -> length results = index -> index <= k -> prov vals results ->
    merge_multi R G kd ws fuel k dist srt vals index attempts results r = Ok (dec, r') -> prov vals dec.
  Proof.
    intros kd. induction fuel as [|fuel IH]; intros k dist srt vals index attempts results r dec r' Hv Hl Hi Hp H. discriminate.
    rewrite merge_multi_S in H.
    destruct (Nat.eqb_spec index k). inv H. auto.
    destruct (8 <=? attempts).
    { apply choose_weighted_in in H. intros j v Hj. exists dec. auto. }
    cbv zeta in H. destruct (sumZ _ <=? 0)%Z; [discriminate|].
    destruct (picks G _ 1 r) as [l r1]. destruct l as [|p [|? ?]]; try discriminate.
    destruct (nth_error vals p) as [[dl|]|] eqn:E; try discriminate.
    destruct (allowed dist srt results (nth index dl 0)).
    - eapply IH in H; eauto. rewrite app_length; simpl; lia. lia.
      intros j v Hj. destruct (Nat.lt_ge_cases j (length results)).
      + rewrite nth_error_app1 in Hj by auto. auto.
      + rewrite nth_error_app2 in Hj by auto. destruct (j - length results) eqn:Ej; simpl in Hj; [|destruct n0; discriminate].
        inv Hj. exists dl. split. eapply nth_error_In; eauto.
        assert (j = length results) by lia. subst j. apply nth_error_nth'.
        rewrite (Hv dl). lia. eapply nth_error_In; eauto.
    - eapply IH in H; eauto.
  Qed.
  Lemma merge_choice_prov : forall kd k dist srt vals r dec r',
    (forall l, In (Some l) vals -> length l = k) ->
    merge_choice R G kd ws k dist srt vals r = Ok (dec, r') -> prov vals dec.
  Proof.
    unfold merge_choice. intros kd k dist srt vals r dec r' Hv H. destruct (k =? 1).
    - apply choose_parent_in in H. intros j v Hj. exists dec. auto.
    - eapply merge_multi_prov in H; eauto. lia. intros j v Hj. destruct j; discriminate.
  Qed.
End Prov.

Definition LiveSome {X Y} (ps : list (option X)) (outs : list (option Y)) : Prop :=
  forall p x, nth_error ps p = Some (Some x) -> exists y, nth_error outs p = Some (Some y).
Definition HasLive {X} (ps : list (option X)) : Prop := exists p x, nth_error ps p = Some (Some x).
Definition AllSome {Y} (n : nat) (outs : list (option Y)) : Prop := forall p, p < n -> exists y, nth_error outs p = Some (Some y).

Lemma existsb_nth : forall (l : list bool) p, nth_error l p = Some true -> existsb (fun b => b) l = true.
Proof. intros. apply existsb_exists. exists true. split; auto. eapply nth_error_In; eauto. Qed.

Section SubsTotal.
  Variable R : Type.
  Variable cands : list dspec.
  Variable old : list (option (list (nat * sdna))).
  Variable newv : list (option (list nat)).
  Hypothesis Hlen : length old = length newv.
  Hypothesis Hold : forall p cs, nth_error old p = Some (Some cs) -> Forall (fun c => Rsub cands (fst c) (snd c)) cs.

  Definition rec_ok (f : bool) (rec : nat -> dspec -> list (option sdna) -> R -> res (list (option sdna) * R)) : Prop :=
    forall c cand lives r0 outs r1, nth_error cands c = Some cand -> okp (fun d => valid cand d = true) lives ->
      rec c cand lives r0 = Ok (outs, r1) ->
      LiveSome lives outs /\ (f = true -> HasLive lives -> AllSome (length lives) outs).
  Definition rec_len (rec : nat -> dspec -> list (option sdna) -> R -> res (list (option sdna) * R)) : Prop :=
    forall c cand lives r0 outs r1, nth_error cands c = Some cand -> rec c cand lives r0 = Ok (outs, r1) -> length outs = length lives.

  Definition cond (f : bool) (j p : nat) : Prop :=
    exists l c0, nth_error newv p = Some (Some l) /\ nth j l (length cands) = c0 /\ c0 < length cands /\
      ((exists cs sub, nth_error old p = Some (Some cs) /\ nth_error cs j = Some (c0, sub)) \/
       (f = true /\ exists q cs sub l', nth_error old q = Some (Some cs) /\ nth_error cs j = Some (c0, sub) /\
                                     nth_error newv q = Some (Some l') /\ nth j l' (length cands) = c0)).

  Lemma lives_valid : forall j c cand, nth_error cands c = Some cand ->
    okp (fun d => valid cand d = true) (lives_of old (wants_of newv j c (length cands)) j c).
  Proof.
    intros j c cand Hc sub Hin. unfold lives_of in Hin. apply in_map_iff in Hin as [[[cs|] [|]] [Hx Hin]]; try discriminate.
    destruct (nth_error cs j) as [[c0 sub0]|] eqn:Ej; [|discriminate].
    destruct (Nat.eqb_spec c0 c); inv Hx.
    apply In_nth_error in Hin as [p Hp]. rewrite nth_error_combine in Hp.
    destruct (nth_error old p) as [[cs'|]|] eqn:Eo; try discriminate;
      destruct (nth_error (wants_of newv j c (length cands)) p); inv Hp.
    apply Hold in Eo. rewrite Forall_forall in Eo. apply nth_error_In in Ej. apply Eo in Ej.
    unfold Rsub in Ej. simpl in Ej. rewrite with_nth_nth_error, Hc in Ej. auto.
  Qed.
  Lemma wants_nth : forall j c p l, nth_error newv p = Some (Some l) ->
    nth_error (wants_of newv j c (length cands)) p = Some (nth j l (length cands) =? c).
  Proof. intros. unfold wants_of. rewrite nth_error_map, H. reflexivity. Qed.
  Lemma lives_nth : forall j c p cs sub l, nth_error old p = Some (Some cs) -> nth_error cs j = Some (c, sub) ->
    nth_error newv p = Some (Some l) -> nth j l (length cands) = c ->
    nth_error (lives_of old (wants_of newv j c (length cands)) j c) p = Some (Some sub).
  Proof.
    intros j c p cs sub l Ho Hj Hn Hc. unfold lives_of. rewrite nth_error_map, nth_error_combine, Ho, (wants_nth j c p l Hn).
    rewrite Hc, Nat.eqb_refl. simpl. rewrite Hj, Nat.eqb_refl. reflexivity.
  Qed.

  Lemma pw_cands_total : forall f rec j r cur r' p, rec_ok f rec -> rec_len rec ->
    pw_cands R rec cands old newv j (length cands) r = Ok (cur, r') -> cond f j p ->
    exists y, nth_error cur p = Some (Some y).
  Proof.
    intros f rec j r cur r' p Hrec Hrl H Hcond. destruct Hcond as (l & c0 & Hn & Hc0 & Hlt & Hsrc).
    assert (Hp : p < length newv) by (apply nth_error_Some; congruence).
    unfold pw_cands in H.
    assert (HF : length (fst (cur, r')) = length newv /\ (c0 < 0 + length cands -> exists y, nth_error (fst (cur, r')) p = Some (Some y))).
    2: { apply HF. simpl. auto. }
    refine (foldi_inv _ _ (fun (c : nat) (st : list (option sdna) * R) =>
              length (fst st) = length newv /\ (c0 < c -> exists y, nth_error (fst st) p = Some (Some y))) _ _ _ _ _ _ _ H).
    - simpl. split. apply map_length. lia.
    - intros c cand [cur0 r0] st2 Hc _ [Hl0 Hinv] Hstep. rewrite Nat.sub_0_r in Hc. simpl in Hstep, Hl0, Hinv.
      pose proof (wants_nth j c p l Hn) as Hw.
      destruct (negb (existsb (fun b : bool => b) (wants_of newv j c (length cands)))) eqn:Ex.
      + injection Hstep as Hst. subst st2. simpl. split; auto. intros Hlt'. destruct (Nat.eq_dec c0 c) as [->|Hne]; [|apply Hinv; lia].
        rewrite Hc0, Nat.eqb_refl in Hw. apply existsb_nth in Hw. rewrite Hw in Ex. discriminate.
      + destruct (rec c cand _ r0) as [[outs r1]|] eqn:Er; simpl in Hstep; [|discriminate]. injection Hstep as Hst. subst st2.
        destruct (Hrec _ _ _ _ _ _ Hc (lives_valid j c cand Hc) Er) as (Hls & Hall).
        pose proof (Hrl _ _ _ _ _ _ Hc Er) as Hlo.
        assert (Hll : length (lives_of old (wants_of newv j c (length cands)) j c) = length newv).
        { unfold lives_of, wants_of. rewrite map_length, combine_length, map_length. lia. }
        simpl. split.
        { rewrite pick_outs_length, Hlo, Hll. unfold wants_of. rewrite map_length. lia. }
        intros Hlt'.
        assert (Hcu : exists cu, nth_error cur0 p = Some cu) by (destruct (nth_error cur0 p) eqn:E; eauto; apply nth_error_None in E; lia).
        destruct Hcu as [cu Hcu].
        assert (Hou : exists o, nth_error outs p = Some o) by (destruct (nth_error outs p) eqn:E; eauto; apply nth_error_None in E; lia).
        destruct Hou as [o Hou].
        unfold pick_outs. rewrite nth_error_map, !nth_error_combine, Hw, Hcu, Hou. simpl.
        destruct (Nat.eq_dec c0 c) as [->|Hne].
        * rewrite Hc0, Nat.eqb_refl.
          destruct Hsrc as [(cs & sub & Ho & Hj)|(Hf & q & cs & sub & l' & Ho & Hj & Hnq & Hcq)].
          -- pose proof (lives_nth j c p cs sub l Ho Hj Hn Hc0) as Hlv. destruct (Hls _ _ Hlv) as [y Hy]. rewrite Hy in Hou. inv Hou. eauto.
          -- pose proof (lives_nth j c q cs sub l' Ho Hj Hnq Hcq) as Hlv.
             destruct (Hall Hf (ex_intro _ q (ex_intro _ sub Hlv)) p) as [y Hy]. lia. rewrite Hy in Hou. inv Hou. eauto.
        * assert (Hneq : (nth j l (length cands) =? c) = false) by (apply Nat.eqb_neq; lia). rewrite Hneq.
          destruct (Hinv ltac:(lia)) as [y Hy]. rewrite Hy in Hcu. inv Hcu. eauto.
  Qed.

  Lemma pw_subs_total : forall (fj : nat -> bool) rec k r subs r' p, p < length newv ->
    (forall j, rec_ok (fj j) (rec j)) -> (forall j, rec_len (rec j)) ->
    pw_subs R rec k cands old newv r = Ok (subs, r') -> (forall j, j < k -> cond (fj j) j p) ->
    exists sl, nth_error subs p = Some (Some sl).
  Proof.
    intros fj rec k r subs r' p Hp Hrec Hrl H Hc. unfold pw_subs in H.
    assert (HF : length (fst (subs, r')) = length newv /\ exists sl, nth_error (fst (subs, r')) p = Some (Some sl)).
    2: { apply HF. }
    refine (foldi_inv _ _ (fun (_ : nat) (st : list (option (list sdna)) * R) =>
              length (fst st) = length newv /\ exists sl, nth_error (fst st) p = Some (Some sl)) _ _ _ _ _ _ _ H).
    - simpl. split. apply map_length. exists []. rewrite nth_error_map.
      destruct (nth_error newv p) eqn:E; auto. apply nth_error_None in E. lia.
    - intros j a [acc r0] st2 Ha _ [Hl0 [sl Hsl]] Hstep. rewrite Nat.sub_0_r in Ha. simpl in Hstep, Hl0, Hsl.
      assert (Hj : j < k). { rewrite <- (seq_length k 0). apply nth_error_Some. congruence. }
      destruct (pw_cands R (rec j) cands old newv j (length cands) r0) as [[cu r1]|] eqn:Ec; simpl in Hstep; inv Hstep.
      assert (Hcl : length cu = length newv).
      { eapply pw_cands_len; [exact Hlen| |exact Ec]. intros c cand lives r2 outs r3 Hcc Hr. eapply Hrl; eauto. }
      destruct (pw_cands_total (fj j) (rec j) j r0 cu r1 p (Hrec j) (Hrl j) Ec (Hc j Hj)) as [y Hy].
      simpl. split. rewrite zip_app_length. lia.
      exists (sl ++ [y]). apply nth_error_zip_app. eauto.
  Qed.
End SubsTotal.

Lemma Rsub_lt : forall cands c sub, Rsub cands c sub -> c < length cands.
Proof.
  unfold Rsub. intros cands c sub H. rewrite with_nth_nth_error in H.
  destruct (nth_error cands c) eqn:E; [|discriminate]. apply nth_error_Some. congruence.
Qed.
Lemma nth_map_fst : forall (cs : list (nat * sdna)) j c sub d, nth_error cs j = Some (c, sub) -> nth j (map fst cs) d = c.
Proof. intros. erewrite nth_error_nth; [reflexivity|]. rewrite nth_error_map, H. reflexivity. Qed.

Section PwTotal.
  Variable R : Type.
  Variable G : rng R.
  Variable kd : pwkind.
  Variable ws : list Z.
  Variable tgt : addr -> bool.

  Definition tot_space (s : dspec) : Prop := forall a forced ps r outs r',
    okp (fun d => valid s d = true) ps -> pw_space R G kd ws tgt s a forced ps r = Ok (outs, r') ->
    LiveSome ps outs /\ (forced = true -> numeric kd = false -> HasLive ps -> AllSome (length ps) outs).
  Definition tot_point (p : dpoint) : Prop := forall a forced col r outs r',
    okp (fun x => valid_p p x = true) col -> pw_point R G kd ws tgt p a forced col r = Ok (outs, r') ->
    LiveSome col outs /\ (forced = true -> numeric kd = false -> HasLive col -> AllSome (length col) outs).

  Lemma tot_space_case : forall es, Forall tot_point es -> tot_space (Space es).
  Proof.
    intros es IH a forced ps r outs r' Hps H. rewrite pw_space_eq in H.
    match type of H with rbind ?e _ = _ => destruct e as [[acc r1]|] eqn:E; simpl in H; inv H end.
    assert (Hds : forall p ds i e, nth_error ps p = Some (Some (SSpace ds)) -> nth_error es i = Some e ->
                  exists x, nth_error ds i = Some x /\ valid_p e x = true).
    { intros p ds i e Hp He. apply (okp_nth _ _ _ _ _ Hps) in Hp. simpl in Hp. apply forallb2_Forall2 in Hp.
      destruct (nth_error ds i) as [x|] eqn:Ex.
      - exists x. split; auto. exact (Forall2_nth_error _ _ (fun e0 x0 => valid_p e0 x0 = true) _ _ _ _ _ Hp He Ex).
      - apply nth_error_None in Ex. apply Forall2_len in Hp. assert (i < length es) by (apply nth_error_Some; congruence). lia. }
    assert (HF : length (fst (acc, r')) = length ps /\
                 (forall p x, nth_error ps p = Some (Some x) -> exists l, nth_error (fst (acc, r')) p = Some (Some l)) /\
                 (forced = true -> numeric kd = false -> HasLive ps -> forall p, p < length ps -> exists l, nth_error (fst (acc, r')) p = Some (Some l))).
    { refine (foldi_inv _ _ (fun (_ : nat) (st : list (option (list pdna)) * R) =>
                length (fst st) = length ps /\
                (forall p x, nth_error ps p = Some (Some x) -> exists l, nth_error (fst st) p = Some (Some l)) /\
                (forced = true -> numeric kd = false -> HasLive ps -> forall p, p < length ps -> exists l, nth_error (fst st) p = Some (Some l)))
                _ _ _ _ _ _ _ E).
      - simpl. split. apply map_length.
        assert (K : forall p, p < length ps -> exists l : list pdna, nth_error (map (fun _ : option sdna => Some []) ps) p = Some (Some l)).
        { intros p Hp. exists []. rewrite nth_error_map. destruct (nth_error ps p) eqn:Ep; auto. apply nth_error_None in Ep. lia. }
        split. intros p x Hp. apply K. apply nth_error_Some. congruence. intros _ _ _. exact K.
      - intros i e [acc0 r0] st2 He _ (Hl0 & Ha & Hb) Hstep. rewrite Nat.sub_0_r in He. cbn [fst snd] in *.
        match type of Hstep with rbind ?e _ = _ => destruct e as [[o1 r2]|] eqn:Ep; simpl in Hstep; inv Hstep end.
        set (col := map (fun o => match o with Some (SSpace ds) => nth_error ds i | None => None end) ps) in *.
        assert (Hcol : okp (fun x => valid_p e x = true) col).
        { intros x Hx. apply in_map_iff in Hx as [[[ds]|] [Hx Hin]]; [|discriminate].
          apply In_nth_error in Hin as [p Hp]. destruct (Hds _ _ _ _ Hp He) as (x' & Hx' & Hv). congruence. }
        assert (Hlive : forall p x, nth_error ps p = Some (Some x) -> exists y, nth_error col p = Some (Some y)).
        { intros p [ds] Hp. destruct (Hds _ _ _ _ Hp He) as (x' & Hx' & _). exists x'. unfold col. rewrite nth_error_map, Hp. simpl. congruence. }
        assert (Hcl : length col = length ps) by (unfold col; apply map_length).
        pose proof (proj2 (pw_len_both R G kd ws tgt) _ _ _ _ _ _ _ Ep) as Hol.
        rewrite Forall_forall in IH. destruct (IH e (nth_error_In _ _ He) _ _ _ _ _ _ Hcol Ep) as [Hls Hall].
        simpl. split. rewrite zip_app_length. lia. split.
        + intros p x Hp. destruct (Ha p x Hp) as [l Hl]. destruct (Hlive p x Hp) as [y Hy]. destruct (Hls _ _ Hy) as [z Hz].
          exists (l ++ [z]). apply nth_error_zip_app. eauto.
        + intros Hf Hn (q & xq & Hq) p Hp. destruct (Hb Hf Hn (ex_intro _ q (ex_intro _ xq Hq)) p Hp) as [l Hl].
          destruct (Hlive q xq Hq) as [y Hy].
          destruct (Hall Hf Hn (ex_intro _ q (ex_intro _ y Hy)) p) as [z Hz]. lia.
          exists (l ++ [z]). apply nth_error_zip_app. eauto. }
    destruct HF as (Hl & Ha & Hb). cbn [fst] in *. split.
    - intros p x Hp. destruct (Ha p x Hp) as [l Hl']. exists (SSpace l). rewrite nth_error_map, Hl'. reflexivity.
    - intros Hf Hn HL p Hp. destruct (Hb Hf Hn HL p Hp) as [l Hl']. exists (SSpace l). rewrite nth_error_map, Hl'. reflexivity.
  Qed.

  Lemma tot_float_case : forall lo hi nm, tot_point (FloatP lo hi nm).
  Proof.
    intros lo hi nm a forced col r outs r' Hcol H. rewrite pw_point_float_eq in H. cbv zeta in H.
    set (vals := map (fun o => match o with Some (PFloat f) => Some f | _ => None end) col) in *.
    assert (Hv : forall p x, nth_error col p = Some (Some x) -> exists f, x = PFloat f /\ nth_error vals p = Some (Some f)).
    { intros p x Hp. pose proof (okp_nth _ _ _ _ _ Hcol Hp) as Hx. destruct x; try discriminate.
      exists f. split; auto. unfold vals. rewrite nth_error_map, Hp. reflexivity. }
    destruct ((tgt a || forced) && negb (all_none vals)) eqn:Et.
    - destruct (merge_float _ _ _ _ _ _ _ r) as [[f r1]|]; simpl in H; inv H.
      assert (K : forall p, p < length col -> exists y, nth_error (map (fun _ : option pdna => Some (PFloat f)) col) p = Some (Some y)).
      { intros p Hp. exists (PFloat f). rewrite nth_error_map. destruct (nth_error col p) eqn:E; auto. apply nth_error_None in E. lia. }
      split. intros p x Hp. apply K. apply nth_error_Some. congruence. intros _ _ _. exact K.
    - inv H. split.
      + intros p x Hp. destruct (Hv p x Hp) as (f & -> & Hf). exists (PFloat f). rewrite nth_error_map, Hf. reflexivity.
      + intros Hf Hn (q & xq & Hq). destruct (Hv q xq Hq) as (f & -> & Hfq).
        assert (all_none vals = false).
        { clear -Hfq. revert q Hfq. induction vals as [|[v|] l IH]; intros q Hq; destruct q; simpl in *; try discriminate; eauto. }
        rewrite H, Hf, orb_true_r in Et. discriminate.
  Qed.
  Lemma tot_custom_case : forall nm, tot_point (CustomP nm).
  Proof.
    intros nm a forced col r outs r' Hcol H. rewrite pw_point_custom_eq in H. cbv zeta in H.
    set (vals := map (fun o => match o with Some (PCustom t) => Some t | _ => None end) col) in *.
    assert (Hv : forall p x, nth_error col p = Some (Some x) -> exists t, x = PCustom t /\ nth_error vals p = Some (Some t)).
    { intros p x Hp. pose proof (okp_nth _ _ _ _ _ Hcol Hp) as Hx. destruct x; try discriminate.
      exists s. split; auto. unfold vals. rewrite nth_error_map, Hp. reflexivity. }
    destruct ((tgt a || forced) && negb (numeric kd) && negb (all_none vals)) eqn:Et.
    - destruct (choose_parent _ _ _ _ _ r) as [[t r1]|]; simpl in H; inv H.
      assert (K : forall p, p < length col -> exists y, nth_error (map (fun _ : option pdna => Some (PCustom t)) col) p = Some (Some y)).
      { intros p Hp. exists (PCustom t). rewrite nth_error_map. destruct (nth_error col p) eqn:E; auto. apply nth_error_None in E. lia. }
      split. intros p x Hp. apply K. apply nth_error_Some. congruence. intros _ _ _. exact K.
    - inv H. split.
      + intros p x Hp. destruct (Hv p x Hp) as (t & -> & Hf). exists (PCustom t). rewrite nth_error_map, Hf. reflexivity.
      + intros Hf Hn (q & xq & Hq). destruct (Hv q xq Hq) as (t & -> & Hfq).
        assert (all_none vals = false).
        { clear -Hfq. revert q Hfq. induction vals as [|[v|] l IH]; intros q Hq; destruct q; simpl in *; try discriminate; eauto. }
        rewrite H, Hf, Hn, orb_true_r in Et. discriminate.
  Qed.

  Lemma tot_choices_case : forall k cands dist srt nm lits, Forall tot_space cands -> tot_point (Choices k cands dist srt nm lits).
  Proof.
    intros k cands dist srt nm lits IH a forced col r outs r' Hcol H.
    rewrite pw_point_choices_eq in H. cbv zeta in H.
    set (n := length cands) in *.
    set (old := map (fun o => match o with Some (PChoices cs) => Some cs | _ => None end) col) in *.
    set (oldv := map (option_map (map fst)) old) in *.
    set (merged := (tgt a || forced) && negb (numeric kd) && negb (all_none old)) in *.
    (* the parents' own decisions *)
    assert (Hcolp : forall p x, nth_error col p = Some (Some x) -> exists cs, x = PChoices cs /\ nth_error old p = Some (Some cs)).
    { intros p x Hp. pose proof (okp_nth _ _ _ _ _ Hcol Hp) as Hx. destruct x as [cs| |]; try discriminate.
      exists cs. split; auto. unfold old. rewrite nth_error_map, Hp. reflexivity. }
    assert (Hold : forall p cs, nth_error old p = Some (Some cs) ->
              length cs = k /\ Forall (fun c => Rsub cands (fst c) (snd c)) cs).
    { intros p cs Hp. unfold old in Hp. rewrite nth_error_map in Hp. destruct (nth_error col p) as [[[cs'| |]|]|] eqn:Ec; inv Hp.
      apply (okp_nth _ _ _ _ _ Hcol) in Ec. apply valid_p_choices_iff in Ec. tauto. }
    assert (Holdv : forall p, nth_error oldv p = option_map (option_map (map fst)) (nth_error old p)).
    { intros p. unfold oldv. apply nth_error_map. }
    assert (Hlen_old : length old = length col) by (unfold old; apply map_length).
    match type of H with rbind ?e _ = _ => destruct e as [[newv r1]|] eqn:En; cbn [rbind fst snd] in H; [|discriminate] end.
    match type of H with rbind ?e _ = _ => destruct e as [[subs r2]|] eqn:Es; cbn [rbind fst snd] in H; inv H end.
    (* the decisions after merging *)
    assert (Hnew : (merged = false /\ newv = oldv) \/
                   (merged = true /\ exists dec, newv = map (fun _ => Some dec) old /\ length dec = k /\ prov oldv dec)).
    { destruct merged eqn:Em.
      - right. split; auto. destruct (merge_choice R G kd ws k dist srt oldv r) as [[dec r3]|] eqn:Emc; cbn [rbind fst snd] in En; inv En.
        exists dec. split; auto.
        assert (Hvl : forall l, In (Some l) oldv -> length l = k /\ constraint_ok dist srt l = true).
        { intros l Hl. apply In_nth_error in Hl as [p Hp]. rewrite Holdv in Hp.
          destruct (nth_error old p) as [[cs|]|] eqn:Eo; inv Hp.
          unfold old in Eo. rewrite nth_error_map in Eo. destruct (nth_error col p) as [[[cs'| |]|]|] eqn:Ec; inv Eo.
          apply (okp_nth _ _ _ _ _ Hcol) in Ec. apply valid_p_choices_iff in Ec. rewrite map_length. tauto. }
        split. eapply merge_choice_ok; eauto. eapply merge_choice_prov; eauto. intros l Hl. apply Hvl; auto.
      - left. inv En. auto. }
    assert (Hln : length newv = length col).
    { destruct Hnew as [[_ ->]|[_ (dec & -> & _)]]; unfold oldv; rewrite !map_length; auto. }
    set (fj := fun j : nat => (forced || (merged && existsb (fun ov : option (list nat) * option (list nat) =>
                   match ov with (Some o, Some v) => negb (nth j o n =? nth j v n) | _ => true end) (combine oldv newv)))
                   && negb (numeric kd)).
    (* what the recursion into a candidate guarantees *)
    assert (Hrec : forall j, rec_ok R cands (fj j) (fun c cand lives r0 =>
               pw_space R G kd ws tgt cand (a ++ (if k =? 1 then [] else [j]) ++ [c])
                 (forced || (merged && existsb (fun ov : option (list nat) * option (list nat) =>
                     match ov with (Some o, Some v) => negb (nth j o n =? nth j v n) | _ => true end) (combine oldv newv))) lives r0)).
    { intros j c cand lives r0 outs0 r3 Hc Hl Hr. eapply nth_error_Forall in IH; [|exact Hc].
      destruct (IH _ _ _ _ _ _ Hl Hr) as [H1 H2]. split; auto.
      intros Hf HL. unfold fj in Hf. apply andb_true_iff in Hf as [Hf1 Hf2]. apply negb_true_iff in Hf2. auto. }
    assert (Hrl : forall j, rec_len R cands (fun c cand lives r0 =>
               pw_space R G kd ws tgt cand (a ++ (if k =? 1 then [] else [j]) ++ [c])
                 (forced || (merged && existsb (fun ov : option (list nat) * option (list nat) =>
                     match ov with (Some o, Some v) => negb (nth j o n =? nth j v n) | _ => true end) (combine oldv newv))) lives r0)).
    { intros j c cand lives r0 outs0 r3 Hc Hr. eapply (proj1 (pw_len_both R G kd ws tgt)); eauto. }
    (* the two sources of sub-decisions *)
    assert (Hown : forall p cs j, nth_error old p = Some (Some cs) -> nth_error newv p = Some (Some (map fst cs)) -> j < k ->
                   cond cands old newv (fj j) j p).
    { intros p cs j Ho Hn Hj. destruct (Hold _ _ Ho) as [Hl Hs].
      destruct (nth_error cs j) as [[c1 sub]|] eqn:Ej; [|apply nth_error_None in Ej; lia].
      exists (map fst cs), c1. split; auto. split. apply (nth_map_fst cs j c1 sub); auto. split.
      - rewrite Forall_forall in Hs. apply nth_error_In in Ej. apply Hs in Ej. apply Rsub_lt in Ej. auto.
      - left. eauto. }
    assert (Hmerged : forall dec, merged = true -> newv = map (fun _ => Some dec) old -> length dec = k -> prov oldv dec ->
                      forall p j, p < length col -> j < k ->
                      (forced = true \/ exists cs c1 sub, nth_error old p = Some (Some cs) /\ nth_error cs j = Some (c1, sub)) ->
                      cond cands old newv (fj j) j p).
    { intros dec Hm -> Hdl Hpv p j Hp Hj Hwhy.
      assert (Hnp : forall q, q < length col -> nth_error (map (fun _ : option (list (nat * sdna)) => Some dec) old) q = Some (Some dec)).
      { intros q Hq. rewrite nth_error_map. destruct (nth_error old q) eqn:E; auto. apply nth_error_None in E. lia. }
      destruct (nth_error dec j) as [c0|] eqn:Edj; [|apply nth_error_None in Edj; lia].
      destruct (Hpv j c0 Edj) as (lq & Hlq & Hlqj). apply In_nth_error in Hlq as [q Hq]. rewrite Holdv in Hq.
      destruct (nth_error old q) as [[csq|]|] eqn:Eoq; inv Hq.
      rewrite nth_error_map in Hlqj. destruct (nth_error csq j) as [[c0' subq]|] eqn:Eqj; [|discriminate].
      simpl in Hlqj. injection Hlqj as Hcc. subst c0'.
      assert (Hq : q < length col) by (rewrite <- Hlen_old; apply nth_error_Some; congruence).
      assert (Hc0 : nth j dec n = c0) by (apply nth_error_nth; auto).
      assert (Hlt : c0 < length cands).
      { destruct (Hold _ _ Eoq) as [_ Hs]. rewrite Forall_forall in Hs. apply nth_error_In in Eqj. apply Hs in Eqj. apply Rsub_lt in Eqj. auto. }
      simpl in Hc0. exists dec, c0. split. apply Hnp; auto. split; auto. split; auto.
      destruct Hwhy as [Hf|(cs & c1 & sub & Ho & Hcj)].
      - right. split.
        + unfold fj. rewrite Hf. simpl. unfold merged in Hm. rewrite !andb_true_iff in Hm. tauto.
        + exists q, csq, subq, dec. repeat split; auto.
      - destruct (Nat.eq_dec c1 c0) as [->|Hne]. left; eauto.
        right. split.
        + unfold fj. rewrite Hm. apply andb_true_iff. split; [|unfold merged in Hm; rewrite !andb_true_iff in Hm; tauto].
          apply orb_true_iff. right. simpl. apply existsb_exists. exists (Some (map fst cs), Some dec). split.
          * apply (nth_error_In _ p). rewrite nth_error_combine, Holdv, Ho, (Hnp p Hp). reflexivity.
          * apply negb_true_iff. apply Nat.eqb_neq. rewrite (nth_map_fst cs j c1 sub n Hcj). fold n in Hc0. rewrite Hc0. auto.
        + exists q, csq, subq, dec. repeat split; auto. }
    assert (Hsub : forall p, p < length col -> (forall j, j < k -> cond cands old newv (fj j) j p) ->
                   exists sl, nth_error subs p = Some (Some sl)).
    { intros p Hp Hc. eapply (pw_subs_total R cands old newv); [lia|intros q cs Hq; apply (Hold q cs Hq)|lia|exact Hrec|exact Hrl|exact Es|exact Hc]. }
    assert (Hasm : forall p l sl, nth_error newv p = Some (Some l) -> nth_error subs p = Some (Some sl) ->
                   exists y, nth_error (pw_assemble newv subs) p = Some (Some y)).
    { intros p l sl H1 H2. unfold pw_assemble. rewrite nth_error_map, nth_error_combine, H1, H2. simpl. eauto. }
    split.
    - (* a parent that is active here *)
      intros p x Hp. destruct (Hcolp p x Hp) as (cs & -> & Ho).
      assert (Hpl : p < length col) by (apply nth_error_Some; congruence).
      destruct Hnew as [[Hm Hnv]|[Hm (dec & Hnv & Hdl & Hpv)]].
      + assert (Hn : nth_error newv p = Some (Some (map fst cs))) by (rewrite Hnv, Holdv, Ho; reflexivity).
        destruct (Hsub p Hpl) as [sl Hsl]. intros j Hj. apply (Hown p cs j); auto. eauto.
      + destruct (Hsub p Hpl) as [sl Hsl].
        { intros j Hj. apply (Hmerged dec Hm Hnv Hdl Hpv p j Hpl Hj). right.
          destruct (Hold _ _ Ho) as [Hl _]. destruct (nth_error cs j) as [[c1 sub]|] eqn:Ej; [eauto 6|apply nth_error_None in Ej; lia]. }
        apply (Hasm p dec sl); auto. rewrite Hnv, nth_error_map, Ho. reflexivity.
    - (* forced: every parent, active or not *)
      intros Hf Hnn (q & xq & Hq) p Hp. destruct (Hcolp q xq Hq) as (csq & -> & Hoq).
      assert (Hm : merged = true).
      { unfold merged. rewrite Hf, Hnn, orb_true_r. simpl. apply negb_true_iff.
        clear -Hoq. revert q Hoq. induction old as [|[v|] l IHl]; intros q Hq; destruct q; simpl in *; try discriminate; eauto. }
      destruct Hnew as [[Hm' _]|[_ (dec & Hnv & Hdl & Hpv)]]; [congruence|].
      destruct (Hsub p Hp) as [sl Hsl].
      { intros j Hj. apply (Hmerged dec Hm Hnv Hdl Hpv p j Hp Hj). left; auto. }
      apply (Hasm p dec sl); auto. rewrite Hnv, nth_error_map.
      destruct (nth_error old p) eqn:E; auto. apply nth_error_None in E. lia.
  Qed.

  Theorem pw_tot_both : (forall s, tot_space s) /\ (forall p, tot_point p).
  Proof.
    apply dspec_dpoint_ind.
    - exact tot_space_case. - exact tot_choices_case. - exact tot_float_case. - exact tot_custom_case.
  Qed.
End PwTotal.

(* every parent ends up with a complete set of decisions: from_dict finds a value for every active decision point *)
Theorem pointwise_complete : forall R (G : rng R) kd ws tgt s ps r outs r',
  Forall (fun d => valid s d = true) ps ->
  pw_space R G kd ws tgt s [] false (map Some ps) r = Ok (outs, r') -> opt_list outs <> None.
Proof.
  intros R G kd ws tgt s ps r outs r' Hps H.
  pose proof (proj1 (pw_len_both R G kd ws tgt) _ _ _ _ _ _ _ H) as Hl. rewrite map_length in Hl.
  assert (Hok : okp (fun d => valid s d = true) (map Some ps)).
  { intros x Hx. apply in_map_iff in Hx as [x0 [Hx Hin]]. inv Hx. rewrite Forall_forall in Hps; auto. }
  destruct (proj1 (pw_tot_both R G kd ws tgt) s _ _ _ _ _ _ Hok H) as [Hls _].
  assert (Hall : forall p, p < length outs -> exists y, nth_error outs p = Some (Some y)).
  { intros p Hp. destruct (nth_error ps p) as [x|] eqn:E; [|apply nth_error_None in E; lia].
    apply (Hls p x). rewrite nth_error_map, E. reflexivity. }
  clear -Hall. induction outs as [|o outs IH]; simpl. discriminate.
  destruct (Hall 0) as [y Hy]. simpl; lia. simpl in Hy. inv Hy.
  destruct (opt_list outs) eqn:E. simpl. discriminate.
  exfalso. apply IH; auto. intros p Hp. apply (Hall (S p)). simpl. lia.
Qed.

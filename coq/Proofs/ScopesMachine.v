(* C17: the small-step machine computes [exec]; interleavings of machine steps of several threads. *)
From PG Require Import Common.Tactics Common.Tr Model.ScopesBase Gen.ScopeDefs Model.Scopes Proofs.ScopesStore Proofs.ScopesRestore.

(* --- run_solo ------------------------------------------------------------------------------------ *)
Lemma run_solo_add : forall n m t s,
  run_solo (n + m) t s = let '(t', s') := run_solo n t s in run_solo m t' s'.
Proof.
  induction n; intros; simpl.
  - reflexivity.
  - destruct (step t s) as [[t' s'] ev]. apply IHn.
Qed.

Lemma step_finished : forall t s, finished t = true -> step t s = (t, s, false).
Proof.
  intros [c k o] s H. unfold finished in H. simpl in H.
  destruct c; try discriminate. destruct k; try discriminate. reflexivity.
Qed.

Lemma run_solo_finished : forall n t s, finished t = true -> run_solo n t s = (t, s).
Proof. induction n; intros; simpl; auto. rewrite step_finished by assumption. apply IHn. assumption. Qed.

(* running p on top of any continuation reaches [Ret e] with the state, observations and flag of [exec] *)
Lemma machine_exec : forall p s ks o0,
  exists n, n <= psize p + psize p /\
    run_solo n (mkThread (Run p) ks o0) s =
    (mkThread (Ret (escapes (exec p s))) ks (o0 ++ observations (exec p s)), final (exec p s)).
Proof.
  unfold escapes, observations, final.
  induction p; intros s ks o0.
  - exists 1. split; [simpl; lia|]. simpl. rewrite app_nil_r. reflexivity.
  - exists 1. split; [simpl; lia|]. reflexivity.
  - exists 1. split; [simpl; lia|]. simpl. rewrite app_nil_r. reflexivity.
  - (* Seq *)
    destruct (IHp1 s (KSeq p2 :: ks) o0) as [n1 [L1 R1]].
    simpl. destruct (exec p1 s) as [[s1 o1] e1] eqn:E1. simpl in R1.
    destruct e1.
    + exists (1 + (n1 + 1)). split; [lia|].
      change (1 + (n1 + 1)) with (S (n1 + 1)). simpl. rewrite run_solo_add. rewrite R1. reflexivity.
    + destruct (IHp2 s1 ks (o0 ++ o1)) as [n2 [L2 R2]].
      destruct (exec p2 s1) as [[s2 o2] e2] eqn:E2. simpl in R2. simpl.
      exists (1 + (n1 + (1 + n2))). split; [lia|].
      change (1 + (n1 + (1 + n2))) with (S (n1 + (1 + n2))). simpl. rewrite run_solo_add. rewrite R1.
      simpl. rewrite R2. rewrite app_assoc. reflexivity.
  - (* Catch *)
    destruct (IHp s (KCatch :: ks) o0) as [n1 [L1 R1]].
    simpl. destruct (exec p s) as [[s1 o1] e1] eqn:E1. simpl in R1. simpl.
    exists (1 + (n1 + 1)). split; [lia|].
    change (1 + (n1 + 1)) with (S (n1 + 1)). simpl. rewrite run_solo_add. rewrite R1. reflexivity.
  - (* Scope *)
    simpl. destruct (cm_enter c a s) as [[s1 sv]|] eqn:E.
    + destruct (IHp s1 (KExit c a sv :: ks) o0) as [n1 [L1 R1]].
      destruct (exec p s1) as [[s2 o] e] eqn:E1. simpl in R1. simpl.
      exists (1 + (n1 + 1)). split; [lia|].
      change (1 + (n1 + 1)) with (S (n1 + 1)). cbn [run_solo step ctl stk out]. rewrite E.
      rewrite run_solo_add. rewrite R1. reflexivity.
    + exists 1. split; [lia|]. cbn [run_solo step ctl stk out]. rewrite E. simpl. rewrite app_nil_r. reflexivity.
Qed.

(* with the fuel the model uses, the machine started on p ends finished, with exactly the result of exec *)
Theorem machine_computes_exec : forall p s n, fuel_for p <= n ->
  run_solo n (start p) s =
  (mkThread (Ret (escapes (exec p s))) [] (observations (exec p s)), final (exec p s)).
Proof.
  intros p s n L. destruct (machine_exec p s [] []) as [m [Lm R]]. simpl in R.
  unfold fuel_for in L. replace n with (m + (n - m)) by lia.
  rewrite run_solo_add. unfold start. rewrite R. apply run_solo_finished. reflexivity.
Qed.

(* --- thread-local programs ---------------------------------------------------------------------------- *)
Definition cm_local (c : cm) : bool := negb (cm_reads_global c).
Definition getter_local (g : getter) : bool := negb (getter_global g).
Fixpoint tl_only (p : sprog) : bool :=
  match p with
  | Obs g => getter_local g
  | Seq p q => tl_only p && tl_only q
  | Catch p => tl_only p
  | Scope c _ b => cm_local c && tl_only b
  | _ => true
  end.
Definition frame_local (f : frame) : bool :=
  match f with KSeq q => tl_only q | KCatch => true | KExit c _ _ => cm_local c end.
Definition tl_thread (t : thread) : bool :=
  match ctl t with Run p => tl_only p | Ret _ => true end && forallb frame_local (stk t).

(* a thread-local manager neither reads nor writes the process-wide store *)
Lemma enter_local : forall c a l g g', cm_local c = true ->
  match cm_enter c a (l, g), cm_enter c a (l, g') with
  | Some (s1, sv), Some (s1', sv') => fst s1 = fst s1' /\ sv = sv' /\ snd s1 = g /\ snd s1' = g'
  | None, None => True
  | _, _ => False
  end.
Proof.
  intros c a l g g' H. destruct c; try discriminate; cbn [cm_enter]; unfold lift_enter; cbn [fst snd];
    try match goal with |- context [match ?f l with _ => _ end] => destruct (f l) as [[l1 sv]|]; cbn [fst snd]; auto end.
  - destruct (nth_error flag_scopes i) as [[k init]|]; cbn [fst snd]; auto.
    destruct (thread_local_value_scope_enter k a init l) as [[l1 sv]|]; cbn [fst snd]; auto.
  - destruct a; auto.
Qed.

Lemma exit_local : forall c a sv l g, cm_local c = true ->
  snd (cm_exit c a sv (l, g)) = g /\ forall g', fst (cm_exit c a sv (l, g')) = fst (cm_exit c a sv (l, g)).
Proof.
  intros c a sv l g H. destruct c; try discriminate; cbn [cm_exit]; unfold lift_exit; cbn [fst snd]; auto.
  destruct (nth_error flag_scopes i) as [[k init]|]; cbn [fst snd]; auto.
Qed.

Lemma observe_local : forall q l g g', getter_local q = true -> observe q (l, g) = observe q (l, g').
Proof. intros q l g g' H. destruct q; try discriminate; reflexivity. Qed.

Local Ltac fin :=
  repeat split; auto;
  try (unfold tl_thread; cbn [ctl stk forallb frame_local];
       repeat match goal with H : _ = true |- _ => rewrite H end; reflexivity).

(* one step of a thread-local thread: same thread, same local store, same event flag whatever the
   process-wide store is; the process-wide store is left alone; thread-locality is preserved *)
Lemma step_local : forall t l g g', tl_thread t = true ->
  let '(t1, s1, e1) := step t (l, g) in
  let '(t2, s2, e2) := step t (l, g') in
  t1 = t2 /\ fst s1 = fst s2 /\ e1 = e2 /\ snd s1 = g /\ snd s2 = g' /\ tl_thread t1 = true.
Proof.
  intros [c ks o] l g g' H. unfold tl_thread in H. cbn [ctl stk] in H. apply andb_prop in H. destruct H as [Hc Hk].
  unfold step. cbn [ctl stk out].
  destruct c as [p|e].
  - destruct p; cbn [tl_only] in Hc.
    + fin.
    + rewrite (observe_local g0 l g g') by assumption. fin.
    + fin.
    + apply andb_prop in Hc. destruct Hc as [H1 H2]. fin.
    + fin.
    + apply andb_prop in Hc. destruct Hc as [H1 H2].
      pose proof (enter_local c a l g g' H1) as EL.
      destruct (cm_enter c a (l, g)) as [[s1 sv]|]; destruct (cm_enter c a (l, g')) as [[s1' sv']|]; try contradiction.
      * destruct EL as [A [B [C D]]]. subst sv'. fin.
      * fin.
  - destruct ks as [|f ks].
    + fin.
    + cbn [forallb] in Hk. apply andb_prop in Hk. destruct Hk as [Hf Hk]. destruct f; cbn [frame_local] in Hf.
      * destruct e; fin.
      * fin.
      * destruct (exit_local c a sv l g Hf) as [A B]. destruct (exit_local c a sv l g' Hf) as [A' B']. fin.
Qed.

(* --- worlds ---------------------------------------------------------------------------------------------- *)
Lemma nth_error_set_nth_same : forall A (l : list A) n x y, nth_error l n = Some y -> nth_error (set_nth n x l) n = Some x.
Proof. induction l; destruct n; simpl; intros; try discriminate; auto. eapply IHl; eauto. Qed.
Lemma nth_error_set_nth_other : forall A (l : list A) n m x, n <> m -> nth_error (set_nth n x l) m = nth_error l m.
Proof. induction l; destruct n, m; simpl; intros; auto; try congruence. Qed.
Lemma set_nth_length : forall A (l : list A) n x, length (set_nth n x l) = length l.
Proof. induction l; destruct n; simpl; intros; auto. Qed.

Lemma wstep_other : forall i j w, i <> j -> nth_error (ths (fst (wstep j w))) i = nth_error (ths w) i.
Proof.
  intros i j w H. unfold wstep. destruct (nth_error (ths w) j) as [[t l]|]; auto.
  destruct (step t (l, wglob w)) as [[t' s'] ev]. cbn [fst ths]. apply nth_error_set_nth_other. auto.
Qed.

Lemma wstep_same : forall i w t l, nth_error (ths w) i = Some (t, l) ->
  let '(t', s', ev) := step t (l, wglob w) in
  nth_error (ths (fst (wstep i w))) i = Some (t', fst s').
Proof.
  intros i w t l H. unfold wstep. rewrite H. destruct (step t (l, wglob w)) as [[t' s'] ev].
  cbn [fst ths]. eapply nth_error_set_nth_same; eauto.
Qed.

Lemma run_steps_app : forall a b w, run_steps (a ++ b) w = run_steps b (run_steps a w).
Proof. induction a; simpl; intros; auto. Qed.

(* the solo run of a thread, with the process-wide store fixed to g0; only the thread and its store are kept *)
Definition solo_local (n : nat) (t : thread) (l : store) (g0 : store) : thread * store :=
  let '(t', s') := run_solo n t (l, g0) in (t', fst s').

Fixpoint count (i : nat) (sched : list nat) : nat :=
  match sched with [] => 0 | j :: r => (if Nat.eqb i j then 1 else 0) + count i r end.

Lemma solo_local_step : forall n t l g0 g, tl_thread t = true ->
  solo_local (S n) t l g0 =
  let '(t', s', _) := step t (l, g) in solo_local n t' (fst s') g0.
Proof.
  intros n t l g0 g H. unfold solo_local. cbn [run_solo].
  pose proof (step_local t l g0 g H) as SL.
  destruct (step t (l, g0)) as [[t1 s1] e1]. destruct (step t (l, g)) as [[t2 s2] e2].
  destruct SL as [A [B [C [D [E F]]]]]. subst t2. destruct s1 as [l1 g1]. destruct s2 as [l2 g2].
  cbn [fst snd] in *. subst. reflexivity.
Qed.

(* ISOLATION: in any interleaving of machine steps of any threads (which may use any managers), a thread whose
   own program uses thread-local managers and getters is, after the schedule, exactly where it is after the
   same number of its own steps run alone — whatever the process-wide store contained. *)
Theorem isolation_steps : forall sched w i t l g0,
  nth_error (ths w) i = Some (t, l) -> tl_thread t = true ->
  nth_error (ths (run_steps sched w)) i = Some (solo_local (count i sched) t l g0) /\
  tl_thread (fst (solo_local (count i sched) t l g0)) = true.
Proof.
  induction sched as [|j r IH]; intros w i t l g0 H T.
  - simpl. unfold solo_local. simpl. split; auto.
  - cbn [run_steps count]. destruct (Nat.eqb_spec i j) as [->|N].
    + pose proof (wstep_same j w t l H) as WS.
      pose proof (step_local t l (wglob w) (wglob w) T) as SL.
      rewrite (solo_local_step _ _ _ _ (wglob w) T).
      destruct (step t (l, wglob w)) as [[t' s'] ev]. destruct SL as [_ [_ [_ [_ [_ F]]]]].
      apply IH; auto.
    + simpl. apply IH; auto. rewrite wstep_other; auto.
Qed.

(* --- the event scheduler of the model is a particular interleaving of machine steps ------------------------- *)
Lemma count_app : forall i a b, count i (a ++ b) = count i a + count i b.
Proof. induction a; simpl; intros; auto. rewrite IHa. lia. Qed.
Lemma count_repeat_same : forall i n, count i (repeat i n) = n.
Proof. induction n; simpl; auto. rewrite Nat.eqb_refl. lia. Qed.

Lemma drain_steps : forall f i w, drain f i w = run_steps (repeat i f) w.
Proof. induction f; simpl; intros; auto. Qed.

Lemma tick_steps : forall f i w, exists n, tick f i w = run_steps (repeat i n) w.
Proof.
  induction f; intros i w.
  - exists 0. reflexivity.
  - cbn [tick]. destruct (wstep i w) as [w' ev] eqn:E. destruct ev.
    + exists 1. simpl. rewrite E. reflexivity.
    + destruct (IHf i w') as [n Hn]. exists (S n). simpl. rewrite E. simpl. assumption.
Qed.

Lemma run_events_steps : forall f sched w, exists sc, run_events f sched w = run_steps sc w.
Proof.
  induction sched as [|i r IH]; intros w.
  - exists []. reflexivity.
  - cbn [run_events]. destruct (tick_steps f i w) as [n Hn]. rewrite Hn.
    destruct (IH (run_steps (repeat i n) w)) as [sc Hsc]. exists (repeat i n ++ sc).
    rewrite run_steps_app. assumption.
Qed.

Lemma drain_all_steps : forall f n w, exists sc, drain_all f n w = run_steps sc w /\ forall i, i < n -> f <= count i sc.
Proof.
  induction n; intros w.
  - exists []. split; [reflexivity | intros; lia].
  - cbn [drain_all]. destruct (IHn w) as [sc [Hsc C]]. exists (sc ++ repeat n f). split.
    + rewrite run_steps_app, <- Hsc. apply drain_steps.
    + intros i Hi. rewrite count_app. destruct (Nat.eq_dec i n) as [->|N].
      * rewrite count_repeat_same. lia.
      * assert (i < n) by lia. specialize (C i H). lia.
Qed.

Lemma run_threads_steps : forall ps sched, exists sc,
  run_threads ps sched = run_steps sc (init_world ps) /\ forall i, i < length ps -> total_fuel ps <= count i sc.
Proof.
  intros. unfold run_threads.
  destruct (run_events_steps (total_fuel ps) sched (init_world ps)) as [sc1 H1]. rewrite H1.
  destruct (drain_all_steps (total_fuel ps) (length ps) (run_steps sc1 (init_world ps))) as [sc2 [H2 C]].
  exists (sc1 ++ sc2). split.
  - rewrite run_steps_app. assumption.
  - intros i Hi. rewrite count_app. specialize (C i Hi). lia.
Qed.

Lemma total_fuel_ge : forall ps i p, nth_error ps i = Some p -> fuel_for p <= total_fuel ps.
Proof.
  unfold total_fuel. induction ps; destruct i; simpl; intros; try discriminate.
  - inversion H; subst. lia.
  - specialize (IHps _ _ H). lia.
Qed.

(* ISOLATION, end to end: for every number of threads, every program of the other threads and every event
   schedule, a thread whose program uses thread-local managers ends finished, with the observations, the
   exception flag and the thread store it has when run alone from a fresh state. *)
Theorem isolation_threads : forall ps sched i p,
  nth_error ps i = Some p -> tl_only p = true ->
  nth_error (ths (run_threads ps sched)) i =
  Some (mkThread (Ret (escapes (exec p init_state))) [] (observations (exec p init_state)), fst (final (exec p init_state))).
Proof.
  intros ps sched i p H T.
  destruct (run_threads_steps ps sched) as [sc [E C]]. rewrite E.
  assert (Hi : i < length ps) by (apply nth_error_Some; congruence).
  assert (H0 : nth_error (ths (init_world ps)) i = Some (start p, empty_store nkeys)).
  { unfold init_world. cbn [ths]. erewrite map_nth_error; eauto. }
  assert (T0 : tl_thread (start p) = true).
  { unfold tl_thread, start. cbn [ctl stk forallb]. rewrite T. reflexivity. }
  destruct (isolation_steps sc (init_world ps) i (start p) (empty_store nkeys) (empty_store nglob) H0 T0) as [R _].
  rewrite R. f_equal. unfold solo_local.
  rewrite machine_computes_exec.
  - reflexivity.
  - specialize (C i Hi). pose proof (total_fuel_ge ps i p H). lia.
Qed.

Lemma lift_enter_some_m : forall f s s1 sv, lift_enter f s = Some (s1, sv) ->
  exists l1, f (fst s) = Some (l1, sv) /\ s1 = (l1, snd s).
Proof.
  unfold lift_enter. intros f s s1 sv H. destruct (f (fst s)) as [[l1 sv1]|]; try discriminate.
  apply some_pair_inj in H. destruct H as [<- <-]. eauto.
Qed.

(* --- process-wide managers ------------------------------------------------------------------------------------ *)
(* only the managers classified process-wide ever write the process-wide store *)
Lemma enter_keeps_glob : forall c a l g s1 sv, cm_global c = false -> cm_enter c a (l, g) = Some (s1, sv) -> snd s1 = g.
Proof.
  intros c a l g s1 sv H E. destruct c; try discriminate; cbn [cm_enter] in E;
    try (apply lift_enter_some_m in E; destruct E as [l1 [_ ->]]; reflexivity).
  - destruct (nth_error flag_scopes i) as [[k init]|].
    + apply lift_enter_some_m in E; destruct E as [l1 [_ ->]]; reflexivity.
    + apply some_pair_inj in E. destruct E as [<- _]. reflexivity.
  - rewrite dyn_enter_thread in E.
    destruct (is_none (tl_get g_dynamic_evaluate v_none g)); try discriminate.
    apply some_pair_inj in E. destruct E as [<- _]. reflexivity.
  - unfold dynguard_enter in E. cbn [fst snd] in E.
    repeat match type of E with context [if ?b then _ else _] => destruct b end; try discriminate;
      apply some_pair_inj in E; destruct E as [<- _]; reflexivity.
  - destruct a; try discriminate. apply some_pair_inj in E. destruct E as [<- _]. reflexivity.
Qed.

Lemma exit_keeps_glob : forall c a sv l g, cm_global c = false -> snd (cm_exit c a sv (l, g)) = g.
Proof.
  intros c a sv l g H. destruct c; try discriminate; cbn [cm_exit]; unfold lift_exit; cbn [fst snd]; auto.
  - destruct (nth_error flag_scopes i) as [[k init]|]; reflexivity.
  - rewrite dyn_exit_thread. destruct sv as [|h [|o [|e [|x r]]]]; auto. destruct (truthy h); reflexivity.
Qed.

Fixpoint no_global (p : sprog) : bool :=
  match p with
  | Seq p q => no_global p && no_global q
  | Catch p => no_global p
  | Scope c _ b => negb (cm_global c) && no_global b
  | _ => true
  end.
Definition frame_ng (f : frame) : bool :=
  match f with KSeq q => no_global q | KCatch => true | KExit c _ _ => negb (cm_global c) end.
Definition ng_thread (t : thread) : bool :=
  match ctl t with Run p => no_global p | Ret _ => true end && forallb frame_ng (stk t).

Local Ltac fin_ng :=
  repeat split; auto;
  try (unfold ng_thread; cbn [ctl stk forallb frame_ng];
       repeat match goal with H : _ = true |- _ => rewrite H end; reflexivity).

Lemma step_ng : forall t l g, ng_thread t = true ->
  let '(t1, s1, _) := step t (l, g) in snd s1 = g /\ ng_thread t1 = true.
Proof.
  intros [c ks o] l g H. unfold ng_thread in H. cbn [ctl stk] in H. apply andb_prop in H. destruct H as [Hc Hk].
  unfold step. cbn [ctl stk out].
  destruct c as [p|e].
  - destruct p; cbn [no_global] in Hc.
    + fin_ng.
    + fin_ng.
    + fin_ng.
    + apply andb_prop in Hc. destruct Hc as [H1 H2]. fin_ng.
    + fin_ng.
    + apply andb_prop in Hc. destruct Hc as [H1 H2].
      destruct (cm_enter c a (l, g)) as [[s1 sv]|] eqn:E.
      * apply negb_true_iff in H1. pose proof (enter_keeps_glob _ _ _ _ _ _ H1 E). apply negb_true_iff in H1. fin_ng.
      * fin_ng.
  - destruct ks as [|f ks].
    + fin_ng.
    + cbn [forallb] in Hk. apply andb_prop in Hk. destruct Hk as [Hf Hk]. destruct f; cbn [frame_ng] in Hf.
      * destruct e; fin_ng.
      * fin_ng.
      * apply negb_true_iff in Hf. pose proof (exit_keeps_glob c a sv l g Hf). fin_ng.
Qed.

Definition all_ng (w : world) : Prop := forall j tj lj, nth_error (ths w) j = Some (tj, lj) -> ng_thread tj = true.

Lemma wstep_ng : forall j w, all_ng w -> all_ng (fst (wstep j w)) /\ wglob (fst (wstep j w)) = wglob w.
Proof.
  intros j w A. unfold wstep. destruct (nth_error (ths w) j) as [[t l]|] eqn:E; [|split; auto].
  pose proof (step_ng t l (wglob w) (A _ _ _ E)) as S.
  destruct (step t (l, wglob w)) as [[t' s'] ev]. destruct S as [G N]. cbn [fst]. split; [|exact G].
  intros k tk lk Hk. cbn [ths] in Hk. destruct (Nat.eq_dec j k) as [->|D].
  - erewrite nth_error_set_nth_same in Hk by eauto. inversion Hk; subst. assumption.
  - rewrite nth_error_set_nth_other in Hk by auto. eapply A; eauto.
Qed.

(* when no thread uses a process-wide manager, every thread (per-thread dynamic evaluation included) is isolated *)
Theorem isolation_steps_ng : forall sched w i t l,
  all_ng w -> nth_error (ths w) i = Some (t, l) ->
  nth_error (ths (run_steps sched w)) i = Some (solo_local (count i sched) t l (wglob w)).
Proof.
  induction sched as [|j r IH]; intros w i t l A H.
  - simpl. unfold solo_local. simpl. assumption.
  - cbn [run_steps count]. destruct (wstep_ng j w A) as [A' G'].
    destruct (Nat.eqb_spec i j) as [->|N].
    + pose proof (wstep_same j w t l H) as WS. pose proof (step_ng t l (wglob w) (A _ _ _ H)) as SN.
      unfold solo_local at 1. cbn [run_solo Nat.add].
      destruct (step t (l, wglob w)) as [[t' s'] ev]. destruct SN as [SG _].
      rewrite (IH _ _ _ _ A' WS). rewrite G'. unfold solo_local. destruct s' as [l' g']. cbn [fst snd] in *. subst g'. reflexivity.
    + simpl. rewrite (IH _ i t l A'); [rewrite G'; reflexivity|]. rewrite wstep_other; auto.
Qed.

Theorem isolation_threads_ng : forall ps sched i p,
  (forall q, In q ps -> no_global q = true) -> nth_error ps i = Some p ->
  nth_error (ths (run_threads ps sched)) i =
  Some (mkThread (Ret (escapes (exec p init_state))) [] (observations (exec p init_state)), fst (final (exec p init_state))).
Proof.
  intros ps sched i p N H.
  destruct (run_threads_steps ps sched) as [sc [E C]]. rewrite E.
  assert (Hi : i < length ps) by (apply nth_error_Some; congruence).
  assert (H0 : nth_error (ths (init_world ps)) i = Some (start p, empty_store nkeys)).
  { unfold init_world. cbn [ths]. erewrite map_nth_error; eauto. }
  assert (A : all_ng (init_world ps)).
  { intros j tj lj Hj. unfold init_world in Hj. cbn [ths] in Hj.
    destruct (nth_error ps j) as [q|] eqn:Q.
    - erewrite map_nth_error in Hj by eauto. inversion Hj; subst.
      unfold ng_thread, start. cbn [ctl stk forallb]. rewrite N; auto. eapply nth_error_In; eauto.
    - apply nth_error_None in Q. assert (nth_error (map (fun p0 => (start p0, empty_store nkeys)) ps) j = None).
      { apply nth_error_None. rewrite map_length. assumption. } congruence. }
  rewrite (isolation_steps_ng sc (init_world ps) i (start p) (empty_store nkeys) A H0).
  f_equal. unfold solo_local. cbn [wglob init_world].
  rewrite machine_computes_exec.
  - reflexivity.
  - specialize (C i Hi). pose proof (total_fuel_ge ps i p H). lia.
Qed.

(* the managers that write the process-wide store are among those the library documents as process-wide *)
Lemma global_is_documented : forall c, cm_global c = true -> documented_process_wide c = true.
Proof. destruct c; simpl; intros; auto; discriminate. Qed.

(* ... and they really are visible from another thread: thread 0 enters, thread 1 then reads the getter *)
Definition visible_witness (c : cm) (a : val) : list val :=
  let w := run_threads [Scope c a (Obs (getter_of c)); Obs (getter_of c)] [0; 1] in
  match nth_error (ths w) 1 with Some (t, _) => out t | None => [] end.
Lemma dyn_global_visible : visible_witness CDynEvalGlobal (VA (AInt 7)) = [VA (AInt 7)].
Proof. vm_compute. reflexivity. Qed.
Lemma load_types_visible : visible_witness CLoadTypes (VD [(0%Z, AInt 1)]) = [VD [(0%Z, AInt 1)]].
Proof. vm_compute. reflexivity. Qed.
(* while apply_wrappers, documented as not thread-safe, is in fact per thread in this implementation *)
Lemma apply_wrappers_not_visible : visible_witness CApplyWrappers (VD [(5%Z, AInt 8)]) = [VD []].
Proof. vm_compute. reflexivity. Qed.

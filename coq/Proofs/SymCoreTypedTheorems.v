(* SymCoreTypedTheorems.v — the statements of C03 assembled: the schema invariant over histories, what Conforms says
   about a member (the five clauses of the property text), decidable forms of the hypotheses, refutation witnesses. *)
From Coq Require Import ZArith NArith List Bool.
Import ListNotations.
From PG Require Import Common.Tactics Model.SymCoreDefs Model.SymCoreOps Model.SymCoreTyped.
From PG Require Import Proofs.SymCoreBase Proofs.SymCoreWF Proofs.SymCoreTypedBase Proofs.SymCoreTypedConf Proofs.SymCoreTypedCopy
                       Proofs.SymCoreTypedState Proofs.SymCoreTypedLit Proofs.SymCoreTypedPrims Proofs.SymCoreTypedOps.
From PG Require Import Model.Typing Proofs.TypingApply Proofs.TypingApplyDict.
Local Open Scope Z_scope.

(* --- the invariant over histories ---------------------------------------------------------------------------------------- *)
(* P = true: some operation of the history may run inside an allow_partial(True) scope ("the value was explicitly made
   partial"); P = false: none does, and a MISSING_VALUE may then only sit in a node whose own allow_partial flag is set. *)
Definition history_ok (P : bool) (ops : list sop2) : Prop := Forall (fun o => scope_ok P (o2_scope o)) ops.

Theorem schema_invariant : forall q ev P rs ops,
  good_env ev -> history_ok P ops ->
  Conforms ev P (run_ops2 q false ev (fst (init_roots false ev empty_state rs)) ops).
Proof.
  intros q ev P rs ops GE H. apply run_ops2_conf; auto. apply init_roots_conf; auto. apply conforms_empty.
Qed.

Theorem schema_invariant_step : forall q ev P st o,
  good_env ev -> scope_ok P (o2_scope o) -> Conforms ev P st -> Conforms ev P (fst (step2 q false ev st o)).
Proof. intros. apply step2_conf; auto. Qed.

(* the hypotheses in decidable form *)
Lemma good_env_of_table : forall ev, forallb good (e_tab ev) = true -> good_env ev.
Proof.
  intros ev H r sp S. unfold spec_at in S. destruct r; [discriminate|].
  apply nth_error_In in S. rewrite forallb_forall in H. auto.
Qed.
Definition no_partial_scope (o : sop2) : bool :=
  match scope_partial (o2_scope o) with Some true => false | _ => true end.
Lemma history_ok_false : forall ops, forallb no_partial_scope ops = true -> history_ok false ops.
Proof.
  intros ops H. apply Forall_forall. intros o I. rewrite forallb_forall in H. specialize (H _ I).
  unfold no_partial_scope in H. intro E. rewrite E in H. discriminate.
Qed.
Lemma history_ok_true : forall ops, history_ok true ops.
Proof. intros. apply Forall_forall. intros o _ _. reflexivity. Qed.

(* --- what Conforms says (the clauses of the property text) ----------------------------------------------------------------- *)
Lemma acc_fixpoint : forall p f v, acc p f v -> exists p', apply p' f v = Ok v.
Proof. intros p f v [A|(_ & A)]; eauto. Qed.
Lemma frozen_fixpoint : forall p f v, apply p f v = Ok v -> frozen (mods_of f) = true -> v = dflt (mods_of f).
Proof.
  intros p f v A F. rewrite apply_eq in A. unfold pipeline in A. rewrite F in A.
  destruct (Typing.is_missing v || py_eq (dflt (mods_of f)) v); inv A. auto.
Qed.

Section Meaning.
Variable ev : env.
Variable P : bool.

(* a node of a conforming forest that is bound to a List spec *)
Theorem conforms_list : forall st ps i pa pt fl its e mn mx m,
  Conforms ev P st -> get_at st ps = Some (Node i KList pa pt fl its) -> spec_at ev (f_spec fl) = Some (SList e mn mx m) ->
  (* sizes within bounds: at least min_size items are present, at most max_size items in all *)
  mn <= count_present its /\ count_present its <= zlen its /\ (forall mm, mx = Some mm -> zlen its <= mm) /\
  (* every leaf item is a value the element spec accepts and maps to itself *)
  (forall k l, In (k, Leaf l) its -> exists p', apply p' e (leaf_pv l) = Ok (leaf_pv l)) /\
  (* every dict / list item is routed to a Dict / List spec (or Any) by the element spec and carries that spec *)
  (forall k j kd pa' pt' fl' its', In (k, Node j kd pa' pt' fl' its') its ->
     match kd with
     | KDict => route true e = true /\ carries ev fl' (bound_for true e)
     | KList => route false e = true /\ carries ev fl' (bound_for false e)
     | KObj c => exists p', apply p' e (obj_pv c) = Ok (obj_pv c)
     end) /\
  (* an item is MISSING_VALUE only when the list was made partial *)
  (good e = true -> part P fl = false -> forall k, ~ In (k, Leaf LMissing) its).
Proof.
  intros st ps i pa pt fl its e mn mx m C G SA.
  pose proof (conforms_get_at _ _ _ _ _ C G) as Cn. apply cnode_node in Cn. destruct Cn as (NO & _).
  unfold node_ok in NO. rewrite SA in NO. destruct NO as (A & B & D).
  split; auto. split; [apply count_present_le|]. split; [intros mm ->; auto|]. split; [|split].
  - intros k l I. rewrite Forall_forall in A. specialize (A _ I). simpl in A. eapply acc_fixpoint; eauto.
  - intros k j kd pa' pt' fl' its' I. rewrite Forall_forall in A. specialize (A _ I). simpl in A.
    destruct kd; auto. eapply acc_fixpoint; eauto.
  - intros Ge PF k I. rewrite Forall_forall in A. specialize (A _ I). simpl in A. rewrite PF in A.
    destruct A as [A|(X & _)]; [|discriminate]. simpl in A.
    pose proof (good_parts _ Ge) as (U & _ & _).
    destruct (apply_missing_out _ _ _ (no_union_top' _ U) A) as [(F & D0)|(F & _)].
    + pose proof (good_frozen_has_value _ Ge F) as M. rewrite D0 in M. discriminate.
    + rewrite apply_eq in A. unfold pipeline in A. rewrite F in A. discriminate.
Qed.

(* a node bound to a Dict schema (a pg.Dict, or the attributes of a pg.Object) *)
Theorem conforms_dict : forall st ps i kd pa pt fl its fs m,
  Conforms ev P st -> get_at st ps = Some (Node i kd pa pt fl its) -> kd <> KList ->
  spec_at ev (f_spec fl) = Some (SDict (Some fs) m) ->
  (* only declared keys, every declared key present *)
  (forall k c, In (k, c) its -> exists f, dict_field fs k = Some f) /\
  (forall s, has_const s fs = true -> SymCoreDefs.has_key (KS s) its = true) /\
  (* every leaf member is a value its field accepts and maps to itself; a frozen field holds its frozen value *)
  (forall k l f, In (k, Leaf l) its -> dict_field fs k = Some f ->
     (exists p', apply p' f (leaf_pv l) = Ok (leaf_pv l)) /\ (frozen (mods_of f) = true -> leaf_pv l = dflt (mods_of f))) /\
  (* a required field is MISSING_VALUE only when the value was made partial *)
  (forall k f, In (k, Leaf LMissing) its -> dict_field fs k = Some f -> good f = true -> part P fl = true).
Proof.
  intros st ps i kd pa pt fl its fs m C G KL SA.
  pose proof (conforms_get_at _ _ _ _ _ C G) as Cn. apply cnode_node in Cn. destruct Cn as (NO & _).
  assert (NO' : Forall (fun kc => exists f, dict_field fs (fst kc) = Some f /\ child_ok ev (part P fl) f (snd kc)) its /\
                (forall s, has_const s fs = true -> SymCoreDefs.has_key (KS s) its = true)).
  { unfold node_ok in NO. rewrite SA in NO. destruct kd; try congruence; exact NO. }
  destruct NO' as (A & B). rewrite Forall_forall in A.
  split; [|split; [exact B|split]].
  - intros k c I. destruct (A _ I) as (f & DF & _). eauto.
  - intros k l f I DF. destruct (A _ I) as (f' & DF' & CO). simpl in *. rewrite DF in DF'. inv DF'.
    destruct (acc_fixpoint _ _ _ CO) as (p' & AP). split; eauto. intros F. eapply frozen_fixpoint; eauto.
  - intros k f I DF Gf. destruct (A _ I) as (f' & DF' & CO). simpl in *. rewrite DF in DF'. inv DF'.
    destruct CO as [CO|(X & _)]; auto. simpl in CO. exfalso.
    pose proof (good_parts _ Gf) as (U & _ & _).
    destruct (apply_missing_out _ _ _ (no_union_top' _ U) CO) as [(F & D0)|(F & _)].
    + pose proof (good_frozen_has_value _ Gf F) as M. rewrite D0 in M. discriminate.
    + rewrite apply_eq in CO. unfold pipeline in CO. rewrite F in CO. discriminate.
Qed.
End Meaning.

(* --- refutation witnesses for the open findings --------------------------------------------------------------------------- *)
(* the whole value of every member of every schema-carrying node is accepted (allow_partial = true) and mapped to itself
   by its field *)
Definition fixb (f : spec) (v : pv) : bool := match apply true f v with Ok w => pv_eqb w v | Err _ => false end.
Fixpoint gnode (ev : env) (fuel : nat) (n : node) : bool :=
  match fuel with
  | O => true
  | S f =>
      match n with
      | Leaf _ => true
      | Node _ _ _ _ fl its =>
          forallb (fun kc => gnode ev f (snd kc)) its &&
          match spec_at ev (f_spec fl) with
          | Some (SList e _ _ _) => forallb (fun kc => fixb e (node_pv (snd kc))) its
          | Some (SDict (Some fs) _) =>
              forallb (fun kc => match dict_field fs (fst kc) with Some f0 => fixb f0 (node_pv (snd kc)) | None => false end) its
          | _ => true
          end
      end
  end.
Definition gstate (ev : env) (st : state) : bool :=
  forallb (fun s => match s with Live t => gnode ev 50 t | Moved _ => true end) (roots st).

Definition m0 : mods := Mods false None false.
Definition no_scope : scope := mkScope [] [] [] [].
Definition q0 : SymCoreOps.quirks := SymCoreOps.mkQuirks false.

(* a container held by a frozen field is written to in depth: d.a.b = 2 where a is frozen to {b: 1} *)
Definition frozen_inner : spec :=
  SDict (Some [(KConst [98%N], SInt None None m0)]) (Mods false (Some (PDict [([98%N], PInt 1)])) true).
Definition frozen_ev : env := mkEnv [SDict (Some [(KConst [97%N], frozen_inner)]) m0; frozen_inner] [0%N; 0%N; 0%N] Typing.noq.
Definition frozen_roots : list root := [RootTyped KDict 1 (mkFlags false true false 0) (PDict [])].
Definition frozen_ops : list sop2 := [mkSop2 no_scope (O, [KS [97%N]]) (DSet false (KS [98%N]) (TPv (PInt 2)))].
Lemma frozen_deep_witness :
  gstate frozen_ev (fst (init_roots false frozen_ev empty_state frozen_roots)) = true /\
  gstate frozen_ev (run_ops2 q0 false frozen_ev (fst (init_roots false frozen_ev empty_state frozen_roots)) frozen_ops) = false /\
  forallb good (e_tab frozen_ev) = false.
Proof. vm_compute. auto. Qed.

(* a Union that does not map its own result to itself: with the flag of the open finding the result is stored as the code
   does; without it the model refuses to store it *)
Definition union_spec : spec :=
  SUnion [SEnum [PInt 1; PStr [97%N]] (Mods false (Some (PBool true)) true); SBool (Mods false (Some (PBool false)) true)] m0.
Definition union_ev : env := mkEnv [SDict (Some [(KConst [97%N], union_spec)]) m0] [0%N; 0%N; 0%N] Typing.noq.
Definition union_roots : list root := [RootTyped KDict 1 (mkFlags false true true 0) (PDict [])].
Definition union_ops : list sop2 := [mkSop2 no_scope (O, []) (DSet false (KS [97%N]) (TPv (PFlt 64)))].
Lemma union_witness :
  gstate union_ev (run_ops2 q0 true union_ev (fst (init_roots true union_ev empty_state union_roots)) union_ops) = false /\
  gstate union_ev (run_ops2 q0 false union_ev (fst (init_roots false union_ev empty_state union_roots)) union_ops) = true.
Proof. vm_compute. auto. Qed.

(* --- the hypotheses are satisfiable on a non-trivial schema ------------------------------------------------------------------ *)
Definition ex_inner : spec := SDict (Some [(KConst [112%N], SFloat (Some 0) None m0); (KDyn, SList (SInt (Some 0) (Some 5) m0) 0 (Some 2) m0)]) m0.
Definition ex_ev : env :=
  mkEnv [SDict (Some [(KConst [120%N], SInt None None (Mods false (Some (PInt 1)) false)); (KConst [121%N], ex_inner)]) m0; ex_inner;
         SList (SInt (Some 0) (Some 5) m0) 0 (Some 2) m0] [0%N; 0%N; 0%N] Typing.noq.
Example good_env_example : good_env ex_ev.
Proof. apply good_env_of_table. vm_compute. reflexivity. Qed.
Example history_ok_example :
  history_ok false [mkSop2 no_scope (O, [KS [121%N]]) (DSet false (KS [113%N]) (TPv (PList [PInt 1; PInt 2])))].
Proof. apply history_ok_false. vm_compute. reflexivity. Qed.

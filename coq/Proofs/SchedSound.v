(* SchedSound.v — soundness of the discipline check: for every program set with [disciplined ps = true], every
   configuration, any number of workers and EVERY schedule, the facts computed by the static analysis hold whenever a
   thread is at the program point they annotate, and the study invariants hold in every reachable state.
   Method: one invariant, preserved by one act of an arbitrary thread ([step1]); [run_invariant] lifts it to all schedules. *)
From PG Require Import Common.Tactics Model.Sched Model.SchedDisc Proofs.SchedBase Proofs.SchedMutex.

Definition b2z (b : bool) : Z := if b then 1%Z else 0%Z.
Definition T (g : gstate) : list trial := s_trials (studies g 0).
Definition St (g : gstate) : study := studies g 0.

(* ---- small facts about the checker's helpers ---------------------------------------------------------------- *)
Lemma lockref_eqb_eq : forall a b, lockref_eqb a b = true <-> a = b.
Proof. destruct a, b; simpl; split; intros; congruence. Qed.

Lemma holds_In : forall l ls, holds l ls = true <-> In l ls.
Proof.
  unfold holds; intros. rewrite existsb_exists. split.
  - intros [x [A B]]. apply lockref_eqb_eq in B. subst. auto.
  - intros. exists l. split; auto. apply lockref_eqb_eq. auto.
Qed.

Lemma list_lockref_eqb_eq : forall x y, list_lockref_eqb x y = true -> x = y.
Proof.
  unfold list_lockref_eqb. induction x; destruct y; simpl; intros; try reflexivity; try discriminate.
  apply andb_true_iff in H. destruct H as [A B]. simpl in B. apply andb_true_iff in B. destruct B as [B1 B2].
  apply lockref_eqb_eq in B1. subst. f_equal. apply IHx. rewrite A. simpl. auto.
Qed.

Lemma an_get_nil : forall i b, an_get [] i b = None.
Proof. unfold an_get; intros. destruct i; simpl; destruct b; reflexivity. Qed.

(* ---- the abstract state of a thread ------------------------------------------------------------------------- *)
Section Sound.
Variable ps : progs.
Variable c : cfg.
Hypothesis HD : disciplined ps = true.

Definition ann (p : nat) : annot := infer_prog (is_init p) (nth p ps []).

Definition cur_a (th : tstate) : option astate :=
  match pc th with Some (p, i) => an_get (ann p) i (r_ret th) | None => Some a0 end.

Lemma combine_seq_nth : forall (l : list prog) k p pr, nth_error l p = Some pr -> In (k + p, pr) (combine (seq k (length l)) l).
Proof.
  induction l; intros k p pr Hn. destruct p; discriminate.
  destruct p; simpl in *.
  - inv Hn. left. f_equal. lia.
  - right. replace (k + S p) with (S k + p) by lia. apply IHl. auto.
Qed.

Lemma check_ann : forall p, check_prog (is_init p) (nth p ps []) (ann p) = true.
Proof.
  intros. unfold ann. unfold disciplined in HD. apply andb_true_iff in HD. destruct HD as [Hne HD']. rewrite forallb_forall in HD'.
  destruct (nth_error ps p) as [pr|] eqn:E.
  - rewrite (nth_error_nth _ _ _ E). apply (HD' (p, pr)). apply (combine_seq_nth ps 0 p pr E).
  - apply nth_error_None in E. rewrite nth_overflow by auto.
    assert (Hp : is_init p = false). { destruct ps; try discriminate. destruct p; simpl in E; try lia. reflexivity. }
    rewrite Hp. vm_compute. reflexivity.
Qed.

Lemma fetch_nth : forall p i, fetch ps p i = nth_error (nth p ps []) i.
Proof.
  unfold fetch; intros. destruct (nth_error ps p) eqn:E.
  - erewrite nth_error_nth; eauto.
  - apply nth_error_None in E. rewrite nth_overflow; auto. destruct i; reflexivity.
Qed.

Lemma check_at_ann : forall p i b, i <= length (nth p ps []) -> check_at (is_init p) (nth p ps []) (ann p) i b = true.
Proof.
  intros. pose proof (check_ann p) as H0. unfold check_prog in H0. apply andb_true_iff in H0. destruct H0 as [_ H0].
  rewrite forallb_forall in H0. specialize (H0 i). rewrite in_seq in H0.
  assert (A : check_at (is_init p) (nth p ps []) (ann p) i false && check_at (is_init p) (nth p ps []) (ann p) i true = true) by (apply H0; lia).
  apply andb_true_iff in A. destruct b; tauto.
Qed.

Lemma entry_ann : forall p b, exists x, an_get (ann p) 0 b = Some x /\ leq (a0e (is_init p)) x = true.
Proof.
  intros. pose proof (check_ann p) as H0. unfold check_prog in H0. apply andb_true_iff in H0. destruct H0 as [H0 _].
  destruct (an_get (ann p) 0 false) as [x|] eqn:E1; try discriminate. destruct (an_get (ann p) 0 true) as [y|] eqn:E2; try discriminate.
  apply andb_true_iff in H0. destruct H0. destruct b; [exists y | exists x]; auto.
Qed.

(* ---- sums over the threads ---------------------------------------------------------------------------------- *)
Fixpoint sumz (f : tstate -> Z) (ts : list tstate) : Z := match ts with [] => 0%Z | th :: r => (f th + sumz f r)%Z end.
Definition cntb (f : tstate -> bool) (ts : list tstate) : nat := length (filter f ts).
Definition opt_nat_eqb (x y : option nat) : bool :=
  match x, y with Some a, Some b => Nat.eqb a b | None, None => true | _, _ => false end.
Definition fbdebt (ts : list tstate) (i : nat) : nat := cntb (fun th => g_fb (gh th) && opt_nat_eqb (g_own (gh th)) (Some i)) ts.
Definition countp (f : trial -> bool) (l : list trial) : Z := Z.of_nat (length (filter f l)).

Lemma sumz_set_th : forall f ts t th th', nth_error ts t = Some th -> sumz f (set_th ts t th') = (sumz f ts - f th + f th')%Z.
Proof.
  unfold set_th. induction ts; destruct t; simpl; intros; try discriminate.
  - inv H. lia.
  - erewrite IHts; eauto. lia.
Qed.

Lemma cntb_set_th_nat : forall f ts t th th', nth_error ts t = Some th ->
  cntb f (set_th ts t th') + (if f th then 1 else 0) = cntb f ts + (if f th' then 1 else 0).
Proof.
  unfold set_th, cntb. induction ts; destruct t; intros; try discriminate.
  - simpl in H. inv H. cbn [upd_nth filter]. destruct (f th), (f th'); cbn [length]; lia.
  - simpl in H. specialize (IHts _ _ th' H). cbn [upd_nth filter]. destruct (f a); cbn [length]; lia.
Qed.

Lemma cntb_set_th : forall f ts t th th', nth_error ts t = Some th ->
  Z.of_nat (cntb f (set_th ts t th')) = (Z.of_nat (cntb f ts) - b2z (f th) + b2z (f th'))%Z.
Proof.
  intros. pose proof (cntb_set_th_nat f ts t th th' H). unfold b2z. destruct (f th), (f th'); lia.
Qed.

Lemma cntb_pos_ex : forall f ts, cntb f ts > 0 -> exists t th, nth_error ts t = Some th /\ f th = true.
Proof.
  unfold cntb. induction ts; simpl; intros. lia.
  destruct (f a) eqn:E.
  - exists 0, a. auto.
  - destruct (IHts H) as [t [th [A B]]]. exists (S t), th. auto.
Qed.

Lemma cntb_one : forall f ts t th, nth_error ts t = Some th -> f th = true -> cntb f ts > 0.
Proof.
  unfold cntb. induction ts; destruct t; intros; try discriminate; simpl in H.
  - inv H. cbn [filter]. rewrite H0. cbn [length]. lia.
  - cbn [filter]. destruct (f a); cbn [length]; [lia | eauto].
Qed.

Lemma cntb_two : forall f ts t1 t2 th1 th2, t1 <> t2 -> nth_error ts t1 = Some th1 -> nth_error ts t2 = Some th2 ->
  f th1 = true -> f th2 = true -> cntb f ts >= 2.
Proof.
  induction ts; intros.
  - destruct t1; discriminate.
  - destruct t1, t2; simpl in H0, H1; try congruence.
    + inv H0. pose proof (cntb_one f ts t2 th2 H1 H3). unfold cntb in *. cbn [filter]. rewrite H2. cbn [length]. lia.
    + inv H1. pose proof (cntb_one f ts t1 th1 H0 H2). unfold cntb in *. cbn [filter]. rewrite H3. cbn [length]. lia.
    + assert (cntb f ts >= 2) by (eapply (IHts t1 t2); eauto). unfold cntb in *. cbn [filter]. destruct (f a); cbn [length]; lia.
Qed.

Lemma cntb_zero_all : forall f ts t th, cntb f ts = 0 -> nth_error ts t = Some th -> f th = false.
Proof.
  intros. destruct (f th) eqn:E; auto. pose proof (cntb_one f ts t th H0 E). lia.
Qed.


(* ---- what the facts of the static analysis mean ------------------------------------------------------------- *)
Record sat (g : gstate) (t : nat) (th : tstate) (a : astate) : Prop := {
  s_ok : a_ok a = true;
  s_locks : map fst (held th) = a_locks a;
  s_phys : forall l k, In (l, k) (held th) -> match l with LReg => k = KReg | LStudy => k = KStudy 0 | LAlgo => exists n, k = KAlgo n end;
  s_study : r_study th = 0;
  s_dreg : g_reg (gh th) = d_reg a;
  s_dip : g_ip (gh th) = b2z (d_ip a);
  s_dlat : if d_lat a then exists i, g_lat (gh th) = Some i /\ r_trial th = Some i else g_lat (gh th) = None;
  s_regmiss : f_regmiss a = true -> holds LReg (a_locks a) = true /\ registry g = None;
  s_idfresh : f_idfresh a = true -> holds LStudy (a_locks a) = true /\ r_id th = S (length (T g));
  s_room : f_room a = true -> holds LStudy (a_locks a) = true /\ match s_max (St g) with Some m => length (T g) < m | None => True end;
  s_dcc : g_cc (gh th) = b2z (d_cc a);
  s_ddp : g_dp (gh th) = b2z (d_dp a);
  s_dinf : g_infd (gh th) = b2z (d_inf a);
  s_dfb : g_fb (gh th) = d_fb a;
  s_dbest : g_best (gh th) = d_best a;
  s_curpend : f_curpend a = true -> holds LStudy (a_locks a) = true /\
              exists i x, r_cur th = Some i /\ nth_error (T g) i = Some x /\ t_done x = false;
  s_own : f_own a = true -> exists i x, r_cur th = Some i /\ g_own (gh th) = Some i /\ nth_error (T g) i = Some x /\ t_done x = true /\ t_owner x = Some t;
  s_kinf : forall v, f_inf a = Some v ->
          exists i x, r_cur th = Some i /\ g_own (gh th) = Some i /\ nth_error (T g) i = Some x /\ t_done x = true /\ t_owner x = Some t /\ t_inf x = v;
  s_final : f_final a = true ->
          exists i x, r_cur th = Some i /\ g_own (gh th) = Some i /\ nth_error (T g) i = Some x /\ t_done x = true /\ t_owner x = Some t /\ t_final x <> None;
  s_hasmeas : f_hasmeas a = true -> exists i x, r_cur th = Some i /\ nth_error (T g) i = Some x /\ t_meas x <> [];
  s_reward : f_reward a = true -> r_reward th <> None
}.

(* ---- the invariant of the shared state ------------------------------------------------------------------------ *)
Record GI (g : gstate) (ts : list tstate) : Prop := {
  gi_reg : match registry g with Some s => s = 0 | None => True end;
  gi_nst : nstudies g = (match registry g with Some _ => 1 | None => 0 end) + cntb (fun th => g_reg (gh th)) ts;
  gi_reglock : forall t th, nth_error ts t = Some th -> g_reg (gh th) = true -> holds_k th KReg;
  gi_ids : map t_id (T g) = seq 1 (length (T g));
  gi_max : s_max (St g) = c_max c /\ (forall m, s_max (St g) = Some m -> length (T g) <= m);
  gi_full : s_full (St g) = true -> exists m, s_max (St g) = Some m /\ length (T g) = m;
  gi_pend : forall i x, nth_error (T g) i = Some x -> t_done x = false -> t_owner x = None /\ t_fed x = 0 /\ t_inf x = false;
  gi_own : forall t th i, nth_error ts t = Some th -> g_own (gh th) = Some i ->
           exists x, nth_error (T g) i = Some x /\ t_done x = true /\ t_owner x = Some t;
  gi_fed : forall i x, nth_error (T g) i = Some x -> t_fed x + fbdebt ts i = (if t_done x && negb (t_inf x) then 1 else 0);
  gi_comp : (s_comp (St g) + sumz (fun th => g_cc (gh th)) ts = countp t_done (T g))%Z;
  gi_pendc : (s_pend (St g) + sumz (fun th => g_ip (gh th)) ts - sumz (fun th => g_dp (gh th)) ts = countp (fun x => negb (t_done x)) (T g))%Z;
  gi_infc : (s_inf (St g) + sumz (fun th => g_infd (gh th)) ts = countp t_inf (T g))%Z
}.

Definition thread_ok (g : gstate) (t : nat) (th : tstate) : Prop := exists a, cur_a th = Some a /\ sat g t th a.

Record Inv (g : gstate) (ts : list tstate) : Prop := {
  inv_lock : LockInv g ts;
  inv_gi : GI g ts;
  inv_th : forall t th, nth_error ts t = Some th -> thread_ok g t th
}.

(* ---- the annotation has one cell per program point (and one past the end) ------------------------------------- *)
Lemma length_an_add : forall an j b a, length (an_add an j b a) = length an.
Proof. intros. unfold an_add. apply length_upd_nth. Qed.

Lemma length_fold_an_add : forall l an, length (fold_left (fun an s => an_add an (fst (fst s)) (snd (fst s)) (snd s)) l an) = length an.
Proof. induction l; simpl; intros; auto. rewrite IHl. apply length_an_add. Qed.

Lemma length_infer_step : forall pr an i, length (infer_step pr an i) = length an.
Proof.
  intros. unfold infer_step. destruct (nth_error pr i) as [[gt x]|]; auto.
  assert (Hone : forall an b, length (match an_get an i b with
                                        | None => an
                                        | Some a => fold_left (fun an s => an_add an (fst (fst s)) (snd (fst s)) (snd s)) (succs i b a x) an
                                        end) = length an).
  { intros. destruct (an_get an0 i b); auto. apply length_fold_an_add. }
  cbn [fold_left]. etransitivity. apply Hone. apply Hone.
Qed.

Lemma length_infer : forall init pr, length (infer_prog init pr) = S (length pr).
Proof.
  intros. unfold infer_prog.
  assert (forall l an, length (fold_left (infer_step pr) l an) = length an).
  { induction l; simpl; intros; auto. rewrite IHl. apply length_infer_step. }
  rewrite H. simpl. rewrite repeat_length. auto.
Qed.

Lemma an_get_bound : forall p i b a, an_get (ann p) i b = Some a -> i <= length (nth p ps []).
Proof.
  intros. destruct (le_lt_dec i (length (nth p ps []))); auto.
  unfold an_get in H. rewrite nth_overflow in H. destruct b; discriminate.
  unfold ann. rewrite length_infer. lia.
Qed.

(* ---- sat: weakening, frame ----------------------------------------------------------------------------------- *)
Ltac bool_hyps :=
  repeat match goal with
  | H : _ && _ = true |- _ => apply andb_true_iff in H; destruct H
  | H : negb _ = true |- _ => apply negb_true_iff in H
  | H : implb _ _ = true |- _ => rewrite implb_true_iff in H
  | H : Bool.eqb _ _ = true |- _ => apply eqb_prop in H
  end.

Lemma inf_is_true : forall o v, inf_is o v = true -> o = Some v.
Proof. destruct o; simpl; intros; try discriminate. apply eqb_prop in H. congruence. Qed.

Lemma sat_leq : forall g t th x y, leq x y = true -> sat g t th x -> sat g t th y.
Proof.
  intros g t th x y Hl Hs. unfold leq, debts_eqb in Hl. bool_hyps.
  assert (Hlk : a_locks x = a_locks y) by (apply list_lockref_eqb_eq; assumption).
  assert (Hdl : d_lat x = d_lat y) by assumption.
  assert (Hinf : forall v, f_inf y = Some v -> f_inf x = Some v).
  { intros v Hv. match goal with H : match f_inf y with Some _ => _ | None => _ end = true |- _ => rewrite Hv in H; apply inf_is_true in H; auto end. }
  destruct Hs. constructor; try congruence; auto.
  - rewrite <- Hdl. auto.
  - intros. rewrite <- Hlk. auto.
  - intros. rewrite <- Hlk. auto.
  - intros. rewrite <- Hlk. auto.
  - intros. rewrite <- Hlk. auto.
Qed.

Record same_regs (th th' : tstate) : Prop := {
  sr_held : held th' = held th; sr_study : r_study th' = r_study th; sr_group : r_group th' = r_group th; sr_gh : gh th' = gh th;
  sr_id : r_id th' = r_id th; sr_trial : r_trial th' = r_trial th; sr_cur : r_cur th' = r_cur th; sr_reward : r_reward th' = r_reward th;
  sr_best : r_best th' = r_best th }.

Record same_study (g g' : gstate) : Prop := {
  ss_tr : T g' = T g; ss_max : s_max (St g') = s_max (St g); ss_reg : registry g' = registry g }.

Lemma same_regs_refl : forall th, same_regs th th. Proof. constructor; reflexivity. Qed.
Lemma same_study_refl : forall g, same_study g g. Proof. constructor; reflexivity. Qed.
Lemma same_regs_pc : forall th o, same_regs th (th_pc o th). Proof. constructor; reflexivity. Qed.
Lemma same_regs_to_script : forall au ra th, same_regs th (to_script au ra th).
Proof. intros. unfold to_script. destruct (next_call _ _ _) as [[u r]|]; constructor; reflexivity. Qed.
Lemma same_regs_trans : forall a b d, same_regs a b -> same_regs b d -> same_regs a d.
Proof. intros a b d [] []. constructor; congruence. Qed.

Lemma sat_frame : forall g g' t th th' a, same_study g g' -> same_regs th th' -> sat g t th a -> sat g' t th' a.
Proof.
  intros g g' t th th' a [] [] [].
  constructor; rewrite ?sr_held0, ?sr_study0, ?sr_gh0, ?sr_id0, ?sr_trial0, ?sr_cur0, ?sr_reward0, ?ss_tr0, ?ss_max0, ?ss_reg0; auto.
Qed.

Lemma sat_holds_study : forall g t th a, sat g t th a -> holds LStudy (a_locks a) = true -> holds_k th (KStudy 0).
Proof.
  intros. destruct H. apply holds_In in H0. rewrite <- s_locks0 in H0. apply in_map_iff in H0. destruct H0 as [[l k] [A B]].
  simpl in A. subst. specialize (s_phys0 _ _ B). simpl in s_phys0. subst. unfold holds_k. apply in_map_iff. exists (LStudy, KStudy 0). auto.
Qed.

Lemma sat_holds_reg : forall g t th a, sat g t th a -> holds LReg (a_locks a) = true -> holds_k th KReg.
Proof.
  intros. destruct H. apply holds_In in H0. rewrite <- s_locks0 in H0. apply in_map_iff in H0. destruct H0 as [[l k] [A B]].
  simpl in A. subst. specialize (s_phys0 _ _ B). simpl in s_phys0. subst. unfold holds_k. apply in_map_iff. exists (LReg, KReg). auto.
Qed.

(* returning to the script: no lock, no debt, no fact *)
Lemma sat_a0 : forall g t th a, sat g t th a -> a_locks a = [] -> no_debt a = true -> sat g t th a0.
Proof.
  intros g t th a Hs Hl Hd. unfold no_debt in Hd. bool_hyps.
  assert (E1 : d_reg a = false) by assumption. assert (E2 : d_ip a = false) by assumption. assert (E3 : d_lat a = false) by assumption.
  assert (E4 : d_cc a = false) by assumption. assert (E5 : d_dp a = false) by assumption. assert (E6 : d_inf a = false) by assumption.
  assert (E7 : d_fb a = false) by assumption. assert (E8 : d_best a = false) by assumption.
  destruct Hs. rewrite E1 in *. rewrite E2 in *. rewrite E3 in *. rewrite E4 in *. rewrite E5 in *. rewrite E6 in *. rewrite E7 in *. rewrite E8 in *.
  unfold b2z in *.
  constructor; simpl; try discriminate; try congruence; auto.
Qed.

(* ---- lists of trials under the primitive mutations ------------------------------------------------------------ *)
Lemma nth_error_upd_nth : forall A (l : list A) i j f,
  nth_error (upd_nth i f l) j = if Nat.eqb i j then option_map f (nth_error l j) else nth_error l j.
Proof.
  intros. destruct (Nat.eqb i j) eqn:E.
  - apply Nat.eqb_eq in E. subst. destruct (nth_error l j) eqn:E2; simpl.
    + eapply nth_error_upd_nth_eq; eauto.
    + rewrite nth_error_upd_nth_none; auto.
  - apply Nat.eqb_neq in E. apply nth_error_upd_nth_neq; auto.
Qed.

Lemma countp_app : forall p l1 l2, countp p (l1 ++ l2) = (countp p l1 + countp p l2)%Z.
Proof. intros. unfold countp. rewrite filter_app, app_length. lia. Qed.

Lemma countp_upd_same : forall p f l i, (forall x, p (f x) = p x) -> countp p (upd_nth i f l) = countp p l.
Proof.
  intros. unfold countp. f_equal. revert i. induction l; destruct i; cbn [upd_nth filter]; auto.
  - rewrite H. destruct (p a); auto.
  - specialize (IHl i). destruct (p a); cbn [length]; auto.
Qed.

Lemma countp_upd_flip : forall p f l i x, nth_error l i = Some x ->
  countp p (upd_nth i f l) = (countp p l - b2z (p x) + b2z (p (f x)))%Z.
Proof.
  unfold countp. induction l; destruct i; intros; try discriminate; simpl in H.
  - inv H. cbn [upd_nth filter]. unfold b2z. destruct (p x), (p (f x)); cbn [length]; lia.
  - specialize (IHl _ _ H). cbn [upd_nth filter]. destruct (p a); cbn [length]; lia.
Qed.

Lemma sumz_same : forall f ts t th th', nth_error ts t = Some th -> f th' = f th -> sumz f (set_th ts t th') = sumz f ts.
Proof. intros. erewrite sumz_set_th; eauto. lia. Qed.

Lemma cntb_same : forall f ts t th th', nth_error ts t = Some th -> f th' = f th -> cntb f (set_th ts t th') = cntb f ts.
Proof. intros. pose proof (cntb_set_th_nat f ts t th th' H). rewrite H0 in H1. lia. Qed.

Lemma cntb_all_false : forall f ts, (forall t th, nth_error ts t = Some th -> f th = false) -> cntb f ts = 0.
Proof.
  unfold cntb. induction ts; simpl; intros; auto.
  rewrite (H 0 a eq_refl). apply IHts. intros. apply (H (S t) th). auto.
Qed.

Lemma seq_snoc : forall n, seq 1 (S n) = seq 1 n ++ [S n].
Proof. intros. rewrite seq_S. reflexivity. Qed.

Lemma last_opt_some : forall l, l <> [] -> last_opt l <> None.
Proof.
  intros. unfold last_opt. destruct (rev l) eqn:E; try discriminate.
  exfalso. apply H. rewrite <- (rev_involutive l). rewrite E. reflexivity.
Qed.

(* ---- GI: frame ---------------------------------------------------------------------------------------------------- *)
Record same_gi (g g' : gstate) : Prop := {
  sg_tr : T g' = T g; sg_max : s_max (St g') = s_max (St g); sg_full : s_full (St g') = s_full (St g);
  sg_comp : s_comp (St g') = s_comp (St g); sg_pend : s_pend (St g') = s_pend (St g); sg_inf : s_inf (St g') = s_inf (St g);
  sg_reg : registry g' = registry g; sg_nst : nstudies g' = nstudies g }.

Lemma fbdebt_same : forall ts t th th' i, nth_error ts t = Some th -> gh th' = gh th -> fbdebt (set_th ts t th') i = fbdebt ts i.
Proof. intros. unfold fbdebt. eapply cntb_same; eauto. rewrite H0. auto. Qed.

Lemma GI_frame : forall g g' ts t th th', same_gi g g' -> nth_error ts t = Some th -> gh th' = gh th ->
  (forall k, holds_k th k -> holds_k th' k) -> GI g ts -> GI g' (set_th ts t th').
Proof.
  intros g g' ts t th th' [] Ht Hgh Hh [].
  assert (Hnth : forall t0 th0, nth_error (set_th ts t th') t0 = Some th0 ->
            exists th1, nth_error ts t0 = Some th1 /\ gh th0 = gh th1 /\ (forall k, holds_k th1 k -> holds_k th0 k)).
  { intros. destruct (Nat.eq_dec t t0).
    - subst. erewrite nth_error_set_th_eq in H; eauto. inv H. eauto.
    - rewrite nth_error_set_th_neq in H; auto. eauto. }
  constructor; unfold St in *; rewrite ?sg_tr0, ?sg_max0, ?sg_full0, ?sg_comp0, ?sg_pend0, ?sg_inf0, ?sg_reg0, ?sg_nst0; auto.
  - rewrite gi_nst0. f_equal. symmetry. eapply cntb_same; eauto. rewrite Hgh. auto.
  - intros. destruct (Hnth _ _ H) as [th1 [A [B C]]]. apply C. eapply gi_reglock0; eauto. congruence.
  - intros. destruct (Hnth _ _ H) as [th1 [A [B C]]]. eapply gi_own0; eauto. congruence.
  - intros. erewrite fbdebt_same; eauto.
  - erewrite sumz_same; eauto. rewrite Hgh. auto.
  - erewrite !sumz_same; eauto; rewrite Hgh; auto.
  - erewrite sumz_same; eauto. rewrite Hgh. auto.
Qed.

Lemma same_gi_refl : forall g, same_gi g g. Proof. constructor; reflexivity. Qed.

(* ---- one statement ------------------------------------------------------------------------------------------------ *)
Definition others_stable (g g' : gstate) (ts : list tstate) (t : nat) : Prop :=
  forall t' th2 a2, t' <> t -> nth_error ts t' = Some th2 -> sat g t' th2 a2 -> sat g' t' th2 a2.

Definition stmt_goal (g : gstate) (ts : list tstate) (t : nat) (g' : gstate) (th' : tstate) (a' : astate) : Prop :=
  sat g' t th' a' /\ (forall th'', same_regs th' th'' -> GI g' (set_th ts t th'')) /\ others_stable g g' ts t.

Lemma same_regs_holds : forall th th' k, same_regs th th' -> holds_k th k -> holds_k th' k.
Proof. intros. unfold holds_k in *. rewrite (sr_held _ _ H). auto. Qed.

Lemma stmt_boring : forall g ts t th a g' th',
  GI g ts -> nth_error ts t = Some th -> sat g t th a -> same_study g g' -> same_gi g g' -> same_regs th th' -> stmt_goal g ts t g' th' a.
Proof.
  intros. split; [|split].
  - eapply sat_frame; eauto.
  - intros. eapply GI_frame; eauto.
    + rewrite (sr_gh _ _ H5). apply (sr_gh _ _ H4).
    + intros. eapply same_regs_holds; eauto. eapply same_regs_holds; eauto.
  - red; intros. eapply sat_frame; eauto. apply same_regs_refl.
Qed.

Lemma sat_set_alg : forall g t th a s1 s2 r1 r2 np, sat g t th a -> sat g t th (set_alg_facts s1 s2 r1 r2 np a).
Proof. intros g t th a s1 s2 r1 r2 np []. constructor; simpl; auto. Qed.

Lemma sat_clear_reward : forall g t th a, sat g t th a -> sat g t th (set_misc (f_regmiss a) (f_mine a) false a).
Proof. intros g t th a []. constructor; simpl; auto; discriminate. Qed.

Lemma stmt_boring_alg : forall g ts t th a g' th' s1 s2 r1 r2 np,
  GI g ts -> nth_error ts t = Some th -> sat g t th a -> same_study g g' -> same_gi g g' -> same_regs th th' ->
  stmt_goal g ts t g' th' (set_alg_facts s1 s2 r1 r2 np a).
Proof.
  intros. destruct (stmt_boring g ts t th a g' th') as [A [B C]]; auto. split; [|split]; auto. apply sat_set_alg. auto.
Qed.

Lemma req_stmt : forall ini rd wr e a, req ini (Stmt rd wr e) a = true ->
  a_ok a = true /\ forallb (fun v => guarded (write_guard v) (a_locks a)) wr = true /\ req_eff e a = true /\ footprint_ok (Stmt rd wr e) = true.
Proof. unfold req; intros. bool_hyps. auto. Qed.

Section OneStmt.
Variables (g : gstate) (ts : list tstate) (t : nat) (th : tstate) (a : astate).
Hypothesis HL : LockInv g ts.
Hypothesis HG : GI g ts.
Hypothesis HT : forall t' th2, nth_error ts t' = Some th2 -> thread_ok g t' th2.
Hypothesis Ht : nth_error ts t = Some th.
Hypothesis Hs : sat g t th a.

Lemma other_study_contra : forall t' th2 a2, t' <> t -> nth_error ts t' = Some th2 -> sat g t' th2 a2 ->
  holds LStudy (a_locks a) = true -> holds LStudy (a_locks a2) = true -> False.
Proof.
  intros. apply H. eapply LockInv_mutex with (k := KStudy 0); eauto; eapply sat_holds_study; eauto.
Qed.

Lemma other_reg_contra : forall t' th2 a2, t' <> t -> nth_error ts t' = Some th2 -> sat g t' th2 a2 ->
  holds LReg (a_locks a) = true -> holds LReg (a_locks a2) = true -> False.
Proof.
  intros. apply H. eapply LockInv_mutex with (k := KReg); eauto; eapply sat_holds_reg; eauto.
Qed.

Lemma T_upd_trial : forall i f, T (upd_study 0 (upd_trial i f) g) = upd_nth i f (T g).
Proof. reflexivity. Qed.

Lemma nth_upd_transfer : forall i f j (y : trial), nth_error (T g) j = Some y ->
  nth_error (upd_nth i f (T g)) j = Some (if Nat.eqb i j then f y else y).
Proof. intros. rewrite nth_error_upd_nth. rewrite H. destruct (Nat.eqb i j); reflexivity. Qed.

Definition tmut_ok (x : trial) (k : tmut) : Prop :=
  match k with
  | TFlip _ => holds LStudy (a_locks a) = true /\ t_done x = false
  | TInf | TFinal _ => t_owner x = Some t /\ t_done x = true
  | TMeas _ | TFed => True
  end.

Lemma others_trial_mut : forall i x k, nth_error (T g) i = Some x -> tmut_ok x k ->
  others_stable g (upd_study 0 (upd_trial i (apply_tmut k)) g) ts t.
Proof.
  intros i x k Hx Hok. red. intros t' th2 a2 Hne Hn Hs2.
  assert (Hlock : forall o, k = TFlip o -> holds LStudy (a_locks a2) = true -> False).
  { intros. subst. destruct Hok. eapply other_study_contra; eauto. }
  destruct Hs2. constructor; auto.
  - intros Hf. destruct (s_idfresh0 Hf). split; auto. rewrite T_upd_trial, length_upd_nth. auto.
  - intros Hf. destruct (s_room0 Hf). split; auto. rewrite T_upd_trial, length_upd_nth. auto.
  - intros Hf. destruct (s_curpend0 Hf) as [Hh [j [y [A [B C]]]]]. split; auto.
    exists j. eexists. split; eauto. split. rewrite T_upd_trial. apply nth_upd_transfer; eauto.
    destruct (Nat.eqb i j) eqn:E; auto. apply Nat.eqb_eq in E. subst j. rewrite Hx in B. inv B.
    destruct k; simpl; auto. exfalso. eapply Hlock; eauto.
  - intros Hf. destruct (s_own0 Hf) as [j [y [A [B [C [D E]]]]]].
    exists j. eexists. split; eauto. split; eauto. split. rewrite T_upd_trial. apply nth_upd_transfer; eauto.
    destruct (Nat.eqb i j) eqn:E2; auto. apply Nat.eqb_eq in E2. subst j. rewrite Hx in C. inv C.
    destruct k; simpl in *; auto. destruct Hok. congruence.
  - intros v Hf. destruct (s_kinf0 v Hf) as [j [y [A [B [C [D [E F]]]]]]].
    exists j. eexists. split; eauto. split; eauto. split. rewrite T_upd_trial. apply nth_upd_transfer; eauto.
    destruct (Nat.eqb i j) eqn:E2; auto. apply Nat.eqb_eq in E2. subst j. rewrite Hx in C. inv C.
    destruct k; simpl in *; auto; destruct Hok; congruence.
  - intros Hf. destruct (s_final0 Hf) as [j [y [A [B [C [D [E F]]]]]]].
    exists j. eexists. split; eauto. split; eauto. split. rewrite T_upd_trial. apply nth_upd_transfer; eauto.
    destruct (Nat.eqb i j) eqn:E2; auto. apply Nat.eqb_eq in E2. subst j. rewrite Hx in C. inv C.
    destruct k; simpl in *; auto; destruct Hok; congruence.
  - intros Hf. destruct (s_hasmeas0 Hf) as [j [y [A [B C]]]].
    exists j. eexists. split; eauto. split. rewrite T_upd_trial. apply nth_upd_transfer; eauto.
    destruct (Nat.eqb i j) eqn:E2; auto. destruct k; simpl; auto. destruct (t_meas y); simpl; congruence.
Qed.

Lemma map_id_upd : forall i f (l : list trial), (forall x, t_id (f x) = t_id x) -> map t_id (upd_nth i f l) = map t_id l.
Proof. induction i; destruct l; simpl; intros; auto; f_equal; auto. Qed.

Lemma tmut_id : forall k x, t_id (apply_tmut k x) = t_id x.
Proof. destruct k; reflexivity. Qed.

Lemma opt_nat_eqb_eq : forall x y, opt_nat_eqb x y = true <-> x = y.
Proof.
  destruct x, y; simpl; split; intros; try discriminate; try reflexivity.
  apply Nat.eqb_eq in H. congruence. inv H. apply Nat.eqb_refl.
Qed.

Lemma fbdebt_set : forall th'' j, Z.of_nat (fbdebt (set_th ts t th'') j) =
  (Z.of_nat (fbdebt ts j) - b2z (g_fb (gh th) && opt_nat_eqb (g_own (gh th)) (Some j)) + b2z (g_fb (gh th'') && opt_nat_eqb (g_own (gh th'')) (Some j)))%Z.
Proof. intros. unfold fbdebt. erewrite cntb_set_th; eauto. Qed.

Lemma nth_set_cases : forall th'' t0 th0, nth_error (set_th ts t th'') t0 = Some th0 -> (t0 = t /\ th0 = th'') \/ (t0 <> t /\ nth_error ts t0 = Some th0).
Proof.
  intros. destruct (Nat.eq_dec t t0).
  - subst. erewrite nth_error_set_th_eq in H; eauto. inv H. auto.
  - rewrite nth_error_set_th_neq in H; auto.
Qed.

Record shape (g' : gstate) (T' : list trial) : Prop := {
  sh_T : T g' = T'; sh_max : s_max (St g') = s_max (St g); sh_full : s_full (St g') = s_full (St g);
  sh_comp : s_comp (St g') = s_comp (St g); sh_pend : s_pend (St g') = s_pend (St g); sh_inf : s_inf (St g') = s_inf (St g);
  sh_reg : registry g' = registry g; sh_nst : nstudies g' = nstudies g }.

Lemma shape_trial : forall i f, shape (upd_study 0 (upd_trial i f) g) (upd_nth i f (T g)).
Proof. constructor; reflexivity. Qed.

Lemma stmt_ESetCompleted : req_eff ESetCompleted a = true ->
  forall g' th', sem c t ESetCompleted g th = (g', th') -> stmt_goal g ts t g' th' (post_eff ESetCompleted a).
Proof.
  intros Hre g' th' Hsem. pose proof (s_study _ _ _ _ Hs) as Hst0.
  simpl in Hre. unfold cur_debts in Hre. bool_hyps.
  match goal with H : (_ || _) = false |- _ => repeat (apply orb_false_iff in H; destruct H) end.
  assert (Hcc : d_cc a = false) by assumption. assert (Hdp : d_dp a = false) by assumption. assert (Hfb : d_fb a = false) by assumption.
  destruct (s_curpend _ _ _ _ Hs) as [_ [i [x [Hcur [Hx Hpend]]]]]; auto.
  unfold sem, muts, regs, study_of in Hsem. rewrite Hst0, Hcur in Hsem. unfold otrial in Hsem. fold (T g) in Hsem. rewrite Hx, Hpend in Hsem.
  inv Hsem.
  destruct (gi_pend _ _ HG _ _ Hx Hpend) as [Hown0 [Hfed0 Hinf0]].
  assert (HTi : nth_error (T (upd_study 0 (upd_trial i (apply_tmut (TFlip t))) g)) i = Some (apply_tmut (TFlip t) x)).
  { rewrite T_upd_trial. erewrite nth_upd_transfer; eauto. rewrite Nat.eqb_refl. auto. }
  split; [|split].
  - (* the thread itself *)
    destruct Hs. constructor; simpl; auto; try discriminate.
    + intros Hf. destruct (s_idfresh0 Hf). split; auto. rewrite T_upd_trial, length_upd_nth. auto.
    + intros Hf. destruct (s_room0 Hf). split; auto. rewrite T_upd_trial, length_upd_nth. auto.
    + rewrite s_dcc0, Hcc. reflexivity.
    + rewrite s_ddp0, Hdp. reflexivity.
    + intros _. exists i. eexists. repeat split; eauto.
    + intros v Hv. inv Hv. exists i. eexists. repeat split; eauto.
    + intros Hf. destruct (s_hasmeas0 Hf) as [j [y [A [B C]]]]. rewrite Hcur in A. inv A. rewrite Hx in B. inv B.
      exists j. eexists. repeat split; eauto.
  - (* the study invariant *)
    intros th'' Hsr. destruct HG.
    assert (Hgh : gh th'' = gh_flip i (gh th)) by (rewrite (sr_gh _ _ Hsr); reflexivity).
    destruct (shape_trial i (apply_tmut (TFlip t))).
    constructor; rewrite ?sh_T0, ?sh_max0, ?sh_full0, ?sh_comp0, ?sh_pend0, ?sh_inf0, ?sh_reg0, ?sh_nst0, ?length_upd_nth; auto.
    + rewrite gi_nst0. f_equal. symmetry. eapply cntb_same; eauto. rewrite Hgh. reflexivity.
    + intros t0 th0 Hn Hr. destruct (nth_set_cases _ _ _ Hn) as [[? ?]|[? ?]]; subst.
      * eapply same_regs_holds; eauto. unfold holds_k. simpl. eapply gi_reglock0; eauto. rewrite Hgh in Hr. auto.
      * eapply gi_reglock0; eauto.
    + rewrite map_id_upd by (intros; apply tmut_id). auto.
    + intros j y Hj Hd. rewrite nth_error_upd_nth in Hj. destruct (Nat.eqb i j) eqn:E.
      * apply Nat.eqb_eq in E. subst. rewrite Hx in Hj. inv Hj. discriminate.
      * eapply gi_pend0; eauto.
    + intros t0 th0 j Hn Ho. destruct (nth_set_cases _ _ _ Hn) as [[? ?]|[? ?]]; subst.
      * rewrite Hgh in Ho. simpl in Ho. inv Ho. eexists. split; eauto.
      * destruct (gi_own0 _ _ _ H7 Ho) as [y [A [B C]]]. exists y. split; auto.
        rewrite nth_error_upd_nth. destruct (Nat.eqb i j) eqn:E; auto.
        apply Nat.eqb_eq in E. subst. rewrite Hx in A. inv A. congruence.
    + intros j y Hj. rewrite nth_error_upd_nth in Hj.
      pose proof (fbdebt_set th'' j) as Hfd. rewrite Hgh in Hfd. simpl in Hfd. rewrite (s_dfb _ _ _ _ Hs) in Hfd. rewrite Hfb in Hfd. simpl in Hfd.
      destruct (Nat.eqb i j) eqn:E.
      * apply Nat.eqb_eq in E. subst. rewrite Hx in Hj. inv Hj. simpl. rewrite Hinf0. simpl.
        pose proof (gi_fed0 _ _ Hx) as Hold. rewrite Hpend in Hold. simpl in Hold. unfold b2z in Hfd. lia.
      * unfold b2z in Hfd. pose proof (gi_fed0 _ _ Hj). lia.
    + erewrite countp_upd_flip; eauto. erewrite sumz_set_th; eauto. rewrite Hgh. simpl. rewrite Hpend. unfold b2z. rewrite <- gi_comp0. simpl. ring.
    + erewrite countp_upd_flip; eauto. erewrite !sumz_set_th; eauto. rewrite Hgh. simpl. rewrite Hpend. unfold b2z. rewrite <- gi_pendc0. simpl. ring.
    + erewrite countp_upd_same; eauto. erewrite sumz_same; eauto. rewrite Hgh. reflexivity.
  - eapply others_trial_mut; eauto. simpl. auto.
Qed.
(* ---- helpers: the invariant when only counters / ghost debts move ------------------------------------------------ *)
Lemma GI_counter : forall g' th'' dc dp di,
  T g' = T g -> s_max (St g') = s_max (St g) -> s_full (St g') = s_full (St g) -> registry g' = registry g -> nstudies g' = nstudies g ->
  s_comp (St g') = (s_comp (St g) + dc)%Z -> s_pend (St g') = (s_pend (St g) + dp)%Z -> s_inf (St g') = (s_inf (St g) + di)%Z ->
  g_reg (gh th'') = g_reg (gh th) -> g_own (gh th'') = g_own (gh th) -> g_fb (gh th'') = g_fb (gh th) ->
  g_cc (gh th'') = (g_cc (gh th) - dc)%Z -> (g_ip (gh th'') - g_dp (gh th'') = g_ip (gh th) - g_dp (gh th) - dp)%Z -> g_infd (gh th'') = (g_infd (gh th) - di)%Z ->
  (forall k, holds_k th k -> holds_k th'' k) ->
  GI g' (set_th ts t th'').
Proof.
  intros g' th'' dc dp di HTT Hmax Hfull Hreg Hnst Hc Hp Hi Hgr Hgo Hgf Hgc Hgp Hgi Hh. destruct HG.
  constructor; rewrite ?HTT, ?Hmax, ?Hfull, ?Hreg, ?Hnst; auto.
  - rewrite gi_nst0. f_equal. symmetry. eapply cntb_same; eauto.
  - intros t0 th0 Hn Hr. destruct (nth_set_cases _ _ _ Hn) as [[? ?]|[? ?]]; subst.
    + apply Hh. eapply gi_reglock0; eauto; congruence.
    + eapply gi_reglock0; eauto.
  - intros t0 th0 j Hn Ho. destruct (nth_set_cases _ _ _ Hn) as [[? ?]|[? ?]]; subst.
    + eapply gi_own0; eauto; congruence.
    + eapply gi_own0; eauto.
  - intros j y Hj. assert (E : fbdebt (set_th ts t th'') j = fbdebt ts j).
    { unfold fbdebt. eapply cntb_same; eauto. simpl. rewrite Hgf, Hgo. auto. }
    rewrite E. auto.
  - rewrite Hc. erewrite sumz_set_th; eauto. rewrite Hgc. rewrite <- gi_comp0. ring.
  - rewrite Hp. erewrite !sumz_set_th; eauto. rewrite <- gi_pendc0.
    replace (g_ip (gh th'')) with (g_ip (gh th) - g_dp (gh th) - dp + g_dp (gh th''))%Z by lia. ring.
  - rewrite Hi. erewrite sumz_set_th; eauto. rewrite Hgi. rewrite <- gi_infc0. ring.
Qed.

Lemma others_same_study : forall g', same_study g g' -> others_stable g g' ts t.
Proof. red; intros. eapply sat_frame; eauto. apply same_regs_refl. Qed.

Ltac stmt_start Hre g' th' Hsem Hst0 :=
  intros Hre g' th' Hsem; pose proof (s_study _ _ _ _ Hs) as Hst0; simpl in Hre;
  unfold sem, muts, regs, study_of in Hsem; rewrite Hst0 in Hsem.

Ltac counter_gi Hsr xc xp xi :=
  eapply (GI_counter _ _ xc xp xi);
  try reflexivity;
  try (unfold St; simpl; ring);
  try (rewrite ?(sr_gh _ _ Hsr); simpl; ring);
  try (rewrite ?(sr_gh _ _ Hsr); reflexivity);
  try (intros; eapply same_regs_holds; eauto; fail).

Lemma stmt_EIncComp : req_eff EIncComp a = true ->
  forall g' th', sem c t EIncComp g th = (g', th') -> stmt_goal g ts t g' th' (post_eff EIncComp a).
Proof.
  stmt_start Hre g' th' Hsem Hst0. inv Hsem. simpl. split; [|split].
  - destruct Hs. constructor; simpl; auto. rewrite s_dcc0, Hre. reflexivity.
  - intros th'' Hsr. counter_gi Hsr 1%Z 0%Z 0%Z.
  - apply others_same_study. constructor; reflexivity.
Qed.

Lemma stmt_EDecPend : req_eff EDecPend a = true ->
  forall g' th', sem c t EDecPend g th = (g', th') -> stmt_goal g ts t g' th' (post_eff EDecPend a).
Proof.
  stmt_start Hre g' th' Hsem Hst0. inv Hsem. simpl. split; [|split].
  - destruct Hs. constructor; simpl; auto. rewrite s_ddp0, Hre. reflexivity.
  - intros th'' Hsr. counter_gi Hsr 0%Z (-1)%Z 0%Z.
  - apply others_same_study. constructor; reflexivity.
Qed.

Lemma stmt_EIncInf : req_eff EIncInf a = true ->
  forall g' th', sem c t EIncInf g th = (g', th') -> stmt_goal g ts t g' th' (post_eff EIncInf a).
Proof.
  stmt_start Hre g' th' Hsem Hst0. inv Hsem. simpl. split; [|split].
  - destruct Hs. constructor; simpl; auto. rewrite s_dinf0, Hre. reflexivity.
  - intros th'' Hsr. counter_gi Hsr 0%Z 0%Z 1%Z.
  - apply others_same_study. constructor; reflexivity.
Qed.

Lemma stmt_EIncPend : req_eff EIncPend a = true ->
  forall g' th', sem c t EIncPend g th = (g', th') -> stmt_goal g ts t g' th' (post_eff EIncPend a).
Proof.
  stmt_start Hre g' th' Hsem Hst0. inv Hsem. simpl. split; [|split].
  - destruct Hs. constructor; simpl; auto. rewrite s_dip0, Hre. reflexivity.
  - intros th'' Hsr. counter_gi Hsr 0%Z 1%Z 0%Z.
  - apply others_same_study. constructor; reflexivity.
Qed.


Lemma stmt_ELookup : forall g' th', sem c t ELookup g th = (g', th') -> stmt_goal g ts t g' th' (post_eff ELookup a).
Proof.
  intros g' th' Hsem. pose proof (s_study _ _ _ _ Hs) as Hst0. unfold sem, muts, regs in Hsem. injection Hsem as Eg Eth; subst g' th'. simpl.
  assert (Hsr0 : same_regs th (match registry g with Some s' => th_study s' th | None => th end)).
  { pose proof (gi_reg _ _ HG). destruct (registry g); subst; constructor; simpl; auto. }
  eapply stmt_boring; eauto; constructor; reflexivity.
Qed.

Lemma stmt_EGetLatest : req_eff EGetLatest a = true ->
  forall g' th', sem c t EGetLatest g th = (g', th') -> stmt_goal g ts t g' th' (post_eff EGetLatest a).
Proof.
  stmt_start Hre g' th' Hsem Hst0. injection Hsem as Eg Eth; subst g' th'. simpl. apply negb_true_iff in Hre. split; [|split].
  - destruct Hs. rewrite Hre in s_dlat0. constructor; simpl; auto. rewrite Hre. auto.
  - intros th'' Hsr. counter_gi Hsr 0%Z 0%Z 0%Z.
  - apply others_same_study. constructor; reflexivity.
Qed.

Lemma stmt_EReadId : forall g' th', sem c t EReadId g th = (g', th') -> stmt_goal g ts t g' th' (post_eff EReadId a).
Proof.
  intros g' th' Hsem. pose proof (s_study _ _ _ _ Hs) as Hst0. unfold sem, muts, regs, study_of in Hsem. rewrite Hst0 in Hsem. injection Hsem as Eg Eth; subst g' th'. simpl.
  split; [|split].
  - destruct Hs. constructor; simpl; auto.
  - intros th'' Hsr. counter_gi Hsr 0%Z 0%Z 0%Z.
  - apply others_same_study. constructor; reflexivity.
Qed.

Lemma stmt_ESetCur : forall g' th', sem c t ESetCur g th = (g', th') -> stmt_goal g ts t g' th' (post_eff ESetCur a).
Proof.
  intros g' th' Hsem. unfold sem, muts, regs in Hsem. injection Hsem as Eg Eth; subst g' th'. simpl.
  split; [|split].
  - destruct Hs. constructor; simpl; auto; try discriminate.
  - intros th'' Hsr. counter_gi Hsr 0%Z 0%Z 0%Z.
  - apply others_same_study. constructor; reflexivity.
Qed.

Lemma stmt_EReadBest : forall g' th', sem c t EReadBest g th = (g', th') -> stmt_goal g ts t g' th' (post_eff EReadBest a).
Proof.
  intros g' th' Hsem. unfold sem, muts, regs in Hsem. injection Hsem as Eg Eth; subst g' th'. simpl.
  split; [|split].
  - destruct Hs. constructor; simpl; auto.
  - intros th'' Hsr. counter_gi Hsr 0%Z 0%Z 0%Z.
  - apply others_same_study. constructor; reflexivity.
Qed.

Lemma stmt_EComputeReward : forall g' th', sem c t EComputeReward g th = (g', th') -> stmt_goal g ts t g' th' (post_eff EComputeReward a).
Proof.
  intros g' th' Hsem. pose proof (s_study _ _ _ _ Hs) as Hst0. unfold sem, muts, regs, study_of in Hsem. rewrite Hst0 in Hsem. injection Hsem as Eg Eth; subst g' th'. simpl.
  split; [|split].
  - pose proof Hs as Hs'. destruct Hs. constructor; simpl; auto.
    intros Hf. bool_hyps.
    match goal with H : inf_is _ _ = true |- _ => apply inf_is_true in H; destruct (s_kinf0 _ H) as [i [x [A [B [C [D [E F]]]]]]] end.
    destruct s_final0 as [i2 [x2 [A2 [B2 [C2 [D2 [E2 F2]]]]]]]; auto.
    rewrite A in A2. inv A2. unfold T in C, C2. rewrite C in C2. inv C2.
    rewrite A. simpl. unfold T in C. rewrite C. rewrite D, F. simpl. auto.
  - intros th'' Hsr. counter_gi Hsr 0%Z 0%Z 0%Z.
  - apply others_same_study. constructor; reflexivity.
Qed.

Lemma stmt_ESetLatest : req_eff ESetLatest a = true ->
  forall g' th', sem c t ESetLatest g th = (g', th') -> stmt_goal g ts t g' th' (post_eff ESetLatest a).
Proof.
  stmt_start Hre g' th' Hsem Hst0. injection Hsem as Eg Eth; subst g' th'. simpl.
  destruct (r_trial th) eqn:Etr; simpl.
  - split; [|split].
    + destruct Hs. constructor; simpl; auto.
    + intros th'' Hsr. counter_gi Hsr 0%Z 0%Z 0%Z.
    + apply others_same_study. constructor; reflexivity.
  - split; [|split].
    + destruct Hs. constructor; simpl; auto.
    + intros th'' Hsr. counter_gi Hsr 0%Z 0%Z 0%Z.
    + apply others_same_study. constructor; reflexivity.
Qed.

Lemma stmt_ESetBest : req_eff ESetBest a = true ->
  forall g' th', sem c t ESetBest g th = (g', th') -> stmt_goal g ts t g' th' (post_eff ESetBest a).
Proof.
  stmt_start Hre g' th' Hsem Hst0. injection Hsem as Eg Eth; subst g' th'. simpl. split; [|split].
  - destruct Hs. constructor; simpl; auto.
  - intros th'' Hsr. counter_gi Hsr 0%Z 0%Z 0%Z.
  - apply others_same_study. constructor; reflexivity.
Qed.


(* a mutation of a trial that leaves its status, owner, infeasibility and final measurement alone keeps every thread's facts *)
Lemma sat_trial_pres : forall t' th2 a2 i k, (forall y, t_done (apply_tmut k y) = t_done y /\ t_owner (apply_tmut k y) = t_owner y /\
                                                     t_inf (apply_tmut k y) = t_inf y /\ t_final (apply_tmut k y) = t_final y /\
                                                     (t_meas y <> [] -> t_meas (apply_tmut k y) <> [])) ->
  sat g t' th2 a2 -> sat (upd_study 0 (upd_trial i (apply_tmut k)) g) t' th2 a2.
Proof.
  intros t' th2 a2 i k Hk Hs2. destruct Hs2. constructor; auto.
  - intros Hf. destruct (s_idfresh0 Hf). split; auto. rewrite T_upd_trial, length_upd_nth. auto.
  - intros Hf. destruct (s_room0 Hf). split; auto. rewrite T_upd_trial, length_upd_nth. auto.
  - intros Hf. destruct (s_curpend0 Hf) as [Hh [j [y [A [B C]]]]]. split; auto.
    exists j. eexists. split; eauto. split. rewrite T_upd_trial. apply nth_upd_transfer; eauto.
    destruct (Hk y) as [K1 _]. destruct (Nat.eqb i j); congruence.
  - intros Hf. destruct (s_own0 Hf) as [j [y [A [B [C [D E]]]]]].
    exists j. eexists. split; eauto. split; eauto. split. rewrite T_upd_trial. apply nth_upd_transfer; eauto.
    destruct (Hk y) as [K1 [K2 _]]. destruct (Nat.eqb i j); split; congruence.
  - intros v Hf. destruct (s_kinf0 v Hf) as [j [y [A [B [C [D [E F]]]]]]].
    exists j. eexists. split; eauto. split; eauto. split. rewrite T_upd_trial. apply nth_upd_transfer; eauto.
    destruct (Hk y) as [K1 [K2 [K3 _]]]. destruct (Nat.eqb i j); repeat split; congruence.
  - intros Hf. destruct (s_final0 Hf) as [j [y [A [B [C [D [E F]]]]]]].
    exists j. eexists. split; eauto. split; eauto. split. rewrite T_upd_trial. apply nth_upd_transfer; eauto.
    destruct (Hk y) as [K1 [K2 [K3 [K4 _]]]]. destruct (Nat.eqb i j); repeat split; congruence.
  - intros Hf. destruct (s_hasmeas0 Hf) as [j [y [A [B C]]]].
    exists j. eexists. split; eauto. split. rewrite T_upd_trial. apply nth_upd_transfer; eauto.
    destruct (Hk y) as [_ [_ [_ [_ K5]]]]. destruct (Nat.eqb i j); auto.
Qed.

Lemma tmeas_pres : forall z y, t_done (apply_tmut (TMeas z) y) = t_done y /\ t_owner (apply_tmut (TMeas z) y) = t_owner y /\
  t_inf (apply_tmut (TMeas z) y) = t_inf y /\ t_final (apply_tmut (TMeas z) y) = t_final y /\ (t_meas y <> [] -> t_meas (apply_tmut (TMeas z) y) <> []).
Proof. intros. simpl. repeat split; auto. intros. destruct (t_meas y); simpl; congruence. Qed.

Lemma tfed_pres : forall y, t_done (apply_tmut TFed y) = t_done y /\ t_owner (apply_tmut TFed y) = t_owner y /\
  t_inf (apply_tmut TFed y) = t_inf y /\ t_final (apply_tmut TFed y) = t_final y /\ (t_meas y <> [] -> t_meas (apply_tmut TFed y) <> []).
Proof. intros. simpl. repeat split; auto. Qed.

(* the study invariant under a mutation of a trial that keeps status, infeasibility, owner, fed-count and id *)
Lemma GI_trial_pres : forall i k th'', (forall y, t_done (apply_tmut k y) = t_done y /\ t_owner (apply_tmut k y) = t_owner y /\
                                                  t_inf (apply_tmut k y) = t_inf y /\ t_fed (apply_tmut k y) = t_fed y) ->
  same_regs th th'' -> GI (upd_study 0 (upd_trial i (apply_tmut k)) g) (set_th ts t th'').
Proof.
  intros i k th'' Hk Hsr. destruct HG. destruct (shape_trial i (apply_tmut k)).
  assert (Hgh : gh th'' = gh th) by apply (sr_gh _ _ Hsr).
  constructor; rewrite ?sh_T0, ?sh_max0, ?sh_full0, ?sh_comp0, ?sh_pend0, ?sh_inf0, ?sh_reg0, ?sh_nst0, ?length_upd_nth; auto.
  - rewrite gi_nst0. f_equal. symmetry. eapply cntb_same; eauto. rewrite Hgh. reflexivity.
  - intros t0 th0 Hn Hr. destruct (nth_set_cases _ _ _ Hn) as [[? ?]|[? ?]]; subst.
    + eapply same_regs_holds; eauto. eapply gi_reglock0; eauto. congruence.
    + eapply gi_reglock0; eauto.
  - rewrite map_id_upd by (intros; apply tmut_id). auto.
  - intros j y Hj Hd. rewrite nth_error_upd_nth in Hj. destruct (Nat.eqb i j) eqn:E.
    + destruct (nth_error (T g) j) as [y0|] eqn:E2; simpl in Hj; inv Hj. destruct (Hk y0) as [K1 [K2 [K3 K4]]].
      rewrite K1 in Hd. rewrite K2, K3, K4. eapply gi_pend0; eauto.
    + eapply gi_pend0; eauto.
  - intros t0 th0 j Hn Ho.
    assert (Hold : exists y, nth_error (T g) j = Some y /\ t_done y = true /\ t_owner y = Some t0).
    { destruct (nth_set_cases _ _ _ Hn) as [[? ?]|[? ?]]; subst; eapply gi_own0; eauto; congruence. }
    destruct Hold as [y [A [B C]]]. eexists. split. apply nth_upd_transfer; eauto.
    destruct (Hk y) as [K1 [K2 _]]. destruct (Nat.eqb i j); split; congruence.
  - intros j y Hj. rewrite nth_error_upd_nth in Hj.
    assert (E : fbdebt (set_th ts t th'') j = fbdebt ts j) by (eapply fbdebt_same; eauto). rewrite E.
    destruct (Nat.eqb i j) eqn:E2.
    + destruct (nth_error (T g) j) as [y0|] eqn:E3; simpl in Hj; inv Hj. destruct (Hk y0) as [K1 [K2 [K3 K4]]].
      rewrite K1, K3, K4. eapply gi_fed0; eauto.
    + eapply gi_fed0; eauto.
  - erewrite countp_upd_same. erewrite sumz_same; eauto. rewrite Hgh; auto. intros. apply Hk.
  - erewrite countp_upd_same. erewrite !sumz_same; eauto; rewrite Hgh; auto. intros. destruct (Hk x) as [K1 _]. rewrite K1. auto.
  - erewrite countp_upd_same. erewrite sumz_same; eauto. rewrite Hgh; auto. intros. apply Hk.
Qed.

Lemma stmt_EAddMeas : forall g' th', sem c t EAddMeas g th = (g', th') -> stmt_goal g ts t g' th' (post_eff EAddMeas a).
Proof.
  intros g' th' Hsem. pose proof (s_study _ _ _ _ Hs) as Hst0. unfold sem, muts, regs in Hsem. rewrite Hst0 in Hsem.
  injection Hsem as Eg Eth; subst g' th'. simpl.
  destruct (r_cur th) as [i|] eqn:Ecur; simpl.
  - split; [|split].
    + apply sat_trial_pres; auto. apply tmeas_pres.
    + intros th'' Hsr. apply GI_trial_pres; auto.
    + red; intros. apply sat_trial_pres; auto. apply tmeas_pres.
  - eapply stmt_boring; eauto; constructor; reflexivity.
Qed.


Lemma sat_trial_final : forall t' th2 a2 i o, o <> None ->
  sat g t' th2 a2 -> sat (upd_study 0 (upd_trial i (apply_tmut (TFinal o))) g) t' th2 a2.
Proof.
  intros t' th2 a2 i o Ho Hs2. destruct Hs2. constructor; auto.
  - intros Hf. destruct (s_idfresh0 Hf). split; auto. rewrite T_upd_trial, length_upd_nth. auto.
  - intros Hf. destruct (s_room0 Hf). split; auto. rewrite T_upd_trial, length_upd_nth. auto.
  - intros Hf. destruct (s_curpend0 Hf) as [Hh [j [y [A [B C]]]]]. split; auto.
    exists j. eexists. split; eauto. split. rewrite T_upd_trial. apply nth_upd_transfer; eauto. destruct (Nat.eqb i j); auto.
  - intros Hf. destruct (s_own0 Hf) as [j [y [A [B [C [D E]]]]]].
    exists j. eexists. split; eauto. split; eauto. split. rewrite T_upd_trial. apply nth_upd_transfer; eauto. destruct (Nat.eqb i j); auto.
  - intros v Hf. destruct (s_kinf0 v Hf) as [j [y [A [B [C [D [E F]]]]]]].
    exists j. eexists. split; eauto. split; eauto. split. rewrite T_upd_trial. apply nth_upd_transfer; eauto. destruct (Nat.eqb i j); auto.
  - intros Hf. destruct (s_final0 Hf) as [j [y [A [B [C [D [E F]]]]]]].
    exists j. eexists. split; eauto. split; eauto. split. rewrite T_upd_trial. apply nth_upd_transfer; eauto. destruct (Nat.eqb i j); auto.
  - intros Hf. destruct (s_hasmeas0 Hf) as [j [y [A [B C]]]].
    exists j. eexists. split; eauto. split. rewrite T_upd_trial. apply nth_upd_transfer; eauto. destruct (Nat.eqb i j); auto.
Qed.

Lemma sat_add_final : forall g1 i y, sat g1 t th a -> r_cur th = Some i -> g_own (gh th) = Some i -> nth_error (T g1) i = Some y ->
  t_done y = true -> t_owner y = Some t -> t_final y <> None ->
  sat g1 t th (set_cur_facts (f_hasmeas a) (f_own a) (f_inf a) true a).
Proof.
  intros g1 i y Hs1 A B C D E F. destruct Hs1. constructor; simpl; auto.
  intros _. exists i, y. repeat split; auto.
Qed.

Lemma stmt_final_common : forall o i x, o <> None -> r_cur th = Some i -> g_own (gh th) = Some i -> nth_error (T g) i = Some x ->
  t_done x = true -> t_owner x = Some t ->
  stmt_goal g ts t (upd_study 0 (upd_trial i (apply_tmut (TFinal o))) g) th
    (set_misc (f_regmiss a) (f_mine a) false (set_cur_facts (f_hasmeas a) (f_own a) (f_inf a) true a)).
Proof.
  intros o i x Ho Hcur Hown Hx Hd Hw. split; [|split].
  - apply (sat_clear_reward _ _ _ (set_cur_facts (f_hasmeas a) (f_own a) (f_inf a) true a)).
    eapply sat_add_final with (i := i) (y := apply_tmut (TFinal o) x); eauto.
    + apply sat_trial_final; auto.
    + rewrite T_upd_trial. erewrite nth_upd_transfer; eauto. rewrite Nat.eqb_refl. eauto.
  - intros th'' Hsr. apply GI_trial_pres; auto.
  - eapply others_trial_mut; eauto. simpl. auto.
Qed.

Lemma stmt_ESetFinalLast : req_eff ESetFinalLast a = true ->
  forall g' th', sem c t ESetFinalLast g th = (g', th') -> stmt_goal g ts t g' th' (post_eff ESetFinalLast a).
Proof.
  stmt_start Hre g' th' Hsem Hst0. bool_hyps.
  destruct (s_own _ _ _ _ Hs) as [i [x [A [B [C [D E]]]]]]; auto.
  destruct (s_hasmeas _ _ _ _ Hs) as [i2 [x2 [A2 [C2 M2]]]]; auto. rewrite A in A2. inv A2. rewrite C in C2. inv C2.
  rewrite A in Hsem. unfold otrial in Hsem. fold (T g) in Hsem. rewrite C in Hsem.
  injection Hsem as Eg Eth; subst g' th'. simpl.
  eapply stmt_final_common; eauto. apply last_opt_some; auto.
Qed.

Lemma stmt_ESetFinalZero : req_eff ESetFinalZero a = true ->
  forall g' th', sem c t ESetFinalZero g th = (g', th') -> stmt_goal g ts t g' th' (post_eff ESetFinalZero a).
Proof.
  stmt_start Hre g' th' Hsem Hst0. bool_hyps.
  destruct (s_own _ _ _ _ Hs) as [i [x [A [B [C [D E]]]]]]; auto.
  rewrite A in Hsem. injection Hsem as Eg Eth; subst g' th'. simpl.
  eapply stmt_final_common; eauto. discriminate.
Qed.


Lemma stmt_ESetInf : req_eff ESetInf a = true ->
  forall g' th', sem c t ESetInf g th = (g', th') -> stmt_goal g ts t g' th' (post_eff ESetInf a).
Proof.
  stmt_start Hre g' th' Hsem Hst0. bool_hyps.
  assert (Hfb : d_fb a = true) by assumption. assert (Hdi : d_inf a = false) by assumption.
  match goal with H : inf_is _ _ = true |- _ => apply inf_is_true in H; destruct (s_kinf _ _ _ _ Hs _ H) as [i [x [A [B [C [D [E F]]]]]]] end.
  rewrite A in Hsem. unfold otrial in Hsem. fold (T g) in Hsem. rewrite C, F in Hsem.
  injection Hsem as Eg Eth; subst g' th'. simpl.
  assert (HTi : nth_error (T (upd_study 0 (upd_trial i (apply_tmut TInf)) g)) i = Some (apply_tmut TInf x)).
  { rewrite T_upd_trial. erewrite nth_upd_transfer; eauto. rewrite Nat.eqb_refl. auto. }
  split; [|split].
  - destruct Hs. constructor; simpl; auto; try discriminate.
    + intros Hf. destruct (s_idfresh0 Hf). split; auto. rewrite T_upd_trial, length_upd_nth. auto.
    + intros Hf. destruct (s_room0 Hf). split; auto. rewrite T_upd_trial, length_upd_nth. auto.
    + rewrite s_dinf0, Hdi. reflexivity.
    + intros Hf. destruct (s_curpend0 Hf) as [Hh [j [y [A1 [B1 C1]]]]]. split; auto.
      exists j. eexists. split; eauto. split. rewrite T_upd_trial. apply nth_upd_transfer; eauto. destruct (Nat.eqb i j); auto.
    + intros Hf. exists i. eexists. repeat split; eauto.
    + intros v Hv. inv Hv. exists i. eexists. repeat split; eauto.
    + intros Hf. destruct (s_final0 Hf) as [j [y [A1 [B1 [C1 [D1 [E1 F1]]]]]]].
      exists j. eexists. split; eauto. split; eauto. split. rewrite T_upd_trial. apply nth_upd_transfer; eauto. destruct (Nat.eqb i j); auto.
    + intros Hf. destruct (s_hasmeas0 Hf) as [j [y [A1 [B1 C1]]]].
      exists j. eexists. split; eauto. split. rewrite T_upd_trial. apply nth_upd_transfer; eauto. destruct (Nat.eqb i j); auto.
  - intros th'' Hsr. destruct HG.
    assert (Hgh : gh th'' = gh_inf (gh th)) by (rewrite (sr_gh _ _ Hsr); reflexivity).
    destruct (shape_trial i (apply_tmut TInf)).
    constructor; rewrite ?sh_T0, ?sh_max0, ?sh_full0, ?sh_comp0, ?sh_pend0, ?sh_inf0, ?sh_reg0, ?sh_nst0, ?length_upd_nth; auto.
    + rewrite gi_nst0. f_equal. symmetry. eapply cntb_same; eauto. rewrite Hgh. reflexivity.
    + intros t0 th0 Hn Hr. destruct (nth_set_cases _ _ _ Hn) as [[? ?]|[? ?]]; subst.
      * eapply same_regs_holds; eauto. unfold holds_k. simpl. eapply gi_reglock0; eauto. rewrite Hgh in Hr. auto.
      * eapply gi_reglock0; eauto.
    + rewrite map_id_upd by (intros; apply tmut_id). auto.
    + intros j y Hj Hd. rewrite nth_error_upd_nth in Hj. destruct (Nat.eqb i j) eqn:E2.
      * apply Nat.eqb_eq in E2. subst. rewrite C in Hj. inv Hj. simpl in Hd. congruence.
      * eapply gi_pend0; eauto.
    + intros t0 th0 j Hn Ho.
      assert (Hold : exists y, nth_error (T g) j = Some y /\ t_done y = true /\ t_owner y = Some t0).
      { destruct (nth_set_cases _ _ _ Hn) as [[? ?]|[? ?]]; subst; eapply gi_own0; eauto. rewrite Hgh in Ho. auto. }
      destruct Hold as [y [A1 [B1 C1]]]. eexists. split. apply nth_upd_transfer; eauto. destruct (Nat.eqb i j); auto.
    + intros j y Hj. rewrite nth_error_upd_nth in Hj.
      pose proof (fbdebt_set th'' j) as Hfd. rewrite Hgh in Hfd. simpl in Hfd. rewrite (s_dfb _ _ _ _ Hs), Hfb, B in Hfd. simpl in Hfd.
      destruct (Nat.eqb i j) eqn:E2.
      * apply Nat.eqb_eq in E2. subst. rewrite C in Hj. inv Hj. simpl. rewrite D. simpl.
        pose proof (gi_fed0 _ _ C) as Hold. rewrite D, F in Hold. simpl in Hold. unfold b2z in Hfd. lia.
      * unfold b2z in Hfd. pose proof (gi_fed0 _ _ Hj). lia.
    + erewrite countp_upd_same; eauto. erewrite sumz_same; eauto. rewrite Hgh. reflexivity.
    + erewrite countp_upd_same; eauto. erewrite !sumz_same; eauto; rewrite Hgh; reflexivity.
    + erewrite countp_upd_flip; eauto. erewrite sumz_set_th; eauto. rewrite Hgh. simpl. rewrite F. unfold b2z. rewrite <- gi_infc0. simpl. ring.
  - eapply others_trial_mut; eauto. simpl. auto.
Qed.

Lemma GI_same : forall g1 g2 ts1, same_gi g1 g2 -> GI g1 ts1 -> GI g2 ts1.
Proof.
  intros g1 g2 ts1 [] []. constructor; unfold St in *; rewrite ?sg_tr0, ?sg_max0, ?sg_full0, ?sg_comp0, ?sg_pend0, ?sg_inf0, ?sg_reg0, ?sg_nst0; auto.
Qed.

Lemma stmt_EIncNF : req_eff EIncNF a = true ->
  forall g' th', sem c t EIncNF g th = (g', th') -> stmt_goal g ts t g' th' (post_eff EIncNF a).
Proof.
  stmt_start Hre g' th' Hsem Hst0. bool_hyps.
  assert (Hfb : d_fb a = true) by assumption.
  match goal with H : inf_is _ _ = true |- _ => apply inf_is_true in H; destruct (s_kinf _ _ _ _ Hs _ H) as [i [x [A [B [C [D [E F]]]]]]] end.
  rewrite A in Hsem. unfold otrial in Hsem. fold (T g) in Hsem. rewrite C in Hsem.
  injection Hsem as Eg Eth; subst g' th'. simpl.
  set (g1 := upd_study 0 (upd_trial i (apply_tmut TFed)) g).
  set (al := al_fedv (a_fedv (alg g) ++ [(0, t_id x, match r_reward th with Some z => z | None => 0%Z end)])
              (al_base (a_spec (alg g)) (a_np (alg g)) (S (a_nf (alg g))) (a_fed (alg g) ++ [(0, t_id x)]) (alg g))).
  assert (Hss : same_study g1 (set_alg g1 al)) by (constructor; reflexivity).
  assert (Hsg : same_gi g1 (set_alg g1 al)) by (constructor; reflexivity).
  split; [|split].
  - assert (Hs1 : sat g1 t th a) by (apply sat_trial_pres; auto; apply tfed_pres).
    destruct (sat_frame _ _ t th th a Hss (same_regs_refl th) Hs1). constructor; simpl; auto.
  - intros th'' Hsr. apply (GI_same g1); auto. subst g1. destruct HG.
    assert (Hgh : gh th'' = gh_fed (gh th)) by (rewrite (sr_gh _ _ Hsr); reflexivity).
    destruct (shape_trial i (apply_tmut TFed)).
    constructor; rewrite ?sh_T0, ?sh_max0, ?sh_full0, ?sh_comp0, ?sh_pend0, ?sh_inf0, ?sh_reg0, ?sh_nst0, ?length_upd_nth; auto.
    + rewrite gi_nst0. f_equal. symmetry. eapply cntb_same; eauto. rewrite Hgh. reflexivity.
    + intros t0 th0 Hn Hr. destruct (nth_set_cases _ _ _ Hn) as [[? ?]|[? ?]]; subst.
      * eapply same_regs_holds; eauto. unfold holds_k. simpl. eapply gi_reglock0; eauto. rewrite Hgh in Hr. auto.
      * eapply gi_reglock0; eauto.
    + rewrite map_id_upd by (intros; apply tmut_id). auto.
    + intros j y Hj Hd. rewrite nth_error_upd_nth in Hj. destruct (Nat.eqb i j) eqn:E2.
      * apply Nat.eqb_eq in E2. subst. rewrite C in Hj. inv Hj. simpl in Hd. congruence.
      * eapply gi_pend0; eauto.
    + intros t0 th0 j Hn Ho.
      assert (Hold : exists y, nth_error (T g) j = Some y /\ t_done y = true /\ t_owner y = Some t0).
      { destruct (nth_set_cases _ _ _ Hn) as [[? ?]|[? ?]]; subst; eapply gi_own0; eauto. rewrite Hgh in Ho. auto. }
      destruct Hold as [y [A1 [B1 C1]]]. eexists. split. apply nth_upd_transfer; eauto. destruct (Nat.eqb i j); auto.
    + intros j y Hj. rewrite nth_error_upd_nth in Hj.
      pose proof (fbdebt_set th'' j) as Hfd. rewrite Hgh in Hfd. simpl in Hfd. rewrite (s_dfb _ _ _ _ Hs), Hfb, B in Hfd. simpl in Hfd.
      destruct (Nat.eqb i j) eqn:E2.
      * apply Nat.eqb_eq in E2. subst. rewrite C in Hj. inv Hj. simpl. rewrite D, F. simpl.
        pose proof (gi_fed0 _ _ C) as Hold. rewrite D, F in Hold. simpl in Hold. unfold b2z in Hfd. lia.
      * unfold b2z in Hfd. pose proof (gi_fed0 _ _ Hj). lia.
    + erewrite countp_upd_same; eauto. erewrite sumz_same; eauto. rewrite Hgh. reflexivity.
    + erewrite countp_upd_same; eauto. erewrite !sumz_same; eauto; rewrite Hgh; reflexivity.
    + erewrite countp_upd_same; eauto. erewrite sumz_same; eauto. rewrite Hgh. reflexivity.
  - red; intros. eapply sat_frame; [exact Hss | apply same_regs_refl |]. apply sat_trial_pres; auto; apply tfed_pres.
Qed.


Lemma no_debt_parts : no_debt a = true ->
  d_reg a = false /\ d_ip a = false /\ d_lat a = false /\ d_cc a = false /\ d_dp a = false /\ d_inf a = false /\ d_fb a = false /\ d_best a = false.
Proof. unfold no_debt. intros. bool_hyps. repeat split; assumption. Qed.

Lemma fbdebt_same2 : forall th'' i, g_fb (gh th'') = g_fb (gh th) -> g_own (gh th'') = g_own (gh th) -> fbdebt (set_th ts t th'') i = fbdebt ts i.
Proof. intros. unfold fbdebt. eapply cntb_same; eauto. simpl. rewrite H, H0. auto. Qed.

Lemma stmt_ENewStudy : req_eff ENewStudy a = true ->
  forall g' th', sem c t ENewStudy g th = (g', th') -> stmt_goal g ts t g' th' (post_eff ENewStudy a).
Proof.
  stmt_start Hre g' th' Hsem Hst0. bool_hyps.
  assert (HR : holds LReg (a_locks a) = true) by assumption. assert (Hmiss : f_regmiss a = true) by assumption.
  match goal with H : no_debt a = true |- _ => destruct (no_debt_parts H) as [Hdr _] end.
  injection Hsem as Eg Eth; subst g' th'. simpl.
  destruct (s_regmiss _ _ _ _ Hs Hmiss) as [_ Hnone].
  assert (Hcnt : cntb (fun th0 => g_reg (gh th0)) ts = 0).
  { apply cntb_all_false. intros t0 th0 Hn. destruct (g_reg (gh th0)) eqn:E; auto. exfalso.
    assert (t0 = t). { eapply LockInv_mutex with (k := KReg); eauto. eapply gi_reglock; eauto. eapply sat_holds_reg; eauto. }
    subst. rewrite Ht in Hn. inv Hn. rewrite (s_dreg _ _ _ _ Hs) in E. congruence. }
  assert (Hn0 : nstudies g = 0). { rewrite (gi_nst _ _ HG), Hnone, Hcnt. reflexivity. }
  split; [|split].
  - destruct Hs. constructor; simpl; auto.
  - intros th'' Hsr. destruct HG.
    assert (Hgh : gh th'' = gh_reg true (gh th)) by (rewrite (sr_gh _ _ Hsr); reflexivity).
    constructor; simpl; auto.
    + rewrite Hnone. pose proof (cntb_set_th_nat (fun th0 => g_reg (gh th0)) ts t th th'' Ht) as Hc.
      cbv beta in Hc. rewrite Hgh in Hc. simpl in Hc. rewrite (s_dreg _ _ _ _ Hs), Hdr in Hc. lia.
    + intros t0 th0 Hn Hr. destruct (nth_set_cases _ _ _ Hn) as [[? ?]|[? ?]]; subst.
      * eapply same_regs_holds; eauto. unfold holds_k. simpl. eapply sat_holds_reg; eauto.
      * eapply gi_reglock0; eauto.
    + intros t0 th0 j Hn Ho. destruct (nth_set_cases _ _ _ Hn) as [[? ?]|[? ?]]; subst; eapply gi_own0; eauto. rewrite Hgh in Ho. auto.
    + intros. rewrite fbdebt_same2 by (rewrite Hgh; reflexivity). auto.
    + erewrite sumz_same; eauto. rewrite Hgh. reflexivity.
    + erewrite !sumz_same; eauto; rewrite Hgh; reflexivity.
    + erewrite sumz_same; eauto. rewrite Hgh. reflexivity.
  - apply others_same_study. constructor; reflexivity.
Qed.

Lemma stmt_ERegister : req_eff ERegister a = true ->
  forall g' th', sem c t ERegister g th = (g', th') -> stmt_goal g ts t g' th' (post_eff ERegister a).
Proof.
  stmt_start Hre g' th' Hsem Hst0. bool_hyps.
  assert (HR : holds LReg (a_locks a) = true) by assumption. assert (Hmiss : f_regmiss a = true) by assumption.
  assert (Hdr : d_reg a = true) by assumption.
  injection Hsem as Eg Eth; subst g' th'. simpl.
  destruct (s_regmiss _ _ _ _ Hs Hmiss) as [_ Hnone].
  split; [|split].
  - destruct Hs. constructor; simpl; auto; try discriminate.
  - intros th'' Hsr. destruct HG.
    assert (Hgh : gh th'' = gh_reg false (gh th)) by (rewrite (sr_gh _ _ Hsr); reflexivity).
    constructor; simpl; auto.
    + rewrite gi_nst0, Hnone. pose proof (cntb_set_th_nat (fun th0 => g_reg (gh th0)) ts t th th'' Ht) as Hc.
      cbv beta in Hc. rewrite Hgh in Hc. simpl in Hc. rewrite (s_dreg _ _ _ _ Hs), Hdr in Hc. lia.
    + intros t0 th0 Hn Hr. destruct (nth_set_cases _ _ _ Hn) as [[? ?]|[? ?]]; subst.
      * rewrite Hgh in Hr. simpl in Hr. discriminate.
      * eapply gi_reglock0; eauto.
    + intros t0 th0 j Hn Ho. destruct (nth_set_cases _ _ _ Hn) as [[? ?]|[? ?]]; subst; eapply gi_own0; eauto. rewrite Hgh in Ho. auto.
    + intros. rewrite fbdebt_same2 by (rewrite Hgh; reflexivity). auto.
    + erewrite sumz_same; eauto. rewrite Hgh. reflexivity.
    + erewrite !sumz_same; eauto; rewrite Hgh; reflexivity.
    + erewrite sumz_same; eauto. rewrite Hgh. reflexivity.
  - red. intros t' th2 a2 Hne Hn Hs2. pose proof Hs2 as Hs2'. destruct Hs2. constructor; auto.
    intros Hf. exfalso. destruct (s_regmiss0 Hf). eapply other_reg_contra; eauto.
Qed.


Lemma nth_error_app_some : forall A (l l' : list A) i y, nth_error l i = Some y -> nth_error (l ++ l') i = Some y.
Proof. intros. rewrite nth_error_app1; auto. apply nth_error_Some. congruence. Qed.

Lemma T_append : forall x, T (upd_study 0 (fun st => set_trials st (s_trials st ++ [x])) g) = T g ++ [x].
Proof. reflexivity. Qed.

(* facts of any thread that do not depend on the number of trials survive an append *)
Lemma sat_append_keep : forall t' th2 a2 x, sat g t' th2 a2 -> f_idfresh a2 = false -> f_room a2 = false ->
  sat (upd_study 0 (fun st => set_trials st (s_trials st ++ [x])) g) t' th2 a2.
Proof.
  intros t' th2 a2 x Hs2 Hi Hr. destruct Hs2. constructor; auto; try (intros; congruence).
  - intros Hf. destruct (s_curpend0 Hf) as [Hh [j [y [A [B C]]]]]. split; auto.
    exists j, y. rewrite T_append. split; auto. split; auto. apply nth_error_app_some; auto.
  - intros Hf. destruct (s_own0 Hf) as [j [y [A [B [C [D E]]]]]]. exists j, y. rewrite T_append. repeat split; auto. apply nth_error_app_some; auto.
  - intros v Hf. destruct (s_kinf0 v Hf) as [j [y [A [B [C [D [E F]]]]]]]. exists j, y. rewrite T_append. repeat split; auto. apply nth_error_app_some; auto.
  - intros Hf. destruct (s_final0 Hf) as [j [y [A [B [C [D [E F]]]]]]]. exists j, y. rewrite T_append. repeat split; auto. apply nth_error_app_some; auto.
  - intros Hf. destruct (s_hasmeas0 Hf) as [j [y [A [B C]]]]. exists j, y. rewrite T_append. repeat split; auto. apply nth_error_app_some; auto.
Qed.

Lemma stmt_EAppend : req_eff EAppend a = true ->
  forall g' th', sem c t EAppend g th = (g', th') -> stmt_goal g ts t g' th' (post_eff EAppend a).
Proof.
  stmt_start Hre g' th' Hsem Hst0. bool_hyps.
  assert (HLk : holds LStudy (a_locks a) = true) by assumption.
  assert (Hidf : f_idfresh a = true) by assumption. assert (Hroom : f_room a = true) by assumption.
  assert (Hdip : d_ip a = false) by assumption. assert (Hdlat : d_lat a = false) by assumption.
  injection Hsem as Eg Eth; subst g' th'. simpl. fold (T g).
  set (x := {| t_id := r_id th; t_group := r_group th; t_dna := r_dna th; t_done := false; t_inf := false; t_meas := []; t_final := None; t_fed := 0; t_owner := None |}).
  destruct (s_idfresh _ _ _ _ Hs Hidf) as [_ Hid]. destruct (s_room _ _ _ _ Hs Hroom) as [_ Hrm].
  split; [|split].
  - (* self *)
    assert (Hk : sat (upd_study 0 (fun st => set_trials st (s_trials st ++ [x])) g) t th
                   (set_study_facts false false false (f_latdone a) (f_curpend a) (f_bestfresh a) (f_better a) a)).
    { assert (Hw : sat g t th (set_study_facts false false false (f_latdone a) (f_curpend a) (f_bestfresh a) (f_better a) a)).
      { destruct Hs. constructor; simpl; auto; try discriminate. }
      apply sat_append_keep; auto. }
    destruct Hk. simpl in *. constructor; simpl; auto.
    + rewrite s_dip0, Hdip. reflexivity.
    + eexists. split; reflexivity.
  - (* the study invariant *)
    intros th'' Hsr. destruct HG.
    assert (Hgh : gh th'' = gh_append (length (T g)) (gh th)) by (rewrite (sr_gh _ _ Hsr); reflexivity).
    assert (HT' : T (upd_study 0 (fun st => set_trials st (s_trials st ++ [x])) g) = T g ++ [x]) by reflexivity.
    constructor; rewrite ?HT'; unfold St; simpl; fold (St g); auto.
    + rewrite gi_nst0. f_equal. symmetry. eapply cntb_same; eauto. rewrite Hgh. reflexivity.
    + intros t0 th0 Hn Hr. destruct (nth_set_cases _ _ _ Hn) as [[? ?]|[? ?]]; subst.
      * eapply same_regs_holds; eauto. unfold holds_k. simpl. eapply gi_reglock0; eauto. rewrite Hgh in Hr. auto.
      * eapply gi_reglock0; eauto.
    + rewrite map_app, app_length. simpl. rewrite gi_ids0. rewrite Nat.add_1_r. rewrite seq_snoc. f_equal. rewrite Hid. reflexivity.
    + destruct gi_max0 as [M1 M2]. split; auto. intros m Hm. rewrite app_length. simpl. rewrite Hm in Hrm. lia.
    + intros Hf. exfalso. destruct (gi_full0 Hf) as [m [M1 M2]]. rewrite M1 in Hrm. lia.
    + intros j y Hj Hd. destruct (lt_dec j (length (T g))).
      * rewrite nth_error_app1 in Hj; auto. eapply gi_pend0; eauto.
      * rewrite nth_error_app2 in Hj by lia. destruct (j - length (T g)) as [|k]; simpl in Hj. inv Hj. auto. destruct k; discriminate.
    + intros t0 th0 j Hn Ho.
      assert (Hold : exists y, nth_error (T g) j = Some y /\ t_done y = true /\ t_owner y = Some t0).
      { destruct (nth_set_cases _ _ _ Hn) as [[? ?]|[? ?]]; subst; eapply gi_own0; eauto. rewrite Hgh in Ho. auto. }
      destruct Hold as [y [A1 [B1 C1]]]. exists y. split; auto. apply nth_error_app_some; auto.
    + intros j y Hj. rewrite fbdebt_same2 by (rewrite Hgh; reflexivity).
      destruct (lt_dec j (length (T g))).
      * rewrite nth_error_app1 in Hj; auto.
      * rewrite nth_error_app2 in Hj by lia. destruct (j - length (T g)) as [|k] eqn:Ej; simpl in Hj; [|destruct k; discriminate]. inv Hj. simpl.
        assert (Hz : fbdebt ts j = 0).
        { unfold fbdebt. apply cntb_all_false. intros t0 th0 Hn0. destruct (g_fb (gh th0)); auto. simpl.
          destruct (g_own (gh th0)) as [o|] eqn:Eo; auto. simpl. destruct (Nat.eqb o j) eqn:Eoj; auto. apply Nat.eqb_eq in Eoj. subst.
          destruct (gi_own0 _ _ _ Hn0 Eo) as [y [A1 _]]. apply nth_error_Some in A1 || (assert (j < length (T g)) by (apply nth_error_Some; congruence); lia). }
        lia.
    + rewrite countp_app. erewrite sumz_same; eauto. rewrite <- gi_comp0. unfold countp. simpl. ring. rewrite Hgh. reflexivity.
    + rewrite countp_app. erewrite sumz_set_th; eauto. erewrite (sumz_same (fun th0 => g_dp (gh th0))); eauto. rewrite Hgh. simpl. rewrite <- gi_pendc0. unfold countp. simpl. ring.
      rewrite Hgh. reflexivity.
    + rewrite countp_app. erewrite sumz_same; eauto. rewrite <- gi_infc0. unfold countp. simpl. ring. rewrite Hgh. reflexivity.
  - (* the others *)
    red. intros t' th2 a2 Hne Hn Hs2. apply sat_append_keep; auto.
    + destruct (f_idfresh a2) eqn:E; auto. exfalso. destruct (s_idfresh _ _ _ _ Hs2 E). eapply other_study_contra; eauto.
    + destruct (f_room a2) eqn:E; auto. exfalso. destruct (s_room _ _ _ _ Hs2 E). eapply other_study_contra; eauto.
Qed.

End OneStmt.


Lemma stmt_sound : forall ini e rd wr a g ts t th,
  LockInv g ts -> GI g ts -> (forall t' th2, nth_error ts t' = Some th2 -> thread_ok g t' th2) ->
  nth_error ts t = Some th -> sat g t th a -> req ini (Stmt rd wr e) a = true ->
  forall g' th', sem c t e g th = (g', th') -> stmt_goal g ts t g' th' (post_eff e a).
Proof.
  intros ini e rd wr a g ts t th HL HG HT Ht Hs Hreq g' th' Hsem.
  pose proof (s_study _ _ _ _ Hs) as Hst0.
  destruct (req_stmt _ _ _ _ _ Hreq) as [Hok [Hwg [Hre Hfp]]].
  destruct e;
  try (unfold sem, muts, regs, study_of in Hsem; rewrite Hst0 in Hsem; simpl in Hsem;
       repeat destr_match; injection Hsem as Eg Eth; subst g' th'; simpl post_eff;
       first [ eapply stmt_boring; eauto; constructor; reflexivity | eapply stmt_boring_alg; eauto; constructor; reflexivity ]).
  - eapply stmt_ENewStudy; eauto.
  - eapply stmt_ERegister; eauto.
  - eapply stmt_ELookup; eauto.
  - eapply stmt_EGetLatest; eauto.
  - eapply stmt_EReadId; eauto.
  - eapply stmt_EAppend; eauto.
  - eapply stmt_EIncPend; eauto.
  - eapply stmt_ESetLatest; eauto.
  - eapply stmt_ESetCur; eauto.
  - eapply stmt_EAddMeas; eauto.
  - eapply stmt_ESetCompleted; eauto.
  - eapply stmt_ESetFinalLast; eauto.
  - eapply stmt_ESetFinalZero; eauto.
  - eapply stmt_ESetInf; eauto.
  - eapply stmt_EComputeReward; eauto.
  - eapply stmt_EIncComp; eauto.
  - eapply stmt_EDecPend; eauto.
  - eapply stmt_EIncInf; eauto.
  - eapply stmt_EReadBest; eauto.
  - eapply stmt_ESetBest; eauto.
  - eapply stmt_EIncNF; eauto.
Qed.


(* ---- what the checker guarantees at a program point ---------------------------------------------------------------- *)
Lemma check_succ : forall p i b a gt x, an_get (ann p) i b = Some a -> nth_error (nth p ps []) i = Some (gt, x) ->
  req (is_init p) x a = true /\ forall j b' a', In (j, b', a') (succs i b a x) -> exists a'', an_get (ann p) j b' = Some a'' /\ leq a' a'' = true.
Proof.
  intros p i b a gt x Ha Hn. pose proof (an_get_bound _ _ _ _ Ha) as Hb.
  pose proof (check_at_ann p i b Hb) as Hc. unfold check_at in Hc. rewrite Ha, Hn in Hc.
  apply andb_true_iff in Hc. destruct Hc as [Hr Hf]. split; auto.
  intros j b' a' Hin. rewrite forallb_forall in Hf. specialize (Hf _ Hin). simpl in Hf.
  apply andb_true_iff in Hf. destruct Hf as [_ Hf]. destruct (an_get (ann p) j b') as [a''|]; try discriminate. eauto.
Qed.

Lemma check_end : forall p i b a, an_get (ann p) i b = Some a -> nth_error (nth p ps []) i = None ->
  a_ok a = true /\ a_locks a = [] /\ no_debt a = true /\ f_spec a = true.
Proof.
  intros p i b a Ha Hn. pose proof (an_get_bound _ _ _ _ Ha) as Hb.
  pose proof (check_at_ann p i b Hb) as Hc. unfold check_at in Hc. rewrite Ha, Hn in Hc.
  apply andb_true_iff in Hc. destruct Hc as [Hr Hf]. destruct (a_locks a); try discriminate. apply andb_true_iff in Hf. tauto.
Qed.

(* returning to the script (or finishing): the next program point is the entry of a program, annotated with a0 *)
Lemma thread_ok_entry : forall g t th th', sat g t th a0 -> same_regs th th' ->
  (pc th' = None \/ exists p, pc th' = Some (p, 0)) -> thread_ok g t th'.
Proof.
  intros g t th th' Hs Hsr Hpc. unfold thread_ok, cur_a. destruct Hpc as [Hpc | [p Hpc]]; rewrite Hpc.
  - exists a0. split; auto. eapply sat_frame; eauto. apply same_study_refl.
  - destruct (entry_ann p (r_ret th')) as [x [A B]]. exists x. split; auto. eapply sat_leq; eauto. unfold a0e. apply sat_set_alg. eapply sat_frame; eauto. apply same_study_refl.
Qed.

Lemma to_script_pc : forall au ra th, pc (to_script au ra th) = None \/ exists p, pc (to_script au ra th) = Some (p, 0).
Proof. intros. unfold to_script. destruct (next_call _ _ _) as [[u r]|]; simpl; eauto. Qed.

Lemma GI_frame2 : forall g g' ts t th th', same_gi g g' -> nth_error ts t = Some th -> gh th' = gh th ->
  (g_reg (gh th) = true -> holds_k th' KReg) -> GI g ts -> GI g' (set_th ts t th').
Proof.
  intros g g' ts t th th' [] Ht Hgh Hh [].
  constructor; unfold St in *; rewrite ?sg_tr0, ?sg_max0, ?sg_full0, ?sg_comp0, ?sg_pend0, ?sg_inf0, ?sg_reg0, ?sg_nst0; auto.
  - rewrite gi_nst0. f_equal. symmetry. eapply cntb_same; eauto. rewrite Hgh. auto.
  - intros t0 th0 Hn Hr. destruct (Nat.eq_dec t t0).
    + subst. erewrite nth_error_set_th_eq in Hn; eauto. inv Hn. apply Hh. congruence.
    + rewrite nth_error_set_th_neq in Hn; auto. eauto.
  - intros t0 th0 j Hn Ho. destruct (Nat.eq_dec t t0).
    + subst. erewrite nth_error_set_th_eq in Hn; eauto. inv Hn. eapply gi_own0; eauto. congruence.
    + rewrite nth_error_set_th_neq in Hn; auto. eauto.
  - intros. erewrite fbdebt_same; eauto.
  - erewrite sumz_same; eauto. rewrite Hgh. auto.
  - erewrite !sumz_same; eauto; rewrite Hgh; auto.
  - erewrite sumz_same; eauto. rewrite Hgh. auto.
Qed.

(* ---- Acquire ---------------------------------------------------------------------------------------------------- *)
Lemma sat_acquire : forall g t th a l o, sat g t th a ->
  sat (set_lock (phys l g th) o g) t (th_held ((l, phys l g th) :: held th) th) (with_locks (l :: a_locks a) a).
Proof.
  intros g t th a l o Hs. destruct Hs. constructor; simpl; auto.
  - rewrite s_locks0. reflexivity.
  - intros l0 k [E | Hin].
    + inv E. destruct l0; simpl; rewrite ?s_study0; eauto.
    + apply s_phys0; auto.
  - intros Hf. bool_hyps. destruct (s_regmiss0 H). auto.
  - intros Hf. bool_hyps. destruct (s_idfresh0 H). auto.
  - intros Hf. bool_hyps. destruct (s_room0 H). auto.
  - intros Hf. bool_hyps. destruct (s_curpend0 H). auto.
Qed.

Lemma sat_release : forall g t th a l k h o, sat g t th a -> held th = (l, k) :: h ->
  sat (set_lock k o g) t (th_held h th) (with_locks (tl (a_locks a)) a).
Proof.
  intros g t th a l k h o Hs Hh. destruct Hs. rewrite Hh in *. simpl in s_locks0.
  assert (Htl : tl (a_locks a) = map fst h) by (rewrite <- s_locks0; reflexivity).
  constructor; simpl; auto.
  - intros l0 k0 Hin. apply s_phys0. simpl. auto.
  - intros Hf. bool_hyps. destruct (s_regmiss0 H). auto.
  - intros Hf. bool_hyps. destruct (s_idfresh0 H). auto.
  - intros Hf. bool_hyps. destruct (s_room0 H). auto.
  - intros Hf. bool_hyps. destruct (s_curpend0 H). auto.
Qed.


(* ---- Branch ------------------------------------------------------------------------------------------------------- *)
Definition branch_goal (cn : cond) (a : astate) (g : gstate) (ts : list tstate) (t : nat) (th : tstate) : Prop :=
  let b := evalc c cn g th in
  (static_cond (r_ret th) a cn = Some (negb b) -> False) /\
  sat (note_full cn b g th) t (note_branch cn b th) (post_br cn b a) /\
  (forall th'', same_regs (note_branch cn b th) th'' -> GI (note_full cn b g th) (set_th ts t th'')) /\
  others_stable g (note_full cn b g th) ts t.

Lemma branch_plain : forall cn a g ts t th,
  GI g ts -> nth_error ts t = Some th -> sat g t th a ->
  (forall b, note_full cn b g th = g) -> (forall b, note_branch cn b th = th) -> (forall b, post_br cn b a = a) ->
  (static_cond (r_ret th) a cn = Some (negb (evalc c cn g th)) -> False) ->
  branch_goal cn a g ts t th.
Proof.
  intros cn a g ts t th HG Ht Hs H1 H2 H3 H4. unfold branch_goal. rewrite H1, H2, H3.
  split; auto. split; auto. split.
  - intros. eapply GI_frame; eauto. apply same_gi_refl. apply (sr_gh _ _ H). intros. eapply same_regs_holds; eauto.
  - red; intros; auto.
Qed.

Lemma GI_branch_ghost : forall g ts t th th'', GI g ts -> nth_error ts t = Some th ->
  g_reg (gh th'') = g_reg (gh th) -> g_own (gh th'') = g_own (gh th) -> g_fb (gh th'') = g_fb (gh th) -> g_cc (gh th'') = g_cc (gh th) ->
  g_ip (gh th'') = g_ip (gh th) -> g_dp (gh th'') = g_dp (gh th) -> g_infd (gh th'') = g_infd (gh th) -> held th'' = held th ->
  GI g (set_th ts t th'').
Proof.
  intros g ts t th th'' [] Ht E1 E2 E3 E4 E5 E6 E7 E8.
  constructor; auto.
  - rewrite gi_nst0. f_equal. symmetry. eapply cntb_same; eauto.
  - intros t0 th0 Hn Hr. destruct (Nat.eq_dec t t0).
    + subst. erewrite nth_error_set_th_eq in Hn; eauto. inv Hn. unfold holds_k. rewrite E8. eapply gi_reglock0; eauto; congruence.
    + rewrite nth_error_set_th_neq in Hn; auto. eauto.
  - intros t0 th0 j Hn Ho. destruct (Nat.eq_dec t t0).
    + subst. erewrite nth_error_set_th_eq in Hn; eauto. inv Hn. eapply gi_own0; eauto; congruence.
    + rewrite nth_error_set_th_neq in Hn; auto. eauto.
  - intros. assert (E : fbdebt (set_th ts t th'') i = fbdebt ts i).
    { unfold fbdebt. eapply cntb_same; eauto. simpl. rewrite E2, E3. auto. }
    rewrite E. auto.
  - erewrite sumz_same; eauto.
  - erewrite !sumz_same; eauto.
  - erewrite sumz_same; eauto.
Qed.

Lemma evalc_cur : forall g th i x cn, r_study th = 0 -> r_cur th = Some i -> nth_error (T g) i = Some x ->
  (cn = CInfeasible -> evalc c cn g th = t_inf x) /\ (cn = CCurPending -> evalc c cn g th = negb (t_done x)) /\
  (cn = CCurNotPending -> evalc c cn g th = t_done x).
Proof.
  intros. unfold evalc, study_of, otrial, pending_t. rewrite H, H0. fold (T g). rewrite H1.
  repeat split; intros; subst; auto. destruct (t_done x); reflexivity.
Qed.

Lemma branch_sound : forall ini cn rd off a g ts t th,
  LockInv g ts -> GI g ts -> nth_error ts t = Some th -> sat g t th a -> req ini (Branch rd cn off) a = true ->
  branch_goal cn a g ts t th.
Proof.
  intros ini cn rd off a g ts t th HL HG Ht Hs Hreq. pose proof (s_study _ _ _ _ Hs) as Hst0.
  destruct cn; try (apply branch_plain; auto; simpl; intros; try discriminate; fail).
  - (* CConst *) apply branch_plain; auto. simpl. destruct b; discriminate.
  - (* CRegMissing *)
    unfold branch_goal. simpl. split; [discriminate|]. split; [|split].
    + destruct (registry g) eqn:E; destruct Hs; constructor; simpl; auto; try discriminate.
    + intros. eapply GI_frame; eauto. apply same_gi_refl. apply (sr_gh _ _ H). intros. eapply same_regs_holds; eauto.
    + red; auto.
  - (* CTrialPending *)
    unfold branch_goal. simpl. split; [discriminate|]. split; [|split].
    + destruct (match otrial (study_of g (r_study th)) (r_trial th) with Some x => pending_t x | None => false end); destruct Hs; constructor; simpl; auto.
    + intros. eapply GI_frame; eauto. apply same_gi_refl. apply (sr_gh _ _ H). intros. eapply same_regs_holds; eauto.
    + red; auto.
  - (* CFull *)
    unfold branch_goal. simpl. rewrite Hst0. unfold study_of.
    split; [discriminate|].
    destruct (s_max (studies g 0)) as [m|] eqn:Em.
    + destruct (Nat.ltb m (S (length (s_trials (studies g 0))))) eqn:El.
      * (* full *) split; [|split].
        -- eapply sat_frame; [| apply same_regs_refl | exact Hs]. constructor; reflexivity.
        -- intros th'' Hsr. destruct HG. apply Nat.ltb_lt in El.
           assert (Hgh : gh th'' = gh th) by apply (sr_gh _ _ Hsr).
           constructor; simpl; auto.
           ++ rewrite gi_nst0. f_equal. symmetry. eapply cntb_same; eauto. rewrite Hgh. auto.
           ++ intros t0 th0 Hn Hr. destruct (Nat.eq_dec t t0).
              ** subst. erewrite nth_error_set_th_eq in Hn; eauto. inv Hn. eapply same_regs_holds; eauto. eapply gi_reglock0; eauto. congruence.
              ** rewrite nth_error_set_th_neq in Hn; auto. eauto.
           ++ intros _. exists m. split; auto. destruct gi_max0 as [_ M]. specialize (M _ Em). unfold T in *. simpl. lia.
           ++ intros t0 th0 j Hn Ho. destruct (Nat.eq_dec t t0).
              ** subst. erewrite nth_error_set_th_eq in Hn; eauto. inv Hn. eapply gi_own0; eauto. congruence.
              ** rewrite nth_error_set_th_neq in Hn; auto. eauto.
           ++ intros. erewrite fbdebt_same; eauto.
           ++ erewrite sumz_same; eauto. rewrite Hgh. auto.
           ++ erewrite !sumz_same; eauto; rewrite Hgh; auto.
           ++ erewrite sumz_same; eauto. rewrite Hgh. auto.
        -- apply others_same_study. constructor; reflexivity.
      * (* room *) apply Nat.ltb_ge in El. split; [|split].
        -- destruct Hs. constructor; simpl; auto. intros Hf. split; auto. unfold St, T in *. rewrite Em. lia.
        -- intros. eapply GI_frame; eauto. apply same_gi_refl. apply (sr_gh _ _ H). intros. eapply same_regs_holds; eauto.
        -- red; auto.
    + split; [|split].
      * destruct Hs. constructor; simpl; auto. intros Hf. split; auto. unfold St in *. rewrite Em. auto.
      * intros. eapply GI_frame; eauto. apply same_gi_refl. apply (sr_gh _ _ H). intros. eapply same_regs_holds; eauto.
      * red; auto.
  - (* CCurPending *)
    unfold branch_goal. simpl note_full. simpl note_branch. split; [simpl; discriminate|]. split; [|split].
    + unfold evalc. rewrite Hst0. unfold study_of, otrial, pending_t. fold (T g).
      destruct (r_cur th) as [i|] eqn:Ec; [destruct (nth_error (T g) i) as [x|] eqn:Ex; [destruct (t_done x) eqn:Ed|]|];
        simpl; destruct Hs; constructor; simpl; auto.
      intros Hf. split; auto. exists i, x. auto.
    + intros. eapply GI_frame; eauto. apply same_gi_refl. apply (sr_gh _ _ H). intros. eapply same_regs_holds; eauto.
    + red; auto.
  - (* CCurNotPending *)
    unfold branch_goal. simpl note_full. simpl note_branch. split; [simpl; discriminate|]. split; [|split].
    + unfold evalc. rewrite Hst0. unfold study_of, otrial, pending_t. fold (T g).
      destruct (r_cur th) as [i|] eqn:Ec; [destruct (nth_error (T g) i) as [x|] eqn:Ex; [destruct (t_done x) eqn:Ed|]|];
        simpl; destruct Hs; constructor; simpl; auto.
      intros Hf. split; auto. exists i, x. auto.
    + intros. eapply GI_frame; eauto. apply same_gi_refl. apply (sr_gh _ _ H). intros. eapply same_regs_holds; eauto.
    + red; auto.
  - (* CNoMeas *)
    unfold branch_goal. simpl note_full. simpl note_branch. split; [simpl; discriminate|]. split; [|split].
    + unfold evalc. rewrite Hst0. unfold study_of, otrial. fold (T g).
      destruct (r_cur th) as [i|] eqn:Ec; [destruct (nth_error (T g) i) as [x|] eqn:Ex; [destruct (t_meas x) eqn:Ed|]|];
        simpl; destruct Hs; constructor; simpl; auto.
      intros _. exists i, x. rewrite Ed. repeat split; auto. discriminate.
    + intros. eapply GI_frame; eauto. apply same_gi_refl. apply (sr_gh _ _ H). intros. eapply same_regs_holds; eauto.
    + red; auto.
  - (* CRetTrue *) apply branch_plain; auto. simpl. intros E. inv E. destruct (r_ret th); discriminate.
  - (* CRetFalse *) apply branch_plain; auto. simpl. intros E. inv E. destruct (r_ret th); discriminate.
  - (* CInfeasible *)
    apply branch_plain; auto. simpl static_cond. destruct (f_own a) eqn:Eo; try discriminate. intros E.
    destruct (s_kinf _ _ _ _ Hs _ E) as [i [x [A [B [C [D [F G]]]]]]].
    destruct (evalc_cur g th i x CInfeasible Hst0 A C) as [K _]. rewrite K in G; auto. destruct (t_inf x); discriminate.
  - (* CBestBetter *)
    unfold branch_goal. simpl note_full. split; [simpl; discriminate|].
    destruct (evalc c CBestBetter g th) eqn:Eb; simpl note_branch; simpl post_br.
    + split; [|split].
      * destruct Hs. constructor; simpl; auto.
      * intros. eapply GI_frame; eauto. apply same_gi_refl. apply (sr_gh _ _ H). intros. eapply same_regs_holds; eauto.
      * red; auto.
    + split; [|split].
      * destruct Hs. constructor; simpl; auto.
      * intros th'' Hsr. eapply GI_branch_ghost; eauto; rewrite (sr_gh _ _ Hsr) || rewrite (sr_held _ _ Hsr); reflexivity.
      * red; auto.
  - (* CRewardSome *)
    apply branch_plain; auto. simpl static_cond. destruct (f_reward a) eqn:Er; try discriminate. intros E. inv E.
    pose proof (s_reward _ _ _ _ Hs Er). simpl in H0. destruct (r_reward th); try congruence. discriminate.
  - (* CSpecNone: only the algorithm facts of the next layer change *)
    unfold branch_goal. simpl note_full. simpl note_branch. split; [simpl; discriminate|]. split; [|split].
    + destruct (evalc c CSpecNone g th); simpl post_br; apply sat_set_alg; auto.
    + intros. eapply GI_frame; eauto. apply same_gi_refl. apply (sr_gh _ _ H). intros. eapply same_regs_holds; eauto.
    + red; auto.
Qed.


(* ---- one step of one thread preserves the invariant ------------------------------------------------------------- *)
Lemma regs_ret : forall me e g th, match e with ESetRet _ | EPolicy => True | _ => r_ret (regs c me e g th) = r_ret th end.
Proof. destruct e; simpl; intros; auto; repeat destr_match; reflexivity. Qed.

Lemma thread_ok_at : forall g' t th' p j a' a'', pc th' = Some (p, j) -> an_get (ann p) j (r_ret th') = Some a'' -> leq a' a'' = true ->
  sat g' t th' a' -> thread_ok g' t th'.
Proof. intros. exists a''. split. unfold cur_a. rewrite H. auto. eapply sat_leq; eauto. Qed.

Lemma Inv_assemble : forall g ts t th g' th', nth_error ts t = Some th ->
  (forall t' th2, nth_error ts t' = Some th2 -> thread_ok g t' th2) ->
  LockInv g' (set_th ts t th') -> GI g' (set_th ts t th') -> thread_ok g' t th' -> others_stable g g' ts t ->
  Inv g' (set_th ts t th').
Proof.
  intros g ts t th g' th' Ht HT HL HG Hok Hoth. constructor; auto.
  intros t0 th0 Hn. destruct (Nat.eq_dec t t0).
  - subst. erewrite nth_error_set_th_eq in Hn; eauto. inv Hn. auto.
  - rewrite nth_error_set_th_neq in Hn; auto. destruct (HT _ _ Hn) as [a2 [A B]]. exists a2. split; auto.
Qed.

Lemma others_refl : forall g ts t, others_stable g g ts t.
Proof. red; auto. Qed.

Theorem Inv_step : forall g ts t g' ts', Inv g ts -> step1 ps c g ts t = Some (g', ts') -> Inv g' ts'.
Proof.
  intros g ts t g' ts' [HL HG HT] Hstep.
  pose proof (LockInv_step _ _ _ _ _ _ _ HL Hstep) as HL'.
  destruct (step1_inv _ _ _ _ _ _ _ Hstep) as [th [p [i [Ht [Hpc Hcase]]]]].
  destruct (HT _ _ Ht) as [a [Hcur Hs]]. unfold cur_a in Hcur. rewrite Hpc in Hcur.
  destruct Hcase as [[Hf [Hg Hts]] | [gate [x [th' [Hf [Hact Hts]]]]]].
  - (* falling off the end of an entry *)
    subst g' ts'. rewrite fetch_nth in Hf. destruct (check_end _ _ _ _ Hcur Hf) as [Hok [Hlk [Hnd Hfs]]].
    pose proof (sat_a0 _ _ _ _ Hs Hlk Hnd) as Hs0.
    eapply Inv_assemble; eauto.
    + eapply GI_frame; eauto. apply same_gi_refl. apply (sr_gh _ _ (same_regs_to_script _ _ th)). intros; eapply same_regs_holds; eauto. apply same_regs_to_script.
    + eapply thread_ok_entry; eauto. apply same_regs_to_script. apply to_script_pc.
    + apply others_refl.
  - subst ts'. rewrite fetch_nth in Hf. destruct (check_succ _ _ _ _ _ _ Hcur Hf) as [Hreq Hsucc].
    destruct x; simpl in Hact.
    + (* Acquire *)
      destruct (locks g (phys l g th)) eqn:El; try discriminate. inv Hact.
      destruct (Hsucc (S i) (r_ret th) (with_locks (l :: a_locks a) a)) as [a'' [A B]]; [simpl; auto|].
      pose proof (sat_acquire g t th a l (Some t) Hs) as Hs'.
      eapply Inv_assemble; eauto.
      * eapply GI_frame; eauto. constructor; reflexivity. intros k Hk. unfold holds_k in *. simpl. auto.
      * eapply thread_ok_at with (a' := with_locks (l :: a_locks a) a); simpl; eauto.
        eapply sat_frame; [apply same_study_refl | | exact Hs']. constructor; reflexivity.
      * apply others_same_study. constructor; reflexivity.
    + (* Release *)
      unfold req in Hreq. bool_hyps.
      destruct (a_locks a) as [|l' rest] eqn:Elk; try discriminate. bool_hyps.
      match goal with H : lockref_eqb l l' = true |- _ => apply lockref_eqb_eq in H; subst l' end.
      destruct (held th) as [|[l0 k] h] eqn:Eh.
      { pose proof (s_locks _ _ _ _ Hs) as Hm. rewrite Eh, Elk in Hm. discriminate. }
      inv Hact.
      assert (El0 : l0 = l). { pose proof (s_locks _ _ _ _ Hs) as Hm. rewrite Eh, Elk in Hm. simpl in Hm. congruence. }
      subst l0.
      destruct (Hsucc (S i) (r_ret th) (with_locks (tl (a_locks a)) a)) as [a'' [A B]]; [simpl; auto|].
      pose proof (sat_release g t th a l k h None Hs Eh) as Hs'.
      eapply Inv_assemble; eauto.
      * eapply GI_frame2; eauto. constructor; reflexivity.
        intros Hr. pose proof (gi_reglock _ _ HG _ _ Ht Hr) as Hk. unfold holds_k in *. rewrite Eh in Hk. simpl in Hk. simpl. destruct Hk as [Hk | Hk]; auto.
        exfalso. subst k. pose proof (s_phys _ _ _ _ Hs l KReg) as Hp. rewrite Eh in Hp. specialize (Hp (or_introl eq_refl)).
        destruct l; try discriminate; try (destruct Hp; discriminate).
        rewrite (s_dreg _ _ _ _ Hs) in Hr. bool_hyps. congruence.
      * eapply thread_ok_at with (a' := with_locks (tl (a_locks a)) a); simpl; eauto.
        eapply sat_frame; [apply same_study_refl | | exact Hs']. constructor; reflexivity.
      * apply others_same_study. constructor; reflexivity.
    + (* Stmt *)
      destruct (sem c t e g th) as [g1 th1] eqn:Esem. inv Hact.
      destruct (stmt_sound _ e rd wr a g ts t th HL HG HT Ht Hs Hreq g1 th1 Esem) as [S1 [S2 S3]].
      assert (Hret : exists b' a', In (S i, b', a') (succs i (r_ret th) a (Stmt rd wr e)) /\ r_ret th1 = b' /\ sat g1 t th1 a').
      { pose proof (regs_ret t e g th) as Hr.
        assert (Eth : th1 = regs c t e g th) by (unfold sem in Esem; inv Esem; reflexivity).
        rewrite <- Eth in Hr.
        destruct e; simpl succs; simpl post_eff in S1;
          try (exists (r_ret th); eexists; split; [left; reflexivity | split; [exact Hr | exact S1]]).
        - (* ESetRet *) exists b; eexists; split; [left; reflexivity | split; [|exact S1]]. rewrite Eth. reflexivity.
        - (* EPolicy *) destruct (r_ret th1) eqn:Er.
          + exists true; eexists; split; [left; reflexivity | split; [reflexivity | exact S1]].
          + exists false; eexists; split; [right; left; reflexivity | split; [reflexivity | exact S1]]. }
      destruct Hret as [b' [a' [Hin [Hb Hsa]]]].
      destruct (Hsucc _ _ _ Hin) as [a'' [A B]].
      unfold sem in Esem. injection Esem as Eg1 Eth1. subst g1 th1.
      eapply Inv_assemble; eauto.
      * apply S2. apply same_regs_pc.
      * eapply thread_ok_at with (a' := a'); simpl; eauto. rewrite Hb. eauto.
        eapply sat_frame; [apply same_study_refl | apply same_regs_pc | exact Hsa].
    + (* Branch *)
      inv Hact. unfold req in Hreq.
      assert (Hrb : req (is_init p) (Branch rd c0 off) a = true) by exact Hreq.
      destruct (branch_sound _ c0 rd off a g ts t th HL HG Ht Hs Hrb) as [B1 [B2 [B3 B4]]].
      set (b := evalc c c0 g th) in *.
      assert (Hin : In ((if b then S i else S i + off), r_ret th, post_br c0 b a) (succs i (r_ret th) a (Branch rd c0 off))).
      { simpl. destruct (static_cond (r_ret th) a c0) as [[|]|] eqn:Est; destruct b; simpl in *; auto; exfalso; apply B1; reflexivity. }
      destruct (Hsucc _ _ _ Hin) as [a'' [A B]].
      assert (Hret : r_ret (note_branch c0 b th) = r_ret th) by (destruct c0, b; reflexivity).
      eapply Inv_assemble; eauto.
      * apply B3. apply same_regs_pc.
      * eapply thread_ok_at with (a' := post_br c0 b a); simpl; eauto. rewrite Hret. eauto.
        eapply sat_frame; [apply same_study_refl | apply same_regs_pc | exact B2].
    + (* Jump *)
      inv Hact. destruct (Hsucc (S i + off) (r_ret th) a) as [a'' [A B]]; [simpl; auto|].
      eapply Inv_assemble; eauto.
      * eapply GI_frame; eauto. apply same_gi_refl.
      * eapply thread_ok_at with (a' := a); simpl; eauto. eapply sat_frame; [apply same_study_refl | apply same_regs_pc | exact Hs].
      * apply others_refl.
    + (* Throw *)
      unfold req in Hreq. bool_hyps. destruct (a_locks a) eqn:Elk; try discriminate. bool_hyps.
      pose proof (sat_a0 _ _ _ _ Hs Elk ltac:(assumption)) as Hs0.
      assert (Hfin : g' = g -> th' = th_pc None th -> Inv g' (set_th ts t th')).
      { intros; subst. eapply Inv_assemble; eauto.
        - eapply GI_frame; eauto. apply same_gi_refl.
        - eapply thread_ok_entry; eauto. apply same_regs_pc.
        - apply others_refl. }
      assert (Hscr : g' = g -> th' = to_script None true th -> Inv g' (set_th ts t th')).
      { intros; subst. eapply Inv_assemble; eauto.
        - eapply GI_frame; eauto. apply same_gi_refl. apply (sr_gh _ _ (same_regs_to_script _ _ th)). intros; eapply same_regs_holds; eauto. apply same_regs_to_script.
        - eapply thread_ok_entry; eauto. apply same_regs_to_script. apply to_script_pc.
        - apply others_refl. }
      destruct k; try destruct (Nat.eqb p P_init); injection Hact as Eg Eth; auto.
    + (* Done *)
      unfold req in Hreq. bool_hyps. destruct (a_locks a) eqn:Elk; try discriminate. bool_hyps.
      pose proof (sat_a0 _ _ _ _ Hs Elk ltac:(assumption)) as Hs0. inv Hact.
      eapply Inv_assemble; eauto.
      * eapply GI_frame; eauto. apply same_gi_refl. apply (sr_gh _ _ (same_regs_to_script _ _ th)). intros; eapply same_regs_holds; eauto. apply same_regs_to_script.
      * eapply thread_ok_entry; eauto. apply same_regs_to_script. apply to_script_pc.
      * apply others_refl.
Qed.

End Sound.

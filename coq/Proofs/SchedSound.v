(* SchedSound.v — soundness of the discipline check: for every program set with [disciplined ps = true], every
   configuration, any number of workers and EVERY schedule, the facts computed by the static analysis hold whenever a
   thread is at the program point they annotate, and the study invariants hold in every reachable state.
   Method: one invariant, preserved by one act of an arbitrary thread ([step1]); [run_invariant] lifts it to all schedules. *)
From PG Require Import Common.Tactics Model.Sched Model.SchedDisc Proofs.SchedBase Proofs.SchedMutex.

Definition b2z (b : bool) : Z := if b then 1%Z else 0%Z.
Definition T (g : gstate) : list trial := s_trials (studies g 0).
Definition St (g : gstate) : study := studies g 0.

(* ---- small facts about the checker's helpers ---------------------------------------------------------------- *)
Lemma lockref_eqb_eq : forall a b, lockref_eqb a b = true <-> a = b.
Proof. destruct a, b; simpl; split; intros; congruence. Qed.

Lemma holds_In : forall l ls, holds l ls = true <-> In l ls.
Proof.
  unfold holds; intros. rewrite existsb_exists. split.
  - intros [x [A B]]. apply lockref_eqb_eq in B. subst. auto.
  - intros. exists l. split; auto. apply lockref_eqb_eq. auto.
Qed.

Lemma list_lockref_eqb_eq : forall x y, list_lockref_eqb x y = true -> x = y.
Proof.
  unfold list_lockref_eqb. induction x; destruct y; simpl; intros; try reflexivity; try discriminate.
  apply andb_true_iff in H. destruct H as [A B]. simpl in B. apply andb_true_iff in B. destruct B as [B1 B2].
  apply lockref_eqb_eq in B1. subst. f_equal. apply IHx. rewrite A. simpl. auto.
Qed.

Lemma an_get_nil : forall i b, an_get [] i b = None.
Proof. unfold an_get; intros. destruct i; simpl; destruct b; reflexivity. Qed.

(* ---- the abstract state of a thread ------------------------------------------------------------------------- *)
Section Sound.
Variable ps : progs.
Variable c : cfg.
Hypothesis HD : disciplined ps = true.

Definition ann (p : nat) : annot := infer_prog (nth p ps []).

Definition cur_a (th : tstate) : option astate :=
  match pc th with Some (p, i) => an_get (ann p) i (r_ret th) | None => Some a0 end.

Lemma check_ann : forall p, check_prog (nth p ps []) (ann p) = true.
Proof.
  intros. unfold ann. unfold disciplined in HD. rewrite forallb_forall in HD.
  destruct (nth_in_or_default p ps []) as [Hin | Hd].
  - apply HD. auto.
  - rewrite Hd. vm_compute. reflexivity.
Qed.

Lemma fetch_nth : forall p i, fetch ps p i = nth_error (nth p ps []) i.
Proof.
  unfold fetch; intros. destruct (nth_error ps p) eqn:E.
  - erewrite nth_error_nth; eauto.
  - apply nth_error_None in E. rewrite nth_overflow; auto. destruct i; reflexivity.
Qed.

Lemma check_at_ann : forall p i b, i <= length (nth p ps []) -> check_at (nth p ps []) (ann p) i b = true.
Proof.
  intros. pose proof (check_ann p) as H0. unfold check_prog in H0. apply andb_true_iff in H0. destruct H0 as [_ H0].
  rewrite forallb_forall in H0. specialize (H0 i). rewrite in_seq in H0.
  assert (A : check_at (nth p ps []) (ann p) i false && check_at (nth p ps []) (ann p) i true = true) by (apply H0; lia).
  apply andb_true_iff in A. destruct b; tauto.
Qed.

Lemma entry_ann : forall p b, exists x, an_get (ann p) 0 b = Some x /\ leq a0 x = true.
Proof.
  intros. pose proof (check_ann p) as H0. unfold check_prog in H0. apply andb_true_iff in H0. destruct H0 as [H0 _].
  destruct (an_get (ann p) 0 false) as [x|] eqn:E1; try discriminate. destruct (an_get (ann p) 0 true) as [y|] eqn:E2; try discriminate.
  apply andb_true_iff in H0. destruct H0. destruct b; [exists y | exists x]; auto.
Qed.

(* ---- sums over the threads ---------------------------------------------------------------------------------- *)
Fixpoint sumz (f : tstate -> Z) (ts : list tstate) : Z := match ts with [] => 0%Z | th :: r => (f th + sumz f r)%Z end.
Definition cntb (f : tstate -> bool) (ts : list tstate) : nat := length (filter f ts).
Definition opt_nat_eqb (x y : option nat) : bool :=
  match x, y with Some a, Some b => Nat.eqb a b | None, None => true | _, _ => false end.
Definition fbdebt (ts : list tstate) (i : nat) : nat := cntb (fun th => g_fb (gh th) && opt_nat_eqb (g_own (gh th)) (Some i)) ts.
Definition countp (f : trial -> bool) (l : list trial) : Z := Z.of_nat (length (filter f l)).

Lemma sumz_set_th : forall f ts t th th', nth_error ts t = Some th -> sumz f (set_th ts t th') = (sumz f ts - f th + f th')%Z.
Proof.
  unfold set_th. induction ts; destruct t; simpl; intros; try discriminate.
  - inv H. lia.
  - erewrite IHts; eauto. lia.
Qed.

Lemma cntb_set_th_nat : forall f ts t th th', nth_error ts t = Some th ->
  cntb f (set_th ts t th') + (if f th then 1 else 0) = cntb f ts + (if f th' then 1 else 0).
Proof.
  unfold set_th, cntb. induction ts; destruct t; intros; try discriminate.
  - simpl in H. inv H. cbn [upd_nth filter]. destruct (f th), (f th'); cbn [length]; lia.
  - simpl in H. specialize (IHts _ _ th' H). cbn [upd_nth filter]. destruct (f a); cbn [length]; lia.
Qed.

Lemma cntb_set_th : forall f ts t th th', nth_error ts t = Some th ->
  Z.of_nat (cntb f (set_th ts t th')) = (Z.of_nat (cntb f ts) - b2z (f th) + b2z (f th'))%Z.
Proof.
  intros. pose proof (cntb_set_th_nat f ts t th th' H). unfold b2z. destruct (f th), (f th'); lia.
Qed.

Lemma cntb_pos_ex : forall f ts, cntb f ts > 0 -> exists t th, nth_error ts t = Some th /\ f th = true.
Proof.
  unfold cntb. induction ts; simpl; intros. lia.
  destruct (f a) eqn:E.
  - exists 0, a. auto.
  - destruct (IHts H) as [t [th [A B]]]. exists (S t), th. auto.
Qed.

Lemma cntb_one : forall f ts t th, nth_error ts t = Some th -> f th = true -> cntb f ts > 0.
Proof.
  unfold cntb. induction ts; destruct t; intros; try discriminate; simpl in H.
  - inv H. cbn [filter]. rewrite H0. cbn [length]. lia.
  - cbn [filter]. destruct (f a); cbn [length]; [lia | eauto].
Qed.

Lemma cntb_two : forall f ts t1 t2 th1 th2, t1 <> t2 -> nth_error ts t1 = Some th1 -> nth_error ts t2 = Some th2 ->
  f th1 = true -> f th2 = true -> cntb f ts >= 2.
Proof.
  induction ts; intros.
  - destruct t1; discriminate.
  - destruct t1, t2; simpl in H0, H1; try congruence.
    + inv H0. pose proof (cntb_one f ts t2 th2 H1 H3). unfold cntb in *. cbn [filter]. rewrite H2. cbn [length]. lia.
    + inv H1. pose proof (cntb_one f ts t1 th1 H0 H2). unfold cntb in *. cbn [filter]. rewrite H3. cbn [length]. lia.
    + assert (cntb f ts >= 2) by (eapply (IHts t1 t2); eauto). unfold cntb in *. cbn [filter]. destruct (f a); cbn [length]; lia.
Qed.

Lemma cntb_zero_all : forall f ts t th, cntb f ts = 0 -> nth_error ts t = Some th -> f th = false.
Proof.
  intros. destruct (f th) eqn:E; auto. pose proof (cntb_one f ts t th H0 E). lia.
Qed.


(* ---- what the facts of the static analysis mean ------------------------------------------------------------- *)
Record sat (g : gstate) (t : nat) (th : tstate) (a : astate) : Prop := {
  s_ok : a_ok a = true;
  s_locks : map fst (held th) = a_locks a;
  s_phys : forall l k, In (l, k) (held th) -> match l with LReg => k = KReg | LStudy => k = KStudy 0 | LAlgo => exists n, k = KAlgo n end;
  s_study : r_study th = 0;
  s_dreg : g_reg (gh th) = d_reg a;
  s_dip : g_ip (gh th) = b2z (d_ip a);
  s_dlat : if d_lat a then exists i, g_lat (gh th) = Some i /\ r_trial th = Some i else g_lat (gh th) = None;
  s_regmiss : f_regmiss a = true -> holds LReg (a_locks a) = true /\ registry g = None;
  s_idfresh : f_idfresh a = true -> holds LStudy (a_locks a) = true /\ r_id th = S (length (T g));
  s_room : f_room a = true -> holds LStudy (a_locks a) = true /\ match s_max (St g) with Some m => length (T g) < m | None => True end
}.

(* ---- the invariant of the shared state ------------------------------------------------------------------------ *)
Record GI (g : gstate) (ts : list tstate) : Prop := {
  gi_reg : match registry g with Some s => s = 0 | None => True end;
  gi_nst : nstudies g = (match registry g with Some _ => 1 | None => 0 end) + cntb (fun th => g_reg (gh th)) ts;
  gi_reglock : forall t th, nth_error ts t = Some th -> g_reg (gh th) = true -> holds_k th KReg;
  gi_ids : map t_id (T g) = seq 1 (length (T g));
  gi_max : s_max (St g) = c_max c /\ (forall m, s_max (St g) = Some m -> length (T g) <= m);
  gi_full : s_full (St g) = true -> exists m, s_max (St g) = Some m /\ length (T g) = m
}.

Definition thread_ok (g : gstate) (t : nat) (th : tstate) : Prop := exists a, cur_a th = Some a /\ sat g t th a.

Record Inv (g : gstate) (ts : list tstate) : Prop := {
  inv_lock : LockInv g ts;
  inv_gi : GI g ts;
  inv_th : forall t th, nth_error ts t = Some th -> thread_ok g t th
}.

(* ---- the annotation has one cell per program point (and one past the end) ------------------------------------- *)
Lemma length_an_add : forall an j b a, length (an_add an j b a) = length an.
Proof. intros. unfold an_add. apply length_upd_nth. Qed.

Lemma length_fold_an_add : forall l an, length (fold_left (fun an s => an_add an (fst (fst s)) (snd (fst s)) (snd s)) l an) = length an.
Proof. induction l; simpl; intros; auto. rewrite IHl. apply length_an_add. Qed.

Lemma length_infer_step : forall pr an i, length (infer_step pr an i) = length an.
Proof.
  intros. unfold infer_step. destruct (nth_error pr i) as [[gt x]|]; auto.
  assert (Hone : forall an b, length (match an_get an i b with
                                        | None => an
                                        | Some a => fold_left (fun an s => an_add an (fst (fst s)) (snd (fst s)) (snd s)) (succs i b a x) an
                                        end) = length an).
  { intros. destruct (an_get an0 i b); auto. apply length_fold_an_add. }
  cbn [fold_left]. etransitivity. apply Hone. apply Hone.
Qed.

Lemma length_infer : forall pr, length (infer_prog pr) = S (length pr).
Proof.
  intros. unfold infer_prog.
  assert (forall l an, length (fold_left (infer_step pr) l an) = length an).
  { induction l; simpl; intros; auto. rewrite IHl. apply length_infer_step. }
  rewrite H. simpl. rewrite repeat_length. auto.
Qed.

Lemma an_get_bound : forall p i b a, an_get (ann p) i b = Some a -> i <= length (nth p ps []).
Proof.
  intros. destruct (le_lt_dec i (length (nth p ps []))); auto.
  unfold an_get in H. rewrite nth_overflow in H. destruct b; discriminate.
  unfold ann. rewrite length_infer. lia.
Qed.

(* ---- sat: weakening, frame ----------------------------------------------------------------------------------- *)
Ltac bool_hyps :=
  repeat match goal with
  | H : _ && _ = true |- _ => apply andb_true_iff in H; destruct H
  | H : negb _ = true |- _ => apply negb_true_iff in H
  | H : implb _ _ = true |- _ => rewrite implb_true_iff in H
  | H : Bool.eqb _ _ = true |- _ => apply eqb_prop in H
  end.

Lemma sat_leq : forall g t th x y, leq x y = true -> sat g t th x -> sat g t th y.
Proof.
  intros g t th x y Hl Hs. unfold leq, debts_eqb in Hl. bool_hyps.
  match goal with H : list_lockref_eqb _ _ = true |- _ => apply list_lockref_eqb_eq in H; rename H into Hlk end.
  destruct Hs. constructor; try congruence.
  - match goal with H : d_lat x = d_lat y |- _ => rewrite <- H end. auto.
  - intros. rewrite <- Hlk. auto.
  - intros. rewrite <- Hlk. auto.
  - intros. rewrite <- Hlk. auto.
Qed.

Record same_regs (th th' : tstate) : Prop := {
  sr_held : held th' = held th; sr_study : r_study th' = r_study th; sr_group : r_group th' = r_group th; sr_gh : gh th' = gh th;
  sr_id : r_id th' = r_id th; sr_trial : r_trial th' = r_trial th; sr_cur : r_cur th' = r_cur th; sr_reward : r_reward th' = r_reward th;
  sr_best : r_best th' = r_best th }.

Record same_study (g g' : gstate) : Prop := { ss_st : studies g' 0 = studies g 0; ss_reg : registry g' = registry g }.

Lemma same_regs_refl : forall th, same_regs th th. Proof. constructor; reflexivity. Qed.
Lemma same_study_refl : forall g, same_study g g. Proof. constructor; reflexivity. Qed.
Lemma same_regs_pc : forall th o, same_regs th (th_pc o th). Proof. constructor; reflexivity. Qed.
Lemma same_regs_to_script : forall th, same_regs th (to_script th).
Proof. intros. unfold to_script. destruct (next_call _ _) as [[u r]|]; constructor; reflexivity. Qed.
Lemma same_regs_trans : forall a b d, same_regs a b -> same_regs b d -> same_regs a d.
Proof. intros a b d [] []. constructor; congruence. Qed.

Lemma sat_frame : forall g g' t th th' a, same_study g g' -> same_regs th th' -> sat g t th a -> sat g' t th' a.
Proof.
  intros g g' t th th' a [Hst Hreg] [] []. unfold T, St in *.
  constructor; rewrite ?sr_held0, ?sr_study0, ?sr_gh0, ?sr_id0, ?sr_trial0, ?Hst, ?Hreg; auto.
Qed.

Lemma sat_holds_study : forall g t th a, sat g t th a -> holds LStudy (a_locks a) = true -> holds_k th (KStudy 0).
Proof.
  intros. destruct H. apply holds_In in H0. rewrite <- s_locks0 in H0. apply in_map_iff in H0. destruct H0 as [[l k] [A B]].
  simpl in A. subst. specialize (s_phys0 _ _ B). simpl in s_phys0. subst. unfold holds_k. apply in_map_iff. exists (LStudy, KStudy 0). auto.
Qed.

Lemma sat_holds_reg : forall g t th a, sat g t th a -> holds LReg (a_locks a) = true -> holds_k th KReg.
Proof.
  intros. destruct H. apply holds_In in H0. rewrite <- s_locks0 in H0. apply in_map_iff in H0. destruct H0 as [[l k] [A B]].
  simpl in A. subst. specialize (s_phys0 _ _ B). simpl in s_phys0. subst. unfold holds_k. apply in_map_iff. exists (LReg, KReg). auto.
Qed.

(* returning to the script: no lock, no debt, no fact *)
Lemma sat_a0 : forall g t th a, sat g t th a -> a_locks a = [] -> no_debt a = true -> sat g t th a0.
Proof.
  intros g t th a [] Hl Hd. unfold no_debt in Hd. bool_hyps.
  constructor; simpl; try discriminate; try congruence.
  - rewrite s_dip0. match goal with H : d_ip a = false |- _ => rewrite H end. reflexivity.
  - match goal with H : d_lat a = false |- _ => rewrite H in s_dlat0 end. auto.
Qed.

End Sound.

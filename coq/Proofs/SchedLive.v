(* SchedLive.v — no deadlock: in every reachable state in which some worker has not finished, some worker can take a step.
   The discipline orders the locks (registry lock > a study's lock > the evolution lock) and lets a program take a lock only inside
   locks of higher rank; a blocked thread waits for a lock whose holder is either free to move or waits for a lock of lower rank. *)
From PG Require Import Common.Tactics Model.Sched Model.SchedDisc Proofs.SchedBase Proofs.SchedMutex Proofs.SchedSound.

Definition krank (k : lockid) : nat := match k with KReg => 3 | KStudy _ => 2 | KAlgo _ => 1 end.

Lemma phys_rank : forall l g th, krank (phys l g th) = lrank l.
Proof. destruct l; reflexivity. Qed.

Lemma lrank_pos : forall l, 1 <= lrank l.
Proof. destruct l; simpl; lia. Qed.

Section Live.
Variable ps : progs.
Variable c : cfg.
Hypothesis HD : disciplined ps = true.

(* the only act that can fail to step is an Acquire of a taken lock *)
Lemma step1_blocked : forall g ts t th p i, nth_error ts t = Some th -> pc th = Some (p, i) -> step1 ps c g ts t = None ->
  exists gate l t2, fetch ps p i = Some (gate, Acquire l) /\ locks g (phys l g th) = Some t2.
Proof.
  intros g ts t th p i Ht Hpc Hst. unfold step1 in Hst. rewrite Ht, Hpc in Hst.
  destruct (fetch ps p i) as [[gate x]|] eqn:Ef; try discriminate.
  destruct x; simpl in Hst; try discriminate.
  - destruct (locks g (phys l g th)) as [t2|] eqn:El; try discriminate. eauto.
  - destruct (held th) as [|[l0 k] h]; discriminate.
  - destruct k; try destruct (Nat.eqb p P_init); discriminate.
Qed.

Section State.
Variables (g : gstate) (ts : list tstate).
Hypothesis HI : Inv ps c g ts.

Lemma finished_no_locks : forall t th, nth_error ts t = Some th -> pc th = None -> held th = [].
Proof.
  intros t th Ht Hpc. destruct (inv_th _ _ _ _ HI _ _ Ht) as [a [A B]]. unfold cur_a in A. rewrite Hpc in A. inv A.
  pose proof (s_locks _ _ _ _ B) as Hl. simpl in Hl. destruct (held th); auto; discriminate.
Qed.

Lemma held_rank : forall t th a l k, nth_error ts t = Some th -> sat g t th a -> In (l, k) (held th) -> krank k = lrank l /\ In l (a_locks a).
Proof.
  intros t th a l k Ht Hs Hin. split.
  - pose proof (s_phys _ _ _ _ Hs _ _ Hin) as Hp. destruct l; try (subst; reflexivity). destruct Hp as [n Hn]. subst. reflexivity.
  - rewrite <- (s_locks _ _ _ _ Hs). apply in_map_iff. exists (l, k). auto.
Qed.

Lemma progress_rank : forall n t th, nth_error ts t = Some th -> pc th <> None ->
  (forall p i gate l, pc th = Some (p, i) -> fetch ps p i = Some (gate, Acquire l) -> lrank l <= n) ->
  exists t', step1 ps c g ts t' <> None.
Proof.
  induction n; intros t th Ht Hpc Hrk.
  - destruct (pc th) as [[p i]|] eqn:Epc; [| congruence].
    destruct (step1 ps c g ts t) eqn:Est; [exists t; congruence|].
    destruct (step1_blocked _ _ _ _ _ _ Ht Epc Est) as [gate [l [t2 [Hf _]]]].
    pose proof (Hrk _ _ _ _ eq_refl Hf). pose proof (lrank_pos l). lia.
  - destruct (pc th) as [[p i]|] eqn:Epc; [| congruence].
    destruct (step1 ps c g ts t) eqn:Est; [exists t; congruence|].
    destruct (step1_blocked _ _ _ _ _ _ Ht Epc Est) as [gate [l [t2 [Hf Hl]]]].
    pose proof (Hrk _ _ _ _ eq_refl Hf) as Hln.
    destruct (li_owner _ _ (inv_lock _ _ _ _ HI) _ _ Hl) as [th2 [Ht2 Hk2]].
    assert (Hpc2 : pc th2 <> None).
    { intros Hn. unfold holds_k in Hk2. rewrite (finished_no_locks _ _ Ht2 Hn) in Hk2. destruct Hk2. }
    apply (IHn t2 th2 Ht2 Hpc2).
    intros p2 i2 gate2 l2 Epc2 Hf2.
    destruct (inv_th _ _ _ _ HI _ _ Ht2) as [a2 [A2 S2]]. unfold cur_a in A2. rewrite Epc2 in A2.
    rewrite (fetch_nth ps) in Hf2. destruct (check_succ ps HD _ _ _ _ _ _ A2 Hf2) as [Hreq _].
    unfold req in Hreq. apply andb_true_iff in Hreq. destruct Hreq as [_ Hreq]. apply andb_true_iff in Hreq. destruct Hreq as [_ Hord].
    rewrite forallb_forall in Hord.
    unfold holds_k in Hk2. apply in_map_iff in Hk2. destruct Hk2 as [[l' k'] [Ek Hin]]. simpl in Ek. subst k'.
    destruct (held_rank _ _ _ _ _ Ht2 S2 Hin) as [R1 R2].
    specialize (Hord _ R2). apply Nat.ltb_lt in Hord. rewrite phys_rank in R1. lia.
Qed.

Lemma some_can_step : finished ts = false -> exists t, step1 ps c g ts t <> None.
Proof.
  intros Hfin. unfold finished in Hfin.
  assert (Hex : exists th, In th ts /\ pc th <> None).
  { clear HI. induction ts as [|x l IH]; simpl in Hfin; try discriminate.
    destruct (pc x) eqn:E; simpl in Hfin.
    - exists x. split; [left; auto | congruence].
    - destruct (IH Hfin) as [th [A B]]. exists th. split; [right; auto | auto]. }
  destruct Hex as [th [Hin Hpc]]. destruct (In_nth_error _ _ Hin) as [t Ht].
  apply (progress_rank 3 t th Ht Hpc). intros. destruct l; simpl; lia.
Qed.

End State.
End Live.

(* HyperInstance.v — the CustomHyper subclasses and `where` predicates the check uses satisfy what the theorems
   assume of user code; examples showing the hypotheses of the theorems are satisfiable on a non-trivial template. *)
From PG Require Import Common.Tactics Common.Tr Model.Geno Proofs.GenoBasics Model.Hyper Model.HyperSpec Model.HyperRun
  Proofs.HyperBasics Proofs.HyperDecode Proofs.HyperEncode Proofs.HyperIter.
Local Open Scope Z_scope.

Lemma std_concrete : custom_concrete std_cdec.
Proof.
  intros [|[|ck]] s v H; simpl in H; try discriminate.
  - destruct (forallb _ s); inv H. simpl. induction s; simpl; auto.
  - inv H. reflexivity.
Qed.

Lemma std_cenc_err : forall ck v e, std_cenc ck v = Err e -> catchable e = true.
Proof.
  intros [|[|ck]] v e H; simpl in H.
  - destruct v; try (inv H; reflexivity).
    revert e H. induction ts as [|x ts IH]; intros e H; [simpl in H; discriminate|].
    rewrite map_res_cons in H.
    destruct x; try (inv H; reflexivity). destruct l; try (inv H; reflexivity).
    destruct ((0 <=? z) && (z <? 1114112)); [|inv H; reflexivity].
    destruct (map_res _ ts) eqn:E; inv H. eapply IH; eauto.
  - destruct v; try (inv H; reflexivity). destruct l; inv H; reflexivity.
  - inv H; reflexivity.
Qed.

Lemma std_cenc_dec : forall ck s v, std_cdec ck s = Ok v -> std_cenc ck v = Ok s.
Proof.
  intros [|[|ck]] s v H; simpl in H; try discriminate.
  - destruct (forallb _ s) eqn:F; inv H. simpl.
    induction s as [|c s IH]; [reflexivity|]. simpl in F. apply andb_true_iff in F as [F1 F2].
    simpl map. rewrite map_res_cons.
    replace ((0 <=? Z.of_N c) && (Z.of_N c <? 1114112)) with true by (symmetry; apply andb_true_iff; split; lia).
    rewrite (IH F2), N2Z.id. reflexivity.
  - inv H. reflexivity.
Qed.

Lemma std_cenc_sound : forall ck v s, std_cenc ck v = Ok s -> exists v', std_cdec ck s = Ok v' /\ veq v' v = true.
Proof.
  intros [|[|ck]] v s H; simpl in H; try discriminate.
  - destruct v; try discriminate. simpl.
    assert (G : forallb (fun c => (c <? 1114112)%N) s = true /\ forallb2 veq (map (fun c => TLeaf (LfInt (Z.of_N c))) s) ts = true).
    { revert s H. induction ts as [|x ts IH]; intros s H; [simpl in H; inv H; auto|].
      rewrite map_res_cons in H. destruct x; try discriminate. destruct l; try discriminate.
      destruct ((0 <=? z) && (z <? 1114112)) eqn:R; try discriminate. apply andb_true_iff in R as [R1 R2].
      destruct (map_res _ ts) eqn:E; inv H. destruct (IH _ eq_refl) as [G1 G2]. simpl. rewrite G1, G2.
      split; [apply andb_true_iff; split; auto; lia|]. rewrite Z2N.id by lia. rewrite Z.eqb_refl. auto. }
    destruct G as [G1 G2]. rewrite G1. eexists; split; [reflexivity|]. exact G2.
  - destruct v; try discriminate. destruct l; inv H. eexists; split; [reflexivity|]. simpl. apply str_eqb_refl.
Qed.

Lemma std_cdec_inj : forall ck s1 s2 v1 v2, std_cdec ck s1 = Ok v1 -> std_cdec ck s2 = Ok v2 -> veq v1 v2 = true -> s1 = s2.
Proof.
  intros [|[|ck]] s1 s2 v1 v2 H1 H2 Hq; simpl in H1, H2; try discriminate.
  - destruct (forallb _ s1); inv H1. destruct (forallb _ s2); inv H2. simpl in Hq.
    revert s2 Hq. induction s1 as [|a s1 IH]; intros [|b s2] Hq; simpl in Hq; try discriminate; auto.
    apply andb_true_iff in Hq as [Hq1 Hq2]. apply Z.eqb_eq in Hq1. f_equal; [lia | auto].
  - inv H1. inv H2. simpl in Hq. apply str_eqb_eq; auto.
Qed.

(* every predicate of the pool looks at the placeholder itself only *)
Lemma weval_shallow : forall d, shallow (weval d).
Proof.
  unfold shallow. induction d; intros x y H; simpl; auto.
  - destruct x, y; simpl in H; try discriminate; auto.
  - destruct x, y; simpl in H; try discriminate; auto; inv H;
      rewrite <- (map_length (fun _ => TLeaf LfNone) cands), <- (map_length (fun _ => TLeaf LfNone) cands0); congruence.
  - destruct x, y; simpl in H; try discriminate; inv H; auto.
  - destruct x, y; simpl in H; try discriminate; inv H; auto.
  - f_equal; auto.
  - f_equal; auto.
Qed.

(* ---- a non-trivial template on which every hypothesis of the theorems holds --------------------------------- *)
Definition a0 : attrs := mkA None None.
Definition s_a : str := [97%N].  Definition s_b : str := [98%N].  Definition s_k : str := [107%N].
Definition ex_t : tmpl :=
  TDict [(s_a, TOneOf [TLeaf (LfInt 1); TDict [(s_k, TOneOf [TLeaf (LfStr s_a); TLeaf (LfStr s_b)] a0)]] a0);
         (s_b, TManyOf 2 [TLeaf (LfInt 1); TLeaf (LfInt 2); TLeaf (LfInt 3)] true true a0)].
Definition ex_w := weval WAll.
(* a = second candidate with k = "q"; b = [2, 3] *)
Definition ex_d : sdna :=
  SSpace [PChoices [(1%nat, SSpace [PChoices [(1%nat, SSpace [])]])]; PChoices [(1%nat, SSpace []); (2%nat, SSpace [])]].
Definition ex_v : tmpl :=
  TDict [(s_a, TDict [(s_k, TLeaf (LfStr s_b))]); (s_b, TList [TLeaf (LfInt 2); TLeaf (LfInt 3)])].

Example ex_valid : valid (dna_spec ex_w ex_t) ex_d = true.
Proof. reflexivity. Qed.
Example ex_decode : sdecode std_cdec ex_w ex_t ex_d = Ok ex_v.
Proof. reflexivity. Qed.
Example ex_encode : sencode std_cenc ex_w hq_none ex_t ex_v = Ok ex_d.
Proof. reflexivity. Qed.
Example ex_wf : wf_t ex_t.
Proof. simpl. repeat split; repeat constructor; simpl; intuition discriminate. Qed.

Lemma sdecode_leaf : forall cdec w l d v, sdecode cdec w (TLeaf l) d = Ok v -> v = TLeaf l.
Proof. intros cdec w l [ds] v H. simpl in H. destruct ds; inv H; auto. Qed.
Lemma sdecode_dict : forall cdec w kvs d v, sdecode cdec w (TDict kvs) d = Ok v -> exists kvs', v = TDict kvs'.
Proof.
  intros cdec w kvs [ds] v H. unfold sdecode in H. rewrite sdec_dict in H.
  destruct (trav_kvs _ kvs ds) as [[kvs' r]|]; simpl in H; try discriminate. destruct r; inv H. eauto.
Qed.
Lemma sdecode_list : forall cdec w ts d v, sdecode cdec w (TList ts) d = Ok v -> exists ts', v = TList ts'.
Proof.
  intros cdec w ts [ds] v H. unfold sdecode in H. rewrite sdec_list in H.
  destruct (trav_list _ ts ds) as [[ts' r]|]; simpl in H; try discriminate. destruct r; inv H. eauto.
Qed.

Ltac pick_cands Hi Hj :=
  repeat match type of Hi with nth_error _ ?i = Some _ => is_var i; destruct i; simpl in Hi end;
  repeat match type of Hj with nth_error _ ?j = Some _ => is_var j; destruct j; simpl in Hj end;
  try discriminate; try congruence.

Example ex_distinguishable : distinguishable std_cdec ex_w ex_t.
Proof.
  simpl. repeat split; auto; intros _ i j ci cj di dj vi vj Hij Hi Hj _ _ Hdi Hdj; pick_cands Hi Hj; inv Hi; inv Hj;
    repeat match goal with
           | H : sdecode _ _ (TLeaf _) _ = Ok _ |- _ => apply sdecode_leaf in H; subst
           | H : sdecode _ _ (TDict _) _ = Ok _ |- _ => apply sdecode_dict in H; destruct H as [? ->]
           end; reflexivity.
Qed.

(* ---- the open finding: with its flag on, the round trip fails on a template whose candidates ARE distinguishable ---- *)
Definition q_on : hquirks := {| q_list_dict := true |}.
Definition rf_t : tmpl := TOneOf [TList [TOneOf [TLeaf (LfInt 1); TLeaf (LfInt 2)] a0]; TDict []] a0.
Definition rf_d : sdna := SSpace [PChoices [(1%nat, SSpace [])]].
Lemma encode_decode_refuted :
  wf_t rf_t /\ distinguishable std_cdec ex_w rf_t /\ valid (dna_spec ex_w rf_t) rf_d = true /\
  sdecode std_cdec ex_w rf_t rf_d = Ok (TDict []) /\
  sencode std_cenc ex_w q_on rf_t (TDict []) = Err E_TYPE /\       (* the code as it is *)
  sencode std_cenc ex_w hq_none rf_t (TDict []) = Ok rf_d /\      (* as repaired *)
  ~ avoids q_on rf_t.
Proof.
  split; [simpl; repeat split; repeat constructor|].
  split.
  { simpl. repeat split; auto; intros _ i j ci cj di dj vi vj Hij Hi Hj _ _ Hdi Hdj; pick_cands Hi Hj; inv Hi; inv Hj;
      repeat match goal with
             | H : sdecode _ _ (TLeaf _) _ = Ok _ |- _ => apply sdecode_leaf in H; subst
             | H : sdecode _ _ (TDict _) _ = Ok _ |- _ => apply sdecode_dict in H; destruct H as [? ->]
             | H : sdecode _ _ (TList _) _ = Ok _ |- _ => apply sdecode_list in H; destruct H as [? ->]
             end; reflexivity. }
  repeat split; try reflexivity. intros H. specialize (H eq_refl). discriminate.
Qed.

Example ex_hwf : hwf ex_t = true.
Proof. reflexivity. Qed.
Example ex_finite : finite (dna_spec ex_w ex_t) = true.
Proof. reflexivity. Qed.
Example ex_size : space_size (dna_spec ex_w ex_t) = Some 9%N.
Proof. reflexivity. Qed.
(* every hypothesis of the round-trip and of the iteration theorem holds on the example *)
Example ex_roundtrip_applies : sencode std_cenc ex_w hq_none ex_t ex_v = Ok ex_d.
Proof.
  exact (encode_decode std_cdec std_cenc ex_w hq_none eq_refl std_cenc_err std_cenc_sound std_cenc_dec
           ex_t ex_d ex_v ex_wf ex_distinguishable ex_valid ex_decode).
Qed.
Example ex_iter_applies : length (iter (dna_spec ex_w ex_t) 9) = 9%nat /\ NoDup (iter (dna_spec ex_w ex_t) 9).
Proof.
  destruct (iter_count std_cdec ex_w ex_t ex_hwf ex_wf ex_finite std_cdec_inj
              ex_distinguishable 9 (Nat.le_refl 9)) as (E & ND & _).
  split; [reflexivity | exact ND].
Qed.

(* TypingApply.v — an equational presentation of [apply] (one unfolding step per spec class, the
   nested recursions as named functions) and the idempotence of apply. *)
From PG Require Import Common.Tactics Model.Typing Proofs.TypingBasics.
Local Open Scope Z_scope.
Local Arguments Z.mul : simpl never.

(* ------------------------------------------------------------------------------------------ *)
(** * Named versions of the inner recursions *)

Fixpoint mapM {A B} (f : A -> res B) (l : list A) : res (list B) :=
  match l with
  | [] => Ok []
  | x :: r => let? x' := f x in let? r' := mapM f r in Ok (x' :: r')
  end.

(* fixed-length tuple: element i against spec i (lengths are compared before) *)
Fixpoint zipM (f : spec -> pv -> res pv) (es : list spec) (l : list pv) : res (list pv) :=
  match es, l with
  | e :: es', x :: r => let? x' := f e x in let? r' := zipM f es' r in Ok (x' :: r')
  | _, _ => Ok []
  end.

(* value handed to a field: a missing or MISSING_VALUE entry takes the field default *)
Definition field_input (fsp : spec) (o : option pv) : pv :=
  match o with
  | Some x => if is_missing x then dflt (mods_of fsp) else x
  | None => dflt (mods_of fsp)
  end.

(* the entries matched by the StrKey() field *)
Fixpoint dyn_apply (f : pv -> res pv) (d : pv) (fs : list (fkey * spec)) (l : list (str * pv)) : res (list (str * pv)) :=
  match l with
  | [] => Ok []
  | (k, x) :: l' =>
      if has_const k fs then dyn_apply f d fs l' else
      let x0 := if is_missing x then d else x in
      let? x' := f x0 in
      let? r' := dyn_apply f d fs l' in Ok ((k, x') :: r')
  end.

Fixpoint fields_apply (f : spec -> pv -> res pv) (fs : list (fkey * spec)) (kvs : list (str * pv))
         (fs' : list (fkey * spec)) : res (list (str * pv)) :=
  match fs' with
  | [] => Ok []
  | (KConst k, fsp) :: r =>
      let? x' := f fsp (field_input fsp (lookup k kvs)) in
      let? r' := fields_apply f fs kvs r in Ok ((k, x') :: r')
  | (KDyn, fsp) :: r =>
      let? mine := dyn_apply (f fsp) (dflt (mods_of fsp)) fs kvs in
      let? r' := fields_apply f fs kvs r in Ok (mine ++ r')
  end.

Definition unknown_keys (fs : list (fkey * spec)) (kvs : list (str * pv)) : bool :=
  negb (has_dyn fs) && existsb (fun kv => negb (has_const (fst kv) fs)) kvs.

Fixpoint union_strong (f : spec -> pv -> res pv) (k : unit -> res pv) (v : pv) (l : list spec) : res pv :=
  match l with
  | c :: r => match vtype c with
              | Some ts => if isinstance v ts then f c v else union_strong f k v r
              | None => union_strong f k v r
              end
  | [] => k tt
  end.
Fixpoint union_weak (f : spec -> pv -> res pv) (k : unit -> res pv) (v : pv) (l : list spec) : res pv :=
  match l with
  | c :: r => match vtype c with
              | None => match f c v with Err TypeErr => union_weak f k v r | o => o end
              | Some _ => union_weak f k v r
              end
  | [] => k tt
  end.
Fixpoint union_conv (f : spec -> pv -> res pv) (v : pv) (l : list spec) : res pv :=
  match l with
  | c :: r => match vtype c with
              | Some ts => match convert v ts with Some v' => f c v' | None => union_conv f v r end
              | None => union_conv f v r
              end
  | [] => Err TypeErr
  end.

(* the part of apply after the frozen / missing / None / type checks *)
Definition apply_body (p : bool) (s : spec) (v : pv) : res pv :=
  match s with
  | SBool _ | SStr _ | SObj _ _ | SAny _ => Ok v
  | SInt lo hi _ => validate_num (scale64 lo) (scale64 hi) v
  | SFloat lo hi _ => validate_num lo hi v
  | SEnum vals _ => if py_in v vals then Ok v else Err ValueErr
  | SList e mn mx _ =>
      match v with
      | PList l => let? l' := mapM (apply p e) l in
                   if size_ok mn mx (len l') then Ok (PList l') else Err ValueErr
      | _ => Err TypeErr
      end
  | STuple es mn mx _ =>
      match v with
      | PTuple l =>
          if fixed_length mn mx then
            if negb (len l =? len es) then Err ValueErr else
            let? l' := zipM (apply p) es l in Ok (PTuple l')
          else
            if negb (size_ok mn mx (len l)) then Err ValueErr else
            match es with
            | e :: _ => let? l' := mapM (apply p e) l in Ok (PTuple l')
            | [] => match l with [] => Ok (PTuple []) | _ => Err TypeErr end
            end
      | _ => Err TypeErr
      end
  | SDict None _ => Ok v
  | SDict (Some fs) _ =>
      match v with
      | PDict kvs =>
          if unknown_keys fs kvs then Err KeyErr else
          let? ups := fields_apply (apply p) fs kvs fs in
          Ok (PDict (dict_merge kvs ups))
      | _ => Err TypeErr
      end
  | SUnion cs _ =>
      union_strong (apply p) (fun _ => union_weak (apply p) (fun _ => union_conv (apply p) v cs) v cs) v cs
  end.

Definition pipeline (p : bool) (s : spec) (v : pv) : res pv :=
  let m := mods_of s in
  if frozen m then
    if is_missing v || py_eq (dflt m) v then Ok (dflt m) else Err ValueErr
  else
  match v with
  | PMissing => if p then Ok PMissing else Err ValueErr
  | PNone => if noneable m then Ok PNone else Err ValueErr
  | _ => let? v1 := coerce (vtype s) v in apply_body p s v1
  end.

Lemma mapM_fix : forall (f : pv -> res pv) l,
  (fix go (l : list pv) : res (list pv) :=
     match l with
     | [] => Ok []
     | x :: r => let? x' := f x in let? r' := go r in Ok (x' :: r')
     end) l = mapM f l.
Proof. induction l; simpl; auto. rewrite IHl. reflexivity. Qed.

Lemma bind_ext : forall {A B} (r : res A) (f g : A -> res B), (forall a, f a = g a) -> bind r f = bind r g.
Proof. intros. destruct r; simpl; auto. Qed.

Lemma zipM_fix : forall (f : spec -> pv -> res pv) es l,
  (fix go (es : list spec) (l : list pv) {struct es} : res (list pv) :=
     match es, l with
     | e :: es', x :: r => let? x' := f e x in let? r' := go es' r in Ok (x' :: r')
     | _, _ => Ok []
     end) es l = zipM f es l.
Proof. induction es; destruct l; simpl; auto. rewrite IHes. reflexivity. Qed.

Lemma dyn_fix : forall (f : pv -> res pv) d (fs : list (fkey * spec)) l,
  (fix each (l : list (str * pv)) : res (list (str * pv)) :=
     match l with
     | [] => Ok []
     | (k, x) :: l' =>
         if has_const k fs then each l' else
         let? x' := f (if is_missing x then d else x) in
         let? r' := each l' in Ok ((k, x') :: r')
     end) l = dyn_apply f d fs l.
Proof. induction l as [|[k x] r IH]; simpl; auto. rewrite IH. reflexivity. Qed.

Lemma fields_fix : forall (f : spec -> pv -> res pv) fs kvs fs',
  (fix go (fs' : list (fkey * spec)) : res (list (str * pv)) :=
     match fs' with
     | [] => Ok []
     | (KConst k, fsp) :: r =>
         let? x' := f fsp match lookup k kvs with
                          | Some x => if is_missing x then dflt (mods_of fsp) else x
                          | None => dflt (mods_of fsp)
                          end in
         let? r' := go r in Ok ((k, x') :: r')
     | (KDyn, fsp) :: r =>
         let? mine :=
           (fix each (l : list (str * pv)) : res (list (str * pv)) :=
              match l with
              | [] => Ok []
              | (k, x) :: l' =>
                  if has_const k fs then each l' else
                  let? x' := f fsp (if is_missing x then dflt (mods_of fsp) else x) in
                  let? r' := each l' in Ok ((k, x') :: r')
              end) kvs in
         let? r' := go r in Ok (mine ++ r')
     end) fs' = fields_apply f fs kvs fs'.
Proof.
  induction fs' as [|[[k|] fsp] r IH]; simpl; auto.
  - rewrite IH. reflexivity.
  - rewrite IH. rewrite (dyn_fix (f fsp) (dflt (mods_of fsp)) fs kvs). reflexivity.
Qed.

Lemma union_conv_fix : forall (f : spec -> pv -> res pv) v l,
  (fix conv (l : list spec) : res pv :=
     match l with
     | c :: r =>
         match vtype c with
         | Some ts => match convert v ts with Some v' => f c v' | None => conv r end
         | None => conv r
         end
     | [] => Err TypeErr
     end) l = union_conv f v l.
Proof. induction l; simpl; auto. rewrite IHl. reflexivity. Qed.

Lemma union_weak_fix : forall (f : spec -> pv -> res pv) (k : res pv) v l,
  (fix weak (l : list spec) : res pv :=
     match l with
     | c :: r =>
         match vtype c with
         | None => match f c v with Err TypeErr => weak r | o => o end
         | Some _ => weak r
         end
     | [] => k
     end) l = union_weak f (fun _ => k) v l.
Proof. induction l; simpl; auto. rewrite IHl. reflexivity. Qed.

Lemma union_strong_fix : forall (f : spec -> pv -> res pv) (k : res pv) v l,
  (fix strong (l : list spec) : res pv :=
     match l with
     | c :: r =>
         match vtype c with
         | Some ts => if isinstance v ts then f c v else strong r
         | None => strong r
         end
     | [] => k
     end) l = union_strong f (fun _ => k) v l.
Proof. induction l; simpl; auto. rewrite IHl. reflexivity. Qed.

Lemma apply_eq : forall p s v, apply p s v = pipeline p s v.
Proof.
  intros p s v. unfold pipeline.
  destruct s; cbn [apply mods_of]; destruct (frozen m); try reflexivity;
    destruct v; try reflexivity; cbn [apply_body]; apply bind_ext; intros a.
  (* List *)
  all: try (destruct a; try reflexivity; rewrite mapM_fix; reflexivity).
  (* Tuple *)
  all: try (destruct a; try reflexivity; rewrite zipM_fix; destruct es; try reflexivity; rewrite mapM_fix; reflexivity).
  (* Dict *)
  all: try (destruct schema; try reflexivity; destruct a; try reflexivity; cbv zeta; rewrite fields_fix; reflexivity).
  (* Union *)
  all: try (rewrite union_strong_fix, union_weak_fix, union_conv_fix; reflexivity).
Qed.

(* ------------------------------------------------------------------------------------------ *)
(** * Basic facts about the pipeline *)

Lemma coerce_idem : forall vt v v1, coerce vt v = Ok v1 -> coerce vt v1 = Ok v1.
Proof.
  intros [ts|] v v1; simpl; [|congruence].
  destruct (isinstance v ts) eqn:E.
  - intros H; inv H. rewrite E. reflexivity.
  - unfold convert. destruct (existsb is_float ts) eqn:F; [|discriminate].
    destruct (conv_float v) eqn:C; [|discriminate]. intros H; inv H.
    assert (T : type_of v1 = Some TyFloat) by (destruct v; simpl in C; inv C; reflexivity).
    unfold isinstance. rewrite T.
    replace (existsb (issub TyFloat) ts) with true; auto.
    symmetry. apply existsb_exists. apply existsb_exists in F as [t [I F]]. exists t. split; auto.
    destruct t; simpl in F; try discriminate. reflexivity.
Qed.

(* the type check only looks at the type of the value *)
Lemma coerce_same_type : forall vt v w, coerce vt v = Ok v -> type_of w = type_of v -> coerce vt w = Ok w.
Proof.
  intros [ts|] v w; simpl; auto.
  unfold isinstance. intros H T. rewrite T.
  destruct (type_of v) eqn:Tv.
  - destruct (existsb (issub t) ts); auto.
    unfold convert in *. destruct (existsb is_float ts); try discriminate.
    destruct (conv_float v) eqn:C; try discriminate. inv H.
    destruct v; simpl in C; inv C.
  - unfold convert in *. destruct (existsb is_float ts); try discriminate.
    destruct v; simpl in *; try discriminate.
Qed.

Lemma coerce_not_none : forall vt v v1, coerce vt v = Ok v1 -> v <> PNone -> v <> PMissing -> v1 <> PNone /\ v1 <> PMissing.
Proof.
  intros [ts|] v v1; simpl.
  - destruct (isinstance v ts). { intros H; inv H; auto. }
    unfold convert. destruct (existsb is_float ts); try discriminate.
    destruct v; simpl; try discriminate; intros H; inv H; split; discriminate.
  - intros H; inv H; auto.
Qed.

Lemma pipeline_typed : forall p s v, frozen (mods_of s) = false -> type_of v <> None ->
  pipeline p s v = let? v1 := coerce (vtype s) v in apply_body p s v1.
Proof. intros p s v F T. unfold pipeline. rewrite F. destruct v; simpl in T; try congruence; reflexivity. Qed.

Lemma coerce_typed : forall vt v v1, coerce vt v = Ok v1 -> type_of v <> None -> type_of v1 <> None.
Proof.
  intros [ts|] v v1; simpl.
  - destruct (isinstance v ts). { intros H; inv H; auto. }
    unfold convert. destruct (existsb is_float ts); try discriminate.
    destruct v; simpl; try discriminate; intros H; inv H; simpl; congruence.
  - intros H; inv H; auto.
Qed.

(* idempotence of the whole pipeline from idempotence of the class-specific part *)
Lemma pipeline_idem : forall p s,
  (forall v1 v', apply_body p s v1 = Ok v' -> type_of v1 <> None ->
                 type_of v' = type_of v1 /\ apply_body p s v' = Ok v') ->
  forall v v', pipeline p s v = Ok v' -> pipeline p s v' = Ok v'.
Proof.
  intros p s HB v v' H.
  destruct (frozen (mods_of s)) eqn:F.
  - unfold pipeline in *. rewrite F in *.
    destruct (is_missing v || py_eq (dflt (mods_of s)) v); inv H.
    rewrite py_eq_refl, orb_true_r. reflexivity.
  - destruct (type_of v) eqn:T.
    + rewrite pipeline_typed in H by congruence.
      destruct (coerce (vtype s) v) as [v1|] eqn:C; simpl in H; [|discriminate].
      assert (T1 : type_of v1 <> None) by (eapply coerce_typed; eauto; congruence).
      destruct (HB _ _ H T1) as [T' B'].
      rewrite pipeline_typed by congruence.
      rewrite (coerce_same_type _ v1 v') by (eauto using coerce_idem). simpl. exact B'.
    + unfold pipeline in *. rewrite F in *. destruct v; simpl in T; try discriminate.
      * destruct (noneable (mods_of s)); inv H. reflexivity.
      * destruct p; inv H. reflexivity.
Qed.

Lemma mapM_length : forall {A B} (f : A -> res B) l l', mapM f l = Ok l' -> length l' = length l.
Proof.
  induction l; simpl; intros l' H. { inv H; reflexivity. }
  destruct (f a); simpl in H; [|discriminate]. destruct (mapM f l) eqn:E; simpl in H; inv H.
  simpl. f_equal. auto.
Qed.

Lemma mapM_idem : forall (f : pv -> res pv) l l',
  (forall x x', f x = Ok x' -> f x' = Ok x') -> mapM f l = Ok l' -> mapM f l' = Ok l'.
Proof.
  induction l; simpl; intros l' Hf H. { inv H; reflexivity. }
  destruct (f a) eqn:Fa; simpl in H; [|discriminate]. destruct (mapM f l) eqn:E; simpl in H; inv H.
  simpl. rewrite (Hf _ _ Fa). simpl. rewrite (IHl _ Hf eq_refl). reflexivity.
Qed.

Lemma zipM_length : forall f es l l', zipM f es l = Ok l' -> length es = length l -> length l' = length l.
Proof.
  induction es; destruct l; simpl; intros l' H L; try discriminate. { inv H; reflexivity. }
  destruct (f a p); simpl in H; [|discriminate]. destruct (zipM f es l) eqn:E; simpl in H; inv H.
  simpl. f_equal. eauto.
Qed.

Lemma zipM_idem : forall f es l l',
  Forall (fun e => forall x x', f e x = Ok x' -> f e x' = Ok x') es ->
  zipM f es l = Ok l' -> zipM f es l' = Ok l'.
Proof.
  induction es; simpl; intros l l' Hf H. { inv H; reflexivity. }
  destruct l. { inv H; reflexivity. }
  inv Hf.
  destruct (f a p) eqn:Fa; simpl in H; [|discriminate]. destruct (zipM f es l) eqn:E; simpl in H; inv H.
  simpl. rewrite (H2 _ _ Fa). simpl. rewrite (IHes _ _ H3 E). reflexivity.
Qed.

Lemma len_eq : forall {A B} (l : list A) (l' : list B), length l = length l' -> len l = len l'.
Proof. intros. unfold len. congruence. Qed.

Definition idem (p : bool) (s : spec) : Prop := forall v v', apply p s v = Ok v' -> apply p s v' = Ok v'.

Lemma validate_num_same : forall lo hi v v', validate_num lo hi v = Ok v' -> v' = v.
Proof. unfold validate_num. intros. destruct (num_of v); try discriminate. destruct (in_range lo hi z); inv H; auto. Qed.

Lemma idem_leaf : forall p s,
  (forall v v', apply_body p s v = Ok v' -> v' = v) -> idem p s.
Proof.
  intros p s H v v'. rewrite !apply_eq. apply pipeline_idem.
  intros v1 v1' B T. pose proof (H _ _ B); subst. auto.
Qed.

Lemma idem_list : forall p e mn mx m, idem p e -> idem p (SList e mn mx m).
Proof.
  intros p e mn mx m IH v v'. rewrite !apply_eq. apply pipeline_idem.
  intros v1 v1' B T. cbn [apply_body] in *.
  destruct v1; try discriminate.
  destruct (mapM (apply p e) l) as [l'|] eqn:M; simpl in B; [|discriminate].
  destruct (size_ok mn mx (len l')) eqn:S; inv B. split; auto.
  rewrite (mapM_idem _ _ _ IH M). simpl. rewrite S. reflexivity.
Qed.

Lemma idem_tuple : forall p es mn mx m, Forall (idem p) es -> idem p (STuple es mn mx m).
Proof.
  intros p es mn mx m IH v v'. rewrite !apply_eq. apply pipeline_idem.
  intros v1 v1' B T. cbn [apply_body] in *.
  destruct v1; try discriminate.
  destruct (fixed_length mn mx).
  - destruct (len l =? len es) eqn:L; simpl in B; [|discriminate].
    destruct (zipM (apply p) es l) as [l'|] eqn:M; simpl in B; inv B. split; auto.
    assert (LL : length es = length l) by (unfold len in L; lia).
    pose proof (zipM_length _ _ _ _ M LL) as L'.
    replace (len l' =? len es) with true by (unfold len; lia). simpl.
    rewrite (zipM_idem _ _ _ _ IH M). reflexivity.
  - destruct (size_ok mn mx (len l)) eqn:S; simpl in B; [|discriminate].
    destruct es as [|e es'].
    + destruct l; inv B. split; auto. rewrite S. reflexivity.
    + inv IH. destruct (mapM (apply p e) l) as [l'|] eqn:M; simpl in B; inv B. split; auto.
      rewrite (len_eq l' l) by (eapply mapM_length; eauto). rewrite S. simpl.
      rewrite (mapM_idem _ _ _ H1 M). reflexivity.
Qed.

(* ------------------------------------------------------------------------------------------ *)
(** * Idempotence: Bool / Int / Float / Str / Enum / Object / Any / schema-less Dict, and List /
      Tuple (fixed and variable) over them, with any flags and nesting *)

Theorem apply_idempotent_seq : forall s, no_union s = true -> no_schema s = true ->
  forall p v v', apply p s v = Ok v' -> apply p s v' = Ok v'.
Proof.
  induction s using spec_ind'; intros NU NS p; fold (idem p).
  - apply idem_leaf; intros v v' B; inv B; reflexivity.
  - apply idem_leaf; intros v v' B. eapply validate_num_same; eauto.
  - apply idem_leaf; intros v v' B. eapply validate_num_same; eauto.
  - apply idem_leaf; intros v v' B; inv B; reflexivity.
  - apply idem_leaf; intros v v' B. cbn [apply_body] in B. destruct (py_in v vs); inv B; reflexivity.
  - apply idem_list. intros v v'. apply IHs; auto.
  - apply idem_tuple. simpl in NU, NS. rewrite forallb_forall in NU, NS.
    rewrite Forall_forall in *. intros e He v v'. apply H; auto.
  - apply idem_leaf; intros v v' B; inv B; reflexivity.
  - simpl in NS. discriminate.
  - apply idem_leaf; intros v v' B; inv B; reflexivity.
  - simpl in NU. discriminate.
  - apply idem_leaf; intros v v' B; inv B; reflexivity.
Qed.

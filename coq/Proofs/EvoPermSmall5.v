(* EvoPermSmall5.v — the exhaustive check of EvoPermSmall.v for 5 values (14 400 pairs of parent permutations x 10 pairs of
   cutting points / 32 coin-flip sequences).  About 50 s of vm_compute: built by the thorough tier only (not imported by
   Properties/C14.v). *)
From PG Require Import Common.Tactics Model.Geno Model.Evo Proofs.EvoBase Proofs.EvoPermSmall.

Lemma pmx_small5 : check_cut pmx_child 5 = true.
Proof. vm_compute. reflexivity. Qed.
Lemma ox_small5 : check_cut ox_child 5 = true.
Proof. vm_compute. reflexivity. Qed.
Lemma cycle_small5 : check_cycle 5 = true.
Proof. vm_compute. reflexivity. Qed.

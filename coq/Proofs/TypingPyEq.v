(* TypingPyEq.v — Python equality is symmetric; apply returns a value == to a total input
   (specs without Dict schema / Union). *)
From PG Require Import Common.Tactics Model.Typing Proofs.TypingBasics Proofs.TypingApply Proofs.TypingDict
                       Proofs.TypingApplyDict Proofs.TypingCompat.
Local Open Scope Z_scope.
Local Arguments Z.mul : simpl never.

Lemma list_eqb_sym : forall xs ys,
  Forall (fun x => forall y, py_eq x y = true -> py_eq y x = true) xs ->
  list_eqb py_eq xs ys = true -> list_eqb py_eq ys xs = true.
Proof.
  induction xs; destruct ys; simpl; intros F H; try discriminate; auto.
  inv F. apply andb_true_iff in H as [A B]. rewrite (H2 _ A). simpl. auto.
Qed.

Lemma py_eq_sym : forall a b, py_eq a b = true -> py_eq b a = true.
Proof.
  induction a using pv_ind'; intros y HE; pose proof (py_eq_shape _ _ HE) as S; simpl in S.
  - subst. reflexivity.
  - subst. reflexivity.
  - destruct (num_of_some_kind y _ S) as [[x E]|[[x E]|[x E]]]; subst y; simpl in *; inv S; apply Z.eqb_refl.
  - destruct (num_of_some_kind y _ S) as [[x E]|[[x E]|[x E]]]; subst y; simpl in *; inv S; apply Z.eqb_refl.
  - destruct (num_of_some_kind y _ S) as [[x E]|[[x E]|[x E]]]; subst y; simpl in *; inv S; apply Z.eqb_refl.
  - subst. apply py_eq_refl.
  - destruct S as [ys [E L]]. subst. rewrite py_eq_list. apply list_eqb_sym; auto.
  - destruct S as [ys [E L]]. subst. rewrite py_eq_tuple. apply list_eqb_sym; auto.
  - destruct S as [ys [E [L R]]]. subst. rewrite py_eq_dict.
    rewrite Forall_forall in H.
    unfold dict_incl, dict_incl_rev, dict_has in *. rewrite forallb_forall in L, R.
    apply andb_true_iff. split; apply forallb_forall.
    + intros [k' w] I. specialize (R _ I). simpl in R. apply existsb_exists in R as [[k v] [Iv E]]. simpl in E.
      apply andb_true_iff in E as [E1 E2]. simpl. apply existsb_exists. exists (k, v). split; auto. simpl.
      rewrite str_eqb_sym, E1. simpl. apply (H _ Iv). exact E2.
    + intros [k v] I. specialize (L _ I). simpl in L. apply existsb_exists in L as [[k' w] [Iw E]]. simpl in E.
      apply andb_true_iff in E as [E1 E2]. simpl. apply existsb_exists. exists (k', w). split; auto. simpl.
      rewrite str_eqb_sym, E1. simpl. apply (H _ I). exact E2.
  - subst. apply py_eq_refl.
Qed.

Lemma mapM_py_eq : forall (f : pv -> res pv) l l',
  (forall x x', In x l -> f x = Ok x' -> py_eq x x' = true) ->
  mapM f l = Ok l' -> list_eqb py_eq l l' = true.
Proof.
  induction l; simpl; intros l' H M. { inv M. reflexivity. }
  destruct (f a) as [a'|] eqn:Fa; simpl in M; [|discriminate]. destruct (mapM f l) eqn:E; simpl in M; inv M.
  simpl. rewrite (H a a' (or_introl eq_refl) Fa). simpl. apply IHl; auto.
Qed.

Lemma zipM_py_eq : forall (f : spec -> pv -> res pv) es l l',
  length es = length l ->
  (forall e x x', In e es -> In x l -> f e x = Ok x' -> py_eq x x' = true) ->
  zipM f es l = Ok l' -> list_eqb py_eq l l' = true.
Proof.
  induction es as [|e es IHes]; destruct l as [|x l]; simpl; intros l' L H Z; try discriminate. { inv Z. reflexivity. }
  destruct (f e x) as [x'|] eqn:Fa; simpl in Z; [|discriminate]. destruct (zipM f es l) eqn:E; simpl in Z; inv Z.
  simpl. rewrite (H e x x' (or_introl eq_refl) (or_introl eq_refl) Fa). simpl. apply IHes; auto; try lia.
  intros e0 x0 x0' Ie Ix. apply H; right; auto.
Qed.

Lemma coerce_py_eq : forall vt v v1, coerce vt v = Ok v1 -> py_eq v v1 = true.
Proof.
  intros [ts|] v v1; simpl.
  - destruct (isinstance v ts). { intros H; inv H. apply py_eq_refl. }
    unfold convert. destruct (existsb is_float ts); [|discriminate].
    destruct v; simpl; try discriminate; intros H; inv H; simpl; try apply Z.eqb_refl.
  - intros H; inv H. apply py_eq_refl.
Qed.

(* apply returns a value == to its (total) input: specs without Dict schema / Union *)
Lemma apply_py_eq : forall s, no_union s = true -> no_schema s = true ->
  forall p v v', total v = true -> apply p s v = Ok v' -> py_eq v v' = true.
Proof.
  induction s using spec_ind'; intros NU NS p v v' T A; rewrite apply_eq in A;
    (match type of A with pipeline _ ?s0 _ = _ => destruct (frozen (mods_of s0)) eqn:F end;
     [ unfold pipeline in A; rewrite F in A;
       assert (M : is_missing v = false) by (destruct v; auto; discriminate);
       rewrite M in A; cbn [orb] in A;
       match type of A with (if ?c then _ else _) = _ => destruct c eqn:E; inv A end;
       apply py_eq_sym; exact E |]);
    (destruct (type_of v) eqn:TV;
     [ rewrite pipeline_typed in A by congruence;
       match type of A with context [coerce ?vt v] => destruct (coerce vt v) as [v1|] eqn:C end;
       cbn [bind] in A; [|discriminate];
       pose proof (coerce_py_eq _ _ _ C) as E1
     | unfold pipeline in A; rewrite F in A; destruct v; simpl in TV; try discriminate;
       match type of A with (if ?c then _ else _) = _ => destruct c; inv A end; reflexivity ]);
    cbn [apply_body] in A.
  - inv A. exact E1.
  - apply validate_num_same in A. subst. exact E1.
  - apply validate_num_same in A. subst. exact E1.
  - inv A. exact E1.
  - destruct (py_in v1 vs); inv A. exact E1.
  - (* List *)
    simpl in C. destruct (isinstance v [TyList]) eqn:I; simpl in C; [|discriminate]. inv C.
    destruct v1; try discriminate.
    destruct (mapM (apply p s) l) as [l'|] eqn:M; cbn [bind] in A; [|discriminate].
    destruct (size_ok mn mx (len l')); inv A. rewrite py_eq_list.
    simpl in T, NU, NS. rewrite forallb_forall in T.
    eapply mapM_py_eq; [|exact M]. intros x x' Ix Ax. eapply IHs; eauto.
  - (* Tuple *)
    simpl in C. destruct (isinstance v [TyTuple]) eqn:I; simpl in C; [|discriminate]. inv C.
    destruct v1; try discriminate. simpl in T, NU, NS. rewrite forallb_forall in T, NU, NS. rewrite Forall_forall in H.
    destruct (fixed_length mn mx).
    + destruct (len l =? len es) eqn:LL; cbn [negb] in A; [|discriminate].
      destruct (zipM (apply p) es l) as [l'|] eqn:Z; cbn [bind] in A; inv A. rewrite py_eq_tuple.
      eapply zipM_py_eq; [| |exact Z]. { unfold len in LL. lia. }
      intros e x x' Ie Ix Ax. eapply (H e Ie); eauto.
    + destruct (size_ok mn mx (len l)); cbn [negb] in A; [|discriminate].
      destruct es as [|e es'].
      * destruct l; inv A. reflexivity.
      * destruct (mapM (apply p e) l) as [l'|] eqn:M; cbn [bind] in A; inv A. rewrite py_eq_tuple.
        eapply mapM_py_eq; [|exact M]. intros x x' Ix Ax.
        eapply (H e (or_introl eq_refl)); eauto; first [apply NU | apply NS]; left; reflexivity.
  - inv A. exact E1.
  - simpl in NS. discriminate.
  - inv A. exact E1.
  - simpl in NU. discriminate.
  - inv A. exact E1.
Qed.

(* SymCoreC02Nested.v -- rebind with several paths of any length: every entry navigates from the target down to a container
   and writes there; on the erasure this is a nested update of the plain value (pv_query / pv_get / pv_update). *)
From Coq Require Import ZArith NArith List Bool Lia.
Import ListNotations.
From PG Require Import Common.Tactics Model.SymCoreDefs Model.SymCoreOps Model.SymCoreSpec Model.SymCoreC02
     Proofs.SymCoreBase Proofs.SymCoreWF Proofs.SymCoreWFOps Proofs.SymCoreClone Proofs.SymCoreIds Proofs.SymCoreC02Read
     Proofs.SymCoreC02Frame Proofs.SymCoreC02Prim Proofs.SymCoreC02List Proofs.SymCoreC02Items Proofs.SymCoreC02Dict
     Proofs.SymCoreC02Ext Proofs.SymCoreC02Rebind.
From PG Require Model.PyList Model.PyDict.
Local Open Scope Z_scope.

(* ================= A. plain nested values: look-up, navigation, update ========================================================= *)
Fixpoint pv_get (p : list key) (t : pv) : option pv :=
  match p with
  | [] => Some t
  | k :: r => match assoc k (pitems t) with Some c => pv_get r c | None => None end
  end.
(* KeyPath.query on a plain value: the actual keys (negative list indices resolved), None = KeyError *)
Fixpoint pv_query (t : pv) (p : list key) : option (list key) :=
  match p with
  | [] => Some []
  | k :: r =>
      match t with
      | PLeaf _ => None
      | PNode kd its =>
          let k' := match kd, k with
                    | KList, KI z => if (- zlen its <=? z) && (z <? 0) then KI (z + zlen its) else k
                    | _, _ => k
                    end in
          match kd, k with
          | KList, KS _ => None
          | _, _ =>
              match assoc k' its with
              | Some c => match pv_query c r with Some q => Some (k' :: q) | None => None end
              | None => None
              end
          end
      end
  end.
Fixpoint pv_update (p : list key) (f : pv -> pv) (t : pv) : pv :=
  match p with
  | [] => f t
  | k :: r => match t with PLeaf l => PLeaf l | PNode kd its => PNode kd (map_assoc k (pv_update r f) its) end
  end.

Lemma assoc_eitems : forall k its, assoc k (eitems its) = option_map erase (assoc k its).
Proof. induction its as [|[k' v] its IH]; simpl; auto. destruct (key_eqb k k'); auto. Qed.
Lemma pitems_erase : forall n, pitems (erase n) = eitems (nitems n).
Proof. destruct n; reflexivity. Qed.
Lemma erase_get_in : forall p n, option_map erase (get_in p n) = pv_get p (erase n).
Proof.
  induction p as [|k p IH]; intros; simpl; auto.
  rewrite pitems_erase, assoc_eitems. destruct (assoc k (nitems n)); simpl; auto.
Qed.
Lemma zlen_eitems : forall its, zlen (eitems its) = zlen its.
Proof. intros; unfold zlen; rewrite eitems_length; auto. Qed.
Lemma query_path_erase : forall p n, query_path n p = pv_query (erase n) p.
Proof.
  induction p as [|k p IH]; intros; simpl; auto.
  destruct n as [l|i kd pa pt fl its]; simpl; auto.
  rewrite zlen_eitems.
  set (k' := match kd, k with KList, KI z => if (- zlen its <=? z) && (z <? 0) then KI (z + zlen its) else k | _, _ => k end).
  rewrite assoc_eitems.
  assert (E : match assoc k' its with Some c => match query_path c p with Some q0 => Some (k' :: q0) | None => None end | None => None end =
              match option_map erase (assoc k' its) with Some c => match pv_query c p with Some q0 => Some (k' :: q0) | None => None end | None => None end).
  { destruct (assoc k' its); simpl; auto. rewrite IH. auto. }
  destruct kd; [exact E | destruct k; [reflexivity | exact E] | exact E].
Qed.
Lemma eitems_map_assoc : forall k (h : node -> node) (g : pv -> pv) its, (forall c, erase (h c) = g (erase c)) ->
  eitems (map_assoc k h its) = map_assoc k g (eitems its).
Proof.
  induction its as [|[k' v] its IH]; simpl; intros; auto. destruct (key_eqb k k'); simpl; rewrite ?H, ?IH; auto.
Qed.
Definition with_items (X : list (key * pv)) (c : pv) : pv := match c with PNode kd _ => PNode kd X | PLeaf l => PLeaf l end.
Lemma erase_update_in_items : forall p X t, erase (update_in p (set_items X) t) = pv_update p (with_items (eitems X)) (erase t).
Proof.
  induction p as [|k p IH]; intros; simpl.
  - destruct t; reflexivity.
  - destruct t as [l|i kd pa pt fl its]; simpl; auto. f_equal. apply eitems_map_assoc. intros; apply IH.
Qed.
Lemma pv_get_update_same : forall p f t c, pv_get p t = Some c -> pv_get p (pv_update p f t) = Some (f c).
Proof.
  induction p as [|k p IH]; intros; simpl in *. inv H; auto.
  destruct t as [l|kd its]; simpl in *; try discriminate.
  rewrite assoc_map_assoc. destruct (assoc k its); try discriminate. simpl. eauto.
Qed.
Lemma pv_update_app : forall p q f t, pv_update (p ++ q) f t = pv_update p (pv_update q f) t.
Proof.
  induction p as [|k p IH]; intros; simpl; auto. destruct t; auto. f_equal.
  induction items as [|[k' v] its IHi]; simpl; auto. destruct (key_eqb k k'); simpl; rewrite ?IH, ?IHi; auto.
Qed.

(* no container anywhere inside holds the MISSING_VALUE marker *)
Fixpoint pv_dclean (t : pv) : Prop :=
  match t with
  | PLeaf _ => True
  | PNode kd its =>
      Forall (fun kv => snd kv <> PLeaf LMissing) its /\
      (fix all (l : list (key * pv)) : Prop := match l with [] => True | kv :: r => pv_dclean (snd kv) /\ all r end) its
  end.
Lemma pv_dclean_node : forall kd its, pv_dclean (PNode kd its) <->
  Forall (fun kv => snd kv <> PLeaf LMissing) its /\ Forall (fun kv => pv_dclean (snd kv)) its.
Proof.
  intros. simpl. split; intros [A B]; split; auto.
  - clear A. induction its; simpl in *; auto. destruct B. constructor; auto.
  - clear A. induction B; simpl; auto.
Qed.
Lemma assoc_in' : forall A k (l : list (key * A)) v, assoc k l = Some v -> exists k', In (k', v) l.
Proof. induction l as [|[k' v'] l IH]; simpl; intros; try discriminate. destruct (key_eqb k k'). inv H; eauto. destruct (IH _ H); eauto. Qed.
Lemma pv_dclean_get : forall p t c, pv_dclean t -> pv_get p t = Some c -> pv_dclean c.
Proof.
  induction p as [|k p IH]; intros; simpl in *. inv H0; auto.
  destruct t as [l|kd its]; simpl in H0; try discriminate.
  destruct (assoc k its) as [c0|] eqn:A; try discriminate.
  apply pv_dclean_node in H. destruct H as [_ F]. destruct (assoc_in' _ _ _ _ A) as [k' I].
  rewrite Forall_forall in F. apply (IH c0); auto. apply (F (k', c0)); auto.
Qed.
Lemma pv_dclean_update : forall p g t, pv_dclean t ->
  (forall c, pv_get p t = Some c -> pv_dclean (g c) /\ (p <> [] -> g c <> PLeaf LMissing)) -> pv_dclean (pv_update p g t).
Proof.
  induction p as [|k p IH]; intros; simpl.
  - apply H0; auto.
  - destruct t as [l|kd its]; auto. apply pv_dclean_node in H. destruct H as [A B]. apply pv_dclean_node.
    assert (G : forall c, assoc k its = Some c -> pv_dclean (pv_update p g c) /\ (c <> PLeaf LMissing -> pv_update p g c <> PLeaf LMissing)).
    { intros c AS. split.
      - destruct (assoc_in' _ _ _ _ AS) as [k' I]. rewrite Forall_forall in B. apply IH. apply (B (k', c)); auto.
        intros c1 G1. destruct (H0 c1) as [D1 D2]. simpl. rewrite AS. auto. split; auto. intros _. apply D2. discriminate.
      - intros NM. destruct p; simpl.
        + destruct (H0 c) as [_ D2]. simpl. rewrite AS. auto. apply D2. discriminate.
        + destruct c; auto; discriminate. }
    clear H0 IH. split.
    + clear B. induction its as [|[k' v] its IHi]; simpl in *; auto. inv A.
      destruct (key_eqb k k') eqn:KE; constructor; simpl; auto;
        first [ apply G; auto; fail | apply IHi; auto; intros c AS; apply G; auto ].
    + clear A. induction its as [|[k' v] its IHi]; simpl in *; auto. inv B.
      destruct (key_eqb k k') eqn:KE; constructor; simpl; auto;
        first [ apply G; auto; fail | apply IHi; auto; intros c AS; apply G; auto ].
Qed.

(* ================= B. what a write does to the root that holds the container ===================================================== *)
Definition root_upd (st : state) (cp : pos) (st' : state) : Prop :=
  exists X, forall t, get_root st (fst cp) = Some t -> get_root st' (fst cp) = Some (update_in (snd cp) (set_items X) t).
(* values whose formalisation leaves the roots alone: leaves and literals, possibly inside an insertion marker *)
Definition literal_rv (rv : rvalue) : Prop :=
  match rv with RLeaf _ | RLit _ => True | RIns (RLeaf _) | RIns (RLit _) => True | _ => False end.
Lemma formalize_literal_roots : forall q sc st r ck cid cfl tp ins rv nw st1,
  (match rv with RLeaf _ | RLit _ => True | _ => False end) -> formalize q sc st r ck cid cfl tp ins rv = (nw, st1) -> roots st1 = roots st.
Proof.
  intros. destruct rv; try contradiction; simpl in H0.
  - inv H0; auto.
  - destruct (build _ _ _ _ _). inv H0. reflexivity.
Qed.
Lemma root_upd_same : forall st cp n, get_at st cp = Some n -> is_node n = true -> root_upd st cp st.
Proof.
  intros. exists (nitems n). intros t G. rewrite G. f_equal. symmetry. apply update_in_id. intros c GI.
  unfold get_at in H. rewrite G in H. rewrite GI in H. inv H. destruct n; simpl in *; auto; discriminate.
Qed.
Lemma root_upd_here : forall st st1 cp X old, roots st1 = roots st -> root_upd st cp (add_detached (update_at st1 cp (set_items X)) old).
Proof.
  intros. exists X. intros t G. apply keeps_roots_add_detached. unfold update_at.
  rewrite (same_roots_get_root _ _ _ H), G. apply get_root_set_root_same.
  rewrite <- (same_roots_get_root _ _ _ H) in G. eapply get_root_lt; eauto.
Qed.
Lemma root_upd_here' : forall st st1 cp X, roots st1 = roots st -> root_upd st cp (update_at st1 cp (set_items X)).
Proof.
  intros. exists X. intros t G. unfold update_at.
  rewrite (same_roots_get_root _ _ _ H), G. apply get_root_set_root_same.
  rewrite <- (same_roots_get_root _ _ _ H) in G. eapply get_root_lt; eauto.
Qed.

Lemma lprim_root_upd : forall q sc st cp cid pa pt fl its k rv st' p,
  get_at st cp = Some (Node cid KList pa pt fl its) -> literal_rv rv -> lprim q sc st cp k rv = (st', p) -> root_upd st cp st'.
Proof.
  intros q sc st cp cid pa pt fl its k rv st' p G LV E. unfold lprim in E. rewrite G in E.
  assert (SAME : root_upd st cp st) by (eapply root_upd_same; eauto).
  destruct k as [s|z]; [inv E; auto|].
  destruct ((z >=? zlen its) && is_missing_rv rv); [inv E; auto|].
  destruct rv as [l|l|i|v]; simpl in LV; try contradiction;
    try (destruct v as [l'|l'|i'|v']; try contradiction); cbv iota beta in E;
    repeat match type of E with
           | (if ?b then _ else _) = _ => destruct b
           | match nth_error ?a ?b with _ => _ end = _ => destruct (nth_error a b) as [[? ?]|]
           | (let '(_, _) := formalize ?a ?b ?c ?d ?e ?f ?g ?h ?i ?j in _) = _ =>
               let F := fresh "F" in destruct (formalize a b c d e f g h i j) as [? ?] eqn:F;
               apply formalize_literal_roots in F; [|exact I]
           end; inv E; auto using root_upd_here, root_upd_here'.
Qed.
Lemma dprim_root_upd : forall q sc st cp cid pa pt fl its k rv st' p,
  get_at st cp = Some (Node cid KDict pa pt fl its) -> literal_rv rv -> dprim q sc st cp k rv = (st', p) -> root_upd st cp st'.
Proof.
  intros q sc st cp cid pa pt fl its k rv st' p G LV E. unfold dprim in E. rewrite G in E.
  assert (SAME : root_upd st cp st) by (eapply root_upd_same; eauto).
  destruct (same_obj _ rv); [inv E; auto|].
  destruct (is_missing_rv rv). { inv E. apply root_upd_here; auto. }
  destruct rv as [l|l|i|v]; simpl in LV; try contradiction.
  - simpl in E. inv E. apply root_upd_here; auto.
  - destruct (formalize q sc st (fst cp) KDict cid fl (pt ++ [k]) false (RLit l)) as [nw st1] eqn:F.
    apply formalize_literal_roots in F; [|exact I]. inv E. apply root_upd_here; auto.
  - simpl in E. inv E. apply root_upd_here; auto.
Qed.

(* ================= C. a root that is clean at every depth ============================================================================= *)
Definition root_dclean (st : state) (r : nat) : Prop := forall t, get_root st r = Some t -> pv_dclean (erase t).
Lemma eitems_clean : forall its, Forall (fun kv : key * pv => snd kv <> PLeaf LMissing) (eitems its) -> clean its.
Proof.
  unfold clean, eitems. induction its as [|[k c] its IH]; simpl; intros; auto. inv H. constructor; auto.
  simpl in *. rewrite is_missing_erase. destruct (erase c) as [[]|]; auto. congruence.
Qed.
Lemma clean_eitems_ne : forall its, clean its -> Forall (fun kv : key * pv => snd kv <> PLeaf LMissing) (eitems its).
Proof.
  unfold clean, eitems. induction 1; simpl; constructor; auto. simpl. rewrite is_missing_erase in H.
  destruct (erase (snd x)) as [[]|]; try discriminate; congruence.
Qed.
Lemma get_at_app : forall st r p q n, get_at st (r, p) = Some n -> get_at st (r, p ++ q) = get_in q n.
Proof.
  unfold get_at; simpl; intros. destruct (get_root st r); try discriminate. rewrite get_in_app, H. auto.
Qed.
Lemma dclean_at : forall st r p n, root_dclean st r -> get_at st (r, p) = Some n -> pv_dclean (erase n).
Proof.
  unfold get_at; simpl; intros. destruct (get_root st r) as [t|] eqn:G; try discriminate.
  eapply pv_dclean_get. apply (H _ G). rewrite <- erase_get_in, H0. reflexivity.
Qed.
Lemma dclean_clean_at : forall st r p i k pa pt fl its, root_dclean st r -> get_at st (r, p) = Some (Node i k pa pt fl its) -> clean its.
Proof.
  intros. pose proof (dclean_at _ _ _ _ H H0) as D. rewrite erase_node in D. apply pv_dclean_node in D.
  destruct D as [A _]. apply eitems_clean. auto.
Qed.
Lemma dclean_anc_clean : forall st ps, root_dclean st (fst ps) -> anc_clean st ps.
Proof. unfold anc_clean; intros. eapply (dclean_clean_at st (fst ps) pre i KList); eauto. Qed.
Lemma pv_update_ext_at : forall p f g t c, pv_get p t = Some c -> f c = g c -> pv_update p f t = pv_update p g t.
Proof.
  induction p as [|k p IH]; intros; simpl in *. inv H; auto.
  destruct t as [l|kd its]; simpl in *; auto. f_equal.
  destruct (assoc k its) as [c0|] eqn:A; try discriminate.
  clear - IH A H H0. induction its as [|[k' v] its IHi]; simpl in *; try discriminate.
  destruct (key_eqb k k'). inv A. f_equal. f_equal. eauto. f_equal. auto.
Qed.

(* a valid literal is clean at every depth *)
Lemma plit_items_dclean : forall k its i,
  Forall (fun kv : key * lit => lit_valid (snd kv) = true /\ pv_dclean (plit (snd kv))) its ->
  Forall (fun kv : key * pv => snd kv <> PLeaf LMissing) (plit_items k its i) /\ Forall (fun kv => pv_dclean (snd kv)) (plit_items k its i).
Proof.
  induction its as [|[kk c] its IH]; simpl; intros; auto. inv H. destruct H2 as [V D]. destruct (IH (i + 1) H3). simpl in *.
  split; constructor; auto. simpl. destruct c as [lf|]; simpl in *; try discriminate. destruct lf; simpl in *; congruence.
Qed.
Lemma plit_dclean : forall l, lit_valid l = true -> pv_dclean (plit l).
Proof.
  induction l using lit_ind'; intros V. simpl; auto.
  rewrite plit_node. apply pv_dclean_node. simpl in V. apply andb_true_iff in V. destruct V as [_ V].
  assert (F : Forall (fun kv : key * lit => lit_valid (snd kv) = true /\ pv_dclean (plit (snd kv))) its).
  { rewrite forallb_forall in V. rewrite Forall_forall in *. intros kv I. split; auto. }
  destruct (plit_items_dclean k its 0 F). split; auto.
Qed.
Lemma prv_dclean : forall rv, plain_rv rv -> pv_dclean (prv rv) /\ prv rv <> PLeaf LMissing.
Proof.
  destruct rv; simpl; intros; try contradiction.
  - split; auto. destruct l; simpl in *; congruence.
  - destruct l; try contradiction. split. apply plit_dclean; auto. rewrite plit_node. discriminate.
Qed.

(* ================= D. one entry of the batch, on the plain value ========================================================================= *)
(* None: outside the comparison (a string key on a list, an insertion marker written into a dict, a container that is not a
   list / dict) *)
Definition py_entry (t : pv) (path : list key) (w : lw) : option (pv + PyList.pyerr) :=
  match path with
  | [] => Some (inr PyList.PyKeyError)
  | _ =>
      match pv_query t (removelast path) with
      | None => Some (inr PyList.PyKeyError)
      | Some app =>
          match pv_get app t with
          | Some (PNode KList its) =>
              match last path (KI 0) with
              | KI z => match py_lwrite (map snd its) z w with
                        | inl l' => Some (inl (pv_update app (fun _ => plist l') t))
                        | inr e => Some (inr e)
                        end
              | KS _ => None
              end
          | Some (PNode KDict its) =>
              match w with
              | LWVal v => Some (inl (pv_update app (fun _ => PNode KDict (PyDict.dset key_eqb (last path (KI 0)) v its)) t))
              | LWIns _ => None
              end
          | _ => None
          end
      end
  end.
Definition good (v : pv) : Prop := pv_dclean v /\ v <> PLeaf LMissing.
Lemma Forall_replace_nth : forall A (P : A -> Prop) l p x, Forall P l -> P x -> Forall P (PyList.replace_nth p x l).
Proof. induction l; destruct p; simpl; intros; auto; inv H; constructor; auto. Qed.
Lemma Forall_firstn' : forall A (P : A -> Prop) n l, Forall P l -> Forall P (firstn n l).
Proof. induction n; destruct l; simpl; intros; auto. inv H. constructor; auto. Qed.
Lemma Forall_skipn' : forall A (P : A -> Prop) n l, Forall P l -> Forall P (skipn n l).
Proof. induction n; destruct l; simpl; intros; auto. inv H. auto. Qed.
Lemma py_lwrite_good : forall l z w l', Forall good l -> good (match w with LWVal v => v | LWIns v => v end) -> py_lwrite l z w = inl l' -> Forall good l'.
Proof.
  intros. destruct w; simpl in *.
  - destruct (z >=? PyList.len l). inv H1. apply Forall_app; auto.
    destruct (z <? - PyList.len l); inv H1. apply Forall_replace_nth; auto.
  - inv H1. unfold PyList.insert. apply Forall_app. split. apply Forall_firstn'; auto. constructor; auto. apply Forall_skipn'; auto.
Qed.
Lemma plist_dclean : forall l, Forall good l -> pv_dclean (plist l).
Proof.
  intros. unfold plist. apply pv_dclean_node. generalize 0.
  induction H; intros; simpl; split; try constructor; simpl; try apply H; try apply (IHForall (z + 1)).
Qed.
Lemma good_items : forall kd its, pv_dclean (PNode kd its) -> Forall good (map snd its).
Proof.
  intros. apply pv_dclean_node in H. destruct H as [A B].
  induction its; simpl; auto. inv A. inv B. constructor; auto. split; auto.
Qed.
Lemma dset_dclean : forall k v its, pv_dclean (PNode KDict its) -> good v -> pv_dclean (PNode KDict (PyDict.dset key_eqb k v its)).
Proof.
  intros k v its H [G1 G2]. apply pv_dclean_node in H. destruct H as [A B]. apply pv_dclean_node. split.
  - clear B. induction its as [|[k' v'] its IH]; simpl. constructor; auto. inv A. destruct (key_eqb k k'); constructor; auto.
  - clear A. induction its as [|[k' v'] its IH]; simpl. constructor; auto. inv B. destruct (key_eqb k k'); constructor; auto.
Qed.

Section Nested.
Variables (q : quirks) (sc : scope) (tp : pos).

(* value of an entry: plain, possibly inside an insertion marker *)
Definition val_ok (rv : rvalue) : Prop := match rv with RIns v => plain_rv v | v => plain_rv v end.
Definition val_w (rv : rvalue) : lw := match rv with RIns v => LWIns (prv v) | v => LWVal (prv v) end.
Lemma val_ok_literal : forall rv, val_ok rv -> literal_rv rv /\ rv_ok rv.
Proof.
  destruct rv as [l|l|i|v]; simpl; intros; try contradiction; auto.
  - split; auto. destruct l; auto; contradiction.
  - destruct v as [l|l|i|v']; simpl in *; try contradiction; auto. split; auto. destruct l; auto; contradiction.
Qed.

Lemma rebind_one_nested : forall st T path rv st' p c r,
  WFI st -> get_at st tp = Some T -> is_node T = true -> root_dclean st (fst tp) -> val_ok rv ->
  rebind_one q sc st tp path rv = (st', p, c) -> p <> PErr EWrite ->
  py_entry (erase T) path (val_w rv) = Some r ->
  match r with
  | inl t' => (p = PNone \/ p = PUpd) /\ WFI st' /\ root_dclean st' (fst tp) /\
              exists T', get_at st' tp = Some T' /\ is_node T' = true /\ erase T' = t'
  | inr e => p = PErr (err_of e) /\ st' = st
  end.
Proof.
  intros st T path rv st' p c r W GT NT DC VO E NW PY.
  destruct (val_ok_literal _ VO) as [LIT OK].
  unfold rebind_one in E. unfold py_entry in PY.
  destruct path as [|k0 path0]; [inv E; inv PY; auto|]. set (path := k0 :: path0) in *.
  rewrite GT in E. rewrite query_path_erase in E.
  destruct (pv_query (erase T) (removelast path)) as [app|] eqn:Q; [|inv E; inv PY; auto].
  set (cp := (fst tp, snd tp ++ app)) in *.
  assert (GC : get_at st cp = get_in app T).
  { unfold cp. rewrite (surjective_pairing tp) in GT. apply get_at_app. exact GT. }
  rewrite GC in E. rewrite <- erase_get_in in PY.
  destruct (get_in app T) as [C|] eqn:GA; simpl in PY; [|discriminate].
  destruct C as [lf|cid ck cpa cpt cfl cits]; simpl in PY; [discriminate|].
  destruct (treats_as_sealed sc cfl) eqn:SL; [inv E; congruence|].
  destruct (container_facts _ _ _ _ _ _ _ _ (proj1 W) GC) as (EPT & _ & _). subst cpt.
  assert (DCP : root_dclean st (fst cp)) by exact DC.
  pose proof (dclean_anc_clean st cp DCP) as AC.
  destruct (get_at_root_some _ _ _ GT) as [t GR].
  (* the root after the write, the target after the write *)
  assert (AFTER : forall st1 X, root_upd st cp st1 -> at_is st1 cp cid ck cpa cfl X -> 
            get_root st1 (fst tp) = Some (update_in (snd cp) (set_items X) t) /\
            get_at st1 tp = Some (update_in app (set_items X) T)).
  { intros st1 X (X0 & RU) A1. unfold cp in *. cbn [fst snd] in *. specialize (RU _ GR).
    assert (X0 = X).
    { unfold at_is, get_at in A1. cbn [fst snd] in A1. rewrite RU in A1.
      pose proof (get_in_update_in_prefix (snd tp ++ app) [] (set_items X0) t) as GP. rewrite app_nil_r in GP. rewrite GP in A1.
      unfold get_at in GC. cbn [fst snd] in GC. rewrite GR in GC. rewrite GC in A1. simpl in A1. inv A1. auto. }
    subst X0. split; auto. unfold get_at. rewrite RU. rewrite get_in_update_in_prefix.
    unfold get_at in GT. rewrite GR in GT. rewrite GT. reflexivity. }
  destruct (prim q sc st cp (last path (KI 0)) rv) as [st1 p1] eqn:PR. inversion E; subst st' p c; clear E.
  unfold prim in PR. rewrite GC in PR.
  destruct ck as [| |cls]; [| |discriminate].
  - (* a dict *)
    destruct (val_w rv) as [v|v] eqn:VW; [|discriminate]. inv PY.
    assert (PV : plain_rv rv /\ prv rv = v).
    { destruct rv; simpl in *; try contradiction; inv VW; auto. }
    destruct PV as [PV EV]. subst v.
    pose proof (dclean_at _ _ _ _ DCP GC) as DCC.
    pose proof (dclean_clean_at _ _ _ _ _ _ _ _ _ DCP GC) as CC.
    destruct (dprim_set q sc st cp cid cpa cfl cits GC CC AC (proj1 W) (last path (KI 0)) rv st1 p1 PV PR)
      as (PP & X & A1 & C1 & E1 & K1 & AC1 & WS1).
    pose proof (dprim_root_upd _ _ _ _ _ _ _ _ _ _ _ _ _ GC LIT PR) as RU.
    destruct (AFTER st1 X RU A1) as [GR1 GT1].
    assert (W1 : WFI st1) by (eapply WFI_step; [exact W|exact WS1|eapply dprim_ids; eauto]).
    split; auto. split; auto. split.
    + intros t1 G1. change (fst cp) with (fst tp) in GR1. rewrite GR1 in G1. inv G1.
      rewrite erase_update_in_items. apply pv_dclean_update. apply (DC _ GR).
      intros c0 G0. pose proof GC as GC'. unfold get_at, cp in GC'. cbn [fst snd] in GC'. rewrite GR in GC'.
      rewrite <- erase_get_in, GC' in G0. inv G0. simpl. split; [|discriminate].
      rewrite E1. apply dset_dclean. rewrite <- erase_node with (i := cid) (pa := cpa) (pt := snd cp) (fl := cfl). auto.
      apply prv_dclean; auto.
    + exists (update_in app (set_items X) T). split; auto. split.
      * destruct app; destruct T; simpl in *; auto; discriminate.
      * rewrite erase_update_in_items. eapply pv_update_ext_at. rewrite <- erase_get_in, GA. reflexivity.
        simpl. rewrite E1. reflexivity.
  - (* a list *)
    change (match path0 with [] => k0 | _ :: _ => last path0 (KI 0) end) with (last path (KI 0)) in PY.
    destruct (last path (KI 0)) as [s|z] eqn:LK; [discriminate|].
    pose proof (dclean_clean_at _ _ _ _ _ _ _ _ _ DCP GC) as CC.
    rewrite pvals_eitems in PY.
    assert (STEP : match py_lwrite (evals cits) z (val_w rv) with
                   | inl l1 => (p1 = PNone \/ p1 = PUpd) /\ wrote st cp cid cpa cfl st1 l1
                   | inr e1 => p1 = PErr (err_of e1) /\ st1 = st
                   end).
    { unfold val_w. destruct rv as [l|l|i|v]; simpl in VO; try contradiction; unfold py_lwrite; rewrite ?len_evals.
      - destruct (z >=? zlen cits) eqn:GE.
        + destruct (lprim_append q sc st cp cid cpa cfl cits GC CC AC (proj1 W) z (RLeaf l) st1 p1 (plain_storable (RLeaf l) VO) ltac:(lia) PR); auto.
        + destruct (z <? - zlen cits) eqn:LT.
          * rewrite (lprim_below q sc cp cid cpa cfl st cits z (RLeaf l) GC (VO : plain_rv (RLeaf l)) ltac:(lia)) in PR. inv PR. auto.
          * destruct (lprim_replace q sc st cp cid cpa cfl cits GC CC AC (proj1 W) z (RLeaf l) st1 p1 (VO : plain_rv (RLeaf l)) ltac:(lia) PR); auto.
      - destruct (z >=? zlen cits) eqn:GE.
        + destruct (lprim_append q sc st cp cid cpa cfl cits GC CC AC (proj1 W) z (RLit l) st1 p1 (plain_storable (RLit l) VO) ltac:(lia) PR); auto.
        + destruct (z <? - zlen cits) eqn:LT.
          * rewrite (lprim_below q sc cp cid cpa cfl st cits z (RLit l) GC (VO : plain_rv (RLit l)) ltac:(lia)) in PR. inv PR. auto.
          * destruct (lprim_replace q sc st cp cid cpa cfl cits GC CC AC (proj1 W) z (RLit l) st1 p1 (VO : plain_rv (RLit l)) ltac:(lia) PR); auto.
      - destruct (lprim_insert q sc st cp cid cpa cfl cits GC CC AC (proj1 W) z v st1 p1 (plain_storable v VO) PR); auto. }
    destruct (py_lwrite (evals cits) z (val_w rv)) as [l1|e1] eqn:PW; inv PY; [|destruct STEP; subst; auto].
    destruct STEP as (PP & X & A1 & C1 & E1 & K1 & AC1 & WS1).
    pose proof (lprim_root_upd _ _ _ _ _ _ _ _ _ _ _ _ _ GC LIT PR) as RU.
    destruct (AFTER st1 X RU A1) as [GR1 GT1].
    assert (W1 : WFI st1) by (eapply lprim_WFI; eauto).
    assert (EX : eitems X = pitems (plist l1)).
    { destruct (container_facts _ _ _ _ _ _ _ _ WS1 A1) as (_ & KP & _). simpl in KP. rewrite (eitems_positions X 0 KP), E1. reflexivity. }
    pose proof (dclean_at _ _ _ _ DCP GC) as DCC. rewrite erase_node in DCC.
    assert (GL : Forall good l1).
    { eapply py_lwrite_good; [|  |exact PW]. rewrite <- pvals_eitems. apply (good_items KList); auto.
      unfold val_w. destruct rv as [l|l|i|v]; simpl in VO; try contradiction; apply prv_dclean; auto. }
    split; auto. split; auto. split.
    + intros t1 G1. change (fst cp) with (fst tp) in GR1. rewrite GR1 in G1. inv G1.
      rewrite erase_update_in_items. apply pv_dclean_update. apply (DC _ GR).
      intros c0 G0. pose proof GC as GC'. unfold get_at, cp in GC'. cbn [fst snd] in GC'. rewrite GR in GC'.
      rewrite <- erase_get_in, GC' in G0. inv G0. simpl. split; [|discriminate].
      rewrite EX. apply plist_dclean. exact GL.
    + exists (update_in app (set_items X) T). split; auto. split.
      * destruct app; destruct T; simpl in *; auto; discriminate.
      * rewrite erase_update_in_items. eapply pv_update_ext_at. rewrite <- erase_get_in, GA. reflexivity.
        simpl. rewrite EX. reflexivity.
Qed.
End Nested.

(* ================= E. the batch ============================================================================================================= *)
Fixpoint py_batch (t : pv) (es : list (list key * lw)) : option (pv * option PyList.pyerr) :=
  match es with
  | [] => Some (t, None)
  | (p, w) :: r =>
      match py_entry t p w with
      | None => None
      | Some (inl t') => py_batch t' r
      | Some (inr e) => Some (t, Some e)
      end
  end.

(* change notification leaves a root that is clean at every depth alone *)
Lemma fix_chain_keeps_root : forall st ps r, wfs st -> root_dclean st r -> get_root (fix_chain st ps) r = get_root st r.
Proof.
  intros st [r0 p] r W D. destruct (Nat.eq_dec r0 r).
  - subst r0. rewrite fix_chain_id; auto. intros. eapply (dclean_clean_at st r pre i KList); eauto.
  - unfold fix_chain. simpl. generalize (prefixes_desc p). intros l. revert st W D.
    induction l; simpl; intros; auto. rewrite IHl.
    + apply get_root_update_at_other; auto.
    + apply wfs_update_at_total; auto. intros; apply purge_list_wf; auto. intros; apply is_node_purge_list.
    + red; intros t G. rewrite get_root_update_at_other in G; auto.
Qed.
Lemma fix_chains_keeps_root : forall u st r, WFI st -> root_dclean st r ->
  get_root (fix_chains st u) r = get_root st r /\ WFI (fix_chains st u).
Proof.
  unfold fix_chains. induction u; simpl; intros; auto.
  destruct (locate st a) as [ps|].
  - assert (W1 : WFI (fix_chain st ps)).
    { eapply WFI_step; [exact H|apply fix_chain_wfs; apply H|apply fix_chain_rel]. }
    assert (G1 : get_root (fix_chain st ps) r = get_root st r) by (apply fix_chain_keeps_root; auto; apply H).
    destruct (IHu (fix_chain st ps) r W1) as [A B]. { red; intros t G. rewrite G1 in G. auto. }
    split; auto. rewrite A. auto.
  - apply IHu; auto.
Qed.

Section NestedBatch.
Variables (q : quirks) (sc : scope) (tp : pos).

Definition entries (pvs : list (list key * rvalue)) : list (list key * lw) := map (fun pv0 => (fst pv0, val_w (snd pv0))) pvs.

Lemma rebind_nested_loop : forall pvs st T upd st' u e res,
  WFI st -> get_at st tp = Some T -> is_node T = true -> root_dclean st (fst tp) -> Forall (fun pv0 => val_ok (snd pv0)) pvs ->
  rebind_loop q sc st tp pvs upd = (st', u, e) -> e <> Some EWrite ->
  py_batch (erase T) (entries pvs) = Some res ->
  WFI st' /\ root_dclean st' (fst tp) /\ (exists T', get_at st' tp = Some T' /\ is_node T' = true /\ erase T' = fst res) /\
  e = option_map err_of (snd res).
Proof.
  induction pvs as [|[path rv] pvs IH]; intros st T upd st' u e res W GT NT DC F E NW PY; simpl in E, PY.
  - inv E. inv PY. simpl. split; auto. split; auto. split; eauto.
  - inv F. simpl in H1.
    destruct (rebind_one q sc st tp path rv) as [[st1 p] c] eqn:RO.
    destruct (py_entry (erase T) path (val_w rv)) as [r|] eqn:PE; [|discriminate].
    assert (NP : p <> PErr EWrite).
    { intro EP. subst p. inv E. congruence. }
    pose proof (rebind_one_nested q sc tp st T path rv st1 p c r W GT NT DC H1 RO NP PE) as ST.
    destruct r as [t'|e1].
    + destruct ST as (PP & W1 & DC1 & T' & GT1 & NT1 & ET).
      assert (exists upd', rebind_loop q sc st1 tp pvs upd' = (st', u, e)).
      { destruct PP; subst p; eauto. destruct c; eauto. }
      destruct H as [upd' E']. rewrite <- ET in PY.
      eapply IH; eauto.
    + destruct ST as [EP ES]. subst p st1. inv E. inv PY. simpl. split; auto. split; auto. split; eauto.
Qed.

(* x.rebind({path1: v1, path2: v2, ...}) with paths of any length, on a list (entries sorted from the highest path down) or a
   dict (entries in the given order): every entry navigates to its container and writes there as list / dict do *)
Theorem exec_rebind_nested_refines : forall st tid tk pa fl its pvs st' out res,
  WFI st -> get_at st tp = Some (Node tid tk pa (snd tp) fl its) -> (tk = KList \/ tk = KDict) -> root_dclean st (fst tp) ->
  Forall (fun pv0 => val_ok (snd pv0)) pvs -> pvs <> [] ->
  exec q sc st tp tid tk (snd tp) fl its (Rebind pvs) = (st', out) -> out <> Err EWrite ->
  py_batch (erase (Node tid tk pa (snd tp) fl its)) (entries (match tk with KList => sort_desc pvs | _ => pvs end)) = Some res ->
  WFI st' /\ root_dclean st' (fst tp) /\
  (exists T', get_at st' tp = Some T' /\ erase T' = fst res) /\
  out = match snd res with None => Ok RNone | Some e => Err (err_of e) end.
Proof.
  intros st tid tk pa fl its pvs st' out res W GT TK DC F NE E NW PY. unfold exec in E.
  assert (E2 : rebind_core q sc st tp tk pvs (notify_on sc) = (st', out)).
  { destruct pvs; [congruence|]. destruct TK; subst tk; exact E. }
  clear E. unfold rebind_core in E2.
  set (ordered := match tk with KList => sort_desc pvs | _ => pvs end) in *.
  assert (FO : Forall (fun pv0 : list key * rvalue => val_ok (snd pv0)) ordered).
  { unfold ordered. destruct tk; auto. apply sort_desc_forall; auto. }
  destruct (rebind_loop q sc st tp ordered []) as [[st1 u] e] eqn:L.
  assert (NE' : e <> Some EWrite) by (intro; subst e; inv E2; congruence).
  destruct (rebind_nested_loop ordered st _ [] st1 u e res W GT eq_refl DC FO L NE' PY) as (W1 & DC1 & (T' & GT1 & NT1 & ET) & EE).
  destruct (snd res) as [pe|]; simpl in EE; subst e; inv E2.
  - split; auto. split; auto. split; eauto.
  - destruct (notify_on sc).
    + destruct (fix_chains_keeps_root u st1 (fst tp) W1 DC1) as [GR WF].
      split; auto. split. { red; intros t G. rewrite GR in G. auto. }
      split; auto. exists T'. split; auto. unfold get_at in *. rewrite GR. auto.
    + split; auto. split; auto. split; eauto.
Qed.
End NestedBatch.

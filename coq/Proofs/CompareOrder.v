(* CompareOrder.v — order theory used by the C06 proofs: three-way comparisons that are total orders,
   their lexicographic combination, and the normal-form tree order [ncmp] to which pg.eq / pg.lt are
   later shown to reduce.  Everything here is unconditional (no hypothesis on the rank table). *)
From PG Require Import Common.Tactics Common.Tr Gen.TypeOrder Model.Compare.
From Coq Require Import QArith.
Close Scope Q_scope.

(* r is what transitivity forces for (x ? z) given a = (x ? y) and b = (y ? z) *)
Definition trans_ok (a b r : comparison) : Prop :=
  match a, b with
  | Eq, _ => r = b
  | _, Eq => r = a
  | Lt, Lt => r = Lt
  | Gt, Gt => r = Gt
  | _, _ => True
  end.

Definition cthen (a b : comparison) : comparison := match a with Eq => b | o => o end.

Lemma cthen_opp a b : CompOpp (cthen a b) = cthen (CompOpp a) (CompOpp b).
Proof. destruct a; reflexivity. Qed.

Lemma cthen_trans a1 b1 r1 a2 b2 r2 :
  trans_ok a1 b1 r1 -> (a1 = Eq -> b1 = Eq -> trans_ok a2 b2 r2) ->
  trans_ok (cthen a1 a2) (cthen b1 b2) (cthen r1 r2).
Proof.
  destruct a1, b1; simpl; intros H1 H2; subst; simpl; auto;
    try (specialize (H2 eq_refl eq_refl)); destruct a2, b2; simpl in *; subst; auto.
Qed.

Lemma trans_ok_eq a b r : trans_ok a b r -> a = Eq -> b = Eq -> r = Eq.
Proof. intros H -> ->. exact H. Qed.
Lemma trans_ok_lt a b r : trans_ok a b r -> a = Lt -> b = Lt -> r = Lt.
Proof. intros H -> ->. exact H. Qed.
Lemma trans_ok_eq_l a b r : trans_ok a b r -> a = Eq -> r = b.
Proof. intros H ->. exact H. Qed.
Lemma trans_ok_eq_r a b r : trans_ok a b r -> b = Eq -> r = a.
Proof. intros H ->. destruct a; exact H. Qed.

(* ---- base orders ------------------------------------------------------------------------- *)
Lemma N_cmp_refl x : N.compare x x = Eq. Proof. apply N.compare_refl. Qed.
Lemma N_cmp_antisym x y : N.compare y x = CompOpp (N.compare x y). Proof. apply N.compare_antisym. Qed.
Lemma N_cmp_trans x y z : trans_ok (N.compare x y) (N.compare y z) (N.compare x z).
Proof.
  destruct (N.compare_spec x y), (N.compare_spec y z); simpl; subst; auto;
    try (apply N.compare_lt_iff; lia); try (apply N.compare_gt_iff; lia);
    try (symmetry; apply N.compare_lt_iff; lia); try (symmetry; apply N.compare_gt_iff; lia).
  all: try (apply N.compare_refl).
Qed.
Lemma Z_cmp_trans x y z : trans_ok (Z.compare x y) (Z.compare y z) (Z.compare x z).
Proof.
  destruct (Z.compare_spec x y), (Z.compare_spec y z); simpl; subst; auto;
    try (apply Z.compare_lt_iff; lia); try (apply Z.compare_gt_iff; lia).
  all: try (apply Z.compare_refl).
Qed.

Lemma Q_cmp_refl p : Qcompare p p = Eq. Proof. apply Qeq_alt. reflexivity. Qed.
Lemma Q_cmp_antisym p q : Qcompare q p = CompOpp (Qcompare p q). Proof. symmetry. apply Qcompare_antisym. Qed.
Lemma Q_cmp_trans p q r : trans_ok (Qcompare p q) (Qcompare q r) (Qcompare p r).
Proof.
  destruct (Qcompare p q) eqn:A; simpl.
  - apply Qeq_alt in A. rewrite A. reflexivity.
  - destruct (Qcompare q r) eqn:B; auto.
    + apply Qeq_alt in B. rewrite <- B. exact A.
    + apply Qlt_alt. apply Qlt_alt in A. apply Qlt_alt in B. eapply Qlt_trans; eauto.
  - destruct (Qcompare q r) eqn:B; auto.
    + apply Qeq_alt in B. rewrite <- B. exact A.
    + apply Qgt_alt. apply Qgt_alt in A. apply Qgt_alt in B. eapply Qlt_trans; eauto.
Qed.

(* ---- lexicographic order on lists --------------------------------------------------------- *)
Section Lex.
  Variable A : Type.
  Variable c : A -> A -> comparison.
  Fixpoint lex (l1 l2 : list A) {struct l1} : comparison :=
    match l1, l2 with
    | [], [] => Eq
    | [], _ :: _ => Lt
    | _ :: _, [] => Gt
    | x :: r1, y :: r2 => cthen (c x y) (lex r1 r2)
    end.
End Lex.
Arguments lex {A} c l1 l2.

Lemma lex_refl {A} (c : A -> A -> comparison) l :
  Forall (fun x => c x x = Eq) l -> lex c l l = Eq.
Proof. induction 1; simpl; auto. rewrite H. exact IHForall. Qed.

Lemma lex_antisym {A} (c : A -> A -> comparison) l1 :
  Forall (fun x => forall y, c y x = CompOpp (c x y)) l1 ->
  forall l2, lex c l2 l1 = CompOpp (lex c l1 l2).
Proof.
  induction 1; intros [|y l2]; simpl; auto.
  rewrite cthen_opp, H, IHForall. reflexivity.
Qed.

Lemma lex_trans {A} (c : A -> A -> comparison) l1 :
  Forall (fun x => forall y z, trans_ok (c x y) (c y z) (c x z)) l1 ->
  forall l2 l3, trans_ok (lex c l1 l2) (lex c l2 l3) (lex c l1 l3).
Proof.
  induction 1 as [|x l1 Hx Hl IH]; intros [|y l2] [|z l3]; simpl; auto.
  - destruct (cthen (c y z) (lex c l2 l3)); simpl; auto.
  - destruct (cthen (c x y) (lex c l1 l2)); simpl; auto.
  - apply cthen_trans; auto.
Qed.

Lemma str_cmp_lex a b : str_cmp a b = lex N.compare a b.
Proof. revert b; induction a; intros [|y b]; simpl; auto. rewrite IHa. destruct (N.compare a y); reflexivity. Qed.

Lemma str_cmp_refl a : str_cmp a a = Eq.
Proof. rewrite str_cmp_lex. apply lex_refl. apply Forall_forall. intros; apply N.compare_refl. Qed.
Lemma str_cmp_antisym a b : str_cmp b a = CompOpp (str_cmp a b).
Proof. rewrite !str_cmp_lex. apply lex_antisym. apply Forall_forall. intros; apply N.compare_antisym. Qed.
Lemma str_cmp_trans a b c : trans_ok (str_cmp a b) (str_cmp b c) (str_cmp a c).
Proof. rewrite !str_cmp_lex. apply lex_trans. apply Forall_forall. intros; apply N_cmp_trans. Qed.
Lemma str_cmp_eq a b : str_cmp a b = Eq -> a = b.
Proof.
  revert b; induction a; intros [|y b]; simpl; try discriminate; auto.
  destruct (N.compare_spec a y); try discriminate. intros. subst. f_equal. auto.
Qed.
Lemma str_eqb_eq a b : str_eqb a b = true <-> a = b.
Proof.
  unfold str_eqb, is_eq. split.
  - destruct (str_cmp a b) eqn:E; try discriminate. intros _. apply str_cmp_eq; auto.
  - intros ->. rewrite str_cmp_refl. reflexivity.
Qed.
Lemma str_eqb_refl a : str_eqb a a = true. Proof. apply str_eqb_eq; reflexivity. Qed.

(* ---- numeric dict keys: int z, or the non-integral float (2h+1)/2^e ------------------------- *)
Section KeyNum.
Local Open Scope Z_scope.
Lemma pow2_split a b : 0 <= a < b -> exists m, 0 < m /\ 2 ^ b = 2 ^ a * (2 * m).
Proof.
  intros H. exists (2 ^ (b - a - 1)). split. apply Z.pow_pos_nonneg; lia.
  replace b with (a + (1 + (b - a - 1))) at 1 by lia.
  rewrite !Z.pow_add_r by lia. reflexivity.
Qed.

Lemma odd_pow_inj h e h' e' : 0 < e -> 0 < e' ->
  (2 * h + 1) * 2 ^ e' = (2 * h' + 1) * 2 ^ e -> h = h' /\ e = e'.
Proof.
  intros He He' H.
  assert (P : forall x, 0 < x -> 0 < 2 ^ x) by (intros; apply Z.pow_pos_nonneg; lia).
  destruct (Z.lt_trichotomy e e') as [L|[L|L]].
  - destruct (pow2_split e e') as (m & Hm & E); [lia|]. rewrite E in H. exfalso.
    assert (Q : 2 ^ e * ((2 * h + 1) * (2 * m)) = 2 ^ e * (2 * h' + 1)) by (transitivity ((2 * h + 1) * (2 ^ e * (2 * m))); [ring | rewrite H; ring]).
    apply Z.mul_reg_l in Q; [|specialize (P e He); lia].
    assert (2 * ((2 * h + 1) * m) = 2 * h' + 1) by (rewrite <- Q; ring). lia.
  - subst e'. split; auto. apply Z.mul_reg_r in H; [lia|specialize (P e He); lia].
  - destruct (pow2_split e' e) as (m & Hm & E); [lia|]. rewrite E in H. exfalso.
    assert (Q : 2 ^ e' * (2 * h + 1) = 2 ^ e' * ((2 * h' + 1) * (2 * m))) by (transitivity ((2 * h + 1) * 2 ^ e'); [ring | rewrite H; ring]).
    apply Z.mul_reg_l in Q; [|specialize (P e' He'); lia].
    assert (2 * ((2 * h' + 1) * m) = 2 * h + 1) by (rewrite Q; ring). lia.
Qed.

Lemma knum_inj k k' p q : knum k = Some p -> knum k' = Some q -> Qeq p q -> k = k'.
Proof.
  destruct k, k'; unfold knum; try discriminate; intros A B E; injection A as <-; injection B as <-.
  - change (z * 1 = z0 * 1) in E. f_equal. lia.
  - exfalso. change (z * Z.pos (2 ^ e) = (2 * h + 1) * 1) in E.
    rewrite Pos2Z.inj_pow in E. destruct (pow2_split 0 (Z.pos e)) as (m & Hm & F); [lia|].
    rewrite F in E. change (2 ^ 0) with 1 in E. assert (2 * (z * m) = 2 * h + 1) by (transitivity (z * (1 * (2 * m))); [ring | rewrite E; ring]). lia.
  - exfalso. change ((2 * h + 1) * 1 = z * Z.pos (2 ^ e)) in E.
    rewrite Pos2Z.inj_pow in E. destruct (pow2_split 0 (Z.pos e)) as (m & Hm & F); [lia|].
    rewrite F in E. change (2 ^ 0) with 1 in E. assert (2 * (z * m) = 2 * h + 1) by (transitivity (z * (1 * (2 * m))); [ring | rewrite <- E; ring]). lia.
  - change ((2 * h + 1) * Z.pos (2 ^ e0) = (2 * h0 + 1) * Z.pos (2 ^ e)) in E.
    rewrite !Pos2Z.inj_pow in E. destruct (odd_pow_inj h (Z.pos e) h0 (Z.pos e0)); try lia. congruence.
Qed.
End KeyNum.

(* ---- the normal-form trees and their order ------------------------------------------------- *)
Inductive nv : Type :=
| NNum (q : Q)
| NStr (s : list N)
| NNode (c : cls) (l : list nv)
| NEnt (k : key) (v : nv).

Lemma nv_ind' (P : nv -> Prop) :
  (forall q, P (NNum q)) -> (forall s, P (NStr s)) ->
  (forall c l, Forall P l -> P (NNode c l)) -> (forall k v, P v -> P (NEnt k v)) ->
  forall x, P x.
Proof.
  intros Hn Hs Hl He. fix IH 1. intros [q|s|c l|k v].
  - apply Hn. - apply Hs.
  - apply Hl. induction l; constructor; auto.
  - apply He. apply IH.
Qed.

Section WithTable.
Variable t : ranks.

Definition crank (c : cls) : list N :=
  match c with
  | CMissing => r_missing t | CNone => r_none t | CNum => r_int t | CStr => r_str t | CList => r_list t
  | CTuple => r_tuple t | CDict => r_dict t | CObj n _ => n | CEnt => []
  end.
Definition cidx (c : cls) : N :=
  match c with
  | CMissing => 0 | CNone => 1 | CNum => 2 | CStr => 3 | CList => 4 | CTuple => 5 | CDict => 6
  | CObj _ _ => 7 | CEnt => 8
  end%N.
(* by rank string as the code does; the index only separates classes whose rank strings coincide
   (which [ranks_ok] and [name_ok] exclude) *)
Definition cuid (c : cls) : N := match c with CObj _ u => u | _ => 0%N end.
Definition cls_cmp (c d : cls) : comparison :=
  cthen (str_cmp (crank c) (crank d)) (cthen (N.compare (cidx c) (cidx d)) (N.compare (cuid c) (cuid d))).

Lemma cls_cmp_refl c : cls_cmp c c = Eq.
Proof. unfold cls_cmp. rewrite str_cmp_refl, !N.compare_refl. reflexivity. Qed.
Lemma cls_cmp_antisym c d : cls_cmp d c = CompOpp (cls_cmp c d).
Proof. unfold cls_cmp. rewrite !cthen_opp, <- str_cmp_antisym, <- !N.compare_antisym. reflexivity. Qed.
Lemma cls_cmp_trans c d e : trans_ok (cls_cmp c d) (cls_cmp d e) (cls_cmp c e).
Proof. unfold cls_cmp. apply cthen_trans. apply str_cmp_trans. intros; apply cthen_trans. apply N_cmp_trans. intros; apply N_cmp_trans. Qed.
Lemma cls_cmp_eq c d : cls_cmp c d = Eq -> c = d.
Proof.
  unfold cls_cmp. destruct (str_cmp (crank c) (crank d)) eqn:E; simpl; try discriminate.
  destruct (N.compare (cidx c) (cidx d)) eqn:F; simpl; try discriminate.
  intros H. apply N.compare_eq in H. apply N.compare_eq in F. apply str_cmp_eq in E.
  destruct c, d; simpl in *; try discriminate; try reflexivity. congruence.
Qed.

Definition kbody (k k' : key) : comparison :=
  match knum k, knum k' with
  | Some p, Some q => Qcompare p q
  | Some _, None => Lt
  | None, Some _ => Gt
  | None, None => match k, k' with KStr a, KStr b => str_cmp a b | _, _ => Eq end
  end.
Lemma key_cmp_unfold k k' : key_cmp t k k' = cthen (str_cmp (krank t k) (krank t k')) (kbody k k').
Proof. unfold key_cmp, kbody, cthen. destruct (str_cmp _ _); auto. Qed.
Lemma kbody_refl k : kbody k k = Eq.
Proof. unfold kbody. destruct k; cbn [knum]. apply str_cmp_refl. apply Q_cmp_refl. apply Q_cmp_refl. Qed.
Lemma kbody_antisym k k' : kbody k' k = CompOpp (kbody k k').
Proof.
  unfold kbody. destruct (knum k) eqn:A, (knum k') eqn:B; auto using Q_cmp_antisym.
  destruct k; try discriminate A. destruct k'; try discriminate B. apply str_cmp_antisym.
Qed.
Lemma kbody_trans a b c : trans_ok (kbody a b) (kbody b c) (kbody a c).
Proof.
  unfold kbody. destruct (knum a) eqn:A, (knum b) eqn:B, (knum c) eqn:C; simpl; auto using Q_cmp_trans;
    repeat match goal with H : knum ?k = None |- _ => destruct k; try discriminate H; clear H end;
    simpl; auto using str_cmp_trans;
    try (destruct (Qcompare _ _); simpl; auto; fail); try (destruct (str_cmp _ _); simpl; auto; fail).
Qed.
Lemma kbody_eq k k' : kbody k k' = Eq -> k = k'.
Proof.
  unfold kbody. destruct (knum k) eqn:A, (knum k') eqn:B; try discriminate.
  - intros H. apply Qeq_alt in H. eapply knum_inj; eauto.
  - destruct k; try discriminate A. destruct k'; try discriminate B. intros H; apply str_cmp_eq in H; congruence.
Qed.
Lemma key_cmp_refl k : key_cmp t k k = Eq.
Proof. rewrite key_cmp_unfold, str_cmp_refl. apply kbody_refl. Qed.
Lemma key_cmp_antisym k k' : key_cmp t k' k = CompOpp (key_cmp t k k').
Proof. rewrite !key_cmp_unfold, cthen_opp, <- str_cmp_antisym, <- kbody_antisym. reflexivity. Qed.
Lemma key_cmp_trans a b c : trans_ok (key_cmp t a b) (key_cmp t b c) (key_cmp t a c).
Proof. rewrite !key_cmp_unfold. apply cthen_trans. apply str_cmp_trans. intros; apply kbody_trans. Qed.
Lemma key_cmp_eq k k' : key_cmp t k k' = Eq -> k = k'.
Proof. rewrite key_cmp_unfold. destruct (str_cmp _ _); simpl; try discriminate. apply kbody_eq. Qed.
Lemma key_eqb_eq k k' : key_eqb k k' = true <-> k = k'.
Proof.
  destruct k, k'; simpl; split; try discriminate; intros H.
  - apply str_eqb_eq in H; congruence. - inv H. apply str_eqb_refl.
  - apply Z.eqb_eq in H; congruence. - inv H. apply Z.eqb_refl.
  - apply andb_prop in H. destruct H as [H1 H2]. apply Z.eqb_eq in H1. apply Pos.eqb_eq in H2. congruence.
  - inv H. rewrite Z.eqb_refl, Pos.eqb_refl. reflexivity.
Qed.
Lemma key_eqb_cmp k k' : key_eqb k k' = is_eq (key_cmp t k k').
Proof.
  destruct (key_eqb k k') eqn:E.
  - apply key_eqb_eq in E. subst. rewrite key_cmp_refl. reflexivity.
  - destruct (key_cmp t k k') eqn:F; auto. apply key_cmp_eq in F. subst.
    assert (key_eqb k' k' = true) by (apply key_eqb_eq; auto). congruence.
Qed.

Definition ncls (x : nv) : cls :=
  match x with NNum _ => CNum | NStr _ => CStr | NNode c _ => c | NEnt _ _ => CEnt end.
Definition shape (x : nv) : N :=
  match x with NNum _ => 0 | NStr _ => 1 | NNode _ _ => 2 | NEnt _ _ => 3 end%N.

Fixpoint ncmp (x y : nv) {struct x} : comparison :=
  cthen (cls_cmp (ncls x) (ncls y))
   (cthen (N.compare (shape x) (shape y))
     (match x, y with
      | NNum p, NNum q => Qcompare p q
      | NStr s, NStr u => str_cmp s u
      | NNode _ l, NNode _ l' => lex (fun a b => ncmp a b) l l'
      | NEnt k v, NEnt k' v' => cthen (key_cmp t k k') (ncmp v v')
      | _, _ => Eq
      end)).

Definition nbody (x y : nv) : comparison :=
  match x, y with
  | NNum p, NNum q => Qcompare p q
  | NStr s, NStr u => str_cmp s u
  | NNode _ l, NNode _ l' => lex ncmp l l'
  | NEnt k v, NEnt k' v' => cthen (key_cmp t k k') (ncmp v v')
  | _, _ => Eq
  end.
Lemma ncmp_unfold x y :
  ncmp x y = cthen (cls_cmp (ncls x) (ncls y)) (cthen (N.compare (shape x) (shape y)) (nbody x y)).
Proof. destruct x, y; reflexivity. Qed.

Lemma ncmp_refl x : ncmp x x = Eq.
Proof.
  induction x using nv_ind'; rewrite ncmp_unfold, cls_cmp_refl, N.compare_refl; simpl.
  - apply Q_cmp_refl. - apply str_cmp_refl. - apply lex_refl; auto.
  - rewrite key_cmp_refl. exact IHx.
Qed.

Lemma ncmp_antisym x : forall y, ncmp y x = CompOpp (ncmp x y).
Proof.
  induction x using nv_ind'; intros y; rewrite !ncmp_unfold, !cthen_opp, <- cls_cmp_antisym, <- N.compare_antisym;
    do 2 f_equal; destruct y; simpl; auto.
  - apply Q_cmp_antisym.
  - apply str_cmp_antisym.
  - apply lex_antisym; auto.
  - rewrite key_cmp_antisym, IHx, cthen_opp. reflexivity.
Qed.

Lemma ncmp_trans x : forall y z, trans_ok (ncmp x y) (ncmp y z) (ncmp x z).
Proof.
  induction x using nv_ind'; intros y z; rewrite !ncmp_unfold.
  all: apply cthen_trans; try apply cls_cmp_trans; intros _ _;
    apply cthen_trans; try apply N_cmp_trans; intros S1 S2;
    apply N.compare_eq in S1; apply N.compare_eq in S2;
    destruct y; simpl in S1; try discriminate; destruct z; simpl in S2; try discriminate; simpl.
  - apply Q_cmp_trans.
  - apply str_cmp_trans.
  - apply lex_trans; auto.
  - apply cthen_trans. apply key_cmp_trans. intros; apply IHx.
Qed.
End WithTable.

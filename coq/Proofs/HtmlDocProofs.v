(* HtmlDocProofs.v — the whole document (head with the shared style block + body) is well formed (property C20). *)
From PG Require Import Common.Tactics Gen.HtmlStyles Model.Html Model.HtmlDoc Proofs.HtmlProofs Proofs.HtmlTreeView.
From Coq Require Import NArith.
Local Open Scope N_scope.

(* instance obligation, re-checked whenever Gen/HtmlStyles.v is regenerated from the source:
   no CSS constant contains lt, so a style block can only be ended by its own closing tag *)
Lemma generated_css_has_no_lt : forallb no_lt all_css = true.
Proof. vm_compute. reflexivity. Qed.

Lemma css_of_no_lt : forall i, no_lt (css_of i) = true.
Proof.
  assert (H := generated_css_has_no_lt). unfold all_css in H. cbn [forallb] in H.
  repeat (apply andb_prop in H; destruct H as [? H]).
  intros []; assumption.
Qed.

Lemma no_lt_app : forall a b, no_lt (a ++ b) = no_lt a && no_lt b.
Proof. intros; unfold no_lt; apply forallb_app. Qed.

Lemma join_nl_no_lt : forall l, forallb no_lt l = true -> no_lt (join_nl l) = true.
Proof.
  induction l as [|x r IH]; intros H; [reflexivity|].
  cbn [forallb] in H. apply andb_prop in H. destruct H as [Hx Hr].
  destruct r as [|y r']; [exact Hx|].
  change (join_nl (x :: y :: r')) with (x ++ c_nl :: join_nl (y :: r')).
  rewrite no_lt_app, Hx. cbn [andb]. change (no_lt (c_nl :: join_nl (y :: r'))) with (no_lt (join_nl (y :: r'))).
  now apply IH.
Qed.

Lemma style_body_no_lt : forall ids, no_lt (c_nl :: join_nl (map css_of ids) ++ [c_nl]) = true.
Proof.
  intros ids. change (no_lt (c_nl :: join_nl (map css_of ids) ++ [c_nl])) with (no_lt (join_nl (map css_of ids) ++ [c_nl])).
  rewrite no_lt_app, join_nl_no_lt; [reflexivity|].
  apply forallb_forall. intros x Hx. apply in_map_iff in Hx. destruct Hx as (i & <- & _). apply css_of_no_lt.
Qed.

Theorem document_names_ok : forall o v, names_ok (document o v).
Proof.
  intros o v. unfold names_ok, document, head_of. cbn [names_okb forallb].
  change (is_raw_tag s_style_tag) with true. rewrite style_body_no_lt.
  assert (H := tree_view_names_ok o v). unfold names_ok in H. rewrite H. reflexivity.
Qed.

Theorem document_well_formed : forall o v, parse_html (render (document o v)) = Some (normalize [document o v]).
Proof. intros o v. apply render_parse, document_names_ok. Qed.

(* the elements of the parsed document: the wrapper's four plus the tree view's vocabulary; data contributes none *)
Theorem document_no_injection : forall o v,
  exists d, parse_html (render (document o v)) = Some d /\
            forall n, In n d -> incl (tags_of n) (document_tags ++ vocabulary_tags)
                             /\ incl (optnames_of n) vocabulary_opts /\ incl (attrnames_of n) vocabulary_attrs.
Proof.
  intros o v. exists (normalize [document o v]). split; [apply document_well_formed|].
  intros n Hn.
  destruct (wfb_vocab _ (tv_wfb o v (o_css o) (o_summary_color o) (o_title o) (o_name o) (o_root_path o) (o_collapse o) (o_include o) (o_exclude o))) as (H1 & H2 & H3).
  fold (tree_view o v) in H1, H2, H3.
  assert (T : incl (tags_of (document o v)) (document_tags ++ vocabulary_tags)).
  { unfold document, head_of, tags_of. cbn [collect flat_map app]. rewrite app_nil_r.
    intros x Hx. destruct Hx as [<-|[<-|[<-|[<-|Hx]]]]; try (cbn; tauto).
    apply in_or_app. right. apply H1. rewrite ?app_nil_r in Hx. exact Hx. }
  assert (O : incl (optnames_of (document o v)) vocabulary_opts).
  { unfold document, head_of, optnames_of. cbn [collect flat_map app]. rewrite ?app_nil_r. exact H2. }
  assert (A : incl (attrnames_of (document o v)) vocabulary_attrs).
  { unfold document, head_of, attrnames_of. cbn [collect flat_map app map]. rewrite ?app_nil_r. exact H3. }
  repeat split; intros x Hx.
  - apply T. assert (E := collect_normalize (fun tag _ _ => [tag]) [document o v]).
    cbn [flat_map] in E. rewrite app_nil_r in E. unfold tags_of. rewrite <- E. apply in_flat_map. eauto.
  - apply O. assert (E := collect_normalize (fun _ opts _ => opts) [document o v]).
    cbn [flat_map] in E. rewrite app_nil_r in E. unfold optnames_of. rewrite <- E. apply in_flat_map. eauto.
  - apply A. assert (E := collect_normalize (fun _ _ attrs => map fst attrs) [document o v]).
    cbn [flat_map] in E. rewrite app_nil_r in E. unfold attrnames_of. rewrite <- E. apply in_flat_map. eauto.
Qed.

(* the texts of the document are those of the content plus the wrapper's newlines: nothing of the value is in the head *)
Theorem document_texts : forall o v,
  texts_of (document o v) = [[c_nl]; [c_nl]; [c_nl]; [c_nl]; [c_nl]] ++ texts_of (tree_view o v) ++ [[c_nl]; [c_nl]].
Proof. intros o v. unfold document, head_of. cbn [texts_of flat_map app]. rewrite ?app_nil_r. now rewrite <- app_assoc. Qed.

(* ------------------------------------------------------------------------------------------ *)
(* the head does not depend on the data: values of the same shape get the same style block       *)
Lemma needs_summary_shape : forall o title name a b, same_shape a b -> needs_summary_t o title name a = needs_summary_t o title name b.
Proof.
  intros o title name a b H. unfold needs_summary_t. generalize (match title with Some _ => Some (KInt 0%Z) | None => name end). clear name. intros name. destruct H as [lk tn cn raw rep fmt tn' cn' raw' rep' fmt' Hl|]; [|reflexivity].
  unfold needs_summary. now rewrite Hl.
Qed.

Lemma tvs_shape : forall o a b, same_shape a b -> forall title name path incl excl, tvs o title name path incl excl a = tvs o title name path incl excl b.
Proof.
  intros o. induction a as [lk tn cn raw rep fmt|sq tn cn fmt items IH] using pv_ind'; intros b H title name path incl excl.
  - assert (E := needs_summary_shape o title name _ _ H). inv H. cbn [tvs]. now rewrite E.
  - assert (E := needs_summary_shape o title name _ _ H). inv H. cbn [tvs]. rewrite E.
    match goal with Hf : Forall2 _ items items' |- _ => rename Hf into HF end.
    assert (Ek : map fst items = map fst items').
    { clear -HF. induction HF as [|x y l l' [Hxy _] _ IHl]; [reflexivity|]. cbn [map]. now rewrite Hxy, IHl. }
    assert (Er :
               map (fun kc : key * pv => (fst kc, if is_label_at o sq path (fst kc) then key_styles o ++ tvs o None None (path ++ [fst kc]) None None (snd kc)
                                                  else tvs o None (Some (fst kc)) (path ++ [fst kc]) None None (snd kc))) items
             = map (fun kc : key * pv => (fst kc, if is_label_at o sq path (fst kc) then key_styles o ++ tvs o None None (path ++ [fst kc]) None None (snd kc)
                                                  else tvs o None (Some (fst kc)) (path ++ [fst kc]) None None (snd kc))) items').
    { clear -HF IH. induction HF as [|x y l l' [Hxy Hs] _ IHl]; [reflexivity|].
      inv IH. cbn [map]. rewrite IHl by assumption. rewrite Hxy.
      match goal with Hx : forall b, same_shape (snd x) b -> _ |- _ => rewrite !(Hx _ Hs) end. reflexivity. }
    rewrite Ek, Er. reflexivity.
Qed.

Theorem head_data_independent : forall o a b, same_shape a b -> head_of o a = head_of o b.
Proof. intros o a b H. unfold head_of, styles_of. now rewrite (tvs_shape o a b H). Qed.

(* a non-trivial instance: a hostile and a harmless value of the same shape *)
Example same_shape_example :
  same_shape (PNode false s_k s_k [] [(KStr s_k_i, PLeaf LStr s_k s_k s_k_i s_k_i s_k_i)])
             (PNode false s_i s_i s_k [(KStr s_k_i, PLeaf LStr s_i s_i [65; 66; 67; 68] s_k s_i)]).
Proof. repeat constructor. Qed.

(* ------------------------------------------------------------------------------------------ *)
(* documents that keep growing: several renderings written into one Html object                  *)
Lemma render_list_app : forall a b, render_list (a ++ b) = render_list a ++ render_list b.
Proof. intros; unfold render_list; apply flat_map_app. Qed.

Lemma document_is_multi : forall o v, document o v = multi_document [(o, v)].
Proof.
  intros o v. unfold document, head_of, multi_document, doc_node, multi_styles, styles_of.
  cbn [flat_map map fst snd app]. now rewrite app_nil_r.
Qed.

Theorem doc_node_names_ok : forall ids kids, forallb names_okb kids = true -> names_ok (doc_node ids kids).
Proof.
  intros ids kids H. unfold names_ok, doc_node. cbn [names_okb forallb].
  change (is_raw_tag s_style_tag) with true. rewrite style_body_no_lt.
  rewrite forallb_app, H. reflexivity.
Qed.

Theorem multi_document_well_formed : forall l, parse_html (render (multi_document l)) = Some (normalize [multi_document l]).
Proof.
  intros l. apply render_parse. apply doc_node_names_ok.
  apply forallb_forall. intros x Hx. apply in_map_iff in Hx. destruct Hx as ([o v] & <- & _). apply tree_view_names_ok.
Qed.

(* the body of the grown document is the concatenation of the renderings, in writing order; its texts are those of the renderings *)
Theorem multi_document_body : forall l,
  exists pre post, render (multi_document l) = pre ++ render_list (map (fun ov => tree_view (fst ov) (snd ov)) l) ++ post.
Proof.
  intros l. unfold multi_document, doc_node.
  set (kids := map _ l). set (H := El s_head _ _ _). set (T := Txt [c_nl]).
  exists (open_tag s_html [] [] ++ render T ++ render H ++ render T ++ open_tag s_body [] [] ++ render T).
  exists (render T ++ close_tag s_body ++ render T ++ close_tag s_html).
  change (render (El s_html [] [] [T; H; T; El s_body [] [] (T :: kids ++ [T]); T]))
    with (open_tag s_html [] [] ++ (render T ++ render H ++ render T ++ (open_tag s_body [] [] ++ (render T ++ flat_map render (kids ++ [T])) ++ close_tag s_body) ++ render T ++ []) ++ close_tag s_html).
  rewrite flat_map_app. cbn [flat_map]. unfold render_list. rewrite !app_nil_r. rewrite <- !app_assoc. reflexivity.
Qed.

Theorem multi_document_texts : forall l,
  texts_of (multi_document l)
  = [[c_nl]; [c_nl]; [c_nl]; [c_nl]; [c_nl]] ++ flat_map (fun ov => texts_of (tree_view (fst ov) (snd ov))) l ++ [[c_nl]; [c_nl]].
Proof.
  intros l. unfold multi_document, doc_node. cbn [texts_of flat_map app]. rewrite ?app_nil_r, flat_map_app. cbn [flat_map texts_of app].
  rewrite flat_map_concat_map, map_map, <- flat_map_concat_map. now rewrite <- !app_assoc.
Qed.

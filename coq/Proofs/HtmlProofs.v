(* HtmlProofs.v — proofs about Model/Html.v (property C20). *)
From PG Require Import Common.Tactics Model.Html.
From Coq Require Import NArith.
Local Open Scope N_scope.

Lemma render_txt : forall s, render (Txt s) = escape s.
Proof. reflexivity. Qed.

(* HtmlProofs.v — escape / unescape / render / parse_html (property C20). *)
From PG Require Import Common.Tactics Model.Html.
From Coq Require Import NArith String.
Local Open Scope N_scope.

(* ------------------------------------------------------------------------------------------ *)
(* escape                                                                                       *)
Lemma escape_cons : forall c s, escape (c :: s) = esc_char c ++ escape s.
Proof. reflexivity. Qed.
Lemma escape_app : forall a b, escape (a ++ b) = escape a ++ escape b.
Proof. intros; unfold escape; apply flat_map_app. Qed.

(* the five special characters, or none of them *)
Inductive char_class (c : N) : Prop :=
| cc_amp : c = c_amp -> char_class c
| cc_lt : c = c_lt -> char_class c
| cc_gt : c = c_gt -> char_class c
| cc_quot : c = c_quot -> char_class c
| cc_apos : c = c_apos -> char_class c
| cc_plain : (c =? c_amp) = false -> (c =? c_lt) = false -> (c =? c_gt) = false ->
             (c =? c_quot) = false -> (c =? c_apos) = false -> esc_char c = [c] -> char_class c.
Lemma classify : forall c, char_class c.
Proof.
  intro c.
  destruct (c =? c_amp) eqn:E1; [apply cc_amp; now apply N.eqb_eq|].
  destruct (c =? c_lt) eqn:E2; [apply cc_lt; now apply N.eqb_eq|].
  destruct (c =? c_gt) eqn:E3; [apply cc_gt; now apply N.eqb_eq|].
  destruct (c =? c_quot) eqn:E4; [apply cc_quot; now apply N.eqb_eq|].
  destruct (c =? c_apos) eqn:E5; [apply cc_apos; now apply N.eqb_eq|].
  apply cc_plain; auto. unfold esc_char. now rewrite E1, E2, E3, E4, E5.
Qed.

Lemma escape_no_meta4 : forall s, forallb (fun c => negb (is_meta4 c)) (escape s) = true.
Proof.
  induction s as [|c s IH]; [reflexivity|].
  rewrite escape_cons, forallb_app, IH, andb_true_r.
  destruct (classify c) as [->| ->| ->| ->| ->|E1 E2 E3 E4 E5 E]; try reflexivity.
  rewrite E. simpl. unfold is_meta4. now rewrite E2, E3, E4, E5.
Qed.

Lemma escape_amps_ok : forall s, amps_ok (escape s) = true.
Proof.
  induction s as [|c s IH]; [reflexivity|].
  rewrite escape_cons.
  destruct (classify c) as [->| ->| ->| ->| ->|E1 E2 E3 E4 E5 E]; try (cbn; exact IH).
  rewrite E. cbn [app amps_ok]. now rewrite E1, IH.
Qed.

Lemma escape_safe : forall s, no_meta (escape s).
Proof. intro s; split; [apply escape_no_meta4 | apply escape_amps_ok]. Qed.

(* the explicit reading of amps_ok: every ampersand of the string is followed by one of the five entity names *)
Lemma amps_ok_spec : forall l pre post, amps_ok l = true -> l = pre ++ c_amp :: post ->
  exists ch n, entity_at post = Some (ch, n).
Proof.
  intros l pre; revert l; induction pre as [|x pre IH]; intros l post H E; subst l; simpl in H.
  - apply andb_prop in H; destruct H as [H _]. destruct (entity_at post) as [[ch n]|]; [eauto|discriminate].
  - apply andb_prop in H; destruct H as [_ H]. eapply IH; eauto.
Qed.

Lemma unescape_escape : forall s, unescape (escape s) = s.
Proof.
  unfold unescape. induction s as [|c s IH]; [reflexivity|].
  rewrite escape_cons.
  destruct (classify c) as [->| ->| ->| ->| ->|E1 E2 E3 E4 E5 E]; try (cbn; now rewrite IH).
  rewrite E. cbn [app unesc]. now rewrite E1, IH.
Qed.

(* escape is injective (so nothing is lost or confused by escaping) *)
Lemma escape_inj : forall a b, escape a = escape b -> a = b.
Proof. intros a b H. rewrite <- (unescape_escape a), <- (unescape_escape b). now rewrite H. Qed.

(* ------------------------------------------------------------------------------------------ *)
(* the parser automaton                                                                         *)
Lemma fm_cons : forall {A B} (f : A -> list B) x r, flat_map f (x :: r) = f x ++ flat_map f r.
Proof. reflexivity. Qed.
Lemma run_app : forall a b p, run_parser (a ++ b) p = run_parser b (run_parser a p).
Proof. intros; unfold run_parser; apply fold_left_app. Qed.
Lemma run_cons : forall c s p, run_parser (c :: s) p = run_parser s (step p c).
Proof. reflexivity. Qed.
Lemma run_nil : forall p, run_parser [] p = p.
Proof. reflexivity. Qed.

Lemma str_eqb_refl : forall s, str_eqb s s = true.
Proof. induction s; simpl; [reflexivity|]. now rewrite N.eqb_refl. Qed.
Lemma str_eqb_eq : forall a b, str_eqb a b = true -> a = b.
Proof.
  induction a; destruct b; simpl; intros H; try discriminate; [reflexivity|].
  apply andb_prop in H; destruct H as [H1 H2]. apply N.eqb_eq in H1. f_equal; auto.
Qed.

(* one escaped character read in text mode / in attribute-value mode *)
Lemma text_char : forall c acc kids stack,
  run_parser (esc_char c) (PS (MText (TS acc None)) kids stack) = PS (MText (TS (acc ++ [c]) None)) kids stack.
Proof.
  intros c acc kids stack.
  destruct (classify c) as [->| ->| ->| ->| ->|E1 E2 E3 E4 E5 E]; try reflexivity.
  rewrite E. cbn [run_parser fold_left step tstep]. rewrite E1, E2.
  unfold is_meta4. now rewrite E2, E3, E4, E5.
Qed.
Lemma text_run : forall s acc kids stack,
  run_parser (escape s) (PS (MText (TS acc None)) kids stack) = PS (MText (TS (acc ++ s) None)) kids stack.
Proof.
  induction s as [|c s IH]; intros; [now rewrite app_nil_r|].
  rewrite escape_cons, run_app, text_char, IH. now rewrite <- app_assoc.
Qed.
Lemma aval_char : forall c tag opts attrs an acc kids stack,
  run_parser (esc_char c) (PS (MAVal (tag, opts, attrs) an (TS acc None)) kids stack)
  = PS (MAVal (tag, opts, attrs) an (TS (acc ++ [c]) None)) kids stack.
Proof.
  intros c tag opts attrs an acc kids stack.
  destruct (classify c) as [->| ->| ->| ->| ->|E1 E2 E3 E4 E5 E]; try reflexivity.
  rewrite E. cbn [run_parser fold_left step tstep]. rewrite E1, E4.
  unfold is_meta4. now rewrite E2, E3, E4, E5.
Qed.
Lemma aval_run : forall s tag opts attrs an acc kids stack,
  run_parser (escape s) (PS (MAVal (tag, opts, attrs) an (TS acc None)) kids stack)
  = PS (MAVal (tag, opts, attrs) an (TS (acc ++ s) None)) kids stack.
Proof.
  induction s as [|c s IH]; intros; [now rewrite app_nil_r|].
  rewrite escape_cons, run_app, aval_char, IH. now rewrite <- app_assoc.
Qed.

(* names *)
Lemma alpha_name_char : forall c, is_alpha c = true -> is_name_char c = true.
Proof. intros c H; unfold is_name_char; now rewrite H. Qed.
Lemma alpha_not_slash : forall c, is_alpha c = true -> (c =? c_slash) = false.
Proof. intros c H. unfold is_alpha, c_slash in *. lia. Qed.
Lemma name_char_facts : forall c, is_name_char c = true ->
  (c =? c_sp) = false /\ (c =? c_gt) = false /\ (c =? c_eq) = false.
Proof. intros c H. unfold is_name_char, is_alpha, c_sp, c_gt, c_eq in *. lia. Qed.

Lemma open_name_run : forall s acc kids stack, forallb is_name_char s = true ->
  run_parser s (PS (MOpen acc) kids stack) = PS (MOpen (acc ++ s)) kids stack.
Proof.
  induction s as [|c s IH]; intros acc kids stack H; [now rewrite app_nil_r|].
  simpl in H; apply andb_prop in H; destruct H as [Hc Hs].
  rewrite run_cons. cbn [step]. rewrite Hc, IH by assumption. now rewrite <- app_assoc.
Qed.
Lemma aname_run : forall s tag opts attrs acc kids stack, forallb is_name_char s = true ->
  run_parser s (PS (MAName (tag, opts, attrs) acc) kids stack) = PS (MAName (tag, opts, attrs) (acc ++ s)) kids stack.
Proof.
  induction s as [|c s IH]; intros tag opts attrs acc kids stack H; [now rewrite app_nil_r|].
  simpl in H; apply andb_prop in H; destruct H as [Hc Hs].
  rewrite run_cons. cbn [step]. rewrite Hc, IH by assumption. now rewrite <- app_assoc.
Qed.
Lemma close_name_run : forall s acc kids stack, forallb is_name_char s = true ->
  run_parser s (PS (MClose acc) kids stack) = PS (MClose (acc ++ s)) kids stack.
Proof.
  induction s as [|c s IH]; intros acc kids stack H; [now rewrite app_nil_r|].
  simpl in H; apply andb_prop in H; destruct H as [Hc Hs].
  rewrite run_cons. cbn [step]. rewrite Hc, IH by assumption. now rewrite <- app_assoc.
Qed.

Lemma name_ok_split : forall n, name_okb n = true ->
  exists c r, n = c :: r /\ is_alpha c = true /\ forallb is_name_char r = true.
Proof.
  intros [|c r] H; [discriminate|]. simpl in H. apply andb_prop in H. destruct H. eauto.
Qed.
Lemma name_ok_chars : forall n, name_okb n = true -> forallb is_name_char n = true.
Proof.
  intros n H. destruct (name_ok_split n H) as (c & r & -> & Hc & Hr). simpl. now rewrite (alpha_name_char c Hc), Hr.
Qed.

(* a mode that, having read the tag and [o], accepts a space (then more options / attributes) or gt (then opens the element) *)
Definition ready (o : otag) (m : mode) : Prop :=
  forall kids stack, step (PS m kids stack) c_sp = PS (MSpace o) kids stack
                  /\ step (PS m kids stack) c_gt = push_open o kids stack.
Lemma ready_open : forall tag, ready (tag, [], []) (MOpen tag).
Proof. intros tag kids stack; split; reflexivity. Qed.
Lemma ready_aname : forall tag opts attrs an, ready (tag, opts ++ [an], attrs) (MAName (tag, opts, attrs) an).
Proof. intros tag opts attrs an kids stack; split; reflexivity. Qed.
Lemma ready_aend : forall o, ready o (MAEnd o).
Proof. intros o kids stack; split; reflexivity. Qed.

(* after a space: a whole name *)
Lemma space_name_run : forall n tag opts attrs kids stack, name_okb n = true ->
  run_parser n (PS (MSpace (tag, opts, attrs)) kids stack) = PS (MAName (tag, opts, attrs) n) kids stack.
Proof.
  intros n tag opts attrs kids stack H.
  destruct (name_ok_split n H) as (c & r & -> & Hc & Hr).
  rewrite run_cons. cbn [step]. rewrite Hc. now rewrite aname_run.
Qed.

Lemma attrs_run : forall attrs2 tag opts attrs m kids stack,
  ready (tag, opts, attrs) m ->
  forallb (fun a => name_okb (fst a)) attrs2 = true ->
  run_parser (flat_map render_attr attrs2 ++ [c_gt]) (PS m kids stack) = push_open (tag, opts, attrs ++ attrs2) kids stack.
Proof.
  induction attrs2 as [|[an v] r IH]; intros tag opts attrs m kids stack R H.
  - simpl. rewrite app_nil_r. apply R.
  - simpl in H; apply andb_prop in H; destruct H as [Ha Hr].
    rewrite fm_cons. unfold render_attr at 1. cbn [fst snd]. rewrite <- app_assoc. cbn [app]. rewrite run_cons.
    destruct (R kids stack) as [-> _].
    rewrite <- !app_assoc. rewrite run_app, space_name_run by assumption.
    cbn [app]. rewrite run_cons.
    assert (S1 : step (PS (MAName (tag, opts, attrs) an) kids stack) c_eq = PS (MAEq (tag, opts, attrs) an) kids stack) by reflexivity.
    rewrite S1. rewrite run_cons. cbn [step]. change (c_quot =? c_quot) with true. cbv iota.
    rewrite <- ?app_assoc. rewrite run_app, aval_run. cbn [app]. rewrite run_cons.
    assert (S2 : step (PS (MAVal (tag, opts, attrs) an (TS v None)) kids stack) c_quot
                 = PS (MAEnd (tag, opts, attrs ++ [(an, v)])) kids stack) by reflexivity.
    rewrite S2. rewrite (IH tag opts (attrs ++ [(an, v)]) _ kids stack (ready_aend _) Hr).
    now rewrite <- app_assoc.
Qed.

Lemma opts_run : forall opts2 attrs2 tag opts m kids stack,
  ready (tag, opts, []) m ->
  forallb name_okb opts2 = true -> forallb (fun a => name_okb (fst a)) attrs2 = true ->
  run_parser (flat_map render_opt opts2 ++ flat_map render_attr attrs2 ++ [c_gt]) (PS m kids stack)
  = push_open (tag, opts ++ opts2, attrs2) kids stack.
Proof.
  induction opts2 as [|on r IH]; intros attrs2 tag opts m kids stack R Ho Ha.
  - cbn [flat_map app]. rewrite (attrs_run attrs2 tag opts [] m kids stack R Ha). now rewrite app_nil_r.
  - simpl in Ho; apply andb_prop in Ho; destruct Ho as [Hon Hr].
    rewrite fm_cons. unfold render_opt at 1. rewrite <- app_assoc. cbn [app]. rewrite run_cons.
    destruct (R kids stack) as [-> _].
    rewrite run_app, space_name_run by assumption.
    rewrite (IH attrs2 tag (opts ++ [on]) _ kids stack (ready_aname tag opts [] on) Hr Ha).
    now rewrite <- app_assoc.
Qed.

Lemma open_tag_run_gen : forall tag opts attrs txt kids stack,
  name_okb tag = true -> forallb name_okb opts = true -> forallb (fun a => name_okb (fst a)) attrs = true ->
  run_parser (open_tag tag opts attrs) (PS (MText (TS txt None)) kids stack)
  = push_open (tag, opts, attrs) (flush_text txt kids) stack.
Proof.
  intros tag opts attrs txt kids stack Ht Ho Ha.
  destruct (name_ok_split tag Ht) as (c & r & -> & Hc & Hr).
  unfold open_tag. rewrite run_cons.
  assert (S1 : step (PS (MText (TS txt None)) kids stack) c_lt = PS MTagStart (flush_text txt kids) stack) by reflexivity.
  rewrite S1. cbn [app]. rewrite run_cons. cbn [step]. rewrite (alpha_not_slash c Hc), Hc.
  rewrite run_app, open_name_run by assumption. cbn [app].
  rewrite (opts_run opts attrs (c :: r) [] _ _ stack (ready_open (c :: r)) Ho Ha). reflexivity.
Qed.
Lemma open_tag_run : forall tag opts attrs txt kids stack,
  name_okb tag = true -> is_raw_tag tag = false ->
  forallb name_okb opts = true -> forallb (fun a => name_okb (fst a)) attrs = true ->
  run_parser (open_tag tag opts attrs) (PS (MText (TS txt None)) kids stack)
  = PS (MText (TS [] None)) [] (((tag, opts, attrs), flush_text txt kids) :: stack).
Proof.
  intros tag opts attrs txt kids stack Ht Hraw Ho Ha.
  rewrite open_tag_run_gen by assumption. unfold push_open. now rewrite Hraw.
Qed.
Lemma raw_open_tag_run : forall tag txt kids stack,
  name_okb tag = true -> is_raw_tag tag = true ->
  run_parser (open_tag tag [] []) (PS (MText (TS txt None)) kids stack)
  = PS (MRawText []) [] (((tag, [], []), flush_text txt kids) :: stack).
Proof.
  intros tag txt kids stack Ht Hraw.
  rewrite open_tag_run_gen by (assumption || reflexivity). unfold push_open. now rewrite Hraw.
Qed.
Lemma raw_body_run : forall body acc kids stack, no_lt body = true ->
  run_parser body (PS (MRawText acc) kids stack) = PS (MRawText (acc ++ body)) kids stack.
Proof.
  induction body as [|c r IH]; intros acc kids stack H; [now rewrite app_nil_r|].
  unfold no_lt in H. simpl in H. apply andb_prop in H. destruct H as [Hc Hr].
  rewrite run_cons. cbn [step]. apply negb_true_iff in Hc. rewrite Hc.
  rewrite IH by exact Hr. now rewrite <- app_assoc.
Qed.
Lemma rawclose_name_run : forall s b acc kids stack, forallb is_name_char s = true ->
  run_parser s (PS (MRawCloseName b acc) kids stack) = PS (MRawCloseName b (acc ++ s)) kids stack.
Proof.
  induction s as [|c s IH]; intros b acc kids stack H; [now rewrite app_nil_r|].
  simpl in H; apply andb_prop in H; destruct H as [Hc Hs].
  rewrite run_cons. cbn [step]. rewrite Hc, IH by assumption. now rewrite <- app_assoc.
Qed.
Lemma raw_close_tag_run : forall tag opts attrs acc kids pkids stack,
  name_okb tag = true ->
  run_parser (close_tag tag) (PS (MRawText acc) kids (((tag, opts, attrs), pkids) :: stack))
  = PS (MText (TS [] None)) (pkids ++ [RawEl tag acc]) stack.
Proof.
  intros tag opts attrs acc kids pkids stack Ht.
  unfold close_tag. rewrite run_cons.
  assert (S1 : forall k st, step (PS (MRawText acc) k st) c_lt = PS (MRawClose acc) k st) by reflexivity.
  rewrite S1. rewrite run_cons.
  assert (S2 : forall k st, step (PS (MRawClose acc) k st) c_slash = PS (MRawCloseName acc []) k st) by reflexivity.
  rewrite S2. rewrite run_app, rawclose_name_run by (now apply name_ok_chars). cbn [app].
  rewrite run_cons, run_nil. cbn [step]. change (is_name_char c_gt) with false. change (c_gt =? c_gt) with true. cbv iota.
  now rewrite str_eqb_refl.
Qed.

Lemma close_tag_run : forall tag opts attrs txt kids pkids stack,
  name_okb tag = true ->
  run_parser (close_tag tag) (PS (MText (TS txt None)) kids (((tag, opts, attrs), pkids) :: stack))
  = PS (MText (TS [] None)) (pkids ++ [El tag opts attrs (flush_text txt kids)]) stack.
Proof.
  intros tag opts attrs txt kids pkids stack Ht.
  unfold close_tag. rewrite run_cons.
  assert (S1 : step (PS (MText (TS txt None)) kids (((tag, opts, attrs), pkids) :: stack)) c_lt
               = PS MTagStart (flush_text txt kids) (((tag, opts, attrs), pkids) :: stack)) by reflexivity.
  rewrite S1. rewrite run_cons.
  assert (S2 : forall k st, step (PS MTagStart k st) c_slash = PS (MClose []) k st) by reflexivity.
  rewrite S2. rewrite run_app, close_name_run by (now apply name_ok_chars). cbn [app].
  rewrite run_cons, run_nil. cbn [step]. change (is_name_char c_gt) with false. change (c_gt =? c_gt) with true. cbv iota.
  now rewrite str_eqb_refl.
Qed.

(* ------------------------------------------------------------------------------------------ *)
(* induction over trees (children are a list of trees)                                          *)
Section HnodeInd.
  Variable P : hnode -> Prop.
  Hypothesis HEl : forall tag opts attrs kids, Forall P kids -> P (El tag opts attrs kids).
  Hypothesis HTxt : forall s, P (Txt s).
  Hypothesis HRaw : forall s, P (Raw s).
  Hypothesis HRawEl : forall tag body, P (RawEl tag body).
  Fixpoint hnode_ind' (t : hnode) : P t :=
    match t with
    | El tag opts attrs kids =>
        HEl tag opts attrs kids
          ((fix go (l : list hnode) : Forall P l :=
              match l with [] => Forall_nil P | x :: r => Forall_cons x (hnode_ind' x) (go r) end) kids)
    | Txt s => HTxt s
    | Raw s => HRaw s
    | RawEl tag body => HRawEl tag body
    end.
End HnodeInd.

(* reading the rendering of a tree, in text mode, appends the tree to what has been read so far *)
Definition reads (t : hnode) : Prop :=
  forall txt kids stack,
    run_parser (render t) (PS (MText (TS txt None)) kids stack)
    = PS (MText (TS (snd (absorb (kids, txt) t)) None)) (fst (absorb (kids, txt) t)) stack.

Lemma reads_list : forall ts, Forall reads ts -> forall txt kids stack,
  run_parser (flat_map render ts) (PS (MText (TS txt None)) kids stack)
  = PS (MText (TS (snd (fold_left absorb ts (kids, txt))) None)) (fst (fold_left absorb ts (kids, txt))) stack.
Proof.
  induction 1 as [|t ts Ht _ IH]; intros txt kids stack; [reflexivity|].
  rewrite fm_cons, run_app, Ht. cbn [fold_left].
  destruct (absorb (kids, txt) t) as [k' t'] eqn:E. cbn [fst snd]. apply IH.
Qed.

Lemma names_ok_reads : forall t, names_ok t -> reads t.
Proof.
  induction t as [tag opts attrs kids IH|s|s|tag body] using hnode_ind'; intros H txt kids0 stack.
  - unfold names_ok in H. cbn [names_okb] in H.
    apply andb_prop in H; destruct H as [H Hk]. apply andb_prop in H; destruct H as [H Ha].
    apply andb_prop in H; destruct H as [Ht Ho]. apply andb_prop in Ht; destruct Ht as [Ht Hraw].
    apply negb_true_iff in Hraw.
    assert (Hr : Forall reads kids).
    { rewrite Forall_forall in IH |- *. intros x Hx. apply IH; [assumption|].
      rewrite forallb_forall in Hk. now apply Hk. }
    cbn [render]. rewrite run_app, open_tag_run by assumption.
    rewrite run_app, (reads_list kids Hr).
    rewrite close_tag_run by assumption.
    cbn [absorb fst snd]. unfold flush. cbn [fst snd]. reflexivity.
  - cbn [render absorb fst snd]. apply text_run.
  - discriminate H.
  - unfold names_ok in H. cbn [names_okb] in H. apply andb_prop in H; destruct H as [Hraw Hb].
    assert (Ht : name_okb tag = true).
    { unfold is_raw_tag in Hraw. apply orb_prop in Hraw. destruct Hraw as [E|E]; apply str_eqb_eq in E; subst; reflexivity. }
    cbn [render]. rewrite run_app, raw_open_tag_run by assumption.
    rewrite run_app, raw_body_run by assumption.
    rewrite raw_close_tag_run by assumption.
    cbn [absorb fst snd app]. unfold flush. cbn [fst snd]. reflexivity.
Qed.

Theorem render_parse_list : forall ts, Forall names_ok ts -> parse_html (render_list ts) = Some (normalize ts).
Proof.
  intros ts H. unfold parse_html, render_list, pstart.
  rewrite reads_list by (eapply Forall_impl; [|exact H]; apply names_ok_reads).
  reflexivity.
Qed.

Theorem render_parse : forall t, names_ok t -> parse_html (render t) = Some (normalize [t]).
Proof.
  intros t H. rewrite <- (render_parse_list [t]) by (constructor; [assumption|constructor]).
  unfold render_list. cbn [flat_map]. now rewrite app_nil_r.
Qed.

(* an element parses back to exactly one element, with the same tag, options and attributes *)
Lemma normalize_el : forall tag opts attrs kids, normalize [El tag opts attrs kids] = [El tag opts attrs (normalize kids)].
Proof. reflexivity. Qed.

(* what writing data verbatim does: the defect positions *)
Definition s_k_i : str := Eval compute in str_of "k<i>"%string.
Definition s_k_i_closed : str := Eval compute in str_of "k<i></i>"%string.
Definition s_i : str := Eval compute in str_of "i"%string.
Definition s_k : str := Eval compute in str_of "k"%string.
Lemma raw_key_malformed : parse_html (render (El s_span [] [] [Raw s_k_i])) = None.
Proof. vm_compute. reflexivity. Qed.
Lemma raw_key_injects : parse_html (render (El s_span [] [] [Raw s_k_i_closed])) = Some [El s_span [] [] [Txt s_k; El s_i [] [] []]].
Proof. vm_compute. reflexivity. Qed.
Lemma escaped_key_is_text : parse_html (render (El s_span [] [] [Txt s_k_i_closed])) = Some [El s_span [] [] [Txt s_k_i_closed]].
Proof. vm_compute. reflexivity. Qed.

(* ------------------------------------------------------------------------------------------ *)
(* normalisation only merges texts: the elements, options and attributes of a tree are unchanged *)
Section Collect.
  Context {X : Type} (g : str -> list str -> list (str * str) -> list X).
  Definition cst (st : list hnode * str) : list X := flat_map (collect g) (fst st).

  Lemma collect_flush : forall st, flat_map (collect g) (flush st) = cst st.
  Proof.
    intros [k t]. unfold flush, flush_text, cst. cbn [fst snd].
    destruct t; [reflexivity|]. rewrite flat_map_app. cbn. now rewrite app_nil_r.
  Qed.

  Definition absorbs (t : hnode) : Prop := forall st, cst (absorb st t) = cst st ++ collect g t.

  Lemma absorbs_list : forall ts, Forall absorbs ts -> forall st,
    cst (fold_left absorb ts st) = cst st ++ flat_map (collect g) ts.
  Proof.
    induction 1 as [|t ts Ht _ IH]; intros st; cbn [fold_left flat_map]; [now rewrite app_nil_r|].
    rewrite IH, Ht. now rewrite <- app_assoc.
  Qed.

  Lemma absorbs_all : forall t, absorbs t.
  Proof.
    induction t as [tag opts attrs kids IH|s|s|tag body] using hnode_ind'; intros st.
    - cbn [absorb]. unfold cst at 1. cbn [fst]. rewrite flat_map_app, collect_flush.
      cbn [flat_map collect]. rewrite app_nil_r, collect_flush, (absorbs_list kids IH). reflexivity.
    - cbn [absorb collect]. unfold cst. cbn [fst]. now rewrite app_nil_r.
    - cbn [absorb collect]. unfold cst. cbn [fst]. now rewrite app_nil_r.
    - cbn [absorb]. unfold cst at 1. cbn [fst]. rewrite flat_map_app, collect_flush.
      cbn [flat_map collect]. now rewrite app_nil_r.
  Qed.

  Lemma collect_normalize : forall ts, flat_map (collect g) (normalize ts) = flat_map (collect g) ts.
  Proof.
    intros ts. unfold normalize. rewrite collect_flush, absorbs_list.
    - reflexivity.
    - rewrite Forall_forall; intros; apply absorbs_all.
  Qed.
End Collect.

Example names_ok_example :
  names_ok (El s_details [s_open] [(s_class, s_k_i)] [Txt s_k_i_closed; El s_span [] [] [Txt []; Txt s_k]]).
Proof. reflexivity. Qed.

Example escape_ampersands_example : escape [c_amp] = [] ++ c_amp :: e_amp /\ entity_at e_amp = Some (c_amp, 4%nat).
Proof. split; reflexivity. Qed.

(* the executable form of render_parse that the harness evaluates on arbitrary Html.element trees *)
Lemma list_eqb_refl : forall {A} (f : A -> A -> bool) l, Forall (fun x => f x x = true) l -> list_eqb f l l = true.
Proof. induction 1 as [|x l Hx _ IH]; simpl; [reflexivity|]. now rewrite Hx, IH. Qed.
Lemma hnode_eqb_refl : forall t, hnode_eqb t t = true.
Proof.
  induction t as [tag opts attrs kids IH|s|s|tag body] using hnode_ind'; cbn [hnode_eqb];
    rewrite ?str_eqb_refl; try reflexivity.
  rewrite (list_eqb_refl str_eqb opts) by (rewrite Forall_forall; intros; apply str_eqb_refl).
  rewrite (list_eqb_refl _ attrs) by (rewrite Forall_forall; intros; now rewrite !str_eqb_refl).
  cbn [andb]. induction IH as [|x l Hx _ IHl]; [reflexivity|]. now rewrite Hx, IHl.
Qed.
Theorem reads_back_true : forall t, names_ok t -> reads_back t = true.
Proof.
  intros t H. unfold reads_back. rewrite (render_parse t H).
  apply list_eqb_refl. rewrite Forall_forall. intros; apply hnode_eqb_refl.
Qed.

(* ------------------------------------------------------------------------------------------ *)
(* texts of the parsed document: when no two text nodes are adjacent, exactly the non-empty texts  *)
Definition txs (l : list hnode) : list str := flat_map texts_of l.

Lemma txs_flush : forall k t, txs (flush (k, t)) = txs k ++ filter nonempty [t].
Proof.
  intros k t. unfold flush, flush_text, txs. cbn [fst snd]. destruct t; cbn [filter nonempty]; [now rewrite app_nil_r|].
  now rewrite flat_map_app.
Qed.

Definition head_not_text (l : list hnode) : Prop := match l with [] => True | x :: _ => is_text x = false end.

(* absorbing one tree *)
Definition sep_step (t : hnode) : Prop :=
  sepb t = true -> forall k txt, (txt <> [] -> is_text t = false) ->
  txs (flush (absorb (k, txt) t)) = txs (flush (k, txt)) ++ filter nonempty (texts_of t).

Lemma sep_list : forall ts, Forall sep_step ts -> no_adjacent_texts ts = true -> forallb sepb ts = true ->
  forall k txt, (txt <> [] -> head_not_text ts) ->
  txs (flush (fold_left absorb ts (k, txt))) = txs (flush (k, txt)) ++ filter nonempty (txs ts).
Proof.
  induction 1 as [|t r Ht _ IH]; intros Hadj Hsep k txt Hhd.
  - cbn. now rewrite app_nil_r.
  - cbn [forallb] in Hsep. apply andb_prop in Hsep. destruct Hsep as [Hst Hsr].
    cbn [fold_left]. destruct (absorb (k, txt) t) as [k' txt'] eqn:E.
    assert (Hr : no_adjacent_texts r = true).
    { destruct r as [|b r']; [reflexivity|]. cbn [no_adjacent_texts] in Hadj. now apply andb_prop in Hadj. }
    assert (Hhd' : txt' <> [] -> head_not_text r).
    { intros Hne. destruct r as [|b r']; [exact I|]. cbn [head_not_text].
      cbn [no_adjacent_texts] in Hadj. apply andb_prop in Hadj. destruct Hadj as [Hab _].
      destruct t as [tag opts attrs kids|s|s|tag body]; cbn [absorb] in E; inv E; try (now elim Hne);
        cbn [is_text andb negb] in Hab; now apply negb_true_iff in Hab. }
    transitivity (txs (flush (k', txt')) ++ filter nonempty (txs r)); [apply IH; assumption|].
    rewrite <- E. transitivity ((txs (flush (k, txt)) ++ filter nonempty (texts_of t)) ++ filter nonempty (txs r));
      [f_equal; apply Ht; [assumption|exact (fun H => Hhd H)]|].
    change (txs (t :: r)) with (texts_of t ++ txs r). rewrite filter_app. now rewrite <- app_assoc.
Qed.

Lemma sep_step_all : forall t, sep_step t.
Proof.
  induction t as [tag opts attrs kids IH|s|s|tag body] using hnode_ind'; intros Hs k txt Hhd.
  - cbn [sepb] in Hs. apply andb_prop in Hs. destruct Hs as [Hadj Hsep].
    cbn [absorb]. rewrite txs_flush. cbn [filter nonempty]. rewrite app_nil_r.
    unfold txs at 1. rewrite flat_map_app. fold (txs (flush (k, txt))). cbn [flat_map texts_of]. rewrite app_nil_r.
    fold (txs (flush (fold_left absorb kids ([], [])))).
    rewrite (sep_list kids IH Hadj Hsep [] [] (fun H => False_ind _ (H eq_refl))).
    rewrite txs_flush. cbn [txs flat_map filter nonempty app]. reflexivity.
  - assert (txt = []) as -> by (destruct txt; [reflexivity|]; specialize (Hhd ltac:(discriminate)); discriminate).
    cbn [absorb fst snd app texts_of]. rewrite !txs_flush. cbn [filter nonempty]. now rewrite app_nil_r.
  - assert (txt = []) as -> by (destruct txt; [reflexivity|]; specialize (Hhd ltac:(discriminate)); discriminate).
    cbn [absorb fst snd app texts_of]. rewrite !txs_flush. cbn [filter nonempty]. now rewrite app_nil_r.
  - cbn [absorb]. rewrite txs_flush. cbn [filter nonempty texts_of]. rewrite !app_nil_r.
    unfold txs at 1. rewrite flat_map_app. cbn [flat_map texts_of]. now rewrite !app_nil_r.
Qed.

Theorem normalize_texts : forall t, sepb t = true ->
  flat_map texts_of (normalize [t]) = filter nonempty (texts_of t).
Proof.
  intros t H. unfold normalize. cbn [fold_left].
  assert (E := sep_step_all t H [] [] (fun Hne => False_ind _ (Hne eq_refl))).
  unfold txs in E. rewrite E. unfold flush, flush_text. cbn [fst snd flat_map app]. reflexivity.
Qed.

(* ------------------------------------------------------------------------------------------ *)
(* escape is applied blindly: it never recognises text that already looks escaped                *)
Definition is_special (c : N) : bool := (c =? c_amp) || (c =? c_lt) || (c =? c_gt) || (c =? c_quot) || (c =? c_apos).

Lemma esc_char_plain : forall c, is_special c = false -> esc_char c = [c].
Proof.
  intros c H. unfold is_special in H. unfold esc_char.
  destruct (c =? c_amp); [discriminate|]. destruct (c =? c_lt); [discriminate|]. destruct (c =? c_gt); [discriminate|].
  destruct (c =? c_quot); [discriminate|]. destruct (c =? c_apos); [discriminate|]. reflexivity.
Qed.
Lemma esc_char_special : forall c, is_special c = true -> exists r, esc_char c = c_amp :: r /\ (2 <= List.length r)%nat.
Proof.
  intros c H. destruct (classify c) as [->| ->| ->| ->| ->|E1 E2 E3 E4 E5 E];
    try (eexists; split; [reflexivity|cbn; lia]).
  unfold is_special in H. rewrite E1, E2, E3, E4, E5 in H. discriminate.
Qed.

Lemma escape_length : forall s, (List.length s <= List.length (escape s))%nat.
Proof.
  induction s as [|c s IH]; [reflexivity|]. rewrite escape_cons, app_length.
  destruct (is_special c) eqn:E.
  - destruct (esc_char_special c E) as (r & -> & Hr). cbn [List.length]. lia.
  - rewrite (esc_char_plain c E). cbn [List.length]. lia.
Qed.

(* escape leaves a string alone only when it has none of the five characters: in particular it re-escapes the ampersand of
   anything that looks like a character reference *)
Theorem escape_fixpoint_iff : forall s, escape s = s <-> forallb (fun c => negb (is_special c)) s = true.
Proof.
  induction s as [|c s IH]; [split; reflexivity|]. rewrite escape_cons. cbn [forallb]. split.
  - intros H. destruct (is_special c) eqn:E.
    + exfalso. destruct (esc_char_special c E) as (r & Er & Hr). rewrite Er in H.
      assert (L := f_equal (@List.length N) H). cbn [app List.length] in L. rewrite app_length in L.
      assert (L2 := escape_length s). lia.
    + rewrite (esc_char_plain c E) in H. cbn [app] in H. injection H as H1. cbn [negb andb]. now apply IH.
  - intros H. apply andb_prop in H. destruct H as [Hc Hs]. apply negb_true_iff in Hc.
    rewrite (esc_char_plain c Hc). cbn [app]. f_equal. now apply IH.
Qed.

Lemma escape_has_amp : forall s, forallb (fun c => negb (is_special c)) s = false ->
  forallb (fun c => negb (is_special c)) (escape s) = false.
Proof.
  induction s as [|c s IH]; intros H; [discriminate|]. rewrite escape_cons, forallb_app. cbn [forallb] in H.
  destruct (is_special c) eqn:E.
  - destruct (esc_char_special c E) as (r & -> & _). reflexivity.
  - rewrite (esc_char_plain c E). cbn [forallb]. rewrite E. cbn [negb andb] in H |- *. now apply IH.
Qed.

(* escaping twice is never the same as escaping once, unless nothing had to be escaped at all *)
Theorem escape_twice : forall s, escape (escape s) = escape s -> escape s = s.
Proof.
  intros s H. apply escape_fixpoint_iff in H. apply escape_fixpoint_iff.
  destruct (forallb (fun c => negb (is_special c)) s) eqn:E; [reflexivity|].
  rewrite (escape_has_amp s E) in H. discriminate.
Qed.

Example escape_reescapes_a_reference : escape (c_amp :: e_amp) = c_amp :: e_amp ++ e_amp.
Proof. reflexivity. Qed.

(* HyperBasics.v — induction principle and elementary lemmas of the Hyper model. *)
From PG Require Import Common.Tactics Model.Geno Proofs.GenoBasics Model.Hyper Model.HyperSpec.

Lemma dna_spec_elements : forall w t, elements (dna_spec w t) = pts w [] t.
Proof. reflexivity. Qed.

(* ---- induction over templates (children through lists) ------------------------------------------ *)
Section TmplInd.
  Variable P : tmpl -> Prop.
  Hypothesis Hleaf : forall l, P (TLeaf l).
  Hypothesis Hdict : forall kvs, Forall (fun kv => P (snd kv)) kvs -> P (TDict kvs).
  Hypothesis Hobj : forall c kvs, Forall (fun kv => P (snd kv)) kvs -> P (TObj c kvs).
  Hypothesis Hlist : forall ts, Forall P ts -> P (TList ts).
  Hypothesis Hone : forall cands a, Forall P cands -> P (TOneOf cands a).
  Hypothesis Hmany : forall k cands d s a, Forall P cands -> P (TManyOf k cands d s a).
  Hypothesis Hfloat : forall lo hi a, P (TFloat lo hi a).
  Hypothesis Hcustom : forall ck a, P (TCustom ck a).
  Fixpoint tmpl_ind' (t : tmpl) : P t :=
    let kvs_all := fix go (l : list (str * tmpl)) : Forall (fun kv => P (snd kv)) l :=
      match l with [] => Forall_nil _ | kv :: r => Forall_cons kv (tmpl_ind' (snd kv)) (go r) end in
    let ts_all := fix go (l : list tmpl) : Forall P l :=
      match l with [] => Forall_nil _ | x :: r => Forall_cons x (tmpl_ind' x) (go r) end in
    match t with
    | TLeaf l => Hleaf l
    | TDict kvs => Hdict kvs (kvs_all kvs)
    | TObj c kvs => Hobj c kvs (kvs_all kvs)
    | TList ts => Hlist ts (ts_all ts)
    | TOneOf cands a => Hone cands a (ts_all cands)
    | TManyOf k cands d s a => Hmany k cands d s a (ts_all cands)
    | TFloat lo hi a => Hfloat lo hi a
    | TCustom ck a => Hcustom ck a
    end.
End TmplInd.

(* ---- lists ------------------------------------------------------------------------------------------- *)
Lemma forallb2_nil_l : forall A B (f : A -> B -> bool) l, forallb2 f [] l = true -> l = [].
Proof. destruct l; simpl; auto; discriminate. Qed.

Lemma forallb2_app_l : forall A B (f : A -> B -> bool) a b ds,
  forallb2 f (a ++ b) ds = true ->
  exists d1 d2, ds = d1 ++ d2 /\ forallb2 f a d1 = true /\ forallb2 f b d2 = true.
Proof.
  induction a; simpl; intros.
  - exists [], ds; auto.
  - destruct ds; try discriminate. apply andb_true_iff in H as [H1 H2].
    destruct (IHa _ _ H2) as (d1 & d2 & -> & Ha & Hb).
    exists (b0 :: d1), d2; simpl; rewrite H1, Ha; auto.
Qed.

Lemma forallb2_app : forall A B (f : A -> B -> bool) a b d1 d2,
  forallb2 f a d1 = true -> forallb2 f b d2 = true -> forallb2 f (a ++ b) (d1 ++ d2) = true.
Proof.
  induction a; destruct d1; simpl; intros; try discriminate; auto.
  apply andb_true_iff in H as [H1 H2]. rewrite H1; simpl; auto.
Qed.

Lemma forallb2_length : forall A B (f : A -> B -> bool) a b, forallb2 f a b = true -> length a = length b.
Proof. induction a; destruct b; simpl; intros; try discriminate; auto. apply andb_true_iff in H as [_ H]. f_equal; auto. Qed.

Lemma with_nth_map : forall A B C (g : A -> B) (f : B -> C) d l n,
  with_nth f d (map g l) n = with_nth (fun x => f (g x)) d l n.
Proof. induction l; destruct n; simpl; auto. Qed.

Lemma Forall2_length' : forall A B (R : A -> B -> Prop) l1 l2, Forall2 R l1 l2 -> length l1 = length l2.
Proof. induction 1; simpl; auto. Qed.

Lemma str_eqb_refl : forall s, str_eqb s s = true.
Proof. unfold str_eqb. induction s; simpl; auto. rewrite N.compare_refl. auto. Qed.

Lemma str_eqb_eq : forall s t, str_eqb s t = true -> s = t.
Proof.
  unfold str_eqb. induction s; destruct t; simpl; intros; try discriminate; auto.
  destruct (N.compare a n) eqn:E; try discriminate. apply N.compare_eq in E; subst. f_equal; auto.
Qed.

Lemma str_eqb_neq : forall s t, str_eqb s t = false -> s <> t.
Proof. intros s t H E; subst. rewrite str_eqb_refl in H; discriminate. Qed.

(* HyperBasics.v — first facts about the Hyper model. *)
From PG Require Import Common.Tactics Model.Geno Model.Hyper.

Lemma dna_spec_elements : forall w t, elements (dna_spec w t) = pts w [] t.
Proof. reflexivity. Qed.

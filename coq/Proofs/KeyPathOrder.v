(* KeyPathOrder.v — the ordering of key paths is a strict total order that agrees with the key sequences. *)
From PG Require Import Common.Tactics Model.KeyPath Proofs.KeyPathArith.
Local Open Scope N_scope.

(* ---- lexicographic comparison over any total order given as a three-way comparison ---------------------- *)
Section Lex.
  Variable A : Type.
  Variable cmp : A -> A -> comparison.
  Hypothesis cmp_eq : forall a b, cmp a b = Eq <-> a = b.
  Hypothesis cmp_anti : forall a b, cmp b a = CompOpp (cmp a b).
  Hypothesis cmp_trans : forall a b c, cmp a b = Lt -> cmp b c = Lt -> cmp a c = Lt.

  Fixpoint lex (p q : list A) : comparison :=
    match p, q with
    | [], [] => Eq
    | [], _ :: _ => Lt
    | _ :: _, [] => Gt
    | a :: p', b :: q' => match cmp a b with Eq => lex p' q' | c => c end
    end.

  Lemma lex_eq : forall p q, lex p q = Eq <-> p = q.
  Proof.
    induction p as [| a p IH]; destruct q as [| b q]; simpl; split; intros H; try congruence; try discriminate.
    - destruct (cmp a b) eqn:E; try discriminate. apply cmp_eq in E. apply IH in H. congruence.
    - inv H. rewrite (proj2 (cmp_eq b b) eq_refl). apply IH. reflexivity.
  Qed.

  Lemma lex_anti : forall p q, lex q p = CompOpp (lex p q).
  Proof.
    induction p as [| a p IH]; destruct q as [| b q]; simpl; auto.
    rewrite (cmp_anti a b). destruct (cmp a b); simpl; auto.
  Qed.

  Lemma lex_trans : forall p q r, lex p q = Lt -> lex q r = Lt -> lex p r = Lt.
  Proof.
    induction p as [| a p IH]; destruct q as [| b q]; destruct r as [| c r]; simpl; intros H1 H2; try congruence; try discriminate.
    destruct (cmp a b) eqn:E1; try discriminate.
    - apply cmp_eq in E1. subst b. destruct (cmp a c) eqn:E2; try discriminate; eauto.
    - destruct (cmp b c) eqn:E2; try discriminate.
      + apply cmp_eq in E2. subst c. rewrite E1. reflexivity.
      + rewrite (cmp_trans _ _ _ E1 E2). reflexivity.
  Qed.

  (* agreement with the sequences: a proper prefix comes first; otherwise the first differing position decides *)
  Lemma lex_prefix : forall p a r, lex p (p ++ a :: r) = Lt.
  Proof.
    induction p as [| x p IH]; intros; simpl; auto.
    rewrite (proj2 (cmp_eq x x) eq_refl). apply IH.
  Qed.

  Lemma lex_first_diff : forall p a b x y, a <> b -> lex (p ++ a :: x) (p ++ b :: y) = cmp a b.
  Proof.
    induction p as [| k p IH]; intros a b x y H; simpl.
    - destruct (cmp a b) eqn:E; auto. apply cmp_eq in E. contradiction.
    - rewrite (proj2 (cmp_eq k k) eq_refl). apply IH. assumption.
  Qed.
End Lex.

(* ---- strings by code point ------------------------------------------------------------------------------- *)
Lemma N_cmp_anti : forall a b, N.compare b a = CompOpp (N.compare a b).
Proof. intros. apply N.compare_antisym. Qed.
Lemma N_cmp_trans : forall a b c, N.compare a b = Lt -> N.compare b c = Lt -> N.compare a c = Lt.
Proof. intros a b c. rewrite !N.compare_lt_iff. apply N.lt_trans. Qed.

Lemma str_cmp_lex : forall a b, str_cmp a b = lex N N.compare a b.
Proof. induction a; destruct b; simpl; auto; rewrite IHa; reflexivity. Qed.

Lemma str_cmp_eq : forall a b, str_cmp a b = Eq <-> a = b.
Proof. intros. rewrite str_cmp_lex. exact (lex_eq N N.compare N.compare_eq_iff a b). Qed.
Lemma str_cmp_anti : forall a b, str_cmp b a = CompOpp (str_cmp a b).
Proof. intros. rewrite !str_cmp_lex. exact (lex_anti N N.compare N_cmp_anti a b). Qed.
Lemma str_cmp_trans : forall a b c, str_cmp a b = Lt -> str_cmp b c = Lt -> str_cmp a c = Lt.
Proof.
  intros a b c. rewrite !str_cmp_lex. exact (lex_trans N N.compare N.compare_eq_iff N_cmp_trans a b c).
Qed.

(* ---- keys: ints numerically, strings by code point, an int before a string ---------------------------------- *)
Lemma key_cmp_eq : forall a b, key_cmp a b = Eq <-> a = b.
Proof.
  destruct a, b; simpl; split; intros H; try discriminate; try congruence.
  - apply str_cmp_eq in H. congruence.
  - inv H. apply str_cmp_eq. reflexivity.
  - apply Z.compare_eq_iff in H. congruence.
  - inv H. apply Z.compare_refl.
Qed.
Lemma key_cmp_anti : forall a b, key_cmp b a = CompOpp (key_cmp a b).
Proof. destruct a, b; simpl; auto using str_cmp_anti, Z.compare_antisym. Qed.
Lemma key_cmp_trans : forall a b c, key_cmp a b = Lt -> key_cmp b c = Lt -> key_cmp a c = Lt.
Proof.
  destruct a, b, c; simpl; intros H1 H2; try discriminate; auto.
  - eapply str_cmp_trans; eauto.
  - rewrite Z.compare_lt_iff in *. lia.
Qed.

Lemma path_cmp_lex : forall p q, path_cmp p q = lex key key_cmp p q.
Proof. induction p; destruct q; simpl; auto; rewrite IHp; reflexivity. Qed.

Lemma path_cmp_eq : forall p q, path_cmp p q = Eq <-> p = q.
Proof. intros. rewrite path_cmp_lex. exact (lex_eq key key_cmp key_cmp_eq p q). Qed.
Lemma path_cmp_anti : forall p q, path_cmp q p = CompOpp (path_cmp p q).
Proof. intros. rewrite !path_cmp_lex. exact (lex_anti key key_cmp key_cmp_anti p q). Qed.
Lemma path_cmp_trans : forall p q r, path_cmp p q = Lt -> path_cmp q r = Lt -> path_cmp p r = Lt.
Proof.
  intros p q r. rewrite !path_cmp_lex. exact (lex_trans key key_cmp key_cmp_eq key_cmp_trans p q r).
Qed.

(* ---- the statements about  <  <=  >  >= ---------------------------------------------------------------------- *)
Theorem lt_irrefl : forall p, path_lt p p = false.
Proof. intros. unfold path_lt. rewrite (proj2 (path_cmp_eq p p) eq_refl). reflexivity. Qed.

Theorem lt_trans : forall p q r, path_lt p q = true -> path_lt q r = true -> path_lt p r = true.
Proof.
  unfold path_lt. intros p q r H1 H2.
  destruct (path_cmp p q) eqn:E1; try discriminate. destruct (path_cmp q r) eqn:E2; try discriminate.
  rewrite (path_cmp_trans _ _ _ E1 E2). reflexivity.
Qed.

Theorem lt_total : forall p q, p <> q -> path_lt p q = true \/ path_lt q p = true.
Proof.
  unfold path_lt. intros p q H. rewrite (path_cmp_anti p q).
  destruct (path_cmp p q) eqn:E; simpl; auto. apply path_cmp_eq in E. contradiction.
Qed.

Theorem lt_asym : forall p q, path_lt p q = true -> path_lt q p = false.
Proof.
  unfold path_lt. intros p q. rewrite (path_cmp_anti p q). destruct (path_cmp p q); simpl; auto; discriminate.
Qed.

Theorem ops_consistent : forall p q,
  path_gt p q = path_lt q p /\ path_ge p q = path_le q p /\
  path_le p q = negb (path_lt q p) /\ path_le p q = (path_lt p q || path_eqb p q).
Proof.
  intros p q. unfold path_gt, path_lt, path_ge, path_le. rewrite (path_cmp_anti p q).
  destruct (path_cmp p q) eqn:E; simpl; repeat split; auto.
  - apply path_cmp_eq in E. subst. symmetry. apply path_eqb_eq. reflexivity.
  - destruct (path_eqb p q) eqn:F; auto. apply path_eqb_eq in F. subst.
    rewrite (proj2 (path_cmp_eq q q) eq_refl) in E. discriminate.
Qed.

Theorem lt_prefix : forall p k r, path_lt p (p ++ k :: r) = true.
Proof. intros. unfold path_lt. rewrite path_cmp_lex, (lex_prefix key key_cmp key_cmp_eq). reflexivity. Qed.

Theorem lt_first_diff : forall p a b x y, a <> b ->
  path_lt (p ++ a :: x) (p ++ b :: y) = match key_cmp a b with Lt => true | _ => false end.
Proof. intros. unfold path_lt. rewrite path_cmp_lex, (lex_first_diff key key_cmp key_cmp_eq) by assumption. reflexivity. Qed.

Theorem key_order_spec :
  (forall x y, key_cmp (KInt x) (KInt y) = Z.compare x y) /\
  (forall s t, key_cmp (KStr s) (KStr t) = str_cmp s t) /\
  (forall x s, key_cmp (KInt x) (KStr s) = Lt).
Proof. repeat split. Qed.

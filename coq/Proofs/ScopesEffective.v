(* C17, effectiveness: inside a scope the manager's getter returns the documented nesting rule, right after
   entering and after any part of the body that does not raise. *)
From PG Require Import Common.Tactics Common.Tr Model.ScopesBase Gen.ScopeDefs Model.Scopes
  Proofs.ScopesStore Proofs.ScopesRestore Proofs.ScopesCongruence.

(* --- well-typed states: stack slots hold stacks, the contextual slot holds a dict --------------------------- *)
Definition slot_ok (c : kclass) (o : option val) : bool :=
  match c, o with
  | KStack, Some (VA _) | KStack, Some (VD _) => false
  | KDict, Some (VA _) | KDict, Some (VS _) => false
  | _, _ => true
  end.
Definition wt_store (cls : tlkey -> kclass) (n : nat) (s : store) : Prop :=
  length s = n /\ forall k, slot_ok (cls k) (st_get k s) = true.
Definition wt (s : state) : Prop := wt_store lclass nkeys (fst s) /\ wt_store gclass nglob (snd s).

Lemma wt_init : wt init_state.
Proof.
  split; split; try reflexivity; intros k; unfold init_state, empty_store; cbn [fst snd];
    unfold st_get; rewrite nth_repeat; destruct (lclass k), (gclass k); reflexivity.
Qed.

Lemma wt_set : forall cls n s k o, slot_ok (cls k) o = true -> wt_store cls n s -> wt_store cls n (st_set k o s).
Proof.
  intros cls n s k o O [L W]. split.
  - rewrite st_set_length. assumption.
  - intros k'. rewrite st_get_set. destruct (Nat.eqb_spec k' k); simpl; auto.
    destruct (k' <? length s); simpl; auto. subst. assumption.
Qed.

(* equivalent states are equally well typed *)
Lemma slot_ok_nrm : forall c o o', nrm_at c o = nrm_at c o' -> slot_ok c o = slot_ok c o'.
Proof.
  intros c o o' H.
  destruct c; destruct o as [[[]|[|]|[|]]|]; destruct o' as [[[]|[|]|[|]]|]; simpl in *; try discriminate; try reflexivity.
Qed.
Lemma wt_store_equiv : forall cls n s t, seq_at cls 0 s t -> wt_store cls n s -> wt_store cls n t.
Proof.
  intros cls n s t H [L W]. split.
  - rewrite <- (seq_at_length _ _ _ _ H). assumption.
  - intros k. rewrite <- (slot_ok_nrm (cls k) (st_get k s) (st_get k t)); auto.
    exact (seq_at_get cls s t 0 k H).
Qed.
Lemma wt_equiv : forall s t, obs_eq s t -> wt s -> wt t.
Proof.
  intros s t H [A B]. apply obs_eq_split in H. destruct H as [Hl Hg]. split; eapply wt_store_equiv; eauto.
Qed.

(* pushes write stacks, so they keep any non-dict slot well typed *)
Lemma wt_push : forall cls n s k v, cls k <> KDict -> wt_store cls n s -> wt_store cls n (tl_push k v s).
Proof.
  intros cls n s k v C W. unfold tl_push. destruct v as [a|d|l]; auto.
  destruct (st_get k s) as [[a|dd|l]|]; auto; apply wt_set; auto; destruct (cls k); try reflexivity; congruence.
Qed.
Lemma wt_tl_set_free : forall cls n s k v, (cls k = KExact \/ cls k = KNone) -> wt_store cls n s -> wt_store cls n (tl_set k v s).
Proof. intros cls n s k v [C|C] W; apply wt_set; auto; rewrite C; destruct v; reflexivity. Qed.

(* entering keeps the state well typed *)
Lemma enter_wt : forall c a s s1 sv, wt s -> cm_enter c a s = Some (s1, sv) -> wt s1.
Proof.
  intros c a [l g] s1 sv [Wl Wg] H. cbn [fst snd] in *.
  destruct c; cbn [cm_enter] in H;
    try (apply lift_enter_some in H; destruct H as [l1 [E ->]]; cbn [fst snd] in *; split; cbn [fst snd]; auto).
  - destruct (nth_error flag_scopes i) as [[k init]|] eqn:F.
    + apply lift_enter_some in H; destruct H as [l1 [E ->]]; cbn [fst snd] in *; split; cbn [fst snd]; auto.
      unfold thread_local_value_scope_enter in E. apply some_pair_inj in E. destruct E as [<- _].
      apply wt_tl_set_free; auto. left. eapply flag_key_exact; eauto. apply flag_scope_keys_exact.
    + apply some_pair_inj in H. destruct H as [<- _]. split; auto.
  - unfold permission_enter in E.
    match type of E with context [if ?b then _ else _] => destruct b end; apply some_pair_inj in E; destruct E as [<- _];
      apply wt_tl_set_free; auto.
  - unfold thread_local_arg_scope_enter in E. apply some_pair_inj in E. destruct E as [<- _]. apply wt_push; auto. discriminate.
  - unfold thread_local_arg_scope_enter in E. apply some_pair_inj in E. destruct E as [<- _]. apply wt_push; auto. discriminate.
  - unfold view_options_enter in E. apply some_pair_inj in E. destruct E as [<- _]. apply wt_push; auto. discriminate.
  - unfold context_enter in E. apply some_pair_inj in E. destruct E as [<- _]. apply wt_push; auto. discriminate.
  - (* contextual: the slot holds a dict (or nothing), so does what the generated loop writes *)
    assert (P : exists p, tl_get k_contextual v_empty_dict l = VD p).
    { destruct Wl as [_ W]. specialize (W k_contextual). replace (lclass k_contextual) with KDict in W by reflexivity.
      unfold tl_get, v_empty_dict. destruct (st_get k_contextual l) as [[x|p|x]|]; try discriminate W; eauto. }
    destruct P as [p P].
    destruct a as [x|vs|x].
    + rewrite contextual_scope_enter_other in E by discriminate. apply some_pair_inj in E. destruct E as [<- _].
      rewrite P. apply wt_set; auto.
    + rewrite (contextual_scope_enter_dict vs l p P) in E. apply some_pair_inj in E. destruct E as [<- _]. apply wt_set; auto.
    + rewrite contextual_scope_enter_other in E by discriminate. apply some_pair_inj in E. destruct E as [<- _].
      rewrite P. apply wt_set; auto.
  - unfold detour_scope_enter in E. apply some_pair_inj in E. destruct E as [<- _]. apply wt_push; auto. discriminate.
  - unfold detour_scope_enter in E. apply some_pair_inj in E. destruct E as [<- _]. apply wt_push; auto. discriminate.
  - unfold timeit_enter in E.
    match type of E with context [if ?b then _ else _] => destruct b end; apply some_pair_inj in E; destruct E as [<- _];
      apply wt_tl_set_free; auto.
  - rewrite dyn_enter_thread in H.
    destruct (is_none (tl_get g_dynamic_evaluate v_none g)); try discriminate.
    apply some_pair_inj in H. destruct H as [<- _]. split; cbn [fst snd]; auto. apply wt_tl_set_free; auto.
  - rewrite dyn_enter_global in H. apply some_pair_inj in H. destruct H as [<- _]. split; cbn [fst snd]; auto. apply wt_tl_set_free; auto.
  - destruct (loadtypes_enter_cases a l g) as [[d [E _]]|[E _]]; rewrite E in H; apply some_pair_inj in H; destruct H as [<- _];
      split; cbn [fst snd]; auto. apply wt_push; auto. discriminate.
  - unfold dynguard_enter in H. cbn [fst snd] in H.
    repeat match type of H with context [if ?b then _ else _] => destruct b end; try discriminate;
      apply some_pair_inj in H; destruct H as [<- _]; split; auto.
  - destruct a; try discriminate. apply some_pair_inj in H. destruct H as [<- _]. split; cbn [fst snd]; auto. apply wt_push; auto. discriminate.
  - destruct a; try discriminate. apply some_pair_inj in H. destruct H as [<- _]. split; cbn [fst snd]; auto. apply wt_push; auto. discriminate.
Qed.

(* every state reached while running a program from a well-typed state is well typed: the final one ... *)
Lemma exec_wt : forall p s, wt s -> wt (final (exec p s)).
Proof. intros. eapply wt_equiv; [apply obs_eq_sym; apply restore | assumption]. Qed.

(* --- reading back what enter wrote ---------------------------------------------------------------------------- *)
Lemma tl_get_set_same : forall k d v s, k < length s -> tl_get k d (tl_set k v s) = v.
Proof. intros. unfold tl_get, tl_set. rewrite st_get_set_same; auto. Qed.

Lemma tl_peek_push : forall cls n k d0 d s, wt_store cls n s -> cls k = KStack -> k < n ->
  tl_peek k d0 (tl_push k (VD d) s) = VD d.
Proof.
  intros cls n k d0 d s [L W] C K. specialize (W k). rewrite C in W. unfold tl_push, tl_peek.
  destruct (st_get k s) as [[a|dd|l]|]; simpl in W; try discriminate; rewrite st_get_set_same by lia; reflexivity.
Qed.

Lemma st_get_push : forall cls n k d s, wt_store cls n s -> cls k = KStack -> k < n ->
  exists l, st_get k (tl_push k (VD d) s) = Some (VS (d :: l)).
Proof.
  intros cls n k d s [L W] C K. specialize (W k). rewrite C in W. unfold tl_push.
  destruct (st_get k s) as [[a|dd|l]|]; simpl in W; try discriminate; rewrite st_get_set_same by lia; eauto.
Qed.

(* the flag tables regenerated from the source are aligned: same key for the scope and its getter, inside the store *)
Definition flags_aligned : bool :=
  Nat.eqb (length flag_scopes) (length flag_getters) &&
  forallb (fun i => match nth_error flag_scopes i, nth_error flag_getters i with
                    | Some (k, _), Some (k', _) => Nat.eqb k k' && Nat.ltb k nkeys
                    | _, _ => false
                    end) (seq 0 (length flag_scopes)).
Lemma generated_flags_aligned : flags_aligned = true.
Proof. vm_compute. reflexivity. Qed.

Lemma flag_aligned : forall i k init, nth_error flag_scopes i = Some (k, init) ->
  exists d, nth_error flag_getters i = Some (k, d) /\ k < nkeys.
Proof.
  intros i k init H. pose proof generated_flags_aligned as A. unfold flags_aligned in A.
  apply andb_prop in A. destruct A as [_ A]. rewrite forallb_forall in A.
  assert (I : In i (seq 0 (length flag_scopes))).
  { apply in_seq. split; [lia|]. rewrite Nat.add_0_l. apply nth_error_Some. congruence. }
  specialize (A i I). rewrite H in A. destruct (nth_error flag_getters i) as [[k' d]|]; try discriminate.
  apply andb_prop in A. destruct A as [A1 A2]. apply Nat.eqb_eq in A1. apply Nat.ltb_lt in A2. subst. eauto.
Qed.

(* --- the documented nesting rules --------------------------------------------------------------------------------
   [rule c a s]: what the getter of manager c must return inside `with c(a)` entered in state s *)
Definition rule (c : cm) (a : val) (s : state) : val :=
  match c with
  | CFlag _ | CTimeit | CDynEval => a                                          (* innermost wins *)
  | CPerm => if is_none (observe GPerm s) then a else observe GPerm s           (* outermost wins *)
  | CStrFmt | CReprFmt | CCtx | CLoadTypes => py_update (observe (getter_of c) s) a   (* merged keyword arguments *)
  | CViewOpts => py_merge2 (observe GViewOpts s) a
  | CContextual =>                                                             (* cascade *)
      match observe GContextual s, a with VD p, VD vs => VD (contextual_merge p vs) | o, _ => o end
  | CDetour | CApplyWrappers =>                                                (* outer mappings win, transitively *)
      match observe GDetour s with VD cur => VD (detour_spec cur a) | o => o end
  | CDynEvalGlobal => tl_get k_dynamic_evaluate a (fst s)                      (* this thread's own function first *)
  | CDynGuard => observe GDynStackL s                                          (* a check only *)
  | CDynStackL | CDynStackG =>                                                 (* the entered context on top *)
      match observe (getter_of c) s, a with VS l, VD d => VS (d :: l) | o, _ => o end
  end.

Definition valid_cm (c : cm) : bool := match c with CFlag i => Nat.ltb i (length flag_scopes) | _ => true end.

Lemma stack_read_push : forall cls n k d s, wt_store cls n s -> cls k = KStack -> k < n ->
  stack_read k (tl_push k (VD d) s) = match stack_read k s with VS l => VS (d :: l) | o => o end.
Proof.
  intros cls n k d s [L W] C K. specialize (W k). rewrite C in W. unfold tl_push, stack_read.
  destruct (st_get k s) as [[a|dd|l]|]; simpl in W; try discriminate; rewrite st_get_set_same by lia; reflexivity.
Qed.

Lemma get_context_push : forall d l, wt_store lclass nkeys l -> get_context (tl_push k_context (VD d) l) = VD d.
Proof.
  intros d l W. destruct (st_get_push lclass nkeys k_context d l W eq_refl) as [r E]; [apply Nat.ltb_lt; vm_compute; reflexivity|].
  unfold get_context, tl_get. unfold k_context in *. rewrite E. reflexivity.
Qed.

Lemma current_mappings_push : forall d l, wt_store lclass nkeys l -> current_mappings (tl_push k_detour (VD d) l) = VD d.
Proof.
  intros d l W. destruct (st_get_push lclass nkeys k_detour d l W eq_refl) as [r E]; [apply Nat.ltb_lt; vm_compute; reflexivity|].
  unfold current_mappings, tl_get. rewrite E. reflexivity.
Qed.

Lemma detour_effective : forall a l l1 sv, wt_store lclass nkeys l -> detour_scope_enter a l = Some (l1, sv) ->
  current_mappings l1 = match current_mappings l with VD cur => VD (detour_spec cur a) | o => o end.
Proof.
  intros a l l1 sv W E. destruct (current_mappings_cases l) as [[c [C _]]|[C [T N]]].
  - destruct (detour_scope_enter_typed a l c C) as [nw E']. rewrite E' in E. apply some_pair_inj in E. destruct E as [<- _].
    rewrite C. apply current_mappings_push. assumption.
  - (* a true non-list in the slot is excluded by typing *)
    exfalso. destruct W as [_ W]. specialize (W k_detour). replace (lclass k_detour) with KStack in W by reflexivity.
    unfold tl_get in T. destruct (st_get k_detour l) as [[x|x|x]|]; try discriminate W; try discriminate T. eapply N; eauto.
Qed.

Theorem effective_enter : forall c a s s1 sv, wt s -> valid_cm c = true ->
  cm_enter c a s = Some (s1, sv) -> observe (getter_of c) s1 = rule c a s.
Proof.
  intros c a [l g] s1 sv [Wl Wg] V H. pose proof Wl as [Ll _]. pose proof Wg as [Lg _]. cbn [fst snd] in *.
  destruct c; cbn [cm_enter getter_of rule] in *;
    try (apply lift_enter_some in H; destruct H as [l1 [E ->]]; cbn [fst snd] in * ).
  - (* flags: innermost wins *)
    destruct (nth_error flag_scopes i) as [[k init]|] eqn:F.
    + apply lift_enter_some in H; destruct H as [l1 [E ->]]; cbn [fst snd] in *.
      destruct (flag_aligned _ _ _ F) as [d [G K]]. unfold observe. cbn [fst]. rewrite G.
      unfold thread_local_value_scope_enter in E. apply some_pair_inj in E. destruct E as [<- _].
      apply tl_get_set_same. lia.
    + apply Nat.ltb_lt in V. apply nth_error_None in F. lia.
  - (* permission: outermost wins *)
    unfold observe. cbn [fst]. unfold get_permission, permission_enter in *.
    match type of E with context [is_none ?x] => destruct (is_none x) eqn:N end; cbn [negb] in E;
      apply some_pair_inj in E; destruct E as [<- _]; apply tl_get_set_same; rewrite Ll; apply Nat.ltb_lt; vm_compute; reflexivity.
  - unfold observe. cbn [fst]. unfold thread_local_kwargs, thread_local_arg_scope_enter, py_copy in *.
    apply some_pair_inj in E. destruct E as [<- _].
    destruct (tl_peek_dict k_str_format l []) as [d Hd]. unfold v_empty_dict. rewrite Hd.
    destruct (py_update_dict d a) as [d' Hd']. rewrite Hd'.
    eapply tl_peek_push; [eassumption | reflexivity | apply Nat.ltb_lt; vm_compute; reflexivity].
  - unfold observe. cbn [fst]. unfold thread_local_kwargs, thread_local_arg_scope_enter, py_copy in *.
    apply some_pair_inj in E. destruct E as [<- _].
    destruct (tl_peek_dict k_repr_format l []) as [d Hd]. unfold v_empty_dict. rewrite Hd.
    destruct (py_update_dict d a) as [d' Hd']. rewrite Hd'.
    eapply tl_peek_push; [eassumption | reflexivity | apply Nat.ltb_lt; vm_compute; reflexivity].
  - unfold observe. cbn [fst]. unfold view_options_enter, k_view_options in *.
    apply some_pair_inj in E. destruct E as [<- _].
    match goal with |- context [tl_peek ?k _ l] => destruct (tl_peek_dict k l []) as [d Hd] end.
    unfold v_empty_dict. rewrite Hd.
    destruct (py_merge2_dict d a) as [d' Hd']. rewrite Hd'.
    eapply tl_peek_push; [eassumption | reflexivity | apply Nat.ltb_lt; vm_compute; reflexivity].
  - unfold observe. cbn [fst]. unfold context_enter in E. apply some_pair_inj in E. destruct E as [<- _].
    destruct (get_context_shape l) as [[d [r [G Hd]]]|[N [He|Hn]]].
    + rewrite Hd. destruct (py_update_dict d a) as [d' Hd']. rewrite Hd'. apply get_context_push. assumption.
    + rewrite He. unfold v_empty_dict. destruct (py_update_dict [] a) as [d' Hd']. rewrite Hd'. apply get_context_push. assumption.
    + (* get_context returns None only on an ill-typed slot *)
      exfalso. unfold get_context, tl_get, py_copy, py_last in Hn. destruct Wl as [_ W]. specialize (W k_context).
      unfold k_context in *. change (lclass k___code_run_context__) with KStack in W.
      destruct (st_get k___code_run_context__ l) as [[x|x|[|x r]]|]; simpl in W, Hn; try discriminate.
  - unfold observe. cbn [fst].
    assert (P : exists p, tl_get k_contextual v_empty_dict l = VD p).
    { destruct Wl as [_ W]. specialize (W k_contextual). replace (lclass k_contextual) with KDict in W by reflexivity.
      unfold tl_get, v_empty_dict. destruct (st_get k_contextual l) as [[x|p|x]|]; try discriminate W; eauto. }
    destruct P as [p P]. rewrite P.
    destruct a as [x|vs|x].
    + (* the argument is always a dict of overrides; with anything else the loop does nothing *)
      rewrite contextual_scope_enter_other in E by discriminate. apply some_pair_inj in E. destruct E as [<- _].
      rewrite P. apply tl_get_set_same. rewrite Ll. apply Nat.ltb_lt; vm_compute; reflexivity.
    + rewrite (contextual_scope_enter_dict vs l p P) in E. apply some_pair_inj in E. destruct E as [<- _].
      apply tl_get_set_same. rewrite Ll. apply Nat.ltb_lt; vm_compute; reflexivity.
    + rewrite contextual_scope_enter_other in E by discriminate. apply some_pair_inj in E. destruct E as [<- _].
      rewrite P. apply tl_get_set_same. rewrite Ll. apply Nat.ltb_lt; vm_compute; reflexivity.
  - unfold observe. cbn [fst]. apply (detour_effective a l l1 sv Wl E).
  - unfold observe. cbn [fst]. apply (detour_effective a l l1 sv Wl E).
  - unfold observe. cbn [fst]. unfold timeit_enter, k_timing in *.
    match type of E with context [is_none ?x] => destruct (is_none x) eqn:N end; cbn [negb] in E;
      apply some_pair_inj in E; destruct E as [<- _]; apply tl_get_set_same; rewrite Ll; apply Nat.ltb_lt; vm_compute; reflexivity.
  - rewrite dyn_enter_thread in H.
    destruct (is_none (tl_get g_dynamic_evaluate v_none g)); try discriminate.
    apply some_pair_inj in H. destruct H as [<- _]. unfold observe, get_dynamic_evaluate_fn. cbn [fst snd].
    apply tl_get_set_same. rewrite Ll. apply Nat.ltb_lt; vm_compute; reflexivity.
  - rewrite dyn_enter_global in H. apply some_pair_inj in H. destruct H as [<- _]. unfold observe, get_dynamic_evaluate_fn. cbn [fst snd].
    rewrite tl_get_set_same by (rewrite Lg; apply Nat.ltb_lt; vm_compute; reflexivity). reflexivity.
  - unfold observe. cbn [fst snd].
    destruct (loadtypes_enter_cases a l g) as [[d [E D]]|[E N]]; rewrite E in H; apply some_pair_inj in H; destruct H as [<- _]; cbn [fst snd].
    + rewrite <- D. eapply tl_peek_push; [eassumption | reflexivity | apply Nat.ltb_lt; vm_compute; reflexivity].
    + (* the slot is a stack in a well-typed state *)
      exfalso. destruct Wg as [_ W]. specialize (W g_ondemand_types). replace (gclass g_ondemand_types) with KStack in W by reflexivity.
      revert E. unfold loadtypes_enter, lift2_enter, load_types_enter, tl_get, py_last, py_copy. cbn [fst snd].
      destruct (st_get g_ondemand_types g) as [[x|x|[|x r]]|] eqn:G; try discriminate W; try (exfalso; eapply N; eauto; fail).
      cbn [truthy v_none]. unfold v_empty_dict. destruct (py_update_dict [] a) as [d' Hd']. rewrite Hd'. intros E.
      apply some_pair_inj in E. destruct E as [_ E]. discriminate E.
  - unfold dynguard_enter in H. cbn [fst snd] in H.
    repeat match type of H with context [if ?b then _ else _] => destruct b end; try discriminate;
      apply some_pair_inj in H; destruct H as [<- _]; reflexivity.
  - destruct a as [x|d|x]; try discriminate. apply some_pair_inj in H. destruct H as [<- _]. unfold observe. cbn [fst snd].
    eapply stack_read_push; [eassumption | reflexivity | apply Nat.ltb_lt; vm_compute; reflexivity].
  - destruct a as [x|d|x]; try discriminate. apply some_pair_inj in H. destruct H as [<- _]. unfold observe. cbn [fst snd].
    eapply stack_read_push; [eassumption | reflexivity | apply Nat.ltb_lt; vm_compute; reflexivity].
Qed.

(* inside the block, after any part of the body that does not let an exception escape (nested scopes of any
   manager, to any depth, left normally or by caught exceptions), the getter still returns the rule *)
Theorem effective_in_body : forall c a p s s1 sv, wt s -> valid_cm c = true ->
  cm_enter c a s = Some (s1, sv) -> escapes (exec p s1) = false ->
  observations (exec (Scope c a (Seq p (Obs (getter_of c)))) s) = observations (exec p s1) ++ [rule c a s].
Proof.
  intros c a p s s1 sv W V E X. cbn [exec]. rewrite E.
  pose proof (restore p s1) as R. unfold escapes, observations, final in *.
  destruct (exec p s1) as [[s2 o] e]. cbn [fst snd] in *. subst e. cbn [fst snd].
  rewrite (observe_congr (getter_of c) s2 s1 R). rewrite (effective_enter c a s s1 sv W V E). reflexivity.
Qed.

(* --- what the rules say ------------------------------------------------------------------------------------------ *)
(* permission: nested scopes never change the permission of the outermost one *)
Theorem permission_outermost : forall a b p s s1 sv, wt s -> is_none a = false ->
  observe GPerm s = v_none -> cm_enter CPerm a s = Some (s1, sv) -> escapes (exec p s1) = false ->
  observations (exec (Scope CPerm a (Seq p (Scope CPerm b (Obs GPerm)))) s) = observations (exec p s1) ++ [a].
Proof.
  intros a b p s s1 sv W NA N E X. cbn [exec]. rewrite E.
  pose proof (restore p s1) as R. unfold escapes, observations, final in *.
  destruct (exec p s1) as [[s2 o] e] eqn:EP. cbn [fst snd] in *. subst e.
  assert (W1 : wt s1) by (eapply enter_wt; eauto).
  assert (W2 : wt s2) by (eapply wt_equiv; [apply obs_eq_sym; eassumption | assumption]).
  destruct (cm_enter CPerm b s2) as [[s3 sv3]|] eqn:E3.
  - cbn [fst snd]. pose proof (effective_enter CPerm b s2 s3 sv3 W2 eq_refl E3) as Q3. cbn [getter_of rule] in Q3. rewrite Q3.
    rewrite (observe_congr GPerm s2 s1 R).
    pose proof (effective_enter CPerm a s s1 sv W eq_refl E) as Q1. cbn [getter_of rule] in Q1. rewrite Q1.
    rewrite N. cbn [is_none v_none]. rewrite NA. reflexivity.
  - cbn [cm_enter] in E3. unfold lift_enter, permission_enter in E3.
    match type of E3 with context [if ?c then _ else _] => destruct c end; discriminate.
Qed.

(* contextual override: the cascade rule, variable by variable *)
Lemma dict_get_set_same : forall k a d, dict_get k (dict_set k a d) = Some a.
Proof.
  induction d as [|[k' a'] r IH]; simpl.
  - rewrite Z.eqb_refl. reflexivity.
  - destruct (Z.eqb k k') eqn:E; simpl; rewrite E; auto.
Qed.
Lemma dict_get_set_other : forall k k' a d, k <> k' -> dict_get k (dict_set k' a d) = dict_get k d.
Proof.
  induction d as [|[k2 a2] r IH]; simpl; intros N.
  - destruct (Z.eqb_spec k k'); congruence.
  - destruct (Z.eqb_spec k' k2); simpl.
    + subst. destruct (Z.eqb_spec k k2); congruence.
    + destruct (Z.eqb_spec k k2); auto.
Qed.

Definition cascade_rule (outer : option atom) (new : option atom) : option atom :=
  match outer, new with
  | Some o, Some n => if cascade_of o then Some o else Some n
  | Some o, None => Some o
  | None, n => n
  end.

Fixpoint nodup_keys (d : dict) : bool :=
  match d with [] => true | (k, _) :: r => negb (dict_has k r) && nodup_keys r end.

Theorem contextual_cascade : forall vs p n, nodup_keys vs = true ->
  dict_get n (contextual_merge p vs) = cascade_rule (dict_get n p) (dict_get n vs).
Proof.
  unfold contextual_merge. induction vs as [|[k v] r IH]; intros p n ND; simpl.
  - destruct (dict_get n p); reflexivity.
  - simpl in ND. apply andb_prop in ND. destruct ND as [N1 N2]. rewrite IH by assumption.
    destruct (Z.eqb_spec n k) as [->|D].
    + rewrite dict_get_set_same. unfold dict_has in N1. destruct (dict_get k r); try discriminate.
      destruct (dict_get k p) as [old|]; simpl; auto. destruct (cascade_of old); reflexivity.
    + rewrite dict_get_set_other by assumption. reflexivity.
Qed.

(* detour: a source class already mapped by an enclosing scope keeps its outer destination *)
Lemma dict_update_keeps : forall upd d k, dict_has k upd = false -> dict_get k (dict_update d upd) = dict_get k d.
Proof.
  unfold dict_update. induction upd as [|[k' a] r IH]; intros d k H; simpl; auto.
  unfold dict_has in H. simpl in H. destruct (Z.eqb_spec k k'); try discriminate.
  rewrite IH; [apply dict_get_set_other; assumption|]. unfold dict_has. destruct (dict_get k r); auto.
Qed.
Lemma resolve_skips_outer : forall cur ms k, dict_has k cur = true -> dict_has k (filter_map (detour_resolve cur) ms) = false.
Proof.
  induction ms as [|[s d] r IH]; intros k H; simpl; auto.
  unfold detour_resolve at 1. cbn [fst snd]. destruct (dict_has s cur) eqn:E.
  - apply IH; assumption.
  - assert (k <> s) by (intros ->; congruence).
    assert (forall x, dict_has k ((s, x) :: filter_map (detour_resolve cur) r) = false).
    { intros x. unfold dict_has. simpl. destruct (Z.eqb_spec k s); try congruence. apply IH in H. unfold dict_has in H. exact H. }
    destruct d; auto. destruct (dict_get z cur); auto.
Qed.
Theorem detour_outer_wins : forall cur ms k, dict_has k cur = true ->
  dict_get k (dict_update cur (filter_map (detour_resolve cur) ms)) = dict_get k cur.
Proof. intros. apply dict_update_keeps. apply resolve_skips_outer. assumption. Qed.

(* detour: a single new mapping src -> dest is routed through the outer scope when dest itself is detoured there *)
Theorem detour_transitive : forall cur src dest t, dict_has src cur = false -> dict_get dest cur = Some t ->
  dict_get src (dict_update cur (filter_map (detour_resolve cur) [(src, AInt dest)])) = Some t.
Proof.
  intros cur src dest t H G. simpl. unfold detour_resolve. cbn [fst snd]. rewrite H, G.
  unfold dict_update. simpl. apply dict_get_set_same.
Qed.

(* --- explicit propagation (pg.with_contextual_override): the overrides captured in one thread, re-entered in a
   thread that has none, are read back unchanged ----------------------------------------------------------------- *)
Lemma dict_set_fresh : forall k a d, dict_get k d = None -> dict_set k a d = d ++ [(k, a)].
Proof.
  induction d as [|[k' a'] r IH]; simpl; intros H; auto.
  destruct (Z.eqb k k'); try discriminate. rewrite IH; auto.
Qed.
Lemma dict_get_app_none : forall k d e, dict_get k d = None -> dict_get k (d ++ e) = dict_get k e.
Proof. induction d as [|[k' a'] r IH]; simpl; intros; auto. destruct (Z.eqb k k'); try discriminate. auto. Qed.

Lemma contextual_merge_fresh : forall vs acc, nodup_keys vs = true ->
  (forall k, dict_has k vs = true -> dict_get k acc = None) -> contextual_merge acc vs = acc ++ vs.
Proof.
  unfold contextual_merge. induction vs as [|[k v] r IH]; intros acc ND F; simpl.
  - rewrite app_nil_r. reflexivity.
  - simpl in ND. apply andb_prop in ND. destruct ND as [N1 N2].
    assert (A : dict_get k acc = None). { apply F. unfold dict_has. simpl. rewrite Z.eqb_refl. reflexivity. }
    rewrite A. rewrite dict_set_fresh by assumption. rewrite IH; auto.
    + rewrite <- app_assoc. reflexivity.
    + intros k' H. rewrite dict_get_app_none.
      * simpl. destruct (Z.eqb_spec k' k); auto. subst. apply negb_true_iff in N1. congruence.
      * apply F. unfold dict_has in *. simpl. destruct (Z.eqb k' k); auto.
Qed.

Theorem propagation : forall cur a s1 sv, nodup_keys cur = true -> a = VD cur ->
  cm_enter CContextual a init_state = Some (s1, sv) -> observe GContextual s1 = VD cur.
Proof.
  intros cur a s1 sv ND -> E.
  pose proof (effective_enter CContextual (VD cur) init_state s1 sv wt_init eq_refl E) as Q.
  cbn [getter_of rule] in Q. rewrite Q.
  replace (observe GContextual init_state) with (VD []) by (vm_compute; reflexivity).
  rewrite contextual_merge_fresh; auto.
Qed.

(* --- view_options: the deep merge, key by key ------------------------------------------------------------------
   a key given by the inner scope whose outer value and new value are both dicts is merged recursively
   (atom_merge), any other new value replaces the outer one, keys not mentioned keep the outer value *)
Definition merge_rule (outer new : option atom) : option atom :=
  match outer, new with
  | Some o, Some n => Some (atom_merge o n)
  | Some o, None => Some o
  | None, n => n
  end.

Theorem view_options_deep_merge : forall b a n, nodup_keys b = true ->
  dict_get n (dict_merge a b) = merge_rule (dict_get n a) (dict_get n b).
Proof.
  unfold dict_merge. induction b as [|[k v] r IH]; intros a n ND; simpl.
  - destruct (dict_get n a); reflexivity.
  - simpl in ND. apply andb_prop in ND. destruct ND as [N1 N2]. rewrite IH by assumption.
    destruct (Z.eqb_spec n k) as [->|D].
    + rewrite dict_get_set_same. unfold dict_has in N1. destruct (dict_get k r); try discriminate.
      destruct (dict_get k a); reflexivity.
    + rewrite dict_get_set_other by assumption. reflexivity.
Qed.

(* the recursion: inside a dict-valued option the same rule applies one level down, and a non-dict on either side
   means replacement *)
Lemma atom_merge_dicts : forall od nd, atom_merge (AD od) (AD nd) = AD (dict_merge od nd).
Proof.
  intros od nd. cbn [atom_merge]. f_equal. unfold dict_merge. revert od.
  induction nd as [|[k v] r IH]; intros od; simpl; auto.
Qed.
Lemma atom_merge_replace : forall o n, (forall d, n <> AD d) \/ (forall d, o <> AD d) -> atom_merge o n = n.
Proof.
  intros o n [H|H]; destruct n; try reflexivity; destruct o; try reflexivity.
  - exfalso. eapply H; reflexivity.
  - exfalso. eapply H; reflexivity.
Qed.

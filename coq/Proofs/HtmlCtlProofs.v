(* HtmlCtlProofs.v — the JavaScript literal of any string ends at its closing quote and decodes to the string; the controls are
   well formed and emit their own vocabulary only (property C20). *)
From PG Require Import Common.Tactics Model.Html Model.HtmlDoc Model.HtmlCtl Proofs.HtmlProofs Proofs.HtmlTreeView.
From Coq Require Import NArith.
Local Open Scope N_scope.

(* ------------------------------------------------------------------------------------------ *)
(* JavaScript strings                                                                            *)
Inductive js_class (c : N) : Prop :=
| jc_bsl : c = c_bsl -> js_class c
| jc_quot : c = c_quot -> js_class c
| jc_cr : c = c_cr -> js_class c
| jc_lf : c = c_lf -> js_class c
| jc_tab : c = c_tab -> js_class c
| jc_plain : (c =? c_bsl) = false -> (c =? c_quot) = false -> (c =? c_cr) = false -> (c =? c_lf) = false ->
             esc_js_char c = [c] -> js_class c.
Lemma js_classify : forall c, js_class c.
Proof.
  intro c.
  destruct (c =? c_bsl) eqn:E1; [apply jc_bsl; now apply N.eqb_eq|].
  destruct (c =? c_quot) eqn:E2; [apply jc_quot; now apply N.eqb_eq|].
  destruct (c =? c_cr) eqn:E3; [apply jc_cr; now apply N.eqb_eq|].
  destruct (c =? c_lf) eqn:E4; [apply jc_lf; now apply N.eqb_eq|].
  destruct (c =? c_tab) eqn:E5; [apply jc_tab; now apply N.eqb_eq|].
  apply jc_plain; auto. unfold esc_js_char. now rewrite E1, E2, E3, E4, E5.
Qed.

Lemma escape_js_cons : forall c s, escape_js (c :: s) = esc_js_char c ++ escape_js s.
Proof. reflexivity. Qed.

Lemma lex_js_char : forall c acc tail,
  lex_js_body false acc (esc_js_char c ++ tail) = lex_js_body false (acc ++ [c]) tail.
Proof.
  intros c acc tail.
  destruct (js_classify c) as [->| ->| ->| ->| ->|E1 E2 E3 E4 E]; try reflexivity.
  rewrite E. cbn [app lex_js_body]. now rewrite E1, E2, E3, E4.
Qed.

Lemma lex_js_escape : forall s acc rest,
  lex_js_body false acc (escape_js s ++ c_quot :: rest) = Some (acc ++ s, rest).
Proof.
  induction s as [|c s IH]; intros acc rest.
  - cbn. now rewrite app_nil_r.
  - rewrite escape_js_cons, <- app_assoc, lex_js_char, IH. now rewrite <- app_assoc.
Qed.

(* the literal written for s, followed by anything, is read as exactly s, and the rest is untouched *)
Theorem js_literal_lex : forall s rest, lex_js_string (js_literal s ++ rest) = Some (s, rest).
Proof.
  intros s rest. unfold js_literal, lex_js_string. cbn [app]. rewrite N.eqb_refl.
  rewrite <- app_assoc. cbn [app]. apply lex_js_escape.
Qed.

(* no raw line terminator and no raw double quote inside the literal body: every double quote of the body is preceded by a backslash
   that is not itself escaped -- stated through the lexer above; in character terms: *)
Lemma escape_js_no_newline : forall s, forallb (fun c => negb ((c =? c_cr) || (c =? c_lf))) (escape_js s) = true.
Proof.
  induction s as [|c s IH]; [reflexivity|].
  rewrite escape_js_cons, forallb_app, IH, andb_true_r.
  destruct (js_classify c) as [->| ->| ->| ->| ->|E1 E2 E3 E4 E]; try reflexivity.
  rewrite E. cbn. now rewrite E3, E4.
Qed.

(* the update scripts: a constant prefix that depends on the element id only, then the literal, then a semicolon *)
Theorem update_text_script_lex : forall id s,
  update_text_script id s = (js_prefix id ++ s_js_text) ++ js_literal s ++ [c_semi] /\
  lex_js_string (js_literal s ++ [c_semi]) = Some (s, [c_semi]).
Proof. intros id s. split; [unfold update_text_script; now rewrite <- app_assoc|apply js_literal_lex]. Qed.

Theorem update_inner_html_script_lex : forall id ts, Forall names_ok ts ->
  update_inner_html_script id ts = (js_prefix id ++ s_js_inner) ++ js_literal (render_list ts) ++ [c_semi] /\
  exists markup, lex_js_string (js_literal (render_list ts) ++ [c_semi]) = Some (markup, [c_semi]) /\
                 parse_html markup = Some (normalize ts).
Proof.
  intros id ts H. split; [unfold update_inner_html_script; now rewrite <- app_assoc|].
  exists (render_list ts). split; [apply js_literal_lex|now apply render_parse_list].
Qed.

(* ------------------------------------------------------------------------------------------ *)
(* controls: well formed, own vocabulary                                                         *)
Section Vocab.
  Variables (T O A : list str).
  Fixpoint wfbg (t : hnode) : bool :=
    match t with
    | El tag opts attrs kids =>
        (name_okb tag && str_mem tag T)
        && forallb (fun o => name_okb o && str_mem o O) opts
        && forallb (fun a => name_okb (fst a) && str_mem (fst a) A) attrs
        && forallb wfbg kids
    | Txt _ => true
    | Raw _ => false
    | RawEl _ _ => false
    end.
  Hypothesis T_not_raw : forallb (fun t => negb (is_raw_tag t)) T = true.

  Lemma wfbg_names_ok : forall t, wfbg t = true -> names_ok t.
  Proof.
    unfold names_ok.
    induction t as [tag opts attrs kids IH|s|s|tag body] using hnode_ind'; intros H; [|reflexivity|discriminate|discriminate].
    cbn [wfbg] in H. cbn [names_okb].
    apply andb_prop in H; destruct H as [H Hk]. apply andb_prop in H; destruct H as [H Ha].
    apply andb_prop in H; destruct H as [Ht Ho]. apply andb_prop in Ht; destruct Ht as [Ht Hv].
    assert (Hr : is_raw_tag tag = false).
    { apply str_mem_In in Hv. rewrite forallb_forall in T_not_raw. specialize (T_not_raw _ Hv). now apply negb_true_iff in T_not_raw. }
    rewrite Ht, Hr. cbn [andb negb].
    assert (E1 : forallb name_okb opts = true).
    { rewrite forallb_forall in Ho |- *. intros x Hx. specialize (Ho x Hx). now apply andb_prop in Ho. }
    assert (E2 : forallb (fun a => name_okb (fst a)) attrs = true).
    { rewrite forallb_forall in Ha |- *. intros x Hx. specialize (Ha x Hx). now apply andb_prop in Ha. }
    assert (E3 : forallb names_okb kids = true).
    { rewrite forallb_forall in Hk |- *. rewrite Forall_forall in IH. intros x Hx. apply IH; auto. }
    now rewrite E1, E2, E3.
  Qed.

  Lemma wfbg_vocab : forall t, wfbg t = true ->
    incl (tags_of t) T /\ incl (optnames_of t) O /\ incl (attrnames_of t) A.
  Proof.
    induction t as [tag opts attrs kids IH|s|s|tag body] using hnode_ind'; intros H;
      [|repeat split; intros x [] | discriminate | discriminate].
    cbn [wfbg] in H.
    apply andb_prop in H; destruct H as [H Hk]. apply andb_prop in H; destruct H as [H Ha].
    apply andb_prop in H; destruct H as [Ht Ho]. apply andb_prop in Ht; destruct Ht as [_ Ht].
    rewrite forallb_forall in Hk, Ha, Ho. rewrite Forall_forall in IH.
    unfold tags_of, optnames_of, attrnames_of in *. cbn [collect].
    repeat split; intros x Hx; apply in_app_or in Hx; destruct Hx as [Hx|Hx].
    - destruct Hx as [<-|[]]. now apply str_mem_In.
    - apply in_flat_map in Hx. destruct Hx as (k & Hk1 & Hk2). now apply (IH k Hk1 (Hk k Hk1)).
    - specialize (Ho x Hx). apply andb_prop in Ho. now apply str_mem_In.
    - apply in_flat_map in Hx. destruct Hx as (k & Hk1 & Hk2). now apply (IH k Hk1 (Hk k Hk1)).
    - apply in_map_iff in Hx. destruct Hx as (a & <- & Ha1). specialize (Ha a Ha1). apply andb_prop in Ha. now apply str_mem_In.
    - apply in_flat_map in Hx. destruct Hx as (k & Hk1 & Hk2). now apply (IH k Hk1 (Hk k Hk1)).
  Qed.
End Vocab.

Definition CT := vocabulary_tags ++ control_tags.
Definition CA := vocabulary_attrs ++ control_attrs.
Definition cwfb := wfbg CT vocabulary_opts CA.

Lemma str_mem_app_l : forall x a b, str_mem x a = true -> str_mem x (a ++ b) = true.
Proof. intros x a b H. unfold str_mem in *. rewrite existsb_app, H. reflexivity. Qed.

Lemma wfb_cwfb : forall t, wfb t = true -> cwfb t = true.
Proof.
  induction t as [tag opts attrs kids IH|s|s|tag body] using hnode_ind'; intros H; try exact H.
  cbn [wfb] in H. unfold cwfb. cbn [wfbg].
  apply andb_prop in H; destruct H as [H Hk]. apply andb_prop in H; destruct H as [H Ha].
  apply andb_prop in H; destruct H as [Ht Ho]. apply andb_prop in Ht; destruct Ht as [Ht Hv].
  assert (Hv' : str_mem tag CT = true) by (apply str_mem_app_l; exact Hv).
  rewrite Ht, Hv', Ho. cbn [andb].
  assert (E2 : forallb (fun a => name_okb (fst a) && str_mem (fst a) CA) attrs = true).
  { rewrite forallb_forall in Ha |- *. intros x Hx. specialize (Ha x Hx). apply andb_prop in Ha. destruct Ha as [A1 A2].
    assert (A3 : str_mem (fst x) CA = true) by (apply str_mem_app_l; exact A2). now rewrite A1, A3. }
  assert (E3 : forallb (wfbg CT vocabulary_opts CA) kids = true).
  { rewrite forallb_forall in Hk |- *. rewrite Forall_forall in IH. intros x Hx. apply IH; auto. }
  now rewrite E2, E3.
Qed.

Definition attr_ok (a : str * str) : bool := name_okb (fst a) && str_mem (fst a) CA.
Lemma common_attrs_ok : forall cls c, forallb attr_ok (common_attrs cls c) = true.
Proof.
  intros cls c. unfold common_attrs. rewrite !forallb_app.
  destruct (style_str (c_styles c)); destruct (c_id c); reflexivity.
Qed.
Lemma opt_attr_ok : forall n v, attr_ok (n, []) = true -> forallb attr_ok (opt_attr n v) = true.
Proof. intros n v H. destruct v; cbn; [|reflexivity]. unfold attr_ok in *. cbn [fst] in *. now rewrite H. Qed.

Lemma cwfb_el : forall tag attrs kids,
  name_okb tag && str_mem tag CT = true -> forallb attr_ok attrs = true -> forallb cwfb kids = true ->
  cwfb (El tag [] attrs kids) = true.
Proof. intros tag attrs kids H1 H2 H3. unfold cwfb in *. cbn [wfbg forallb]. unfold attr_ok in H2. now rewrite H1, H2, H3. Qed.

Lemma tooltip_el_ok : forall c s, cwfb (tooltip_el c s) = true.
Proof. intros. unfold tooltip_el. apply cwfb_el; [reflexivity|apply common_attrs_ok|reflexivity]. Qed.

Lemma label_el_ok : forall l, forallb cwfb (label_markup l) = true -> cwfb (label_el l) = true.
Proof.
  intros l Hm. unfold label_el.
  assert (E : cwfb (El (match l_link l with Some _ => s_a | None => s_span end) []
                      (common_attrs [s_label] (l_c l) ++ opt_attr s_href (l_link l) ++ opt_attr s_target (l_target l))
                      (match l_markup l with Some kids => kids | None => [Txt (l_text l)] end)) = true).
  { apply cwfb_el; [destruct (l_link l); reflexivity| |].
    - rewrite !forallb_app, common_attrs_ok, !opt_attr_ok by reflexivity. reflexivity.
    - unfold label_markup in Hm. destruct (l_markup l); [exact Hm|reflexivity]. }
  destruct (l_tip l) as [[tc content]|]; [|exact E].
  apply cwfb_el; [reflexivity|reflexivity|]. cbn [forallb]. now rewrite E, tooltip_el_ok.
Qed.

Lemma tab_nodes_ok : forall f l i, (forall i t, In t l -> cwfb (f i t) = true) -> forallb cwfb (tab_nodes f i l) = true.
Proof.
  induction l as [|t r IH]; intros i H; [reflexivity|]. cbn [tab_nodes forallb].
  rewrite H by (now left). rewrite IH; [reflexivity|]. intros j u Hu. apply H. now right.
Qed.

Lemma forallb_flat_map_in : forall {A} (f : A -> list hnode) (l : list A) x,
  forallb cwfb (flat_map f l) = true -> In x l -> forallb cwfb (f x) = true.
Proof.
  intros A f l x H Hx. apply forallb_forall. intros y Hy. rewrite forallb_forall in H. apply H. apply in_flat_map. eauto.
Qed.

Theorem ctl_node_ok : forall c, forallb cwfb (ctl_markup c) = true -> cwfb (ctl_node c) = true.
Proof.
  destruct c as [l|cm content|cm mk|cm name labels|subs l|cm isleft selected root bid cid tabs]; cbn [ctl_node ctl_markup]; intros Hm.
  - now apply label_el_ok.
  - apply tooltip_el_ok.
  - apply cwfb_el; [reflexivity|apply common_attrs_ok|exact Hm].
  - rewrite forallb_app in Hm. apply andb_prop in Hm. destruct Hm as [Hn Hl].
    apply cwfb_el; [reflexivity|apply common_attrs_ok|]. rewrite forallb_app.
    assert (E : forallb cwfb (map label_el labels) = true).
    { apply forallb_forall. intros x Hx. apply in_map_iff in Hx. destruct Hx as (y & <- & Hy). apply label_el_ok.
      exact (forallb_flat_map_in label_markup labels y Hl Hy). }
    rewrite E, andb_true_r. destruct name; [cbn [forallb]; now rewrite label_el_ok|reflexivity].
  - apply cwfb_el; [reflexivity|reflexivity|]. cbn [forallb]. rewrite label_el_ok by exact Hm. cbn [andb]. rewrite ?andb_true_r.
    apply cwfb_el; [reflexivity|reflexivity|].
    apply forallb_forall. intros x Hx. apply in_map_iff in Hx. destruct Hx as (y & <- & _).
    apply cwfb_el; [reflexivity|apply common_attrs_ok|reflexivity].
  - set (button := fun (i : Z) (t : tab) => El s_button [] _ _).
    set (content := fun (i : Z) (t : tab) => El s_div [] _ _).
    assert (Ht : forall t, In t tabs -> forallb cwfb (label_markup (t_label t)) = true /\
                forallb cwfb (match t_content t with TCLabel l => label_markup l | TCValue _ _ => [] end) = true).
    { intros t Hin. assert (H := forallb_flat_map_in _ tabs t Hm Hin). cbv beta in H. rewrite forallb_app in H. now apply andb_prop in H. }
    assert (Hb : forall i t, In t tabs -> cwfb (button i t) = true).
    { intros i t Hin. subst button. cbv beta. apply cwfb_el; [reflexivity| |cbn [forallb]; rewrite label_el_ok; [reflexivity|apply (Ht t Hin)]].
      rewrite forallb_app. cbn. reflexivity. }
    assert (Hc : forall i t, In t tabs -> cwfb (content i t) = true).
    { intros i t Hin. subst content. cbv beta. apply cwfb_el; [reflexivity| |].
      - rewrite forallb_app, opt_attr_ok by reflexivity. reflexivity.
      - cbn [forallb]. destruct (Ht t Hin) as [_ H2]. destruct (t_content t) as [l|o v]; [now rewrite label_el_ok|].
        unfold tree_view. now rewrite (wfb_cwfb _ (tv_wfb o v _ _ _ _ _ _ _ _)). }
    assert (Hbg : forall attrs, forallb attr_ok attrs = true -> cwfb (El s_div [] attrs (tab_nodes button 0%Z tabs)) = true).
    { intros attrs Ha. apply cwfb_el; [reflexivity|exact Ha|now apply tab_nodes_ok]. }
    assert (Hcg : forall attrs, forallb attr_ok attrs = true -> cwfb (El s_div [] attrs (tab_nodes content 0%Z tabs)) = true).
    { intros attrs Ha. apply cwfb_el; [reflexivity|exact Ha|now apply tab_nodes_ok]. }
    assert (Ha1 : forall cls v, forallb attr_ok (class_attr cls ++ opt_attr s_id v) = true).
    { intros cls v. rewrite forallb_app, opt_attr_ok by reflexivity. reflexivity. }
    apply cwfb_el; [reflexivity| |].
    + rewrite forallb_app. destruct (style_str (c_styles cm)); reflexivity.
    + destruct isleft; cbn [forallb]; rewrite ?andb_true_r.
      * apply cwfb_el; [reflexivity|reflexivity|]. cbn [forallb].
        rewrite (cwfb_el s_td [] _ eq_refl eq_refl), (cwfb_el s_td [] _ eq_refl eq_refl); [reflexivity| |];
          cbn [forallb]; rewrite ?andb_true_r; [apply Hcg|apply Hbg]; apply Ha1.
      * rewrite (cwfb_el s_tr [] _ eq_refl eq_refl), (cwfb_el s_tr [] _ eq_refl eq_refl); [reflexivity| |];
          cbn [forallb]; rewrite ?andb_true_r; (apply cwfb_el; [reflexivity|reflexivity|]); cbn [forallb]; rewrite ?andb_true_r;
          [apply Hcg|apply Hbg]; apply Ha1.
Qed.

Lemma CT_not_raw : forallb (fun t => negb (is_raw_tag t)) CT = true.
Proof. reflexivity. Qed.

(* markup texts (Html objects given by the application) are part of the page's own markup: they must themselves be
   well-named trees over the vocabulary; plain (str) texts need nothing *)
Definition markup_ok (c : ctl) : Prop := forallb cwfb (ctl_markup c) = true.

Theorem ctl_well_formed : forall c, markup_ok c -> parse_html (render (ctl_node c)) = Some (normalize [ctl_node c]).
Proof. intros c Hm. apply render_parse. exact (wfbg_names_ok CT vocabulary_opts CA CT_not_raw _ (ctl_node_ok c Hm)). Qed.

Lemma markup_ok_plain : forall l, l_markup l = None -> markup_ok (CLabel l).
Proof. intros l H. unfold markup_ok, ctl_markup, label_markup. now rewrite H. Qed.

Theorem ctl_no_injection : forall c, markup_ok c ->
  exists d, parse_html (render (ctl_node c)) = Some d /\
            forall n, In n d -> incl (tags_of n) CT /\ incl (optnames_of n) vocabulary_opts /\ incl (attrnames_of n) CA.
Proof.
  intros c Hm. exists (normalize [ctl_node c]). split; [now apply ctl_well_formed|].
  intros n Hn. destruct (wfbg_vocab CT vocabulary_opts CA _ (ctl_node_ok c Hm)) as (H1 & H2 & H3).
  repeat split; intros x Hx.
  - apply H1. assert (E := collect_normalize (fun tag _ _ => [tag]) [ctl_node c]).
    cbn [flat_map] in E. rewrite app_nil_r in E. unfold tags_of. rewrite <- E. apply in_flat_map. eauto.
  - apply H2. assert (E := collect_normalize (fun _ opts _ => opts) [ctl_node c]).
    cbn [flat_map] in E. rewrite app_nil_r in E. unfold optnames_of. rewrite <- E. apply in_flat_map. eauto.
  - apply H3. assert (E := collect_normalize (fun _ _ attrs => map fst attrs) [ctl_node c]).
    cbn [flat_map] in E. rewrite app_nil_r in E. unfold attrnames_of. rewrite <- E. apply in_flat_map. eauto.
Qed.

Example markup_ok_example :
  markup_ok (CLabel (mkLabel (mkCommon None [] []) None None [] None
                             (Some [El s_span [] (class_attr [s_label]) [Txt s_k_i_closed]; Txt s_k_i]))).
Proof. reflexivity. Qed.

(* TypingUnionChild.v — a Union child extending a Union base with a safe dispatch: every candidate of
   the child extends the base candidate of its class. *)
From PG Require Import Common.Tactics Model.Typing Proofs.TypingBasics Proofs.TypingApply Proofs.TypingDict
                       Proofs.TypingApplyDict Proofs.TypingCompat Proofs.TypingCompatDict Proofs.TypingUnion
                       Proofs.TypingUnionCompat Proofs.TypingExtend Proofs.TypingTheorems Proofs.TypingExtendFrozen
                       Proofs.TypingUnionExtend Proofs.TypingExtendFrozenBase.
Local Open Scope Z_scope.
Local Arguments Z.mul : simpl never.

Lemma cand_simple_set_default : forall s d, cand_simple (set_default s d) = cand_simple s.
Proof. destruct s; reflexivity. Qed.

(* extending a simple unfrozen spec gives a simple unfrozen spec *)
Lemma extend_class_simple : forall q c b s, cand_simple c = true -> no_schema b = true ->
  extend_class q c b = Ok s -> cand_simple s = true.
Proof.
  intros q c b s CS NS H. pose proof (extend_class_mods _ _ _ _ NS H) as MS.
  unfold cand_simple in *. rewrite MS. apply andb_true_iff in CS as [F K]. rewrite F. simpl.
  destruct c; try discriminate; cbn [extend_class] in H.
  - inv H; auto.
  - destruct b; try discriminate. destruct (number_extend lo hi lo0 hi0); inv H; auto.
  - destruct b; try discriminate. destruct (number_extend lo hi lo0 hi0); inv H; auto.
  - inv H; auto.
  - destruct b; try discriminate. destruct (listkey_extend mn mx mn0 mx0); simpl in H; try discriminate.
    destruct (extend_in q c b); inv H; auto.
  - destruct b; try discriminate.
    repeat match type of H with
    | (if ?x then _ else _) = _ => destruct x; try discriminate
    | (let? _ := ?x in _) = _ => destruct x; simpl in H; try discriminate
    | match ?x with _ => _ end = _ => destruct x; try discriminate
    end; inv H; auto.
  - destruct b; try discriminate. simpl in NS. destruct schema0; [discriminate|]. inv H; auto.
  - destruct (compat q b (SObj c m)); inv H; auto.
Qed.

Lemma extend_in_simple : forall q c b c', cand_simple c = true -> no_schema b = true -> is_union b = false ->
  extend_in q c b = Ok c' -> cand_simple c' = true.
Proof.
  intros q c b c' CS NS U H.
  destruct (cand_simple_vtype _ CS) as [_ [Fc Uc]].
  rewrite extend_in_eq in H. unfold extend_in1 in H. rewrite Fc, U in H. cbn [andb] in H.
  destruct (frozen_base_bad _ _); [discriminate|].
  destruct (is_any b). { inv H. auto. }
  rewrite andb_false_r in H. cbn [bind] in H.
  repeat match type of H with (if ?x then _ else _) = _ => destruct x; try discriminate end.
  destruct (extend_class q c b) as [s|] eqn:EC; [|discriminate].
  pose proof (extend_class_simple _ _ _ _ CS NS EC) as CSs.
  destruct (revalidate_cases _ _ H) as [[_ E]|[d [d' [_ [_ E]]]]]; subst c'; auto.
  rewrite cand_simple_set_default. auto.
Qed.

Lemma base_candidate_in : forall sc bcs mb bc, forallb cand_simple bcs = true ->
  base_candidate sc (SUnion bcs mb) = Some bc -> In bc bcs.
Proof.
  intros sc bcs mb bc CS H. simpl in H.
  induction bcs as [|x r IH]; [discriminate|].
  simpl in CS. apply andb_true_iff in CS as [Cx Cr].
  destruct (cand_simple_vtype _ Cx) as [_ [_ Ux]].
  destruct (base_candidate sc x) as [p|] eqn:BX.
  - inv H. left. destruct x; try discriminate; simpl in BX;
      match type of BX with (if ?c then _ else _) = _ => destruct c; inv BX end; reflexivity.
  - right. auto.
Qed.

(* what union_extend returns *)
Lemma union_extend_inv : forall f b cs cs', union_extend f b cs = Ok cs' ->
  Forall2 (fun sc sc' => exists bc, base_candidate sc b = Some bc /\ f sc bc = Ok sc') cs cs'.
Proof.
  induction cs as [|sc r IH]; simpl; intros cs' H. { inv H. constructor. }
  destruct (base_candidate sc b) as [bc|] eqn:BC; [|discriminate].
  destruct (f sc bc) as [sc'|] eqn:F; simpl in H; [|discriminate].
  destruct (union_extend f b r) as [r'|] eqn:E; simpl in H; inv H.
  constructor; eauto.
Qed.

Theorem extend_union_child : forall q cs m bcs mb c',
  no_quirks q -> frozen m = false -> frozen mb = false ->
  forallb cand_simple cs = true -> Forall goodf cs ->
  union_safe (SUnion bcs mb) = true -> Forall basef bcs ->
  wf (SUnion bcs mb) -> keys_ok (SUnion bcs mb) = true -> sizes_ok (SUnion bcs mb) = true ->
  (forall x, In x bcs -> noneable (mods_of x) = true -> noneable mb = true) ->
  extend q (SUnion cs m) (SUnion bcs mb) = Ok c' ->
  compat q (SUnion bcs mb) c' = true /\
  (forall v, total v = true -> conforms c' v -> accepts (SUnion bcs mb) v).
Proof.
  intros q cs m bcs mb c' NQ Fc Fb CSc Gcs US BS Wb KB SB NN H.
  pose proof NQ as (Q1 & Q2 & Q3 & Q4 & Q5).
  pose proof US as US0. simpl in US. apply andb_true_iff in US as [US USc]. apply andb_true_iff in US as [CSb PU].
  (* the call *)
  unfold extend in H. cbn [mods_of is_enum] in H. rewrite Fb, Fc in H. cbn [andb] in H.
  rewrite extend_in_eq in H. unfold extend_in1, frozen_base_bad in H.
  cbn [mods_of is_enum is_any is_union same_class] in H. rewrite Fb, Fc in H. cbn [andb negb orb bind] in H.
  cbn [mods_of] in H.
  destruct (negb (noneable mb) && noneable m) eqn:NO; [discriminate|]. apply none_ok_from_check in NO.
  cbn [extend_class] in H.
  destruct (union_extend (extend_in q) (SUnion bcs mb) cs) as [cs'|] eqn:UE; cbn [bind] in H; [|discriminate].
  pose proof (union_extend_inv _ _ _ _ UE) as F2.
  rewrite Forall_forall in Gcs, BS. rewrite forallb_forall in CSc.
  (* every extended candidate: some base candidate is compatible with it; it is simple and good *)
  assert (CAND : forall sc', In sc' cs' ->
            (exists bc, In bc bcs /\ compat q bc sc' = true) /\ goodf sc' /\ cand_simple sc' = true).
  { intros sc' I. destruct (forall2_partner _ _ _ F2 _ I) as [sc [Isc [bc [BC EX]]]].
    pose proof (base_candidate_in _ _ _ _ CSb BC) as Ibc.
    destruct (extend_compat_frozen q NQ sc (Gcs _ Isc) bc sc' (BS _ Ibc) EX) as [CP G'].
    split; [eauto|]. split; auto.
    destruct (BS _ Ibc) as (NUb & NSb & _).
    eapply extend_in_simple; eauto. apply no_union_top; auto. }
  (* the shape of the result *)
  assert (SH : exists m', c' = SUnion cs' m' /\ noneable m' = noneable m /\ frozen m' = false).
  { destruct (revalidate_inv _ _ H) as [E|[d E]]; subst c'.
    - exists m. auto.
    - exists (Mods (noneable m) (Some d) (frozen m)). simpl. auto. }
  destruct SH as [m' [E [Nm Fm]]]. subst c'.
  assert (CP : compat q (SUnion bcs mb) (SUnion cs' m') = true).
  { rewrite compat_eq. unfold compat1. cbn [mods_of]. rewrite compat1_frozen_ok by auto. cbn [andb].
    apply andb_true_iff. split. { unfold none_ok in *. rewrite Nm. exact NO. }
    apply forallb_forall. intros sc' I. destruct (CAND _ I) as [[bc [Ibc CB]] [G' CS']].
    rewrite compat_eq. unfold compat1. cbn [mods_of]. rewrite compat1_frozen_ok by auto. cbn [andb].
    destruct (cand_simple_vtype _ CS') as [_ [_ U']].
    apply andb_true_iff. split.
    - (* noneable *)
      pose proof CB as CB'. rewrite compat_eq in CB'. unfold compat1 in CB'. apply andb_true_iff in CB' as [_ CB'].
      assert (NX : none_ok (mods_of bc) (mods_of sc') = true).
      { rewrite forallb_forall in CSb. pose proof (CSb _ Ibc) as K. unfold cand_simple in K.
        apply andb_true_iff in K as [_ K].
        destruct bc; try discriminate; destruct sc'; try discriminate; cbn [mods_of] in *; bsplit; auto. }
      unfold none_ok in *. destruct (noneable (mods_of sc')) eqn:N; simpl in *; [|apply orb_true_r].
      rewrite orb_false_r in *. eapply NN; eauto.
    - destruct sc'; try discriminate; apply existsb_exists; exists bc; auto. }
  split; auto.
  intros v T Cv.
  assert (AV : avoids q (SUnion bcs mb) = true) by (apply avoids_noq; auto).
  assert (Wc : wf (SUnion cs' m')).
  { apply wf_split. split. { unfold frozen_value_ok. cbn [mods_of]. congruence. }
    simpl. apply Forall_forall. intros sc' I. destruct (CAND _ I) as [_ [(_ & _ & _ & _ & W) _]]. exact W. }
  assert (Kc : keys_ok (SUnion cs' m') = true).
  { simpl. apply forallb_forall. intros sc' I. destruct (CAND _ I) as [_ [(_ & NS' & _) _]].
    apply no_schema_keys_ok; auto. }
  assert (Sc : sizes_ok (SUnion cs' m') = true).
  { simpl. apply forallb_forall. intros sc' I. destruct (CAND _ I) as [_ [(_ & _ & _ & SZ' & _) _]]. exact SZ'. }
  assert (Uc : union_plain (SUnion cs' m') = true).
  { simpl. apply andb_true_iff. split; apply forallb_forall; intros sc' I; destruct (CAND _ I) as [_ [G' CS']].
    + destruct (cand_simple_vtype _ CS') as [V [F' U']]. unfold cand_plain. rewrite F', U', V. reflexivity.
    + destruct G' as (NU' & _). apply no_union_plain; auto. }
  exact (compat_sound_union q (SUnion bcs mb) US0 AV (SUnion cs' m') Wb Wc Kc Sc Uc CP v T Cv).
Qed.

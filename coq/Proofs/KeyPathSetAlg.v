(* KeyPathSetAlg.v — difference_update / intersection_update / update on well-formed tries compute
   set difference / intersection / union. *)
From PG Require Import Common.Tactics Model.KeyPath Proofs.KeyPathArith Proofs.KeyPathSetBase Proofs.KeyPathSetOps.

(* ---- filtering / rewriting the entries of a dict, keeping the keys --------------------------------------------------- *)
Fixpoint fmap (f : mkey -> tnode -> option tnode) (l : trie) : trie :=
  match l with
  | [] => []
  | (m, v) :: r => match f m v with Some v' => (m, v') :: fmap f r | None => fmap f r end
  end.

Lemma fmap_keys_in : forall f l m, In m (keys_of (fmap f l)) -> In m (keys_of l).
Proof.
  induction l as [| [m0 v0] r IH]; simpl; intros m H; auto.
  destruct (f m0 v0); simpl in H; [destruct H |]; auto.
Qed.

Lemma fmap_nodup : forall f l, NoDup (keys_of l) -> NoDup (keys_of (fmap f l)).
Proof.
  induction l as [| [m0 v0] r IH]; simpl; intros H; auto.
  inv H. destruct (f m0 v0); simpl; auto. constructor; auto. intros F. apply H2. eapply fmap_keys_in; eauto.
Qed.

Lemma fmap_aget : forall f l m, NoDup (keys_of l) ->
  aget m (fmap f l) = match aget m l with Some v => f m v | None => None end.
Proof.
  induction l as [| [m0 v0] r IH]; simpl; intros m H; auto.
  inv H. destruct (mkey_eqb m m0) eqn:E.
  - apply mkey_eqb_eq in E. subst. destruct (f m0 v0) eqn:F; simpl.
    + rewrite mkey_eqb_refl. reflexivity.
    + apply aget_none_notin. intros G. apply H2. eapply fmap_keys_in; eauto.
  - destruct (f m0 v0); simpl; [rewrite E |]; auto.
Qed.

Lemma fmap_entries : forall q f l, (forall m v v', In (m, v) l -> f m v = Some v' -> entry_ok q (m, v')) ->
  Forall (entry_ok q) (fmap f l).
Proof.
  induction l as [| [m0 v0] r IH]; simpl; intros H; auto.
  destruct (f m0 v0) eqn:F.
  - constructor; [eapply H; eauto | apply IH; intros; eapply H; eauto].
  - apply IH; intros; eapply H; eauto.
Qed.

Definition diff_f (sk : trie) (m : mkey) (v : tnode) : option tnode :=
  match aget m sk with
  | None => Some v
  | Some sv =>
      match m with
      | MTerm => None
      | MK _ => let v' := diff_node v sv in if node_empty v' then None else Some v'
      end
  end.

Definition inter_f (sk : trie) (m : mkey) (v : tnode) : option tnode :=
  match aget m sk with
  | None => None
  | Some sv =>
      match m with
      | MTerm => Some v
      | MK _ => let v' := inter_node v sv in if node_empty v' then None else Some v'
      end
  end.

Lemma diff_node_dict : forall tk sk, diff_node (TDict tk) (TDict sk) = TDict (fmap (diff_f sk) tk).
Proof.
  intros tk sk. cbn [diff_node]. f_equal.
  induction tk as [| [m v] r IH]; [reflexivity |].
  cbn [fmap]. unfold diff_f at 1. rewrite <- IH.
  destruct (aget m sk); [| reflexivity]. destruct m; [reflexivity |].
  cbv zeta. destruct (node_empty (diff_node v t)); reflexivity.
Qed.

Lemma inter_node_dict : forall tk sk, inter_node (TDict tk) (TDict sk) = TDict (fmap (inter_f sk) tk).
Proof.
  intros tk sk. cbn [inter_node]. f_equal.
  induction tk as [| [m v] r IH]; [reflexivity |].
  cbn [fmap]. unfold inter_f at 1. rewrite <- IH.
  destruct (aget m sk); [| reflexivity]. destruct m; [reflexivity |].
  cbv zeta. destruct (node_empty (inter_node v t)); reflexivity.
Qed.

Lemma node_empty_false : forall rk, node_empty (TDict rk) = false -> nonempty_dict (TDict rk).
Proof. destruct rk; simpl; [discriminate | auto]. Qed.

Lemma node_empty_true : forall n, node_empty n = true -> n = TDict [].
Proof. destruct n as [| [| x r]]; simpl; congruence. Qed.

(* ---- difference ------------------------------------------------------------------------------------------------------ *)
Definition diff_P (q : quirks) (t : tnode) : Prop :=
  forall tk, t = TDict tk -> wf q t -> forall sk, wf q (TDict sk) ->
  exists rk, diff_node t (TDict sk) = TDict rk /\ wf q (TDict rk) /\
    forall p', cleanp q p' -> memb q p' (TDict rk) = memb q p' t && negb (memb q p' (TDict sk)).

Lemma diff_spec_all : forall q t, diff_P q t.
Proof.
  intros q. apply tnode_ind'; unfold diff_P.
  - intros tk H. discriminate.
  - intros kids IH tk Ht Hw sk Hs. inv Ht.
    rewrite diff_node_dict. eexists. split; [reflexivity |].
    pose proof (proj1 (wf_dict _ _) Hw) as [Hnd Hent].
    rewrite Forall_forall in IH, Hent.
    assert (forall k v sv, aget (MK k) tk = Some v -> aget (MK k) sk = Some sv ->
              exists rk, diff_node v sv = TDict rk /\ wf q (TDict rk) /\
                forall p', cleanp q p' -> memb q p' (TDict rk) = memb q p' v && negb (memb q p' sv)) as Hkid.
    { intros k v sv E1 E2.
      destruct (wf_child _ _ _ _ Hw E1) as (vk & -> & _ & Hvw).
      destruct (wf_child _ _ _ _ Hs E2) as (svk & -> & _ & Hsw).
      apply (IH (MK k, TDict vk) (aget_in _ _ _ E1) vk eq_refl Hvw svk Hsw). }
    split.
    + apply wf_dict. split; [apply fmap_nodup; assumption |].
      apply fmap_entries. intros m v v' Hin Hf. unfold diff_f in Hf.
      pose proof (Hent _ Hin) as Hok.
      destruct (aget m sk) eqn:E2; [| inv Hf; exact Hok].
      destruct m as [| k]; [discriminate |]. cbv zeta in Hf.
      destruct (Hkid k v t (in_aget _ _ _ Hnd Hin) E2) as (rk & Hd & Hrw & _).
      rewrite Hd in Hf. destruct (node_empty (TDict rk)) eqn:Ne; inv Hf.
      destruct Hok as (Hc & _ & _). split; [exact Hc |]. split; [apply node_empty_false; assumption | assumption].
    + intros [| k r] Hp'; cbn [memb].
      * unfold ahas. rewrite fmap_aget by assumption. unfold diff_f.
        destruct (aget MTerm tk); [| reflexivity]. destruct (aget MTerm sk); reflexivity.
      * inv Hp'. rewrite H1. rewrite fmap_aget by assumption. unfold diff_f.
        destruct (aget (MK k) tk) eqn:E1; [| reflexivity].
        destruct (aget (MK k) sk) eqn:E2; [| rewrite andb_true_r; reflexivity].
        cbv zeta. destruct (Hkid k t t0 E1 E2) as (rk & Hd & _ & Hlaw). rewrite Hd.
        rewrite <- (Hlaw r H2).
        destruct (node_empty (TDict rk)) eqn:Ne; [| reflexivity].
        apply node_empty_true in Ne. inv Ne. rewrite memb_empty. reflexivity.
Qed.

(* ---- intersection ------------------------------------------------------------------------------------------------------ *)
Definition inter_P (q : quirks) (t : tnode) : Prop :=
  forall tk, t = TDict tk -> wf q t -> forall sk, wf q (TDict sk) ->
  exists rk, inter_node t (TDict sk) = TDict rk /\ wf q (TDict rk) /\
    forall p', cleanp q p' -> memb q p' (TDict rk) = memb q p' t && memb q p' (TDict sk).

Lemma inter_spec_all : forall q t, inter_P q t.
Proof.
  intros q. apply tnode_ind'; unfold inter_P.
  - intros tk H. discriminate.
  - intros kids IH tk Ht Hw sk Hs. inv Ht.
    rewrite inter_node_dict. eexists. split; [reflexivity |].
    pose proof (proj1 (wf_dict _ _) Hw) as [Hnd Hent].
    rewrite Forall_forall in IH, Hent.
    assert (forall k v sv, aget (MK k) tk = Some v -> aget (MK k) sk = Some sv ->
              exists rk, inter_node v sv = TDict rk /\ wf q (TDict rk) /\
                forall p', cleanp q p' -> memb q p' (TDict rk) = memb q p' v && memb q p' sv) as Hkid.
    { intros k v sv E1 E2.
      destruct (wf_child _ _ _ _ Hw E1) as (vk & -> & _ & Hvw).
      destruct (wf_child _ _ _ _ Hs E2) as (svk & -> & _ & Hsw).
      apply (IH (MK k, TDict vk) (aget_in _ _ _ E1) vk eq_refl Hvw svk Hsw). }
    split.
    + apply wf_dict. split; [apply fmap_nodup; assumption |].
      apply fmap_entries. intros m v v' Hin Hf. unfold inter_f in Hf.
      pose proof (Hent _ Hin) as Hok.
      destruct (aget m sk) eqn:E2; [| discriminate].
      destruct m as [| k]; [inv Hf; exact Hok |]. cbv zeta in Hf.
      destruct (Hkid k v t (in_aget _ _ _ Hnd Hin) E2) as (rk & Hd & Hrw & _).
      rewrite Hd in Hf. destruct (node_empty (TDict rk)) eqn:Ne; inv Hf.
      destruct Hok as (Hc & _ & _). split; [exact Hc |]. split; [apply node_empty_false; assumption | assumption].
    + intros [| k r] Hp'; cbn [memb].
      * unfold ahas. rewrite fmap_aget by assumption. unfold inter_f.
        destruct (aget MTerm tk); [| reflexivity]. destruct (aget MTerm sk); reflexivity.
      * inv Hp'. rewrite H1. rewrite fmap_aget by assumption. unfold inter_f.
        destruct (aget (MK k) tk) eqn:E1; [| reflexivity].
        destruct (aget (MK k) sk) eqn:E2; [| rewrite andb_false_r; reflexivity].
        cbv zeta. destruct (Hkid k t t0 E1 E2) as (rk & Hd & _ & Hlaw). rewrite Hd.
        rewrite <- (Hlaw r H2).
        destruct (node_empty (TDict rk)) eqn:Ne; [| reflexivity].
        apply node_empty_true in Ne. inv Ne. rewrite memb_empty. reflexivity.
Qed.

(* ---- union ----------------------------------------------------------------------------------------------------------- *)
Definition merge_step (acc : trie) (mv : mkey * tnode) : trie :=
  match fst mv, aget (fst mv) acc with
  | MK _, Some tv => aset (fst mv) (merge_node tv (snd mv)) acc
  | _, _ => aset (fst mv) (snd mv) acc
  end.

Lemma merge_node_dict : forall tk sk, merge_node (TDict tk) (TDict sk) = TDict (fold_left merge_step sk tk).
Proof.
  intros tk sk. cbn [merge_node]. f_equal. revert tk.
  induction sk as [| [m v] r IH]; intros tk; [reflexivity |].
  cbn [fold_left]. rewrite <- IH. unfold merge_step. cbn [fst snd]. destruct m; reflexivity.
Qed.

Definition merged (acc : trie) (m : mkey) (v : tnode) : tnode :=
  match m, aget m acc with MK _, Some tv => merge_node tv v | _, _ => v end.

Lemma merge_step_aset : forall acc m v, merge_step acc (m, v) = aset m (merged acc m v) acc.
Proof. intros. unfold merge_step, merged. cbn [fst snd]. destruct m; [reflexivity |]. destruct (aget (MK k) acc); reflexivity. Qed.

Lemma fold_merge_aget : forall l acc m, NoDup (keys_of l) ->
  aget m (fold_left merge_step l acc) =
  match aget m l with None => aget m acc | Some v => Some (merged acc m v) end.
Proof.
  induction l as [| [m0 v0] r IH]; intros acc m Hn; cbn [fold_left aget]; auto.
  inv Hn. rewrite IH by assumption. rewrite merge_step_aset.
  destruct (mkey_eqb m m0) eqn:E.
  - apply mkey_eqb_eq in E. subst. apply aget_none_notin in H1. rewrite H1. apply aget_aset_same.
  - assert (m0 <> m) as Hneq by (intros F; subst; rewrite mkey_eqb_refl in E; discriminate).
    rewrite aget_aset_other by assumption.
    destruct (aget m r); [| reflexivity]. unfold merged. destruct m; [reflexivity |]. rewrite aget_aset_other by assumption. reflexivity.
Qed.

Lemma fold_merge_nodup : forall l acc, NoDup (keys_of acc) -> NoDup (keys_of (fold_left merge_step l acc)).
Proof.
  induction l as [| [m0 v0] r IH]; intros acc H; cbn [fold_left]; auto.
  apply IH. rewrite merge_step_aset. apply nodup_aset. assumption.
Qed.

Lemma fold_merge_nonempty : forall l acc, acc <> [] -> fold_left merge_step l acc <> [].
Proof.
  induction l as [| [m0 v0] r IH]; intros acc H; cbn [fold_left]; auto.
  apply IH. rewrite merge_step_aset. apply aset_nonempty.
Qed.

Lemma fold_merge_nonempty' : forall l acc, l <> [] -> fold_left merge_step l acc <> [].
Proof.
  intros [| [m0 v0] r] acc H; [congruence |]. cbn [fold_left]. apply fold_merge_nonempty.
  rewrite merge_step_aset. apply aset_nonempty.
Qed.

Lemma fold_merge_entries : forall q l acc, Forall (entry_ok q) acc ->
  (forall m v acc', In (m, v) l -> Forall (entry_ok q) acc' -> entry_ok q (m, merged acc' m v)) ->
  Forall (entry_ok q) (fold_left merge_step l acc).
Proof.
  induction l as [| [m0 v0] r IH]; intros acc Ha H; cbn [fold_left]; auto.
  apply IH.
  - rewrite merge_step_aset. apply entry_ok_aset; auto. apply H; simpl; auto.
  - intros; apply H; simpl; auto.
Qed.

Definition merge_P (q : quirks) (s : tnode) : Prop :=
  forall sk, s = TDict sk -> wf q s -> forall tk, wf q (TDict tk) ->
  exists rk, merge_node (TDict tk) s = TDict rk /\ wf q (TDict rk) /\ (tk <> [] \/ sk <> [] -> rk <> []) /\
    forall p', cleanp q p' -> memb q p' (TDict rk) = memb q p' (TDict tk) || memb q p' s.

Lemma merge_spec_all : forall q s, merge_P q s.
Proof.
  intros q. apply tnode_ind'; unfold merge_P.
  - intros sk H. discriminate.
  - intros kids IH sk Hs Hw tk Ht. inv Hs.
    rewrite merge_node_dict. eexists. split; [reflexivity |].
    pose proof (proj1 (wf_dict _ _) Hw) as [Hnd Hent].
    pose proof (proj1 (wf_dict _ _) Ht) as [Htnd Htent].
    rewrite Forall_forall in IH, Hent.
    split; [| split].
    + apply wf_dict. split; [apply fold_merge_nodup; assumption |].
      apply fold_merge_entries; [assumption |].
      intros m v acc' Hin Hacc. pose proof (Hent _ Hin) as Hok. unfold merged.
      destruct m as [| k]; [exact Hok |].
      destruct (aget (MK k) acc') eqn:E; [| exact Hok].
      rewrite Forall_forall in Hacc. pose proof (Hacc _ (aget_in _ _ _ E)) as (Hc & Hne & Htw). cbn [fst snd] in *.
      destruct Hok as (_ & Hvne & Hvw).
      destruct t as [| tvk]; [contradiction |]. destruct v as [| vk]; [contradiction |].
      destruct (IH _ Hin vk eq_refl Hvw tvk Htw) as (rk & Hm & Hrw & Hrne & _). cbn [snd] in Hm.
      rewrite Hm. split; [exact Hc |]. split; [| exact Hrw].
      assert (rk <> []) as R by (apply Hrne; left; destruct tvk; [contradiction | discriminate]).
      destruct rk; [congruence | exact I].
    + intros [H | H]; [apply fold_merge_nonempty | apply fold_merge_nonempty']; assumption.
    + intros [| k r] Hp'; cbn [memb].
      * unfold ahas. rewrite fold_merge_aget by assumption.
        destruct (aget MTerm sk); [rewrite orb_true_r | rewrite orb_false_r]; reflexivity.
      * inv Hp'. rewrite H1. rewrite fold_merge_aget by assumption.
        destruct (aget (MK k) sk) eqn:E2; [| rewrite orb_false_r; reflexivity].
        unfold merged. destruct (aget (MK k) tk) eqn:E1; [| reflexivity].
        destruct (wf_child _ _ _ _ Ht E1) as (tvk & -> & _ & Htw).
        destruct (wf_child _ _ _ _ Hw E2) as (vk & -> & _ & Hvw).
        destruct (IH _ (aget_in _ _ _ E2) vk eq_refl Hvw tvk Htw) as (rk & Hm & _ & _ & Hlaw). cbn [snd] in Hm.
        rewrite Hm. apply Hlaw. assumption.
Qed.

(* BindingProofs.v — the functor pipeline of Model/Binding.v binds exactly the effective arguments
   (property C18): construction, later bindings and the call are related step by step to the
   specification [supply]; the call finally made on the wrapped function is literally the
   effective call. *)
From PG Require Import Common.Tactics Common.Tr Model.Binding Proofs.BindingMaps.
From Coq Require Import NArith.
Local Open Scope N_scope.

Definition names (ps : list (name * option val)) : list name := map fst ps.

Record wf_sig (s : sig) : Prop := {
  wf_nodup : NoDup (names (params s));
  wf_va : forall a, varargs s = Some a -> ~ In a (names (params s)) }.

(* ---- small facts ---------------------------------------------------------------------------------- *)
Lemma smem_sadd : forall s k k', smem k' (sadd k s) = N.eqb k' k || smem k' s.
Proof. intros; unfold smem, sadd; apply kmem_kset. Qed.
Lemma smem_sdel : forall s k k', smem k' (sdel k s) = negb (N.eqb k' k) && smem k' s.
Proof. intros; unfold smem, sdel; apply kmem_kdel. Qed.
Lemma smem_nil : forall k, smem k [] = false.
Proof. reflexivity. Qed.

Lemma existsb_names : forall (ps : list (name * option val)) k,
  existsb (fun p => N.eqb (fst p) k) ps = true <-> In k (names ps).
Proof.
  induction ps as [|[n d] r IH]; intros k; simpl; [split; [discriminate|tauto]|].
  rewrite orb_true_iff, IH, N.eqb_eq. tauto.
Qed.
Lemma is_param_in : forall s k, is_param s k = true <-> In k (names (params s)).
Proof. intros; unfold is_param; apply existsb_names. Qed.
Lemma names_params : forall s, names (params s) = names (pos s) ++ names (kwonly s).
Proof. intros; unfold names, params; apply map_app. Qed.
Lemma pos_is_param : forall s n, In n (names (pos s)) -> is_param s n = true.
Proof. intros s n H; apply is_param_in; rewrite names_params; apply in_or_app; left; exact H. Qed.
Lemma is_va_name : forall s k, is_va s k = true -> has_va s = true /\ va_name s = k.
Proof.
  unfold is_va, has_va, va_name; intros s k H; destruct (varargs s); [|discriminate].
  apply N.eqb_eq in H; subst; auto.
Qed.
Lemma is_va_va_name : forall s, has_va s = true -> is_va s (va_name s) = true.
Proof. unfold is_va, has_va, va_name; intros s H; destruct (varargs s); [apply N.eqb_refl|discriminate]. Qed.
Lemma va_not_param : forall s k, wf_sig s -> is_va s k = true -> is_param s k = false.
Proof.
  intros s k W H. destruct (is_param s k) eqn:P; [|reflexivity].
  apply is_param_in in P. unfold is_va in H. destruct (varargs s) eqn:V; [|discriminate].
  apply N.eqb_eq in H; subst. exfalso; eapply wf_va; eauto.
Qed.
Lemma param_not_va : forall s k, wf_sig s -> is_param s k = true -> is_va s k = false.
Proof. intros s k W P. destruct (is_va s k) eqn:V; [|reflexivity]. rewrite (va_not_param s k W V) in P; discriminate. Qed.
Lemma nodup_app_l : forall {A} (l1 l2 : list A), NoDup (l1 ++ l2) -> NoDup l1.
Proof.
  induction l1 as [|a r IH]; intros l2 H; [constructor|].
  simpl in H; inversion H; subst. constructor; [|eapply IH; eauto].
  intros I; apply H2; apply in_or_app; left; exact I.
Qed.
Lemma nodup_pos : forall s, wf_sig s -> NoDup (names (pos s)).
Proof. intros s W. pose proof (wf_nodup s W) as H. rewrite names_params in H. eapply nodup_app_l; eauto. Qed.
Lemma is_va_false_neq : forall s k, has_va s = true -> is_va s k = false -> N.eqb (va_name s) k = false.
Proof. unfold is_va, has_va, va_name; intros s k H V; destruct (varargs s); [exact V|discriminate]. Qed.
Lemma no_va_is_va : forall s k, has_va s = false -> is_va s k = false.
Proof. unfold is_va, has_va; intros s k H; destruct (varargs s); [discriminate|reflexivity]. Qed.

Lemma same_scalar_eq : forall a b, same_scalar a b = true -> a = b.
Proof. intros [x|x] [y|y]; simpl; try discriminate. intros H; apply Z.eqb_eq in H; subst; reflexivity. Qed.

(* ---- positional binding ---------------------------------------------------------------------------- *)
Lemma supply_pos_nil : forall ps ovr m, supply_pos ps [] ovr m = Ok m.
Proof. intros [|[n d] r]; reflexivity. Qed.
Lemma positional_names_nil : forall ps, positional_names ps [] = [].
Proof. intros [|[n d] r]; reflexivity. Qed.
Lemma bind_positional_nil : forall ps m, bind_positional ps [] m = m.
Proof. intros [|[n d] r]; reflexivity. Qed.

Lemma kmem_bind_positional : forall ps vs m k,
  kmem k (bind_positional ps vs m) = smem k (positional_names ps vs) || kmem k m.
Proof.
  induction ps as [|[n d] r IH]; intros vs m k; simpl; [reflexivity|].
  destruct vs as [|v vs']; [reflexivity|]. simpl.
  rewrite IH, smem_sadd, kmem_kset. destruct (N.eqb k n), (smem k (positional_names r vs')); reflexivity.
Qed.
Lemma positional_names_in : forall ps vs k, smem k (positional_names ps vs) = true -> In k (names ps).
Proof.
  induction ps as [|[n d] r IH]; intros vs k; simpl; [discriminate|].
  destruct vs as [|v vs']; [discriminate|]. rewrite smem_sadd, orb_true_iff, N.eqb_eq.
  intros [H|H]; [left; auto|right; eapply IH; eauto].
Qed.
Lemma ksorted_bind_positional : forall ps vs m, ksorted m -> ksorted (bind_positional ps vs m).
Proof.
  induction ps as [|[n d] r IH]; intros vs m H; simpl; [assumption|].
  destruct vs; [assumption|]. apply IH. apply ksorted_kset; assumption.
Qed.

(* with distinct parameter names, positional supply onto fresh names is plain positional binding *)
Lemma supply_pos_fresh : forall ps vs ovr m, NoDup (names ps) ->
  (forall n, In n (names ps) -> ovr = true \/ kmem n m = false) ->
  supply_pos ps vs ovr m = Ok (bind_positional ps vs m).
Proof.
  induction ps as [|[n d] r IH]; intros vs ovr m ND F; simpl; [destruct vs; reflexivity|].
  destruct vs as [|v vs']; [reflexivity|].
  inversion ND; subst.
  assert (kmem n m && negb ovr = false) as ->.
  { destruct (F n (or_introl eq_refl)) as [-> | ->]; [apply andb_false_r|reflexivity]. }
  apply IH; [assumption|]. intros n' Hn'.
  destruct (F n' (or_intror Hn')) as [?|Hm]; [left; assumption|right].
  rewrite kmem_kset, Hm, orb_false_r. apply N.eqb_neq. intros ->. contradiction.
Qed.

(* ---- construction ------------------------------------------------------------------------------------ *)
Definition lift_eff (r : result eff) : result (kmap val * option (list val)) :=
  match r with Ok e => Ok (enamed e, evar e) | Err x => Err x end.

Lemma ctor_kwargs_supply : forall s kws bk vb given,
  (forall k, smem k given = true -> if is_va s k then vb <> None else kmem k bk = true) ->
  ctor_kwargs s kws bk vb = lift_eff (supply_kw s kws false false given {| enamed := bk; evar := vb |}).
Proof.
  intros s; induction kws as [|[k v] r IH]; intros bk vb given H; simpl; [reflexivity|].
  destruct (smem k given) eqn:G.
  - specialize (H k G). destruct (is_va s k) eqn:V.
    + destruct vb; [reflexivity|contradiction].
    + rewrite H; reflexivity.
  - destruct (is_va s k) eqn:V.
    + destruct vb as [l0|]; [reflexivity|].
      destruct (vals_of_val v) as [l|]; [|reflexivity].
      apply IH. intros k' G'. rewrite smem_sadd in G'.
      destruct (is_va s k') eqn:V'; [discriminate|].
      destruct (N.eqb k' k) eqn:E; [apply N.eqb_eq in E; subst; congruence|].
      simpl in G'. specialize (H k' G'). rewrite V' in H. exact H.
    + rewrite andb_true_r. destruct (kmem k bk) eqn:M; [reflexivity|].
      unfold accepts_key, is_field. rewrite V, orb_false_r.
      destruct (is_param s k || has_kw s) eqn:P; [|reflexivity].
      apply IH. intros k' G'. rewrite smem_sadd in G'.
      destruct (N.eqb k' k) eqn:E.
      * apply N.eqb_eq in E; subst. rewrite V. rewrite kmem_kset, N.eqb_refl; reflexivity.
      * simpl in G'. specialize (H k' G'). destruct (is_va s k'); [exact H|].
        rewrite kmem_kset, H. apply orb_true_r.
Qed.

Lemma given_positional_bound : forall s vs k, wf_sig s ->
  smem k (positional_names (pos s) vs) = true ->
  is_va s k = false /\ kmem k (bind_positional (pos s) vs []) = true.
Proof.
  intros s vs k W H. split.
  - apply param_not_va; [assumption|]. apply pos_is_param. eapply positional_names_in; eauto.
  - rewrite kmem_bind_positional, H; reflexivity.
Qed.

Lemma functor_ctor_supply : forall s c ov ie, wf_sig s ->
  functor_ctor s c ov ie =
  match supply s eff0 c false false with
  | Ok e => Ok (ctor_finish s (enamed e) (evar e) ov ie)
  | Err x => Err x
  end.
Proof.
  intros s c ov ie W. unfold functor_ctor, supply, eff0; simpl.
  rewrite supply_pos_fresh; [|apply nodup_pos; assumption|intros; right; reflexivity].
  destruct (is_nil (skipn (length (pos s)) (cpos c))) eqn:O; simpl.
  - rewrite (ctor_kwargs_supply s (ckw c) _ None (positional_names (pos s) (cpos c))).
    + destruct (supply_kw s (ckw c) false false _ _); reflexivity.
    + intros k G. destruct (given_positional_bound s _ k W G) as [V M]. rewrite V; exact M.
  - destruct (has_va s) eqn:HV; simpl; [|reflexivity].
    rewrite (ctor_kwargs_supply s (ckw c) _ (Some (skipn (length (pos s)) (cpos c)))
               (sadd (va_name s) (positional_names (pos s) (cpos c)))).
    + destruct (supply_kw s (ckw c) false false _ _); reflexivity.
    + intros k G. rewrite smem_sadd in G.
      destruct (is_va s k) eqn:V; [discriminate|].
      rewrite (proj2 (N.eqb_neq _ _)) in G.
      * simpl in G. apply (given_positional_bound s _ k W G).
      * intros ->. rewrite (is_va_va_name s HV) in V; discriminate.
Qed.

(* ---- invariants of the specification side ------------------------------------------------------------ *)
Record eff_ok (s : sig) (e : eff) : Prop := {
  eo_sorted : ksorted (enamed e);
  eo_nova : forall k, is_va s k = true -> kmem k (enamed e) = false;
  eo_noevar : has_va s = false -> evar e = None }.

Lemma eff0_ok : forall s, eff_ok s eff0.
Proof. intros s; constructor; simpl; [constructor|reflexivity|reflexivity]. Qed.

Lemma supply_pos_keys : forall ps vs ovr m m', supply_pos ps vs ovr m = Ok m' ->
  (ksorted m -> ksorted m') /\ (forall k, kmem k m' = true -> kmem k m = true \/ In k (names ps)).
Proof.
  induction ps as [|[n d] r IH]; intros vs ovr m m' H; simpl in H.
  - destruct vs; inversion H; subst; split; auto.
  - destruct vs as [|v vs']; [inversion H; subst; split; auto|].
    destruct (kmem n m && negb ovr); [discriminate|].
    destruct (IH _ _ _ _ H) as [S K]. split.
    + intros Sm. apply S. apply ksorted_kset; assumption.
    + intros k Hk. destruct (K k Hk) as [Q|Q].
      * rewrite kmem_kset in Q. apply orb_true_iff in Q. destruct Q as [Q|Q]; [right; left; apply N.eqb_eq in Q; simpl; auto|left; assumption].
      * right; right; assumption.
Qed.

Lemma supply_kw_ok : forall s kws ovr drop given e e', eff_ok s e ->
  supply_kw s kws ovr drop given e = Ok e' -> eff_ok s e'.
Proof.
  intros s; induction kws as [|[k v] r IH]; intros ovr drop given e e' OK H; simpl in H.
  - inversion H; subst; assumption.
  - destruct (smem k given); [discriminate|].
    destruct (is_va s k) eqn:V.
    + assert (forall l, eff_ok s {| enamed := enamed e; evar := Some l |}) as OK'.
      { intros l; constructor; simpl; [apply OK|apply OK|].
        intros HV. rewrite (no_va_is_va s k HV) in V; discriminate. }
      destruct (evar e), ovr; try discriminate;
        (destruct (vals_of_val v); [eapply IH; [apply OK'|exact H]|discriminate]).
    + destruct (kmem k (enamed e) && negb ovr); [discriminate|].
      destruct (is_param s k || has_kw s).
      * eapply IH; [|exact H]. constructor; simpl.
        -- apply ksorted_kset; apply OK.
        -- intros k' V'. rewrite kmem_kset. rewrite (eo_nova s e OK k' V'), orb_false_r.
           apply N.eqb_neq; intros ->; congruence.
        -- apply OK.
      * destruct drop; [eapply IH; eauto|discriminate].
Qed.

Lemma supply_ok : forall s e c ovr drop e', wf_sig s -> eff_ok s e -> supply s e c ovr drop = Ok e' -> eff_ok s e'.
Proof.
  intros s e c ovr drop e' W OK H. unfold supply in H.
  destruct (supply_pos (pos s) (cpos c) ovr (enamed e)) as [m|] eqn:P; [|discriminate].
  destruct (supply_pos_keys _ _ _ _ _ P) as [S K].
  match type of H with match ?ev with _ => _ end = _ => destruct ev as [v|] eqn:EV; [|discriminate] end.
  eapply supply_kw_ok; [|exact H]. constructor; simpl.
  - apply S; apply OK.
  - intros k V. destruct (kmem k m) eqn:M; [|reflexivity].
    destruct (K k M) as [Q|Q]; [rewrite (eo_nova s e OK k V) in Q; discriminate|].
    pose proof (pos_is_param s k Q) as P1. rewrite (va_not_param s k W V) in P1. discriminate.
  - intros HV. rewrite HV in EV.
    destruct (is_nil (skipn (length (pos s)) (cpos c))); [inversion EV; apply OK; assumption|].
    destruct drop; [inversion EV; apply OK; assumption|discriminate].
Qed.

Lemma supply_lates_ok : forall s lates e e', wf_sig s -> eff_ok s e -> supply_lates s e lates = Ok e' -> eff_ok s e'.
Proof.
  intros s; induction lates as [|kv r IH]; intros e e' W OK H; simpl in H.
  - inversion H; subst; assumption.
  - destruct (supply s e {| cpos := []; ckw := [kv] |} true false) as [e1|] eqn:S1; [|discriminate].
    eapply IH; [assumption| |exact H]. eapply supply_ok; eauto.
Qed.

(* ---- the invariant tying the functor's bookkeeping to the effective arguments ------------------------- *)
Record rel (s : sig) (st : fstate) (e : eff) : Prop := {
  r_spec : forall k, is_va s k = false -> smem k (spec st) = kmem k (enamed e);
  r_va : has_va s = true -> smem (va_name s) (spec st) = match evar e with Some _ => true | None => false end;
  r_attrs : forall k, kmem k (enamed e) = true -> kget k (attrs st) = kget k (enamed e);
  r_unbound : forall k, kmem k (enamed e) = false -> kget k (attrs st) = default_of s k;
  r_vattr : vattr st = match evar e with Some l => l | None => [] end;
  r_sorted : ksorted (attrs st);
  r_nova : forall k, is_va s k = true -> kmem k (attrs st) = false }.

Lemma find_not_in : forall (ps : list (name * option val)) k, ~ In k (names ps) ->
  find (fun p => N.eqb (fst p) k) ps = None.
Proof.
  induction ps as [|[n d] r IH]; intros k H; simpl; [reflexivity|].
  destruct (N.eqb n k) eqn:E; [apply N.eqb_eq in E; subst; exfalso; apply H; left; reflexivity|].
  apply IH. intros I; apply H; right; exact I.
Qed.

Lemma fill_defaults_get : forall ps m k, NoDup (names ps) ->
  kget k (fill_defaults ps m) =
  match kget k m with
  | Some v => Some v
  | None => match find (fun p => N.eqb (fst p) k) ps with Some (_, d) => d | None => None end
  end.
Proof.
  induction ps as [|[n [dv|]] r IH]; intros m k ND; simpl.
  - destruct (kget k m); reflexivity.
  - inversion ND; subst. destruct (kmem n m) eqn:M.
    + rewrite IH by assumption. destruct (kget k m) eqn:G; [reflexivity|].
      destruct (N.eqb n k) eqn:E; [|reflexivity].
      apply N.eqb_eq in E; subst. unfold kmem in M; rewrite G in M; discriminate.
    + rewrite IH by assumption. rewrite kget_kset. destruct (N.eqb k n) eqn:E.
      * apply N.eqb_eq in E; subst. rewrite N.eqb_refl. unfold kmem in M. destruct (kget n m); [discriminate|reflexivity].
      * rewrite N.eqb_sym, E. reflexivity.
  - inversion ND; subst. rewrite IH by assumption. destruct (kget k m) eqn:G; [reflexivity|].
    destruct (N.eqb n k) eqn:E; [|reflexivity].
    apply N.eqb_eq in E; subst. rewrite find_not_in by assumption. reflexivity.
Qed.

Lemma ksorted_fill_defaults : forall ps m, ksorted m -> ksorted (fill_defaults ps m).
Proof.
  induction ps as [|[n [dv|]] r IH]; intros m H; simpl; [assumption| |apply IH; assumption].
  destruct (kmem n m); apply IH; [assumption|apply ksorted_kset; assumption].
Qed.

Lemma ctor_finish_rel : forall s e ov ie, wf_sig s -> eff_ok s e ->
  rel s (ctor_finish s (enamed e) (evar e) ov ie) e.
Proof.
  intros s e ov ie W OK. unfold ctor_finish.
  destruct (classify (params s) (enamed e) [] _) as [d nd]. constructor; simpl.
  - intros k V. destruct (evar e) eqn:EV.
    + rewrite smem_sadd. unfold smem. rewrite kmem_keyset.
      destruct (has_va s) eqn:HV; [|rewrite (eo_noevar s e OK HV) in EV; discriminate].
      rewrite N.eqb_sym, (is_va_false_neq s k HV V). reflexivity.
    + unfold smem. apply kmem_keyset.
  - intros HV. destruct (evar e) eqn:EV.
    + rewrite smem_sadd, N.eqb_refl. reflexivity.
    + unfold smem. rewrite kmem_keyset. apply (eo_nova s e OK). apply is_va_va_name; assumption.
  - intros k M. rewrite fill_defaults_get by apply W. unfold kmem in M. destruct (kget k (enamed e)); [reflexivity|discriminate].
  - intros k M. rewrite fill_defaults_get by apply W. unfold kmem in M. destruct (kget k (enamed e)); [discriminate|reflexivity].
  - reflexivity.
  - apply ksorted_fill_defaults. apply OK.
  - intros k V. unfold kmem. rewrite fill_defaults_get by apply W.
    pose proof (eo_nova s e OK k V) as M. unfold kmem in M. destruct (kget k (enamed e)); [discriminate|].
    rewrite find_not_in; [reflexivity|]. intros I. apply is_param_in in I. rewrite (va_not_param s k W V) in I. discriminate.
Qed.

(* ---- later bindings ---------------------------------------------------------------------------------- *)
Lemma supply_single : forall s e k v,
  supply s e {| cpos := []; ckw := [(k, v)] |} true false =
  if is_va s k then
    match vals_of_val v with
    | Some l => Ok {| enamed := enamed e; evar := Some l |}
    | None => Err ETypeError
    end
  else if is_param s k || has_kw s then Ok {| enamed := kset k v (enamed e); evar := evar e |}
  else Err ETypeError.
Proof.
  intros. unfold supply; simpl. rewrite skipn_nil, supply_pos_nil, positional_names_nil; simpl.
  destruct (is_va s k).
  - destruct (evar e); destruct (vals_of_val v); reflexivity.
  - rewrite andb_false_r. destruct (is_param s k || has_kw s); reflexivity.
Qed.

Lemma rel_set_named : forall s st e k v a' d n, rel s st e -> is_va s k = false ->
  kget k a' = Some v -> (forall k', k' <> k -> kget k' a' = kget k' (attrs st)) -> ksorted a' ->
  rel s {| attrs := a'; vattr := vattr st; spec := sadd k (spec st); dflt := d; nond := n; f_ov := f_ov st; f_ie := f_ie st |}
        {| enamed := kset k v (enamed e); evar := evar e |}.
Proof.
  intros s st e k v a' d n R V G O S. constructor; simpl.
  - intros k' V'. rewrite smem_sadd, kmem_kset, (r_spec s st e R k' V'). reflexivity.
  - intros HV. rewrite smem_sadd, (is_va_false_neq s k HV V). simpl. apply (r_va s st e R HV).
  - intros k' M. rewrite kget_kset. destruct (N.eqb k' k) eqn:E.
    + apply N.eqb_eq in E; subst. exact G.
    + rewrite kmem_kset, E in M. simpl in M. rewrite O by (apply N.eqb_neq; exact E). apply (r_attrs s st e R k' M).
  - intros k' M. rewrite kmem_kset in M. apply orb_false_iff in M. destruct M as [E M].
    rewrite O by (apply N.eqb_neq; exact E). apply (r_unbound s st e R k' M).
  - apply (r_vattr s st e R).
  - exact S.
  - intros k' V'. unfold kmem. destruct (N.eqb k' k) eqn:E; [apply N.eqb_eq in E; subst; congruence|].
    rewrite O by (apply N.eqb_neq; exact E). apply (r_nova s st e R k' V').
Qed.

Lemma rel_set_va : forall s st e k l d n, rel s st e -> is_va s k = true ->
  rel s {| attrs := attrs st; vattr := l; spec := sadd k (spec st); dflt := d; nond := n; f_ov := f_ov st; f_ie := f_ie st |}
        {| enamed := enamed e; evar := Some l |}.
Proof.
  intros s st e k l d n R V. destruct (is_va_name s k V) as [HV EQ]. constructor; simpl.
  - intros k' V'. rewrite smem_sadd. rewrite (proj2 (N.eqb_neq k' k)); [apply (r_spec s st e R k' V')|intros ->; congruence].
  - intros _. rewrite smem_sadd, EQ, N.eqb_refl. reflexivity.
  - apply (r_attrs s st e R).
  - apply (r_unbound s st e R).
  - reflexivity.
  - apply (r_sorted s st e R).
  - apply (r_nova s st e R).
Qed.

Lemma late_one_rel : forall q s st e k v, wf_sig s -> rel s st e ->
  accepts_key s k = true -> q_noop_rebind q = false ->
  match late_one q s st k v, supply s e {| cpos := []; ckw := [(k, v)] |} true false with
  | Ok st', Ok e' => rel s st' e'
  | Err a, Err b => a = b
  | _, _ => False
  end.
Proof.
  intros q s st e k v W R A Q. rewrite supply_single. unfold late_one. rewrite Q.
  destruct (is_va s k) eqn:V.
  - destruct (vals_of_val v) as [l|]; [|reflexivity].
    unfold on_change, set_vattr; simpl. apply rel_set_va; assumption.
  - rewrite A. unfold accepts_key, is_field in A. rewrite V, orb_false_r in A. rewrite A.
    assert (rel s (on_change (set_attr st k v) k match default_of s k with Some dv => val_eqb dv v | None => false end)
                {| enamed := kset k v (enamed e); evar := evar e |}) as Changed.
    { unfold on_change, set_attr; simpl. apply rel_set_named; try assumption.
      - apply kget_kset_same.
      - intros; apply kget_kset_other; assumption.
      - apply ksorted_kset. apply (r_sorted s st e R). }
    destruct (kget k (attrs st)) as [old|] eqn:G; [|exact Changed].
    destruct (same_scalar old v) eqn:SS; [|exact Changed].
    apply same_scalar_eq in SS; subst old.
    unfold mark_specified. apply rel_set_named; try assumption; [reflexivity|apply (r_sorted s st e R)].
Qed.

Lemma late_all_rel : forall q s lates st e, wf_sig s -> eff_ok s e -> rel s st e ->
  Forall (fun kv => accepts_key s (fst kv) = true) lates -> q_noop_rebind q = false ->
  match late_all q s st lates, supply_lates s e lates with
  | Ok st', Ok e' => rel s st' e' /\ eff_ok s e'
  | Err a, Err b => a = b
  | _, _ => False
  end.
Proof.
  intros q s; induction lates as [|[k v] r IH]; intros st e W OK R F Q; simpl.
  - split; assumption.
  - inversion F; subst. pose proof (late_one_rel q s st e k v W R H1 Q) as L.
    destruct (late_one q s st k v) as [st1|a] eqn:L1;
      destruct (supply s e {| cpos := []; ckw := [(k, v)] |} true false) as [e1|b] eqn:S1; try contradiction; [|exact L].
    apply IH; try assumption. eapply supply_ok; eauto.
Qed.

(* ---- the call ------------------------------------------------------------------------------------------- *)
Lemma bound_kwargs_are_effective : forall s st e, eff_ok s e -> rel s st e ->
  kfilter (fun k => smem k (spec st)) (attrs st) = enamed e.
Proof.
  intros s st e OK R. apply kmap_ext; [apply ksorted_kfilter; apply (r_sorted s st e R)|apply OK|].
  intros k. rewrite kget_kfilter. destruct (is_va s k) eqn:V.
  - pose proof (r_nova s st e R k V) as A. pose proof (eo_nova s e OK k V) as B. unfold kmem in A, B.
    destruct (kget k (attrs st)); [discriminate|]. destruct (kget k (enamed e)); [discriminate|].
    destruct (smem k (spec st)); reflexivity.
  - rewrite (r_spec s st e R k V). destruct (kmem k (enamed e)) eqn:M.
    + apply (r_attrs s st e R k M).
    + unfold kmem in M. destruct (kget k (enamed e)); [discriminate|reflexivity].
Qed.

Lemma bound_varargs_are_effective : forall s st e, eff_ok s e -> rel s st e ->
  (if has_va s && smem (va_name s) (spec st) then Some (vattr st) else None) = evar e.
Proof.
  intros s st e OK R. destruct (has_va s) eqn:HV; simpl.
  - rewrite (r_va s st e R HV), (r_vattr s st e R). destruct (evar e); reflexivity.
  - symmetry; apply OK; assumption.
Qed.

Lemma supply_pos_err : forall ps vs ovr m x, supply_pos ps vs ovr m = Err x -> x = ETypeError.
Proof.
  induction ps as [|[n d] r IH]; intros vs ovr m x H; simpl in H; [destruct vs; discriminate|].
  destruct vs as [|v vs']; [discriminate|]. destruct (kmem n m && negb ovr); [inversion H; reflexivity|eapply IH; eauto].
Qed.
Lemma supply_pos_result : forall ps vs ovr m m', supply_pos ps vs ovr m = Ok m' -> m' = bind_positional ps vs m.
Proof.
  induction ps as [|[n d] r IH]; intros vs ovr m m' H; simpl in H; [destruct vs; inversion H; reflexivity|].
  destruct vs as [|v vs']; [inversion H; reflexivity|]. destruct (kmem n m && negb ovr); [discriminate|]. simpl. eapply IH; eauto.
Qed.

Lemma call_positional_supply_pos : forall ps vs sp ovr K, NoDup (names ps) ->
  (forall n, In n (names ps) -> smem n sp = kmem n K) ->
  call_positional ps vs sp ovr K = supply_pos ps vs ovr K.
Proof.
  induction ps as [|[n d] r IH]; intros vs sp ovr K ND H; simpl; [destruct vs; reflexivity|].
  destruct vs as [|v vs']; [reflexivity|]. inversion ND; subst.
  rewrite (H n (or_introl eq_refl)). destruct (kmem n K && negb ovr); [reflexivity|].
  apply IH; [assumption|]. intros n' I. rewrite kmem_kset, (H n' (or_intror I)).
  rewrite (proj2 (N.eqb_neq n' n)); [reflexivity|intros ->; contradiction].
Qed.

Lemma call_kwargs_supply_kw : forall s kws sp given given' ovr ie K Kv ev,
  NoDup (map fst kws) -> (forall k, In k (map fst kws) -> is_va s k = false) ->
  (forall k, In k (map fst kws) -> smem k given = smem k given') ->
  (forall k, In k (map fst kws) -> smem k given = false -> smem k sp = kmem k K) ->
  call_kwargs s kws sp given ovr ie K Kv =
  match supply_kw s kws ovr ie given' {| enamed := K; evar := ev |} with
  | Ok e' => Ok (enamed e', Kv)
  | Err x => Err x
  end.
Proof.
  intros s; induction kws as [|[k v] r IH]; intros sp given given' ovr ie K Kv ev ND NV G1 G2; simpl; [reflexivity|].
  inversion ND; subst. simpl in *.
  rewrite <- (G1 k (or_introl eq_refl)). destruct (smem k given) eqn:G; [reflexivity|].
  rewrite (NV k (or_introl eq_refl)). rewrite (G2 k (or_introl eq_refl) G).
  destruct (kmem k K && negb ovr); [reflexivity|].
  assert (forall k', In k' (map fst r) -> N.eqb k' k = false) as NE.
  { intros k' I. apply N.eqb_neq. intros ->. contradiction. }
  destruct (is_param s k || has_kw s).
  - apply IH; auto.
    + intros k' I. rewrite smem_sadd, (NE k' I). simpl. auto.
    + intros k' I Gk. rewrite kmem_kset, (NE k' I). simpl. auto.
  - destruct ie; [|reflexivity]. apply IH; auto.
    intros k' I. rewrite smem_sadd, (NE k' I). simpl. auto.
Qed.

Lemma supply_kw_evar : forall s kws ovr drop given e e',
  (forall k, In k (map fst kws) -> is_va s k = false) ->
  supply_kw s kws ovr drop given e = Ok e' -> evar e' = evar e.
Proof.
  intros s; induction kws as [|[k v] r IH]; intros ovr drop given e e' NV H; simpl in H.
  - inversion H; reflexivity.
  - simpl in NV. destruct (smem k given); [discriminate|].
    rewrite (NV k (or_introl eq_refl)) in H.
    destruct (kmem k (enamed e) && negb ovr); [discriminate|].
    destruct (is_param s k || has_kw s).
    + apply IH in H; auto.
    + destruct drop; [|discriminate]. apply IH in H; auto.
Qed.

Lemma functor_call_args_supply : forall s st e c ovo ieo,
  wf_sig s -> eff_ok s e -> rel s st e ->
  NoDup (map fst (ckw c)) -> (forall k, In k (map fst (ckw c)) -> is_va s k = false) ->
  functor_call_args s st c ovo ieo =
  match supply s e c (match ovo with Some b => b | None => f_ov st end) (match ieo with Some b => b | None => f_ie st end) with
  | Err x => Err x
  | Ok e' => match list_args (pos s) (enamed e') with
             | (Some la, K) => Ok {| cpos := la ++ match evar e' with Some l => l | None => [] end; ckw := K |}
             | (None, _) => Err ETypeError
             end
  end.
Proof.
  intros s st e c ovo ieo W OK R ND NV.
  unfold functor_call_args, supply.
  set (override := match ovo with Some b => b | None => f_ov st end).
  set (ie := match ieo with Some b => b | None => f_ie st end).
  rewrite (bound_kwargs_are_effective s st e OK R).
  rewrite (bound_varargs_are_effective s st e OK R).
  set (over := skipn (length (pos s)) (cpos c)).
  set (given0 := positional_names (pos s) (cpos c)).
  rewrite call_positional_supply_pos;
    [|apply nodup_pos; assumption
     |intros n I; apply (r_spec s st e R); apply param_not_va; [assumption|apply pos_is_param; assumption]].
  destruct (supply_pos (pos s) (cpos c) override (enamed e)) as [m|x] eqn:P.
  2:{ apply supply_pos_err in P; subst x.
      destruct (negb (is_nil over) && negb (has_va s) && negb ie); [reflexivity|].
      destruct (negb (is_nil (if has_va s then over else [])) && negb override && smem (va_name s) (spec st)); reflexivity. }
  pose proof (supply_pos_result _ _ _ _ _ P) as Pm.
  assert (forall Kv ev,
            call_kwargs s (ckw c) (spec st) given0 override ie m Kv =
            match supply_kw s (ckw c) override ie
                    (if negb (is_nil over) && has_va s then sadd (va_name s) given0 else given0)
                    {| enamed := m; evar := ev |} with
            | Ok e' => Ok (enamed e', Kv) | Err x => Err x end) as CK.
  { intros Kv ev. apply call_kwargs_supply_kw; try assumption.
    - intros k I. destruct (negb (is_nil over) && has_va s) eqn:C; [|reflexivity].
      apply andb_true_iff in C. destruct C as [_ HV].
      rewrite smem_sadd, N.eqb_sym, (is_va_false_neq s k HV (NV k I)). reflexivity.
    - intros k I G. rewrite (r_spec s st e R k (NV k I)). subst m.
      rewrite kmem_bind_positional. fold given0. rewrite G. reflexivity. }
  destruct (has_va s) eqn:HV.
  - (* the function has *args *)
    rewrite (r_va s st e R HV). simpl.
    destruct (is_nil over) eqn:O; simpl.
    + rewrite (CK _ (evar e)); simpl. destruct (supply_kw s (ckw c) override ie given0 _) as [e'|x] eqn:SK; [|reflexivity].
      rewrite (supply_kw_evar _ _ _ _ _ _ _ NV SK). simpl.
      destruct (list_args (pos s) (enamed e')) as [[la|] K3]; reflexivity.
    + destruct (evar e) as [l|] eqn:EV, override eqn:OV; simpl; try reflexivity;
        rewrite (CK _ (Some over)); simpl;
        (destruct (supply_kw s (ckw c) _ ie _ _) as [e'|x] eqn:SK; [|reflexivity]);
        rewrite (supply_kw_evar _ _ _ _ _ _ _ NV SK); simpl;
        (destruct (list_args (pos s) (enamed e')) as [[la|] K3]; [|reflexivity]);
        (destruct over; [discriminate|reflexivity]).
  - (* no *args: surplus positional values are an error unless ignore_extra_args *)
    pose proof (eo_noevar s e OK HV) as EV. rewrite EV. simpl.
    rewrite andb_false_r. simpl.
    destruct (is_nil over) eqn:O; simpl.
    + rewrite (CK _ None); simpl. destruct (supply_kw s (ckw c) override ie given0 _) as [e'|x] eqn:SK; [|reflexivity].
      rewrite (supply_kw_evar _ _ _ _ _ _ _ NV SK). simpl.
      destruct (list_args (pos s) (enamed e')) as [[la|] K3]; reflexivity.
    + destruct ie eqn:IE; simpl; [|reflexivity].
      rewrite (CK _ None); simpl. destruct (supply_kw s (ckw c) override true given0 _) as [e'|x] eqn:SK; [|reflexivity].
      rewrite (supply_kw_evar _ _ _ _ _ _ _ NV SK). simpl.
      destruct (list_args (pos s) (enamed e')) as [[la|] K3]; reflexivity.
Qed.

(* ---- a missing positional parameter is a TypeError however the call is written ------------------------- *)
Lemma zip_pos_nil : forall ps acc, zip_pos ps [] acc = (acc, []).
Proof. intros [|[n d] r] acc; reflexivity. Qed.

Lemma bind_kw_err : forall s kws asg extra x, bind_kw s kws asg extra = Err x -> x = ETypeError.
Proof.
  intros s; induction kws as [|[k v] r IH]; intros asg extra x H; simpl in H; [discriminate|].
  destruct (is_kwparam s k).
  - destruct (kmem k asg); [inversion H; reflexivity|eapply IH; eauto].
  - destruct (has_kw s); [|inversion H; reflexivity].
    destruct (kmem k extra); [inversion H; reflexivity|eapply IH; eauto].
Qed.
Lemma fill_err : forall ps asg x, fill ps asg = Err x -> x = ETypeError.
Proof.
  induction ps as [|[n d] r IH]; intros asg x H; simpl in H; [discriminate|].
  destruct (match kget n asg with Some v => Some v | None => d end); [|inversion H; reflexivity].
  destruct (fill r asg) eqn:F; [discriminate|]. inversion H; subst. eapply IH; eauto.
Qed.
Lemma py_bind_err : forall s c x, py_bind s c = Err x -> x = ETypeError.
Proof.
  intros s c x H. unfold py_bind in H. destruct (zip_pos (pos s) (cpos c) []) as [asg over].
  destruct (negb (is_nil over) && negb (has_va s)); [inversion H; reflexivity|].
  destruct (bind_kw s (ckw c) asg []) as [[asg' extra]|y] eqn:B; [|inversion H; subst; eapply bind_kw_err; eauto].
  destruct (fill (params s) asg') eqn:F; [discriminate|]. inversion H; subst. eapply fill_err; eauto.
Qed.

Lemma bind_kw_keeps_unbound : forall s kws asg extra asg' extra' n,
  bind_kw s kws asg extra = Ok (asg', extra') -> kget n asg = None -> ~ In n (map fst kws) -> kget n asg' = None.
Proof.
  intros s; induction kws as [|[k v] r IH]; intros asg extra asg' extra' n H G NI; simpl in *.
  - inversion H; subst; assumption.
  - destruct (is_kwparam s k).
    + destruct (kmem k asg); [discriminate|]. eapply IH; [exact H| |tauto].
      rewrite kget_kset_other; [assumption|]. intros ->; tauto.
    + destruct (has_kw s); [|discriminate]. destruct (kmem k extra); [discriminate|]. eapply IH; [exact H|assumption|tauto].
Qed.
Lemma kget_none_not_in : forall {A} (m : kmap A) n, kget n m = None -> ~ In n (map fst m).
Proof.
  intros A; induction m as [|[k v] r IH]; intros n H; simpl in *; [tauto|].
  destruct (N.eqb n k) eqn:E; [discriminate|]. apply N.eqb_neq in E. intros [Q|Q]; [congruence|]. eapply IH; eauto.
Qed.
Lemma fill_missing : forall ps asg n, In (n, None) ps -> kget n asg = None -> fill ps asg = Err ETypeError.
Proof.
  induction ps as [|[n0 d0] r IH]; intros asg n I G; simpl in *; [tauto|].
  destruct I as [I|I].
  - inversion I; subst. rewrite G. reflexivity.
  - destruct (match kget n0 asg with Some v => Some v | None => d0 end); [|reflexivity].
    rewrite (IH asg n I G). reflexivity.
Qed.
Lemma list_args_none : forall ps K K', NoDup (names ps) -> list_args ps K = (None, K') ->
  exists n, In (n, None) ps /\ kget n K = None.
Proof.
  induction ps as [|[n d] r IH]; intros K K' ND H; simpl in H; [discriminate|].
  inversion ND; subst.
  destruct (list_args r (kdel n K)) as [rest K1] eqn:L.
  destruct (kget n K) as [v|] eqn:G.
  - destruct rest as [l|]; [discriminate|].
    destruct (IH _ _ H3 L) as [n' [I G']]. exists n'. split; [right; assumption|].
    rewrite kget_kdel in G'. destruct (N.eqb n' n) eqn:E; [|assumption].
    apply N.eqb_eq in E; subst. exfalso. apply H2. change n with (fst (n, @None val)). apply in_map. assumption.
  - destruct d as [dv|].
    + destruct rest as [l|]; [discriminate|].
      destruct (IH _ _ H3 L) as [n' [I G']]. exists n'. split; [right; assumption|].
      rewrite kget_kdel in G'. destruct (N.eqb n' n) eqn:E; [|assumption].
      apply N.eqb_eq in E; subst. assumption.
    + exists n. split; [left; reflexivity|assumption].
Qed.

Lemma missing_positional_fails : forall s m K, wf_sig s -> list_args (pos s) m = (None, K) ->
  py_bind s {| cpos := []; ckw := m |} = Err ETypeError.
Proof.
  intros s m K W L. destruct (list_args_none _ _ _ (nodup_pos s W) L) as [n [I G]].
  unfold py_bind; simpl. rewrite zip_pos_nil. simpl.
  destruct (bind_kw s m [] []) as [[asg' extra]|x] eqn:B.
  - rewrite (fill_missing (params s) asg' n); [reflexivity|unfold params; apply in_or_app; left; assumption|].
    eapply bind_kw_keeps_unbound; [exact B|reflexivity|]. apply kget_none_not_in; assumption.
  - apply bind_kw_err in B; subst; reflexivity.
Qed.

(* ---- flags are not touched by later bindings --------------------------------------------------------------- *)
Lemma late_one_flags : forall q s st k v st', late_one q s st k v = Ok st' -> f_ov st' = f_ov st /\ f_ie st' = f_ie st.
Proof.
  intros q s st k v st' H. unfold late_one in H.
  destruct (is_va s k).
  - destruct (vals_of_val v); inversion H; subst; split; reflexivity.
  - destruct (accepts_key s k); [|discriminate].
    destruct (kget k (attrs st)) as [old|]; [destruct (same_scalar old v); [destruct (q_noop_rebind q)|]|];
      inversion H; subst; split; reflexivity.
Qed.
Lemma late_all_flags : forall q s lates st st', late_all q s st lates = Ok st' -> f_ov st' = f_ov st /\ f_ie st' = f_ie st.
Proof.
  intros q s; induction lates as [|[k v] r IH]; intros st st' H; simpl in H.
  - inversion H; subst; split; reflexivity.
  - destruct (late_one q s st k v) as [st1|] eqn:L; [|discriminate].
    destruct (late_one_flags _ _ _ _ _ _ L) as [A B]. destruct (IH _ _ H) as [C D]. split; congruence.
Qed.
Lemma ctor_finish_flags : forall s bk vb ov ie, f_ov (ctor_finish s bk vb ov ie) = ov /\ f_ie (ctor_finish s bk vb ov ie) = ie.
Proof. intros. unfold ctor_finish. destruct (classify (params s) bk [] _). split; reflexivity. Qed.

(* ---- the functor binds the effective arguments ----------------------------------------------------------------- *)
Definition late_names_ok (s : sig) (lates : list (name * val)) : Prop :=
  Forall (fun kv => accepts_key s (fst kv) = true) lates.
Definition call_ok (s : sig) (c : call) : Prop :=
  NoDup (map fst (ckw c)) /\ forall k, In k (map fst (ckw c)) -> is_va s k = false.

Theorem functor_binds_effective_arguments : forall q s ctor ov ie lates c ovo ieo,
  wf_sig s -> q_noop_rebind q = false -> late_names_ok s lates -> call_ok s c ->
  functor_bind q s ctor ov ie lates c ovo ieo =
  spec_outcome s ctor lates c (match ovo with Some b => b | None => ov end) (match ieo with Some b => b | None => ie end).
Proof.
  intros q s ctor ov ie lates c ovo ieo W Q LN [ND NV].
  unfold functor_bind, spec_outcome, effective.
  rewrite functor_ctor_supply by assumption.
  destruct (supply s eff0 ctor false false) as [e1|x] eqn:S1; [|reflexivity].
  assert (eff_ok s e1) as OK1 by (eapply supply_ok; [assumption|apply eff0_ok|exact S1]).
  pose proof (ctor_finish_rel s e1 ov ie W OK1) as R1.
  pose proof (late_all_rel q s lates _ e1 W OK1 R1 LN Q) as L.
  destruct (late_all q s (ctor_finish s (enamed e1) (evar e1) ov ie) lates) as [st2|a] eqn:L2;
    destruct (supply_lates s e1 lates) as [e2|b] eqn:S2; try contradiction; [|congruence].
  destruct L as [R2 OK2].
  destruct (late_all_flags _ _ _ _ _ L2) as [FO FI].
  destruct (ctor_finish_flags s (enamed e1) (evar e1) ov ie) as [CO CI].
  unfold functor_call. rewrite (functor_call_args_supply s st2 e2 c ovo ieo W OK2 R2 ND NV).
  rewrite FO, FI, CO, CI.
  destruct (supply s e2 c _ _) as [e3|y]; [|reflexivity].
  unfold effective_call.
  destruct (list_args (pos s) (enamed e3)) as [[la|] K] eqn:LA; [reflexivity|].
  symmetry. eapply missing_positional_fails; eauto.
Qed.

(* ---- the open finding: a later binding that stores the integer already shown ---------------------------- *)
Fixpoint lates_avoid_noop (s : sig) (st : fstate) (lates : list (name * val)) : Prop :=
  match lates with
  | [] => True
  | (k, v) :: r =>
      (is_va s k = false -> forall old, kget k (attrs st) = Some old -> same_scalar old v = false) /\
      (forall st', late_one {| q_noop_rebind := false |} s st k v = Ok st' -> lates_avoid_noop s st' r)
  end.

Lemma late_one_quirk_irrelevant : forall q s st k v,
  (is_va s k = false -> forall old, kget k (attrs st) = Some old -> same_scalar old v = false) ->
  late_one q s st k v = late_one {| q_noop_rebind := false |} s st k v.
Proof.
  intros q s st k v H. unfold late_one. destruct (is_va s k) eqn:V; [reflexivity|].
  destruct (accepts_key s k); [|reflexivity].
  destruct (kget k (attrs st)) as [old|] eqn:G; [|reflexivity].
  rewrite (H eq_refl old eq_refl). reflexivity.
Qed.
Lemma late_all_quirk_irrelevant : forall q s lates st, lates_avoid_noop s st lates ->
  late_all q s st lates = late_all {| q_noop_rebind := false |} s st lates.
Proof.
  intros q s; induction lates as [|[k v] r IH]; intros st H; simpl in *; [reflexivity|].
  destruct H as [H1 H2]. rewrite (late_one_quirk_irrelevant q s st k v H1).
  destruct (late_one {| q_noop_rebind := false |} s st k v) as [st'|] eqn:L; [|reflexivity].
  apply IH. apply H2. reflexivity.
Qed.

Theorem functor_binds_effective_arguments_partial : forall q s ctor ov ie lates c ovo ieo,
  wf_sig s -> late_names_ok s lates -> call_ok s c ->
  (forall st, functor_ctor s ctor ov ie = Ok st -> lates_avoid_noop s st lates) ->
  functor_bind q s ctor ov ie lates c ovo ieo =
  spec_outcome s ctor lates c (match ovo with Some b => b | None => ov end) (match ieo with Some b => b | None => ie end).
Proof.
  intros q s ctor ov ie lates c ovo ieo W LN CO AV.
  rewrite <- (functor_binds_effective_arguments {| q_noop_rebind := false |}) by (assumption || reflexivity).
  unfold functor_bind. destruct (functor_ctor s ctor ov ie) as [st|] eqn:C; [|reflexivity].
  rewrite (late_all_quirk_irrelevant q s lates st (AV st eq_refl)). reflexivity.
Qed.

(* def f(a, b=11): x = f.partial(5); x.rebind(b=11); x(b=7) *)
Definition witness_sig : sig := {| pos := [(1, None); (2, Some (VInt 11))]; posonly := 0; varargs := None; kwonly := []; varkw := None |}.
Lemma noop_rebind_refutes : exists q s ctor lates c,
  wf_sig s /\ late_names_ok s lates /\ call_ok s c /\
  functor_bind q s ctor false false lates c None None <> spec_outcome s ctor lates c false false.
Proof.
  exists {| q_noop_rebind := true |}, witness_sig, {| cpos := [VInt 5]; ckw := [] |}, [(2, VInt 11)],
         {| cpos := []; ckw := [(2, VInt 7)] |}.
  split; [|split; [|split]].
  - constructor; [|intros a H; discriminate]. simpl.
    constructor; [intros [H|H]; [discriminate|exact H]|]. constructor; [intros H; exact H|constructor].
  - constructor; [reflexivity|constructor].
  - split; [constructor; [intros H; exact H|constructor]|]. intros k [H|H]; [subst; reflexivity|contradiction].
  - vm_compute. intros H; discriminate.
Qed.

(* a non-trivial instance of the hypotheses: def f(a, b=11, *args, k, m=21, **kw) *)
Definition example_sig : sig :=
  {| pos := [(1, None); (2, Some (VInt 11))]; posonly := 1; varargs := Some 10; kwonly := [(4, None); (5, Some (VInt 21))]; varkw := Some 11 |}.
Lemma example_sig_wf : wf_sig example_sig.
Proof.
  constructor.
  - simpl. repeat (constructor; [simpl; intuition discriminate|]). constructor.
  - intros a H. inversion H; subst. simpl. intuition discriminate.
Qed.
Lemma example_hypotheses :
  late_names_ok example_sig [(2, VInt 3); (20, VInt 1); (10, VList [1%Z; 2%Z])] /\
  call_ok example_sig {| cpos := [VInt 7]; ckw := [(4, VInt 1); (21, VInt 2)] |}.
Proof.
  split.
  - repeat (constructor; [reflexivity|]). constructor.
  - split.
    + simpl. repeat (constructor; [simpl; intuition discriminate|]). constructor.
    + simpl. intros k [H|[H|H]]; subst; try reflexivity; contradiction.
Qed.

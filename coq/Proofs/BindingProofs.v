(* BindingProofs.v — lemmas about Model/Binding.v (property C18). *)
From PG Require Import Common.Tactics Common.Tr Model.Binding.
From Coq Require Import NArith.
Local Open Scope N_scope.

Lemma clone_keeps_state : forall st, clone_state st = st.
Proof. reflexivity. Qed.

(* CompareDispatch.v — the model's eq_f / lt_f try their branches in the order base.eq / base.lt do.
   Gen/CompareDispatch.v lists the branches in source order (regenerated each run).  A branch's guard depends only
   on the kinds of the operands; [dispatch_ok] checks, for every kind (pair), that the first branch of the generated
   order whose guard holds is the one the model's match takes. *)
From PG Require Import Common.Tactics Common.Tr Gen.TypeOrder Gen.CompareDispatch Model.Compare
  Proofs.CompareOrder Proofs.CompareDict Proofs.CompareLink.

Inductive kd : Type :=
| KdMissing | KdNone | KdBool | KdInt | KdFloat | KdStr | KdList | KdPgList | KdTuple | KdDict | KdPgDict | KdObj.
Definition all_kinds : list kd :=
  [KdMissing; KdNone; KdBool; KdInt; KdFloat; KdStr; KdList; KdPgList; KdTuple; KdDict; KdPgDict; KdObj].
Lemma all_kinds_in k : In k all_kinds.
Proof. destruct k; simpl; tauto. Qed.

Definition kind_of (v : pv) : kd :=
  match v with
  | PMissing => KdMissing | PNone => KdNone | PBool _ => KdBool | PInt _ => KdInt | PFlt _ _ => KdFloat | PStr _ => KdStr
  | PList s _ => if s then KdPgList else KdList | PTuple _ => KdTuple
  | PDict s _ => if s then KdPgDict else KdDict | PObj _ _ _ => KdObj
  end.
Definition is_list (k : kd) : bool := match k with KdList | KdPgList => true | _ => false end.
Definition is_tuple (k : kd) : bool := match k with KdTuple => true | _ => false end.
Definition is_dict (k : kd) : bool := match k with KdDict | KdPgDict => true | _ => false end.
Definition is_obj (k : kd) : bool := match k with KdObj => true | _ => false end.

(* guards of base.eq on two different objects (identity is [eq_top]); pg.List / pg.Dict have sym_eq but do not
   override Symbolic.sym_eq *)
Definition eguard (b : ebranch) (ka kb : kd) : bool :=
  match b with
  | EIdentity => false
  | ESeq => (is_list ka && is_list kb) || (is_tuple ka && is_tuple kb)
  | EDictLeft => is_dict ka
  | ESymEqLeft => is_obj ka
  | ESymEqRight => is_obj kb
  | EFallback => true
  end.
(* guards of base.lt after the type-order test; every Symbolic value has sym_lt *)
Definition lguard (b : lbranch) (k : kd) : bool :=
  match b with
  | LLeaf => match k with KdBool | KdInt | KdFloat | KdStr => true | _ => false end
  | LList => is_list k
  | LDict => is_dict k
  | LSymLt => match k with KdPgList | KdPgDict | KdObj => true | _ => false end
  | LNoneMissing => match k with KdNone | KdMissing => true | _ => false end
  | LNative => true
  end.

Fixpoint first {B} (g : B -> bool) (bs : list B) : option B :=
  match bs with [] => None | b :: r => if g b then Some b else first g r end.
Definition eq_first (bs : list ebranch) (ka kb : kd) : option ebranch := first (fun b => eguard b ka kb) bs.
Definition lt_first (bs : list lbranch) (k : kd) : option lbranch := first (fun b => lguard b k) bs.

(* the order the model's definitions follow *)
Definition canon_eq : list ebranch := [EIdentity; ESeq; EDictLeft; ESymEqLeft; ESymEqRight; EFallback].
Definition canon_lt : list lbranch := [LLeaf; LList; LDict; LSymLt; LNoneMissing; LNative].

Definition e_idx (o : option ebranch) : nat :=
  match o with None => 0 | Some EIdentity => 1 | Some ESeq => 2 | Some EDictLeft => 3 | Some ESymEqLeft => 4
             | Some ESymEqRight => 5 | Some EFallback => 6 end.
Definition l_idx (o : option lbranch) : nat :=
  match o with None => 0 | Some LLeaf => 1 | Some LList => 2 | Some LDict => 3 | Some LSymLt => 4
             | Some LNoneMissing => 5 | Some LNative => 6 end.
Lemma e_idx_inj x y : e_idx x = e_idx y -> x = y.
Proof. destruct x as [[]|], y as [[]|]; simpl; intros H; try discriminate; reflexivity. Qed.
Lemma l_idx_inj x y : l_idx x = l_idx y -> x = y.
Proof. destruct x as [[]|], y as [[]|]; simpl; intros H; try discriminate; reflexivity. Qed.

Definition dispatch_ok (ebs : list ebranch) (lbs : list lbranch) : bool :=
  forallb (fun ka => forallb (fun kb => Nat.eqb (e_idx (eq_first ebs ka kb)) (e_idx (eq_first canon_eq ka kb))) all_kinds) all_kinds
  && forallb (fun k => Nat.eqb (l_idx (lt_first lbs k)) (l_idx (lt_first canon_lt k))) all_kinds.

Lemma dispatch_ok_spec ebs lbs : dispatch_ok ebs lbs = true ->
  (forall ka kb, eq_first ebs ka kb = eq_first canon_eq ka kb) /\ (forall k, lt_first lbs k = lt_first canon_lt k).
Proof.
  unfold dispatch_ok. rewrite andb_true_iff, !forallb_forall. intros [H1 H2]. split.
  - intros ka kb. specialize (H1 ka (all_kinds_in ka)). rewrite forallb_forall in H1.
    specialize (H1 kb (all_kinds_in kb)). apply Nat.eqb_eq in H1. apply e_idx_inj; auto.
  - intros k. specialize (H2 k (all_kinds_in k)). apply Nat.eqb_eq in H2. apply l_idx_inj; auto.
Qed.

(* what each branch of base.eq computes *)
Definition eaction (ob : option ebranch) (n : nat) (a b : pv) : bool :=
  match ob with
  | Some EIdentity => true
  | Some ESeq =>
      match a, b with
      | PList _ la, PList _ lb => list_eqb (eq_f n) la lb
      | PTuple la, PTuple lb => list_eqb (eq_f n) la lb
      | _, _ => false
      end
  | Some EDictLeft => match a, b with PDict _ ea, PDict _ eb => dict_eqb (eq_f n) ea eb | _, _ => false end
  | Some ESymEqLeft =>
      match a, b with
      | PObj na ua ea, PObj nb ub eb => str_eqb na nb && N.eqb ua ub && dict_eqb (eq_f n) ea eb
      | _, _ => false
      end
  | Some ESymEqRight => false          (* right.sym_eq(left) with left not an object: the types differ *)
  | Some EFallback => native_eq a b
  | None => false
  end.

Lemma eq_f_canon n a b : eq_f (S n) a b = eaction (eq_first canon_eq (kind_of a) (kind_of b)) n a b.
Proof. destruct a; try destruct sym; destruct b; try destruct sym; try destruct sym0; reflexivity. Qed.

Section WithTable.
Variable t : ranks.

(* what each branch of base.lt computes (Symbolic.sym_lt on a pg.List / pg.Dict would call base.lt again) *)
Definition laction (ob : option lbranch) (n : nat) (a b : pv) : result bool :=
  match ob with
  | Some LLeaf => native_lt a b
  | Some LList => match a, b with PList _ la, PList _ lb => list_lt (eq_f n) (lt_f t n) la lb | _, _ => Err EUnmodelled end
  | Some LDict =>
      match a, b with
      | PDict _ ea, PDict _ eb => ents_lt t (eq_f n) (lt_f t n) (sort_ents t ea) (sort_ents t eb)
      | _, _ => Err EUnmodelled
      end
  | Some LSymLt =>
      match a, b with
      | PObj na ua ea, PObj nb ub eb =>
          if str_eqb na nb then
            if N.eqb ua ub then ents_lt t (eq_f n) (lt_f t n) (sort_ents t ea) (sort_ents t eb) else Ok (N.ltb ua ub)
          else Err ERecursion
      | _, _ => Err ERecursion
      end
  | Some LNoneMissing => Ok false
  | Some LNative => match a, b with PTuple la, PTuple lb => tuple_lt la lb | _, _ => Err ETypeError end
  | None => Err EUnmodelled
  end.

Lemma lt_body_canon n a b : lt_body t n a b = laction (lt_first canon_lt (kind_of a)) n a b.
Proof. destruct a; try destruct sym; try reflexivity; destruct b; reflexivity. Qed.

Lemma eq_dispatch ebs lbs : dispatch_ok ebs lbs = true ->
  forall n a b, eq_f (S n) a b = eaction (eq_first ebs (kind_of a) (kind_of b)) n a b.
Proof. intros H n a b. rewrite (proj1 (dispatch_ok_spec _ _ H)). apply eq_f_canon. Qed.

Lemma lt_dispatch ebs lbs : dispatch_ok ebs lbs = true ->
  forall n a b, lt_f t (S n) a b =
    if negb (same_type a b) && negb (str_eqb (rank t a) (rank t b))
    then Ok (is_lt (str_cmp (rank t a) (rank t b)))
    else laction (lt_first lbs (kind_of a)) n a b.
Proof. intros H n a b. rewrite lt_f_S, (proj2 (dispatch_ok_spec _ _ H)), lt_body_canon. reflexivity. Qed.
End WithTable.

(* SymCoreWF.v — well-formedness: basic facts (path lookup, set_path, detach, renumbering). *)
From PG Require Import Common.Tactics Model.SymCoreDefs Model.SymCoreOps Model.SymCoreSpec Proofs.SymCoreBase.
From Coq Require Import NArith.
Local Open Scope Z_scope.

Lemma wf_items_forall : forall i epth (l : list (key * node)),
  (fix all (l : list (key * node)) : Prop :=
     match l with [] => True | kv :: r => wf_node (Some i) (epth ++ [fst kv]) (snd kv) /\ all r end) l
  <-> Forall (fun kv => wf_node (Some i) (epth ++ [fst kv]) (snd kv)) l.
Proof.
  induction l; simpl; split; intros; auto.
  - destruct H; constructor; auto. apply IHl; auto.
  - inv H; split; auto. apply IHl; auto.
Qed.
Lemma wf_node_unfold : forall ep epth i k pa pt fl its,
  wf_node ep epth (Node i k pa pt fl its) <->
  pa = ep /\ pt = epth /\ keys_ok k (map fst its) /\ Forall (fun kv => wf_node (Some i) (epth ++ [fst kv]) (snd kv)) its.
Proof. intros; simpl; rewrite wf_items_forall; tauto. Qed.
Global Opaque wf_node.
Lemma wf_leaf : forall ep epth l, wf_node ep epth (Leaf l).
Proof. intros. Transparent wf_node. simpl. exact I. Qed.
Global Opaque wf_node.
Global Hint Resolve wf_leaf : core.

Lemma assoc_in : forall A k (l : list (key * A)) v, assoc k l = Some v -> exists k', key_eqb k k' = true /\ In (k', v) l.
Proof.
  induction l as [|[k' v'] r]; simpl; intros; try discriminate.
  destruct (key_eqb k k') eqn:E.
  - inv H. eauto.
  - destruct (IHr _ H) as (k'' & ? & ?). eauto.
Qed.

(* looking a position up in a well-formed tree returns a node that believes to be exactly there *)
Lemma wf_get_in : forall p ep epth n m,
  wf_node ep epth n -> get_in p n = Some m ->
  exists ep', wf_node ep' (epth ++ p) m /\ (p = [] -> ep' = ep).
Proof.
  induction p; simpl; intros.
  - inv H0. rewrite app_nil_r. eauto.
  - destruct n as [l|i k pa pt fl its]; simpl in H0; [discriminate|].
    destruct (assoc a its) eqn:A; [|discriminate].
    apply wf_node_unfold in H. destruct H as (_ & _ & _ & F).
    destruct (assoc_in _ _ _ _ A) as (k' & E & I). apply key_eqb_eq in E; subst k'.
    rewrite Forall_forall in F. specialize (F _ I). simpl in F.
    destruct (IHp _ _ _ _ F H0) as (ep' & W & _).
    exists ep'. rewrite <- app_assoc in W. simpl in W. split; auto. discriminate.
Qed.

Theorem path_lookup : forall st r p i k pa pt fl its,
  WF st -> get_at st (r, p) = Some (Node i k pa pt fl its) -> pt = p.
Proof.
  intros st r p i k pa pt fl its (F & _) G.
  unfold get_at, get_root in G. simpl in G.
  destruct (nth_error (roots st) r) as [[t|]|] eqn:E; try discriminate.
  rewrite Forall_forall in F. apply nth_error_In in E. specialize (F _ E). simpl in F. destruct F as [_ F].
  destruct (wf_get_in _ _ _ _ _ F G) as (ep' & W & _). simpl in W.
  apply wf_node_unfold in W. tauto.
Qed.

(* --- structural well-formedness of every slot (the "one parent, true path" half of WF) ----------------------- *)
Definition wfs (st : state) : Prop := Forall wf_slot (roots st).

Lemma wf_node_leaf_inv : forall ep epth n, is_node n = false -> wf_node ep epth n.
Proof. destruct n; simpl; intros; auto; discriminate. Qed.

(* set_path: a node that is well-formed at some path becomes well-formed at the new one (same parent) *)
Lemma set_path_wf : forall n pa pt p, wf_node pa pt n -> wf_node pa p (set_path p n).
Proof.
  induction n using node_ind'; intros; simpl; auto.
  apply wf_node_unfold in H0. destruct H0 as (E1 & E2 & K & F). subst.
  destruct (path_eqb pt0 p) eqn:E.
  - apply path_eqb_eq in E; subst. apply wf_node_unfold; auto.
  - apply wf_node_unfold. repeat split; auto.
    + rewrite map_map; simpl. auto.
    + apply Forall_map. simpl. rewrite Forall_forall in *. intros kv I.
      eapply H; eauto.
Qed.
Lemma set_par_wf : forall n pa pt pa', wf_node pa pt n -> wf_node pa' pt (set_par pa' n).
Proof.
  destruct n; simpl; intros; auto.
  apply wf_node_unfold in H. apply wf_node_unfold. tauto.
Qed.
Lemma detach_wf : forall n pa pt, wf_node pa pt n -> wf_node None [] (detach n).
Proof. intros. unfold detach. eapply set_path_wf. eapply set_par_wf; eauto. Qed.
Lemma relocate_wf : forall n pa pt pa' p, wf_node pa pt n -> wf_node pa' p (set_par pa' (set_path p n)).
Proof. intros. eapply set_par_wf. eapply set_path_wf; eauto. Qed.
Lemma is_node_set_path : forall p n, is_node (set_path p n) = is_node n.
Proof. destruct n; simpl; auto. destruct (path_eqb pth p); auto. Qed.
Lemma is_node_set_par : forall p n, is_node (set_par p n) = is_node n.
Proof. destruct n; auto. Qed.
Lemma is_node_detach : forall n, is_node (detach n) = is_node n.
Proof. intros; unfold detach. rewrite is_node_set_path, is_node_set_par; auto. Qed.

Lemma seal_rec_wf : forall b n pa pt, wf_node pa pt n -> wf_node pa pt (seal_rec b n).
Proof.
  induction n using node_ind'; intros; simpl; auto.
  apply wf_node_unfold in H0. destruct H0 as (E1 & E2 & K & F). subst.
  apply wf_node_unfold. repeat split; auto.
  - rewrite map_map; simpl; auto.
  - apply Forall_map; simpl. rewrite Forall_forall in *. intros kv I. eapply H; eauto.
Qed.
Lemma set_flags_wf : forall f n pa pt, wf_node pa pt n -> wf_node pa pt (set_flags f n).
Proof.
  destruct n as [l|i k pa0 pt0 fl its]; simpl; intros; auto.
Qed.

(* --- list positions ---------------------------------------------------------------------------------------------- *)
Lemma positions_app : forall l i, positions i l -> positions i (l ++ [KI (i + Z.of_nat (length l))]).
Proof.
  induction l; intros.
  - simpl. rewrite Z.add_0_r; auto.
  - destruct H. change (length (a :: l)) with (S (length l)). rewrite Nat2Z.inj_succ. simpl. split; auto.
    replace (i + Z.succ (Z.of_nat (length l))) with ((i + 1) + Z.of_nat (length l)) by lia.
    apply IHl; auto.
Qed.
Lemma renum_from_keys : forall cp l i, positions i (map fst (renum_from cp i l)).
Proof. induction l as [|[k c] r]; simpl; intros; auto. Qed.
Lemma rekey_from_keys : forall l i, positions i (map fst (rekey_from i l)).
Proof. induction l as [|[k c] r]; simpl; intros; auto. Qed.
Lemma positions_nth : forall l i n k, positions i l -> nth_error l n = Some k -> k = KI (i + Z.of_nat n).
Proof.
  induction l; intros; destruct n; simpl in H0; try discriminate; destruct H.
  - inv H0. simpl. rewrite Z.add_0_r; auto.
  - rewrite (IHl _ _ _ H1 H0). f_equal. rewrite Nat2Z.inj_succ. lia.
Qed.
Lemma positions_set_nth : forall l i n, positions i l -> (n < length l)%nat ->
  positions i (set_nth n (KI (i + Z.of_nat n)) l).
Proof.
  induction l as [|a l IH]; intros i n H L; [simpl in L; lia|].
  destruct H as [Ha Hl]. destruct n as [|n].
  - simpl. rewrite Z.add_0_r. split; [reflexivity | exact Hl].
  - replace (i + Z.of_nat (S n)) with ((i + 1) + Z.of_nat n) by (rewrite Nat2Z.inj_succ; lia).
    change (a = KI i /\ positions (i + 1) (set_nth n (KI (i + 1 + Z.of_nat n)) l)).
    split; [exact Ha|]. apply IH; [exact Hl | simpl in L; lia].
Qed.
Lemma map_fst_set_nth : forall A B (l : list (A * B)) n k v, map fst (set_nth n (k, v) l) = set_nth n k (map fst l).
Proof. induction l as [|a l IH]; intros [|n] k v; simpl; auto. f_equal. apply IH. Qed.

(* re-indexing the children of a list whose own path is right makes every child well-formed at its position *)
Lemma reindex_child_wf : forall cid cp i c k0,
  wf_node (Some cid) (cp ++ [k0]) c -> wf_node (Some cid) (cp ++ [KI i]) (reindex_child cp i c).
Proof.
  intros. destruct c as [l|j k pa pt fl its]; [simpl; auto|].
  pose proof H as H'. apply wf_node_unfold in H'. destruct H' as (_ & E & _). subst pt.
  Opaque set_path.
  unfold reindex_child, last_key. rewrite rev_app_distr. simpl.
  destruct (key_eqb k0 (KI i)) eqn:E.
  - apply key_eqb_eq in E; subst; auto.
  - eapply set_path_wf; eauto.
  Transparent set_path.
Qed.
Definition child_wf (cid : N) (cp : list key) (kv : key * node) : Prop := wf_node (Some cid) (cp ++ [fst kv]) (snd kv).
Definition child_wf_any (cid : N) (cp : list key) (kv : key * node) : Prop := exists k0, wf_node (Some cid) (cp ++ [k0]) (snd kv).
Lemma child_wf_any_of : forall cid cp l, Forall (child_wf cid cp) l -> Forall (child_wf_any cid cp) l.
Proof. intros. eapply Forall_impl; [|exact H]. intros kv W; exists (fst kv); auto. Qed.
Lemma renum_from_wf : forall cid cp l i,
  Forall (child_wf_any cid cp) l -> Forall (child_wf cid cp) (renum_from cp i l).
Proof.
  induction l as [|[k c] r]; simpl; intros; auto.
  inv H. constructor; auto. destruct H2 as [k0 W]. unfold child_wf; simpl. eapply reindex_child_wf; eauto.
Qed.
Lemma renum_wf : forall cid cp l, Forall (child_wf_any cid cp) l -> Forall (child_wf cid cp) (renum cp l).
Proof. intros; apply renum_from_wf; auto. Qed.
Lemma renum_keys : forall cp l, positions 0 (map fst (renum cp l)).
Proof. intros; apply renum_from_keys. Qed.

Lemma Forall_insert_at : forall A (P : A -> Prop) n x l, P x -> Forall P l -> Forall P (insert_at n x l).
Proof. induction n; destruct l; simpl; intros; auto. inv H0. constructor; auto. Qed.
Lemma Forall_remove_nth : forall A (P : A -> Prop) n l, Forall P l -> Forall P (remove_nth n l).
Proof. induction n; destruct l; simpl; intros; auto; inv H; auto. Qed.
Lemma Forall_set_nth : forall A (P : A -> Prop) n x l, P x -> Forall P l -> Forall P (set_nth n x l).
Proof. induction n; destruct l; simpl; intros; auto; inv H0; constructor; auto. Qed.
Lemma Forall_nth_error : forall A (P : A -> Prop) l n x, Forall P l -> nth_error l n = Some x -> P x.
Proof. intros. rewrite Forall_forall in H. eapply H, nth_error_In; eauto. Qed.

(* --- dict keys --------------------------------------------------------------------------------------------------------- *)
Lemma assoc_none_notin : forall A k (l : list (key * A)), assoc k l = None -> ~ In k (map fst l).
Proof.
  induction l as [|[k' v] r]; simpl; intros; auto.
  destruct (key_eqb k k') eqn:E; [discriminate|].
  intros [X|X]; [subst; rewrite key_eqb_refl in E; discriminate | eapply IHr; eauto].
Qed.
Lemma set_assoc_keys : forall A k (v : A) l,
  map fst (set_assoc k v l) = if has_key k l then map fst l else map fst l ++ [k].
Proof.
  unfold has_key. induction l as [|[k' v'] r]; simpl; auto.
  destruct (key_eqb k k') eqn:E; simpl; auto.
  rewrite IHr. destruct (assoc k r); simpl; auto.
Qed.
Lemma set_assoc_nodup : forall A k (v : A) l, NoDup (map fst l) -> NoDup (map fst (set_assoc k v l)).
Proof.
  intros. rewrite set_assoc_keys. unfold has_key. destruct (assoc k l) eqn:E; auto.
  apply nodup_app; auto. constructor; auto. constructor.
  intros x I [J|[]]; subst. eapply assoc_none_notin; eauto.
Qed.
Lemma remove_assoc_keys_incl : forall A k (l : list (key * A)) x, In x (map fst (remove_assoc k l)) -> In x (map fst l).
Proof.
  induction l as [|[k' v'] r]; simpl; intros; auto.
  destruct (key_eqb k k'); simpl in *; auto. destruct H; auto.
Qed.
Lemma remove_assoc_nodup : forall A k (l : list (key * A)), NoDup (map fst l) -> NoDup (map fst (remove_assoc k l)).
Proof.
  induction l as [|[k' v'] r]; simpl; intros; auto. inv H.
  destruct (key_eqb k k'); simpl; auto. constructor; auto.
  intro I; apply H2. eapply remove_assoc_keys_incl; eauto.
Qed.
Lemma Forall_set_assoc : forall A (P : key * A -> Prop) k v l,
  (forall k', key_eqb k k' = true -> P (k', v)) -> Forall P l -> Forall P (set_assoc k v l).
Proof.
  induction l as [|[k' v'] r]; simpl; intros.
  - constructor; auto. apply H, key_eqb_refl.
  - inv H0. destruct (key_eqb k k') eqn:E; constructor; auto.
Qed.
Lemma Forall_remove_assoc : forall A (P : key * A -> Prop) k l, Forall P l -> Forall P (remove_assoc k l).
Proof.
  induction l as [|[k' v'] r]; simpl; intros; auto. inv H. destruct (key_eqb k k'); auto.
Qed.
Lemma Forall_map_assoc : forall A (P : key * A -> Prop) k f l,
  (forall k' v, In (k', v) l -> P (k', v) -> P (k', f v)) -> Forall P l -> Forall P (map_assoc k f l).
Proof.
  induction l as [|[k' v'] r]; simpl; intros; auto. inv H0.
  destruct (key_eqb k k'); constructor; auto.
Qed.
Lemma map_assoc_keys : forall A k f (l : list (key * A)), map fst (map_assoc k f l) = map fst l.
Proof. induction l as [|[k' v'] r]; simpl; auto. destruct (key_eqb k k'); simpl; congruence. Qed.
Lemma set_assoc_same_keys : forall A k (v old : A) l, assoc k l = Some old -> map fst (set_assoc k v l) = map fst l.
Proof. intros. rewrite set_assoc_keys. unfold has_key. rewrite H. auto. Qed.

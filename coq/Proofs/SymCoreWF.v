(* SymCoreWF.v — well-formedness: basic facts (path lookup, set_path, detach, renumbering). *)
From PG Require Import Common.Tactics Model.SymCoreDefs Model.SymCoreOps Model.SymCoreSpec Proofs.SymCoreBase.
From Coq Require Import NArith.
Local Open Scope Z_scope.

Lemma wf_items_forall : forall i epth (l : list (key * node)),
  (fix all (l : list (key * node)) : Prop :=
     match l with [] => True | kv :: r => wf_node (Some i) (epth ++ [fst kv]) (snd kv) /\ all r end) l
  <-> Forall (fun kv => wf_node (Some i) (epth ++ [fst kv]) (snd kv)) l.
Proof.
  induction l; simpl; split; intros; auto.
  - destruct H; constructor; auto. apply IHl; auto.
  - inv H; split; auto. apply IHl; auto.
Qed.
Lemma wf_node_unfold : forall ep epth i k pa pt fl its,
  wf_node ep epth (Node i k pa pt fl its) <->
  pa = ep /\ pt = epth /\ keys_ok k (map fst its) /\ Forall (fun kv => wf_node (Some i) (epth ++ [fst kv]) (snd kv)) its.
Proof. intros; simpl; rewrite wf_items_forall; tauto. Qed.
Global Opaque wf_node.
Lemma wf_leaf : forall ep epth l, wf_node ep epth (Leaf l).
Proof. intros. Transparent wf_node. simpl. exact I. Qed.
Global Opaque wf_node.
Global Hint Resolve wf_leaf : core.

Lemma assoc_in : forall A k (l : list (key * A)) v, assoc k l = Some v -> exists k', key_eqb k k' = true /\ In (k', v) l.
Proof.
  induction l as [|[k' v'] r]; simpl; intros; try discriminate.
  destruct (key_eqb k k') eqn:E.
  - inv H. eauto.
  - destruct (IHr _ H) as (k'' & ? & ?). eauto.
Qed.

(* looking a position up in a well-formed tree returns a node that believes to be exactly there *)
Lemma wf_get_in : forall p ep epth n m,
  wf_node ep epth n -> get_in p n = Some m ->
  exists ep', wf_node ep' (epth ++ p) m /\ (p = [] -> ep' = ep).
Proof.
  induction p; simpl; intros.
  - inv H0. rewrite app_nil_r. eauto.
  - destruct n as [l|i k pa pt fl its]; simpl in H0; [discriminate|].
    destruct (assoc a its) eqn:A; [|discriminate].
    apply wf_node_unfold in H. destruct H as (_ & _ & _ & F).
    destruct (assoc_in _ _ _ _ A) as (k' & E & I). apply key_eqb_eq in E; subst k'.
    rewrite Forall_forall in F. specialize (F _ I). simpl in F.
    destruct (IHp _ _ _ _ F H0) as (ep' & W & _).
    exists ep'. rewrite <- app_assoc in W. simpl in W. split; auto. discriminate.
Qed.

Theorem path_lookup : forall st r p i k pa pt fl its,
  WF st -> get_at st (r, p) = Some (Node i k pa pt fl its) -> pt = p.
Proof.
  intros st r p i k pa pt fl its (F & _) G.
  unfold get_at, get_root in G. simpl in G.
  destruct (nth_error (roots st) r) as [[t|]|] eqn:E; try discriminate.
  rewrite Forall_forall in F. apply nth_error_In in E. specialize (F _ E). simpl in F. destruct F as [_ F].
  destruct (wf_get_in _ _ _ _ _ F G) as (ep' & W & _). simpl in W.
  apply wf_node_unfold in W. tauto.
Qed.

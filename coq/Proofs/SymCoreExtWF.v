(* SymCoreExtWF.v — C01 over the whole list / dict surface: the operations of the C02 extension of the model (slice
   assignment, slice deletion, d | m, m | d; Model/SymCoreC02.v: step2) preserve well-formedness as well, so the integrity
   theorems hold for histories over op2 = base catalogue + extension, with no side condition on the operation.
   Only Model/SymCoreC02.v is imported (definitions); the few facts about its loops are proved here (the C02 development has
   its own copies, under hypotheses of its refinement theorems: list target, plain values, permitting scope). *)
From PG Require Import Common.Tactics Model.SymCoreDefs Model.SymCoreOps Model.SymCoreSpec Model.SymCoreC02
     Proofs.SymCoreBase Proofs.SymCoreWF Proofs.SymCoreClone Proofs.SymCoreWFOps Proofs.SymCoreIds Proofs.SymCoreFrame Proofs.SymCoreC08.
From Coq Require Import NArith Permutation.
From PG Require Model.PyList.
Local Open Scope Z_scope.

Lemma filter_pos_forall' : forall A (P : A -> Prop) f (l : list A) i, Forall P l -> Forall P (PyList.filter_pos f i l).
Proof. induction l; simpl; intros; auto. inv H. destruct (f i); auto. Qed.
Lemma filter_pos_split_ids : forall f (its : list (key * node)) i,
  Permutation (ids_items (PyList.filter_pos (fun j => negb (f j)) i its) ++ ids_items (PyList.filter_pos f i its)) (ids_items its).
Proof.
  induction its as [|[k c] its IH]; simpl; intros. constructor.
  specialize (IH (i + 1)). destruct (f i); simpl; rewrite ?ids_items_cons; perm.
Qed.

(* --- the container a primitive writes into stays at its position, with its identity, kind, annotations and flags ------------- *)
Definition stays_at (st' : state) (cp : pos) (cid : N) (ck : kind) (pa : option N) (pt : list key) (fl : flags) : Prop :=
  exists its', get_at st' cp = Some (Node cid ck pa pt fl its').
Lemma get_at_detached : forall st old ps x, get_at st ps = Some x -> get_at (add_detached st old) ps = Some x.
Proof.
  intros. unfold add_detached. destruct old as [l|i k pa pt fl its]; auto.
  unfold get_at, get_root in *. destruct (nth_error (roots st) (fst ps)) as [[t|]|] eqn:E; try discriminate.
  destruct (restore_slot i (detach (Node i k pa pt fl its)) (roots st)) as [rs|] eqn:R; simpl.
  - destruct (restore_slot_keeps _ _ _ _ R) as (_ & K). rewrite (K _ _ E). auto.
  - rewrite nth_error_app1. rewrite E. auto. apply nth_error_Some. congruence.
Qed.
Lemma get_at_detach_all : forall its st ps x, get_at st ps = Some x -> get_at (detach_all st its) ps = Some x.
Proof. unfold detach_all. induction its; simpl; intros; auto. apply IHits. apply get_at_detached; auto. Qed.
Lemma get_at_updated : forall st cp f c, get_at st cp = Some c -> get_at (update_at st cp f) cp = Some (f c).
Proof. exact get_at_update_at_same. Qed.
Lemma stays_replaced : forall st st1 cp cid ck pa pt fl its its',
  get_at st cp = Some (Node cid ck pa pt fl its) -> get_root st1 (fst cp) = get_root st (fst cp) ->
  stays_at (update_at st1 cp (set_items its')) cp cid ck pa pt fl.
Proof.
  intros. assert (G1 : get_at st1 cp = Some (Node cid ck pa pt fl its)) by (unfold get_at in *; rewrite H0; auto).
  exists its'. rewrite (get_at_updated _ _ _ _ G1). auto.
Qed.
Lemma stays_detached : forall st2 old cp cid ck pa pt fl, stays_at st2 cp cid ck pa pt fl -> stays_at (add_detached st2 old) cp cid ck pa pt fl.
Proof. intros st2 old cp cid ck pa pt fl [its' G]. exists its'. apply get_at_detached. auto. Qed.

Section Ext.
Variable q : quirks.

Lemma lprim_target_stays : forall sc st cp k rv st' p cid ck pa pt fl its,
  WFI st -> rv_ok rv -> lprim q sc st cp k rv = (st', p) -> get_at st cp = Some (Node cid ck pa pt fl its) ->
  stays_at st' cp cid ck pa pt fl.
Proof.
  intros sc st cp k rv st' p cid ck pa pt cfl its (W & I) OK L G.
  assert (S0 : stays_at st cp cid ck pa pt cfl) by (exists its; auto).
  unfold lprim in L. rewrite G in L.
  destruct ck; try (inv L; exact S0).
  destruct (container_facts _ _ _ _ _ _ _ _ W G) as (Ept & K & F). simpl in K.
  destruct k as [s|z]; [inv L; exact S0|].
  destruct ((z >=? zlen its) && is_missing_rv rv); [inv L; exact S0|].
  set (n := zlen its) in *.
  set (idx0 := if z >=? n then n else z) in *.
  destruct (match rv with RIns v' => (true, v') | _ => (false, rv) end) as [ins v] eqn:IV.
  assert (OKv : rv_ok v). { destruct rv; inv IV; simpl in *; auto. }
  set (idx := if idx0 <? 0 then if idx0 >=? - n then idx0 + n else if ins then 0 else idx0 else idx0) in *.
  destruct ((idx <? n) && negb ins) eqn:C1.
  - destruct (idx <? 0) eqn:C2; [inv L; exact S0|].
    destruct (nth_error its (Z.to_nat idx)) as [[k0 old]|] eqn:NE; [|inv L; exact S0].
    destruct (same_obj old v) eqn:SO; [inv L; exact S0|].
    destruct (formalize q sc st (fst cp) KList cid cfl (pt ++ [KI idx]) false v) as [nw st1] eqn:FO.
    assert (NC : false = false -> not_current its (KI idx) v).
    { intros _. eapply same_obj_not_current_nth; eauto. lia. }
    destruct (formalize_ids _ _ _ _ _ _ _ _ _ _ _ _ _ _ _ W I OKv G NC FO) as (L1 & R1 & _).
    inv L. apply stays_detached. eapply stays_replaced; eauto.
  - destruct (formalize q sc st (fst cp) KList cid cfl (pt ++ [KI idx]) ins v) as [nw st1] eqn:FO.
    assert (NC : ins = false -> not_current its (KI idx) v).
    { intros E i _. subst ins. rewrite andb_true_r in C1.
      rewrite positions_assoc_none with (i := 0); auto. right. unfold n in *. lia. }
    destruct (formalize_ids _ _ _ _ _ _ _ _ _ _ _ _ _ _ _ W I OKv G NC FO) as (L1 & R1 & _).
    destruct (idx <? n); inv L; eapply stays_replaced; eauto.
Qed.

(* --- the loops of the extension --------------------------------------------------------------------------------------------- *)
Lemma write_loop_WFI : forall sc ivs st ps upd st' u e tid tk pa pt fl its,
  WFI st -> Forall (fun iv => rv_ok (snd iv)) ivs -> get_at st ps = Some (Node tid tk pa pt fl its) ->
  write_loop q sc st ps ivs upd = (st', u, e) ->
  WFI st' /\ ids_rel st st' /\ stays_at st' ps tid tk pa pt fl.
Proof.
  induction ivs as [|[i rv] ivs IH]; simpl; intros st ps upd st' u e tid tk pa pt fl its W F G E.
  - inv E. split; auto. split. apply ids_rel_refl. exists its; auto.
  - inv F. simpl in H1. destruct (lprim q sc st ps (KI i) rv) as [st1 p] eqn:L.
    pose proof (lprim_ids _ _ _ _ _ _ _ _ W H1 L) as R1.
    assert (W1 : WFI st1). { eapply WFI_step; eauto. destruct W. eapply lprim_wfs; eauto. }
    destruct (lprim_target_stays _ _ _ _ _ _ _ _ _ _ _ _ _ W H1 L G) as (its1 & G1).
    destruct p.
    + destruct (IH _ _ _ _ _ _ _ _ _ _ _ _ W1 H2 G1 E) as (A & B & C). split; auto. split; auto. eapply ids_rel_trans; eauto.
    + destruct (IH _ _ _ _ _ _ _ _ _ _ _ _ W1 H2 G1 E) as (A & B & C). split; auto. split; auto. eapply ids_rel_trans; eauto.
    + inv E. split; auto. split; auto. exists its1; auto.
Qed.
Lemma slice_writes_rv_ok : forall rvs s e, Forall rv_ok rvs -> Forall (fun iv : Z * rvalue => rv_ok (snd iv)) (slice_writes s e rvs).
Proof. induction rvs; simpl; intros; auto. inv H. constructor; auto. simpl. destruct (s >=? e); simpl; auto. Qed.
Lemma zip_rv_ok : forall (idxs : list Z) rvs, Forall rv_ok rvs -> Forall (fun iv : Z * rvalue => rv_ok (snd iv)) (PyList.zip idxs rvs).
Proof. induction idxs; destruct rvs; simpl; intros; auto. inv H. constructor; auto. Qed.

Lemma ldel_many_WFI : forall st ps f st' b tid pa pt fl its,
  WFI st -> get_at st ps = Some (Node tid KList pa pt fl its) -> ldel_many st ps f = (st', b) ->
  WFI st' /\ ids_rel st st' /\ stays_at st' ps tid KList pa pt fl.
Proof.
  intros st ps f st' b tid pa pt fl its (W & I) G E. unfold ldel_many in E.
  destruct (cur_items_facts _ _ _ _ _ _ _ _ G) as (E1 & E2 & _). rewrite E1, E2 in E. clear E1 E2.
  destruct (container_facts _ _ _ _ _ _ _ _ W G) as (Ept & K & F).
  destruct (PyList.filter_pos f 0 its) as [|g gone] eqn:GN.
  - inv E. split; [split; auto|]. split. apply ids_rel_refl. exists its; auto.
  - injection E as E1 E2. subst st' b.
    set (kept := renum pt (PyList.filter_pos (fun i => negb (f i)) 0 its)) in *.
    assert (R : ids_rel st (detach_all (update_at st ps (set_items kept)) (g :: gone))).
    { apply ids_rel_same.
      - rewrite (next_detach_all (g :: gone)). apply next_update_at.
      - eapply perm_trans. apply (detach_all_ids (g :: gone)).
        pose proof (replace_items_ids st st ps tid KList pa pt fl its kept (Leaf LNone) [] (ids_items (g :: gone)) G eq_refl) as X.
        cbn [ids] in X. rewrite !app_nil_r in X. apply X; auto.
        unfold kept. rewrite ids_items_renum, <- GN. apply filter_pos_split_ids. }
    assert (WA : Forall (fun kv : key * node => exists ep pt0, wf_node ep pt0 (snd kv)) (g :: gone)).
    { rewrite <- GN. apply filter_pos_forall'. apply (children_wf_any tid pt); auto. }
    assert (WU : wfs (update_at st ps (set_items kept))).
    { eapply wfs_replace_items; [exact W | exact W | exact G | auto | | ].
      * simpl. apply renum_keys.
      * apply renum_wf. apply child_wf_any_of. apply filter_pos_forall'; auto. }
    split; [|split; auto].
    + apply (WFI_step st); [split; auto| |exact R]. exact (detach_all_wfs (g :: gone) _ WU WA).
    + exists kept. apply (get_at_detach_all (g :: gone)). rewrite (get_at_updated _ _ _ _ G). auto.
Qed.

(* --- d | m, m | d: a new dict filled through the dict primitive ------------------------------------------------------------------ *)
Lemma set_assoc_rv_ok : forall k v (l : list (key * rvalue)),
  rv_ok v -> Forall (fun kv => rv_ok (snd kv)) l -> Forall (fun kv => rv_ok (snd kv)) (set_assoc k v l).
Proof.
  induction l as [|[k' v'] l IH]; simpl; intros; auto. inv H0. destruct (key_eqb k k'); constructor; auto.
Qed.
Lemma merge_rv_ok : forall upd base,
  Forall (fun kv : key * rvalue => rv_ok (snd kv)) base -> Forall (fun kv : key * rvalue => rv_ok (snd kv)) upd ->
  Forall (fun kv : key * rvalue => rv_ok (snd kv)) (merge_rv base upd).
Proof.
  unfold merge_rv. induction upd as [|[k v] upd IH]; simpl; intros; auto. inv H0. apply IH; auto. apply set_assoc_rv_ok; auto.
Qed.
Lemma items_rv_ok : forall its : list (key * node), Forall (fun kv : key * rvalue => rv_ok (snd kv)) (map (fun kv => (fst kv, rv_of_item (snd kv))) its).
Proof. induction its as [|[k c] its IH]; simpl; constructor; auto. simpl. destruct c; simpl; auto. Qed.
Lemma dprim_fold_WFI : forall sc cp kvs st,
  WFI st -> Forall (fun kv : key * rvalue => rv_ok (snd kv)) kvs ->
  WFI (fold_left (fun s kv => fst (dprim q sc s cp (fst kv) (snd kv))) kvs st) /\
  ids_rel st (fold_left (fun s kv => fst (dprim q sc s cp (fst kv) (snd kv))) kvs st).
Proof.
  induction kvs as [|[k v] kvs IH]; simpl; intros st W F.
  - split; auto. apply ids_rel_refl.
  - inv F. simpl in H1. destruct (dprim q sc st cp k v) as [st1 p] eqn:D. simpl.
    pose proof (dprim_ids _ _ _ _ _ _ _ _ W H1 D) as R1.
    assert (W1 : WFI st1). { eapply WFI_step; eauto. destruct W. eapply dprim_wfs; eauto. }
    destruct (IH _ W1 H2). split; auto. eapply ids_rel_trans; eauto.
Qed.
Lemma new_dict_WFI : forall sc st kvs st' out,
  WFI st -> Forall (fun kv : key * rvalue => rv_ok (snd kv)) kvs -> new_dict q sc st kvs = (st', out) ->
  WFI st' /\ ids_rel st st'.
Proof.
  intros sc st kvs st' out W F E. unfold new_dict in E. inv E.
  set (st0 := add_root (with_next st (N.succ (next_id st))) (Node (next_id st) KDict None [] default_flags [])).
  assert (R0 : ids_rel st st0).
  { split. simpl. lia. exists [next_id st], []. rewrite app_nil_r. unfold st0. rewrite all_ids_add_root. simpl.
    repeat split; auto.
    - constructor; [lia|constructor].
    - constructor; auto. constructor. }
  assert (W0 : WFI st0).
  { eapply WFI_step; [exact W| |exact R0]. unfold st0. apply wfs_add_root; auto.
    - destruct W; auto.
    - apply wf_node_unfold. repeat split; auto. simpl. constructor. }
  destruct (dprim_fold_WFI sc (length (roots st), []) kvs st0 W0 F). split; auto. eapply ids_rel_trans; eauto.
Qed.

(* --- one operation of the extension ------------------------------------------------------------------------------------------------ *)
Definition xop_ok (x : xop rvalue) : Prop :=
  match x with
  | LSetSlice _ _ _ vs => Forall rv_ok vs
  | LDelSlice _ _ _ => True
  | DOr kvs | DROr kvs => Forall (fun kv : key * rvalue => rv_ok (snd kv)) kvs
  end.
Lemma resolve_xop_ok : forall st x rx, resolve_xop st x = Some rx -> xop_ok rx.
Proof.
  intros st x rx R. destruct x; simpl in R;
    repeat match goal with H : option_map _ ?y = Some _ |- _ => destruct y eqn:?; simpl in H; [|discriminate] end; inv R; simpl; auto.
  - eapply resolve_all_ok; eauto.
  - eapply resolve_kvs_ok; eauto.
  - eapply resolve_kvs_ok; eauto.
Qed.

Lemma exec_x_WFI : forall sc st ps tid tk pa pt fl its rx st' out,
  WFI st -> get_at st ps = Some (Node tid tk pa pt fl its) -> xkind_ok tk rx = true -> xop_ok rx ->
  exec_x q sc st ps fl its rx = (st', out) -> WFI st' /\ ids_rel st st'.
Proof.
  intros sc st ps tid tk pa pt fl its rx st' out W G K OK E.
  assert (T : WFI st /\ ids_rel st st) by (split; auto; apply ids_rel_refl).
  destruct rx; simpl in K, OK; destruct tk; try discriminate; unfold exec_x in E;
    try (destruct (treats_as_sealed sc fl); [inv E; exact T|]);
    try (destruct (negb (writable_via_accessors sc fl)); [inv E; exact T|]);
    try (destruct (PyList.slice_indices a b c (zlen its)) as [[[start stop] step]|]; [|inv E; exact T]).
  - (* l[a:b:c] = vs *)
    destruct (step =? 1).
    + destruct (write_loop q sc st ps (slice_writes start (Z.max start stop) vs) false) as [[st1 upd] err] eqn:WL.
      destruct (write_loop_WFI _ _ _ _ _ _ _ _ _ _ _ _ _ _ W (slice_writes_rv_ok _ _ _ OK) G WL) as (W1 & R1 & its1 & G1).
      destruct err; [inv E; auto|].
      destruct (ldel_many st1 ps (fun i => (start + zlen vs <=? i) && (i <? Z.max start stop))) as [st2 del] eqn:DM.
      destruct (ldel_many_WFI _ _ _ _ _ _ _ _ _ _ W1 G1 DM) as (W2 & R2 & _).
      inv E. destruct ((upd || del) && notify_on sc).
      * split. { eapply WFI_step; [exact W2| |apply fix_chain_rel]. apply fix_chain_wfs. apply W2. }
        eapply ids_rel_trans; [exact R1|]. eapply ids_rel_trans; [exact R2|apply fix_chain_rel].
      * split; auto. eapply ids_rel_trans; eauto.
    + destruct (negb (Nat.eqb (length (PyList.slice_range start stop step)) (length vs))); [inv E; exact T|].
      match type of E with context [write_loop ?a ?b ?c ?d ?e ?f] => destruct (write_loop a b c d e f) as [[st1 upd] err] eqn:WL end.
      assert (FZ : Forall (fun iv : Z * rvalue => rv_ok (snd iv))
                     (if step <? 0 then rev (PyList.zip (PyList.slice_range start stop step) vs) else PyList.zip (PyList.slice_range start stop step) vs)).
      { destruct (step <? 0); [apply Forall_rev|]; apply zip_rv_ok; auto. }
      destruct (write_loop_WFI _ _ _ _ _ _ _ _ _ _ _ _ _ _ W FZ G WL) as (W1 & R1 & _).
      destruct err; inv E; auto. destruct (upd && notify_on sc); auto.
      split. { eapply WFI_step; [exact W1| |apply fix_chain_rel]. apply fix_chain_wfs. apply W1. }
      eapply ids_rel_trans; [exact R1|apply fix_chain_rel].
  - (* del l[a:b:c] *)
    destruct (ldel_many st ps (fun i => PyList.zmem i (PyList.slice_range start stop step))) as [st1 del] eqn:DM.
    destruct (ldel_many_WFI _ _ _ _ _ _ _ _ _ _ W G DM) as (W1 & R1 & _).
    inv E. destruct (del && notify_on sc); auto.
    split. { eapply WFI_step; [exact W1| |apply fix_chain_rel]. apply fix_chain_wfs. apply W1. }
    eapply ids_rel_trans; [exact R1|apply fix_chain_rel].
  - (* d | m *)
    eapply new_dict_WFI; [exact W| |exact E]. apply merge_rv_ok; auto. apply items_rv_ok.
  - (* m | d *)
    eapply new_dict_WFI; [exact W| |exact E]. apply merge_rv_ok; auto. apply items_rv_ok.
Qed.

Theorem step_x_WFI : forall st sc ps x, WFI st -> WFI (fst (step_x q st sc ps x)) /\ ids_rel st (fst (step_x q st sc ps x)).
Proof.
  intros st sc ps x W. assert (T : WFI st /\ ids_rel st st) by (split; auto; apply ids_rel_refl).
  unfold step_x.
  destruct (get_at st ps) as [[|tid tk pa pt fl its]|] eqn:G; auto.
  destruct (xkind_ok tk x) eqn:K; auto. simpl.
  destruct (resolve_xop st x) as [rx|] eqn:R; auto.
  destruct (exec_x q sc st ps fl its rx) as [st' out] eqn:E. simpl.
  assert (K' : xkind_ok tk rx = true).
  { destruct x; simpl in R;
      repeat match goal with H : option_map _ ?y = Some _ |- _ => destruct y eqn:?; simpl in H; [|discriminate] end; inv R; auto. }
  destruct (exec_x_WFI _ _ _ _ _ _ _ _ _ _ _ _ W G K' (resolve_xop_ok _ _ _ R) E) as (W1 & R1).
  split.
  - eapply WFI_step; [exact W1| |apply gc_rel]. apply gc_wfs. apply W1.
  - eapply ids_rel_trans; [exact R1|apply gc_rel].
Qed.

Theorem step2_WFI : forall st o, WFI st -> WFI (fst (step2 q st o)).
Proof. intros st [o|sc ps x] W; simpl. apply step_WFI; auto. apply step_x_WFI; auto. Qed.
Theorem step2_rel : forall st o, WFI st -> ids_rel st (fst (step2 q st o)).
Proof. intros st [o|sc ps x] W; simpl. apply step_rel; auto. apply step_x_WFI; auto. Qed.
Theorem step2_WF : forall st o, WF st -> WF (fst (step2 q st o)).
Proof. intros. apply WF_WFI. apply step2_WFI. apply WF_WFI; auto. Qed.
Theorem run_ops2_WF : forall ops st, WF st -> WF (run_ops2 q st ops).
Proof. unfold run_ops2. induction ops; simpl; intros; auto. apply IHops. apply step2_WF; auto. Qed.
Theorem history2_WF : forall ls ops, forallb lit_valid ls = true -> WF (run_ops2 q (init_forest ls empty_state) ops).
Proof. intros. apply run_ops2_WF. apply WF_WFI. apply init_forest_WFI; auto. apply empty_WFI. Qed.
(* the base catalogue is a sub-language of op2 *)
Theorem step2_base : forall st o, step2 q st (Base o) = step q st o.
Proof. reflexivity. Qed.
End Ext.

(* ================= the frame property (C07 independence) over the extension ========================================================= *)
Section ExtFrame.
Variable q : quirks.

Lemma write_loop_keeps : forall sc st R ivs s ps upd s' u e,
  keeps st R s -> wfs s -> ~ protected st R (fst ps) ->
  Forall (fun iv : Z * rvalue => rv_ok (snd iv)) ivs -> Forall (fun iv : Z * rvalue => rv_foreign st R (snd iv)) ivs ->
  write_loop q sc s ps ivs upd = (s', u, e) -> keeps st R s'.
Proof.
  induction ivs as [|[i rv] ivs IH]; simpl; intros s ps upd s' u e K W NP OK F E. inv E; auto.
  inv OK. inv F. simpl in *.
  destruct (lprim q sc s ps (KI i) rv) as [s1 p] eqn:L.
  pose proof (lprim_keeps _ _ _ _ _ _ _ _ _ _ K W NP H3 L).
  pose proof (lprim_wfs _ _ _ _ _ _ _ _ W H1 L).
  destruct p; eauto. inv E; auto.
Qed.
Lemma ldel_many_keeps : forall st R s ps f s' b, keeps st R s -> ~ protected st R (fst ps) -> ldel_many s ps f = (s', b) -> keeps st R s'.
Proof.
  intros. unfold ldel_many in H1. destruct (PyList.filter_pos f 0 (cur_items s ps)) as [|g gone]. inv H1; auto.
  inv H1. apply (keeps_detach_all st R (g :: gone)). apply keeps_update_at; auto.
Qed.
Lemma slice_writes_foreign : forall st R rvs s e, Forall (rv_foreign st R) rvs ->
  Forall (fun iv : Z * rvalue => rv_foreign st R (snd iv)) (slice_writes s e rvs).
Proof. induction rvs; simpl; intros; auto. inv H. constructor; auto. simpl. destruct (s >=? e); simpl; auto. Qed.
Lemma zip_foreign : forall st R (idxs : list Z) rvs, Forall (rv_foreign st R) rvs ->
  Forall (fun iv : Z * rvalue => rv_foreign st R (snd iv)) (PyList.zip idxs rvs).
Proof. induction idxs; destruct rvs; simpl; intros; auto. inv H. constructor; auto. Qed.
Lemma set_assoc_foreign : forall st R k v (l : list (key * rvalue)),
  rv_foreign st R v -> Forall (fun kv => rv_foreign st R (snd kv)) l -> Forall (fun kv => rv_foreign st R (snd kv)) (set_assoc k v l).
Proof. induction l as [|[k' v'] l IH]; simpl; intros; auto. inv H0. destruct (key_eqb k k'); constructor; auto. Qed.
Lemma merge_foreign : forall st R upd base,
  Forall (fun kv : key * rvalue => rv_foreign st R (snd kv)) base -> Forall (fun kv : key * rvalue => rv_foreign st R (snd kv)) upd ->
  Forall (fun kv : key * rvalue => rv_foreign st R (snd kv)) (merge_rv base upd).
Proof.
  unfold merge_rv. induction upd as [|[k v] upd IH]; simpl; intros; auto. inv H0. apply IH; auto. apply set_assoc_foreign; auto.
Qed.
Lemma items_foreign : forall st R ps tid tk pa pt fl its,
  WFI st -> ~ protected st R (fst ps) -> get_at st ps = Some (Node tid tk pa pt fl its) ->
  Forall (fun kv : key * rvalue => rv_foreign st R (snd kv)) (map (fun kv => (fst kv, rv_of_item (snd kv))) its).
Proof.
  intros. pose proof (rv_of_item_foreign _ _ _ _ _ _ _ _ _ H H0 H1) as F.
  clear - F. induction its; simpl in *; auto. inv F. constructor; auto.
Qed.
Lemma dprim_fold_keeps : forall sc st R cp kvs s,
  keeps st R s -> wfs s -> ~ protected st R (fst cp) ->
  Forall (fun kv : key * rvalue => rv_ok (snd kv)) kvs -> Forall (fun kv : key * rvalue => rv_foreign st R (snd kv)) kvs ->
  keeps st R (fold_left (fun s kv => fst (dprim q sc s cp (fst kv) (snd kv))) kvs s).
Proof.
  induction kvs as [|[k v] kvs IH]; simpl; intros s K W NP OK F; auto. inv OK. inv F. simpl in *.
  destruct (dprim q sc s cp k v) as [s1 p] eqn:D. simpl.
  apply IH; auto.
  - eapply dprim_keeps; eauto.
  - eapply dprim_wfs; eauto.
Qed.
Lemma new_dict_keeps : forall sc st R kvs st' out,
  wfs st -> Forall (fun kv : key * rvalue => rv_ok (snd kv)) kvs -> Forall (fun kv : key * rvalue => rv_foreign st R (snd kv)) kvs ->
  new_dict q sc st kvs = (st', out) -> keeps st R st'.
Proof.
  intros sc st R kvs st' out W OK F E. unfold new_dict in E. inv E.
  apply dprim_fold_keeps; auto.
  - apply keeps_add_root. apply keeps_with_next. apply keeps_refl.
  - apply wfs_add_root; auto. apply wf_node_unfold. repeat split; auto. simpl. constructor.
  - simpl. intros (_ & t & E). assert (length (roots st) < length (roots st))%nat by (apply nth_error_Some; congruence). lia.
Qed.

Definition xop_roots (x : xop value) : list nat :=
  match x with
  | LSetSlice _ _ _ vs => flat_map value_roots vs
  | LDelSlice _ _ _ => []
  | DOr kvs | DROr kvs => flat_map (fun kv => value_roots (snd kv)) kvs
  end.
Definition xop_foreign (st : state) (R : list nat) (x : xop rvalue) : Prop :=
  match x with
  | LSetSlice _ _ _ vs => Forall (rv_foreign st R) vs
  | LDelSlice _ _ _ => True
  | DOr kvs | DROr kvs => Forall (fun kv : key * rvalue => rv_foreign st R (snd kv)) kvs
  end.
Lemma resolve_xop_foreign : forall st R x rx,
  NoDup (all_ids st) -> (forall r, In r (xop_roots x) -> In r R) -> resolve_xop st x = Some rx -> xop_foreign st R rx.
Proof.
  intros. destruct x; simpl in H1;
    repeat match goal with H : option_map _ ?y = Some _ |- _ => destruct y eqn:?; simpl in H; [|discriminate] end;
    inv H1; simpl; eauto using resolve_all_foreign, resolve_kvs_foreign.
Qed.

Lemma exec_x_keeps : forall sc st R ps tid tk pa pt fl its rx st' out,
  WFI st -> get_at st ps = Some (Node tid tk pa pt fl its) -> In (fst ps) R -> xkind_ok tk rx = true ->
  xop_ok rx -> xop_foreign st R rx -> exec_x q sc st ps fl its rx = (st', out) -> keeps st R st'.
Proof.
  intros sc st R ps tid tk pa pt fl its rx st' out W G INR K OK FO E.
  assert (NP : ~ protected st R (fst ps)) by (intros (NI & _); auto).
  pose proof (keeps_refl st R) as K0.
  destruct rx; simpl in K, OK, FO; destruct tk; try discriminate; unfold exec_x in E;
    try (destruct (treats_as_sealed sc fl); [inv E; exact K0|]);
    try (destruct (negb (writable_via_accessors sc fl)); [inv E; exact K0|]);
    try (destruct (PyList.slice_indices a b c (zlen its)) as [[[start stop] step]|]; [|inv E; exact K0]).
  - destruct (step =? 1).
    + destruct (write_loop q sc st ps (slice_writes start (Z.max start stop) vs) false) as [[st1 upd] err] eqn:WL.
      pose proof (write_loop_keeps _ _ _ _ _ _ _ _ _ _ K0 (proj1 W) NP (slice_writes_rv_ok _ _ _ OK) (slice_writes_foreign _ _ _ _ _ FO) WL) as K1.
      destruct err; [inv E; auto|].
      destruct (ldel_many st1 ps (fun i => (start + zlen vs <=? i) && (i <? Z.max start stop))) as [st2 del] eqn:DM.
      pose proof (ldel_many_keeps _ _ _ _ _ _ _ K1 NP DM) as K2.
      inv E. destruct ((upd || del) && notify_on sc); auto. apply keeps_fix_chain; auto.
    + destruct (negb (Nat.eqb (length (PyList.slice_range start stop step)) (length vs))); [inv E; exact K0|].
      match type of E with context [write_loop ?a ?b ?c ?d ?e ?f] => destruct (write_loop a b c d e f) as [[st1 upd] err] eqn:WL end.
      assert (K1 : keeps st R st1).
      { eapply write_loop_keeps; [exact K0|exact (proj1 W)|exact NP| | |exact WL].
        - destruct (step <? 0); [apply Forall_rev|]; apply zip_rv_ok; auto.
        - destruct (step <? 0); [apply Forall_rev|]; apply zip_foreign; auto. }
      destruct err; inv E; auto. destruct (upd && notify_on sc); auto. apply keeps_fix_chain; auto.
  - destruct (ldel_many st ps (fun i => PyList.zmem i (PyList.slice_range start stop step))) as [st1 del] eqn:DM.
    pose proof (ldel_many_keeps _ _ _ _ _ _ _ K0 NP DM) as K1.
    inv E. destruct (del && notify_on sc); auto. apply keeps_fix_chain; auto.
  - eapply new_dict_keeps; [exact (proj1 W)| | |exact E].
    + apply merge_rv_ok; auto. apply items_rv_ok.
    + apply merge_foreign; auto. eapply items_foreign; eauto.
  - eapply new_dict_keeps; [exact (proj1 W)| | |exact E].
    + apply merge_rv_ok; auto. apply items_rv_ok.
    + apply merge_foreign; auto. eapply items_foreign; eauto.
Qed.

Definition touched2 (o : op2) : list nat :=
  match o with Base o' => touched o' | Ext _ ps x => fst ps :: xop_roots x end.
Theorem frame2 : forall st o r t,
  WFI st -> ~ In r (touched2 o) -> nth_error (roots st) r = Some (Live t) ->
  nth_error (roots (fst (step2 q st o))) r = Some (Live t).
Proof.
  intros st [o|sc ps x] r t WI NI E; simpl. apply frame; auto.
  unfold step_x.
  destruct (get_at st ps) as [[|tid tk pa pt fl its]|] eqn:G; auto.
  destruct (xkind_ok tk x) eqn:K; auto. simpl.
  destruct (resolve_xop st x) as [rx|] eqn:R; auto.
  destruct (exec_x q sc st ps fl its rx) as [st' out] eqn:X. simpl.
  assert (KE : keeps st (fst ps :: xop_roots x) st').
  { eapply exec_x_keeps; [exact WI|exact G|simpl; auto| | | |exact X].
    - destruct x; simpl in R;
        repeat match goal with H : option_map _ ?y = Some _ |- _ => destruct y eqn:?; simpl in H; [|discriminate] end; inv R; auto.
    - eapply resolve_xop_ok; eauto.
    - destruct WI as (_ & ND & _). eapply resolve_xop_foreign; eauto. intros; simpl; auto. }
  destruct KE as (L & KK). specialize (KK _ _ NI E).
  assert (r < length (roots st))%nat by (apply nth_error_Some; congruence).
  rewrite nth_error_app1.
  - rewrite nth_error_firstn_lt; auto.
  - rewrite firstn_length. lia.
Qed.
Theorem frame2_history : forall ops st r t,
  WF st -> Forall (fun o => ~ In r (touched2 o)) ops -> nth_error (roots st) r = Some (Live t) ->
  nth_error (roots (run_ops2 q st ops)) r = Some (Live t).
Proof.
  unfold run_ops2. induction ops; simpl; intros; auto. inv H0.
  apply IHops; auto. apply step2_WF; auto. apply frame2; auto; try (apply WF_WFI; auto).
Qed.
Theorem frame2_WF : forall st o r t,
  WF st -> ~ In r (touched2 o) -> nth_error (roots st) r = Some (Live t) ->
  nth_error (roots (fst (step2 q st o))) r = Some (Live t).
Proof. intros. apply frame2; auto; try (apply WF_WFI; auto). Qed.
End ExtFrame.

(* ================= write protection (C08) over the extension ========================================================================== *)
(* slice assignment and slice deletion are writes through accessors: refused, with the whole state unchanged, on a list that is
   treated as sealed or whose accessors are not writable; d | m and m | d only read the target *)
Definition slice_write {V} (x : xop V) : bool := match x with LSetSlice _ _ _ _ | LDelSlice _ _ _ => true | _ => false end.
Theorem slice_write_refused : forall q st sc ps x tid pa pt fl its,
  get_at st ps = Some (Node tid KList pa pt fl its) -> slice_write x = true ->
  treats_as_sealed sc fl = true \/ writable_via_accessors sc fl = false ->
  (exists rx, resolve_xop st x = Some rx) ->
  step_x q st sc ps x = (st, Err EWrite).
Proof.
  intros q st sc ps x tid pa pt fl its G S P [rx R]. unfold step_x. rewrite G.
  destruct x; try discriminate; simpl in R |- *;
    repeat match goal with H : option_map _ ?y = Some _ |- _ => destruct y eqn:?; simpl in H; [|discriminate] end; inv R; simpl;
    (destruct P as [P|P]; rewrite P; simpl; [|destruct (treats_as_sealed sc fl); simpl]); rewrite gc_same; reflexivity.
Qed.

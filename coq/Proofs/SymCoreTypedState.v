(* SymCoreTypedState.v — the schema invariant and the state surgery of SymCore (roots, update_at, detaching, gc). *)
From Coq Require Import ZArith NArith List Bool.
Import ListNotations.
From PG Require Import Common.Tactics Model.SymCoreDefs Model.SymCoreOps Model.SymCoreTyped.
From PG Require Import Proofs.SymCoreBase Proofs.SymCoreWF Proofs.SymCoreWFOps Proofs.SymCoreTypedBase Proofs.SymCoreTypedConf.
From PG Require Model.Typing.
Local Open Scope Z_scope.

Section State.
Variable ev : env.
Variable P : bool.
Notation cnode := (cnode ev P).
Notation node_ok := (node_ok ev P).
Notation Conforms := (Conforms ev P).
Notation cslot := (cslot ev P).

Lemma conforms_get_root : forall st r t, Conforms st -> get_root st r = Some t -> cnode t.
Proof.
  intros st r t C G. unfold get_root in G. destruct (nth_error (roots st) r) as [[x|]|] eqn:E; try discriminate.
  inv G. apply nth_error_In in E. unfold Conforms in C. rewrite Forall_forall in C. exact (C _ E).
Qed.
Lemma conforms_get_at : forall st ps n, Conforms st -> get_at st ps = Some n -> cnode n.
Proof.
  intros st ps n C G. unfold get_at in G. destruct (get_root st (fst ps)) eqn:R; [|discriminate].
  eapply cnode_get_in; [|exact G]. eapply conforms_get_root; eauto.
Qed.

Lemma Forall_set_nth_gen : forall A (Q : A -> Prop) n x l, Q x -> Forall Q l -> Forall Q (set_nth n x l).
Proof. intros. apply Forall_set_nth; auto. Qed.

Lemma conforms_set_root : forall st r s, Conforms st -> cslot s -> Conforms (set_root st r s).
Proof. intros. unfold Conforms, set_root in *. simpl. apply Forall_set_nth; auto. Qed.
Lemma conforms_with_next : forall st nx, Conforms st -> Conforms (with_next st nx).
Proof. auto. Qed.
Lemma conforms_add_root : forall st t, Conforms st -> cnode t -> Conforms (add_root st t).
Proof. intros. unfold Conforms, add_root in *. simpl. apply Forall_app; split; auto. Qed.
Lemma conforms_add_slot : forall st s, Conforms st -> cslot s -> Conforms (add_slot st s).
Proof. intros. unfold Conforms, add_slot in *. simpl. apply Forall_app; split; auto. Qed.

Lemma restore_slot_conf : forall i t rs rs', Forall cslot rs -> cnode t -> restore_slot i t rs = Some rs' -> Forall cslot rs'.
Proof.
  induction rs as [|s r IH]; intros rs' F C R; simpl in R; [discriminate|].
  inv F. destruct s as [x|j].
  - destruct (restore_slot i t r) eqn:E; [|discriminate]. inv R. constructor; auto.
  - destruct (N.eqb i j).
    + inv R. constructor; auto.
    + destruct (restore_slot i t r) eqn:E; [|discriminate]. inv R. constructor; auto.
Qed.
Lemma conforms_add_detached : forall st n, Conforms st -> cnode n -> Conforms (add_detached st n).
Proof.
  intros st n C Cn. unfold add_detached. destruct n as [l|i k pa pt fl its]; auto.
  assert (Cd : cnode (detach (Node i k pa pt fl its))) by (apply cnode_detach; auto).
  destruct (restore_slot i (detach (Node i k pa pt fl its)) (roots st)) eqn:R.
  - unfold Conforms. simpl. eapply restore_slot_conf; eauto.
  - apply conforms_add_root; auto.
Qed.
Lemma detach_all_conf : forall its st, Conforms st -> Forall (fun kc => cnode (snd kc)) its -> Conforms (detach_all st its).
Proof.
  unfold detach_all. induction its as [|kc r IH]; intros st C F; simpl; auto.
  inv F. apply IH; auto. apply conforms_add_detached; auto.
Qed.

Lemma gc_slots_conf : forall base keep rs, Forall cslot rs -> Forall cslot (gc_slots base keep rs).
Proof.
  induction rs as [|s r IH]; intros F; simpl; auto. inv F. destruct s as [t|j]; auto.
  destruct (negb keep && match nid t with Some i => N.leb base i | None => false end); auto.
Qed.
Lemma Forall_firstn : forall A (Q : A -> Prop) n l, Forall Q l -> Forall Q (firstn n l).
Proof. induction n; destruct l; simpl; intros; auto. inv H. constructor; auto. Qed.
Lemma Forall_skipn : forall A (Q : A -> Prop) n l, Forall Q l -> Forall Q (skipn n l).
Proof. induction n; destruct l; simpl; intros; auto. inv H. auto. Qed.
Lemma conforms_gc : forall n base keep st, Conforms st -> Conforms (gc n base keep st).
Proof.
  intros. unfold Conforms, gc in *. simpl. apply Forall_app. split.
  - apply Forall_firstn; auto.
  - apply gc_slots_conf. apply Forall_skipn; auto.
Qed.

(* --- rewriting the node at a position ------------------------------------------------------------------------ *)
Lemma update_in_none : forall p f t, get_in p t = None -> update_in p f t = t.
Proof.
  induction p as [|k r IH]; intros f t G; simpl in *; [discriminate|].
  destruct t as [l|i kd pa pt fl its]; auto. simpl in G. f_equal.
  induction its as [|[k' c] its' IHi]; simpl in *; auto.
  destruct (key_eqb k k').
  - rewrite IH; auto.
  - rewrite IHi; auto.
Qed.

Lemma face_update_in : forall p f t m, get_in p t = Some m -> same_face m (f m) -> same_face t (update_in p f t).
Proof.
  destruct p as [|k r]; intros f t m G S; simpl in *.
  - inv G; auto.
  - destruct t; simpl; auto.
Qed.
Lemma is_missing_update_in : forall p f t m, get_in p t = Some m -> is_missing (f m) = is_missing m ->
  is_missing (update_in p f t) = is_missing t.
Proof.
  destruct p as [|k r]; intros f t m G S; simpl in *.
  - inv G; auto.
  - destruct t; simpl; auto.
Qed.

Lemma faces_refl : forall its, faces its its.
Proof. unfold faces. induction its; constructor; auto. split; auto. apply same_face_refl. Qed.
Lemma map_assoc_faces : forall k g (its : list (key * node)),
  (forall c, assoc k its = Some c -> same_face c (g c)) -> faces its (map_assoc k g its).
Proof.
  intros k g its H. unfold faces. induction its as [|[k' c] r IH]; simpl in *; [constructor|].
  destruct (key_eqb k k') eqn:E; rewrite ?E in H.
  - constructor; [simpl; split; auto|apply faces_refl].
  - constructor; [simpl; split; auto; apply same_face_refl|]. apply IH. auto.
Qed.
Lemma map_assoc_count : forall k g (its : list (key * node)),
  (forall c, assoc k its = Some c -> is_missing (g c) = is_missing c) -> count_present (map_assoc k g its) = count_present its.
Proof.
  intros k g its H. unfold count_present, zlen. f_equal.
  induction its as [|[k' c] r IH]; simpl in *; auto.
  destruct (key_eqb k k') eqn:E; rewrite ?E in H; simpl.
  - rewrite H by auto. destruct (negb (is_missing c)); simpl; auto.
  - destruct (negb (is_missing c)); simpl; rewrite IH; auto.
Qed.

Lemma cnode_update_in : forall p f t m,
  cnode t -> get_in p t = Some m -> cnode (f m) -> same_face m (f m) -> is_missing (f m) = is_missing m ->
  cnode (update_in p f t).
Proof.
  induction p as [|k r IH]; intros f t m C G Cf S M; simpl in *.
  - inv G; auto.
  - destruct t as [l|i kd pa pt fl its]; auto. simpl in G.
    destruct (assoc k its) as [c|] eqn:A; [|discriminate].
    apply cnode_node in C. destruct C as (NO & F). apply cnode_node. split.
    + eapply node_ok_faces; [| |exact NO].
      * apply map_assoc_faces. intros c' A'. rewrite A in A'. inv A'. eapply face_update_in; eauto.
      * symmetry. apply map_assoc_count. intros c' A'. rewrite A in A'. inv A'. eapply is_missing_update_in; eauto.
    + apply Forall_map_assoc_first; auto. intros v k' A' E Cc. simpl in *.
      rewrite A in A'. inv A'. eapply IH; eauto.
Qed.
End State.

Section Replace.
Variable ev : env.
Variable P : bool.
Notation cnode := (cnode ev P).
Notation node_ok := (node_ok ev P).
Notation Conforms := (Conforms ev P).

Lemma conforms_update_at : forall st ps f m,
  Conforms st -> get_at st ps = Some m -> cnode (f m) -> same_face m (f m) -> is_missing (f m) = is_missing m ->
  Conforms (update_at st ps f).
Proof.
  intros st ps f m C G Cf S M. unfold update_at. unfold get_at in G.
  destruct (get_root st (fst ps)) as [t|] eqn:R; [|discriminate].
  apply conforms_set_root; auto. simpl. eapply cnode_update_in; eauto. eapply conforms_get_root; eauto.
Qed.
(* a function that keeps every conforming node conforming, with its face *)
Lemma conforms_update_at_total : forall st ps f,
  Conforms st -> (forall m, cnode m -> cnode (f m) /\ same_face m (f m) /\ is_missing (f m) = is_missing m) ->
  Conforms (update_at st ps f).
Proof.
  intros st ps f C H. destruct (get_at st ps) as [m|] eqn:G.
  - destruct (H m (conforms_get_at _ _ _ _ _ C G)) as (A & B & D). eapply conforms_update_at; eauto.
  - unfold update_at. unfold get_at in G. destruct (get_root st (fst ps)) as [t|] eqn:R; auto.
    rewrite update_in_none by auto. apply conforms_set_root; auto. simpl. eapply conforms_get_root; eauto.
Qed.

Lemma conforms_replace_items : forall st st1 cp cid ck pa pt fl its its',
  Conforms st1 -> get_at st cp = Some (Node cid ck pa pt fl its) ->
  (get_root st1 (fst cp) = None \/ get_root st1 (fst cp) = get_root st (fst cp)) ->
  node_ok ck fl its' -> Forall (fun kc => cnode (snd kc)) its' ->
  Conforms (update_at st1 cp (set_items its')).
Proof.
  intros st st1 cp cid ck pa pt fl its its' C G [E|E] NO F.
  - unfold update_at. rewrite E. auto.
  - eapply conforms_update_at with (m := Node cid ck pa pt fl its); eauto.
    + unfold get_at in *. rewrite E. auto.
    + simpl set_items. apply cnode_node. auto.
    + simpl. auto.
Qed.

(* a node that does not check its members conforms whatever its members are *)
Lemma node_ok_any : forall i k pa pt fl its its',
  checks_members ev (Node i k pa pt fl its) = false -> node_ok k fl its -> node_ok k fl its'.
Proof.
  intros i k pa pt fl its its' CM H. unfold SymCoreTypedConf.node_ok in *. unfold checks_members, node_spec in CM.
  destruct (spec_at ev (f_spec fl)) as [sp|]; auto.
  destruct k; destruct sp; try contradiction; try discriminate; auto; destruct schema; try contradiction; try discriminate; auto.
Qed.
End Replace.

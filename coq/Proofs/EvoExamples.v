(* EvoExamples.v — the hypotheses of the C14 theorems are satisfiable: concrete inputs, evaluated by vm_compute. *)
From PG Require Import Common.Tactics Model.Geno Model.Evo Model.EvoOps Proofs.EvoBase.

Definition nm0 : pname := ([], None).
Definition E0 : dspec := Space [].
(* x = manyof(2, [oneof([a, b]), c, d], distinct, sorted);  y = floatv(0, 2);  z = manyof(3, [..3], distinct)  (a permutation) *)
Definition s0 : dspec :=
  Space [Choices 2 [Space [Choices 1 [E0; E0] false false nm0 []]; E0; E0] true true nm0 [];
         FloatP 0%Z 128%Z nm0;
         Choices 3 [E0; E0; E0] true false nm0 []].
Definition d0 : sdna := SSpace [PChoices [(0, SSpace [PChoices [(1, SSpace [])]]); (2, SSpace [])]; PFloat 64%Z; PChoices [(2, SSpace []); (0, SSpace []); (1, SSpace [])]].
Definition d1 : sdna := SSpace [PChoices [(1, SSpace []); (2, SSpace [])]; PFloat 32%Z; PChoices [(0, SSpace []); (1, SSpace []); (2, SSpace [])]].
Definition wall : nwhere := {| w_choice := true; w_float := true; w_custom := true |}.
Definition pop0 : list item := [It {| iid := 0; idna := d0; ifit := Some 64%Z |}; It {| iid := 1; idna := d1; ifit := Some 128%Z |}].

Example ex_wf : wf s0 = true. Proof. vm_compute. reflexivity. Qed.
Example ex_valid : valid s0 d0 = true /\ valid s0 d1 = true. Proof. split; vm_compute; reflexivity. Qed.
Example ex_pop_ok : pop_ok s0 pop0. Proof. repeat constructor. Qed.
Example ex_weights : forall w ws, weights_of w pop0 = Ok ws -> Forall (fun x => (0 <= x)%Z) ws.
Proof. intros [| |] ws H; vm_compute in H; inv H; repeat constructor; discriminate. Qed.
(* the model runs on them: Uniform mutation, Swap, Uniform crossover, PMX, and a composed expression *)
Example ex_mutate : exists d, mutate_uniform unit first_rng wall s0 d0 tt = Ok (d, tt) /\ d <> d0 /\ valid s0 d = true.
Proof. eexists. split. vm_compute. reflexivity. split. discriminate. vm_compute. reflexivity. Qed.
Example ex_swap : exists d, mutate_swap unit first_rng wall s0 d0 tt = Ok (d, tt) /\ d <> d0 /\ valid s0 d = true.
Proof. eexists. split. vm_compute. reflexivity. split. discriminate. vm_compute. reflexivity. Qed.
Example ex_uniform_crossover : exists cs, pointwise unit first_rng PWUniform WAll [] s0 [d0; d1] tt = Ok (cs, tt) /\ length cs = 1.
Proof. eexists. split. vm_compute. reflexivity. reflexivity. Qed.
Example ex_pmx : exists cs, permutation unit first_rng KPmx WAll s0 d0 d1 tt = Ok (Some cs, tt) /\ length cs = 4.
Proof. eexists. split. vm_compute. reflexivity. reflexivity. Qed.
Definition x0 : opx :=
  Pipe (Union_ (Prim (PSel (STop (NInt 1) false))) (Prim (PSel (SFirst (NInt 1)))))
       (Concat (Prim (PMut (MUniform wall))) (Repeat 2 (Prim (PRec (RKPoint 1))))).
Example ex_eval : exists out st, eval unit first_rng s0 x0 pop0 ((tt, 2), []) = Ok (out, st) /\ length out = 6.
Proof. eexists. eexists. split. vm_compute. reflexivity. reflexivity. Qed.

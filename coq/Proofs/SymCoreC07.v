(* SymCoreC07.v — clone fidelity and independence (property C07). *)
From PG Require Import Common.Tactics Model.SymCoreDefs Model.SymCoreOps Model.SymCoreSpec Proofs.SymCoreBase Proofs.SymCoreC08.
From Coq Require Import NArith.
Local Open Scope Z_scope.

(* cloning never modifies what exists: the step only appends the copy *)
Lemma gc_keep : forall st st' c,
  roots st' = roots st ++ [Live c] ->
  roots (gc (length (roots st)) (next_id st) true st') = roots st ++ [Live c].
Proof.
  intros. unfold gc; simpl. rewrite H.
  rewrite firstn_app, firstn_all, Nat.sub_diag. simpl. rewrite app_nil_r.
  rewrite skipn_app, skipn_all, Nat.sub_diag. simpl. reflexivity.
Qed.
Theorem clone_appends : forall q st o m,
  o_op o = Clone m ->
  roots (fst (step q st o)) = roots st \/ exists c, roots (fst (step q st o)) = roots st ++ [Live c].
Proof.
  intros q st o m E.
  destruct (get_at st (o_pos o)) as [[|tid tk pa pt fl its]|] eqn:G; try (left; unfold step; rewrite G; reflexivity).
  right. unfold step. rewrite G, E. Opaque clone_at. simpl.
  match goal with |- context [clone_at ?a1 ?a2 ?a3 ?a4 ?a5] => destruct (clone_at a1 a2 a3 a4 a5) as [c cs] eqn:C end. simpl.
  Transparent clone_at.
  exists c. rewrite firstn_app, firstn_all, Nat.sub_diag, skipn_app, skipn_all, Nat.sub_diag. simpl.
  rewrite app_nil_r. reflexivity.
Qed.

(* --- what a clone / copy step does, exactly ------------------------------------------------------------------------------ *)
From PG Require Import Proofs.SymCoreWF Proofs.SymCoreClone Proofs.SymCoreWFOps.

Theorem clone_step : forall q st o m tid tk pa pt fl its,
  o_op o = Clone m -> get_at st (o_pos o) = Some (Node tid tk pa pt fl its) ->
  let r := clone_at (q_copy_drops_missing q) (N.eqb m 1 || N.eqb m 3) None [] (Node tid tk pa pt fl its) (next_id st, []) in
  roots (fst (step q st o)) = roots st ++ [Live (fst r)] /\
  next_id (fst (step q st o)) = fst (snd r) /\
  snd (step q st o) = Ok (RPos (length (roots st), [])).
Proof.
  intros q st o m tid tk pa pt fl its E G. cbv zeta.
  unfold step. rewrite G, E. simpl.
  rewrite (clone_at_ignores_header _ _ _ _ tid tk None [] fl its tid pa pt).
  destruct (clone_at _ _ None [] (Node tid tk pa pt fl its) (next_id st, [])) as [c cs] eqn:C. simpl.
  rewrite firstn_app, firstn_all, Nat.sub_diag, skipn_app, skipn_all, Nat.sub_diag. simpl.
  rewrite app_nil_r. auto.
Qed.
(* copy.copy is clone(), copy.deepcopy is clone(deep=True): the same step *)
Theorem copy_is_clone : forall q st sc ps,
  step q st (mkSop sc ps (Clone 2)) = step q st (mkSop sc ps (Clone 0)) /\
  step q st (mkSop sc ps (Clone 3)) = step q st (mkSop sc ps (Clone 1)).
Proof. intros; split; reflexivity. Qed.
(* Dict.copy() is a shallow clone as well *)
Theorem dict_copy_is_clone : forall q st sc ps tid pa pt fl its,
  get_at st ps = Some (Node tid KDict pa pt fl its) ->
  step q st (mkSop sc ps DCopy) = step q st (mkSop sc ps (Clone 0)).
Proof. intros. unfold step. simpl. rewrite H. reflexivity. Qed.

(* the open finding: with the quirk flag on, the copy of a list that holds MISSING_VALUE is a different value *)
Definition refute_list : node := Node 5%N KList None [] (mkFlags false true false 0) [(KI 0, Leaf (LInt 1)); (KI 1, Leaf LMissing)].
Lemma clone_equal_refuted :
  erase (fst (clone_at true false None [] refute_list (9%N, []))) <> erase refute_list.
Proof. Transparent clone_at. vm_compute. Opaque clone_at. discriminate. Qed.

(* SymCoreC07.v — clone fidelity and independence (property C07). *)
From PG Require Import Common.Tactics Model.SymCoreDefs Model.SymCoreOps Model.SymCoreSpec Proofs.SymCoreBase Proofs.SymCoreC08.
From Coq Require Import NArith.
Local Open Scope Z_scope.

(* cloning never modifies what exists: the step only appends the copy *)
Lemma gc_keep : forall st st' c,
  roots st' = roots st ++ [Live c] ->
  roots (gc (length (roots st)) (next_id st) true st') = roots st ++ [Live c].
Proof.
  intros. unfold gc; simpl. rewrite H.
  rewrite firstn_app, firstn_all, Nat.sub_diag. simpl. rewrite app_nil_r.
  rewrite skipn_app, skipn_all, Nat.sub_diag. simpl. reflexivity.
Qed.
Theorem clone_appends : forall q st o m,
  o_op o = Clone m ->
  roots (fst (step q st o)) = roots st \/ exists c, roots (fst (step q st o)) = roots st ++ [Live c].
Proof.
  intros q st o m E.
  destruct (get_at st (o_pos o)) as [[|tid tk pa pt fl its]|] eqn:G; try (left; unfold step; rewrite G; reflexivity).
  right. unfold step. rewrite G, E. Opaque clone_at. simpl.
  match goal with |- context [clone_at ?a1 ?a2 ?a3 ?a4 ?a5] => destruct (clone_at a1 a2 a3 a4 a5) as [c cs] eqn:C end. simpl.
  Transparent clone_at.
  exists c. rewrite firstn_app, firstn_all, Nat.sub_diag, skipn_app, skipn_all, Nat.sub_diag. simpl.
  rewrite app_nil_r. reflexivity.
Qed.
